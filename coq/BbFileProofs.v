(* C15: the printer of the REPAIRED code is total and memory-safe on every file (print_total). *)
From Coq Require Import ZArith List Bool Lia ZifyBool FMapPositive.
Import ListNotations.
Require Import Verif.gen.Consts_rb Verif.gen.Consts_bbfile Verif.RbModel Verif.RbMem Verif.BbFileModel.
Local Open Scope Z_scope.

Ltac Zify.zify_post_hook ::= Z.div_mod_to_equations.

(* relations between the regenerated constants that the proofs use *)
Lemma bbf_consts_ok :
  BBF_CHUNK_BUF = 2 * BBF_LOG_MAX_LEN /\ 0 < BBF_CHUNK_BUF <= RB_PAGE_SIZE /\ BBF_SIZEOF_U32 = 4 /\
  3 * BBF_SIZEOF_U32 + 1 + BBF_SIZEOF_TIME_T + BBF_SIZEOF_U32 <= BBF_MIN_ENTRY_SIZE /\ BBF_MIN_ENTRY_SIZE <= BBF_CHUNK_BUF /\
  0 < BBF_SIZEOF_TIME_T /\ BBF_SIZEOF_TIME_T = 8 /\ BBF_SIZEOF_TIMESPEC = 16 /\ 1 <= BBF_LOG_MAX_LEN /\
  BBF_FILE_HDR_SIZE = 20 /\ RB_SIZEOF_WORD = 4 /\ RB_PAGE_SIZE mod 4 = 0 /\ RB_CHUNK_HEADER_WORDS = 2 /\
  RB_CHUNK_MARGIN + RB_SIZE_EXTRA = 13 /\ RB_CHUNK_MAGIC <> RB_CHUNK_MAGIC_DEAD /\ RB_CHUNK_MAGIC <> 0 /\
  0 <= RB_CHUNK_MAGIC_DEAD < two32 /\ RB_WORD_ALIGN = 1.
Proof. vm_compute. repeat split; congruence. Qed.

Ltac bbc := unfold BBF_CHUNK_BUF, BBF_LOG_MAX_LEN, BBF_SIZEOF_U32, BBF_MIN_ENTRY_SIZE, BBF_SIZEOF_TIME_T,
  BBF_SIZEOF_TIMESPEC, BBF_FILE_HDR_SIZE, BBF_EIO, RB_SIZEOF_WORD, RB_PAGE_SIZE, RB_CHUNK_HEADER_WORDS,
  RB_CHUNK_MARGIN, RB_SIZE_EXTRA, RB_WORD_ALIGN, RB_ETIMEDOUT, RB_ENOBUFS in *.

(* ------------------------------------------------------------------ memory holds bytes *)
Definition bytes_ok (m : mem) : Prop := forall a, 0 <= a -> 0 <= ld m a < 256.

Lemma ld_mem0 : forall a, ld mem0 a = 0.
Proof. intros. Transparent ld. unfold ld, mem0. rewrite PositiveMap.gempty. reflexivity. Opaque ld. Qed.

Lemma bytes_ok_mem0 : bytes_ok mem0.
Proof. intros a _. rewrite ld_mem0. lia. Qed.

Lemma bytes_ok_st : forall m k v, bytes_ok m -> 0 <= k -> 0 <= v < 256 -> bytes_ok (st m k v).
Proof.
  intros m k v Hm Hk Hv a Ha. destruct (Z.eq_dec k a) as [->|Hne].
  - rewrite ld_st_same. exact Hv.
  - rewrite ld_st_other by assumption. apply Hm; assumption.
Qed.

Lemma bytes_ok_stw : forall m i v, bytes_ok m -> 0 <= i -> bytes_ok (stw m i v).
Proof.
  intros m i v Hm Hi. unfold stw.
  repeat (apply bytes_ok_st; [ | lia | apply Z.mod_pos_bound; lia ]). exact Hm.
Qed.

Lemma bytes_ok_write_bytes : forall d m W4 a, bytes_ok m -> 0 < W4 -> Forall (fun x => 0 <= x < 256) d ->
  bytes_ok (write_bytes m W4 a d).
Proof.
  induction d as [|x t IH]; intros m W4 a Hm HW Hd; cbn [write_bytes]; [exact Hm|].
  inversion Hd; subst. apply IH; try assumption.
  apply bytes_ok_st; try assumption. apply Z.mod_pos_bound; lia.
Qed.

Lemma ldw_range : forall m i, bytes_ok m -> 0 <= i -> 0 <= ldw m i < two32.
Proof.
  intros m i Hm Hi. unfold ldw, two32.
  pose proof (Hm (4 * i) ltac:(lia)). pose proof (Hm (4 * i + 1) ltac:(lia)).
  pose proof (Hm (4 * i + 2) ltac:(lia)). pose proof (Hm (4 * i + 3) ltac:(lia)). lia.
Qed.

Lemma fslice_bytes : forall f off n, Forall (fun x => 0 <= x < 256) (fslice f off n).
Proof.
  intros. unfold fslice. apply Forall_forall. intros x Hx. apply in_map_iff in Hx.
  destruct Hx as (y & <- & _). unfold byte. apply Z.mod_pos_bound; lia.
Qed.

(* ------------------------------------------------------------------ counting chunk markers *)
Definition is_magic (m : mem) (i : nat) : bool := ldw m (Z.of_nat i) =? RB_CHUNK_MAGIC.
Definition mcount (m : mem) (W : Z) : nat := length (filter (is_magic m) (seq 0 (Z.to_nat W))).

Lemma filter_length_le : forall A (f : A -> bool) l, (length (filter f l) <= length l)%nat.
Proof. induction l; cbn; [lia|]. destruct (f a); cbn; lia. Qed.

Lemma filter_length_lt : forall A (f g : A -> bool) l x,
  (forall y, In y l -> g y = true -> f y = true) -> In x l -> f x = true -> g x = false ->
  (length (filter g l) < length (filter f l))%nat.
Proof.
  induction l as [|a t IH]; intros x Himp Hin Hf Hg; [inversion Hin|].
  cbn [filter]. destruct Hin as [->|Hin].
  - rewrite Hf, Hg. cbn [length].
    assert (length (filter g t) <= length (filter f t))%nat.
    { clear -Himp. induction t as [|b t IH]; cbn; [lia|].
      assert (Hb : g b = true -> f b = true) by (apply Himp; right; left; reflexivity).
      assert (IH' : (length (filter g t) <= length (filter f t))%nat).
      { apply IH. intros y Hy. apply Himp. destruct Hy; [left|right;right]; assumption. }
      destruct (g b) eqn:Eg; [rewrite Hb by reflexivity; cbn; lia|]. destruct (f b); cbn; lia. }
    lia.
  - assert (IH' : (length (filter g t) < length (filter f t))%nat).
    { apply IH with x; try assumption. intros y Hy. apply Himp. right; assumption. }
    assert (Ha : g a = true -> f a = true) by (apply Himp; left; reflexivity).
    destruct (g a) eqn:Eg; [rewrite Ha by reflexivity; cbn; lia|]. destruct (f a); cbn; lia.
Qed.

Lemma mcount_le : forall m W, (mcount m W <= Z.to_nat W)%nat.
Proof. intros. unfold mcount. etransitivity; [apply filter_length_le|]. rewrite seq_length. lia. Qed.

(* clearing the header of the chunk at r removes at least one marker and creates none *)
Lemma mcount_reclaim : forall m W r, 0 < W -> 0 <= r < W ->
  ldw m ((r + 1) mod W) = RB_CHUNK_MAGIC ->
  (mcount (stw (stw m r 0) ((r + 1) mod W) RB_CHUNK_MAGIC_DEAD) W < mcount m W)%nat.
Proof.
  intros m W r HW Hr Hmg. unfold mcount.
  pose proof bbf_consts_ok as K.
  assert (Hi2 : 0 <= (r + 1) mod W < W) by (apply Z.mod_pos_bound; lia).
  apply filter_length_lt with (x := Z.to_nat ((r + 1) mod W)).
  - intros y Hy Hg. unfold is_magic in *. apply in_seq in Hy.
    destruct (Z.eq_dec (Z.of_nat y) ((r + 1) mod W)) as [E|E].
    + rewrite E in Hg. rewrite ldw_stw_same in Hg by lia.
      rewrite Z.mod_small in Hg by lia. lia.
    + rewrite ldw_stw_other in Hg by lia.
      destruct (Z.eq_dec (Z.of_nat y) r) as [E2|E2].
      * rewrite E2 in Hg. rewrite ldw_stw_same in Hg by lia. rewrite Z.mod_0_l in Hg by (unfold two32; lia). lia.
      * rewrite ldw_stw_other in Hg by lia. exact Hg.
  - apply in_seq. lia.
  - unfold is_magic. rewrite Z2Nat.id by lia. rewrite Hmg. apply Z.eqb_refl.
  - unfold is_magic. rewrite Z2Nat.id by lia. rewrite ldw_stw_same by lia.
    rewrite Z.mod_small by lia. lia.
Qed.

(* ------------------------------------------------------------------ the loaded ring stays well formed *)
Definition ring_ok (b : rb) : Prop :=
  0 < rW b /\ 0 <= rpt b < rW b /\ BBF_CHUNK_BUF <= 4 * rW b /\ bytes_ok (data b).

Lemma read_bytes_length : forall n m W4 a, length (read_bytes m W4 a n) = n.
Proof. induction n; intros; cbn [read_bytes length]; [reflexivity|]. rewrite IHn. reflexivity. Qed.

Lemma chunk_step_range : forall W p n, 0 < W -> 0 <= p -> 0 <= n -> 0 <= chunk_step W p n < W.
Proof.
  intros W p n HW Hp Hn. unfold chunk_step. pose proof bbf_consts_ok as K. bbc.
  set (p1 := p + 2 + n / 4 + (if n mod (4 * 1) =? 0 then 0 else 1)).
  assert (0 <= p1) by (subst p1; destruct (n mod (4 * 1) =? 0); lia).
  clearbody p1.
  destruct (W - 1 <? p1) eqn:E; [apply Z.mod_pos_bound; lia | lia].
Qed.

Definition rd_good (b : rb) (x : rd) : Prop :=
  match x with
  | RdFault _ => False
  | RdOk b1 r bytes =>
      (r < 0 /\ bytes = []) \/
      (0 <= r <= BBF_CHUNK_BUF /\ length bytes = Z.to_nat r /\ ring_ok b1 /\ rW b1 = rW b /\
       (mcount (data b1) (rW b1) < mcount (data b) (rW b))%nat)
  end.

Lemma bread_good : forall b, ring_ok b -> rd_good b (bread b BBF_CHUNK_BUF).
Proof.
  intros b (HW & Hr & Hbuf & Hm). pose proof bbf_consts_ok as K.
  unfold bread, rd_good.
  destruct (rpt b =? wpt b) eqn:E1; [left; split; [bbc; lia | reflexivity]|].
  destruct (ldw (data b) ((rpt b + 1) mod rW b) =? RB_CHUNK_MAGIC) eqn:E2; cbn [negb];
    [|left; split; [bbc; lia | reflexivity]].
  unfold rword. replace ((0 <=? rpt b) && (rpt b <? 2 * rW b)) with true by lia.
  rewrite (Z.mod_small (rpt b) (rW b)) by lia.
  pose proof (ldw_range (data b) (rpt b) Hm ltac:(lia)) as Hsz.
  set (size := ldw (data b) (rpt b)) in *.
  destruct (BBF_CHUNK_BUF <? size) eqn:E3; [left; split; [bbc; lia | reflexivity]|].
  assert (Hdp : 0 <= (rpt b + RB_CHUNK_HEADER_WORDS) mod rW b < rW b) by (apply Z.mod_pos_bound; lia).
  destruct (8 * rW b <? 4 * ((rpt b + RB_CHUNK_HEADER_WORDS) mod rW b) + size) eqn:E4; [lia|].
  unfold rword_set. replace ((0 <=? rpt b) && (rpt b <? 2 * rW b)) with true by lia.
  rewrite (Z.mod_small (rpt b) (rW b)) by lia.
  right. cbn [rW rpt wpt data set_data].
  assert (Hi2 : 0 <= (rpt b + 1) mod rW b < rW b) by (apply Z.mod_pos_bound; lia).
  pose proof (chunk_step_range (rW b) (rpt b) size HW ltac:(lia) ltac:(lia)) as Hcs.
  split; [lia|]. split; [apply read_bytes_length|]. split.
  { unfold ring_ok; cbn [rW rpt data]. split; [lia|]. split; [lia|]. split; [lia|].
    apply bytes_ok_stw; [apply bytes_ok_stw; [exact Hm | lia] | lia]. }
  split; [reflexivity|].
  apply mcount_reclaim; try lia.
Qed.

(* ------------------------------------------------------------------ qb_rb_create_from_file (repaired) *)
Lemma roundup_pos : forall x y, 0 < y -> 0 < x -> x <= roundup x y /\ roundup x y mod y = 0.
Proof.
  intros x y Hy Hx. unfold roundup. split.
  - lia.
  - apply Z_mod_mult.
Qed.

Lemma fbyte_range : forall f i, 0 <= fbyte f i < 256.
Proof. intros. unfold fbyte, byte. apply Z.mod_pos_bound; lia. Qed.

Lemma le32_range : forall f off, 0 <= le32 f off < two32.
Proof.
  intros. unfold le32, two32.
  pose proof (fbyte_range f off). pose proof (fbyte_range f (off + 1)).
  pose proof (fbyte_range f (off + 2)). pose proof (fbyte_range f (off + 3)). lia.
Qed.

Lemma create_from_file_ok : forall f off,
  match create_from_file true f off with
  | CffAbort => False
  | CffNull => True
  | CffRing b _ => ring_ok b
  end.
Proof.
  intros f off. unfold create_from_file. pose proof bbf_consts_ok as K.
  repeat match goal with
         | |- context [if ?c then _ else _] =>
             lazymatch c with
             | true => fail
             | _ => destruct c eqn:?; try exact I
             end
         end.
  cbn [orb] in *.
  unfold ring_ok, rb_open. cbn [rW rpt data].
  pose proof (le32_range f off) as Hwsr.
  set (ws := le32 f off) in *.
  assert (Hws : 0 < ws * RB_SIZEOF_WORD) by lia.
  replace (ws * RB_SIZEOF_WORD - (RB_CHUNK_MARGIN + RB_SIZE_EXTRA) + RB_CHUNK_MARGIN + RB_SIZE_EXTRA)
    with (ws * RB_SIZEOF_WORD) by lia.
  destruct (roundup_pos (ws * RB_SIZEOF_WORD) RB_PAGE_SIZE ltac:(bbc; lia) Hws) as (R1 & R2).
  set (R := roundup (ws * RB_SIZEOF_WORD) RB_PAGE_SIZE) in *.
  assert (HR4 : R mod 4 = 0) by (bbc; lia).
  assert (HRp : RB_PAGE_SIZE <= R) by (bbc; lia).
  pose proof (le32_range f (off + 8)) as Hrp.
  bbc. split; [lia|]. split; [lia|]. split; [lia|].
  unfold load_data. apply bytes_ok_write_bytes.
  - apply bytes_ok_stw; [apply bytes_ok_mem0 | lia].
  - lia.
  - apply fslice_bytes.
Qed.

(* ------------------------------------------------------------------ reading fields of the chunk buffer *)
Lemma cget_in : forall c i, 0 <= i < zlen c -> cget c i = Ok (nth (Z.to_nat i) c 0).
Proof. intros c i H. unfold cget. replace ((0 <=? i) && (i <? zlen c)) with true by lia. reflexivity. Qed.

Lemma c32_in : forall c i, 0 <= i -> i + 4 <= zlen c -> exists v, c32 c i = Ok v.
Proof.
  intros c i H0 H1. unfold c32. rewrite !cget_in by lia. cbn [bind]. eexists; reflexivity.
Qed.

Lemma c64_in : forall c i, 0 <= i -> i + 8 <= zlen c -> exists v, c64 c i = Ok v.
Proof.
  intros c i H0 H1. unfold c64.
  destruct (c32_in c i H0 ltac:(lia)) as (lo & ->). destruct (c32_in c (i + 4) ltac:(lia) ltac:(lia)) as (hi & ->).
  cbn [bind]. eexists; reflexivity.
Qed.

(* a NUL at index j >= i inside the buffer stops the scan *)
Lemma cstr_stops : forall n c i j, 0 <= i -> j = i + Z.of_nat n -> j < zlen c -> nth (Z.to_nat j) c 0 = 0 ->
  forall fuel, (n < fuel)%nat -> exists t, cstr fuel c i = Ok t.
Proof.
  induction n as [|n IH]; intros c i j Hi Hj Hlt Hz fuel Hf.
  - destruct fuel; [lia|]. cbn [cstr]. rewrite cget_in by lia. cbn [bind].
    replace j with i in Hz by lia. rewrite Hz. cbn. eexists; reflexivity.
  - destruct fuel; [lia|]. cbn [cstr]. rewrite cget_in by lia. cbn [bind].
    destruct (nth (Z.to_nat i) c 0 =? 0); [eexists; reflexivity|].
    destruct (IH c (i + 1) j ltac:(lia) ltac:(lia) Hlt Hz fuel ltac:(lia)) as (t & ->).
    cbn [bind]. eexists; reflexivity.
Qed.

(* ------------------------------------------------------------------ the decoded message *)
Definition buf_ok (buf : list Z) : Prop := 1 <= zlen buf <= BBF_LOG_MAX_LEN /\ last buf 1 = 0.
Definition dec_ok (orc : list (list Z)) : Prop := Forall buf_ok orc.

Lemma upto_nul_in : forall l l', In 0 l -> exists t, upto_nul (l ++ l') = Some t.
Proof.
  induction l as [|x t IH]; intros l' Hin; [inversion Hin|].
  cbn [app upto_nul]. destruct (x =? 0) eqn:E; [eexists; reflexivity|].
  destruct Hin as [->|Hin]; [discriminate|].
  destruct (IH l' Hin) as (r & ->). eexists; reflexivity.
Qed.

Lemma strip_rev_head0 : forall t, strip_rev (0 :: t) = 0 :: strip_rev t.
Proof. intros. cbn [strip_rev]. reflexivity. Qed.

Lemma strip_msg_has_nul : forall buf, buf <> [] -> last buf 1 = 0 -> In 0 (strip_msg buf).
Proof.
  intros buf Hne Hl. destruct buf as [|c0 t]; [congruence|]. cbn [strip_msg].
  destruct t as [|c1 t'].
  - cbn in Hl. subst. left; reflexivity.
  - right. assert (Hl' : last (c1 :: t') 1 = 0) by exact Hl.
    assert (E : exists u, c1 :: t' = u ++ [0]).
    { exists (removelast (c1 :: t')). rewrite <- Hl'. apply app_removelast_last. discriminate. }
    destruct E as (u & ->). rewrite rev_app_distr. cbn [rev app]. rewrite strip_rev_head0.
    cbn [rev]. apply in_or_app. right. left. reflexivity.
Qed.

Lemma msg_post_ok : forall buf stk, buf_ok buf -> exists t, msg_post true buf stk = Ok t.
Proof.
  intros buf stk (Hlen & Hlast). unfold msg_post.
  replace (zlen buf <=? 0) with false by lia.
  replace (BBF_LOG_MAX_LEN <? zlen buf) with false by lia.
  cbn [bind].
  assert (Hf : firstn (Z.to_nat (zlen buf)) (msg_array buf stk) = buf).
  { unfold msg_array. rewrite firstn_firstn. rewrite to_nat_zlen.
    replace (Init.Nat.min (length buf) (Z.to_nat BBF_LOG_MAX_LEN)) with (length buf) by (unfold zlen in Hlen; lia).
    rewrite firstn_app. rewrite Nat.sub_diag. cbn [firstn]. rewrite firstn_all. apply app_nil_r. }
  rewrite Hf.
  assert (Hne : buf <> []) by (intro E; subst; cbn in Hlen; lia).
  destruct (upto_nul_in (strip_msg buf) (skipn (Z.to_nat (zlen buf)) (msg_array buf stk))
              (strip_msg_has_nul buf Hne Hlast)) as (t & ->).
  eexists; reflexivity.
Qed.

(* ------------------------------------------------------------------ one entry of the repaired printer *)
Definition estep_good (x : estep) : Prop :=
  match x with
  | EFault _ _ => False
  | EStop _ rc => rc = - BBF_EIO
  | ECont _ orc1 => dec_ok orc1
  end.

Lemma dec_ok_tl : forall orc, dec_ok orc -> dec_ok (tl orc).
Proof. intros orc H. destruct orc; [exact H|]. inversion H; assumption. Qed.

Lemma dec_ok_hd : forall orc, dec_ok orc -> buf_ok (match orc with [] => [0] | x :: _ => x end).
Proof.
  intros orc H. destruct orc; [|inversion H; assumption].
  pose proof bbf_consts_ok as K. unfold buf_ok. cbn. lia.
Qed.

Lemma entry_good : forall have_ts chunk r orc stk,
  zlen chunk = BBF_CHUNK_BUF -> BBF_MIN_ENTRY_SIZE <= r <= BBF_CHUNK_BUF -> dec_ok orc ->
  estep_good (entry true have_ts chunk r orc stk).
Proof.
  intros have_ts chunk r orc stk Hlen Hr Horc. pose proof bbf_consts_ok as K.
  unfold entry.
  destruct (c32_in chunk 0 ltac:(lia) ltac:(lia)) as (lineno & ->). cbn [lift].
  destruct (c32_in chunk BBF_SIZEOF_U32 ltac:(lia) ltac:(lia)) as (tags & ->). cbn [lift].
  rewrite (cget_in chunk (2 * BBF_SIZEOF_U32)) by lia. cbn [lift].
  destruct (c32_in chunk (2 * BBF_SIZEOF_U32 + 1) ltac:(lia) ltac:(lia)) as (fn_size & ->). cbn [lift].
  destruct (r <? fn_size + BBF_MIN_ENTRY_SIZE) eqn:E1; [reflexivity|].
  destruct (fn_size <=? 0) eqn:E2; [reflexivity|].
  cbn [andb].
  set (p := 3 * BBF_SIZEOF_U32 + 1 + fn_size).
  rewrite (cget_in chunk (p - 1)) by (subst p; lia). cbn [lift].
  set (fn_last := nth (Z.to_nat (p - 1)) chunk 0).
  destruct (fn_last =? 0) eqn:Efl; cbn [negb orb]; [|reflexivity].
  apply Z.eqb_eq in Efl.
  destruct (r <? p + ts_size have_ts + BBF_SIZEOF_U32) eqn:E3; [reflexivity|].
  assert (Hts : 0 < ts_size have_ts <= 16) by (unfold ts_size; destruct have_ts; lia).
  assert (Hts8 : 8 <= ts_size have_ts) by (unfold ts_size; destruct have_ts; lia).
  assert (Hp : p + ts_size have_ts + 4 <= r) by lia.
  destruct (c64_in chunk p ltac:(subst p; lia) ltac:(lia)) as (sec & ->). cbn [lift].
  assert (Ens : exists nsec, (if have_ts then c64 chunk (p + 8) else Ok 0) = Ok nsec).
  { destruct have_ts; [|eexists; reflexivity]. unfold ts_size in *. apply c64_in; subst p; lia. }
  destruct Ens as (nsec & ->). cbn [lift].
  destruct (c32_in chunk (p + ts_size have_ts) ltac:(subst p; lia) ltac:(lia)) as (msg_len & ->). cbn [lift].
  destruct ((BBF_LOG_MAX_LEN <? msg_len) || (msg_len <=? 0) ||
            (r <? p + ts_size have_ts + BBF_SIZEOF_U32 + msg_len)) eqn:E4; [reflexivity|].
  destruct (msg_post_ok _ stk (dec_ok_hd orc Horc)) as (text & ->). cbn [lift].
  assert (Hfn : exists fn, cstr (S (length chunk)) chunk (3 * BBF_SIZEOF_U32 + 1) = Ok fn).
  { apply cstr_stops with (n := Z.to_nat (fn_size - 1)) (j := p - 1).
    - lia.
    - subst p; lia.
    - subst p; lia.
    - exact Efl.
    - unfold zlen in Hlen. subst p. lia. }
  destruct Hfn as (fn & ->). cbn [lift estep_good].
  apply dec_ok_tl; assumption.
Qed.

(* ------------------------------------------------------------------ the loop and the whole printer *)
Definition result_good (errno0 : Z) (r : result) : Prop :=
  (exists rc, out r = Ret rc /\ (rc = - errno0 \/ rc = - BBF_EIO \/ rc = -1 \/ rc = BBF_FILE_HDR_SIZE)) /\
  shm_left r = [].

Lemma chunk_store_len : forall chunk bytes, (length bytes <= length chunk)%nat ->
  zlen (chunk_store chunk bytes) = zlen chunk.
Proof.
  intros chunk bytes H. unfold chunk_store, zlen. rewrite app_length, skipn_length. lia.
Qed.

Lemma ploop_good : forall fuel have_ts b chunk orc stk acc errno0,
  ring_ok b -> zlen chunk = BBF_CHUNK_BUF -> dec_ok orc -> (mcount (data b) (rW b) < fuel)%nat ->
  result_good errno0 (ploop fuel true have_ts b chunk orc stk acc).
Proof.
  induction fuel as [|k IH]; intros have_ts b chunk orc stk acc errno0 Hb Hlen Horc Hfuel; [lia|].
  pose proof bbf_consts_ok as K.
  cbn [ploop]. pose proof (bread_good b Hb) as Hrd.
  destruct (bread b BBF_CHUNK_BUF) as [b1 r bytes|f]; [|contradiction].
  cbn [rd_good] in Hrd.
  destruct Hrd as [(Hneg & ->) | (Hr & Hbl & Hb1 & HW1 & Hmc)].
  - replace ((0 <=? r) && (r <? BBF_MIN_ENTRY_SIZE)) with false by lia.
    replace (r <? 0) with true by lia.
    split; [|reflexivity]. eexists; split; [reflexivity|]. right; left; reflexivity.
  - destruct ((0 <=? r) && (r <? BBF_MIN_ENTRY_SIZE)) eqn:E1.
    { split; [|reflexivity]. eexists; split; [reflexivity|]. right; right; left; reflexivity. }
    replace (r <? 0) with false by lia.
    assert (Hl1 : zlen (chunk_store chunk bytes) = BBF_CHUNK_BUF).
    { rewrite chunk_store_len; [exact Hlen|]. unfold zlen in Hlen. lia. }
    pose proof (entry_good have_ts (chunk_store chunk bytes) r orc stk Hl1 ltac:(lia) Horc) as He.
    destruct (entry true have_ts (chunk_store chunk bytes) r orc stk) as [es rc|es orc1|es f]; cbn [estep_good] in He.
    + split; [|reflexivity]. eexists; split; [reflexivity|]. right; left; exact He.
    + destruct (BBF_MIN_ENTRY_SIZE <? r) eqn:E2.
      * apply IH; try assumption. rewrite HW1 in Hmc. rewrite HW1. lia.
      * split; [|reflexivity]. eexists; split; [reflexivity|]. right; right; right; reflexivity.
    + contradiction.
Qed.

(* C15, second half, for the repaired code: for EVERY file (and every decoder answer sequence that respects the
   decoder's contract, every content of the uninitialised buffers, every stale errno) the printer returns a
   result code - no out-of-bounds access, no failed assert, no fuel exhaustion - and leaves no shm file. *)
Theorem print_total : forall orc heap0 stk errno0 f, dec_ok orc ->
  result_good errno0 (print_from_file true true orc heap0 stk errno0 f).
Proof.
  intros orc heap0 stk errno0 f Horc. pose proof bbf_consts_ok as K.
  unfold print_from_file.
  destruct (avail f 0 BBF_FILE_HDR_SIZE <? BBF_FILE_HDR_SIZE).
  { split; [|reflexivity]. eexists; split; [reflexivity|]. left; reflexivity. }
  pose proof (create_from_file_ok f (if is_marker f then BBF_FILE_HDR_SIZE else 0)) as Hc.
  destruct (create_from_file true f (if is_marker f then BBF_FILE_HDR_SIZE else 0)) as [| |b e].
  - split; [|reflexivity]. eexists; split; [reflexivity|]. right; left; reflexivity.
  - contradiction.
  - apply ploop_good; try assumption.
    + unfold zlen. rewrite firstn_length, app_length, repeat_length. lia.
    + pose proof (mcount_le (data b) (rW b)). lia.
Qed.
