(* C11 - source-tie obligations.  gen/Src_rbow.v is regenerated from lib/ringbuffer.c by tools/c2coq.py on every run
   (harness/c2coq/rbow.json); these theorems state that the model functions the C11 theorems are about (RbModel.v:
   reclaim, peek, read, and the overwrite-mode write = alloc; copy; commit) compute, for all inputs in the stated
   ranges, what the translated C functions qb_rb_chunk_reclaim / _peek / _read / _write compute.  (The functions
   they call - qb_rb_space_free, qb_rb_chunk_step, _rb_chunk_reclaim, qb_rb_chunk_alloc in both modes,
   qb_rb_chunk_commit - are tied in PropertiesSrc_C07.v; both specs translate the same text: C11_src_same_text.)
   Statements only, each closed by `exact'.
     hdr_ok W w r: 0 < W <= 2^30, pointers inside [0, W);  agree d m: word i of the C array is ldw m i;
     words_ok m: every word is a uint32_t value;  notif_ok: the notifier answers as the built-in semaphore notifier
     does for ms_timeout = 0 (0 with a positive count, -ETIMEDOUT otherwise; no notifier functions on a
     NO_SEMAPHORE ring);  tok b: a notification is available;  cnt*/orc*: call counters / answer streams of the
     function pointers;  a0/a1/a2 k: the arguments of the k-th memcpy call.
   memcpy is translated as a call without effect on the modelled paths, its arguments are recorded: the theorems
   state where it copies from / to and how much; for qb_rb_chunk_read (destination = caller's buffer) that is exact,
   for qb_rb_chunk_write the payload bytes themselves are the one effect the translation does not show
   (model: write_bytes; compared with the implementation on every run by the correspondence stage). *)
From Coq Require Import ZArith List Bool.
Require Import Verif.gen.Consts_rb Verif.gen.Src_rbow Verif.gen.Src_rb Verif.C2CoqPrelude Verif.RbModel Verif.RbSrcEq Verif.RbOwSrcEq.
Local Open Scope Z_scope.

Theorem C11_src_same_text :
  Src_rbow._rb_chunk_reclaim = Src_rb._rb_chunk_reclaim /\ Src_rbow.qb_rb_chunk_alloc = Src_rb.qb_rb_chunk_alloc /\
  Src_rbow.qb_rb_chunk_commit = Src_rb.qb_rb_chunk_commit.
Proof. exact (conj same_reclaim (conj same_alloc same_commit)). Qed.

Theorem C11_src_reclaim_public : forall b rbp d cnt errno orc inst,
  rbp <> 0 -> hdr_ok (rW b) (wpt b) (rpt b) -> agree d (data b) -> words_ok (data b) ->
  match Src_rbow.qb_rb_chunk_reclaim rbp cnt errno orc inst 0 d (rpt b) (rW b) (wpt b), reclaim b with
  | (cnt', errno', d', r'), (b', rc0) =>
      cnt' = cnt /\ r' = rpt b' /\ agree d' (data b') /\ wpt b' = wpt b /\ rW b' = rW b /\
      ovw b' = ovw b /\ sem b' = sem b /\ (rc0 <> 0 -> b' = b)
  end.
Proof. exact src_reclaim_public. Qed.
Print Assumptions C11_src_reclaim_public.

Theorem C11_src_peek : forall b rbp dout tmo cntp cntt dop errno orcp orct inst postfn twfn d ptr,
  rbp <> 0 -> hdr_ok (rW b) (wpt b) (rpt b) -> agree d (data b) -> words_ok (data b) ->
  notif_ok b twfn postfn orct cntt ->
  match Src_rbow.qb_rb_chunk_peek rbp dout tmo cntp cntt dop errno orcp orct inst postfn twfn d ptr (rpt b) (rW b) (wpt b),
        peek b with
  | (rv, cntp', cntt', dop', errno'), (b', r, bytes) =>
      rv = r /\ errno' = errno /\
      cntt' = cntt + (if has_notifier b then 1 else 0) /\
      cntp' = cntp + (if has_notifier b && tok b && negb (chunk_ready b) then 1 else 0) /\
      dop' = (if tok b && chunk_ready b then upd dop 0 (u64 (ptr + 4 * ((rpt b + 2) mod rW b))) else dop)
  end.
Proof. exact src_peek. Qed.
Print Assumptions C11_src_peek.

Theorem C11_src_read : forall b rbp dout len tmo a0 a1 a2 cntm cntp cntr cntt errno orcm orcp orcr orct inst postfn twfn d ptr,
  rbp <> 0 -> hdr_ok (rW b) (wpt b) (rpt b) -> agree d (data b) -> words_ok (data b) -> 0 <= len < 2 ^ 63 ->
  notif_ok b twfn postfn orct cntt ->
  match Src_rbow.qb_rb_chunk_read rbp dout len tmo a0 a1 a2 cntm cntp cntr cntt errno orcm orcp orcr orct inst postfn 0 twfn d ptr
          (rpt b) (rW b) (wpt b), read b len with
  | (rv, a0', a1', a2', cntm', cntp', cntr', cntt', errno', d', r'), (b', r, bytes) =>
      rv = r /\ errno' = errno /\ cntr' = cntr /\ r' = rpt b' /\ agree d' (data b') /\ wpt b' = wpt b /\ rW b' = rW b /\
      cntt' = cntt + (if has_notifier b then 1 else 0) /\
      cntp' = cntp + (if has_notifier b && tok b && (negb (chunk_ready b) || (len <? ldw (data b) (rpt b))) then 1 else 0) /\
      (if tok b && chunk_ready b && negb (len <? ldw (data b) (rpt b))
       then cntm' = cntm + 1 /\ a0' cntm = dout /\ a1' cntm = ptr + 4 * ((rpt b + 2) mod rW b) /\ a2' cntm = r
       else cntm' = cntm /\ a0' = a0 /\ a1' = a1 /\ a2' = a2 /\ d' = d /\ r' = rpt b)
  end.
Proof. exact src_read. Qed.
Print Assumptions C11_src_read.

(* overwrite mode: whenever the model's reclaim loop finishes within n rounds, the translated qb_rb_chunk_write, given
   n+1 units of fuel, is: the model's alloc (header stamped at write_pt of the state b1 the loop left), one memcpy
   (destination = the pointer alloc returned, source and length = the caller's), the model's commit of `len' bytes,
   return value len; or, when even the empty ring is too small, -EINVAL with nothing committed *)
Theorem C11_src_write_overwrite : forall n b rbp srcp len a0 a1 a2 cntm cntp cntr cnts errno orcm orcp orcr orcs flags inst postfn d ptr,
  rbp <> 0 -> hdr_ok (rW b) (wpt b) (rpt b) -> agree d (data b) -> words_ok (data b) ->
  0 <= len < 2 ^ 32 -> negb (Z.land flags (u32 2) =? 0) = true ->
  0 < ptr -> ptr + 4 * rW b < 2 ^ 64 ->
  (postfn = 0 \/ s32 (orcp cntp) = 0) ->
  match ow_make_room n b (len + RB_CHUNK_MARGIN) with
  | None => True
  | Some (b1, rc) =>
      match Src_rbow.qb_rb_chunk_write (S n) rbp srcp len a0 a1 a2 cntm cntp cntr cnts errno orcm orcp orcr orcs flags inst
              postfn 0 0 d ptr (rpt b) (rW b) (wpt b) with
      | None => False
      | Some (rv, a0', a1', a2', cntm', cntp', cntr', cnts', errno', d', r', w') =>
          cntr' = cntr /\ cnts' = cnts /\ r' = rpt b1 /\
          if rc =? 0 then
            match alloc_header b1 with
            | AOk b2 dp =>
                let '(b3, _) := commit b2 len in
                rv = len /\ w' = wpt b3 /\ rpt b3 = rpt b1 /\ agree d' (data b3) /\ errno' = errno /\
                cntm' = cntm + 1 /\ a0' cntm = ptr + 4 * dp /\ a1' cntm = srcp /\ a2' cntm = len /\
                cntp' = cntp + (if postfn =? 0 then 0 else 1)
            | _ => False
            end
          else rv = rc /\ w' = wpt b /\ agree d' (data b1) /\ errno' = - rc /\ cntm' = cntm /\ cntp' = cntp
      end
  end.
Proof. exact src_write_overwrite. Qed.
Print Assumptions C11_src_write_overwrite.

(* non-vacuity: the translated reader functions evaluated on a concrete ring state (one 5-byte chunk at word 1020 of a
   1027-word NO_SEMAPHORE ring, wrapping) *)
Example C11_src_example :
  let d := fun i => if i =? 1020 then 5 else if i =? 1021 then 2711724449 else 0 in
  hdr_ok 1027 1024 1020 /\
  fst (fst (fst (fst (Src_rbow.qb_rb_chunk_peek 1 0 0 0 0 (fun _ => 0) 0 (fun _ => 0) (fun _ => 0) 0 0 0 d 4096 1020 1027 1024)))) = 5 /\
  snd (Src_rbow.qb_rb_chunk_read 1 0 100 0 (fun _ => 0) (fun _ => 0) (fun _ => 0) 0 0 0 0 0 (fun _ => 0) (fun _ => 0) (fun _ => 0)
         (fun _ => 0) 0 0 0 0 d 4096 1020 1027 1024) = 1024.
Proof. exact src_example_c11. Qed.
