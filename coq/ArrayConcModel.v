(* C19, concurrent part: interleaving model of qb_array_index / qb_array_grow called from several
   threads on one array.  No proofs in this file.

   Granularity (the same as the controlled scheduler's, harness/sched_rt.h): a thread stops at
   every synchronisation operation and at every access to the shared array object or bin table
   that it makes while NOT holding the grow lock; a lock-protected section runs as one step, from
   the grant of the lock to the next stop (its unlock).  One schedule entry = "thread t makes its
   next micro-step if that step is enabled" (a `lock' step is enabled only while the lock is
   free); entries naming a blocked or finished thread are skipped.

   The critical-section bodies are the SAME Gallina functions the sequential model uses
   (index_check, do_grow, body_bin of ArrayModel.v), applied to the shared `world'.

   `fixed' selects the code being modelled:
     false = lib/array.c as found: after the final unlock, qb_array_index reads a->bin and then
             a->bin[b] (two unlocked accesses);
     true  = with fixes/C19-index-bin-read-under-lock.patch: the bin pointer is fetched before
             the unlock.
   The table object has an identity (tbl w); every realloc makes a new one and frees the old one.
   A thread that read a->bin = t earlier and now reads t[b] while t <> tbl w touches freed
   memory: c_err is set, an EUaf event is logged and the value read is garbage (None).

   new_bin_cb is not installed in the concurrent scenarios (a->new_bin_cb is read once, as NULL). *)
From Coq Require Import ZArith List Bool NArith.
Import ListNotations.
Require Import Verif.gen.Consts_array Verif.ArrayModel.
Local Open Scope Z_scope.

Inductive call := CIndex (idx : Z) | CGrow (n : Z).

Inductive label :=
| LStart | LCall | LRdGrowLock | LLock | LUnlock | LRdCb | LRdBin | LRdTbl (b : Z) | LRdEsize.

Inductive pc :=
| PStart                      (* thread created, not yet running *)
| PCall                       (* about to begin the next call of the program *)
(* qb_array_index *)
| IRdLock1 | ILock1
| IUnlockFail (rc : Z)        (* holding the lock; will unlock and return rc *)
| IUnlockGrow                 (* holding the lock; will unlock and call qb_array_grow(idx + 1) *)
| IGRdLock | IGLock | IGUnlock (rc : Z)      (* that inner qb_array_grow *)
| IRdLock2 | ILock2
| IUnlockOk (alloced : bool) (bin : option Z)  (* holding the lock; bin = pointer fetched under the lock (fixed code only) *)
| IRdCb (bin : option Z)
| IRdBin
| IRdTbl (t : Z)              (* t = the table pointer read from a->bin *)
| IRdEsize (bin : option Z)
(* qb_array_grow *)
| GRdLock | GLock | GUnlock (rc : Z)
| PDone.

Record thread := { t_prog : list call;   (* calls still to make; the head is the one in progress *)
                   t_k : Z;              (* number of calls completed *)
                   t_pc : pc }.

Inductive event :=
| EStep (tid : Z) (l : label)
| ERet (tid k : Z) (c : call) (rc : Z) (addr : option (Z * Z))
| EUaf (tid b : Z).

Record cstate := { c_w : world;
                   c_lock : option Z;          (* holder of a->grow_lock *)
                   c_thr : list thread;
                   c_log : list event;         (* newest first *)
                   c_err : bool }.             (* a freed bin table was read *)

Definition cinit (w : world) (progs : list (list call)) : cstate :=
  {| c_w := w; c_lock := None;
     c_thr := map (fun p => {| t_prog := p; t_k := 0; t_pc := PStart |}) progs;
     c_log := []; c_err := false |}.

Definition cur_idx (t : thread) : Z := match t_prog t with CIndex i :: _ => i | _ => 0 end.
Definition cur_call (t : thread) : call := match t_prog t with c :: _ => c | [] => CGrow 0 end.

(* the call in progress returns: log it, advance to the next call *)
Definition finish_call (tid : Z) (t : thread) (rc : Z) (addr : option (Z * Z)) : thread * list event :=
  ({| t_prog := tl (t_prog t); t_k := t_k t + 1; t_pc := PCall |},
   [ERet tid (t_k t) (cur_call t) rc addr]).

Definition at_pc (t : thread) (p : pc) : thread := {| t_prog := t_prog t; t_k := t_k t; t_pc := p |}.

(* result of one micro-step of thread t: None = not enabled *)
Record mres := { m_w : world; m_lock : option Z; m_t : thread; m_ev : list event (* oldest first *); m_err : bool }.

Definition mk (w : world) (l : option Z) (t : thread) (ev : list event) : option mres :=
  Some {| m_w := w; m_lock := l; m_t := t; m_ev := ev; m_err := false |}.

Definition lock_free (l : option Z) : bool := match l with None => true | Some _ => false end.

(* the part of qb_array_index executed under the lock once the range check has passed *)
Definition bin_section (fixed : bool) (w : world) (idx : Z) : world * pc :=
  let '(w2, alloced) := body_bin w idx in
  (w2, IUnlockOk alloced (if fixed then bin_get w2 (bin_of idx) else None)).

Definition micro (fixed : bool) (tid : Z) (w : world) (lk : option Z) (t : thread) : option mres :=
  let st l := EStep tid l in
  let idx := cur_idx t in
  match t_pc t with
  | PStart => mk w lk (at_pc t PCall) [st LStart]
  | PDone => None
  | PCall =>
      match t_prog t with
      | [] => None
      | CIndex i :: _ =>
          if i <? 0 then let '(t', ev) := finish_call tid t (- ARRAY_ERANGE) None in mk w lk t' (st LCall :: ev)
          else mk w lk (at_pc t IRdLock1) [st LCall]
      | CGrow n :: _ =>
          if ARRAY_MAX_ELEMENTS <? n then let '(t', ev) := finish_call tid t (- ARRAY_EINVAL) None in mk w lk t' (st LCall :: ev)
          else mk w lk (at_pc t GRdLock) [st LCall]
      end
  (* ---- qb_array_index ---- *)
  | IRdLock1 => mk w lk (at_pc t ILock1) [st LRdGrowLock]
  | ILock1 =>
      if lock_free lk then
        match index_check w idx with
        | PFail rc => mk w (Some tid) (at_pc t (IUnlockFail rc)) [st LLock]
        | PGrow => mk w (Some tid) (at_pc t IUnlockGrow) [st LLock]
        | PGo => let '(w2, p) := bin_section fixed w idx in mk w2 (Some tid) (at_pc t p) [st LLock]
        end
      else None
  | IUnlockFail rc => let '(t', ev) := finish_call tid t rc None in mk w None t' (st LUnlock :: ev)
  | IUnlockGrow =>
      (* unlock; rc = qb_array_grow(a, idx + 1): its argument check comes before any shared access *)
      if ARRAY_MAX_ELEMENTS <? idx + 1 then
        let '(t', ev) := finish_call tid t (- ARRAY_EINVAL) None in mk w None t' (st LUnlock :: ev)
      else mk w None (at_pc t IGRdLock) [st LUnlock]
  | IGRdLock => mk w lk (at_pc t IGLock) [st LRdGrowLock]
  | IGLock =>
      if lock_free lk then let '(w1, rc) := do_grow w (idx + 1) in mk w1 (Some tid) (at_pc t (IGUnlock rc)) [st LLock]
      else None
  | IGUnlock rc =>
      if rc =? 0 then mk w None (at_pc t IRdLock2) [st LUnlock]
      else let '(t', ev) := finish_call tid t rc None in mk w None t' (st LUnlock :: ev)
  | IRdLock2 => mk w lk (at_pc t ILock2) [st LRdGrowLock]
  | ILock2 =>
      if lock_free lk then let '(w2, p) := bin_section fixed w idx in mk w2 (Some tid) (at_pc t p) [st LLock]
      else None
  | IUnlockOk alloced bin =>
      let next := if alloced then IRdCb bin else if fixed then IRdEsize bin else IRdBin in
      mk w None (at_pc t next) [st LUnlock]
  | IRdCb bin => mk w lk (at_pc t (if fixed then IRdEsize bin else IRdBin)) [st LRdCb]
  | IRdBin => mk w lk (at_pc t (IRdTbl (tbl w))) [st LRdBin]
  | IRdTbl tb =>
      let b := bin_of idx in
      if tb =? tbl w then mk w lk (at_pc t (IRdEsize (bin_get w b))) [st (LRdTbl b)]
      else Some {| m_w := w; m_lock := lk; m_t := at_pc t (IRdEsize None);
                   m_ev := [st (LRdTbl b); EUaf tid b]; m_err := true |}
  | IRdEsize bin =>
      let addr := match bin with Some blk => Some (blk, esize w * elem_of idx) | None => None end in
      let '(t', ev) := finish_call tid t 0 addr in mk w lk t' (st LRdEsize :: ev)
  (* ---- qb_array_grow ---- *)
  | GRdLock => mk w lk (at_pc t GLock) [st LRdGrowLock]
  | GLock =>
      match t_prog t with
      | CGrow n :: _ =>
          if lock_free lk then let '(w1, rc) := do_grow w n in mk w1 (Some tid) (at_pc t (GUnlock rc)) [st LLock]
          else None
      | _ => None
      end
  | GUnlock rc => let '(t', ev) := finish_call tid t rc None in mk w None t' (st LUnlock :: ev)
  end.

Fixpoint upd_thr (l : list thread) (n : nat) (x : thread) : list thread :=
  match l, n with
  | [], _ => []
  | _ :: r, O => x :: r
  | a :: r, S n' => a :: upd_thr r n' x
  end.

(* one schedule entry *)
Definition cstep (fixed : bool) (s : cstate) (tid : nat) : cstate :=
  match nth_error (c_thr s) tid with
  | None => s
  | Some t =>
      match micro fixed (Z.of_nat tid) (c_w s) (c_lock s) t with
      | None => s
      | Some r => {| c_w := m_w r; c_lock := m_lock r; c_thr := upd_thr (c_thr s) tid (m_t r);
                     c_log := rev (m_ev r) ++ c_log s; c_err := c_err s || m_err r |}
      end
  end.

Definition exec (fixed : bool) (sched : list nat) (s : cstate) : cstate := fold_left (cstep fixed) sched s.

(* ---- which shared locations each unlocked step touches, and which the critical sections write ---- *)
Inductive loc := LocGrowLock | LocCb | LocEsize | LocBinPtr | LocTable | LocMaxEl | LocNumBins | LocAutogrow.

Definition loc_of_label (l : label) : option loc :=
  match l with
  | LRdGrowLock => Some LocGrowLock | LRdCb => Some LocCb | LRdEsize => Some LocEsize
  | LRdBin => Some LocBinPtr | LRdTbl _ => Some LocTable
  | LStart | LCall | LLock | LUnlock => None
  end.

(* locations written after qb_array_create_2 returned, all inside critical sections:
   _grow_bin_array writes a->bin, the table and a->num_bins; qb_array_grow writes a->max_elements;
   qb_array_index writes table entries *)
Definition written_locs : list loc := [LocBinPtr; LocTable; LocNumBins; LocMaxEl].

Definition loc_eqb (a b : loc) : bool :=
  match a, b with
  | LocGrowLock, LocGrowLock | LocCb, LocCb | LocEsize, LocEsize | LocBinPtr, LocBinPtr
  | LocTable, LocTable | LocMaxEl, LocMaxEl | LocNumBins, LocNumBins | LocAutogrow, LocAutogrow => true
  | _, _ => false
  end.

(* an unlocked step that touches a location some critical section writes: a data race *)
Definition racy_label (l : label) : bool :=
  match loc_of_label l with
  | Some x => existsb (loc_eqb x) written_locs
  | None => false
  end.

Definition is_step_racy (e : event) : bool := match e with EStep _ l => racy_label l | _ => false end.

Definition is_ret (e : event) : bool := match e with ERet _ _ _ _ _ => true | _ => false end.
