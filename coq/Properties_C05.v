(* C05 - IPC admission: the property theorems.  Statements only; each is closed by `exact`.

   Model: coq/IpcAdmitModel.v (see its header for the C functions transcribed).  A peer is (real ids, effective ids,
   accept decision, optional auth_set(uid, gid, mode), raw?); [admission_ops v tr p] is the exact sequence of
   file-system calls, callback invocations and answers the server performs for it on transport tr;
   [peer_script] = admission followed (for an accepted peer) by the tear-down when the peer goes away.
   World = one state per connection ordinal; [run en w_empty l] executes ANY interleaving l of ops of any number
   of peers; [proj k l] = the ops of peer k in l.  env = (process umask, server credentials).
   v = AsFound: the tree as found; v = Fixed: with fixes/C05-private-until-handed-over.patch.

   The kernel oracle [scm_creds real eff] = what the kernel puts into SCM_CREDENTIALS for the peer: on Linux the REAL
   ids.  The property text says "effective"; this platform (and the Linux code path of lib/ipc_setup.c) reports the
   real ids - recorded as a deviation of the platform from the wording, checked by the harness on every run. *)
From Coq Require Import ZArith NArith List Bool.
Require Import Verif.gen.Consts_ipcadmit Verif.IpcAdmitModel Verif.IpcAdmitProofs.
Import ListNotations.
Local Open Scope Z_scope.

(* constants regenerated from /repo: the model's mode masks are the platform's S_IRWXU etc.; errno values non-zero;
   the directory-mode rule of the repair on the modes of interest *)
Theorem C05_consts_ok :
  ADM_S_IRWXU = Z.of_N m700 /\ ADM_S_IRUSR_IWUSR = Z.of_N m600 /\
  Z.of_N m770 = ADM_S_IRWXU + ADM_S_IRWXG /\
  ADM_IPC_SHM <> ADM_IPC_SOCKET /\
  ADM_ENOENT <> 0 /\ ADM_EEXIST <> 0 /\ ADM_ENOTEMPTY <> 0 /\ ADM_EPERM <> 0 /\ ADM_EACCES <> 0 /\
  dirmode m600 = m700 /\ dirmode 432%N = m770 /\ dirmode 256%N = 320%N /\ dirmode 0%N = 0%N.
Proof. exact consts_ok. Qed.
Print Assumptions C05_consts_ok.

(* (1) both variants, both transports, any umask and server credentials, any interleaving with other peers: the
   accept callback is invoked exactly once for the peer, with the uid and gid the kernel oracle reports for it.
   READ THIS WITH THE ORACLE IN MIND: the theorem is about WHAT THE KERNEL REPORTS ([ugp_of p] = [scm_creds real eff],
   the contents of the auto-filled SCM_CREDENTIALS message read by qb_ipc_auth_creds).  The property text says
   "kernel-reported effective credentials"; the harness shows on every run that on this platform (Linux) the kernel
   reports the REAL uid/gid ([scm_creds real eff = real]): a peer with real ids 0:0 and effective ids 65534:65534 is
   presented to the callback as 0:0.  "Effective" is therefore NOT claimed; what is proved is that libqb passes on the
   kernel's report unchanged, once. *)
Theorem C05_accept_credentials : forall en v tr p l k,
  proj k l = admission_ops v tr p ->
  accepts (l_log (run en w_empty l k)) = [(c_uid (ugp_of p), c_gid (ugp_of p))].
Proof. exact accept_credentials_global. Qed.
Print Assumptions C05_accept_credentials.

(* (2) refusal with any non-zero value, both variants, both transports, any umask, ANY server credentials (root or
   not), any interleaving with other peers, and whatever the refused peer sends afterwards (n sends): no file or
   directory of the connection is left (the file system of the connection is what it was before: empty), no channel
   exists, the response and the client's connect carry exactly the callback's value, msg_process is never invoked *)
Theorem C05_refusal_leaves_nothing : forall en v tr p l k n,
  p_decision p <> 0 ->
  proj k l = admission_ops v tr p ++ repeat LPeerSend n ->
  let s := run en w_empty l k in
  l_fs s = [] /\ l_chan s = false /\ responses (l_log s) = [p_decision p] /\
  connect_result tr p s = p_decision p /\ no_msg (l_log s).
Proof. exact refusal_global. Qed.
Print Assumptions C05_refusal_leaves_nothing.

(* (3) the repaired code, server = root: at ANY MOMENT (after any prefix of any interleaving of any number of peers,
   each somewhere in its admission, its life or its tear-down, with any sends in between), every file and directory
   of connection k is either still private to the server's own user (its uid, no group / other permission bit), or
   - only for an accepted peer - owned by exactly the authorised uid:gid (auth_set's, by default the peer's; -1 =
   the server's) with a mode within the authorised mode (by default 0600; directory: search bit wherever read or
   write is authorised).  For a refused peer [authorised] is None: its directory is never anybody's but the server's *)
Theorem C05_private_at_any_moment : forall en tr (ps : nat -> peer) l,
  srv_root en = true ->
  (forall k, is_prefix (fsops (proj k l)) (peer_script Fixed tr (ps k))) ->
  forall k t e, lookup t (l_fs (run en w_empty l k)) = Some e -> permitted (srv en) (authorised (ps k)) e.
Proof. exact fixed_any_moment_global. Qed.
Print Assumptions C05_private_at_any_moment.

(* the full statement is FALSE of the tree as found: (a) the directory is 0770 and the peer's before the accept
   callback has run - for a peer that is then refused, and with the default 0600 authorisation; (b) on the socket
   transport the directory is never given to the authorised uid:gid; (c) with an authorised mode of 0400 the ring
   file is 0600 in the new owner's hands until the chmod *)
Theorem C05_private_at_any_moment_asfound_refuted :
  (exists pre e, is_prefix pre (peer_script AsFound Shm peer_refused) /\
                 lookup TDir (frun root_env_022 [] pre) = Some e /\
                 ~ permitted (srv root_env_022) (authorised peer_refused) e) /\
  (exists pre e, is_prefix pre (peer_script AsFound Shm peer_1000) /\
                 lookup TDir (frun root_env_022 [] pre) = Some e /\
                 ~ permitted (srv root_env_022) (authorised peer_1000) e) /\
  (exists pre e, is_prefix pre (peer_script AsFound Sock peer_auth_other) /\
                 lookup TDir (frun root_env_022 [] pre) = Some e /\
                 (e_uid e <> 1 /\ e_mode e = m770) /\
                 ~ permitted (srv root_env_022) (authorised peer_auth_other) e) /\
  (exists pre e, is_prefix pre (peer_script AsFound Shm peer_auth_strict) /\
                 lookup TReqD (frun root_env_022 [] pre) = Some e /\
                 ~ permitted (srv root_env_022) (authorised peer_auth_strict) e).
Proof. exact asfound_refuted. Qed.
Print Assumptions C05_private_at_any_moment_asfound_refuted.

(* what the tree as found does guarantee at any moment (partial: bounds on the modes only - directory within 0770,
   files within 0600 | authorised mode; says nothing about owners, which is where (a) and (b) fail) *)
Theorem C05_private_at_any_moment_asfound_partial : forall en tr (ps : nat -> peer) l,
  srv_root en = true ->
  (forall k, is_prefix (fsops (proj k l)) (peer_script AsFound tr (ps k))) ->
  forall k t e, lookup t (l_fs (run en w_empty l k)) = Some e -> weak_ok (eff_auth (ps k)) e.
Proof. exact asfound_bounds_global. Qed.
Print Assumptions C05_private_at_any_moment_asfound_partial.

(* the refutation witnesses on the repaired transcription: permitted after every prefix (computed instances) *)
Example C05_fixed_on_witnesses :
  all_prefixes_ok root_env_022 Fixed Shm peer_refused = true /\
  all_prefixes_ok root_env_022 Fixed Shm peer_1000 = true /\
  all_prefixes_ok root_env_022 Fixed Sock peer_auth_other = true /\
  all_prefixes_ok root_env_022 Fixed Shm peer_auth_strict = true /\
  all_prefixes_ok root_env_022 AsFound Shm peer_1000 = false.
Proof. exact fixed_on_witnesses. Qed.
Print Assumptions C05_fixed_on_witnesses.

(* non-vacuity of (3): an accepted peer with auth_set(1, 2, 0660) and a refused peer that keeps sending, interleaved
   op by op and stopped in the middle, satisfy the hypotheses; three objects of the first and the directory of the
   second exist at that moment *)
Example C05_example_interleaving :
  (forall k, is_prefix (fsops (proj k ex_trace)) (peer_script Fixed Shm (ex_ps k))) /\
  length (l_fs (run root_env_022 w_empty ex_trace 0%nat)) = 3%nat /\
  length (l_fs (run root_env_022 w_empty ex_trace 1%nat)) = 1%nat.
Proof. exact ex_trace_ok. Qed.
Print Assumptions C05_example_interleaving.
