(* C20: iteration visits precisely the objects that have not been destroyed. *)
From Coq Require Import ZArith List Bool Lia.
Require Import Verif.gen.Consts_hdb Verif.HdbModel Verif.HdbProofs Verif.HdbProofs2.
Import ListNotations.
Local Open Scope Z_scope.

Definition active (s : slot) : bool := s_state s =? HDB_STATE_ACTIVE.

(* check words are what random() can return: [0, 2^31) *)
Definition checks_ok (l : list slot) : Prop :=
  forall i s, nth_error l i = Some s -> nonempty s -> 0 <= s_check s < two31.

Lemma idx_of_mk c j : 0 <= j < two31 -> idx_of (mk_handle c j) = j.
Proof.
  intros Hj. unfold idx_of, mk_handle. unfold two31, two32 in *.
  replace ((c mod 4294967296 * 4294967296 + j) mod 4294967296) with j
    by (apply Z.mod_unique with (c mod 4294967296); lia).
  apply to_i32_small. unfold two31; lia.
Qed.

(* first ACTIVE slot of a list whose head has absolute index i *)
Fixpoint first_active (l : list slot) (i : nat) : option (nat * slot) :=
  match l with
  | [] => None
  | s :: t => if active s then Some (i, s) else first_active t (S i)
  end.

Lemma first_active_some l i j s :
  first_active l i = Some (j, s) ->
  (i <= j)%nat /\ nth_error l (j - i) = Some s /\ active s = true /\
  filter active l = s :: filter active (skipn (S (j - i)) l).
Proof.
  revert i; induction l as [|a l IH]; intros i H; simpl in H; [discriminate|].
  destruct (active a) eqn:E.
  - inversion H; subst. rewrite Nat.sub_diag. simpl. rewrite E. repeat split; auto.
  - apply IH in H. destruct H as (Hle & Hn & Ha & Hf).
    replace (j - i)%nat with (S (j - S i)) by lia. simpl. rewrite E. repeat split; auto. lia.
Qed.

Lemma first_active_none l i : first_active l i = None -> filter active l = [].
Proof.
  revert i; induction l as [|a l IH]; intros i H; simpl in *; auto.
  destruct (active a); [discriminate|]. eapply IH; eauto.
Qed.

Lemma nth_error_skipn {A} (l : list A) k i : nth_error (skipn k l) i = nth_error l (k + i).
Proof. revert l; induction k as [|k IH]; intros [|a l]; simpl; auto. destruct i; auto. Qed.

Lemma skipn_skipn_plus {A} (l : list A) a b : skipn a (skipn b l) = skipn (a + b) l.
Proof.
  revert l; induction b as [|b IH]; intros l; simpl.
  - rewrite Nat.add_0_r; auto.
  - destruct l as [|x l]; [rewrite !skipn_nil; auto|]. rewrite Nat.add_succ_r. simpl. apply IH.
Qed.

Lemma skipn_upd_after {A} (l : list A) j x : skipn (S j) (upd l j x) = skipn (S j) l.
Proof. revert j; induction l as [|a l IH]; intros [|j]; simpl; auto. apply IH. Qed.

Lemma skipn_cons_nth {A} (l : list A) k a : nth_error l k = Some a -> skipn k l = a :: skipn (S k) l.
Proof. revert k; induction l as [|b l IH]; intros [|k] H; simpl in *; try discriminate; [congruence|auto]. Qed.

(* one iterator_next call, from cursor k *)
Lemma iter_loop_spec : forall fuel d r k,
  Inv d -> checks_ok (slots d) -> iter d = Z.of_nat k -> (k <= length (slots d))%nat ->
  (length (slots d) - k < fuel)%nat -> r <> 0 ->
  match first_active (skipn k (slots d)) k with
  | None => exists r', r' <> 0 /\ iter_loop fuel d r =
              ({| slots := slots d; iter := Z.of_nat (length (slots d)); next_inst := next_inst d; dlog := dlog d |},
               OIter r' 0 0)
  | Some (j, s) =>
      iter_loop fuel d r =
        ({| slots := upd (slots d) j {| s_state := s_state s; s_check := s_check s; s_ref := s_ref s + 1; s_inst := s_inst s |};
            iter := Z.of_nat (S j); next_inst := next_inst d; dlog := dlog d |},
         OIter 0 (s_inst s) (mk_handle (s_check s) (Z.of_nat j)))
  end.
Proof.
  induction fuel as [|f IH]; intros d r k I C Hk Hle Hf Hr; [lia|].
  pose proof (inv_len d I) as Hmax.
  assert (Hmax' : HDB_ARRAY_MAX_ELEMENTS < two31) by (unfold HDB_ARRAY_MAX_ELEMENTS, two31; lia).
  cbn [iter_loop]. unfold handle_count. rewrite Hk.
  destruct (Z.ltb_spec (Z.of_nat k) (Z.of_nat (length (slots d)))) as [Hlt|Hge].
  - assert (Hkl : (k < length (slots d))%nat) by lia.
    destruct (nth_error (slots d) k) as [a|] eqn:Hn; [|apply nth_error_None in Hn; lia].
    unfold nth_slot. replace (Z.of_nat k <? 0) with false by (symmetry; apply Z.ltb_ge; lia).
    rewrite Nat2Z.id, Hn.
    rewrite (skipn_cons_nth _ _ _ Hn). cbn [first_active].
    set (h := mk_handle (s_check a) (Z.of_nat k)).
    assert (Hidx : idx_of h = Z.of_nat k) by (apply idx_of_mk; lia).
    destruct (active a) eqn:Ea.
    + (* the slot under the cursor is ACTIVE: get succeeds *)
      unfold active in Ea. apply Z.eqb_eq in Ea.
      assert (Hne : nonempty a) by (unfold nonempty; rewrite Ea; apply st_active_ne_empty).
      assert (Hchk : check_of h = s_check a).
      { apply (mk_handle_split (s_check a) (Z.of_nat k)); [eapply C; eauto|lia]. }
      destruct (do_get_cases d h) as [E|(s & H0 & Hs & Hst & Hc & E)].
      * exfalso. unfold do_get in E. unfold handle_count in E. rewrite Hidx in E.
        replace (Z.of_nat (length (slots d)) <=? Z.of_nat k) with false in E by (symmetry; apply Z.leb_gt; lia).
        unfold nth_slot in E. replace (Z.of_nat k <? 0) with false in E by (symmetry; apply Z.ltb_ge; lia).
        rewrite Nat2Z.id, Hn in E. rewrite Ea, Z.eqb_refl in E. simpl in E.
        unfold check_ok in E. rewrite Hchk, Z.eqb_refl, orb_true_r in E. simpl in E.
        inversion E.
      * rewrite Hidx, Nat2Z.id, Hn in Hs. inversion Hs; subst s. rewrite E. simpl.
        rewrite Hidx, Nat2Z.id, Hk. f_equal. f_equal. lia.
    + (* not ACTIVE: get fails, cursor moves on *)
      assert (E : do_get d h = (d, - HDB_EBADF, 0)).
      { destruct (do_get_cases d h) as [E|(s & H0 & Hs & Hst & Hc & E)]; auto.
        rewrite Hidx, Nat2Z.id, Hn in Hs. inversion Hs; subst s. unfold active in Ea. apply Z.eqb_neq in Ea. contradiction. }
      rewrite E. replace (- HDB_EBADF =? 0) with false by reflexivity.
      set (d2 := {| slots := slots d; iter := iter d + 1; next_inst := next_inst d; dlog := dlog d |}).
      assert (I2 : Inv d2) by (apply inv_set_iter; auto).
      specialize (IH d2 (- HDB_EBADF) (S k) I2 C).
      assert (Hit : iter d2 = Z.of_nat (S k)) by (simpl; lia).
      specialize (IH Hit). simpl in IH. specialize (IH ltac:(lia) ltac:(lia) ltac:(pose proof ebadf_pos; lia)).
      exact IH.
  - assert (k = length (slots d)) by lia. subst k. rewrite skipn_all. simpl.
    exists r. split; auto. f_equal. destruct d; simpl in *. rewrite Hk. reflexivity.
Qed.

(* the whole iteration: reset, then next until it fails *)
Fixpoint iterate (fuel : nat) (d : hdb) : list Z :=
  match fuel with
  | O => []
  | S f => match step d IterNext with
           | (d', OIter 0 inst _) => inst :: iterate f d'
           | _ => []
           end
  end.

Definition undestroyed (d : hdb) : list Z := map s_inst (filter active (slots d)).

Lemma checks_ok_upd_ref l j s :
  checks_ok l -> nth_error l j = Some s ->
  checks_ok (upd l j {| s_state := s_state s; s_check := s_check s; s_ref := s_ref s + 1; s_inst := s_inst s |}).
Proof.
  intros C Hn i t Ht Hne. rewrite nth_upd in Ht. destruct (Nat.eqb_spec j i).
  - destruct (Nat.ltb j (length l)); inversion Ht; subst; simpl. eapply C; eauto.
  - eapply C; eauto.
Qed.

Lemma iterate_spec : forall n fuel d k,
  Inv d -> checks_ok (slots d) -> iter d = Z.of_nat k -> (k <= length (slots d))%nat ->
  (length (slots d) - k < n)%nat -> (n <= fuel)%nat ->
  iterate fuel d = map s_inst (filter active (skipn k (slots d))).
Proof.
  induction n as [|n IH]; intros fuel d k I C Hk Hle Hn Hf; [lia|].
  destruct fuel as [|fuel]; [lia|]. cbn [iterate]. unfold step.
  pose proof (iter_loop_spec (S (length (slots d))) d (-1) k I C Hk Hle ltac:(lia) ltac:(lia)) as SP.
  destruct (first_active (skipn k (slots d)) k) as [[j s]|] eqn:F.
  - rewrite SP. apply first_active_some in F. destruct F as (Hkj & Hnth & Ha & Hfil).
    rewrite nth_error_skipn in Hnth. replace (k + (j - k))%nat with j in Hnth by lia.
    assert (Hjl : (j < length (slots d))%nat) by (apply nth_error_Some; congruence).
    set (s' := {| s_state := s_state s; s_check := s_check s; s_ref := s_ref s + 1; s_inst := s_inst s |}).
    set (d' := {| slots := upd (slots d) j s'; iter := Z.of_nat (S j); next_inst := next_inst d; dlog := dlog d |}).
    assert (I' : Inv d').
    { pose proof (inv_step d IterNext I) as X. unfold step in X. rewrite SP in X. exact X. }
    rewrite (IH fuel d' (S j) I').
    + unfold d'; cbn [slots]. rewrite skipn_upd_after. rewrite Hfil. cbn [map]. f_equal.
      rewrite skipn_skipn_plus. replace (S (j - k) + k)%nat with (S j) by lia. reflexivity.
    + unfold d'; cbn [slots]. apply checks_ok_upd_ref; auto.
    + reflexivity.
    + unfold d'; cbn [slots]. rewrite upd_length. lia.
    + unfold d'; cbn [slots]. rewrite upd_length. lia.
    + lia.
  - destruct SP as (r' & Hr' & SP). rewrite SP. rewrite (first_active_none _ _ F). simpl.
    destruct r'; try reflexivity. lia.
Qed.

Theorem iteration_complete d :
  Inv d -> checks_ok (slots d) ->
  iterate (S (length (slots d))) (fst (step d IterReset)) = undestroyed d.
Proof.
  intros I C. unfold undestroyed. simpl fst.
  rewrite (iterate_spec (S (length (slots d))) (S (length (slots d))) _ O); simpl; auto; try lia.
  apply inv_set_iter; auto.
Qed.

(* checks_ok holds in every reachable state when random() stays within [0, 2^31) *)
Definition create_in_range (o : op) : Prop := match o with Create c => 0 <= c < two31 | _ => True end.

Lemma checks_ok_upd l j s' :
  checks_ok l -> (nonempty s' -> 0 <= s_check s' < two31) -> checks_ok (upd l j s').
Proof.
  intros C H i t Ht Hne. rewrite nth_upd in Ht. destruct (Nat.eqb_spec j i).
  - destruct (Nat.ltb j (length l)); inversion Ht; subst; auto.
  - eapply C; eauto.
Qed.

Lemma checks_ok_get d h : checks_ok (slots d) -> checks_ok (slots (fst (fst (do_get d h)))).
Proof.
  intros C. destruct (do_get_cases d h) as [->|(s & H0 & Hn & Hs & _ & ->)]; simpl; auto.
  apply checks_ok_upd; auto. simpl. intros _. eapply C; eauto. unfold nonempty. rewrite Hs. apply st_active_ne_empty.
Qed.

Lemma checks_ok_drop d i s :
  checks_ok (slots d) -> nth_error (slots d) (Z.to_nat i) = Some s -> nonempty s -> checks_ok (slots (drop_ref d i s)).
Proof.
  intros C Hn Hne. unfold drop_ref. destruct (s_ref s - 1 =? 0); simpl; apply checks_ok_upd; auto.
  - intros H. exfalso. revert H. apply zero_slot_empty.
  - simpl. intros _. eapply C; eauto.
Qed.

Lemma checks_ok_put d h : checks_ok (slots d) -> checks_ok (slots (fst (do_put d h))).
Proof.
  intros C. unfold do_put. destruct (lookup d h) as [[i s]|] eqn:L; simpl; auto.
  apply lookup_some in L. destruct L as (_ & _ & Hn & Hne & _). apply checks_ok_drop; auto.
Qed.

Lemma checks_ok_iter_loop fuel : forall d r, checks_ok (slots d) -> checks_ok (slots (fst (iter_loop fuel d r))).
Proof.
  induction fuel as [|f IH]; intros d r C; simpl; auto.
  destruct (iter d <? handle_count d); simpl; auto.
  destruct (nth_slot d (iter d)) as [s|]; simpl; auto.
  pose proof (checks_ok_get d (mk_handle (s_check s) (iter d)) C) as G.
  destruct (do_get d (mk_handle (s_check s) (iter d))) as [[d1 r1] inst]. simpl in G.
  destruct (r1 =? 0); simpl; auto.
Qed.

Lemma checks_ok_step d o : checks_ok (slots d) -> create_in_range o -> checks_ok (slots (fst (step d o))).
Proof.
  intros C R. destruct o; unfold step.
  - simpl in R. unfold do_create. destruct (find_empty (slots d) 0) as [i|]; simpl.
    + apply checks_ok_upd; auto.
    + destruct (HDB_ARRAY_MAX_ELEMENTS <? handle_count d + 1); simpl; auto.
      intros i s Hn Hne. rewrite nth_app_new in Hn. destruct (Nat.eqb i (length (slots d))).
      * inversion Hn; subst; auto.
      * eapply C; eauto.
  - unfold do_create_fail. destruct (find_empty (slots d) 0) as [i|] eqn:E; simpl.
    + apply find_empty_spec in E. destruct E as (H0 & s & Hn & Hs). rewrite Z.sub_0_r in Hn.
      rewrite Hn. simpl. apply checks_ok_upd; auto. unfold nonempty; simpl. tauto.
    + destruct (HDB_ARRAY_MAX_ELEMENTS <? handle_count d + 1); simpl; auto.
      intros i s Hn Hne. rewrite nth_app_new in Hn. destruct (Nat.eqb i (length (slots d))).
      * inversion Hn; subst. exfalso. revert Hne. apply zero_slot_empty.
      * eapply C; eauto.
  - pose proof (checks_ok_get d h C). destruct (do_get d h) as [[d' r] inst]; auto.
  - pose proof (checks_ok_put d h C). destruct (do_put d h); auto.
  - unfold do_destroy. destruct (lookup d h) as [[i s]|] eqn:L; simpl; auto.
    apply lookup_some in L. destruct L as (_ & _ & Hn & Hne & _).
    set (d1 := set_slot d i _).
    pose proof (checks_ok_put d1 h) as P. destruct (do_put d1 h) as [d' r]. simpl in *. apply P.
    subst d1; simpl. apply checks_ok_upd; auto. simpl. intros _. eapply C; eauto.
  - auto.
  - auto.
  - apply checks_ok_iter_loop; auto.
Qed.

Lemma checks_ok_run : forall ops d, checks_ok (slots d) -> Forall create_in_range ops -> checks_ok (slots (fst (run d ops))).
Proof.
  induction ops as [|o ops IH]; intros d C F; simpl; auto.
  inversion F; subst.
  pose proof (checks_ok_step d o C H1) as Cs. destruct (step d o) as [d1 x]. simpl in Cs.
  specialize (IH d1 Cs H2). destruct (run d1 ops) as [d2 xs]. simpl in *. auto.
Qed.

Theorem iteration_complete_all_histories : forall ops,
  Forall create_in_range ops ->
  let d := fst (run hdb_init ops) in
  iterate (S (length (slots d))) (fst (step d IterReset)) = undestroyed d.
Proof.
  intros ops F d. apply iteration_complete.
  - apply inv_run_init.
  - apply checks_ok_run; auto. intros i s H. destruct i; discriminate.
Qed.

Lemma ex_iteration :
  iterate 10 (fst (step (fst (run hdb_init ex_ops)) IterReset)) = [3; 2].
Proof. vm_compute. reflexivity. Qed.
