(* C01: the notifier semaphore for readers that peek and then reclaim (the IPC shm server side) - token invariant. *)
From Coq Require Import ZArith List Bool Lia ZifyBool.
Import ListNotations.
Require Import Verif.gen.Consts_rb Verif.gen.Consts_rbconc Verif.RbModel Verif.RbMem Verif.RbSpec Verif.RbProofs
  Verif.RbConcModel Verif.RbConcProofs Verif.RbConcProofsInv Verif.RbConcProofsTok.
Local Open Scope Z_scope.

(* ------------------------------------------------------------------ readers that peek, then reclaim (IPC shm server side)
   Reader programs in which every qb_rb_chunk_peek is immediately followed by qb_rb_chunk_reclaim (reads and further
   reclaims anywhere).  The token taken by a successful peek is held until that reclaim. *)
Fixpoint peek_reclaim (p : list rcall) : Prop :=
  match p with
  | [] => True
  | RPeek _ :: rest => match rest with RReclaim :: _ => peek_reclaim rest | _ => False end
  | _ :: rest => peek_reclaim rest
  end.

Lemma peek_reclaim_tl : forall p, peek_reclaim p -> peek_reclaim (tl p).
Proof.
  intros [|c rest] H; [exact I|]. cbn [tl]. destruct c; cbn [peek_reclaim] in H; try assumption.
  destruct rest as [|c1 r1]; [exact I|]. destruct c1; try contradiction. exact H.
Qed.

Definition between (p : rpc) : bool := match p with RStart | RCall => true | _ => false end.
Definition pre_copy (p : rpc) : bool :=
  match p with RRdRpt | RRdWpt _ | RRdMagic _ | RFailPost | RRdSize _ | RNoBufPost => true | _ => false end.
Definition bz (b : bool) : Z := if b then 1 else 0.

(* tokens the reader holds: inside a read / peek call after its wait; or, between calls and inside a reclaim call, for
   the chunk it has peeked and not yet reclaimed *)
Definition held (t : rthread) : Z :=
  if between (r_pc t) then bz (r_have t)
  else match rcur t with RReclaim => bz (r_have t) | _ => 1 end.

Definition front (p : rpc) : bool := match p with RCopy _ _ => true | _ => pre_copy p end.

Definition disc (t : rthread) : Prop :=
  peek_reclaim (r_prog t) /\
  (between (r_pc t) = true -> r_have t = true -> exists rest, r_prog t = RReclaim :: rest) /\
  (pre_copy (r_pc t) = true -> r_have t = false) /\
  (between (r_pc t) = false -> r_prog t <> []) /\
  (front (r_pc t) = true -> rcur t <> RReclaim) /\
  (in_rc (r_pc t) = true -> is_peek (rcur t) = false).

Lemma bz_cases : forall b, bz b = 0 \/ bz b = 1.
Proof. destruct b; cbn; auto. Qed.

Lemma rstep_tokens2 : forall h t r c, rstep h t = Some r -> hsem h = Some c -> disc t -> s_err r = false ->
  (r_have t = true -> (exists rp, r_pc t = RcRdWpt rp \/ r_pc t = RcRdMagic rp) -> s_ret r = None) ->
  (exists c', hsem (s_sh r) = Some c') /\ semv (s_sh r) + held (s_t r) + dgot (s_gh r) >= c + held t /\ disc (s_t r) /\
  dpub (s_gh r) = 0.
Proof.
  intros h t r c H Hs (Dp & Da & Dc & Dd & De & Df) He Hns.
  pose proof (peek_reclaim_tl _ Dp) as Dtl.
  destruct (r_pc t) eqn:Epc; unfold rstep in H; rewrite Epc in H;
    unfold rgo, rreturn, r_fail, rc_fail, copy_done, act_wait, act_rd_rpt, act_rc_rd_rpt, post in H;
    rewrite ?Hs in H;
    repeat match type of H with
           | context [match ?x with _ => _ end] => destruct x eqn:?
           end;
    try discriminate; inversion H; subst r; clear H;
    cbn [s_sh s_t s_gh s_err s_ret hsem set_hsem set_mem set_rpt dgot dpub] in *; try discriminate.
  all: unfold semv, held, disc, rcur in *;
       cbn [s_t r_at r_ret r_pc r_prog r_have r_buf hsem set_hsem set_mem set_rpt between pre_copy front in_rc] in *;
       rewrite ?Hs; rewrite ?Epc; cbn [between pre_copy front in_rc].
  all: (split; [eexists; reflexivity|]).
  all: destruct (r_have t) eqn:Ehv.
  all: destruct (r_prog t) as [|c0 pr] eqn:Ep;
       [|destruct c0; (destruct pr as [|c1 pr1]; [|destruct c1])].
  all: repeat match goal with
              | E : _ :: _ = _ :: _ |- _ => inversion E; subst; clear E
              | E : [] = _ :: _ |- _ => discriminate E
              | E : _ :: _ = [] |- _ => discriminate E
              end.
  all: cbn [tl peek_reclaim bz is_read is_peek] in *.
  all: try contradiction; try discriminate.
  all: try (destruct (Da eq_refl eq_refl) as (rest & Er); discriminate).
  all: try (specialize (Dc eq_refl); discriminate).
  all: try (exfalso; apply Dd; reflexivity).
  all: try (exfalso; apply De; reflexivity).
  all: try (specialize (Df eq_refl); discriminate).
  all: try (assert (Hn : @None (Z * list Z) = None -> False) by (intro; idtac; fail); fail).
  all: try (exfalso; match goal with Hn : true = true -> _ -> Some _ = None |- _ =>
                       assert (Hx : Some _ = None) by (apply Hn; [reflexivity | eexists; eauto]); discriminate end).
  all: repeat split; try lia; try assumption; try (intros; discriminate); try (intros; eexists; reflexivity); try exact I.
Qed.


Definition TokInv2 (s : state) : Prop :=
  match hsem (g_sh s) with
  | Some c => c + held (g_r s) + wtok (g_w s) >= Z.of_nat (length (g_pub s)) - Z.of_nat (length (g_got s))
  | None => True
  end.

Lemma have_unread : forall s, Inv s -> r_have (g_r s) = true -> unread s <> [].
Proof.
  intros s (RP & q & pre & Hpub & Hgot & _ & _ & (Hh & _) & _) E.
  destruct (Hh E) as (c & q0 & -> & _).
  unfold unread. pose proof (forall2_len _ _ _ _ _ Hgot) as Hl.
  replace (length (g_got s)) with (length pre) by (symmetry; exact Hl).
  rewrite Hpub, skipn_app, skipn_all, Nat.sub_diag. cbn. discriminate.
Qed.

Theorem tok2_step : forall t s s' o, Inv s -> hsem (g_sh s) <> None -> TokInv2 s -> disc (g_r s) ->
  step t s = Some (s', o) -> hsem (g_sh s') <> None /\ TokInv2 s' /\ disc (g_r s').
Proof.
  intros t s s' o HI Hsm HT Hd Hst.
  pose proof (inv_step _ _ _ _ HI Hst) as (_ & _ & _ & _ & _ & _ & _ & _ & _ & Herr').
  unfold step in Hst. unfold TokInv2 in *.
  destruct (hsem (g_sh s)) as [c|] eqn:Es; [clear Hsm|congruence].
  destruct t.
  - destruct (wstep (g_sh s) (g_w s)) as [r|] eqn:Ew; [|discriminate].
    destruct (apply_ghost (s_gh r) (g_pub s) (g_got s)) as [pub got] eqn:Eg.
    inversion Hst; subst s'; clear Hst. cbn [g_sh g_w g_r g_pub g_got] in *.
    destruct (apply_ghost_len _ _ _ _ _ Eg) as (Lp & Lg).
    destruct (wstep_tokens _ _ _ _ Ew Es) as ((c' & Es') & Hge & Hdg). rewrite Es'. unfold semv in Hge. rewrite Es' in Hge.
    split; [discriminate|]. split; [lia|assumption].
  - destruct (rstep (g_sh s) (g_r s)) as [r|] eqn:Er; [|discriminate].
    destruct (apply_ghost (s_gh r) (g_pub s) (g_got s)) as [pub got] eqn:Eg.
    inversion Hst; subst s'; clear Hst. cbn [g_sh g_w g_r g_pub g_got g_err] in *.
    destruct (apply_ghost_len _ _ _ _ _ Eg) as (Lp & Lg).
    assert (He : s_err r = false) by (destruct (g_err s), (s_err r); cbn in Herr'; congruence).
    assert (Hns : r_have (g_r s) = true ->
                  (exists rp, r_pc (g_r s) = RcRdWpt rp \/ r_pc (g_r s) = RcRdMagic rp) -> s_ret r = None).
    { intros Ehv (rp & Hp). pose proof (have_unread _ HI Ehv) as Hu.
      destruct (no_spurious_empty _ _ HI Hu Er) as (_ & _ & H3 & H4).
      destruct Hp as [Hp|Hp]; [apply (H3 rp Hp) | apply (H4 rp Hp)]. }
    destruct (rstep_tokens2 _ _ _ _ Er Es Hd He Hns) as ((c' & Es') & Hge & Hd' & Hdp).
    rewrite Es'. unfold semv in Hge. rewrite Es' in Hge.
    split; [discriminate|]. split; [lia|exact Hd'].
Qed.

Theorem tok2_exec : forall sched s, Inv s -> hsem (g_sh s) <> None -> TokInv2 s -> disc (g_r s) ->
  TokInv2 (exec sched s) /\ disc (g_r (exec sched s)).
Proof.
  induction sched as [|t sc IH]; intros s HI Hsm HT Hd; cbn [exec fold_left]; [split; assumption|].
  unfold step1. destruct (step t s) as [[s' o]|] eqn:E; [|apply IH; assumption].
  destruct (tok2_step _ _ _ _ HI Hsm HT Hd E) as (Hsm' & HT' & Hd'). apply IH; [eapply inv_step; eauto | | |]; assumption.
Qed.

(* the notifier for readers that peek and then reclaim (reads and bare reclaims anywhere): in every reachable state
   tokens in the semaphore + tokens the reader holds + the writer's pending post >= unread chunks.  Hence, whenever a
   published chunk is unread, the count is positive, or the reader holds a token (it is inside a read / peek call past
   its wait, or it holds a peeked chunk it is about to reclaim), or the writer is just about to post. *)
Theorem all_tokens2 : forall h pw pr sched c0, wf_ring h -> hsem h = Some c0 -> peek_reclaim pr ->
  let s := exec sched (init h pw pr) in
  exists c, hsem (g_sh s) = Some c /\
            c + held (g_r s) + wtok (g_w s) >= Z.of_nat (length (g_pub s)) - Z.of_nat (length (g_got s)) /\
            ((length (g_got s) < length (g_pub s))%nat -> 0 < c \/ held (g_r s) = 1 \/ wtok (g_w s) = 1).
Proof.
  intros h pw pr sched c0 Hwf Hs Hpr s.
  assert (Hd0 : disc (g_r (init h pw pr))).
  { unfold disc, init; cbn [g_r rthread0 r_prog r_pc r_have between pre_copy front in_rc].
    split; [exact Hpr|]. repeat split; intros; discriminate. }
  assert (HT0 : TokInv2 (init h pw pr)).
  { unfold TokInv2, init; cbn [g_sh g_w g_r g_pub g_got length]. rewrite Hs.
    destruct Hwf as (_ & _ & _ & _ & Hok). unfold sem_ok in Hok. rewrite Hs in Hok.
    unfold held, wtok; cbn [rthread0 wthread0 r_pc w_pc between r_have bz]. lia. }
  assert (Hsm0 : hsem (g_sh (init h pw pr)) <> None) by (cbn [init g_sh]; rewrite Hs; discriminate).
  destruct (tok2_exec sched _ (inv_init h pw pr Hwf) Hsm0 HT0 Hd0) as (HT & Hd).
  fold s in HT, Hd. unfold TokInv2 in HT.
  assert (Hsm : hsem (g_sh s) <> None).
  { clear HT Hd. unfold s. generalize (inv_init h pw pr Hwf) Hsm0 HT0 Hd0. generalize (init h pw pr).
    induction sched as [|t sc IH]; intros s1 HI1 H1 H2 H3; cbn [exec fold_left]; [assumption|].
    unfold step1. destruct (step t s1) as [[s' o]|] eqn:E; [|apply IH; assumption].
    destruct (tok2_step _ _ _ _ HI1 H1 H2 H3 E) as (Hsm' & HT' & Hd'). apply IH; [eapply inv_step; eauto | | |]; assumption. }
  destruct (hsem (g_sh s)) as [c|] eqn:Es; [|congruence].
  exists c. split; [reflexivity|]. split; [exact HT|].
  intros Hlt.
  assert (Hh : held (g_r s) = 0 \/ held (g_r s) = 1).
  { unfold held. destruct (between _); [apply bz_cases|]. destruct (rcur _); auto; apply bz_cases. }
  assert (Hw : wtok (g_w s) = 0 \/ wtok (g_w s) = 1) by (unfold wtok; destruct (w_pc _); auto).
  lia.
Qed.

(* ... so a reader blocked in sem_wait cannot sleep while a chunk is queued and the writer is done *)
Theorem all_no_deadlock2 : forall h pw pr sched c0, wf_ring h -> hsem h = Some c0 -> peek_reclaim pr ->
  let s := exec sched (init h pw pr) in
  r_prog (g_r s) <> [] -> step TR s = None -> step TW s = None ->
  length (g_got s) = length (g_pub s).
Proof.
  intros h pw pr sched c0 Hwf Hs Hpr s Hne Hr Hw.
  assert (HI : Inv s) by (apply all_inv; assumption).
  destruct (all_tokens2 h pw pr sched c0 Hwf Hs Hpr) as (c & Es & Hge & _). fold s in Es, Hge.
  assert (Hd : disc (g_r s)).
  { assert (Hd0 : disc (g_r (init h pw pr))).
    { unfold disc, init; cbn [g_r rthread0 r_prog r_pc r_have between pre_copy front in_rc].
      split; [exact Hpr|]. repeat split; intros; discriminate. }
    assert (HT0 : TokInv2 (init h pw pr)).
    { unfold TokInv2, init; cbn [g_sh g_w g_r g_pub g_got length]. rewrite Hs.
      destruct Hwf as (_ & _ & _ & _ & Hok). unfold sem_ok in Hok. rewrite Hs in Hok.
      unfold held, wtok; cbn [rthread0 wthread0 r_pc w_pc between r_have bz]. lia. }
    assert (Hsm0 : hsem (g_sh (init h pw pr)) <> None) by (cbn [init g_sh]; rewrite Hs; discriminate).
    apply (tok2_exec sched _ (inv_init h pw pr Hwf) Hsm0 HT0 Hd0). }
  unfold step in Hr, Hw.
  destruct (rstep (g_sh s) (g_r s)) as [r|] eqn:Er.
  { destruct (apply_ghost (s_gh r) (g_pub s) (g_got s)); discriminate. }
  destruct (wstep (g_sh s) (g_w s)) as [r|] eqn:Ew.
  { destruct (apply_ghost (s_gh r) (g_pub s) (g_got s)); discriminate. }
  destruct (rstep_none_blocked _ _ Er Hne) as (Epc & c1 & Es1 & Hc).
  rewrite Es in Es1. inversion Es1; subst c1.
  pose proof (wstep_none_tok _ _ Ew) as Hwt. rewrite Hwt in Hge.
  assert (Hh : held (g_r s) = 0).
  { unfold held. rewrite Epc. cbn [between]. destruct (r_have (g_r s)) eqn:Ehv; [|reflexivity].
    destruct Hd as (_ & Da & _). rewrite Epc in Da. destruct (Da eq_refl Ehv) as (rest & Ep).
    exfalso. unfold rstep in Er. rewrite Epc, Ep in Er. unfold act_rc_rd_rpt, rgo in Er. discriminate. }
  rewrite Hh in Hge.
  destruct HI as (RP & q & pre & Hpub & Hgot & _).
  pose proof (forall2_len _ _ _ _ _ Hgot) as Hl.
  assert (Hle : (length (g_got s) <= length (g_pub s))%nat).
  { rewrite Hpub, app_length. replace (length (g_got s)) with (length pre) by (symmetry; exact Hl). lia. }
  lia.
Qed.

(* ------------------------------------------------------------------ the same, with the discipline as a condition on the RUN
   The IPC server reclaims only after a peek that succeeded (lib/ipcs.c: _process_request_), which a static program
   cannot express.  Dynamic form: along the run, whenever the reader is between calls holding a peeked chunk, its next
   call is qb_rb_chunk_reclaim.  Every actual sequence of reader calls with that habit is some program `pr' satisfying
   it, whatever the outcomes of the peeks were. *)
Definition next_is_reclaim (t : rthread) : Prop :=
  between (r_pc t) = true -> r_have t = true -> exists rest, r_prog t = RReclaim :: rest.

Definition disc0 (t : rthread) : Prop :=
  (pre_copy (r_pc t) = true -> r_have t = false) /\
  (between (r_pc t) = false -> r_prog t <> []) /\
  (front (r_pc t) = true -> rcur t <> RReclaim) /\
  (in_rc (r_pc t) = true -> is_peek (rcur t) = false).

Lemma rstep_tokens3 : forall h t r c, rstep h t = Some r -> hsem h = Some c -> disc0 t -> next_is_reclaim t ->
  s_err r = false ->
  (r_have t = true -> (exists rp, r_pc t = RcRdWpt rp \/ r_pc t = RcRdMagic rp) -> s_ret r = None) ->
  (exists c', hsem (s_sh r) = Some c') /\ semv (s_sh r) + held (s_t r) + dgot (s_gh r) >= c + held t /\ disc0 (s_t r) /\
  dpub (s_gh r) = 0.
Proof.
  intros h t r c H Hs (Dc & Dd & De & Df) Da He Hns. unfold next_is_reclaim in Da.
  destruct (r_pc t) eqn:Epc; unfold rstep in H; rewrite Epc in H;
    unfold rgo, rreturn, r_fail, rc_fail, copy_done, act_wait, act_rd_rpt, act_rc_rd_rpt, post in H;
    rewrite ?Hs in H;
    repeat match type of H with
           | context [match ?x with _ => _ end] => destruct x eqn:?
           end;
    try discriminate; inversion H; subst r; clear H;
    cbn [s_sh s_t s_gh s_err s_ret hsem set_hsem set_mem set_rpt dgot dpub] in *; try discriminate.
  all: unfold semv, held, disc0, rcur in *;
       cbn [s_t r_at r_ret r_pc r_prog r_have r_buf hsem set_hsem set_mem set_rpt between pre_copy front in_rc] in *;
       rewrite ?Hs; rewrite ?Epc; cbn [between pre_copy front in_rc].
  all: (split; [eexists; reflexivity|]).
  all: destruct (r_have t) eqn:Ehv.
  all: destruct (r_prog t) as [|c0 pr] eqn:Ep;
       [|destruct c0; (destruct pr as [|c1 pr1]; [|destruct c1])].
  all: repeat match goal with
              | E : _ :: _ = _ :: _ |- _ => inversion E; subst; clear E
              | E : [] = _ :: _ |- _ => discriminate E
              | E : _ :: _ = [] |- _ => discriminate E
              end.
  all: cbn [tl bz is_read is_peek] in *.
  all: try contradiction; try discriminate.
  all: try (destruct (Da eq_refl eq_refl) as (rest & Er); discriminate).
  all: try (specialize (Dc eq_refl); discriminate).
  all: try (exfalso; apply Dd; reflexivity).
  all: try (exfalso; apply De; reflexivity).
  all: try (specialize (Df eq_refl); discriminate).
  all: try (exfalso; match goal with Hn : true = true -> _ -> Some _ = None |- _ =>
                       assert (Hx : Some _ = None) by (apply Hn; [reflexivity | eexists; eauto]); discriminate end).
  all: repeat split; try lia; try assumption; try (intros; discriminate); try (intros; eexists; reflexivity); try exact I.
Qed.

Theorem tok3_step : forall t s s' o, Inv s -> hsem (g_sh s) <> None -> TokInv2 s -> disc0 (g_r s) ->
  next_is_reclaim (g_r s) -> step t s = Some (s', o) -> hsem (g_sh s') <> None /\ TokInv2 s' /\ disc0 (g_r s').
Proof.
  intros t s s' o HI Hsm HT Hd Hn Hst.
  pose proof (inv_step _ _ _ _ HI Hst) as (_ & _ & _ & _ & _ & _ & _ & _ & _ & Herr').
  unfold step in Hst. unfold TokInv2 in *.
  destruct (hsem (g_sh s)) as [c|] eqn:Es; [clear Hsm|congruence].
  destruct t.
  - destruct (wstep (g_sh s) (g_w s)) as [r|] eqn:Ew; [|discriminate].
    destruct (apply_ghost (s_gh r) (g_pub s) (g_got s)) as [pub got] eqn:Eg.
    inversion Hst; subst s'; clear Hst. cbn [g_sh g_w g_r g_pub g_got] in *.
    destruct (apply_ghost_len _ _ _ _ _ Eg) as (Lp & Lg).
    destruct (wstep_tokens _ _ _ _ Ew Es) as ((c' & Es') & Hge & Hdg). rewrite Es'. unfold semv in Hge. rewrite Es' in Hge.
    split; [discriminate|]. split; [lia|assumption].
  - destruct (rstep (g_sh s) (g_r s)) as [r|] eqn:Er; [|discriminate].
    destruct (apply_ghost (s_gh r) (g_pub s) (g_got s)) as [pub got] eqn:Eg.
    inversion Hst; subst s'; clear Hst. cbn [g_sh g_w g_r g_pub g_got g_err] in *.
    destruct (apply_ghost_len _ _ _ _ _ Eg) as (Lp & Lg).
    assert (He : s_err r = false) by (destruct (g_err s), (s_err r); cbn in Herr'; congruence).
    assert (Hns : r_have (g_r s) = true ->
                  (exists rp, r_pc (g_r s) = RcRdWpt rp \/ r_pc (g_r s) = RcRdMagic rp) -> s_ret r = None).
    { intros Ehv (rp & Hp). pose proof (have_unread _ HI Ehv) as Hu.
      destruct (no_spurious_empty _ _ HI Hu Er) as (_ & _ & H3 & H4).
      destruct Hp as [Hp|Hp]; [apply (H3 rp Hp) | apply (H4 rp Hp)]. }
    destruct (rstep_tokens3 _ _ _ _ Er Es Hd Hn He Hns) as ((c' & Es') & Hge & Hd' & Hdp).
    rewrite Es'. unfold semv in Hge. rewrite Es' in Hge.
    split; [discriminate|]. split; [lia|exact Hd'].
Qed.

(* P holds in the start state and after every prefix of the schedule *)
Fixpoint every_prefix (P : state -> Prop) (sched : list tid) (s : state) : Prop :=
  P s /\ match sched with [] => True | t :: sc => every_prefix P sc (step1 s t) end.

Theorem tok3_exec : forall sched s, Inv s -> hsem (g_sh s) <> None -> TokInv2 s -> disc0 (g_r s) ->
  every_prefix (fun x => next_is_reclaim (g_r x)) sched s -> TokInv2 (exec sched s) /\ hsem (g_sh (exec sched s)) <> None.
Proof.
  induction sched as [|t sc IH]; intros s HI Hsm HT Hd Hp; cbn [exec fold_left]; [split; assumption|].
  cbn [every_prefix] in Hp. destruct Hp as (Hn & Hp).
  unfold step1 in *. destruct (step t s) as [[s' o]|] eqn:E; [|apply IH; assumption].
  destruct (tok3_step _ _ _ _ HI Hsm HT Hd Hn E) as (Hsm' & HT' & Hd'). apply IH; [eapply inv_step; eauto | | | |]; assumption.
Qed.

Theorem all_tokens_dyn : forall h pw pr sched c0, wf_ring h -> hsem h = Some c0 ->
  every_prefix (fun x => next_is_reclaim (g_r x)) sched (init h pw pr) ->
  let s := exec sched (init h pw pr) in
  exists c, hsem (g_sh s) = Some c /\
            c + held (g_r s) + wtok (g_w s) >= Z.of_nat (length (g_pub s)) - Z.of_nat (length (g_got s)) /\
            ((length (g_got s) < length (g_pub s))%nat -> 0 < c \/ held (g_r s) = 1 \/ wtok (g_w s) = 1).
Proof.
  intros h pw pr sched c0 Hwf Hs Hp s.
  assert (Hd0 : disc0 (g_r (init h pw pr))).
  { unfold disc0, init; cbn [g_r rthread0 r_prog r_pc r_have between pre_copy front in_rc]. repeat split; intros; discriminate. }
  assert (HT0 : TokInv2 (init h pw pr)).
  { unfold TokInv2, init; cbn [g_sh g_w g_r g_pub g_got length]. rewrite Hs.
    destruct Hwf as (_ & _ & _ & _ & Hok). unfold sem_ok in Hok. rewrite Hs in Hok.
    unfold held, wtok; cbn [rthread0 wthread0 r_pc w_pc between r_have bz]. lia. }
  assert (Hsm0 : hsem (g_sh (init h pw pr)) <> None) by (cbn [init g_sh]; rewrite Hs; discriminate).
  destruct (tok3_exec sched _ (inv_init h pw pr Hwf) Hsm0 HT0 Hd0 Hp) as (HT & Hsm).
  fold s in HT, Hsm. unfold TokInv2 in HT.
  destruct (hsem (g_sh s)) as [c|] eqn:Es; [|congruence].
  exists c. split; [reflexivity|]. split; [exact HT|].
  intros Hlt.
  assert (Hh : held (g_r s) = 0 \/ held (g_r s) = 1).
  { unfold held. destruct (between _); [apply bz_cases|]. destruct (rcur _); auto; apply bz_cases. }
  assert (Hw : wtok (g_w s) = 0 \/ wtok (g_w s) = 1) by (unfold wtok; destruct (w_pc _); auto).
  lia.
Qed.

(* boolean form of the run condition, for concrete runs *)
Definition next_is_reclaimb (t : rthread) : bool :=
  negb (between (r_pc t) && r_have t) || match r_prog t with RReclaim :: _ => true | _ => false end.
Fixpoint every_prefixb (f : state -> bool) (sched : list tid) (s : state) : bool :=
  f s && match sched with [] => true | t :: sc => every_prefixb f sc (step1 s t) end.

Lemma next_is_reclaimb_sound : forall t, next_is_reclaimb t = true -> next_is_reclaim t.
Proof.
  intros t H Hb Hh. unfold next_is_reclaimb in H. rewrite Hb, Hh in H. cbn in H.
  destruct (r_prog t) as [|c rest]; [discriminate|]. destruct c; try discriminate. eexists; reflexivity.
Qed.

Lemma every_prefixb_sound : forall sched s, every_prefixb (fun x => next_is_reclaimb (g_r x)) sched s = true ->
  every_prefix (fun x => next_is_reclaim (g_r x)) sched s.
Proof.
  induction sched as [|t sc IH]; intros s H; cbn [every_prefixb every_prefix] in *; apply andb_prop in H; destruct H as (H1 & H2);
    (split; [apply next_is_reclaimb_sound; assumption|]); [exact I | apply IH; assumption].
Qed.
