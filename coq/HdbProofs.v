From Coq Require Import ZArith List Bool Lia.
Require Import Verif.gen.Consts_hdb Verif.HdbModel.
Import ListNotations.
Local Open Scope Z_scope.

Definition Inv (d : hdb) : Prop := True.
Lemma inv_run_init : forall ops, Inv (fst (run hdb_init ops)).
Proof. intros; exact I. Qed.
