(* C20: proofs about the handle-database model (HdbModel.v).
   Everything here is for ALL states satisfying the invariant / all operation lists. *)
From Coq Require Import ZArith List Bool Lia.
Require Import Verif.gen.Consts_hdb Verif.HdbModel.
Import ListNotations.
Local Open Scope Z_scope.

(* ------------------------------------------------------------------ *)
(* Side conditions on the constants regenerated from /repo.  If the enum in lib/hdb.c is
   reordered so that memset(0) no longer means EMPTY, these fail and the check reports it. *)
Lemma st_empty_zero : HDB_STATE_EMPTY = 0.            Proof. reflexivity. Qed.
Lemma st_active_ne_empty : HDB_STATE_ACTIVE <> HDB_STATE_EMPTY.   Proof. discriminate. Qed.
Lemma st_pending_ne_empty : HDB_STATE_PENDINGREMOVAL <> HDB_STATE_EMPTY. Proof. discriminate. Qed.
Lemma st_pending_ne_active : HDB_STATE_PENDINGREMOVAL <> HDB_STATE_ACTIVE. Proof. discriminate. Qed.
Lemma handle_is_64_bits : HDB_SIZEOF_HANDLE_T = 8 /\ HDB_SIZEOF_CHECK = 4 /\ HDB_SIZEOF_REF = 4.
Proof. repeat split; reflexivity. Qed.
Lemma ebadf_pos : 0 < HDB_EBADF. Proof. reflexivity. Qed.

(* ------------------------------------------------------------------ *)
(* list update *)
Lemma upd_length {A} (l : list A) n x : length (upd l n x) = length l.
Proof. revert n; induction l as [|a l IH]; intros [|n]; simpl; auto. Qed.

Lemma nth_upd_same {A} (l : list A) n x : (n < length l)%nat -> nth_error (upd l n x) n = Some x.
Proof. revert n; induction l as [|a l IH]; intros [|n] H; simpl in *; try lia; auto. apply IH; lia. Qed.

Lemma nth_upd_other {A} (l : list A) n m x : n <> m -> nth_error (upd l n x) m = nth_error l m.
Proof.
  revert n m; induction l as [|a l IH]; intros [|n] [|m] H; simpl; auto; try congruence.
Qed.

Lemma nth_upd {A} (l : list A) n m x :
  nth_error (upd l n x) m = if Nat.eqb n m then (if Nat.ltb n (length l) then Some x else None) else nth_error l m.
Proof.
  destruct (Nat.eqb_spec n m) as [->|Hne].
  - destruct (Nat.ltb_spec m (length l)).
    + apply nth_upd_same; auto.
    + apply nth_error_None. rewrite upd_length. lia.
  - apply nth_upd_other; auto.
Qed.

Lemma nth_app_new {A} (l : list A) x m :
  nth_error (l ++ [x]) m = if Nat.eqb m (length l) then Some x else nth_error l m.
Proof.
  destruct (Nat.eqb_spec m (length l)) as [->|Hne].
  - rewrite nth_error_app2 by lia. rewrite Nat.sub_diag. reflexivity.
  - destruct (Nat.ltb_spec m (length l)).
    + apply nth_error_app1; auto.
    + rewrite (proj2 (nth_error_None l m)) by lia.
      apply nth_error_None. rewrite app_length; simpl; lia.
Qed.

(* ------------------------------------------------------------------ *)
(* invariant *)
Definition nonempty (s : slot) : Prop := s_state s <> HDB_STATE_EMPTY.

Definition slot_ok (n : Z) (s : slot) : Prop :=
  s_state s = HDB_STATE_EMPTY \/
  ((s_state s = HDB_STATE_ACTIVE \/ s_state s = HDB_STATE_PENDINGREMOVAL) /\ 1 <= s_ref s /\ 1 <= s_inst s < n).

Record Inv (d : hdb) : Prop := {
  inv_slots : forall i s, nth_error (slots d) i = Some s -> slot_ok (next_inst d) s;
  inv_uniq  : forall i j si sj, nth_error (slots d) i = Some si -> nth_error (slots d) j = Some sj ->
                                nonempty si -> nonempty sj -> s_inst si = s_inst sj -> i = j;
  inv_live_not_dead : forall i s, nth_error (slots d) i = Some s -> nonempty s -> ~ In (s_inst s) (dlog d);
  inv_dlog_nodup : NoDup (dlog d);
  inv_dlog_range : forall x, In x (dlog d) -> 1 <= x < next_inst d;
  inv_len : Z.of_nat (length (slots d)) <= HDB_ARRAY_MAX_ELEMENTS;
  inv_next : 1 <= next_inst d
}.

Lemma zero_slot_empty : ~ nonempty zero_slot.
Proof. unfold nonempty, zero_slot; simpl. rewrite st_empty_zero. tauto. Qed.

Lemma slot_ok_nonempty n s : slot_ok n s -> nonempty s ->
  (s_state s = HDB_STATE_ACTIVE \/ s_state s = HDB_STATE_PENDINGREMOVAL) /\ 1 <= s_ref s /\ 1 <= s_inst s < n.
Proof. intros [He|H] Hn; auto. exfalso; apply Hn; auto. Qed.

Lemma slot_ok_mono n m s : n <= m -> slot_ok n s -> slot_ok m s.
Proof. intros Hle [He|(Hs & Hr & Hi)]; [left; auto| right; repeat split; auto; lia]. Qed.

Lemma inv_init : Inv hdb_init.
Proof.
  constructor; simpl; intros.
  - destruct i; discriminate.
  - destruct i; discriminate.
  - destruct i; discriminate.
  - constructor.
  - contradiction.
  - unfold HDB_ARRAY_MAX_ELEMENTS; lia.
  - lia.
Qed.

(* ------------------------------------------------------------------ *)
(* find_empty *)
Lemma find_empty_spec l k i :
  find_empty l k = Some i ->
  k <= i /\ exists s, nth_error l (Z.to_nat (i - k)) = Some s /\ s_state s = HDB_STATE_EMPTY.
Proof.
  revert k; induction l as [|a l IH]; intros k H; simpl in H; [discriminate|].
  destruct (s_state a =? HDB_STATE_EMPTY) eqn:E.
  - inversion H; subst. split; [lia|]. rewrite Z.sub_diag. simpl. exists a; split; auto. apply Z.eqb_eq; auto.
  - apply IH in H. destruct H as [Hk (s & Hn & Hs)]. split; [lia|].
    exists s; split; auto.
    replace (Z.to_nat (i - k)) with (S (Z.to_nat (i - (k + 1)))) by lia. simpl; auto.
Qed.

Lemma find_empty_none l k : find_empty l k = None -> forall i s, nth_error l i = Some s -> nonempty s.
Proof.
  revert k; induction l as [|a l IH]; intros k H i s Hn; [destruct i; discriminate|].
  simpl in H. destruct (s_state a =? HDB_STATE_EMPTY) eqn:E; [discriminate|].
  destruct i; simpl in Hn.
  - inversion Hn; subst. unfold nonempty. apply Z.eqb_neq; auto.
  - eapply IH; eauto.
Qed.

(* ------------------------------------------------------------------ *)
(* generic preservation lemma: replacing one slot by a slot carrying the same instance *)
Lemma inv_set_same_inst d i s s' :
  Inv d -> nth_error (slots d) i = Some s -> nonempty s -> nonempty s' ->
  s_inst s' = s_inst s -> slot_ok (next_inst d) s' ->
  Inv {| slots := upd (slots d) i s'; iter := iter d; next_inst := next_inst d; dlog := dlog d |}.
Proof.
  intros I Hi Hne Hne' Hinst Hok.
  assert (Hlt : (i < length (slots d))%nat) by (apply nth_error_Some; congruence).
  constructor; simpl.
  - intros j t Hj. rewrite nth_upd in Hj.
    destruct (Nat.eqb_spec i j); [destruct (Nat.ltb i (length (slots d))); inversion Hj; subst; auto|].
    eapply inv_slots; eauto.
  - intros a b sa sb Ha Hb Hna Hnb Heq. rewrite nth_upd in Ha, Hb.
    apply Nat.ltb_lt in Hlt.
    destruct (Nat.eqb_spec i a); destruct (Nat.eqb_spec i b); rewrite ?Hlt in *; subst; auto.
    + inversion Ha; subst sa. rewrite Hinst in Heq.
      eapply (inv_uniq d I); eauto.
    + inversion Hb; subst sb. rewrite Hinst in Heq.
      eapply (inv_uniq d I); eauto.
    + eapply (inv_uniq d I); eauto.
  - intros j t Hj Hnt. rewrite nth_upd in Hj. apply Nat.ltb_lt in Hlt.
    destruct (Nat.eqb_spec i j); rewrite ?Hlt in *.
    + inversion Hj; subst t. rewrite Hinst. eapply (inv_live_not_dead d I); eauto.
    + eapply (inv_live_not_dead d I); eauto.
  - apply (inv_dlog_nodup d I).
  - apply (inv_dlog_range d I).
  - rewrite upd_length. apply (inv_len d I).
  - apply (inv_next d I).
Qed.

(* clearing a slot whose count reaches zero: destructor logged *)
Lemma inv_clear d i s :
  Inv d -> nth_error (slots d) i = Some s -> nonempty s ->
  Inv {| slots := upd (slots d) i zero_slot; iter := iter d; next_inst := next_inst d;
         dlog := s_inst s :: dlog d |}.
Proof.
  intros I Hi Hne.
  assert (Hlt : (i < length (slots d))%nat) by (apply nth_error_Some; congruence).
  assert (Hlt' := Hlt). apply Nat.ltb_lt in Hlt'.
  constructor; simpl.
  - intros j t Hj. rewrite nth_upd in Hj.
    destruct (Nat.eqb_spec i j); rewrite ?Hlt' in *.
    + inversion Hj; subst. left; reflexivity.
    + eapply (inv_slots d I); eauto.
  - intros a b sa sb Ha Hb Hna Hnb Heq. rewrite nth_upd in Ha, Hb.
    destruct (Nat.eqb_spec i a); destruct (Nat.eqb_spec i b); rewrite ?Hlt' in *; subst; auto.
    + inversion Ha; subst sa. exfalso; apply zero_slot_empty; auto.
    + inversion Hb; subst sb. exfalso; apply zero_slot_empty; auto.
    + eapply (inv_uniq d I); eauto.
  - intros j t Hj Hnt. rewrite nth_upd in Hj.
    destruct (Nat.eqb_spec i j); rewrite ?Hlt' in *.
    + inversion Hj; subst t. exfalso; apply zero_slot_empty; auto.
    + intros [Heq|Hin].
      * apply n. eapply (inv_uniq d I); eauto.
      * eapply (inv_live_not_dead d I); eauto.
  - constructor; [|apply (inv_dlog_nodup d I)]. eapply (inv_live_not_dead d I); eauto.
  - intros x [<-|Hin]; [|apply (inv_dlog_range d I); auto].
    destruct (slot_ok_nonempty _ _ (inv_slots d I _ _ Hi) Hne) as (_ & _ & H); auto.
  - rewrite upd_length. apply (inv_len d I).
  - apply (inv_next d I).
Qed.

(* a freshly created object *)
Definition fresh_slot (d : hdb) (chk : Z) : slot :=
  {| s_state := HDB_STATE_ACTIVE; s_check := chk; s_ref := 1; s_inst := next_inst d |}.

Lemma fresh_nonempty d chk : nonempty (fresh_slot d chk).
Proof. unfold nonempty; simpl. apply st_active_ne_empty. Qed.

Lemma inv_create_reuse d i s chk :
  Inv d -> nth_error (slots d) i = Some s -> ~ nonempty s ->
  Inv {| slots := upd (slots d) i (fresh_slot d chk); iter := iter d; next_inst := next_inst d + 1; dlog := dlog d |}.
Proof.
  intros I Hi Hne.
  assert (Hlt : (i < length (slots d))%nat) by (apply nth_error_Some; congruence).
  assert (Hlt' := Hlt). apply Nat.ltb_lt in Hlt'.
  pose proof (inv_next d I) as Hnx.
  assert (Hold : forall j t, nth_error (slots d) j = Some t -> nonempty t -> s_inst t < next_inst d).
  { intros j t Hj Hnt. destruct (slot_ok_nonempty _ _ (inv_slots d I _ _ Hj) Hnt) as (_ & _ & H); lia. }
  constructor; simpl.
  - intros j t Hj. rewrite nth_upd in Hj.
    destruct (Nat.eqb_spec i j); rewrite ?Hlt' in *.
    + inversion Hj; subst. right; simpl. repeat split; auto; lia.
    + eapply slot_ok_mono; [|eapply (inv_slots d I); eauto]. lia.
  - intros a b sa sb Ha Hb Hna Hnb Heq. rewrite nth_upd in Ha, Hb.
    destruct (Nat.eqb_spec i a); destruct (Nat.eqb_spec i b); rewrite ?Hlt' in *; subst; auto.
    + inversion Ha; subst sa. simpl in Heq. specialize (Hold _ _ Hb Hnb). lia.
    + inversion Hb; subst sb. simpl in Heq. specialize (Hold _ _ Ha Hna). lia.
    + eapply (inv_uniq d I); eauto.
  - intros j t Hj Hnt. rewrite nth_upd in Hj.
    destruct (Nat.eqb_spec i j); rewrite ?Hlt' in *.
    + inversion Hj; subst t. simpl. intro Hin. apply (inv_dlog_range d I) in Hin. lia.
    + eapply (inv_live_not_dead d I); eauto.
  - apply (inv_dlog_nodup d I).
  - intros x Hin. apply (inv_dlog_range d I) in Hin. lia.
  - rewrite upd_length. apply (inv_len d I).
  - lia.
Qed.

Lemma inv_create_append d chk :
  Inv d -> Z.of_nat (length (slots d)) + 1 <= HDB_ARRAY_MAX_ELEMENTS ->
  Inv {| slots := slots d ++ [fresh_slot d chk]; iter := iter d; next_inst := next_inst d + 1; dlog := dlog d |}.
Proof.
  intros I Hmax.
  pose proof (inv_next d I) as Hnx.
  assert (Hold : forall j t, nth_error (slots d) j = Some t -> nonempty t -> s_inst t < next_inst d).
  { intros j t Hj Hnt. destruct (slot_ok_nonempty _ _ (inv_slots d I _ _ Hj) Hnt) as (_ & _ & H); lia. }
  constructor; simpl.
  - intros j t Hj. rewrite nth_app_new in Hj.
    destruct (Nat.eqb_spec j (length (slots d))).
    + inversion Hj; subst. right; simpl. repeat split; auto; lia.
    + eapply slot_ok_mono; [|eapply (inv_slots d I); eauto]. lia.
  - intros a b sa sb Ha Hb Hna Hnb Heq. rewrite nth_app_new in Ha, Hb.
    destruct (Nat.eqb_spec a (length (slots d))); destruct (Nat.eqb_spec b (length (slots d))); subst; auto.
    + inversion Ha; subst sa. simpl in Heq. specialize (Hold _ _ Hb Hnb). lia.
    + inversion Hb; subst sb. simpl in Heq. specialize (Hold _ _ Ha Hna). lia.
    + eapply (inv_uniq d I); eauto.
  - intros j t Hj Hnt. rewrite nth_app_new in Hj.
    destruct (Nat.eqb_spec j (length (slots d))).
    + inversion Hj; subst t. simpl. intro Hin. apply (inv_dlog_range d I) in Hin. lia.
    + eapply (inv_live_not_dead d I); eauto.
  - apply (inv_dlog_nodup d I).
  - intros x Hin. apply (inv_dlog_range d I) in Hin. lia.
  - rewrite app_length; simpl. lia.
  - lia.
Qed.

(* ------------------------------------------------------------------ *)
(* characterisation of lookup / get *)
Lemma nth_slot_some d i s : nth_slot d i = Some s -> 0 <= i /\ nth_error (slots d) (Z.to_nat i) = Some s.
Proof. unfold nth_slot. destruct (i <? 0) eqn:E; [discriminate|]. intro H. split; auto. lia. Qed.

Lemma lookup_some d h i s :
  lookup d h = Some (i, s) ->
  i = idx_of h /\ 0 <= i /\ nth_error (slots d) (Z.to_nat i) = Some s /\ nonempty s /\
  (check_of h = NOCHECK \/ check_of h = s_check s).
Proof.
  unfold lookup. destruct (handle_count d <=? idx_of h); [discriminate|].
  destruct (nth_slot d (idx_of h)) as [t|] eqn:E; [|discriminate].
  destruct (s_state t =? HDB_STATE_EMPTY) eqn:Es; [discriminate|].
  destruct (check_ok (check_of h) t) eqn:Ec; [|discriminate].
  intro H; inversion H; subst. apply nth_slot_some in E. destruct E as [E1 E2].
  repeat split; auto.
  - unfold nonempty. apply Z.eqb_neq; auto.
  - unfold check_ok in Ec. apply orb_true_iff in Ec. destruct Ec as [Ec|Ec]; apply Z.eqb_eq in Ec; auto.
Qed.

Lemma set_slot_eq d i s :
  set_slot d i s = {| slots := upd (slots d) (Z.to_nat i) s; iter := iter d; next_inst := next_inst d; dlog := dlog d |}.
Proof. reflexivity. Qed.

Lemma inv_drop_ref d i s :
  Inv d -> nth_error (slots d) (Z.to_nat i) = Some s -> nonempty s -> Inv (drop_ref d i s).
Proof.
  intros I Hi Hne. unfold drop_ref.
  destruct (s_ref s - 1 =? 0) eqn:E.
  - apply inv_clear; auto.
  - rewrite set_slot_eq. apply Z.eqb_neq in E.
    destruct (slot_ok_nonempty _ _ (inv_slots d I _ _ Hi) Hne) as (Hs & Hr & Hx).
    eapply inv_set_same_inst; eauto; simpl; auto.
    right; simpl; repeat split; auto; lia.
Qed.

Lemma inv_put d h : Inv d -> Inv (fst (do_put d h)).
Proof.
  intros I. unfold do_put. destruct (lookup d h) as [[i s]|] eqn:E; simpl; auto.
  apply lookup_some in E. destruct E as (_ & _ & Hn & Hne & _).
  apply inv_drop_ref; auto.
Qed.

Lemma inv_destroy d h : Inv d -> Inv (fst (do_destroy d h)).
Proof.
  intros I. unfold do_destroy. destruct (lookup d h) as [[i s]|] eqn:E; simpl; auto.
  apply lookup_some in E. destruct E as (_ & _ & Hn & Hne & _).
  apply inv_put. rewrite set_slot_eq.
  destruct (slot_ok_nonempty _ _ (inv_slots d I _ _ Hn) Hne) as (Hs & Hr & Hx).
  eapply inv_set_same_inst; eauto; simpl; auto.
  - unfold nonempty; simpl. apply st_pending_ne_empty.
  - right; simpl; repeat split; auto; lia.
Qed.

Lemma do_get_cases d h :
  (do_get d h = (d, - HDB_EBADF, 0)) \/
  exists s, 0 <= idx_of h /\ nth_error (slots d) (Z.to_nat (idx_of h)) = Some s /\ s_state s = HDB_STATE_ACTIVE /\
            (check_of h = NOCHECK \/ check_of h = s_check s) /\
            do_get d h = (set_slot d (idx_of h) {| s_state := s_state s; s_check := s_check s; s_ref := s_ref s + 1; s_inst := s_inst s |},
                          0, s_inst s).
Proof.
  unfold do_get. destruct (handle_count d <=? idx_of h); auto.
  destruct (nth_slot d (idx_of h)) as [s|] eqn:E; auto.
  destruct (s_state s =? HDB_STATE_ACTIVE) eqn:Es; simpl; auto.
  destruct (check_ok (check_of h) s) eqn:Ec; simpl; auto.
  right. exists s. apply nth_slot_some in E. destruct E. apply Z.eqb_eq in Es.
  unfold check_ok in Ec. apply orb_true_iff in Ec.
  repeat split; auto. destruct Ec as [Ec|Ec]; apply Z.eqb_eq in Ec; auto.
Qed.

Lemma inv_get d h : Inv d -> Inv (fst (fst (do_get d h))).
Proof.
  intros I. destruct (do_get_cases d h) as [->|(s & H0 & Hn & Hs & _ & ->)]; simpl; auto.
  rewrite set_slot_eq.
  assert (Hne : nonempty s) by (unfold nonempty; rewrite Hs; apply st_active_ne_empty).
  destruct (slot_ok_nonempty _ _ (inv_slots d I _ _ Hn) Hne) as (Hs' & Hr & Hx).
  eapply inv_set_same_inst; eauto; simpl; auto.
  right; simpl; repeat split; auto; lia.
Qed.

(* replacing an EMPTY slot by an EMPTY slot / appending an EMPTY slot *)
Lemma inv_set_empty d i s s' :
  Inv d -> nth_error (slots d) i = Some s -> ~ nonempty s -> ~ nonempty s' ->
  Inv {| slots := upd (slots d) i s'; iter := iter d; next_inst := next_inst d; dlog := dlog d |}.
Proof.
  intros I Hi Hne Hne'.
  assert (Hlt : (i < length (slots d))%nat) by (apply nth_error_Some; congruence).
  assert (Hlt' := Hlt). apply Nat.ltb_lt in Hlt'.
  constructor; simpl.
  - intros j t Hj. rewrite nth_upd in Hj.
    destruct (Nat.eqb_spec i j); rewrite ?Hlt' in *.
    + inversion Hj; subst. left. unfold nonempty in Hne'. destruct (Z.eq_dec (s_state t) HDB_STATE_EMPTY); tauto.
    + eapply (inv_slots d I); eauto.
  - intros a b sa sb Ha Hb Hna Hnb Heq. rewrite nth_upd in Ha, Hb.
    destruct (Nat.eqb_spec i a); destruct (Nat.eqb_spec i b); rewrite ?Hlt' in *; subst; auto.
    + inversion Ha; subst sa. contradiction.
    + inversion Hb; subst sb. contradiction.
    + eapply (inv_uniq d I); eauto.
  - intros j t Hj Hnt. rewrite nth_upd in Hj.
    destruct (Nat.eqb_spec i j); rewrite ?Hlt' in *.
    + inversion Hj; subst t. contradiction.
    + eapply (inv_live_not_dead d I); eauto.
  - apply (inv_dlog_nodup d I).
  - apply (inv_dlog_range d I).
  - rewrite upd_length. apply (inv_len d I).
  - apply (inv_next d I).
Qed.

Lemma inv_append_empty d :
  Inv d -> Z.of_nat (length (slots d)) + 1 <= HDB_ARRAY_MAX_ELEMENTS ->
  Inv {| slots := slots d ++ [zero_slot]; iter := iter d; next_inst := next_inst d; dlog := dlog d |}.
Proof.
  intros I Hmax.
  constructor; simpl.
  - intros j t Hj. rewrite nth_app_new in Hj. destruct (Nat.eqb_spec j (length (slots d))).
    + inversion Hj; subst. left; reflexivity.
    + eapply (inv_slots d I); eauto.
  - intros a b sa sb Ha Hb Hna Hnb Heq. rewrite nth_app_new in Ha, Hb.
    destruct (Nat.eqb_spec a (length (slots d))); destruct (Nat.eqb_spec b (length (slots d))); subst; auto.
    + inversion Ha; subst sa. exfalso; apply zero_slot_empty; auto.
    + inversion Hb; subst sb. exfalso; apply zero_slot_empty; auto.
    + eapply (inv_uniq d I); eauto.
  - intros j t Hj Hnt. rewrite nth_app_new in Hj. destruct (Nat.eqb_spec j (length (slots d))).
    + inversion Hj; subst t. exfalso; apply zero_slot_empty; auto.
    + eapply (inv_live_not_dead d I); eauto.
  - apply (inv_dlog_nodup d I).
  - apply (inv_dlog_range d I).
  - rewrite app_length; simpl. lia.
  - apply (inv_next d I).
Qed.

Lemma inv_create_fail d : Inv d -> Inv (fst (do_create_fail d)).
Proof.
  intros I. unfold do_create_fail.
  destruct (find_empty (slots d) 0) as [i|] eqn:E.
  - apply find_empty_spec in E. destruct E as (H0 & s & Hn & Hs). rewrite Z.sub_0_r in Hn.
    rewrite Hn. simpl. apply (inv_set_empty d _ s); auto; unfold nonempty; simpl; tauto.
  - destruct (HDB_ARRAY_MAX_ELEMENTS <? handle_count d + 1) eqn:Em; simpl; auto.
    apply Z.ltb_ge in Em. apply inv_append_empty; auto.
Qed.

Lemma inv_create d chk : Inv d -> Inv (fst (do_create d chk)).
Proof.
  intros I. unfold do_create.
  destruct (find_empty (slots d) 0) as [i|] eqn:E.
  - apply find_empty_spec in E. destruct E as (H0 & s & Hn & Hs). rewrite Z.sub_0_r in Hn.
    simpl. apply (inv_create_reuse d _ s chk I Hn). unfold nonempty; tauto.
  - destruct (HDB_ARRAY_MAX_ELEMENTS <? handle_count d + 1) eqn:Em; simpl; auto.
    apply Z.ltb_ge in Em. apply inv_create_append; auto.
Qed.

Lemma inv_set_iter d k : Inv d -> Inv {| slots := slots d; iter := k; next_inst := next_inst d; dlog := dlog d |}.
Proof. intros [A B C D E F G]; constructor; simpl; auto. Qed.

Lemma inv_iter_loop fuel : forall d r, Inv d -> Inv (fst (iter_loop fuel d r)).
Proof.
  induction fuel as [|f IH]; intros d r I; simpl; auto.
  destruct (iter d <? handle_count d); simpl; auto.
  destruct (nth_slot d (iter d)) as [s|]; simpl; auto.
  pose proof (inv_get d (mk_handle (s_check s) (iter d)) I) as Ig.
  destruct (do_get d (mk_handle (s_check s) (iter d))) as [[d1 r1] inst]. simpl in Ig.
  destruct (r1 =? 0); simpl.
  - apply inv_set_iter; auto.
  - apply IH. apply inv_set_iter; auto.
Qed.

Theorem inv_step d o : Inv d -> Inv (fst (step d o)).
Proof.
  intros I. destruct o; unfold step.
  - apply inv_create; auto.
  - apply inv_create_fail; auto.
  - pose proof (inv_get d h I). destruct (do_get d h) as [[d' r] inst]; auto.
  - pose proof (inv_put d h I). destruct (do_put d h); auto.
  - pose proof (inv_destroy d h I). destruct (do_destroy d h); auto.
  - auto.
  - apply inv_set_iter; auto.
  - apply inv_iter_loop; auto.
Qed.

Theorem inv_run : forall ops d, Inv d -> Inv (fst (run d ops)).
Proof.
  induction ops as [|o ops IH]; intros d I; simpl; auto.
  pose proof (inv_step d o I) as Is. destruct (step d o) as [d1 x]. simpl in Is.
  specialize (IH d1 Is). destruct (run d1 ops) as [d2 xs]. simpl in *. auto.
Qed.

Lemma inv_run_init : forall ops, Inv (fst (run hdb_init ops)).
Proof. intros; apply inv_run, inv_init. Qed.

Lemma dlog_nodup_all_histories : forall ops, NoDup (dlog (fst (run hdb_init ops))).
Proof. intros. apply inv_dlog_nodup, inv_run_init. Qed.
