(* C09: the heap operations of include/tlist.h never invent entries - whatever state the array is in
   (no invariant assumed), every entry of the result was in the argument (or is the timer being added),
   and timerlist_expire pops only entries whose expire_time is below `now'.  Used by LoopTimerProofs.v
   for the theorems that hold for every history, including ones that misuse handles. *)
From Coq Require Import ZArith List Bool Lia.
Import ListNotations.
Require Import Verif.HeapModel.
Local Open Scope Z_scope.

Lemma in_upd : forall (A : Type) (l : list A) n v x, In x (upd l n v) -> In x l \/ x = v.
Proof.
  induction l; intros n v x H; simpl in H; [destruct n; contradiction|].
  destruct n; simpl in H.
  - destruct H as [<-|H]; [right; reflexivity|left; right; assumption].
  - destruct H as [<-|H]; [left; left; reflexivity|]. apply IHl in H. destruct H; [left; right; assumption|right; assumption].
Qed.

Lemma in_removelast : forall (A : Type) (l : list A) x, In x (removelast l) -> In x l.
Proof.
  induction l; intros x H; [contradiction|]. destruct l; [contradiction|].
  change (removelast (a :: a0 :: l)) with (a :: removelast (a0 :: l)) in H.
  destruct H as [<-|H]; [left; reflexivity|right; apply IHl; assumption].
Qed.

Lemma entry_get_in : forall h i t, entry_get h i = Some t -> In t (ents h).
Proof. intros h i t. unfold entry_get. destruct (inb h i); [|discriminate]. apply nth_error_In. Qed.

Lemma entry_set_in : forall h i t h', entry_set h i t = Some h' -> forall x, In x (ents h') -> In x (ents h) \/ x = t.
Proof.
  intros h i t h'. unfold entry_set. destruct (inb h i); [|discriminate]. intros E. inversion E; subst h'. simpl.
  intros x. apply in_upd.
Qed.

Lemma sift_up_loop_in : forall fuel h timer k h',
  sift_up_loop fuel h timer k = Some h' -> forall x, In x (ents h') -> In x (ents h) \/ x = timer.
Proof.
  induction fuel; intros h timer k h' E x Hx; [discriminate|]. simpl in E.
  destruct (k >? 0); [|inversion E; subst; left; assumption].
  destruct (entry_get h (index_parent k)) as [pt|] eqn:G; [|discriminate].
  destruct (entry_cmp pt timer >? 0); [|inversion E; subst; left; assumption].
  destruct (entry_set h (index_parent k) timer) as [h1|] eqn:S1; [|discriminate].
  destruct (entry_set h1 k pt) as [h2|] eqn:S2; [|discriminate].
  destruct (IHfuel _ _ _ _ E x Hx) as [H|H]; [|right; assumption].
  destruct (entry_set_in _ _ _ _ S2 x H) as [H1| ->].
  - apply (entry_set_in _ _ _ _ S1 x H1).
  - left. eapply entry_get_in; eauto.
Qed.

Lemma sift_up_in : forall h k h', sift_up h k = Some h' -> forall x, In x (ents h') -> In x (ents h).
Proof.
  intros h k h'. unfold sift_up. destruct (entry_get h k) as [t|] eqn:G; [|discriminate].
  intros E x Hx. destruct (sift_up_loop_in _ _ _ _ _ E x Hx) as [H| ->]; [assumption|]. eapply entry_get_in; eauto.
Qed.

Lemma pick_child_in : forall h pos cur r, pick_child h pos cur = Some r -> r = cur \/ In (fst r) (ents h).
Proof.
  intros h pos cur r. unfold pick_child. destruct (pos <? size h); [|intros E; inversion E; left; reflexivity].
  destruct (entry_get h pos) as [e|] eqn:G; [|discriminate].
  destruct (entry_cmp e (fst cur) <? 0); intros E; inversion E; subst; [right; simpl; eapply entry_get_in; eauto|left; reflexivity].
Qed.

Lemma sift_down_loop_in : forall fuel h k h',
  sift_down_loop fuel h k = Some h' -> forall x, In x (ents h') -> In x (ents h).
Proof.
  induction fuel; intros h k h' E x Hx; [discriminate|]. simpl in E.
  destruct (entry_get h k) as [kt|] eqn:G; [|discriminate].
  destruct (pick_child h (index_left k) (kt, k)) as [c1|] eqn:P1; [|discriminate].
  destruct (pick_child h (index_right k) c1) as [[se sp]|] eqn:P2; [|discriminate].
  destruct (sp =? k); [inversion E; subst; assumption|].
  destruct (entry_set h k se) as [h1|] eqn:S1; [|discriminate].
  destruct (entry_set h1 sp kt) as [h2|] eqn:S2; [|discriminate].
  assert (Hse : In se (ents h)).
  { destruct (pick_child_in _ _ _ _ P2) as [Q|H]; [|exact H]. subst c1.
    destruct (pick_child_in _ _ _ _ P1) as [Q|H]; [|exact H].
    inversion Q; subst. eapply entry_get_in; eauto. }
  pose proof (IHfuel _ _ _ E x Hx) as H.
  destruct (entry_set_in _ _ _ _ S2 x H) as [H1| ->]; [|eapply entry_get_in; eauto].
  destruct (entry_set_in _ _ _ _ S1 x H1) as [H2| ->]; assumption.
Qed.

Lemma heap_delete_in : forall h e h', heap_delete h e = Some h' -> forall x, In x (ents h') -> In x (ents h).
Proof.
  intros h e h'. unfold heap_delete.
  set (h0 := mkTL (ents h) (fupd (hpos h) (t_id e) SIZE_MAX)).
  destruct (entry_get h0 (size h0 - 1)) as [r|] eqn:G; [|discriminate].
  destruct (entry_set h0 (hpos h (t_id e)) r) as [h1|] eqn:S1; [|discriminate].
  assert (Hr : In r (ents h)) by (eapply (entry_get_in h0); eauto).
  assert (H2 : forall x, In x (removelast (ents h1)) -> In x (ents h)).
  { intros x Hx. apply in_removelast in Hx. destruct (entry_set_in _ _ _ _ S1 x Hx) as [H| ->]; assumption. }
  intros E x Hx.
  destruct (entry_cmp r e <? 0).
  - apply H2. eapply (sift_up_in (mkTL (removelast (ents h1)) (hpos h1))); eauto.
  - destruct (entry_cmp r e >? 0).
    + apply H2. eapply (sift_down_loop_in _ (mkTL (removelast (ents h1)) (hpos h1))); eauto.
    + inversion E; subst. apply H2. assumption.
Qed.

Lemma heap_add_in : forall h t h', heap_add h t = Some h' -> forall x, In x (ents h') -> In x (ents h) \/ x = t.
Proof.
  intros h t h'. unfold heap_add.
  set (h0 := mkTL (ents h ++ [t]) (hpos h)).
  destruct (entry_set h0 (size h0 - 1) t) as [h1|] eqn:S1; [|discriminate].
  intros E x Hx. pose proof (sift_up_in _ _ _ E x Hx) as H.
  destruct (entry_set_in _ _ _ _ S1 x H) as [H1| ->]; [|right; reflexivity].
  simpl in H1. apply in_app_or in H1. destruct H1 as [H1|[<-|[]]]; [left; assumption|right; reflexivity].
Qed.

Lemma expire_loop_in : forall fuel h now acc h' l, expire_loop fuel h now acc = Some (h', l) ->
  (forall x, In x (ents h') -> In x (ents h)) /\
  (forall x, In x l -> In x acc \/ (In x (ents h) /\ t_exp x < now)).
Proof.
  induction fuel; intros h now acc h' l E; [discriminate|]. simpl in E.
  destruct (size h >? 0); [|inversion E; subst; split; auto].
  destruct (entry_get h 0) as [r|] eqn:G; [|discriminate].
  destruct (t_exp r <? now) eqn:C; [|inversion E; subst; split; auto].
  destruct (heap_delete h r) as [h1|] eqn:D; [|discriminate].
  destruct (IHfuel _ _ _ _ _ E) as [I1 I2]. apply Z.ltb_lt in C. split.
  - intros x Hx. eapply heap_delete_in; eauto.
  - intros x Hx. destruct (I2 x Hx) as [H|[H1 H2]].
    + apply in_app_or in H. destruct H as [H|[<-|[]]]; [left; assumption|]. right. split; [eapply entry_get_in; eauto|assumption].
    + right. split; [eapply heap_delete_in; eauto|assumption].
Qed.

Lemma heap_expire_in : forall h now h' l, heap_expire h now = Some (h', l) ->
  (forall x, In x (ents h') -> In x (ents h)) /\ (forall x, In x l -> In x (ents h) /\ t_exp x < now).
Proof.
  intros h now h' l E. destruct (expire_loop_in _ _ _ _ _ _ E) as [I1 I2]. split; [assumption|].
  intros x Hx. destruct (I2 x Hx) as [[]|H]. assumption.
Qed.
