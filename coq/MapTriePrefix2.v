(* C17 trie part, prefix iteration (2): the steps of an iterator with a prefix on a tree nobody else modifies. *)
From Coq Require Import List ZArith Bool Arith Lia.
Import ListNotations.
Require Import Verif.gen.Consts_trie Verif.MapTrieModel Verif.MapTrieProofs Verif.MapTrieProofs2 Verif.MapTrieIter
               Verif.MapTrieIter2 Verif.MapTrieIds Verif.MapTrieIter3 Verif.MapTrieIter4 Verif.MapTriePrefix1.

Definition rit (pre : key) (n : option nat) (rid : nat) : iter := {| it_prefix := Some pre; it_n := n; it_root := rid |}.

Lemma look_false_get : forall sz n, size_t n <= sz -> forall k p, look_t n k false = Some p -> exists s, get_at n p = Some s.
Proof.
  induction sz; intros n Hsz k p H.
  { destruct n; simpl in Hsz; lia. }
  destruct n as [i seg f]. cbn [look_t] in H. destruct (strip seg k 0) eqn:St; try discriminate.
  - simpl in H. inversion H; subst. simpl. eauto.
  - rewrite look_f_fget in H. destruct (fget f (c2i c)) as [t|] eqn:G; [|discriminate].
    destruct (look_t t k' false) as [p0|] eqn:L; [|discriminate]. inversion H; subst. simpl. rewrite G.
    apply (IHsz t) with (k := k'); auto. apply size_fget in G. simpl in Hsz. lia.
Qed.

(* a step from position pr ++ rel inside the subtree of the root node at pr *)
Lemma riter_step : forall fx r0 pre pr sub rel tcur, iter_ctx r0 (pr ++ rel) tcur -> pr <> [] ->
  get_at r0 pr = Some sub -> present_i (t_info tcur) = true ->
  iter_next fx (node_ref r0 (pr ++ rel)) (rit pre (Some (n_id (t_info tcur))) (n_id (t_info sub))) =
  match next_t sub rel with
  | None => Ok (r0, rit pre None (n_id (t_info sub)), None, [])
  | Some p => match get_at r0 (pr ++ p) with
              | Some tn => Ok (node_ref r0 (pr ++ p), rit pre (Some (n_id (t_info tn))) (n_id (t_info sub)),
                               Some (n_key (t_info tn), n_val (t_info tn)), [])
              | None => Err Stray
              end
  end.
Proof.
  intros fx r0 pre pr sub rel tcur C Hpr Gs Pc. pose proof C as C0. destruct C as [U H0 HV Gc Hc].
  set (pc := pr ++ rel) in *.
  assert (Hpc : pc <> []). { unfold pc. destruct pr; [congruence|discriminate]. }
  unfold iter_next, rit. cbn [it_n it_prefix it_root].
  rewrite find_ref. rewrite (find_unique _ _ _ U Gc).
  replace (match pc with [] => true | _ :: _ => false end) with false by (destruct pc; [congruence|reflexivity]).
  unfold node_next. rewrite !find_ref. rewrite (find_unique _ _ _ U Gc). rewrite (find_unique _ _ _ U Gs).
  unfold pc at 1. rewrite strip_prefix_app.
  rewrite node_ref_eq by auto. unfold pc at 1. rewrite (upd_app pr rel r0 inc sub Gs).
  assert (Gr : get_at sub rel = Some tcur). { unfold pc in Gc. rewrite get_at_app, Gs in Gc. exact Gc. }
  rewrite (proj2 (proj2 (proj1 next_upd sub rel inc (pres_at_inc _ _ _ Gr Pc)))).
  pose proof (proj1 next_spec sub rel) as NS.
  destruct (next_t sub rel) as [p|].
  - destruct NS as [Hp [tn [Gn [An En]]]].
    assert (Gn0 : get_at r0 (pr ++ p) = Some tn) by (rewrite get_at_app, Gs; exact Gn).
    rewrite Gn0.
    assert (Hne : pr ++ p <> pc).
    { unfold pc. intro X. apply app_inv_head in X. subst p. apply (after_cons_ne _ _ En). }
    assert (Hpn : pr ++ p <> []). { destruct pr; [congruence|discriminate]. }
    rewrite <- node_ref_eq by auto.
    rewrite id_at_ref by auto. unfold id_at. rewrite Gn0.
    rewrite (move_ref _ _ _ _ _ C0 Hpn Hne Gn0 An).
    rewrite find_ref. rewrite (find_unique _ _ _ U Gn0).
    rewrite node_ref_eq by auto. destruct tn as [itn sg fc].
    rewrite (get_at_upd _ _ inc _ _ _ Gn0). reflexivity.
  - rewrite (deref_ref r0 pc tcur); auto.
Qed.

(* the first trie_iter_next of a prefix iterator: the root is fixed *)
Lemma riter_first : forall fx r0 pre, (forall x, cnt_t r0 x <= 1) -> n_id (t_info r0) = 0 -> n_val (t_info r0) = None ->
  pre <> [] -> t_seg r0 = [] ->
  (forall pr s, get_at r0 pr = Some s -> pr <> [] ->
       present_i (t_info s) = match n_val (t_info s) with Some _ => true | None => false end) ->
  iter_next fx r0 (rit pre (Some 0) 0) =
  match look_t r0 pre false with
  | None => Ok (r0, rit pre None 0, None, [])
  | Some pr =>
    match get_at r0 pr with
    | None => Err Stray
    | Some sub =>
      match n_val (t_info sub) with
      | Some _ => Ok (node_ref r0 pr, rit pre (Some (n_id (t_info sub))) (n_id (t_info sub)),
                      Some (n_key (t_info sub), n_val (t_info sub)), [])
      | None =>
        match next_t sub [] with
        | None => Ok (r0, rit pre None (n_id (t_info sub)), None, [])
        | Some p => match get_at r0 (pr ++ p) with
                    | Some tn => Ok (node_ref r0 (pr ++ p), rit pre (Some (n_id (t_info tn))) (n_id (t_info sub)),
                                     Some (n_key (t_info tn), n_val (t_info tn)), [])
                    | None => Err Stray
                    end
        end
      end
    end
  end.
Proof.
  intros fx r0 pre U H0 HV Hpre Hseg HP.
  assert (FR : find_t r0 0 = Some []) by (pose proof (find_root r0) as X; rewrite H0 in X; exact X).
  assert (DH : node_deref r0 [] = (r0, [])).
  { unfold node_deref. simpl. destruct r0 as [i0 s0 f0]. simpl in *. unfold alive_i. rewrite HV. reflexivity. }
  assert (DHR : forall pn, pn <> [] -> node_deref (node_ref r0 pn) [] = (node_ref r0 pn, [])).
  { intros pn Hpn. rewrite node_ref_eq by auto. unfold node_deref. simpl.
    pose proof (upd_root_info r0 pn inc Hpn) as RI. destruct (upd_t r0 pn inc) as [i1 s1 f1]. simpl in *.
    unfold alive_i. rewrite RI, HV. reflexivity. }
  unfold iter_next, rit. cbn [it_n it_prefix it_root]. rewrite FR. cbn iota beta.
  unfold lookup. destruct pre as [|b pre0] eqn:Ep; [congruence|]. rewrite <- Ep in *. clear Ep b pre0.
  destruct (look_t r0 pre false) as [pr|] eqn:L.
  2:{ rewrite DH. reflexivity. }
  destruct (look_false_get _ _ (le_n _) _ _ L) as [sub Gs]. rewrite Gs.
  assert (Hpr : pr <> []).
  { destruct r0 as [i0 s0 f0]. simpl in Hseg. subst s0. cbn [look_t] in L. destruct pre; [congruence|]. simpl in L.
    destruct (look_f f0 (c2i b) pre false); inversion L. discriminate. }
  specialize (HP pr sub Gs Hpr).
  replace (if f_removed fx then negb (present_i (t_info sub)) else match n_val (t_info sub) with Some _ => false | None => true end)
    with (match n_val (t_info sub) with Some _ => false | None => true end)
    by (rewrite HP; destruct (f_removed fx); destruct (n_val (t_info sub)); reflexivity).
  destruct (n_val (t_info sub)) as [v|] eqn:V.
  - (* the root node itself is the first entry *)
    unfold id_at. rewrite Gs. rewrite (DHR pr Hpr). rewrite find_ref, (find_unique _ _ _ U Gs).
    rewrite node_ref_eq by auto. destruct sub as [isub sg fc]. rewrite (get_at_upd _ _ inc _ _ _ Gs). simpl in *. rewrite V. reflexivity.
  - unfold node_next. rewrite (find_unique _ _ _ U Gs).
    replace (strip_prefix pr pr) with (Some (@nil nat)) by (symmetry; rewrite <- (app_nil_r pr) at 2; apply strip_prefix_app).
    rewrite Gs.
    pose proof (proj1 next_spec sub []) as NS.
    destruct (next_t sub []) as [p|].
    + destruct NS as [Hp [tn [Gn [An En]]]].
      assert (Gn0 : get_at r0 (pr ++ p) = Some tn) by (rewrite get_at_app, Gs; exact Gn).
      assert (Hpn : pr ++ p <> []). { destruct pr; [congruence|discriminate]. }
      unfold id_at. rewrite Gn0. rewrite (DHR _ Hpn). rewrite find_ref, (find_unique _ _ _ U Gn0).
      rewrite node_ref_eq by auto. destruct tn as [itn sg fc]. rewrite (get_at_upd _ _ inc _ _ _ Gn0). reflexivity.
    + rewrite DH. reflexivity.
Qed.
