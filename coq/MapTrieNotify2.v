(* C17 trie part, notifiers (2): trie_notify in terms of the lists registered at the key and its prefixes; the
   specification of subscriptions. *)
From Coq Require Import List ZArith Bool Arith Lia.
Import ListNotations.
Require Import Verif.gen.Consts_trie Verif.MapTrieModel Verif.MapTrieSpec Verif.MapTrieProofs Verif.MapTrieProofs2
               Verif.MapTrieProofs3 Verif.MapTrieNotify.

(* the calls an event on key k makes, given the notifier list registered at every string:
   the key's own list first (every subscribed notifier), then the proper prefixes from the longest to the empty one
   (the header = global list; there only notifiers with QB_MAP_NOTIFY_RECURSIVE), each list in its order; the per-
   notifier rule (event mask, RECURSIVE, FREE after DELETED / REPLACED) is [fire] *)
Definition notify_spec (subs : key -> list notifier) (k : key) (e : Z) (ko : option key) (old new : option val) : list ev :=
  flat_map (fire e ko old new true) (subs k) ++
  flat_map (fun q => flat_map (fire e ko old new false) (subs q)) (rev (pinits k)).

Lemma flat_map_filter_nonempty : forall (F : list notifier -> list ev) l, F [] = [] ->
  flat_map F (filter nonempty l) = flat_map F l.
Proof.
  induction l; simpl; intros; auto. destruct a; simpl; rewrite IHl by auto; auto. rewrite H. reflexivity.
Qed.

Lemma filter_rev : forall (A : Type) (g : A -> bool) l, filter g (rev l) = rev (filter g l).
Proof.
  induction l; simpl; auto. rewrite filter_app, IHl. simpl. destruct (g a); simpl; auto. rewrite app_nil_r. reflexivity.
Qed.

Lemma notify_obs : forall r k p e ko old new, look_t r k true = Some p ->
  notify r p e ko old new = notify_spec (fun q => c_nots (obs_t r q)) k e ko old new.
Proof.
  intros r k p e ko old new L. destruct (nots_path _ _ (le_n _) _ _ L) as [ups [self [N1 [N2 N3]]]].
  unfold notify, notify_spec. rewrite N1, rev_app_distr. simpl. rewrite <- N2. f_equal.
  set (FU := fun l : list notifier => flat_map (fire e ko old new false) l).
  rewrite <- (flat_map_filter_nonempty FU (rev ups)) by reflexivity.
  rewrite filter_rev, N3, <- filter_rev. rewrite flat_map_filter_nonempty by reflexivity.
  rewrite <- map_rev. rewrite flat_map_concat_map, map_map, <- flat_map_concat_map. reflexivity.
Qed.

(* ---------- specification of the subscriptions ---------- *)
Definition sstate := list (key * list notifier).
Fixpoint s_get (S : sstate) (q : key) : list notifier :=
  match S with [] => [] | (q', l) :: S' => if key_dec q' q then l else s_get S' q end.
Definition s_set (S : sstate) (q : key) (l : list notifier) : sstate := (q, l) :: S.

Lemma s_get_set : forall S q l q', s_get (s_set S q l) q' = if key_dec q q' then l else s_get S q'.
Proof. reflexivity. Qed.

Definition okey (k : option key) : key := match k with Some kk => kk | None => [] end.

(* qb_map_notify_add: -EINVAL for FREE with a key; -EEXIST for a second FREE notifier with the same event set or
   for the same (events, fn, user_data); otherwise the notifier is put at the head of the key's list, or at its
   tail (RECURSIVE on a key, FREE on the whole map) *)
Definition spec_notify_add (S : sstate) (k : option key) (fn : nat) (events : Z) (ud : nat) : sstate * Z :=
  if (match k with Some _ => true | None => false end) && has events TRIE_NOTIFY_FREE then (S, - TRIE_EINVAL)%Z
  else
    let l := s_get S (okey k) in
    if existsb (fun f => (has events TRIE_NOTIFY_FREE && (nf_events f =? events)%Z) || nf_eqb f events fn ud) l
    then (S, - TRIE_EEXIST)%Z
    else
      let f := {| nf_events := events; nf_fn := fn; nf_ud := ud |} in
      let tail := match k with Some _ => has events TRIE_NOTIFY_RECURSIVE | None => has events TRIE_NOTIFY_FREE end in
      (s_set S (okey k) (if tail then l ++ [f] else f :: l), 0%Z).

(* qb_map_notify_del(_2): every notifier of that key with these events and callback (and user data) is removed;
   -ENOENT when there is none *)
Definition spec_notify_del (S : sstate) (k : option key) (fn : nat) (events : Z) (cmp_ud : bool) (ud : nat) : sstate * Z :=
  let l := s_get S (okey k) in
  let m := fun f => (nf_events f =? events)%Z && (nf_fn f =? fn) && (negb cmp_ud || (nf_ud f =? ud)) in
  if existsb m l then (s_set S (okey k) (filter (fun f => negb (m f)) l), 0%Z) else (S, - TRIE_ENOENT)%Z.

(* the tree's notifier lists are the specified ones *)
Definition nots_ok (r : tnode) (S : sstate) : Prop := forall q, c_nots (obs_t r q) = s_get S q.

(* exact lookup success implies the same non-exact result *)
Lemma look_exact_nonexact : forall sz n, size_t n <= sz -> forall k p, look_t n k true = Some p -> look_t n k false = Some p.
Proof.
  induction sz; intros n Hsz k p H.
  { destruct n; simpl in Hsz; lia. }
  destruct n as [i seg f]. cbn [look_t] in *. destruct (strip seg k 0) eqn:St; try discriminate.
  - destruct (sc <? length seg); simpl in *; [discriminate|auto].
  - rewrite look_f_fget in *. destruct (fget f (c2i c)) as [t|] eqn:G; [|discriminate].
    destruct (look_t t k' true) as [p0|] eqn:L; [|discriminate].
    rewrite (IHsz t) with (p := p0); auto. apply size_fget in G. simpl in Hsz. lia.
Qed.
