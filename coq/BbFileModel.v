(* C15 - blackbox dump files.  Model only, no proofs.

   Transcribed statement by statement from
     lib/log_blackbox.c : qb_log_blackbox_write_to_file (marker block), qb_log_blackbox_print_from_file
     lib/ringbuffer.c   : qb_rb_write_to_file (RbModel.dump), qb_rb_create_from_file, qb_rb_open_2 as it is called
                          there, qb_rb_chunk_read / _rb_chunk_reclaim / qb_rb_chunk_step on the loaded ring,
                          print_header (qb_rb_space_free / qb_rb_space_used with their uint32_t arithmetic)
   A file is a list of bytes (list Z, every element taken mod 256), ARBITRARY.

   Two switches select the code as found (false) or with the proposed repair applied (true):
     fxh  fixes/C15-create-from-file-validate.patch : no assert on a short header, pointers must be < word_size
     fxr  fixes/C15-print-record-bounds.patch        : every field of an entry must lie inside the bytes that
          qb_rb_chunk_read returned, the function name must end inside its field, the decoder gets the message
          length (qb_vsnprintf_deserialize_n of fixes/C14-deserialize-bounds.patch), no store at message[len].

   Memory safety is explicit: every access to the ring mapping (2*W words: qb_sys_circular_mmap maps the data
   twice), to the malloc'ed chunk buffer (BBF_CHUNK_BUF bytes) and to the stack buffer message[BBF_LOG_MAX_LEN]
   is bounds-checked and yields a fault instead of a value.  assert() failing is the fault Abort.  The shared
   memory files of the temporary ring ("qb-create_from_file-header/-data") are a resource set: created by
   qb_rb_open, unlinked by qb_rb_close; a fault leaves them behind.

   What is NOT modelled but taken as an oracle / assumption (see manifest.d/C15.json):
     - the message decoder: the k-th decoded entry consumes the k-th element of `orc' = the bytes string[0..r)
       the decoder left in message[] (r = its return value).  Contract used by the theorems (dec_ok): 1 <= r <=
       BBF_LOG_MAX_LEN and string[r-1] = 0; it reads only the bytes it is handed.  That is the contract C14 proves
       for the repaired decoder.  The decoder of the code as found gets no length: its first action, strlen(buf),
       is modelled (scan for NUL from the message offset, bounds-checked against the chunk buffer).
     - libc/kernel: open/read/fstat on the dump file succeed (a file that cannot be opened is not a "file");
       malloc succeeds; creating the two shm files succeeds unless word_size = 0 (posix_fallocate(0) = EINVAL);
       localtime/strftime/printf formatting of the fields is done outside (the model yields the field values).
     - the malloc'ed chunk buffer's initial content `heap0', the stack garbage `stk' and the stale errno `errno0'
       are universally quantified inputs. *)
From Coq Require Import ZArith List Bool FMapPositive.
Import ListNotations.
Require Import Verif.gen.Consts_rb Verif.gen.Consts_bbfile Verif.RbModel.
Local Open Scope Z_scope.

(* ------------------------------------------------------------------ faults, events, result *)
Inductive fault :=
| OobRing (word_index : Z)     (* access outside the 2*W words of the ring mapping *)
| OobChunk (i : Z)             (* access outside the malloc'ed chunk buffer *)
| OobMsg (i : Z)               (* access outside message[BBF_LOG_MAX_LEN] *)
| Abort                        (* assert() failed *)
| OutOfFuel.                   (* model artefact: the entry loop did not end within the fuel *)

Inductive ev :=
| EHdr (W wp rp free used : Z)                               (* print_header(rb) in qb_rb_create_from_file *)
| ERead (r : Z)                                              (* return value of qb_rb_chunk_read *)
| EDec (off blen : Z)                                        (* decoder called on chunk+off; blen = length handed over, -1 = none *)
| ERec (prio sec nsec : Z) (fn : list Z) (lineno tags : Z) (msg : list Z)   (* one printed entry *)
| EErr (kind arg : Z).                                       (* an error message; kinds below *)

(* EErr kinds: 1 "blackbox header too small"  2 qb_rb_chunk_read failed (perror on stderr, arg = errno)
   3 "fn_size way too big"  4 "fn_size negative"  5 "msg_len out of bounds"  6 entry too short for name+timestamp (repair) *)

Inductive outcome := Ret (rc : Z) | Fault (f : fault).

Record result := { evs : list ev; out : outcome; shm_left : list Z }.

Inductive res (A : Type) := Ok (a : A) | Flt (f : fault).
Arguments Ok {A} a.
Arguments Flt {A} f.
Definition bind {A B} (x : res A) (k : A -> res B) : res B :=
  match x with Ok a => k a | Flt f => Flt f end.

(* ------------------------------------------------------------------ the file *)
Definition byte (x : Z) : Z := x mod 256.
Definition fbyte (f : list Z) (i : Z) : Z := byte (nth (Z.to_nat i) f 0).
(* read(fd, buf, n) with the file offset at off: number of bytes delivered *)
Definition avail (f : list Z) (off n : Z) : Z := Z.max 0 (Z.min n (zlen f - off)).
Definition le32 (f : list Z) (off : Z) : Z :=
  fbyte f off + 256 * fbyte f (off + 1) + 65536 * fbyte f (off + 2) + 16777216 * fbyte f (off + 3).
Definition fslice (f : list Z) (off n : Z) : list Z :=
  map byte (firstn (Z.to_nat n) (skipn (Z.to_nat off) f)).

(* ------------------------------------------------------------------ writing a dump (valid files) *)
Definition word_bytes (w : Z) : list Z :=
  [w mod 256; (w / 256) mod 256; (w / 65536) mod 256; (w / 16777216) mod 256].

(* struct _blackbox_file_header as written by qb_log_blackbox_write_to_file, fields at their offsets *)
Definition bb_marker_words : list (Z * Z) :=
  [(BBF_OFF_WORD_SIZE, BBF_HDR_WORDSIZE); (BBF_OFF_READ_PT, BBF_HDR_READPT); (BBF_OFF_WRITE_PT, BBF_HDR_WRITEPT);
   (BBF_OFF_VERSION, BBF_HDR_VERSION); (BBF_OFF_HASH, BBF_HDR_HASH)].
Definition bb_marker : list Z :=
  flat_map word_bytes [BBF_HDR_WORDSIZE; BBF_HDR_READPT; BBF_HDR_WRITEPT; BBF_HDR_VERSION; BBF_HDR_HASH].

(* qb_log_blackbox_write_to_file: the marker block, then qb_rb_write_to_file (RbModel.dump: five header words,
   then the W data words), every word little endian *)
Definition bb_dump (b : rb) : list Z := bb_marker ++ flat_map word_bytes (dump b).

(* ------------------------------------------------------------------ the loaded ring *)
(* word access through the double mapping: physical word i of 2*W, backed by word i mod W *)
Definition rword (b : rb) (i : Z) : res Z :=
  if (0 <=? i) && (i <? 2 * rW b) then Ok (ldw (data b) (i mod rW b)) else Flt (OobRing i).
Definition rword_set (b : rb) (i v : Z) : res rb :=
  if (0 <=? i) && (i <? 2 * rW b) then Ok (set_data b (stw (data b) (i mod rW b) v)) else Flt (OobRing i).

(* qb_rb_space_free / qb_rb_space_used as print_header calls them: uint32_t arithmetic on the pointers, the
   result widened to size_t and multiplied by 4 *)
Definition free32 (W w r : Z) : Z :=
  4 * (if r <? w then ((r - w + W) mod two32 - 1) mod two32
       else if w <? r then ((r - w) mod two32 - 1) mod two32
       else W).
Definition used32 (W w r : Z) : Z :=
  4 * (if r <? w then (w - r) mod two32
       else if w <? r then ((w - r + W) mod two32 - 1) mod two32
       else 0).

(* qb_rb_chunk_read(rb, chunk, n, 0) on a ring opened with QB_RB_FLAG_NO_SEMAPHORE (timedwait_fn == NULL),
   followed by _rb_chunk_reclaim.  Every shared_data[] access is bounds-checked. *)
Inductive rd := RdOk (b : rb) (r : Z) (bytes : list Z) | RdFault (f : fault).

Definition bread (b : rb) (n : Z) : rd :=
  let r := rpt b in
  if r =? wpt b then RdOk b (- RB_ETIMEDOUT) [] else
  (* QB_RB_CHUNK_MAGIC_GET: index (r + 1) % word_size, always inside *)
  if negb (ldw (data b) ((r + 1) mod rW b) =? RB_CHUNK_MAGIC) then RdOk b (- RB_ETIMEDOUT) [] else
  match rword b r with                                       (* QB_RB_CHUNK_SIZE_GET: shared_data[read_pt] *)
  | Flt f => RdFault f
  | Ok size =>
    if n <? size then RdOk b (- RB_ENOBUFS) [] else
    let dp := (r + RB_CHUNK_HEADER_WORDS) mod rW b in        (* QB_RB_CHUNK_DATA_GET *)
    (* memcpy(data_out, &shared_data[dp], size): stays inside the 8*W bytes of the double mapping? *)
    if 8 * rW b <? 4 * dp + size then RdFault (OobRing (2 * rW b)) else
    let bytes := read_bytes (data b) (4 * rW b) (4 * dp) (Z.to_nat size) in
    (* _rb_chunk_reclaim: same emptiness / marker test, old_chunk_size, step, clear the header *)
    let new := chunk_step (rW b) r size in
    match rword_set b r 0 with                               (* shared_data[old_read_pt] = 0 *)
    | Flt f => RdFault f
    | Ok b1 =>
      let m2 := stw (data b1) ((r + 1) mod rW b) RB_CHUNK_MAGIC_DEAD in
      RdOk {| rW := rW b; wpt := wpt b; rpt := new; data := m2; sem := sem b; ovw := ovw b |} size bytes
    end
  end.

(* ------------------------------------------------------------------ qb_rb_create_from_file *)
Inductive cff :=
| CffNull                       (* returned NULL; no shm file left *)
| CffAbort                      (* assert(n_read == sizeof(uint32_t)) failed *)
| CffRing (b : rb) (e : ev).    (* ring loaded; e = what print_header printed; the two shm files exist *)

Definition load_data (W : Z) (bytes : list Z) : mem :=
  write_bytes (stw mem0 0 5) (4 * W) 0 bytes.

Definition create_from_file (fxh : bool) (f : list Z) (off : Z) : cff :=
  let st_size := zlen f in                                             (* fstat *)
  if avail f off 4 <? 4 then CffNull else                              (* 1. word size *)
  let ws := le32 f off in
  if st_size / 4 <? ws then CffNull else
  if avail f (off + 4) 4 <? 4 then (if fxh then CffNull else CffAbort) else   (* 2. write_pt *)
  let wp := le32 f (off + 4) in
  if avail f (off + 8) 4 <? 4 then (if fxh then CffNull else CffAbort) else   (* 3. read_pt *)
  let rp := le32 f (off + 8) in
  if (if fxh then (ws <=? wp) || (ws <=? rp) else (st_size <? wp) || (st_size <? rp)) then CffNull else
  if avail f (off + 12) 4 <? 4 then CffNull else                       (* 4. version *)
  let ver := le32 f (off + 12) in
  if avail f (off + 16) 4 <? 4 then CffNull else                       (* 5. hash *)
  let hash := le32 f (off + 16) in
  if negb (hash =? (ws + wp + rp + ver) mod two32) then CffNull else
  if negb (ver =? RB_FILE_HEADER_VERSION) then CffNull else
  let nreq := ws * RB_SIZEOF_WORD in                                   (* 6. data *)
  (* qb_rb_open("create_from_file", nreq - (MARGIN + 1), CREATE | NO_SEMAPHORE): real_size = ROUNDUP(nreq, page);
     real_size = 0 makes posix_fallocate fail and qb_rb_open unlink what it created *)
  if nreq =? 0 then CffNull else
  let b0 := rb_open (nreq - (RB_CHUNK_MARGIN + RB_SIZE_EXTRA)) true false in
  let W := rW b0 in
  let n := avail f (off + 20) nreq in                                  (* read(fd, rb->shared_data, n_required) *)
  if negb (n =? nreq) then CffNull else                                (* cleanup_fail: qb_rb_close unlinks both files *)
  let b := {| rW := W; wpt := wp; rpt := rp; data := load_data W (fslice f (off + 20) n);
              sem := None; ovw := false |} in
  CffRing b (EHdr W wp rp (free32 W wp rp) (used32 W wp rp)).

(* ------------------------------------------------------------------ the chunk buffer and message[] *)
Definition cget (c : list Z) (i : Z) : res Z :=
  if (0 <=? i) && (i <? zlen c) then Ok (nth (Z.to_nat i) c 0) else Flt (OobChunk i).
Definition c32 (c : list Z) (i : Z) : res Z :=
  bind (cget c i) (fun b0 => bind (cget c (i + 1)) (fun b1 => bind (cget c (i + 2)) (fun b2 =>
  bind (cget c (i + 3)) (fun b3 => Ok (b0 + 256 * b1 + 65536 * b2 + 16777216 * b3))))).
Definition c64 (c : list Z) (i : Z) : res Z :=
  bind (c32 c i) (fun lo => bind (c32 c (i + 4)) (fun hi => Ok (lo + two32 * hi))).
Definition two63 : Z := 9223372036854775808.
Definition to_s64 (v : Z) : Z := if v <? two63 then v else v - 2 * two63.

(* strlen / printf("%s") from offset i: the bytes before the first NUL; running off the buffer is a fault *)
Fixpoint cstr (fuel : nat) (c : list Z) (i : Z) : res (list Z) :=
  match fuel with
  | O => Flt (OobChunk i)
  | S k => bind (cget c i) (fun x => if x =? 0 then Ok [] else bind (cstr k c (i + 1)) (fun t => Ok (x :: t)))
  end.

(* memcpy(chunk, ring bytes, size): the first |bytes| bytes are replaced, the rest keeps its old content *)
Definition chunk_store (chunk bytes : list Z) : list Z := bytes ++ skipn (length bytes) chunk.

(* while (len > 0 && (message[len] == '\n' || message[len] == '\0')) { message[len] = '\0'; len--; }
   on the bytes above index 0, given in reverse order (highest index first) *)
Fixpoint strip_rev (l : list Z) : list Z :=
  match l with
  | [] => []
  | x :: t => if (x =? 10) || (x =? 0) then 0 :: strip_rev t else l
  end.
Definition strip_msg (m : list Z) : list Z :=
  match m with [] => [] | c0 :: t => c0 :: rev (strip_rev (rev t)) end.
Fixpoint upto_nul (l : list Z) : option (list Z) :=      (* None: no NUL inside the list *)
  match l with
  | [] => None
  | x :: t => if x =? 0 then Some [] else match upto_nul t with Some r => Some (x :: r) | None => None end
  end.

(* message[] after the decoder wrote buf = string[0..r): the rest is stack garbage *)
Definition msg_array (buf stk : list Z) : list Z :=
  firstn (Z.to_nat BBF_LOG_MAX_LEN) (buf ++ skipn (length buf) stk ++ repeat 0 (Z.to_nat BBF_LOG_MAX_LEN)).

(* len = decoder's return value r = |buf|; assert(len > 0); [message[len] = '\0';] len--; the while loop over
   indices len-1 .. 1; printf("%s", message).  Result: the bytes printed. *)
Definition msg_post (fxr : bool) (buf stk : list Z) : res (list Z) :=
  let r := zlen buf in
  if r <=? 0 then Flt Abort else
  if BBF_LOG_MAX_LEN <? r then Flt (OobMsg BBF_LOG_MAX_LEN) else   (* the decoder itself wrote past message[] *)
  let m0 := msg_array buf stk in
  bind (if fxr then Ok m0
        else if BBF_LOG_MAX_LEN <=? r then Flt (OobMsg r)          (* message[len] = '\0' with len = sizeof message *)
        else Ok (firstn (Z.to_nat r) m0 ++ 0 :: skipn (Z.to_nat r + 1) m0))
       (fun m1 =>
          (* the loop touches indices r-1 .. 1 only *)
          let m2 := strip_msg (firstn (Z.to_nat r) m1) ++ skipn (Z.to_nat r) m1 in
          match upto_nul m2 with Some t => Ok t | None => Flt (OobMsg BBF_LOG_MAX_LEN) end).

(* ------------------------------------------------------------------ one entry *)
Inductive estep :=
| EStop (es : list ev) (rc : Z)        (* goto cleanup with err = rc *)
| ECont (es : list ev) (orc : list (list Z))
| EFault (es : list ev) (f : fault).

Definition lift {A} (x : res A) (es : list ev) (k : A -> estep) : estep :=
  match x with Ok a => k a | Flt f => EFault es f end.

Definition ts_size (have_ts : bool) : Z := if have_ts then BBF_SIZEOF_TIMESPEC else BBF_SIZEOF_TIME_T.

(* the body of the do-loop after a successful qb_rb_chunk_read of r bytes into chunk *)
Definition entry (fxr have_ts : bool) (chunk : list Z) (r : Z) (orc : list (list Z)) (stk : list Z) : estep :=
  let U := BBF_SIZEOF_U32 in
  lift (c32 chunk 0) [] (fun lineno =>
  lift (c32 chunk U) [] (fun tags =>
  lift (cget chunk (2 * U)) [] (fun prio =>
  lift (c32 chunk (2 * U + 1)) [] (fun fn_size =>
  if r <? fn_size + BBF_MIN_ENTRY_SIZE then EStop [EErr 3 fn_size] (- BBF_EIO) else
  if fn_size <=? 0 then EStop [EErr 4 fn_size] (- BBF_EIO) else
  let fn_off := 3 * U + 1 in
  let p := fn_off + fn_size in                                  (* ptr after the function name *)
  lift (if fxr then cget chunk (p - 1) else Ok 0) [] (fun fn_last =>
  if fxr && (negb (fn_last =? 0) || (r <? p + ts_size have_ts + U)) then EStop [EErr 6 fn_size] (- BBF_EIO) else
  lift (c64 chunk p) [] (fun sec64 =>
  lift (if have_ts then c64 chunk (p + 8) else Ok 0) [] (fun nsec =>
  let p2 := p + ts_size have_ts in
  lift (c32 chunk p2) [] (fun msg_len =>
  if (BBF_LOG_MAX_LEN <? msg_len) || (msg_len <=? 0) || (fxr && (r <? p2 + U + msg_len))
  then EStop [EErr 5 msg_len] (- BBF_EIO) else
  let mo := p2 + U in                                           (* ptr handed to the decoder *)
  let dev := [EDec mo (if fxr then msg_len else -1)] in
  (* the decoder as found starts with strlen(buf) *)
  lift (if fxr then Ok [] else cstr (S (length chunk)) chunk mo) dev (fun _ =>
  let buf := match orc with [] => [0] | x :: _ => x end in
  lift (msg_post fxr buf stk) dev (fun text =>
  lift (cstr (S (length chunk)) chunk fn_off) dev (fun fn =>      (* printf("%s", function) *)
  ECont (dev ++ [ERec prio (to_s64 sec64) nsec fn lineno tags text]) (tl orc)))))))))))).

(* ------------------------------------------------------------------ qb_log_blackbox_print_from_file *)
Definition shm_files : list Z := [0; 1].       (* qb-create_from_file-header, qb-create_from_file-data *)

Fixpoint ploop (fuel : nat) (fxr have_ts : bool) (b : rb) (chunk : list Z) (orc : list (list Z)) (stk : list Z)
         (acc : list ev) : result :=
  match fuel with
  | O => {| evs := acc; out := Fault OutOfFuel; shm_left := shm_files |}
  | S k =>
    match bread b BBF_CHUNK_BUF with
    | RdFault f => {| evs := acc; out := Fault f; shm_left := shm_files |}
    | RdOk b1 r bytes =>
      let acc := acc ++ [ERead r] in
      if (0 <=? r) && (r <? BBF_MIN_ENTRY_SIZE) then
        {| evs := acc ++ [EErr 1 r]; out := Ret (-1); shm_left := [] |}       (* cleanup: qb_rb_close unlinks *)
      else if r <? 0 then
        {| evs := acc ++ [EErr 2 (- r)]; out := Ret (- BBF_EIO); shm_left := [] |}
      else
        let chunk1 := chunk_store chunk bytes in
        match entry fxr have_ts chunk1 r orc stk with
        | EFault es f => {| evs := acc ++ es; out := Fault f; shm_left := shm_files |}
        | EStop es rc => {| evs := acc ++ es; out := Ret rc; shm_left := [] |}
        | ECont es orc1 =>
          if BBF_MIN_ENTRY_SIZE <? r then ploop k fxr have_ts b1 chunk1 orc1 stk (acc ++ es)
          else {| evs := acc ++ es; out := Ret BBF_FILE_HDR_SIZE; shm_left := [] |}
             (* `err' still holds the return value of the first read() *)
        end
    end
  end.

Definition is_marker (f : list Z) : bool :=
  forallb (fun ow => le32 f (fst ow) =? snd ow) bb_marker_words.

Definition print_from_file (fxh fxr : bool) (orc : list (list Z)) (heap0 stk : list Z) (errno0 : Z)
           (f : list Z) : result :=
  (* err = read(fd, &header, sizeof(header)); if (err < sizeof(header)) return -errno (a stale errno) *)
  if avail f 0 BBF_FILE_HDR_SIZE <? BBF_FILE_HDR_SIZE then {| evs := []; out := Ret (- errno0); shm_left := [] |} else
  let have_ts := is_marker f in
  let off := if have_ts then BBF_FILE_HDR_SIZE else 0 in        (* else lseek(fd, 0, SEEK_SET) *)
  match create_from_file fxh f off with
  | CffAbort => {| evs := []; out := Fault Abort; shm_left := [] |}
  | CffNull => {| evs := []; out := Ret (- BBF_EIO); shm_left := [] |}
  | CffRing b e =>
    (* chunk = malloc(max_size): BBF_CHUNK_BUF bytes of unspecified content *)
    let chunk := firstn (Z.to_nat BBF_CHUNK_BUF) (heap0 ++ repeat 0 (Z.to_nat BBF_CHUNK_BUF)) in
    ploop (S (Z.to_nat (rW b))) fxr have_ts b chunk orc stk [e]
  end.

(* the entries a run printed *)
Definition records (r : result) : list ev :=
  filter (fun e => match e with ERec _ _ _ _ _ _ _ => true | _ => false end) (evs r).

(* ------------------------------------------------------------------ what a blackbox entry looks like (writer side) *)
(* _blackbox_vlogger: lineno, tags, priority, fn_size, function + NUL, struct timespec, msg_len, serialized message *)
Record brec := { b_line : Z; b_tags : Z; b_prio : Z; b_fn : list Z; b_sec : Z; b_nsec : Z; b_msg : list Z }.
Definition w64 (v : Z) : list Z := word_bytes (v mod two32) ++ word_bytes ((v / two32) mod two32).
Definition enc (r : brec) : list Z :=
  word_bytes (b_line r) ++ word_bytes (b_tags r) ++ [b_prio r] ++ word_bytes (zlen (b_fn r) + 1) ++
  b_fn r ++ [0] ++ w64 (b_sec r mod (2 * two63)) ++ w64 (b_nsec r) ++ word_bytes (zlen (b_msg r)) ++ b_msg r.
