(* C08 - the API calls (qb_loop_job_add/del, timer_add/del, poll_add/mod/del, signal_add/mod/del, stop and the
   environment actions) preserve the invariant, and leave alone what the dispatcher has parked. *)
Require Import ZArith List Bool Lia.
Require Import Verif.gen.Consts_loop Verif.LoopModel Verif.LoopProofs_C08a Verif.LoopProofs_C08b.
Import ListNotations.
Open Scope Z_scope.

(* ------------------------------------------------------------------ helpers *)
Lemma occ_all_in : forall x st, 1 <= occ_all x st -> exists it, In it (all_items st) /\ qitem_eqb x it = true.
Proof. intros. apply occ_pos_in. exact H. Qed.
Lemma in_occ_all : forall it st, In it (all_items st) -> 1 <= occ_all it st.
Proof. intros. eapply occ_in; eauto. apply qitem_eqb_refl. Qed.
Lemma occ_all_zero_notin : forall it st, occ_all it st = 0 -> ~ In it (all_items st).
Proof. intros it st H Hin. apply in_occ_all in Hin. lia. Qed.
Lemma occ_all_nonneg : forall x st, 0 <= occ_all x st.
Proof. intros. apply occ_nonneg. Qed.

Definition is_job (it : qitem) : bool := match it with QJob _ _ => true | _ => false end.
Lemma eqb_job : forall x it, qitem_eqb x it = true -> is_job x = is_job it.
Proof. destruct x, it; cbn; intros; congruence. Qed.

(* items other than jobs never sit on a wait list *)
Lemma occ_wait_nonjob : forall st x p, (forall p it, In it (wait (lv st p)) -> exists u k, it = QJob u k) ->
  is_job x = false -> occ x (wait (lv st p)) = 0.
Proof.
  intros st x p W J. pose proof (occ_nonneg x (wait (lv st p))).
  destruct (Z.eq_dec (occ x (wait (lv st p))) 0); [auto|].
  destruct (occ_pos_in x (wait (lv st p)) ltac:(lia)) as (it & A & B).
  destruct (W p it A) as (u & k & ->). apply eqb_job in B. cbn in B. congruence.
Qed.

(* after qb_loop_level_item_del a non-job item is on no list *)
Lemma item_del_clears : forall p it st, inv_q st -> is_job it = false -> occ_all it (item_del p it st) = 0.
Proof.
  intros p it st (Q1 & _ & _ & _ & _ & _ & QW) J. rewrite occ_all_item_del. rewrite qitem_eqb_refl.
  pose proof (Q1 it) as H1. rewrite occ_all_split in H1 |- *.
  rewrite !(occ_wait_nonjob st it _ QW J) in *.
  pose proof (occ_nonneg it (jobq (lv st High))). pose proof (occ_nonneg it (jobq (lv st Med))). pose proof (occ_nonneg it (jobq (lv st Low))).
  destruct (1 <=? _) eqn:E; [apply Z.leb_le in E|apply Z.leb_gt in E]; lia.
Qed.

(* liveness can only shrink when the lists shrink and the tables stay *)
Lemma live_shrink : forall st st' k u,
  (forall it, In it (all_items st') -> In it (all_items st)) ->
  timers st' = timers st -> polls st' = polls st -> sigs st' = sigs st ->
  live st' k u -> live st k u.
Proof.
  intros st st' k u I T P S. unfold live, live_job, live_timer, live_fd, live_sig. rewrite T, P, S.
  intros [[K (key & H)]|[[K (i & t & A & B & C)]|[H|H]]]; auto.
  - left. split; [exact K|]. exists key. auto.
  - right; left. split; [exact K|]. exists i, t. split; [exact A|]. split; [exact B|]. destruct C as [C|[C D]]; auto.
Qed.

(* the queue part of the invariant when lists shrink and tables stay *)
Lemma inv_q_shrink : forall st st',
  (forall x, occ_all x st' <= occ_all x st) ->
  (forall it, In it (all_items st') -> In it (all_items st)) ->
  (forall p it, In it (wait (lv st' p)) -> In it (wait (lv st p))) ->
  timers st' = timers st -> polls st' = polls st -> sigs st' = sigs st -> next_uid st <= next_uid st' ->
  inv_q st -> inv_q st'.
Proof.
  intros st st' O I W T P S U (Q1 & Q2 & Q3 & Q4 & Q5 & Q6 & Q7). unfold inv_q, live_sig. rewrite T, P, S.
  split; [intros x; specialize (O x); specialize (Q1 x); lia|].
  split; [intros i H; apply Q2; auto|]. split; [intros i H; apply Q3; auto|].
  split; [intros u f g k H; eapply Q4; eauto|].
  split; [intros u k H; specialize (Q5 u k (I _ H)); lia|].
  split; [intros u f g k H; specialize (Q6 u f g k (I _ H)); lia|].
  intros p it H. apply (Q7 p). auto.
Qed.

Lemma wait_item_del : forall p it st q, wait (lv (item_del p it st) q) = wait (lv st q).
Proof.
  intros. unfold item_del.
  destruct (in_jobq it High st); [unfold dec_todo, unlink, upd_level, set_lv; destruct p, q; cbn; reflexivity|].
  destruct (in_jobq it Med st); [unfold dec_todo, unlink, upd_level, set_lv; destruct p, q; cbn; reflexivity|].
  destruct (in_jobq it Low st); [unfold dec_todo, unlink, upd_level, set_lv; destruct p, q; cbn; reflexivity|]. reflexivity.
Qed.

Lemma occ_all_item_del_le : forall x p it st, occ_all x (item_del p it st) <= occ_all x st.
Proof. intros. rewrite occ_all_item_del. destruct (qitem_eqb x it); [destruct (1 <=? _)|]; lia. Qed.

(* qb_loop_level_item_del preserves the invariant *)
Lemma inv_item_del : forall p it st, inv st -> inv (item_del p it st).
Proof.
  intros p it st (I0 & IT & IP & IS & IQ & IG & IR & IRA & IF).
  destruct (item_del_frame p it st) as (T & P & S & U & O & R & F & RA & RN & _).
  unfold inv. rewrite T, P, S, U, R, F.
  split; [exact I0|]. split; [exact IT|]. split; [exact IP|]. split; [exact IS|].
  split; [|split; [|split; [exact IR|split; [|exact IF]]]].
  - apply (inv_q_shrink st); auto; try lia.
    + intros; apply occ_all_item_del_le.
    + intros; eapply in_all_item_del; eauto.
    + intros q x. rewrite wait_item_del. auto.
  - destruct IG as (G1 & G2 & G3). unfold inv_g. rewrite O, U. split; [exact G1|]. split; [|exact G3].
    intros k u Hg Hl. apply (G2 k u Hg).
    eapply (live_shrink st (item_del p it st)); [intros x Hx; eapply in_all_item_del; eauto|exact T|exact P|exact S|exact Hl].
  - unfold rand_ok in *. rewrite RA, RN. exact IRA.
Qed.

(* ------------------------------------------------------------------ what a call may do to the rest of the loop *)
(* a timer being dispatched: JOBLIST, check word cleared, off the heap, off every list *)
Definition tparked (st : state) (i : nat) : Prop :=
  (exists t, nth_error (timers st) i = Some t /\ t_state t = Joblist /\ t_check t = 0 /\ t_exp t = None) /\
  occ_all (QTimer i) st = 0.
(* a poll entry being dispatched: JOBLIST or (deleted from inside) DELETED, same registration, off every list *)
Definition pparked (st : state) (i : nat) (u : Z) : Prop :=
  (exists e, nth_error (polls st) i = Some e /\ p_uid e = u /\ (p_state e = Joblist \/ p_state e = Deleted)) /\
  occ_all (QFd i) st = 0.
Record opframe (st st' : state) : Prop := {
  of_occ : forall x, is_job x = false -> occ_all x st' <= occ_all x st;
  of_tparked : forall i, tparked st i -> tparked st' i;
  of_pparked : forall i u, pparked st i u -> pparked st' i u;
  of_stop : stop st = true -> stop st' = true;
  of_uid : next_uid st <= next_uid st';
  of_out : exists l, out st' = l ++ out st }.
Lemma opframe_refl : forall st, opframe st st.
Proof. intros. constructor; auto; try lia. exists []. reflexivity. Qed.
Lemma opframe_trans : forall a b c, opframe a b -> opframe b c -> opframe a c.
Proof.
  intros a b c [A1 A2 A3 A4 A5 [l1 A6]] [B1 B2 B3 B4 B5 [l2 B6]]. constructor; auto.
  - intros x J. specialize (A1 x J). specialize (B1 x J). lia.
  - lia.
  - exists (l2 ++ l1). rewrite B6, A6. now rewrite app_assoc.
Qed.
(* states that agree on levels, tables, uid counter, stop: frame *)
Lemma opframe_same : forall st st', lv st' = lv st -> timers st' = timers st -> polls st' = polls st ->
  stop st' = stop st -> next_uid st' = next_uid st -> (exists l, out st' = l ++ out st) -> opframe st st'.
Proof.
  intros st st' L T P S U O. constructor; auto; try lia.
  - intros x _. unfold occ_all. rewrite (all_items_lv _ _ L). lia.
  - intros i [A B]. unfold tparked, occ_all. rewrite T, (all_items_lv _ _ L). split; auto.
  - intros i u [A B]. unfold pparked, occ_all. rewrite P, (all_items_lv _ _ L). split; auto.
  - congruence.
Qed.
Lemma opframe_emit : forall e st, opframe st (emit e st).
Proof. intros. apply opframe_same; try reflexivity. exists [e]. reflexivity. Qed.

Lemma opframe_item_del : forall p it st, opframe st (item_del p it st).
Proof.
  intros p it st. destruct (item_del_frame p it st) as (T & P & S & U & O & R & F & RA & RN & _ & _ & ST).
  constructor.
  - intros; apply occ_all_item_del_le.
  - intros i [A B]. unfold tparked. rewrite T. split; [exact A|]. pose proof (occ_all_item_del_le (QTimer i) p it st).
    pose proof (occ_all_nonneg (QTimer i) (item_del p it st)). lia.
  - intros i u [A B]. unfold pparked. rewrite P. split; [exact A|]. pose proof (occ_all_item_del_le (QFd i) p it st).
    pose proof (occ_all_nonneg (QFd i) (item_del p it st)). lia.
  - congruence.
  - lia.
  - exists []. rewrite O. reflexivity.
Qed.

(* ------------------------------------------------------------------ random(): only the stream moves *)
Record sbr (st st' : state) : Prop := {
  sb_lv : lv st' = lv st; sb_timers : timers st' = timers st; sb_polls : polls st' = polls st; sb_sigs : sigs st' = sigs st;
  sb_uid : next_uid st' = next_uid st; sb_out : out st' = out st; sb_regs : regs st' = regs st; sb_fx : fx st' = fx st;
  sb_stop : stop st' = stop st; sb_kset : kset st' = kset st }.
Lemma sbr_refl : forall st, sbr st st. Proof. intros; constructor; reflexivity. Qed.
Lemma sbr_trans : forall a b c, sbr a b -> sbr b c -> sbr a c.
Proof. intros a b c [] []; constructor; congruence. Qed.
Lemma inv_sbr : forall st st', sbr st st' -> rand_ok st' -> inv st -> inv st'.
Proof.
  intros st st' [L T P S U O R F ST K] RO (I0 & IT & IP & IS & IQ & IG & IR & IRA & IF).
  unfold inv. rewrite T, P, S, U, R, F.
  split; [exact I0|]. split; [exact IT|]. split; [exact IP|]. split; [exact IS|].
  split; [|split; [|split; [exact IR|split; [exact RO|exact IF]]]].
  - unfold inv_q, occ_all, live_sig in *. rewrite (all_items_lv _ _ L), T, P, S, U, L. exact IQ.
  - destruct IG as (G1 & G2 & G3). unfold inv_g. rewrite O, U. split; [exact G1|]. split; [|exact G3].
    intros k u Hg Hl. apply (G2 k u Hg). eapply live_same; eauto.
Qed.
Lemma opframe_sbr : forall st st', sbr st st' -> opframe st st'.
Proof. intros st st' []. apply opframe_same; auto. exists []. now rewrite sb_out0. Qed.

Lemma next_random_spec : forall st, rand_ok st ->
  0 < fst (next_random st) /\ rand_ok (snd (next_random st)) /\ sbr st (snd (next_random st)).
Proof.
  intros st [A B]. unfold next_random. destruct (rand st) as [|x r] eqn:E; cbn [fst snd].
  - split; [lia|]. split; [split; [constructor|cbn [randn set_rand]; lia]|constructor; reflexivity].
  - inversion A; subst. split; [assumption|]. split; [split; [assumption|cbn [randn set_rand]; lia]|constructor; reflexivity].
Qed.
Lemma draw_check_spec : forall f c st, rand_ok st -> (f <> O \/ 0 < c) ->
  0 < fst (draw_check f c st) /\ rand_ok (snd (draw_check f c st)) /\ sbr st (snd (draw_check f c st)).
Proof.
  induction f as [|f IH]; intros c st RO H; cbn [draw_check].
  - cbn. split; [destruct H; [congruence|lia]|]. split; [exact RO|apply sbr_refl].
  - destruct (next_random_spec st RO) as (P & RO' & SB). destruct (next_random st) as [r s]. cbn [fst snd] in *.
    destruct (0 <? r) eqn:E; cbn [fst snd]; [auto|]. apply Z.ltb_ge in E. lia.
Qed.
Lemma draw_check_p_spec : forall f c st, rand_ok st ->
  rand_ok (snd (draw_check_p f c st)) /\ sbr st (snd (draw_check_p f c st)).
Proof.
  induction f as [|f IH]; intros c st RO; cbn [draw_check_p].
  - cbn. split; [exact RO|apply sbr_refl].
  - destruct (next_random_spec st RO) as (P & RO' & SB). destruct (next_random st) as [r s]. cbn [fst snd] in *.
    destruct (negb (r =? 0) && negb (r =? TWO32 - 1)); cbn [fst snd]; [auto|].
    destruct (IH r s RO') as [A B]. split; [exact A|eapply sbr_trans; eauto].
Qed.

(* ------------------------------------------------------------------ taking a fresh uid *)
Lemma inv_bump_uid : forall st, inv st -> inv (set_next_uid (next_uid st + 1) st).
Proof.
  intros st (I0 & IT & IP & IS & IQ & IG & IR & IRA & IF). unfold inv. cbn.
  split; [lia|]. split; [eapply inv_t_mono; eauto; lia|]. split; [eapply inv_p_mono; eauto; lia|].
  split; [eapply inv_s_mono; eauto; lia|]. split; [|split; [|split; [exact IR|split; [exact IRA|exact IF]]]].
  - destruct IQ as (Q1 & Q2 & Q3 & Q4 & Q5 & Q6 & Q7). unfold inv_q. cbn.
    split; [exact Q1|]. split; [exact Q2|]. split; [exact Q3|]. split; [exact Q4|].
    split; [intros u k H; specialize (Q5 u k H); lia|]. split; [intros u f g k H; specialize (Q6 u f g k H); lia|exact Q7].
  - destruct IG as (G1 & G2 & G3). unfold inv_g. cbn. split; [intros k u H; specialize (G1 k u H); lia|]. split; [exact G2|exact G3].
Qed.
Lemma opframe_bump_uid : forall st, opframe st (set_next_uid (next_uid st + 1) st).
Proof.
  intros. constructor.
  - intros; apply Z.le_refl.
  - intros i H; exact H.
  - intros i u H; exact H.
  - auto.
  - cbn; lia.
  - exists []; reflexivity.
Qed.
(* the fresh uid is not on any list, in no table, and not in the log *)
Lemma fresh_not_gone : forall st k, inv st -> ~ gone (out st) k (next_uid st).
Proof.
  intros st k (_ & _ & _ & _ & _ & (G1 & _) & _) [H|[_ H]].
  - specialize (G1 k _ (or_introl H)). lia.
  - specialize (G1 k _ (or_intror H)). lia.
Qed.

(* ------------------------------------------------------------------ generic: lists shrink, everything else stays *)
Record shrinks (st st' : state) : Prop := {
  sh_occ : forall x, occ_all x st' <= occ_all x st;
  sh_in : forall it, In it (all_items st') -> In it (all_items st);
  sh_wait : forall p it, In it (wait (lv st' p)) -> In it (wait (lv st p));
  sh_timers : timers st' = timers st; sh_polls : polls st' = polls st; sh_sigs : sigs st' = sigs st;
  sh_uid : next_uid st' = next_uid st; sh_out : out st' = out st; sh_regs : regs st' = regs st; sh_fx : fx st' = fx st;
  sh_rand : rand st' = rand st; sh_randn : randn st' = randn st; sh_stop : stop st' = stop st }.
Lemma inv_shrinks : forall st st', shrinks st st' -> inv st -> inv st'.
Proof.
  intros st st' [O I W T P S U OU R F RA RN ST] (I0 & IT & IP & IS & IQ & IG & IR & IRA & IF).
  unfold inv. rewrite T, P, S, U, R, F.
  split; [exact I0|]. split; [exact IT|]. split; [exact IP|]. split; [exact IS|].
  split; [|split; [|split; [exact IR|split; [|exact IF]]]].
  - apply (inv_q_shrink st); auto; lia.
  - destruct IG as (G1 & G2 & G3). unfold inv_g. rewrite OU, U. split; [exact G1|]. split; [|exact G3].
    intros k u Hg Hl. apply (G2 k u Hg). eapply (live_shrink st st'); eauto.
  - unfold rand_ok in *. rewrite RA, RN. exact IRA.
Qed.
Lemma opframe_shrinks : forall st st', shrinks st st' -> opframe st st'.
Proof.
  intros st st' [O I W T P S U OU R F RA RN ST]. constructor.
  - intros x _. apply O.
  - intros i [A B]. unfold tparked. rewrite T. split; [exact A|]. pose proof (O (QTimer i)). pose proof (occ_all_nonneg (QTimer i) st'). lia.
  - intros i u [A B]. unfold pparked. rewrite P. split; [exact A|]. pose proof (O (QFd i)). pose proof (occ_all_nonneg (QFd i) st'). lia.
  - congruence.
  - lia.
  - exists []. rewrite OU. reflexivity.
Qed.
Lemma shrinks_item_del : forall p it st, shrinks st (item_del p it st).
Proof.
  intros p it st. destruct (item_del_frame p it st) as (T & P & S & U & O & R & F & RA & RN & _ & _ & ST).
  constructor; auto.
  - intros; apply occ_all_item_del_le.
  - intros; eapply in_all_item_del; eauto.
  - intros q x. rewrite wait_item_del. auto.
Qed.

(* ------------------------------------------------------------------ logging a removal / an invocation *)
Lemma inv_emit_del : forall k u st, inv st -> u < next_uid st -> ~ live st k u -> inv (emit (EvDel k u) st).
Proof.
  intros k u st (I0 & IT & IP & IS & IQ & IG & IR & IRA & IF) U NL. unfold inv. cbn.
  split; [exact I0|]. split; [exact IT|]. split; [exact IP|]. split; [exact IS|]. split; [exact IQ|].
  split; [|split; [assumption|split; assumption]].
  destruct IG as (G1 & G2 & G3). split; [|split].
  - intros k' u' [[H|H]|[H|H]]; try discriminate H; try (inversion H; subst; exact U); apply (G1 k' u'); auto.
  - intros k' u' [[H|H]|[K [H|H]]].
    + inversion H; subst. exact NL.
    + apply G2. left. exact H.
    + discriminate H.
    + apply G2. right. auto.
  - cbn. auto.
Qed.
Lemma inv_emit_inv : forall k u st, inv st -> u < next_uid st -> ~ gone (out st) k u -> ((k = 0 \/ k = 1) -> ~ live st k u) ->
  inv (emit (EvInv k u) st).
Proof.
  intros k u st (I0 & IT & IP & IS & IQ & IG & IR & IRA & IF) U NG NL. unfold inv. cbn.
  split; [exact I0|]. split; [exact IT|]. split; [exact IP|]. split; [exact IS|]. split; [exact IQ|].
  split; [|split; [assumption|split; assumption]].
  destruct IG as (G1 & G2 & G3). split; [|split].
  - intros k' u' [[H|H]|[H|H]]; try discriminate H; try (inversion H; subst; exact U); apply (G1 k' u'); auto.
  - intros k' u' [[H|H]|[K [H|H]]].
    + discriminate H.
    + apply G2. left. exact H.
    + inversion H; subst. apply NL. exact K.
    + apply G2. right. auto.
  - cbn. auto.
Qed.

(* emit commutes with the list primitives *)
Lemma item_del_emit : forall p it e st, item_del p it (emit e st) = emit e (item_del p it st).
Proof.
  intros. unfold item_del. change (in_jobq it High (emit e st)) with (in_jobq it High st).
  change (in_jobq it Med (emit e st)) with (in_jobq it Med st). change (in_jobq it Low (emit e st)) with (in_jobq it Low st).
  destruct (in_jobq it High st); [reflexivity|]. destruct (in_jobq it Med st); [reflexivity|].
  destruct (in_jobq it Low st); reflexivity.
Qed.
Lemma upd_level_emit : forall p f e st, upd_level p f (emit e st) = emit e (upd_level p f st).
Proof. reflexivity. Qed.

(* ------------------------------------------------------------------ qb_loop_job_add *)
Lemma in_all_wait_push : forall y p it st,
  In y (all_items (upd_level p (fun l => {| wait := wait l ++ [it]; jobq := jobq l; todo := todo l |}) st)) <->
  In y (all_items st) \/ y = it.
Proof.
  intros. split.
  - intros H. apply in_all_upd_level in H. cbn in H. rewrite in_app_iff in H. cbn in H.
    destruct H as [H|[H|[H|[H|[]]]]]; auto; left; apply in_all_items; exists p; auto.
  - intros [H| ->].
    + apply in_all_upd_level_keep; auto. cbn. intros. apply in_or_app. auto.
    + apply in_all_items. exists p. right. unfold upd_level, set_lv. cbn.
      rewrite (proj2 (prio_eqb_eq p p) eq_refl). cbn. apply in_or_app. cbn. auto.
Qed.
Lemma occ_all_wait_push : forall x p it st,
  occ_all x (upd_level p (fun l => {| wait := wait l ++ [it]; jobq := jobq l; todo := todo l |}) st) =
  occ_all x st + (if qitem_eqb x it then 1 else 0).
Proof. intros. rewrite occ_all_upd_level. cbn. rewrite occ_app. cbn. lia. Qed.

Lemma inv_wait_push : forall p u key st, inv st -> u < next_uid st -> occ_all (QJob u key) st = 0 -> ~ gone (out st) 0 u ->
  inv (upd_level p (fun l => {| wait := wait l ++ [QJob u key]; jobq := jobq l; todo := todo l |}) st).
Proof.
  intros p u key st (I0 & IT & IP & IS & IQ & IG & IR & IRA & IF) U Z NG.
  set (st' := upd_level p _ st).
  unfold inv. change (timers st') with (timers st). change (polls st') with (polls st). change (sigs st') with (sigs st).
  change (next_uid st') with (next_uid st). change (regs st') with (regs st). change (fx st') with (fx st).
  split; [exact I0|]. split; [exact IT|]. split; [exact IP|]. split; [exact IS|].
  split; [|split; [|split; [exact IR|split; [exact IRA|exact IF]]]].
  - destruct IQ as (Q1 & Q2 & Q3 & Q4 & Q5 & Q6 & Q7). unfold inv_q.
    change (timers st') with (timers st). change (polls st') with (polls st). change (next_uid st') with (next_uid st).
    split; [|split; [|split; [|split; [|split; [|split]]]]].
    + intros x. unfold st'. rewrite occ_all_wait_push. destruct (qitem_eqb x (QJob u key)) eqn:E.
      * unfold occ_all in *. rewrite (occ_eqb x (QJob u key) (all_items st) E). lia.
      * specialize (Q1 x). lia.
    + intros i H. apply in_all_wait_push in H. destruct H as [H|H]; [auto|discriminate].
    + intros i H. apply in_all_wait_push in H. destruct H as [H|H]; [auto|discriminate].
    + intros a f g k H. apply in_all_wait_push in H. destruct H as [H|H]; [|discriminate]. exact (Q4 a f g k H).
    + intros a k H. apply in_all_wait_push in H. destruct H as [H|H]; [eauto|]. inversion H; subst. exact U.
    + intros a f g k H. apply in_all_wait_push in H. destruct H as [H|H]; [eauto|discriminate].
    + intros q it H. unfold st', upd_level, set_lv in H. cbn in H. destruct (prio_eqb q p) eqn:E; [|eauto].
      cbn in H. apply in_app_or in H. destruct H as [H|[<-|[]]]; [eauto|]. apply prio_eqb_eq in E; subst. eauto.
  - destruct IG as (G1 & G2 & G3). unfold inv_g. change (out st') with (out st). change (next_uid st') with (next_uid st).
    split; [exact G1|]. split; [|exact G3].
    intros k a Hg Hl. destruct Hl as [[K (key' & H)]|[[K (i & t & A & B & C)]|[[K H]|[K H]]]].
    + apply in_all_wait_push in H. destruct H as [H|H].
      * apply (G2 k a Hg). left. split; [exact K|]. exists key'. exact H.
      * inversion H; subst. exact (NG Hg).
    + apply (G2 k a Hg). right; left. split; [exact K|]. exists i, t. split; [exact A|]. split; [exact B|].
      destruct C as [C|[C D]]; [auto|]. right. split; [exact C|]. apply in_all_wait_push in D. destruct D as [D|D]; [exact D|discriminate].
    + apply (G2 k a Hg). right; right; left. auto.
    + apply (G2 k a Hg). right; right; right. auto.
Qed.

Lemma fresh_job_absent : forall st key, inv st -> occ_all (QJob (next_uid st) key) st = 0.
Proof.
  intros st key (_ & _ & _ & _ & (_ & _ & _ & _ & Q5 & _) & _).
  pose proof (occ_all_nonneg (QJob (next_uid st) key) st).
  destruct (Z.eq_dec (occ_all (QJob (next_uid st) key) st) 0); [auto|].
  destruct (occ_all_in (QJob (next_uid st) key) st ltac:(lia)) as (it & A & B).
  destruct it; cbn in B; try discriminate. apply Z.eqb_eq in B. subst. specialize (Q5 _ _ A). lia.
Qed.

Lemma job_add_ok : forall p key st, inv st -> inv (snd (job_add p key st)) /\ opframe st (snd (job_add p key st)).
Proof.
  intros p key st I. unfold job_add, fresh_uid. cbn [snd].
  set (n := next_uid st). set (s1 := set_next_uid (n + 1) st).
  assert (I1 : inv s1) by (apply inv_bump_uid; exact I).
  assert (I2 : inv (emit (EvAdd 0 n p) s1)) by (apply inv_emit_neutral; [exact Logic.I|exact I1]).
  split.
  - apply inv_wait_push; [exact I2|cbn; lia| |].
    + change (occ_all (QJob n key) (emit (EvAdd 0 n p) s1)) with (occ_all (QJob n key) st). apply fresh_job_absent. exact I.
    + cbn [out emit set_out]. intros Hg. apply (gone_neutral (EvAdd 0 n p)) in Hg; [|exact Logic.I].
      exact (fresh_not_gone st 0 I Hg).
  - apply (opframe_trans st s1); [apply opframe_bump_uid|]. apply (opframe_trans s1 (emit (EvAdd 0 n p) s1)); [apply opframe_emit|].
    constructor.
    + intros x J. rewrite occ_all_wait_push. destruct (qitem_eqb x (QJob n key)) eqn:E; [|lia].
      apply eqb_job in E. cbn in E. congruence.
    + intros i [A B]. split; [exact A|]. rewrite occ_all_wait_push. cbn [qitem_eqb]. lia.
    + intros i u [A B]. split; [exact A|]. rewrite occ_all_wait_push. cbn [qitem_eqb]. lia.
    + auto.
    + cbn. lia.
    + exists []. reflexivity.
Qed.
