(* C08 - the API calls (qb_loop_job_add/del, timer_add/del, poll_add/mod/del, signal_add/mod/del, stop and the
   environment actions) preserve the invariant, and leave alone what the dispatcher has parked. *)
Require Import ZArith List Bool Lia.
Require Import Verif.gen.Consts_loop Verif.LoopModel Verif.LoopProofs_C08a Verif.LoopProofs_C08b.
Import ListNotations.
Open Scope Z_scope.

(* ------------------------------------------------------------------ helpers *)
Lemma occ_all_in : forall x st, 1 <= occ_all x st -> exists it, In it (all_items st) /\ qitem_eqb x it = true.
Proof. intros. apply occ_pos_in. exact H. Qed.
Lemma in_occ_all : forall it st, In it (all_items st) -> 1 <= occ_all it st.
Proof. intros. eapply occ_in; eauto. apply qitem_eqb_refl. Qed.
Lemma occ_all_zero_notin : forall it st, occ_all it st = 0 -> ~ In it (all_items st).
Proof. intros it st H Hin. apply in_occ_all in Hin. lia. Qed.
Lemma occ_all_nonneg : forall x st, 0 <= occ_all x st.
Proof. intros. apply occ_nonneg. Qed.

Definition is_job (it : qitem) : bool := match it with QJob _ _ => true | _ => false end.
Lemma eqb_job : forall x it, qitem_eqb x it = true -> is_job x = is_job it.
Proof. destruct x, it; cbn; intros; congruence. Qed.

(* items other than jobs never sit on a wait list *)
Lemma occ_wait_nonjob : forall st x p, (forall p it, In it (wait (lv st p)) -> exists u k, it = QJob u k) ->
  is_job x = false -> occ x (wait (lv st p)) = 0.
Proof.
  intros st x p W J. pose proof (occ_nonneg x (wait (lv st p))).
  destruct (Z.eq_dec (occ x (wait (lv st p))) 0); [auto|].
  destruct (occ_pos_in x (wait (lv st p)) ltac:(lia)) as (it & A & B).
  destruct (W p it A) as (u & k & ->). apply eqb_job in B. cbn in B. congruence.
Qed.

(* after qb_loop_level_item_del a non-job item is on no list *)
Lemma item_del_clears : forall p it st, inv_q st -> is_job it = false -> occ_all it (item_del p it st) = 0.
Proof.
  intros p it st (Q1 & _ & _ & _ & _ & _ & QW) J. rewrite occ_all_item_del. rewrite qitem_eqb_refl.
  pose proof (Q1 it) as H1. rewrite occ_all_split in H1 |- *.
  rewrite !(occ_wait_nonjob st it _ QW J) in *.
  pose proof (occ_nonneg it (jobq (lv st High))). pose proof (occ_nonneg it (jobq (lv st Med))). pose proof (occ_nonneg it (jobq (lv st Low))).
  destruct (1 <=? _) eqn:E; [apply Z.leb_le in E|apply Z.leb_gt in E]; lia.
Qed.

(* liveness can only shrink when the lists shrink and the tables stay *)
Lemma live_shrink : forall st st' k u,
  (forall it, In it (all_items st') -> In it (all_items st)) ->
  timers st' = timers st -> polls st' = polls st -> sigs st' = sigs st ->
  live st' k u -> live st k u.
Proof.
  intros st st' k u I T P S. unfold live, live_job, live_timer, live_fd, live_sig. rewrite T, P, S.
  intros [[K (key & H)]|[[K (i & t & A & B & C)]|[H|H]]]; auto.
  - left. split; [exact K|]. exists key. auto.
  - right; left. split; [exact K|]. exists i, t. split; [exact A|]. split; [exact B|]. destruct C as [C|[C D]]; auto.
Qed.

(* the queue part of the invariant when lists shrink and tables stay *)
Lemma inv_q_shrink : forall st st',
  (forall x, occ_all x st' <= occ_all x st) ->
  (forall it, In it (all_items st') -> In it (all_items st)) ->
  (forall p it, In it (wait (lv st' p)) -> In it (wait (lv st p))) ->
  timers st' = timers st -> polls st' = polls st -> sigs st' = sigs st -> next_uid st <= next_uid st' ->
  inv_q st -> inv_q st'.
Proof.
  intros st st' O I W T P S U (Q1 & Q2 & Q3 & Q4 & Q5 & Q6 & Q7). unfold inv_q, live_sig. rewrite T, P, S.
  split; [intros x; specialize (O x); specialize (Q1 x); lia|].
  split; [intros i H; apply Q2; auto|]. split; [intros i H; apply Q3; auto|].
  split; [intros u f g k H; eapply Q4; eauto|].
  split; [intros u k H; specialize (Q5 u k (I _ H)); lia|].
  split; [intros u f g k H; specialize (Q6 u f g k (I _ H)); lia|].
  intros p it H. apply (Q7 p). auto.
Qed.

Lemma wait_item_del : forall p it st q, wait (lv (item_del p it st) q) = wait (lv st q).
Proof.
  intros. unfold item_del.
  destruct (in_jobq it High st); [unfold dec_todo, unlink, upd_level, set_lv; destruct p, q; cbn; reflexivity|].
  destruct (in_jobq it Med st); [unfold dec_todo, unlink, upd_level, set_lv; destruct p, q; cbn; reflexivity|].
  destruct (in_jobq it Low st); [unfold dec_todo, unlink, upd_level, set_lv; destruct p, q; cbn; reflexivity|]. reflexivity.
Qed.

Lemma occ_all_item_del_le : forall x p it st, occ_all x (item_del p it st) <= occ_all x st.
Proof. intros. rewrite occ_all_item_del. destruct (qitem_eqb x it); [destruct (1 <=? _)|]; lia. Qed.

(* qb_loop_level_item_del preserves the invariant *)
Lemma inv_item_del : forall p it st, inv st -> inv (item_del p it st).
Proof.
  intros p it st (I0 & IT & IP & IS & IQ & IG & IR & IRA & IF).
  destruct (item_del_frame p it st) as (T & P & S & U & O & R & F & RA & RN & _).
  unfold inv. rewrite T, P, S, U, R, F.
  split; [exact I0|]. split; [exact IT|]. split; [exact IP|]. split; [exact IS|].
  split; [|split; [|split; [exact IR|split; [|exact IF]]]].
  - apply (inv_q_shrink st); auto; try lia.
    + intros; apply occ_all_item_del_le.
    + intros; eapply in_all_item_del; eauto.
    + intros q x. rewrite wait_item_del. auto.
  - destruct IG as (G1 & G2 & G3). unfold inv_g. rewrite O, U. split; [exact G1|]. split; [|exact G3].
    intros k u Hg Hl. apply (G2 k u Hg).
    eapply (live_shrink st (item_del p it st)); [intros x Hx; eapply in_all_item_del; eauto|exact T|exact P|exact S|exact Hl].
  - unfold rand_ok in *. rewrite RA, RN. exact IRA.
Qed.

(* ------------------------------------------------------------------ what a call may do to the rest of the loop *)
(* a timer being dispatched: JOBLIST, check word cleared, off the heap, off every list *)
Definition tparked (st : state) (i : nat) : Prop :=
  (exists t, nth_error (timers st) i = Some t /\ t_state t = Joblist /\ t_check t = 0 /\ t_exp t = None) /\
  occ_all (QTimer i) st = 0.
(* a poll entry being dispatched: JOBLIST or (deleted from inside) DELETED, same registration, off every list *)
Definition pparked (st : state) (i : nat) (u : Z) : Prop :=
  (exists e, nth_error (polls st) i = Some e /\ p_uid e = u /\ (p_state e = Joblist \/ p_state e = Deleted)) /\
  occ_all (QFd i) st = 0.
Record opframe (st st' : state) : Prop := {
  of_occ : forall x, is_job x = false -> occ_all x st' <= occ_all x st;
  of_tparked : forall i, tparked st i -> tparked st' i;
  of_pparked : forall i u, pparked st i u -> pparked st' i u;
  of_stop : stop st = true -> stop st' = true;
  of_uid : next_uid st <= next_uid st';
  of_out : exists l, out st' = l ++ out st }.
Lemma opframe_refl : forall st, opframe st st.
Proof. intros. constructor; auto; try lia. exists []. reflexivity. Qed.
Lemma opframe_trans : forall a b c, opframe a b -> opframe b c -> opframe a c.
Proof.
  intros a b c [A1 A2 A3 A4 A5 [l1 A6]] [B1 B2 B3 B4 B5 [l2 B6]]. constructor; auto.
  - intros x J. specialize (A1 x J). specialize (B1 x J). lia.
  - lia.
  - exists (l2 ++ l1). rewrite B6, A6. now rewrite app_assoc.
Qed.
(* states that agree on levels, tables, uid counter, stop: frame *)
Lemma opframe_same : forall st st', lv st' = lv st -> timers st' = timers st -> polls st' = polls st ->
  stop st' = stop st -> next_uid st' = next_uid st -> (exists l, out st' = l ++ out st) -> opframe st st'.
Proof.
  intros st st' L T P S U O. constructor; auto; try lia.
  - intros x _. unfold occ_all. rewrite (all_items_lv _ _ L). lia.
  - intros i [A B]. unfold tparked, occ_all. rewrite T, (all_items_lv _ _ L). split; auto.
  - intros i u [A B]. unfold pparked, occ_all. rewrite P, (all_items_lv _ _ L). split; auto.
  - congruence.
Qed.
Lemma opframe_emit : forall e st, opframe st (emit e st).
Proof. intros. apply opframe_same; try reflexivity. exists [e]. reflexivity. Qed.

Lemma opframe_item_del : forall p it st, opframe st (item_del p it st).
Proof.
  intros p it st. destruct (item_del_frame p it st) as (T & P & S & U & O & R & F & RA & RN & _ & _ & ST).
  constructor.
  - intros; apply occ_all_item_del_le.
  - intros i [A B]. unfold tparked. rewrite T. split; [exact A|]. pose proof (occ_all_item_del_le (QTimer i) p it st).
    pose proof (occ_all_nonneg (QTimer i) (item_del p it st)). lia.
  - intros i u [A B]. unfold pparked. rewrite P. split; [exact A|]. pose proof (occ_all_item_del_le (QFd i) p it st).
    pose proof (occ_all_nonneg (QFd i) (item_del p it st)). lia.
  - congruence.
  - lia.
  - exists []. rewrite O. reflexivity.
Qed.

(* ------------------------------------------------------------------ random(): only the stream moves *)
Record sbr (st st' : state) : Prop := {
  sb_lv : lv st' = lv st; sb_timers : timers st' = timers st; sb_polls : polls st' = polls st; sb_sigs : sigs st' = sigs st;
  sb_uid : next_uid st' = next_uid st; sb_out : out st' = out st; sb_regs : regs st' = regs st; sb_fx : fx st' = fx st;
  sb_stop : stop st' = stop st; sb_kset : kset st' = kset st }.
Lemma sbr_refl : forall st, sbr st st. Proof. intros; constructor; reflexivity. Qed.
Lemma sbr_trans : forall a b c, sbr a b -> sbr b c -> sbr a c.
Proof. intros a b c [] []; constructor; congruence. Qed.
Lemma inv_sbr : forall st st', sbr st st' -> rand_ok st' -> inv st -> inv st'.
Proof.
  intros st st' [L T P S U O R F ST K] RO (I0 & IT & IP & IS & IQ & IG & IR & IRA & IF).
  unfold inv. rewrite T, P, S, U, R, F.
  split; [exact I0|]. split; [exact IT|]. split; [exact IP|]. split; [exact IS|].
  split; [|split; [|split; [exact IR|split; [exact RO|exact IF]]]].
  - unfold inv_q, occ_all, live_sig in *. rewrite (all_items_lv _ _ L), T, P, S, U, L. exact IQ.
  - destruct IG as (G1 & G2 & G3). unfold inv_g. rewrite O, U. split; [exact G1|]. split; [|exact G3].
    intros k u Hg Hl. apply (G2 k u Hg). eapply live_same; eauto.
Qed.
Lemma opframe_sbr : forall st st', sbr st st' -> opframe st st'.
Proof. intros st st' []. apply opframe_same; auto. exists []. now rewrite sb_out0. Qed.

Lemma next_random_spec : forall st, rand_ok st ->
  0 < fst (next_random st) /\ rand_ok (snd (next_random st)) /\ sbr st (snd (next_random st)).
Proof.
  intros st [A B]. unfold next_random. destruct (rand st) as [|x r] eqn:E; cbn [fst snd].
  - split; [lia|]. split; [split; [constructor|cbn [randn set_rand]; lia]|constructor; reflexivity].
  - inversion A; subst. split; [assumption|]. split; [split; [assumption|cbn [randn set_rand]; lia]|constructor; reflexivity].
Qed.
Lemma draw_check_spec : forall f c st, rand_ok st -> (f <> O \/ 0 < c) ->
  0 < fst (draw_check f c st) /\ rand_ok (snd (draw_check f c st)) /\ sbr st (snd (draw_check f c st)).
Proof.
  induction f as [|f IH]; intros c st RO H; cbn [draw_check].
  - cbn. split; [destruct H; [congruence|lia]|]. split; [exact RO|apply sbr_refl].
  - destruct (next_random_spec st RO) as (P & RO' & SB). destruct (next_random st) as [r s]. cbn [fst snd] in *.
    destruct (0 <? r) eqn:E; cbn [fst snd]; [auto|]. apply Z.ltb_ge in E. lia.
Qed.
Lemma draw_check_p_spec : forall f c st, rand_ok st ->
  rand_ok (snd (draw_check_p f c st)) /\ sbr st (snd (draw_check_p f c st)).
Proof.
  induction f as [|f IH]; intros c st RO; cbn [draw_check_p].
  - cbn. split; [exact RO|apply sbr_refl].
  - destruct (next_random_spec st RO) as (P & RO' & SB). destruct (next_random st) as [r s]. cbn [fst snd] in *.
    destruct (negb (r =? 0) && negb (r =? TWO32 - 1)); cbn [fst snd]; [auto|].
    destruct (IH r s RO') as [A B]. split; [exact A|eapply sbr_trans; eauto].
Qed.

(* the 200-step draw loops are used through their specifications only *)
Global Opaque draw_check draw_check_p.

(* ------------------------------------------------------------------ taking a fresh uid *)
Lemma inv_bump_uid : forall st, inv st -> inv (set_next_uid (next_uid st + 1) st).
Proof.
  intros st (I0 & IT & IP & IS & IQ & IG & IR & IRA & IF). unfold inv. cbn.
  split; [lia|]. split; [eapply inv_t_mono; eauto; lia|]. split; [eapply inv_p_mono; eauto; lia|].
  split; [eapply inv_s_mono; eauto; lia|]. split; [|split; [|split; [exact IR|split; [exact IRA|exact IF]]]].
  - destruct IQ as (Q1 & Q2 & Q3 & Q4 & Q5 & Q6 & Q7). unfold inv_q. cbn.
    split; [exact Q1|]. split; [exact Q2|]. split; [exact Q3|]. split; [exact Q4|].
    split; [intros u k H; specialize (Q5 u k H); lia|]. split; [intros u f g k H; specialize (Q6 u f g k H); lia|exact Q7].
  - destruct IG as (G1 & G2 & G3). unfold inv_g. cbn. split; [intros k u H; specialize (G1 k u H); lia|]. split; [exact G2|exact G3].
Qed.
Lemma opframe_bump_uid : forall st, opframe st (set_next_uid (next_uid st + 1) st).
Proof.
  intros. constructor.
  - intros; apply Z.le_refl.
  - intros i H; exact H.
  - intros i u H; exact H.
  - auto.
  - cbn; lia.
  - exists []; reflexivity.
Qed.
(* the fresh uid is not on any list, in no table, and not in the log *)
Lemma fresh_not_gone : forall st k, inv st -> ~ gone (out st) k (next_uid st).
Proof.
  intros st k (_ & _ & _ & _ & _ & (G1 & _) & _) [H|[_ H]].
  - specialize (G1 k _ (or_introl H)). lia.
  - specialize (G1 k _ (or_intror H)). lia.
Qed.

(* ------------------------------------------------------------------ generic: lists shrink, everything else stays *)
Record shrinks (st st' : state) : Prop := {
  sh_occ : forall x, occ_all x st' <= occ_all x st;
  sh_in : forall it, In it (all_items st') -> In it (all_items st);
  sh_wait : forall p it, In it (wait (lv st' p)) -> In it (wait (lv st p));
  sh_timers : timers st' = timers st; sh_polls : polls st' = polls st; sh_sigs : sigs st' = sigs st;
  sh_uid : next_uid st' = next_uid st; sh_out : out st' = out st; sh_regs : regs st' = regs st; sh_fx : fx st' = fx st;
  sh_rand : rand st' = rand st; sh_randn : randn st' = randn st; sh_stop : stop st' = stop st }.
Lemma inv_shrinks : forall st st', shrinks st st' -> inv st -> inv st'.
Proof.
  intros st st' [O I W T P S U OU R F RA RN ST] (I0 & IT & IP & IS & IQ & IG & IR & IRA & IF).
  unfold inv. rewrite T, P, S, U, R, F.
  split; [exact I0|]. split; [exact IT|]. split; [exact IP|]. split; [exact IS|].
  split; [|split; [|split; [exact IR|split; [|exact IF]]]].
  - apply (inv_q_shrink st); auto; lia.
  - destruct IG as (G1 & G2 & G3). unfold inv_g. rewrite OU, U. split; [exact G1|]. split; [|exact G3].
    intros k u Hg Hl. apply (G2 k u Hg). eapply (live_shrink st st'); eauto.
  - unfold rand_ok in *. rewrite RA, RN. exact IRA.
Qed.
Lemma opframe_shrinks : forall st st', shrinks st st' -> opframe st st'.
Proof.
  intros st st' [O I W T P S U OU R F RA RN ST]. constructor.
  - intros x _. apply O.
  - intros i [A B]. unfold tparked. rewrite T. split; [exact A|]. pose proof (O (QTimer i)). pose proof (occ_all_nonneg (QTimer i) st'). lia.
  - intros i u [A B]. unfold pparked. rewrite P. split; [exact A|]. pose proof (O (QFd i)). pose proof (occ_all_nonneg (QFd i) st'). lia.
  - congruence.
  - lia.
  - exists []. rewrite OU. reflexivity.
Qed.
Lemma shrinks_item_del : forall p it st, shrinks st (item_del p it st).
Proof.
  intros p it st. destruct (item_del_frame p it st) as (T & P & S & U & O & R & F & RA & RN & _ & _ & ST).
  constructor; auto.
  - intros; apply occ_all_item_del_le.
  - intros; eapply in_all_item_del; eauto.
  - intros q x. rewrite wait_item_del. auto.
Qed.

(* ------------------------------------------------------------------ logging a removal / an invocation *)
Lemma inv_emit_del : forall k u st, inv st -> u < next_uid st -> ~ live st k u -> inv (emit (EvDel k u) st).
Proof.
  intros k u st (I0 & IT & IP & IS & IQ & IG & IR & IRA & IF) U NL. unfold inv. cbn.
  split; [exact I0|]. split; [exact IT|]. split; [exact IP|]. split; [exact IS|]. split; [exact IQ|].
  split; [|split; [assumption|split; assumption]].
  destruct IG as (G1 & G2 & G3). split; [|split].
  - intros k' u' [[H|H]|[H|H]]; try discriminate H; try (inversion H; subst; exact U); apply (G1 k' u'); auto.
  - intros k' u' [[H|H]|[K [H|H]]].
    + inversion H; subst. exact NL.
    + apply G2. left. exact H.
    + discriminate H.
    + apply G2. right. auto.
  - cbn. auto.
Qed.
Lemma inv_emit_inv : forall k u st, inv st -> u < next_uid st -> ~ gone (out st) k u -> ((k = 0 \/ k = 1) -> ~ live st k u) ->
  inv (emit (EvInv k u) st).
Proof.
  intros k u st (I0 & IT & IP & IS & IQ & IG & IR & IRA & IF) U NG NL. unfold inv. cbn.
  split; [exact I0|]. split; [exact IT|]. split; [exact IP|]. split; [exact IS|]. split; [exact IQ|].
  split; [|split; [assumption|split; assumption]].
  destruct IG as (G1 & G2 & G3). split; [|split].
  - intros k' u' [[H|H]|[H|H]]; try discriminate H; try (inversion H; subst; exact U); apply (G1 k' u'); auto.
  - intros k' u' [[H|H]|[K [H|H]]].
    + discriminate H.
    + apply G2. left. exact H.
    + inversion H; subst. apply NL. exact K.
    + apply G2. right. auto.
  - cbn. auto.
Qed.

(* emit commutes with the list primitives *)
Lemma item_del_emit : forall p it e st, item_del p it (emit e st) = emit e (item_del p it st).
Proof.
  intros. unfold item_del. change (in_jobq it High (emit e st)) with (in_jobq it High st).
  change (in_jobq it Med (emit e st)) with (in_jobq it Med st). change (in_jobq it Low (emit e st)) with (in_jobq it Low st).
  destruct (in_jobq it High st); [reflexivity|]. destruct (in_jobq it Med st); [reflexivity|].
  destruct (in_jobq it Low st); reflexivity.
Qed.
Lemma upd_level_emit : forall p f e st, upd_level p f (emit e st) = emit e (upd_level p f st).
Proof. reflexivity. Qed.

(* ------------------------------------------------------------------ qb_loop_job_add *)
Lemma in_all_wait_push : forall y p it st,
  In y (all_items (upd_level p (fun l => {| wait := wait l ++ [it]; jobq := jobq l; todo := todo l |}) st)) <->
  In y (all_items st) \/ y = it.
Proof.
  intros. split.
  - intros H. apply in_all_upd_level in H. cbn in H. rewrite in_app_iff in H. cbn in H.
    destruct H as [H|[H|[H|[H|[]]]]]; auto; left; apply in_all_items; exists p; auto.
  - intros [H| ->].
    + apply in_all_upd_level_keep; auto. cbn. intros. apply in_or_app. auto.
    + apply in_all_items. exists p. right. unfold upd_level, set_lv. cbn.
      rewrite (proj2 (prio_eqb_eq p p) eq_refl). cbn. apply in_or_app. cbn. auto.
Qed.
Lemma occ_all_wait_push : forall x p it st,
  occ_all x (upd_level p (fun l => {| wait := wait l ++ [it]; jobq := jobq l; todo := todo l |}) st) =
  occ_all x st + (if qitem_eqb x it then 1 else 0).
Proof. intros. rewrite occ_all_upd_level. cbn. rewrite occ_app. cbn. lia. Qed.

Lemma inv_wait_push : forall p u key st, inv st -> u < next_uid st -> occ_all (QJob u key) st = 0 -> ~ gone (out st) 0 u ->
  inv (upd_level p (fun l => {| wait := wait l ++ [QJob u key]; jobq := jobq l; todo := todo l |}) st).
Proof.
  intros p u key st (I0 & IT & IP & IS & IQ & IG & IR & IRA & IF) U Z NG.
  set (st' := upd_level p _ st).
  unfold inv. change (timers st') with (timers st). change (polls st') with (polls st). change (sigs st') with (sigs st).
  change (next_uid st') with (next_uid st). change (regs st') with (regs st). change (fx st') with (fx st).
  split; [exact I0|]. split; [exact IT|]. split; [exact IP|]. split; [exact IS|].
  split; [|split; [|split; [exact IR|split; [exact IRA|exact IF]]]].
  - destruct IQ as (Q1 & Q2 & Q3 & Q4 & Q5 & Q6 & Q7). unfold inv_q.
    change (timers st') with (timers st). change (polls st') with (polls st). change (next_uid st') with (next_uid st).
    split; [|split; [|split; [|split; [|split; [|split]]]]].
    + intros x. unfold st'. rewrite occ_all_wait_push. destruct (qitem_eqb x (QJob u key)) eqn:E.
      * unfold occ_all in *. rewrite (occ_eqb x (QJob u key) (all_items st) E). lia.
      * specialize (Q1 x). lia.
    + intros i H. apply in_all_wait_push in H. destruct H as [H|H]; [auto|discriminate].
    + intros i H. apply in_all_wait_push in H. destruct H as [H|H]; [auto|discriminate].
    + intros a f g k H. apply in_all_wait_push in H. destruct H as [H|H]; [|discriminate]. exact (Q4 a f g k H).
    + intros a k H. apply in_all_wait_push in H. destruct H as [H|H]; [eauto|]. inversion H; subst. exact U.
    + intros a f g k H. apply in_all_wait_push in H. destruct H as [H|H]; [eauto|discriminate].
    + intros q it H. unfold st', upd_level, set_lv in H. cbn in H. destruct (prio_eqb q p) eqn:E; [|eauto].
      cbn in H. apply in_app_or in H. destruct H as [H|[<-|[]]]; [eauto|]. apply prio_eqb_eq in E; subst. eauto.
  - destruct IG as (G1 & G2 & G3). unfold inv_g. change (out st') with (out st). change (next_uid st') with (next_uid st).
    split; [exact G1|]. split; [|exact G3].
    intros k a Hg Hl. destruct Hl as [[K (key' & H)]|[[K (i & t & A & B & C)]|[[K H]|[K H]]]].
    + apply in_all_wait_push in H. destruct H as [H|H].
      * apply (G2 k a Hg). left. split; [exact K|]. exists key'. exact H.
      * inversion H; subst. exact (NG Hg).
    + apply (G2 k a Hg). right; left. split; [exact K|]. exists i, t. split; [exact A|]. split; [exact B|].
      destruct C as [C|[C D]]; [auto|]. right. split; [exact C|]. apply in_all_wait_push in D. destruct D as [D|D]; [exact D|discriminate].
    + apply (G2 k a Hg). right; right; left. auto.
    + apply (G2 k a Hg). right; right; right. auto.
Qed.

Lemma fresh_job_absent : forall st key, inv st -> occ_all (QJob (next_uid st) key) st = 0.
Proof.
  intros st key (_ & _ & _ & _ & (_ & _ & _ & _ & Q5 & _) & _).
  pose proof (occ_all_nonneg (QJob (next_uid st) key) st).
  destruct (Z.eq_dec (occ_all (QJob (next_uid st) key) st) 0); [auto|].
  destruct (occ_all_in (QJob (next_uid st) key) st ltac:(lia)) as (it & A & B).
  destruct it; cbn in B; try discriminate. apply Z.eqb_eq in B. subst. specialize (Q5 _ _ A). lia.
Qed.

Lemma job_add_ok : forall p key st, inv st -> inv (snd (job_add p key st)) /\ opframe st (snd (job_add p key st)).
Proof.
  intros p key st I. unfold job_add, fresh_uid. cbn [snd].
  set (n := next_uid st). set (s1 := set_next_uid (n + 1) st).
  assert (I1 : inv s1) by (apply inv_bump_uid; exact I).
  assert (I2 : inv (emit (EvAdd 0 n p) s1)) by (apply inv_emit_neutral; [exact Logic.I|exact I1]).
  split.
  - apply inv_wait_push; [exact I2|cbn; lia| |].
    + change (occ_all (QJob n key) (emit (EvAdd 0 n p) s1)) with (occ_all (QJob n key) st). apply fresh_job_absent. exact I.
    + cbn [out emit set_out]. intros Hg. apply (gone_neutral (EvAdd 0 n p)) in Hg; [|exact Logic.I].
      exact (fresh_not_gone st 0 I Hg).
  - apply (opframe_trans st s1); [apply opframe_bump_uid|]. apply (opframe_trans s1 (emit (EvAdd 0 n p) s1)); [apply opframe_emit|].
    constructor.
    + intros x J. rewrite occ_all_wait_push. destruct (qitem_eqb x (QJob n key)) eqn:E; [|lia].
      apply eqb_job in E. cbn in E. congruence.
    + intros i [A B]. split; [exact A|]. rewrite occ_all_wait_push. cbn [qitem_eqb]. lia.
    + intros i u [A B]. split; [exact A|]. rewrite occ_all_wait_push. cbn [qitem_eqb]. lia.
    + auto.
    + cbn. lia.
    + exists []. reflexivity.
Qed.

(* ------------------------------------------------------------------ qb_loop_job_del *)
Lemma occ_remove_first_gen : forall f x l y r, remove_first f l = Some (y, r) ->
  occ x r = occ x l - (if qitem_eqb x y then 1 else 0) /\ (forall it, In it r -> In it l) /\ In y l /\ f y = true.
Proof.
  intros f x l y r H. apply remove_first_spec in H. destruct H as (l1 & l2 & -> & -> & F & _).
  split; [rewrite !occ_app; cbn; lia|]. split; [|split; [apply in_or_app; cbn; auto|exact F]].
  intros it Hin. apply in_app_or in Hin. apply in_or_app. cbn. tauto.
Qed.
Lemma is_job_key_job : forall key it, is_job_key key it = true -> exists u k, it = QJob u k.
Proof. destruct it; cbn; try discriminate. eauto. Qed.

(* no job with this uid is left once the one occurrence is gone *)
Lemma job_not_live : forall st u k, occ_all (QJob u k) st <= 0 -> ~ live st 0 u.
Proof.
  intros st u k H [[_ (key' & Hin)]|[[K _]|[[K _]|[K _]]]]; try discriminate K.
  apply in_occ_all in Hin. unfold occ_all in *.
  rewrite (occ_eqb (QJob u key') (QJob u k) (all_items st)) in Hin by (cbn; apply Z.eqb_refl). lia.
Qed.

Lemma job_del_ok : forall p key st, inv st -> inv (snd (job_del p key st)) /\ opframe st (snd (job_del p key st)).
Proof.
  intros p key st I. unfold job_del.
  destruct (remove_first (is_job_key key) (wait (lv st p))) as [[it r]|] eqn:R.
  - (* found on the wait list *)
    cbn [snd]. destruct (occ_remove_first_gen _ it _ _ _ R) as (_ & _ & Hin & Fk).
    destruct (is_job_key_job _ _ Fk) as (u & k & ->). cbn [item_uid].
    rewrite upd_level_emit.
    set (s1 := upd_level p (fun l => {| wait := r; jobq := jobq l; todo := todo l |}) st).
    assert (SH : shrinks st s1).
    { constructor; try reflexivity.
      - intros x. unfold s1. rewrite occ_all_upd_level. cbn [jobq wait].
        destruct (occ_remove_first_gen _ x _ _ _ R) as (E & _). rewrite E. destruct (qitem_eqb x (QJob u k)); lia.
      - intros y H. unfold s1 in H. apply in_all_upd_level in H. cbn [jobq wait] in H.
        destruct (occ_remove_first_gen _ y _ _ _ R) as (_ & Sub & _).
        destruct H as [H|[H|H]]; auto; apply in_all_items; exists p; auto.
      - intros q y H. unfold s1, upd_level, set_lv in H. cbn in H. destruct (prio_eqb q p) eqn:E; [|exact H].
        apply prio_eqb_eq in E; subst. cbn in H. destruct (occ_remove_first_gen _ y _ _ _ R) as (_ & Sub & _). auto. }
    assert (I1 : inv s1) by (eapply inv_shrinks; eauto).
    assert (Hall : In (QJob u k) (all_items st)) by (apply in_all_items; exists p; auto).
    assert (U : u < next_uid st) by (destruct I as (_ & _ & _ & _ & (_ & _ & _ & _ & Q5 & _) & _); eauto).
    assert (Z0 : occ_all (QJob u k) s1 <= 0).
    { unfold s1. rewrite occ_all_upd_level. cbn [jobq wait].
      destruct (occ_remove_first_gen _ (QJob u k) _ _ _ R) as (E & _). rewrite E. rewrite qitem_eqb_refl.
      destruct I as (_ & _ & _ & _ & (Q1 & _) & _). specialize (Q1 (QJob u k)). lia. }
    split.
    + apply inv_emit_del; [exact I1|exact U|]. eapply job_not_live; eauto.
    + apply (opframe_trans st s1); [apply opframe_shrinks; exact SH|apply opframe_emit].
  - destruct (find (is_job_key key) (jobq (lv st p))) as [it|] eqn:Fd; cbn [snd]; [|split; [exact I|apply opframe_refl]].
    apply find_some in Fd. destruct Fd as [Hin Fk]. destruct (is_job_key_job _ _ Fk) as (u & k & ->). cbn [item_uid].
    rewrite item_del_emit.
    set (s1 := item_del p (QJob u k) st).
    assert (I1 : inv s1) by (apply inv_item_del; exact I).
    assert (Hall : In (QJob u k) (all_items st)) by (apply in_all_items; exists p; auto).
    assert (U : u < next_uid st) by (destruct I as (_ & _ & _ & _ & (_ & _ & _ & _ & Q5 & _) & _); eauto).
    assert (Z0 : occ_all (QJob u k) s1 <= 0).
    { unfold s1. rewrite occ_all_item_del. rewrite qitem_eqb_refl.
      assert (1 <= occ (QJob u k) (jobq (lv st p))) by (eapply occ_in; eauto; apply qitem_eqb_refl).
      pose proof (occ_nonneg (QJob u k) (jobq (lv st High))). pose proof (occ_nonneg (QJob u k) (jobq (lv st Med))).
      pose proof (occ_nonneg (QJob u k) (jobq (lv st Low))).
      replace (1 <=? _) with true; [|symmetry; apply Z.leb_le; destruct p; lia].
      destruct I as (_ & _ & _ & _ & (Q1 & _) & _). specialize (Q1 (QJob u k)). lia. }
    split.
    + apply inv_emit_del; [exact I1|unfold s1; rewrite (sh_uid _ _ (shrinks_item_del p (QJob u k) st)); exact U|]. eapply job_not_live; eauto.
    + apply (opframe_trans st s1); [apply opframe_item_del|apply opframe_emit].
Qed.

(* ------------------------------------------------------------------ changes to the timer table *)
Lemma live_change_timers : forall st st' (P : Z -> Prop),
  all_items st' = all_items st -> polls st' = polls st -> sigs st' = sigs st ->
  (forall a, live_timer st' a -> live_timer st a \/ P a) ->
  forall k a, live st' k a -> live st k a \/ (k = 1 /\ P a).
Proof.
  intros st st' P A Pl S H k a [[K L]|[[K L]|[[K L]|[K L]]]].
  - left. left. split; [exact K|]. unfold live_job in *. rewrite A in L. exact L.
  - destruct (H a L) as [L'|L']; [left; right; left; auto|right; auto].
  - left. right; right; left. split; [exact K|]. unfold live_fd in *. rewrite Pl in L. exact L.
  - left. right; right; right. split; [exact K|]. unfold live_sig in *. rewrite S in L. exact L.
Qed.

(* the parts of the invariant that do not read the timer table *)
Lemma inv_set_timers : forall ts st, inv st ->
  inv_t ts (next_uid st) ->
  (forall i, In (QTimer i) (all_items st) -> exists t, nth_error ts i = Some t /\ t_state t = Joblist) ->
  (forall a, live_timer (set_timers ts st) a -> live_timer st a \/ ~ gone (out st) 1 a) ->
  inv (set_timers ts st).
Proof.
  intros ts st (I0 & IT & IP & IS & IQ & IG & IR & IRA & IF) NT NQ NL. unfold inv.
  change (next_uid (set_timers ts st)) with (next_uid st). change (polls (set_timers ts st)) with (polls st).
  change (sigs (set_timers ts st)) with (sigs st). change (regs (set_timers ts st)) with (regs st).
  change (fx (set_timers ts st)) with (fx st). change (timers (set_timers ts st)) with ts.
  split; [exact I0|]. split; [exact NT|]. split; [exact IP|]. split; [exact IS|].
  split; [|split; [|split; [exact IR|split; [exact IRA|exact IF]]]].
  - destruct IQ as (Q1 & Q2 & Q3 & Q4 & Q5 & Q6 & Q7). unfold inv_q.
    split; [exact Q1|]. split; [exact NQ|]. split; [exact Q3|]. split; [exact Q4|]. split; [exact Q5|]. split; [exact Q6|exact Q7].
  - destruct IG as (G1 & G2 & G3). split; [exact G1|]. split; [|exact G3].
    intros k a Hg Hl.
    destruct (live_change_timers st (set_timers ts st) (fun a => ~ gone (out st) 1 a) eq_refl eq_refl eq_refl NL k a Hl) as [H|[K H]].
    + exact (G2 k a Hg H).
    + subst k. exact (H Hg).
Qed.
Lemma opframe_set_timers : forall ts st,
  (forall i, tparked st i -> tparked (set_timers ts st) i) -> opframe st (set_timers ts st).
Proof.
  intros ts st H. constructor.
  - intros; apply Z.le_refl.
  - exact H.
  - intros i u P. exact P.
  - intros S; exact S.
  - cbn; lia.
  - exists []. reflexivity.
Qed.

(* growing the table by a zeroed slot *)
Lemma inv_timers_grow : forall st, inv st -> inv (set_timers (timers st ++ [tslot_zero]) st).
Proof.
  intros st I. pose proof I as (I0 & (T1 & T2 & T3) & _ & _ & (_ & Q2 & _) & _).
  apply inv_set_timers; [exact I| | |].
  - split; [|split].
    + intros i t H. apply nth_error_app_new in H. destruct H as [H|[_ ->]]; [apply (T1 _ _ H)|cbn; split; congruence].
    + intros i t H. apply nth_error_app_new in H. destruct H as [H|[_ ->]]; [eauto|cbn; lia].
    + intros i j ti tj Hi Hj Si Sj E. apply nth_error_app_new in Hi. apply nth_error_app_new in Hj.
      destruct Hi as [Hi|[_ ->]]; [|cbn in Si; congruence]. destruct Hj as [Hj|[_ ->]]; [|cbn in Sj; congruence]. eauto.
  - intros i H. destruct (Q2 i H) as (t & A & B). exists t. split; [|exact B].
    rewrite nth_error_app1; [exact A|]. apply nth_error_Some. congruence.
  - intros a (i & t & A & B & C). left. cbn in A. apply nth_error_app_new in A. destruct A as [A|[_ ->]].
    + exists i, t. auto.
    + cbn in C. destruct C as [C|[C _]]; discriminate.
Qed.
Lemma tparked_grow : forall st i, tparked st i -> tparked (set_timers (timers st ++ [tslot_zero]) st) i.
Proof.
  intros st i [(t & A & B) C]. split; [|exact C]. exists t. split; [|exact B]. cbn.
  rewrite nth_error_app1; [exact A|]. apply nth_error_Some. congruence.
Qed.

(* a slot whose state, uid and heap entry stay (e.g. only the check word changes) *)
Lemma inv_timer_touch : forall i g st, inv st ->
  (forall t, t_state (g t) = t_state t /\ t_uid (g t) = t_uid t /\ t_exp (g t) = t_exp t) ->
  inv (set_timers (upd_nth i g (timers st)) st).
Proof.
  intros i g st I G. pose proof I as (I0 & (T1 & T2 & T3) & _ & _ & (_ & Q2 & _) & _).
  assert (N : forall j t', nth_error (upd_nth i g (timers st)) j = Some t' ->
              exists t, nth_error (timers st) j = Some t /\ t_state t' = t_state t /\ t_uid t' = t_uid t /\ t_exp t' = t_exp t).
  { intros j t' H. rewrite nth_upd_nth in H. destruct (Nat.eqb i j).
    - destruct (nth_error (timers st) j) as [t|]; [|discriminate]. cbn in H. inversion H; subst. exists t. split; [reflexivity|apply G].
    - exists t'. auto. }
  apply inv_set_timers; [exact I| | |].
  - split; [|split].
    + intros j t' H. destruct (N j t' H) as (t & A & B & C & D). rewrite B, D. apply (T1 j t A).
    + intros j t' H. destruct (N j t' H) as (t & A & B & C & D). rewrite C. eauto.
    + intros a b ta tb Ha Hb Sa Sb E. destruct (N a ta Ha) as (t1 & A1 & B1 & C1 & D1). destruct (N b tb Hb) as (t2 & A2 & B2 & C2 & D2).
      apply (T3 a b t1 t2); congruence.
  - intros j H. destruct (Q2 j H) as (t & A & B). rewrite nth_upd_nth. rewrite A. destruct (Nat.eqb i j); cbn.
    + exists (g t). split; [reflexivity|]. destruct (G t) as (E & _). congruence.
    + exists t. auto.
  - intros a (j & t' & A & B & C). left. cbn in A. destruct (N j t' A) as (t & A1 & B1 & C1 & D1).
    exists j, t. split; [exact A1|]. split; [congruence|]. rewrite <- B1. exact C.
Qed.

(* slot i leaves the game: EMPTY, no heap entry; it must be on no list *)
Lemma inv_timer_clear : forall i g st, inv st -> occ_all (QTimer i) st = 0 ->
  (forall t, nth_error (timers st) i = Some t -> t_state (g t) = Empty /\ t_uid (g t) = t_uid t /\ t_exp (g t) = None) ->
  inv (set_timers (upd_nth i g (timers st)) st) /\
  (forall t, nth_error (timers st) i = Some t -> t_state t <> Empty -> ~ live (set_timers (upd_nth i g (timers st)) st) 1 (t_uid t)).
Proof.
  intros i g st I Z G. pose proof I as (I0 & (T1 & T2 & T3) & _ & _ & (_ & Q2 & _) & _).
  assert (N : forall j t', nth_error (upd_nth i g (timers st)) j = Some t' ->
              (j <> i /\ nth_error (timers st) j = Some t') \/
              (j = i /\ exists t, nth_error (timers st) i = Some t /\ t' = g t)).
  { intros j t' H. rewrite nth_upd_nth in H. destruct (Nat.eqb i j) eqn:E.
    - apply Nat.eqb_eq in E; subst. destruct (nth_error (timers st) j) as [t|]; [|discriminate]. cbn in H. inversion H; subst.
      right. split; [reflexivity|]. exists t. auto.
    - apply Nat.eqb_neq in E. left. split; [congruence|exact H]. }
  split.
  - apply inv_set_timers; [exact I| | |].
    + split; [|split].
      * intros j t' H. destruct (N j t' H) as [[_ A]|[_ (t & A & ->)]]; [apply (T1 _ _ A)|]. destruct (G t A) as (X1 & _ & X3). rewrite X1, X3. split; congruence.
      * intros j t' H. destruct (N j t' H) as [[_ A]|[_ (t & A & ->)]]; [eauto|]. destruct (G t A) as (_ & X & _). rewrite X. eauto.
      * intros a b ta tb Ha Hb Sa Sb E.
        destruct (N a ta Ha) as [[Na A]|[_ (t & A & ->)]]; [|destruct (G t A) as (X & _); congruence].
        destruct (N b tb Hb) as [[Nb B]|[_ (t & B & ->)]]; [|destruct (G t B) as (X & _); congruence]. eauto.
    + intros j H. destruct (Q2 j H) as (t & A & B). assert (j <> i) by (intros ->; apply in_occ_all in H; lia).
      exists t. split; [|exact B]. rewrite nth_upd_nth_other; auto.
    + intros a (j & t' & A & B & C). left. cbn in A. destruct (N j t' A) as [[_ A1]|[_ (t & A1 & ->)]].
      * exists j, t'. auto.
      * destruct (G t A1) as (X & _). destruct C as [C|[C _]]; congruence.
  - intros t Hn Hs [[K _]|[[_ (j & t' & A & B & C)]|[[K _]|[K _]]]]; try discriminate K.
    cbn in A. destruct (N j t' A) as [[Nj A1]|[_ (t0 & A1 & ->)]].
    + apply Nj. apply (T3 j i t' t A1 Hn); [destruct C as [C|[C _]]; congruence|exact Hs|exact B].
    + destruct (G t0 A1) as (X & _). destruct C as [C|[C _]]; congruence.
Qed.

(* ------------------------------------------------------------------ qb_loop_timer_add *)
Lemma inv_set_regs : forall rs st, inv st -> inv_r rs -> inv (set_regs rs st).
Proof.
  intros rs st (I0 & IT & IP & IS & IQ & IG & IR & IRA & IF) R. unfold inv. cbn.
  split; [exact I0|]. split; [exact IT|]. split; [exact IP|]. split; [exact IS|]. split; [exact IQ|].
  split; [exact IG|]. split; [exact R|]. split; [exact IRA|exact IF].
Qed.
Lemma inv_r_assoc_set : forall rs r h, inv_r rs -> (h = 0 \/ 0 < h / TWO32) -> inv_r (assoc_set r h rs).
Proof.
  induction rs as [|[a w] rs IH]; intros r h I H; cbn.
  - intros r' h' [E|[]]. inversion E; subst. exact H.
  - destruct (a =? r).
    + intros r' h' [E|E]; [inversion E; subst; exact H|]. apply (I r' h'). right. exact E.
    + intros r' h' [E|E]; [apply (I r' h'); left; exact E|].
      assert (I' : inv_r rs) by (intros x y Hx; apply (I x y); right; exact Hx).
      exact (IH r h I' H r' h' E).
Qed.
Lemma inv_r_assoc : forall rs r, inv_r rs -> assoc r rs = 0 \/ 0 < assoc r rs / TWO32.
Proof.
  induction rs as [|[a w] rs IH]; intros r I; cbn; [left; reflexivity|].
  destruct (a =? r).
  - apply (I a w). left. reflexivity.
  - apply IH. intros x y Hx. apply (I x y). right. exact Hx.
Qed.

Lemma inv_timer_activate : forall i tnew t0 st, inv st ->
  nth_error (timers st) i = Some t0 -> t_state t0 = Empty ->
  t_state tnew = Active -> t_exp tnew <> None -> t_uid tnew < next_uid st ->
  (forall j t, nth_error (timers st) j = Some t -> t_uid t < t_uid tnew) ->
  ~ gone (out st) 1 (t_uid tnew) ->
  inv (set_timers (upd_nth i (fun _ => tnew) (timers st)) st).
Proof.
  intros i tnew t0 st I Hn He Ha Hx Hu Hf Hg. pose proof I as (I0 & (T1 & T2 & T3) & _ & _ & (_ & Q2 & _) & _).
  assert (N : forall j t', nth_error (upd_nth i (fun _ => tnew) (timers st)) j = Some t' ->
              (j <> i /\ nth_error (timers st) j = Some t') \/ (j = i /\ t' = tnew)).
  { intros j t' H. rewrite nth_upd_nth in H. destruct (Nat.eqb i j) eqn:E.
    - apply Nat.eqb_eq in E; subst. rewrite Hn in H. cbn in H. inversion H; subst. right. auto.
    - apply Nat.eqb_neq in E. left. split; [congruence|exact H]. }
  apply inv_set_timers; [exact I| | |].
  - split; [|split].
    + intros j t' H. destruct (N j t' H) as [[_ A]|[_ ->]]; [apply (T1 _ _ A)|split; intros _; assumption].
    + intros j t' H. destruct (N j t' H) as [[_ A]|[_ ->]]; [eauto|exact Hu].
    + intros a b ta tb Ha' Hb Sa Sb E.
      destruct (N a ta Ha') as [[Na A]|[-> ->]]; destruct (N b tb Hb) as [[Nb B]|[-> ->]]; auto.
      * eauto.
      * specialize (Hf a ta A). lia.
      * specialize (Hf b tb B). lia.
  - intros j H. destruct (Q2 j H) as (t & A & B). assert (j <> i) by (intros ->; congruence).
    exists t. split; [|exact B]. rewrite nth_upd_nth_other; auto.
  - intros a (j & t' & A & B & C). cbn in A. destruct (N j t' A) as [[_ A1]|[_ ->]].
    + left. exists j, t'. auto.
    + right. subst a. exact Hg.
Qed.

Lemma timer_slot_spec : forall st, inv st ->
  inv (snd (timer_slot st)) /\ opframe st (snd (timer_slot st)) /\ sbr st (set_timers (timers st) (snd (timer_slot st))) /\
  exists t0, nth_error (timers (snd (timer_slot st))) (fst (timer_slot st)) = Some t0 /\ t_state t0 = Empty.
Proof.
  intros st I. unfold timer_slot. destruct (find_idx _ (timers st)) as [i|] eqn:F; cbn [fst snd].
  - split; [exact I|]. split; [apply opframe_refl|]. split; [constructor; reflexivity|].
    apply find_idx_some in F. destruct F as (t0 & A & B). exists t0. split; [exact A|]. destruct (t_state t0); cbn in B; congruence.
  - split; [apply inv_timers_grow; exact I|]. split; [apply opframe_set_timers; apply tparked_grow|].
    split; [constructor; reflexivity|]. exists tslot_zero. split; [|reflexivity]. cbn. rewrite nth_error_app2 by lia.
    now rewrite Nat.sub_diag.
Qed.

Lemma timer_add_ok : forall p d k r st, inv st -> inv (snd (timer_add p d k r st)) /\ opframe st (snd (timer_add p d k r st)).
Proof.
  intros p d k r st I. unfold timer_add.
  destruct (timer_slot_spec st I) as (I1 & F1 & _ & (t0 & N0 & E0)). destruct (timer_slot st) as [i s1]. cbn [fst snd] in *.
  unfold fresh_uid. set (n := next_uid s1). set (s2 := set_next_uid (n + 1) s1).
  assert (I2 : inv s2) by (apply inv_bump_uid; exact I1).
  assert (RO2 : rand_ok s2) by (destruct I2 as (_ & _ & _ & _ & _ & _ & _ & X & _); exact X).
  assert (NZ : (200 <> 0)%nat) by discriminate.
  destruct (draw_check_spec 200 0 s2 RO2 (or_introl NZ)) as (C0 & RO3 & SB3).
  destruct (draw_check 200 0 s2) as [c s3]. cbn [fst snd] in *.
  assert (I3 : inv s3) by (eapply inv_sbr; eauto).
  set (s4 := emit (EvAdd 1 n p) s3).
  assert (I4 : inv s4) by (apply inv_emit_neutral; [exact Logic.I|exact I3]).
  match goal with |- context [upd_nth i (fun _ => ?t) _] => set (tnew := t) end.
  assert (T4 : timers s4 = timers s1) by (cbn; rewrite (sb_timers _ _ SB3); reflexivity).
  assert (U4 : next_uid s4 = n + 1) by (cbn; rewrite (sb_uid _ _ SB3); reflexivity).
  set (s5 := set_timers (upd_nth i (fun _ => tnew) (timers s4)) s4).
  assert (I5 : inv s5).
  { apply (inv_timer_activate i tnew t0 s4 I4).
    - rewrite T4. exact N0.
    - exact E0.
    - reflexivity.
    - cbn. discriminate.
    - rewrite U4. cbn. lia.
    - intros j t H. rewrite T4 in H. destruct I1 as (_ & (_ & X & _) & _). cbn. apply (X j t H).
    - cbn [out emit set_out s4 tnew t_uid]. intros Hg. apply (gone_neutral (EvAdd 1 n p)) in Hg; [|exact Logic.I].
      rewrite (sb_out _ _ SB3) in Hg. change (out s2) with (out s1) in Hg. exact (fresh_not_gone s1 1 I1 Hg). }
  cbn [snd]. split.
  - apply inv_set_regs; [exact I5|]. apply inv_r_assoc_set.
    + destruct I5 as (_ & _ & _ & _ & _ & _ & X & _). exact X.
    + right. rewrite Z.div_add_l by (unfold TWO32; lia).
      assert (0 <= Z.of_nat i / TWO32) by (apply Z.div_pos; [lia|unfold TWO32; lia]). lia.
  - apply (opframe_trans st s1); [exact F1|]. apply (opframe_trans s1 s2); [apply opframe_bump_uid|].
    apply (opframe_trans s2 s3); [apply opframe_sbr; exact SB3|]. apply (opframe_trans s3 s4); [apply opframe_emit|].
    apply (opframe_trans s4 s5).
    + apply opframe_set_timers. intros j [(t & A & B & C) D]. split; [|exact D]. exists t. split; [|auto].
      assert (j <> i) by (intros ->; rewrite T4, N0 in A; inversion A; subst; congruence).
      cbn. rewrite nth_upd_nth_other; auto.
    + apply opframe_same; try reflexivity. exists []. reflexivity.
Qed.

(* ------------------------------------------------------------------ qb_loop_timer_del *)
Lemma timer_from_handle_spec : forall h st i t, timer_from_handle h st = Some (i, t) ->
  nth_error (timers st) i = Some t /\ t_check t = h / TWO32 /\ h <> 0.
Proof.
  intros h st i t. unfold timer_from_handle. destruct (h =? 0) eqn:E; [discriminate|]. apply Z.eqb_neq in E.
  destruct (h / TWO32 =? 0); [discriminate|].
  destruct (nth_error (timers st) _) as [t'|] eqn:N; [|discriminate].
  destruct (t_check t' =? h / TWO32) eqn:C; [|discriminate]. intros H; inversion H; subst.
  apply Z.eqb_eq in C. auto.
Qed.

Lemma timer_del_ok : forall h st, inv st -> (h = 0 \/ 0 < h / TWO32) ->
  inv (snd (timer_del h st)) /\ opframe st (snd (timer_del h st)).
Proof.
  intros h st I Hh. unfold timer_del.
  destruct (timer_from_handle h st) as [[i t]|] eqn:TF; [|split; [exact I|apply opframe_refl]].
  apply timer_from_handle_spec in TF. destruct TF as (N & C & H0).
  assert (CP : 0 < t_check t) by (destruct Hh; [contradiction|lia]).
  assert (Common : forall s1, shrinks st s1 -> occ_all (QTimer i) s1 = 0 -> t_state t <> Empty ->
     let g := fun t => {| t_state := Empty; t_check := t_check t; t_p := t_p t; t_key := t_key t; t_uid := t_uid t; t_exp := None |} in
     inv (set_timers (upd_nth i g (timers (emit (EvDel 1 (t_uid t)) s1))) (emit (EvDel 1 (t_uid t)) s1)) /\
     opframe st (set_timers (upd_nth i g (timers (emit (EvDel 1 (t_uid t)) s1))) (emit (EvDel 1 (t_uid t)) s1))).
  { intros s1 SH Z NE g.
    assert (I1 : inv s1) by (eapply inv_shrinks; eauto).
    assert (T1 : timers s1 = timers st) by (apply (sh_timers _ _ SH)).
    destruct (inv_timer_clear i g s1 I1 Z (fun t _ => conj eq_refl (conj eq_refl eq_refl))) as [I2 NL].
    change (set_timers (upd_nth i g (timers (emit (EvDel 1 (t_uid t)) s1))) (emit (EvDel 1 (t_uid t)) s1))
      with (emit (EvDel 1 (t_uid t)) (set_timers (upd_nth i g (timers s1)) s1)).
    split.
    - apply inv_emit_del; [exact I2| |].
      + cbn. rewrite (sh_uid _ _ SH). destruct I as (_ & (_ & X & _) & _). eauto.
      + apply NL; [rewrite T1; exact N|exact NE].
    - apply (opframe_trans st s1); [apply opframe_shrinks; exact SH|].
      apply (opframe_trans s1 (set_timers (upd_nth i g (timers s1)) s1)); [|apply opframe_emit].
      apply opframe_set_timers. intros j [(t' & A & B & C' & D) E]. split; [|exact E].
      assert (j <> i) by (intros ->; rewrite T1, N in A; inversion A; subst; lia).
      exists t'. cbn. rewrite nth_upd_nth_other by auto. auto. }
  assert (SHR : shrinks st st).
  { constructor; auto; intros; lia. }
  destruct (t_state t) eqn:S; cbn [snd].
  - split; [exact I|apply opframe_refl].
  - (* JOBLIST *) apply (Common (item_del (t_p t) (QTimer i) st)); [apply shrinks_item_del| |discriminate].
    apply item_del_clears; [|reflexivity]. destruct I as (_ & _ & _ & _ & X & _). exact X.
  - split; [exact I|apply opframe_refl].
  - (* ACTIVE: not on any list *) apply (Common st SHR); [|discriminate].
    pose proof (occ_all_nonneg (QTimer i) st). destruct (Z.eq_dec (occ_all (QTimer i) st) 0) as [|NZ]; [auto|].
    destruct (occ_all_in (QTimer i) st ltac:(lia)) as (it & A & B). destruct it; cbn in B; try discriminate.
    apply Nat.eqb_eq in B; subst. destruct I as (_ & _ & _ & _ & (_ & Q2 & _) & _). destruct (Q2 _ A) as (t' & A' & B').
    rewrite N in A'. inversion A'; subst. congruence.
Qed.

(* ------------------------------------------------------------------ changes to the poll table *)
Lemma live_change_polls : forall st st' (P : Z -> Prop),
  all_items st' = all_items st -> timers st' = timers st -> sigs st' = sigs st ->
  (forall a, live_fd st' a -> live_fd st a \/ P a) ->
  forall k a, live st' k a -> live st k a \/ (k = 2 /\ P a).
Proof.
  intros st st' P A T S H k a [[K L]|[[K L]|[[K L]|[K L]]]].
  - left. left. split; [exact K|]. unfold live_job in *. rewrite A in L. exact L.
  - left. right; left. split; [exact K|]. unfold live_timer in *. rewrite A, T in L. exact L.
  - destruct (H a L) as [L'|L']; [left; right; right; left; auto|right; auto].
  - left. right; right; right. split; [exact K|]. unfold live_sig in *. rewrite S in L. exact L.
Qed.
Lemma inv_set_polls : forall ps st, inv st ->
  inv_p ps (next_uid st) ->
  (forall i, In (QFd i) (all_items st) -> exists e, nth_error ps i = Some e /\ p_state e = Joblist) ->
  (forall a, live_fd (set_polls ps st) a -> live_fd st a \/ ~ gone (out st) 2 a) ->
  inv (set_polls ps st).
Proof.
  intros ps st (I0 & IT & IP & IS & IQ & IG & IR & IRA & IF) NP NQ NL. unfold inv.
  change (next_uid (set_polls ps st)) with (next_uid st). change (timers (set_polls ps st)) with (timers st).
  change (sigs (set_polls ps st)) with (sigs st). change (regs (set_polls ps st)) with (regs st).
  change (fx (set_polls ps st)) with (fx st). change (polls (set_polls ps st)) with ps.
  split; [exact I0|]. split; [exact IT|]. split; [exact NP|]. split; [exact IS|].
  split; [|split; [|split; [exact IR|split; [exact IRA|exact IF]]]].
  - destruct IQ as (Q1 & Q2 & Q3 & Q4 & Q5 & Q6 & Q7). unfold inv_q.
    split; [exact Q1|]. split; [exact Q2|]. split; [exact NQ|]. split; [exact Q4|]. split; [exact Q5|]. split; [exact Q6|exact Q7].
  - destruct IG as (G1 & G2 & G3). split; [exact G1|]. split; [|exact G3].
    intros k a Hg Hl.
    destruct (live_change_polls st (set_polls ps st) (fun a => ~ gone (out st) 2 a) eq_refl eq_refl eq_refl NL k a Hl) as [H|[K H]].
    + exact (G2 k a Hg H).
    + subst k. exact (H Hg).
Qed.
Lemma opframe_set_polls : forall ps st,
  (forall i u, pparked st i u -> pparked (set_polls ps st) i u) -> opframe st (set_polls ps st).
Proof.
  intros ps st H. constructor.
  - intros; apply Z.le_refl.
  - intros i P. exact P.
  - exact H.
  - intros S; exact S.
  - cbn; lia.
  - exists []. reflexivity.
Qed.

(* a slot-wise transformation of the table that creates no registration *)
Definition ptrans (st : state) (ps' : list pslot) : Prop :=
  (forall j e', nth_error ps' j = Some e' -> exists e, nth_error (polls st) j = Some e /\ p_uid e' < next_uid st /\
      (plive e' -> plive e /\ p_uid e' = p_uid e) /\ (p_fn e' = true -> p_state e' <> Empty)) /\
  (forall j e, nth_error (polls st) j = Some e -> p_state e = Joblist -> In (QFd j) (all_items st) ->
      exists e', nth_error ps' j = Some e' /\ p_state e' = Joblist).
Lemma inv_ptrans : forall ps' st, inv st -> ptrans st ps' -> inv (set_polls ps' st) /\
  (forall a, live_fd (set_polls ps' st) a -> exists j e e', nth_error (polls st) j = Some e /\ nth_error ps' j = Some e' /\
                                                        plive e /\ plive e' /\ p_uid e = a).
Proof.
  intros ps' st I [A B]. pose proof I as (I0 & _ & (P1 & P2 & P3) & _ & (_ & _ & Q3 & _) & _).
  assert (L : forall a, live_fd (set_polls ps' st) a -> exists j e e', nth_error (polls st) j = Some e /\ nth_error ps' j = Some e' /\
                                                        plive e /\ plive e' /\ p_uid e = a).
  { intros a (j & e' & N & U & Lv). cbn in N. destruct (A j e' N) as (e & N0 & _ & C & _). destruct (C Lv) as [C1 C2].
    exists j, e, e'. repeat split; auto. congruence. }
  split; [|exact L].
  apply inv_set_polls; [exact I| | |].
  - split; [|split].
    + intros j e' N. destruct (A j e' N) as (e & _ & U & _). exact U.
    + intros a b ea eb Na Nb La Lb E. destruct (A a ea Na) as (e1 & N1 & _ & C1 & _). destruct (A b eb Nb) as (e2 & N2 & _ & C2 & _).
      destruct (C1 La) as [L1 U1]. destruct (C2 Lb) as [L2 U2]. apply (P2 a b e1 e2); auto. congruence.
    + intros j e' N. destruct (A j e' N) as (e & _ & _ & _ & F). exact F.
  - intros j H. destruct (Q3 j H) as (e & N & S). exact (B j e N S H).
  - intros a H. left. destruct (L a H) as (j & e & e' & N & _ & Lv & _ & U). exists j, e. auto.
Qed.

(* one slot changed *)
Lemma ptrans_upd : forall i g st, inv st ->
  (forall e, nth_error (polls st) i = Some e -> p_uid (g e) < next_uid st /\ (plive (g e) -> plive e /\ p_uid (g e) = p_uid e) /\
             (p_fn (g e) = true -> p_state (g e) <> Empty) /\
             (occ_all (QFd i) st = 0 \/ (p_state e = Joblist -> p_state (g e) = Joblist))) ->
  ptrans st (upd_nth i g (polls st)).
Proof.
  intros i g st I G. pose proof I as (I0 & _ & (P1 & P2 & P3) & _).
  split.
  - intros j e' N. rewrite nth_upd_nth in N. destruct (Nat.eqb i j) eqn:E.
    + apply Nat.eqb_eq in E; subst. destruct (nth_error (polls st) j) as [e|] eqn:N0; [|discriminate]. cbn in N. inversion N; subst.
      exists e. split; [reflexivity|]. destruct (G e eq_refl) as (A & B & C & _). auto.
    + exists e'. split; [exact N|]. split; [eauto|]. split; [auto|]. eauto.
  - intros j e N S Hin. rewrite nth_upd_nth, N. destruct (Nat.eqb i j) eqn:E; cbn.
    + apply Nat.eqb_eq in E; subst. exists (g e). split; [reflexivity|]. destruct (G e N) as (_ & _ & _ & [Z|Z]); [|auto].
      apply in_occ_all in Hin. lia.
    + exists e. auto.
Qed.

Lemma pparked_upd : forall i g st j u,
  (forall e, nth_error (polls st) i = Some e -> (p_state e = Joblist \/ p_state e = Deleted) ->
             p_uid (g e) = p_uid e /\ (p_state (g e) = Joblist \/ p_state (g e) = Deleted)) ->
  pparked st j u -> pparked (set_polls (upd_nth i g (polls st)) st) j u.
Proof.
  intros i g st j u G [(e & N & U & S) Z]. split; [|exact Z]. cbn. rewrite nth_upd_nth, N. destruct (Nat.eqb i j) eqn:E; cbn.
  - apply Nat.eqb_eq in E; subst. destruct (G e N S) as [A B]. exists (g e). split; [reflexivity|]. split; [congruence|exact B].
  - exists e. auto.
Qed.

(* growing the table by a zeroed slot *)
Lemma inv_polls_grow : forall st, inv st -> inv (set_polls (polls st ++ [pslot_zero]) st).
Proof.
  intros st I. pose proof I as (I0 & _ & (P1 & P2 & P3) & _ & (_ & _ & Q3 & _) & _).
  apply inv_set_polls; [exact I| | |].
  - split; [|split].
    + intros i e H. apply nth_error_app_new in H. destruct H as [H|[_ ->]]; [eauto|cbn; lia].
    + intros i j ei ej Hi Hj Li Lj E. apply nth_error_app_new in Hi. apply nth_error_app_new in Hj.
      destruct Hi as [Hi|[_ ->]]; [|destruct Li as [X|X]; discriminate X]. destruct Hj as [Hj|[_ ->]]; [|destruct Lj as [X|X]; discriminate X]. eauto.
    + intros i e H. apply nth_error_app_new in H. destruct H as [H|[_ ->]]; [eauto|cbn; discriminate].
  - intros i H. destruct (Q3 i H) as (e & A & B). exists e. split; [|exact B].
    rewrite nth_error_app1; [exact A|]. apply nth_error_Some. congruence.
  - intros a (i & e & A & B & C). left. cbn in A. apply nth_error_app_new in A. destruct A as [A|[_ ->]].
    + exists i, e. auto.
    + destruct C as [C|C]; discriminate C.
Qed.
Lemma pparked_grow : forall st i u, pparked st i u -> pparked (set_polls (polls st ++ [pslot_zero]) st) i u.
Proof.
  intros st i u [(e & A & B) C]. split; [|exact C]. exists e. split; [|exact B]. cbn.
  rewrite nth_error_app1; [exact A|]. apply nth_error_Some. congruence.
Qed.

(* an EMPTY slot becomes a new registration *)
Lemma inv_poll_activate : forall i enew e0 st, inv st ->
  nth_error (polls st) i = Some e0 -> p_state e0 = Empty ->
  p_state enew = Active -> p_uid enew < next_uid st ->
  (forall j e, nth_error (polls st) j = Some e -> p_uid e < p_uid enew) ->
  ~ gone (out st) 2 (p_uid enew) ->
  inv (set_polls (upd_nth i (fun _ => enew) (polls st)) st).
Proof.
  intros i enew e0 st I Hn He Ha Hu Hf Hg. pose proof I as (I0 & _ & (P1 & P2 & P3) & _ & (_ & _ & Q3 & _) & _).
  assert (N : forall j e', nth_error (upd_nth i (fun _ => enew) (polls st)) j = Some e' ->
              (j <> i /\ nth_error (polls st) j = Some e') \/ (j = i /\ e' = enew)).
  { intros j e' H. rewrite nth_upd_nth in H. destruct (Nat.eqb i j) eqn:E.
    - apply Nat.eqb_eq in E; subst. rewrite Hn in H. cbn in H. inversion H; subst. right. auto.
    - apply Nat.eqb_neq in E. left. split; [congruence|exact H]. }
  apply inv_set_polls; [exact I| | |].
  - split; [|split].
    + intros j e' H. destruct (N j e' H) as [[_ A]|[_ ->]]; [eauto|exact Hu].
    + intros a b ea eb Ha' Hb La Lb E.
      destruct (N a ea Ha') as [[Na A]|[-> ->]]; destruct (N b eb Hb) as [[Nb B]|[-> ->]]; auto.
      * eauto.
      * specialize (Hf a ea A). lia.
      * specialize (Hf b eb B). lia.
    + intros j e' H F. destruct (N j e' H) as [[_ A]|[_ ->]]; [eauto|congruence].
  - intros j H. destruct (Q3 j H) as (e & A & B). assert (j <> i) by (intros ->; congruence).
    exists e. split; [|exact B]. rewrite nth_upd_nth_other; auto.
  - intros a (j & e' & A & B & C). cbn in A. destruct (N j e' A) as [[_ A1]|[_ ->]].
    + left. exists j, e'. auto.
    + right. subst a. exact Hg.
Qed.

(* the kernel's interest list is not read by the invariant *)
Lemma opframe_same_core : forall st st', same_core st st' -> stop st' = stop st -> opframe st st'.
Proof. intros st st' [L T P S' U O R F RA RN] S. apply opframe_same; auto. exists []. now rewrite O. Qed.
Lemma k_add_same : forall a b c st, same_core st (snd (k_add a b c st)) /\ stop (snd (k_add a b c st)) = stop st.
Proof. intros. unfold k_add. destruct (kfind _ _); cbn; split; try reflexivity; constructor; reflexivity. Qed.
Lemma k_mod_same : forall a b c st, same_core st (snd (k_mod a b c st)) /\ stop (snd (k_mod a b c st)) = stop st.
Proof. intros. unfold k_mod. destruct (kfind _ _); cbn; split; try reflexivity; constructor; reflexivity. Qed.
Lemma k_del_same : forall a st, same_core st (snd (k_del a st)) /\ stop (snd (k_del a st)) = stop st.
Proof. intros. unfold k_del. destruct (kfind _ _); cbn; split; try reflexivity; constructor; reflexivity. Qed.

(* ------------------------------------------------------------------ qb_loop_poll_add (and the signal pipe's entry) *)
Lemma poll_slot_spec : forall st, inv st ->
  inv (snd (poll_slot st)) /\ opframe st (snd (poll_slot st)) /\ next_uid (snd (poll_slot st)) = next_uid st /\
  out (snd (poll_slot st)) = out st /\
  exists e0, nth_error (polls (snd (poll_slot st))) (fst (poll_slot st)) = Some e0 /\ p_state e0 = Empty.
Proof.
  intros st I. unfold poll_slot. destruct (find_idx _ (polls st)) as [i|] eqn:F; cbn [fst snd].
  - split; [exact I|]. split; [apply opframe_refl|]. split; [reflexivity|]. split; [reflexivity|].
    apply find_idx_some in F. destruct F as (e0 & A & B). exists e0. split; [exact A|]. destruct (p_state e0); cbn in B; congruence.
  - split; [apply inv_polls_grow; exact I|]. split; [apply opframe_set_polls; apply pparked_grow|].
    split; [reflexivity|]. split; [reflexivity|]. exists pslot_zero. split; [|reflexivity]. cbn. rewrite nth_error_app2 by lia.
    now rewrite Nat.sub_diag.
Qed.

Lemma poll_add_gen_ok : forall g p fd ev key st, inv st ->
  inv (snd (poll_add_gen g p fd ev key st)) /\ opframe st (snd (poll_add_gen g p fd ev key st)).
Proof.
  intros g p fd ev key st I. unfold poll_add_gen.
  destruct (fx_pollreuse (fx st) && existsb (fd_is_live fd) (polls st)); [split; [exact I|apply opframe_refl]|].
  destruct (poll_slot_spec st I) as (I1 & F1 & U1 & O1 & (e0 & N0 & E0)). destruct (poll_slot st) as [i s1]. cbn [fst snd] in *.
  unfold fresh_uid. set (n := next_uid s1). set (s2 := set_next_uid (n + 1) s1).
  assert (I2 : inv s2) by (apply inv_bump_uid; exact I1).
  assert (RO2 : rand_ok s2) by (destruct I2 as (_ & _ & _ & _ & _ & _ & _ & X & _); exact X).
  destruct (draw_check_p_spec 200 0 s2 RO2) as (RO3 & SB3).
  destruct (draw_check_p 200 0 s2) as [c s3]. cbn [fst snd] in *.
  assert (I3 : inv s3) by (eapply inv_sbr; eauto).
  match goal with |- context [k_add ?a ?b ?d s3] => destruct (k_add_same a b d s3) as [SC4 ST4]; destruct (k_add a b d s3) as [res s4] end.
  cbn [fst snd] in *.
  assert (I4 : inv s4) by (eapply inv_same_core; eauto).
  assert (P4 : polls s4 = polls s1) by (rewrite (sc_polls _ _ SC4), (sb_polls _ _ SB3); reflexivity).
  assert (U4 : next_uid s4 = n + 1) by (rewrite (sc_uid _ _ SC4), (sb_uid _ _ SB3); reflexivity).
  assert (O4 : out s4 = out s1) by (rewrite (sc_out _ _ SC4), (sb_out _ _ SB3); reflexivity).
  assert (F4 : opframe st s4).
  { apply (opframe_trans st s1); [exact F1|]. apply (opframe_trans s1 s2); [apply opframe_bump_uid|].
    apply (opframe_trans s2 s3); [apply opframe_sbr; exact SB3|]. apply opframe_same_core; auto. }
  assert (PK : forall s (gg : pslot -> pslot), polls s = polls s1 -> (forall x, occ_all x s = occ_all x s4) ->
               forall j u, pparked s4 j u -> pparked (set_polls (upd_nth i gg (polls s)) s) j u).
  { intros s gg Ps Os j u [(e & A & B & C) D]. split; [|unfold occ_all in *; cbn; rewrite <- D; apply Os].
    assert (j <> i) by (intros ->; rewrite P4, N0 in A; inversion A; subst; destruct C; congruence).
    exists e. cbn. rewrite nth_upd_nth_other by auto. rewrite Ps, <- P4. auto. }
  destruct (res =? 0) eqn:R; cbn [snd].
  - (* added *)
    set (s5 := emit (EvAdd 2 n p) s4).
    assert (I5 : inv s5) by (apply inv_emit_neutral; [exact Logic.I|exact I4]).
    match goal with |- context [upd_nth i ?f _] => set (f0 := f) end.
    set (enew := f0 e0).
    assert (EQ : upd_nth i f0 (polls s5) = upd_nth i (fun _ => enew) (polls s5)).
    { clear. unfold enew, f0. generalize (polls s5). intros l. revert i. induction l; destruct i; cbn; auto; f_equal; auto. }
    rewrite EQ. split.
    + apply (inv_poll_activate i enew e0 s5 I5).
      * change (polls s5) with (polls s4). rewrite P4. exact N0.
      * exact E0.
      * reflexivity.
      * change (next_uid s5) with (next_uid s4). rewrite U4. cbn. lia.
      * intros j e H. change (polls s5) with (polls s4) in H. rewrite P4 in H. destruct I1 as (_ & _ & (X & _) & _). cbn. apply (X j e H).
      * cbn [out emit set_out s5 enew f0 p_uid]. intros Hg. apply (gone_neutral (EvAdd 2 n p)) in Hg; [|exact Logic.I].
        rewrite O4 in Hg. exact (fresh_not_gone s1 2 I1 Hg).
    + apply (opframe_trans st s4); [exact F4|]. apply (opframe_trans s4 s5); [apply opframe_emit|].
      apply opframe_set_polls. intros j u H. apply (PK s5 (fun _ => enew)); auto.
  - (* the driver refused: the slot goes back to EMPTY (entirely cleared once repaired) *)
    match goal with |- context [upd_nth i ?f _] => set (f0 := f) end.
    assert (TR : ptrans s4 (upd_nth i f0 (polls s4))).
    { apply ptrans_upd; [exact I4|]. intros e H. rewrite P4, N0 in H. inversion H; subst e.
      assert (PF : p_fn e0 = false).
      { destruct I1 as (_ & _ & (_ & _ & X) & _). destruct (p_fn e0) eqn:PF; [|reflexivity]. exfalso. exact (X i e0 N0 PF E0). }
      unfold f0. destruct (fx_polladd (fx s4)); cbn.
      - split; [destruct I4 as (X & _); lia|]. split; [intros [X|X]; discriminate X|]. split; [discriminate|]. right. congruence.
      - split; [rewrite U4; lia|]. split; [intros [X|X]; discriminate X|]. split; [congruence|]. right. congruence. }
    destruct (inv_ptrans _ _ I4 TR) as [I5 _]. split; [exact I5|].
    apply (opframe_trans st s4); [exact F4|]. apply opframe_set_polls. intros j u H. apply (PK s4 f0); auto.
Qed.

(* ------------------------------------------------------------------ qb_loop_poll_mod *)
Lemma poll_mod_ok : forall p fd ev key st, inv st ->
  inv (snd (poll_mod p fd ev key st)) /\ opframe st (snd (poll_mod p fd ev key st)).
Proof.
  intros p fd ev key st I. unfold poll_mod.
  destruct (find_idx _ (polls st)) as [i|]; [|split; [exact I|apply opframe_refl]].
  destruct (nth_error (polls st) i) as [e|] eqn:N; [|split; [exact I|apply opframe_refl]].
  destruct (_ || _); [split; [exact I|apply opframe_refl]|].
  assert (K : exists res s1, (if p_events e =? ev then (0, st) else k_mod fd (poll_to_epoll ev) (p_check e * TWO32 + Z.of_nat i) st) = (res, s1)
              /\ same_core st s1 /\ stop s1 = stop st).
  { destruct (p_events e =? ev).
    - exists 0, st. split; [reflexivity|]. split; [apply same_core_refl|reflexivity].
    - destruct (k_mod_same fd (poll_to_epoll ev) (p_check e * TWO32 + Z.of_nat i) st) as [A B].
      destruct (k_mod fd (poll_to_epoll ev) (p_check e * TWO32 + Z.of_nat i) st) as [res s1]. exists res, s1. auto. }
  destruct K as (res & s1 & -> & SC & ST). cbn [snd].
  assert (I1 : inv s1) by (eapply inv_same_core; eauto).
  match goal with |- context [upd_nth i ?f _] => set (f0 := f) end.
  assert (TR : ptrans s1 (upd_nth i f0 (polls s1))).
  { apply ptrans_upd; [exact I1|]. intros e' H. unfold f0; cbn. destruct I1 as (_ & _ & (X & _ & Y) & _).
    split; [eauto|]. split; [auto|]. split; [eauto|]. right. auto. }
  destruct (inv_ptrans _ _ I1 TR) as [I2 _]. split; [exact I2|].
  apply (opframe_trans st s1); [apply opframe_same_core; auto|]. apply opframe_set_polls.
  intros j u H. apply pparked_upd; [|exact H]. intros e' _ S. unfold f0; cbn. auto.
Qed.

(* ------------------------------------------------------------------ qb_loop_poll_del *)
Lemma fd_not_live_after : forall i g st e, inv st -> ptrans st (upd_nth i g (polls st)) ->
  nth_error (polls st) i = Some e -> plive e -> ~ plive (g e) ->
  ~ live (set_polls (upd_nth i g (polls st)) st) 2 (p_uid e).
Proof.
  intros i g st e I TR N LE NL. destruct (inv_ptrans _ _ I TR) as [_ L].
  intros [[K _]|[[K _]|[[_ H]|[K _]]]]; try discriminate K.
  destruct (L _ H) as (j & eo & en & N1 & N2 & L1 & L2 & U).
  assert (j = i) by (destruct I as (_ & _ & (_ & P2 & _) & _); apply (P2 j i eo e N1 N L1 LE U)).
  subst j. rewrite nth_upd_nth, Nat.eqb_refl, N in N2. cbn in N2. inversion N2; subst. exact (NL L2).
Qed.

Lemma mark_deleted_ptrans : forall i st, inv st -> occ_all (QFd i) st = 0 -> ptrans st (upd_nth i mark_deleted (polls st)).
Proof.
  intros i st I Z. apply ptrans_upd; [exact I|]. intros e N. cbn.
  destruct I as (_ & _ & (X & _) & _). split; [eauto|]. split; [intros [Y|Y]; discriminate Y|]. split; [discriminate|]. left. exact Z.
Qed.
Lemma qfd_absent_if_active : forall i e st, inv st -> nth_error (polls st) i = Some e -> p_state e <> Joblist -> occ_all (QFd i) st = 0.
Proof.
  intros i e st I N S. pose proof (occ_all_nonneg (QFd i) st). destruct (Z.eq_dec (occ_all (QFd i) st) 0) as [|NZ]; [auto|].
  destruct (occ_all_in (QFd i) st ltac:(lia)) as (it & A & B). destruct it; cbn in B; try discriminate.
  apply Nat.eqb_eq in B; subst. destruct I as (_ & _ & _ & _ & (_ & _ & Q3 & _) & _). destruct (Q3 _ A) as (e' & A' & B').
  rewrite N in A'. inversion A'; subst. congruence.
Qed.

Lemma poll_del_ok : forall fd st, inv st -> inv (snd (poll_del fd st)) /\ opframe st (snd (poll_del fd st)).
Proof.
  intros fd st I. unfold poll_del.
  destruct (find_idx _ (polls st)) as [i|]; [|split; [exact I|apply opframe_refl]].
  destruct (nth_error (polls st) i) as [e|] eqn:N; [|split; [exact I|apply opframe_refl]].
  assert (Common : forall s1, shrinks st s1 -> occ_all (QFd i) s1 = 0 -> plive e ->
     inv (snd (let '(res, s) := k_del fd (emit (EvDel 2 (p_uid e)) s1) in (res, set_polls (upd_nth i mark_deleted (polls s)) s))) /\
     opframe st (snd (let '(res, s) := k_del fd (emit (EvDel 2 (p_uid e)) s1) in (res, set_polls (upd_nth i mark_deleted (polls s)) s)))).
  { intros s1 SH Z LE.
    assert (I1 : inv s1) by (eapply inv_shrinks; eauto).
    assert (P1 : polls s1 = polls st) by (apply (sh_polls _ _ SH)).
    assert (N1 : nth_error (polls s1) i = Some e) by (rewrite P1; exact N).
    pose proof (mark_deleted_ptrans i s1 I1 Z) as TR.
    destruct (inv_ptrans _ _ I1 TR) as [I2 _].
    set (s2 := set_polls (upd_nth i mark_deleted (polls s1)) s1).
    assert (NLv : ~ live s2 2 (p_uid e)).
    { apply (fd_not_live_after i mark_deleted s1 e I1 TR N1 LE). cbn. intros [X|X]; discriminate X. }
    assert (I3 : inv (emit (EvDel 2 (p_uid e)) s2)).
    { apply inv_emit_del; [exact I2| |exact NLv]. cbn. rewrite (sh_uid _ _ SH). destruct I as (_ & _ & (X & _) & _). eauto. }
    assert (EQ : snd (let '(res, s) := k_del fd (emit (EvDel 2 (p_uid e)) s1) in (res, set_polls (upd_nth i mark_deleted (polls s)) s))
                 = snd (k_del fd (emit (EvDel 2 (p_uid e)) s2))).
    { unfold k_del. cbn [kset emit set_out]. change (kset s2) with (kset s1). destruct (kfind fd (kset s1)); reflexivity. }
    rewrite EQ. destruct (k_del_same fd (emit (EvDel 2 (p_uid e)) s2)) as [SC ST].
    split; [eapply inv_same_core; eauto|].
    apply (opframe_trans st s1); [apply opframe_shrinks; exact SH|].
    apply (opframe_trans s1 s2).
    - apply opframe_set_polls. intros j u H. apply pparked_upd; [|exact H]. intros e' _ _. cbn. auto.
    - apply (opframe_trans s2 (emit (EvDel 2 (p_uid e)) s2)); [apply opframe_emit|apply opframe_same_core; auto]. }
  assert (SHR : shrinks st st) by (constructor; auto; intros; lia).
  destruct (p_state e) eqn:S; cbn [snd].
  - split; [exact I|apply opframe_refl].
  - (* JOBLIST *) apply (Common (item_del (p_p e) (QFd i) st)); [apply shrinks_item_del| |right; exact S].
    apply item_del_clears; [|reflexivity]. destruct I as (_ & _ & _ & _ & X & _). exact X.
  - split; [exact I|apply opframe_refl].
  - (* ACTIVE *) apply (Common st SHR); [|left; exact S]. apply (qfd_absent_if_active i e st I N). congruence.
Qed.

(* ------------------------------------------------------------------ signals *)
Lemma inv_set_sigs : forall ss st, inv st ->
  inv_s ss (next_uid st) ->
  (forall u f g k, In (QSig u f g k) (all_items st) -> exists s, In s ss /\ s_id s = f) ->
  (forall a, (exists s, In s ss /\ s_id s = a) -> live_sig st a \/ ~ gone (out st) 3 a) ->
  inv (set_sigs ss st).
Proof.
  intros ss st (I0 & IT & IP & IS & IQ & IG & IR & IRA & IF) NS NQ NL. unfold inv.
  change (next_uid (set_sigs ss st)) with (next_uid st). change (timers (set_sigs ss st)) with (timers st).
  change (polls (set_sigs ss st)) with (polls st). change (regs (set_sigs ss st)) with (regs st).
  change (fx (set_sigs ss st)) with (fx st). change (sigs (set_sigs ss st)) with ss.
  split; [exact I0|]. split; [exact IT|]. split; [exact IP|]. split; [exact NS|].
  split; [|split; [|split; [exact IR|split; [exact IRA|exact IF]]]].
  - destruct IQ as (Q1 & Q2 & Q3 & Q4 & Q5 & Q6 & Q7). unfold inv_q.
    split; [exact Q1|]. split; [exact Q2|]. split; [exact Q3|]. split; [exact NQ|]. split; [exact Q5|]. split; [exact Q6|exact Q7].
  - destruct IG as (G1 & G2 & G3). split; [exact G1|]. split; [|exact G3].
    intros k a Hg [[K L]|[[K L]|[[K L]|[K L]]]].
    + apply (G2 k a Hg). left. auto.
    + apply (G2 k a Hg). right; left. auto.
    + apply (G2 k a Hg). right; right; left. auto.
    + destruct (NL a L) as [H|H]; [apply (G2 k a Hg); right; right; right; auto|subst k; exact (H Hg)].
Qed.
Lemma opframe_set_sigs : forall ss st, opframe st (set_sigs ss st).
Proof. intros. apply opframe_same; try reflexivity. exists []. reflexivity. Qed.

Lemma NoDup_app_one : forall A (l : list A) x, NoDup l -> ~ In x l -> NoDup (l ++ [x]).
Proof.
  induction l; cbn; intros x H N; [constructor; [tauto|constructor]|].
  inversion H; subst. constructor.
  - intros X. apply in_app_or in X. destruct X as [X|[X|[]]]; [tauto|]. subst. tauto.
  - apply IHl; tauto.
Qed.
Lemma signal_add_ok : forall p g k r st, inv st -> inv (snd (signal_add p g k r st)) /\ opframe st (snd (signal_add p g k r st)).
Proof.
  intros p g k r st I. unfold signal_add, fresh_uid. cbn [snd].
  set (n := next_uid st). set (s1 := set_next_uid (n + 1) st).
  assert (I1 : inv s1) by (apply inv_bump_uid; exact I).
  set (s2 := emit (EvAdd 3 n p) s1).
  assert (I2 : inv s2) by (apply inv_emit_neutral; [exact Logic.I|exact I1]).
  set (s3 := set_sigs (sigs s2 ++ [Build_sigreg n g p k]) s2).
  assert (I3 : inv s3).
  { pose proof I as (_ & _ & _ & (S1 & S2) & (_ & _ & _ & Q4 & _) & _).
    apply inv_set_sigs; [exact I2| | |].
    - split.
      + change (sigs s2) with (sigs st). rewrite map_app. cbn. apply NoDup_app_one; [exact S1|].
        intros H. apply in_map_iff in H. destruct H as (s & A & B). specialize (S2 s B). unfold n in *. lia.
      + intros s H. change (sigs s2) with (sigs st) in H. apply in_app_or in H. destruct H as [H|[<-|[]]]; cbn.
        * specialize (S2 s H). unfold n in *. lia.
        * lia.
    - intros u f g' k' H. destruct (Q4 u f g' k' H) as (s & A & B). exists s. split; [apply in_or_app; left; exact A|exact B].
    - intros a (s & A & B). change (sigs s2) with (sigs st) in A. apply in_app_or in A. destruct A as [A|[<-|[]]].
      + left. exists s. auto.
      + right. cbn in B. subst a. cbn [out s2 emit set_out]. intros Hg. apply (gone_neutral (EvAdd 3 n p)) in Hg; [|exact Logic.I].
        exact (fresh_not_gone st 3 I Hg). }
  split.
  - eapply inv_same_core; [|exact I3]. constructor; reflexivity.
  - apply (opframe_trans st s1); [apply opframe_bump_uid|]. apply (opframe_trans s1 s2); [apply opframe_emit|].
    apply (opframe_trans s2 s3); [apply opframe_set_sigs|]. apply opframe_same; try reflexivity. exists []. reflexivity.
Qed.

Lemma flag_uaf_ok : forall w st, inv st -> inv (flag_uaf w st) /\ opframe st (flag_uaf w st).
Proof.
  intros w st I. unfold flag_uaf. split.
  - apply inv_emit_neutral; [exact Logic.I|]. eapply inv_same_core; [|exact I]. constructor; reflexivity.
  - apply opframe_same; try reflexivity. exists [EvUaf w]. reflexivity.
Qed.

Lemma sig_find_spec : forall h st s, sig_find h st = Some s -> In s (sigs st) /\ s_id s = h.
Proof. intros h st s H. unfold sig_find in H. apply find_some in H. destruct H as [A B]. apply Z.eqb_eq in B. auto. Qed.

Lemma signal_mod_ok : forall p g k h st, inv st -> inv (snd (signal_mod p g k h st)) /\ opframe st (snd (signal_mod p g k h st)).
Proof.
  intros p g k h st I. unfold signal_mod. destruct (h =? 0); [split; [exact I|apply opframe_refl]|].
  destruct (sig_find h st) as [s|] eqn:F; cbn [snd]; [|apply flag_uaf_ok; exact I].
  split; [|apply opframe_set_sigs].
  pose proof I as (_ & _ & _ & (S1 & S2) & (_ & _ & _ & Q4 & _) & _).
  assert (M : map s_id (map (fun s0 => if s_id s0 =? h then Build_sigreg h g p k else s0) (sigs st)) = map s_id (sigs st)).
  { rewrite map_map. apply map_ext. intros a. destruct (s_id a =? h) eqn:E; [apply Z.eqb_eq in E; cbn; auto|reflexivity]. }
  assert (IDS : forall a, (exists s0, In s0 (map (fun s0 => if s_id s0 =? h then Build_sigreg h g p k else s0) (sigs st)) /\ s_id s0 = a)
                          <-> live_sig st a).
  { intros a. unfold live_sig. split.
    - intros (s0 & A & B). assert (In a (map s_id (sigs st))) by (rewrite <- M; apply in_map_iff; eauto).
      apply in_map_iff in H. destruct H as (s1 & C & D). eauto.
    - intros (s0 & A & B). assert (In a (map s_id (sigs st))) by (apply in_map_iff; eauto).
      rewrite <- M in H. apply in_map_iff in H. destruct H as (s1 & C & D). eauto. }
  apply inv_set_sigs; [exact I| | |].
  - split; [rewrite M; exact S1|]. intros s0 H. assert (In (s_id s0) (map s_id (sigs st))) by (rewrite <- M; apply in_map; exact H).
    apply in_map_iff in H0. destruct H0 as (s1 & C & D). rewrite <- C. auto.
  - intros u f g' k' H. apply IDS. eauto.
  - intros a H. left. apply IDS. exact H.
Qed.

(* the repaired qb_loop_signal_del *)
Lemma jobq_purge : forall h p st q,
  jobq (lv (purge_clones h p st) q) = (if prio_eqb q p then filter (fun it => negb (is_clone_of h it)) (jobq (lv st q)) else jobq (lv st q)) /\
  wait (lv (purge_clones h p st) q) = wait (lv st q).
Proof.
  intros. unfold purge_clones, upd_level, set_lv. cbn. destruct (prio_eqb q p) eqn:E; [|auto].
  apply prio_eqb_eq in E; subst. cbn. auto.
Qed.
Definition purge_all (h : Z) (st : state) : state := purge_clones h High (purge_clones h Med (purge_clones h Low st)).
Lemma purge_all_lists : forall h st q,
  jobq (lv (purge_all h st) q) = filter (fun it => negb (is_clone_of h it)) (jobq (lv st q)) /\
  wait (lv (purge_all h st) q) = wait (lv st q).
Proof.
  intros. unfold purge_all.
  destruct (jobq_purge h High (purge_clones h Med (purge_clones h Low st)) q) as [A1 B1].
  destruct (jobq_purge h Med (purge_clones h Low st) q) as [A2 B2].
  destruct (jobq_purge h Low st q) as [A3 B3].
  rewrite A1, B1, A2, B2, A3, B3. destruct q; cbn; auto.
Qed.
Lemma shrinks_purge_all : forall h st, shrinks st (purge_all h st).
Proof.
  intros h st. constructor; try reflexivity.
  - intros x. rewrite !occ_all_split.
    destruct (purge_all_lists h st High) as [-> ->]. destruct (purge_all_lists h st Med) as [-> ->].
    destruct (purge_all_lists h st Low) as [-> ->].
    pose proof (occ_filter_le x (fun it => negb (is_clone_of h it)) (jobq (lv st High))).
    pose proof (occ_filter_le x (fun it => negb (is_clone_of h it)) (jobq (lv st Med))).
    pose proof (occ_filter_le x (fun it => negb (is_clone_of h it)) (jobq (lv st Low))). lia.
  - intros it H. apply in_all_items in H. destruct H as (q & H). apply in_all_items. exists q.
    destruct (purge_all_lists h st q) as [A B]. rewrite A, B in H. destruct H as [H|H]; [left|right; exact H].
    apply filter_In in H. tauto.
  - intros q it H. destruct (purge_all_lists h st q) as [_ B]. rewrite B in H. exact H.
Qed.
Lemma purge_all_clean : forall h st u g k, inv st -> ~ In (QSig u h g k) (all_items (purge_all h st)).
Proof.
  intros h st u g k I H. apply in_all_items in H. destruct H as (q & H).
  destruct (purge_all_lists h st q) as [A B]. rewrite A, B in H. destruct H as [H|H].
  - apply filter_In in H. destruct H as [_ H]. cbn in H. rewrite Z.eqb_refl in H. discriminate.
  - destruct I as (_ & _ & _ & _ & (_ & _ & _ & _ & _ & _ & Q7) & _). destruct (Q7 q _ H) as (a & b & E). discriminate.
Qed.

Lemma NoDup_map_filter : forall A B (f : A -> B) g l, NoDup (map f l) -> NoDup (map f (filter g l)).
Proof.
  induction l; cbn; intros H; [constructor|]. inversion H; subst. destruct (g a); cbn; [|auto].
  constructor; [|auto]. intros X. apply H2. apply in_map_iff in X. destruct X as (y & E & Y). apply filter_In in Y.
  apply in_map_iff. exists y. tauto.
Qed.

Lemma signal_del_ok : forall h st, inv st -> inv (snd (signal_del h st)) /\ opframe st (snd (signal_del h st)).
Proof.
  intros h st I. unfold signal_del. destruct (h =? 0); [split; [exact I|apply opframe_refl]|].
  destruct (sig_find h st) as [s|] eqn:F; cbn [snd]; [|apply flag_uaf_ok; exact I].
  apply sig_find_spec in F. destruct F as [Hin Hid].
  pose proof I as (_ & _ & _ & _ & _ & _ & _ & _ & IF). rewrite IF.
  fold (purge_all h st). set (s1 := purge_all h st).
  assert (SH : shrinks st s1) by apply shrinks_purge_all.
  assert (I1 : inv s1) by (eapply inv_shrinks; eauto).
  set (ss := filter (fun s0 => negb (s_id s0 =? h)) (sigs s1)).
  change (set_sigs ss (emit (EvDel 3 h) s1)) with (emit (EvDel 3 h) (set_sigs ss s1)).
  assert (I2 : inv (set_sigs ss s1)).
  { pose proof I1 as (_ & _ & _ & (S1 & S2) & (_ & _ & _ & Q4 & _) & _).
    apply inv_set_sigs; [exact I1| | |].
    - split; [apply NoDup_map_filter; exact S1|]. intros s0 H. apply filter_In in H. destruct H as [H _]. auto.
    - intros u f g k H. destruct (Q4 u f g k H) as (s0 & A & B). exists s0. split; [|exact B].
      apply filter_In. split; [exact A|]. destruct (s_id s0 =? h) eqn:E; [|reflexivity]. apply Z.eqb_eq in E.
      exfalso. subst f. rewrite E in H. exact (purge_all_clean h st u g k I H).
    - intros a (s0 & A & B). left. apply filter_In in A. destruct A as [A _]. exists s0. auto. }
  split.
  - apply inv_emit_del; [exact I2| |].
    + change (next_uid (set_sigs ss s1)) with (next_uid s1). rewrite (sh_uid _ _ SH). destruct I as (_ & _ & _ & (_ & S2) & _). rewrite <- Hid. auto.
    + intros [[K _]|[[K _]|[[K _]|[_ (s0 & A & B)]]]]; try discriminate K. cbn in A. apply filter_In in A. destruct A as [_ A].
      rewrite B, Z.eqb_refl in A. discriminate.
  - apply (opframe_trans st s1); [apply opframe_shrinks; exact SH|].
    apply (opframe_trans s1 (set_sigs ss s1)); [apply opframe_set_sigs|apply opframe_emit].
Qed.
