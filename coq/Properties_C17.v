(* TEMPORARY placeholder of builder maptrie so that ./check C17 runs stand-alone in this worktree.
   At merge take builder maphs' Properties_C17.v; the trie theorems are in PropertiesTrie_C17.v. *)
