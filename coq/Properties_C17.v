(* C17 - maps behave like a dictionary; notifiers fire exactly once (hashtable + skiplist; the trie is in
   PropertiesTrie_C17.v).  Statements only; each is closed by `exact`.

   Layer A (MapRefModel.v) = entries in iteration order + tombstones + iterator positions, parametrised by the
   placement function [before] (hashtable: bucket-major, skiplist: ascending keys).  Layer B = the pointer-level
   transcriptions MapHashModel.v / MapSkipModel.v (heap cells with allocation status, reference counts, forward
   arrays).  BOTH layers are run against the real library on every check.
   HASHTABLE: C17_dictionary_hashtable below is about the POINTER-LEVEL model (layer B, repaired code): it is
   obtained from the layer-A theorem and the proof that layer B refines layer A (MapHashProofs2.v: representation
   invariant [Good]: bucket lists = layer A's entry order, refcount 1, no removed node, live cells, count).
   SKIPLIST: still PARTIAL - the theorems named `_partial` are about layer A; that the skiplist's pointer-level
   model refines layer A is checked by correspondence only; about its layer B the refutations of the unrepaired
   code and the witnesses for the repaired code are proved. *)
From Coq Require Import ZArith List NArith Bool.
Require Import Verif.gen.Consts_map Verif.MapSpec Verif.MapHashModel Verif.MapSkipModel Verif.MapRefModel
  Verif.MapRefProofs Verif.MapHashProofs Verif.MapHashProofs2 Verif.MapSkipProofs.
Import ListNotations.

(* constants regenerated from /repo: the event bits of qbmap.h are the ones the specification uses; count/length
   are 64-bit; the error codes used as results are pairwise distinct *)
Theorem C17_consts_ok :
  (MAP_NOTIFY_DELETED = Z.of_N EV_DELETED /\ MAP_NOTIFY_REPLACED = Z.of_N EV_REPLACED /\ MAP_NOTIFY_INSERTED = Z.of_N EV_INSERTED /\
   MAP_NOTIFY_RECURSIVE = Z.of_N EV_RECURSIVE /\ MAP_NOTIFY_FREE = Z.of_N EV_FREE /\
   MAP_SIZEOF_COUNT = 8 /\ MAP_SIZEOF_LENGTH = 8 /\ 0 < MAP_FNV_32_PRIME < 4294967296 /\
   MAP_EINVAL <> MAP_ENOENT /\ MAP_EEXIST <> MAP_ENOENT /\ MAP_EINVAL <> MAP_EEXIST)%Z.
Proof. exact map_consts_ok. Qed.
Print Assumptions C17_consts_ok.

(* for every history of put/get/rm/count/foreach (complete or abandoned)/notify_add/notify_del/destroy, over all
   keys, for every placement function: every output (get = latest put or nothing, rm = was present, count,
   traversal, return codes) and every operation's list of notifier calls (callback, user data, event, key, old
   value, new value; FREE after DELETED / REPLACED and at destroy) equal the specification's *)
Theorem C17_dictionary_partial : forall before rc ops,
  no_iter_ops ops = true -> lockstep before rc r_init s_init ops.
Proof. exact ref_c17. Qed.
Print Assumptions C17_dictionary_partial.

(* HASHTABLE, pointer-level model (MapHashModel.v, repaired variant), every hash function hf, every return-code
   tuple, every table size: for every history of put/get/rm/count/foreach(stop)/notify_add/notify_del(_2)/destroy
   no operation reaches an error state and each output and each operation's notifier calls equal the dictionary
   specification's (count modulo 2^64 = size_t; the specification's traversal order is the table's bucket-major
   order, which C17_hashtable_traversal_once shows to contain every present key exactly once) *)
Theorem C17_dictionary_hashtable : forall hf rc max_size ops,
  no_iter_ops ops = true -> b_lockstep hf rc (h_create max_size) s_init ops.
Proof. exact hash_c17. Qed.
Print Assumptions C17_dictionary_hashtable.

Theorem C17_hashtable_no_error : forall hf rc max_size ops, no_iter_ops ops = true ->
  snd (h_run v_fixed hf rc (h_create max_size) ops) = None.
Proof. exact hash_c17_no_error. Qed.
Print Assumptions C17_hashtable_no_error.

Theorem C17_hashtable_traversal_once : forall hf rc max_size ops, no_iter_ops ops = true ->
  let s' := fst (b_after hf rc (h_create max_size) s_init ops) in
  let sp' := snd (b_after hf rc (h_create max_size) s_init ops) in
  NoDup (map fst (live_kv (abs s'))) /\ forall k v, In (k, v) (live_kv (abs s')) <-> d_get (s_dict sp') k = Some v.
Proof.
  exact (fun hf rc m ops H =>
    hash_c17_traversal hf rc ops (h_create m) s_init (or_introl (proj1 (good_create hf m)))
      (eq_ind_r (fun r => Inv17 r s_init) inv17_init (proj2 (good_create hf m))) H).
Qed.
Print Assumptions C17_hashtable_traversal_once.

(* every API call from a well-formed table: succeeds, equals the layer-A step on the abstraction, keeps the table
   well formed (the refinement step itself) *)
Theorem C17_hashtable_refines_layerA : forall hf rc s o, Good hf s -> is_iter_op o = false -> step_ok hf rc s o.
Proof. exact hash_step_ok. Qed.
Print Assumptions C17_hashtable_refines_layerA.

(* the same, one step from ANY state related to a specification state (the simulation itself) *)
Theorem C17_simulation_step_partial : forall before rc r sp o, Inv17 r sp -> is_iter_op o = false ->
  let '(r', x, ns) := a_step before rc r o in
  let '(sp', x', ns') := spec_step (fl_of rc r) sp o in
  x = x' /\ ns = ns' /\ Inv17 r' sp'.
Proof. exact step17. Qed.
Print Assumptions C17_simulation_step_partial.

(* a complete traversal yields every present key exactly once, with its value - in every reachable state *)
Theorem C17_traversal_once_partial : forall before rc ops, no_iter_ops ops = true ->
  let r := fst (inv17_after before rc r_init s_init ops) in
  let sp := snd (inv17_after before rc r_init s_init ops) in
  NoDup (map fst (live_kv r)) /\ forall k v, In (k, v) (live_kv r) <-> d_get (s_dict sp) k = Some v.
Proof. exact (fun before rc ops H => ref_c17_traversal _ _ (ref_c17_reachable before rc ops r_init s_init inv17_init H)). Qed.
Print Assumptions C17_traversal_once_partial.

(* non-vacuity: a concrete skiplist-flavoured history with shared prefixes, replacement, per-key and FREE notifiers *)
Example C17_example : lockstep skip_before rc_skip r_init s_init c17_example_ops.
Proof. exact (ref_c17 skip_before rc_skip c17_example_ops eq_refl). Qed.

(* ---- layer B, hashtable: the repository code at the time of writing violates C17 ... ---- *)
Theorem C17_hashtable_refuted :
  outs (h_run v_orig hf8 rc_consts (h_create 8%N) h_wit17) =
  [ONone; OEntries [(MapHashProofs.ka, 1%N)]; OBool true; OVal 1%N; OCount 0%N; OBool true; OCount 18446744073709551615%N].
Proof. exact hash_c17_refuted_orig. Qed.
Print Assumptions C17_hashtable_refuted.

(* ... the specification answers "gone / not removable a second time / count 0" ... *)
Theorem C17_hashtable_refuted_spec : forall fl,
  map fst (spec_run fl s_init h_wit17) =
  [ONone; OEntries (take_stop 1 (fl_ord fl [(MapHashProofs.ka, 1%N)])); OBool true; OVal 0%N; OCount 0%N; OBool false; OCount 0%N].
Proof. exact spec_on_wit17. Qed.

(* ... and so does the repaired code (fixes/C17-hashtable-iter-free-release.patch) *)
Theorem C17_hashtable_witness_fixed :
  outs (h_run v_fixed hf8 rc_consts (h_create 8%N) h_wit17) =
  [ONone; OEntries [(MapHashProofs.ka, 1%N)]; OBool true; OVal 0%N; OCount 0%N; OBool false; OCount 0%N] /\
  snd (h_run v_fixed hf8 rc_consts (h_create 8%N) h_wit17) = None.
Proof. exact hash_c17_witness_fixed. Qed.
Print Assumptions C17_hashtable_witness_fixed.

(* ---- layer B, skiplist: after an abandoned traversal the removed value is never released, and destroy calls the
   notifiers for the header (NULL key, shown as [256]) ---- *)
Theorem C17_skiplist_refuted :
  map (fun x => free_of (snd x)) (fst (k_run kv_orig k_create k_wit17)) = [[]; []; []; []; [([256%N], 0%N)]] /\
  map fst (fst (k_run kv_orig k_create k_wit17)) = [ORc 0; ONone; OEntries [(MapSkipProofs.ka, 1%N)]; OBool true; ONone].
Proof. exact skip_c17_refuted_orig. Qed.
Print Assumptions C17_skiplist_refuted.

(* repaired (fixes/C17-skiplist-iter-free-release.patch, C17-skiplist-destroy-header-notify.patch): released at rm, once *)
Theorem C17_skiplist_witness_fixed :
  map (fun x => free_of (snd x)) (fst (k_run kv_fixed k_create k_wit17)) = [[]; []; []; [(MapSkipProofs.ka, 1%N)]; []] /\
  snd (k_run kv_fixed k_create k_wit17) = None.
Proof. exact skip_c17_witness_fixed. Qed.
Print Assumptions C17_skiplist_witness_fixed.

(* hash_fnv(): the final "& ((1 << order) - 1)" is the [mod nb] of the model, and the index is inside the table *)
Theorem C17_hash_mask_is_mod : forall (x : N) (order : nat),
  N.land x (N.shiftl 1 (N.of_nat order) - 1) = (x mod N.of_nat (2 ^ order))%N.
Proof. exact mask_is_mod. Qed.
Theorem C17_hash_bucket_in_range : forall (hf : key -> N) max_size k,
  bucket_ix hf (h_create max_size) k < length (h_buckets (h_create max_size)).
Proof. exact bucket_ix_in_range. Qed.
Print Assumptions C17_hash_bucket_in_range.
