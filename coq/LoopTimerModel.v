(* C09: executable model of the timer source of the main loop and of the poll-timeout decision.
   No proofs in this file.

   Transcribed from
     lib/loop_timerlist.c : qb_loop_timer_add, qb_loop_timer_del, _timer_from_handle_,
                            _get_empty_array_position_, qb_loop_timer_expire_time_get,
                            qb_loop_timer_expire_time_remaining, qb_loop_timer_is_running,
                            qb_loop_timer_msec_duration_to_expire, expire_the_timers,
                            make_job_from_tmo, timer_dispatch
     include/tlist.h      : timerlist_add_duration, timerlist_msec_duration_to_expire,
                            timerlist_expire (the heap itself: HeapModel.v)
     lib/loop.c           : qb_loop_run, qb_loop_run_level, qb_loop_level_item_add / _del, qb_loop_stop
     lib/loop_job.c       : qb_loop_job_add, get_more_jobs, job_dispatch (only what the timeout
                            decision of qb_loop_run needs: the 50 ms throttle)
     lib/util.c           : qb_util_nano_current_get, qb_util_nano_monotonic_hz (through the clock below)

   The clock.  CLOCK_MONOTONIC is the field `clk' (ns, a uint64_t); every read of it by the
   library (qb_util_nano_current_get) returns clk and then advances it by `cstep' (time passing
   between two reads); `Tick n' ops, the poll directive of a turn and CTick inside callbacks
   advance it further.  All advances are non-negative and saturate at 2^64 - 1, so the clock is
   monotone by construction and every monotone sequence of readings is some history.
   timerlist_hertz = 10^9 / clock_getres is the field `hz'.

   64/32-bit arithmetic is explicit where the C types narrow: expire_time = now + duration
   (uint64_t), the uint64_t -> int32_t return of qb_loop_timer_msec_duration_to_expire.

   `fixes' selects between the code as found (all false; commit 6c47408) and the code with the
   proposed repairs fixes/C09-*.patch (all true): the theorems of Properties_C09.v are about
   `fixed'; the `_refuted' statements about `as_found'.

   Callbacks are data: `beh data' is the list of API calls the user callback registered with
   user-data `data' makes when it runs.  Fd and signal sources are not modelled (no descriptors
   registered: the poll source returns no events). *)
From Coq Require Import ZArith List Bool.
Import ListNotations.
Require Import Verif.gen.Consts_looptimer Verif.HeapModel.
Local Open Scope Z_scope.

Record fixes := mkFx { f_sat : bool;     (* fixes/C09-expire-saturate.patch *)
                       f_clamp : bool;   (* fixes/C09-timeout-clamp.patch *)
                       f_todo : bool;    (* fixes/C09-run-pending-todo.patch *)
                       f_chk0 : bool }.  (* fixes/C08-timer-del-forged-handle.patch *)
Definition fixed : fixes := mkFx true true true true.
Definition as_found : fixes := mkFx false false false false.

Definition two32 : Z := 4294967296.
Definition two31 : Z := 2147483648.
Definition two64 : Z := 18446744073709551616.
Definition to_i32 (x : Z) : Z := let y := x mod two32 in if y <? two31 then y else y - two32.
Definition sat64 (x : Z) : Z := if x >? LT_UINT64_MAX then LT_UINT64_MAX else x.

(* struct qb_loop_timer (one element of the qb_array `timers') *)
Record slot := mkS { s_state : Z; s_check : Z; s_prio : Z; s_data : Z;
                     s_th : option tmr;                 (* timerlist_handle: NULL or the heap object *)
                     g_add : Z; g_dur : Z; g_fire : Z   (* ghost: clock at add, duration asked, clock at expiry *) }.
Definition zero_slot : slot := mkS 0 0 0 0 None 0 0 0.

Inductive item := ITimer (pos : Z) | IJob (data : Z).
(* struct qb_loop_level *)
Record level := mkL { job_head : list item; wait_head : list Z; todo : Z }.
Definition level0 : level := mkL [] [] 0.

Inductive ev :=
| ERet (res val : Z)            (* return of an API call: code, value *)
| ECb (kind data now : Z)       (* user callback ran: 0 timer / 1 job, user data, clock *)
| EPoll (timeout now : Z)       (* fd_source->poll(ms_timeout) = epoll_wait(.., timeout) *)
| ENote (code : Z)              (* assert failure / impossible state *)
| EDecide (timeout now root tick job_todo : Z)
| EFire (data prio add dur fire now : Z).
                                (* ghost events (not observables, never printed).
                                   ENote 2: qb_loop_timer_del was given a forged handle (one that resolves to a
                                   slot whose check word is 0: never issued by timer_add with a non-zero random()).
                                   EDecide: the timeout decision of a turn: value chosen, clock before the decision,
                                   expire_time at the root of the heap (-1: heap empty), 1000 / hertz, job_todo.
                                   EFire: a timer callback is about to run;
                                   clock when the timer was added, duration asked, clock when timerlist_expire
                                   moved it to the job list, clock now *)

Record lp := mkLP { heap : tl; next_tid : Z; slots : list slot;
                    lv0 : level; lv1 : level; lv2 : level;
                    hz : Z; clk : Z; cstep : Z; stop : bool;
                    issued : list Z;      (* handles returned by timer_add so far, oldest first (script references) *)
                    out : list ev;        (* newest first *)
                    err : bool }.

(* qb_util_nano_monotonic_hz: QB_TIME_NS_IN_SEC / (ts.tv_sec * QB_TIME_NS_IN_SEC + ts.tv_nsec) of clock_getres *)
Definition hz_of_res (res_ns : Z) : Z := LT_NS_IN_SEC / res_ns.

Definition lp_init (hz0 clk0 cstep0 : Z) : lp :=
  mkLP tl_empty 1 [] level0 level0 level0 hz0 clk0 cstep0 false [] [] false.

Definition get_lv (st : lp) (p : Z) : level :=
  if p =? LT_LOOP_LOW then lv0 st else if p =? LT_LOOP_MED then lv1 st else lv2 st.
Definition set_lv (st : lp) (p : Z) (l : level) : lp :=
  if p =? LT_LOOP_LOW then mkLP (heap st) (next_tid st) (slots st) l (lv1 st) (lv2 st) (hz st) (clk st) (cstep st) (stop st) (issued st) (out st) (err st)
  else if p =? LT_LOOP_MED then mkLP (heap st) (next_tid st) (slots st) (lv0 st) l (lv2 st) (hz st) (clk st) (cstep st) (stop st) (issued st) (out st) (err st)
  else mkLP (heap st) (next_tid st) (slots st) (lv0 st) (lv1 st) l (hz st) (clk st) (cstep st) (stop st) (issued st) (out st) (err st).
Definition set_heap (st : lp) (h : tl) : lp :=
  mkLP h (next_tid st) (slots st) (lv0 st) (lv1 st) (lv2 st) (hz st) (clk st) (cstep st) (stop st) (issued st) (out st) (err st).
Definition set_slots (st : lp) (s : list slot) : lp :=
  mkLP (heap st) (next_tid st) s (lv0 st) (lv1 st) (lv2 st) (hz st) (clk st) (cstep st) (stop st) (issued st) (out st) (err st).
Definition set_clk (st : lp) (c : Z) : lp :=
  mkLP (heap st) (next_tid st) (slots st) (lv0 st) (lv1 st) (lv2 st) (hz st) c (cstep st) (stop st) (issued st) (out st) (err st).
Definition set_stop (st : lp) (b : bool) : lp :=
  mkLP (heap st) (next_tid st) (slots st) (lv0 st) (lv1 st) (lv2 st) (hz st) (clk st) (cstep st) b (issued st) (out st) (err st).
Definition set_err (st : lp) : lp :=
  mkLP (heap st) (next_tid st) (slots st) (lv0 st) (lv1 st) (lv2 st) (hz st) (clk st) (cstep st) (stop st) (issued st)
       (ENote 1 :: out st) true.
Definition emit (st : lp) (e : ev) : lp :=
  mkLP (heap st) (next_tid st) (slots st) (lv0 st) (lv1 st) (lv2 st) (hz st) (clk st) (cstep st) (stop st) (issued st)
       (e :: out st) (err st).
Definition push_issued (st : lp) (h : Z) : lp :=
  mkLP (heap st) (next_tid st) (slots st) (lv0 st) (lv1 st) (lv2 st) (hz st) (clk st) (cstep st) (stop st) (issued st ++ [h])
       (out st) (err st).
Definition bump_tid (st : lp) : lp :=
  mkLP (heap st) (next_tid st + 1) (slots st) (lv0 st) (lv1 st) (lv2 st) (hz st) (clk st) (cstep st) (stop st) (issued st)
       (out st) (err st).

(* the virtual clock *)
Definition advance (st : lp) (n : Z) : lp := set_clk st (sat64 (clk st + Z.max 0 n)).
(* qb_util_nano_current_get *)
Definition read_clock (st : lp) : Z * lp := (clk st, advance st (cstep st)).

Definition nth_slot (st : lp) (i : Z) : option slot :=
  if (i <? 0) || (i >=? Z.of_nat (length (slots st))) then None else nth_error (slots st) (Z.to_nat i).
Definition put_slot (st : lp) (i : Z) (s : slot) : lp := set_slots st (upd (slots st) (Z.to_nat i) s).

(* ---------------------------------------------------------------- loop.c: level queues *)
(* qb_loop_level_item_add *)
Definition level_item_add (st : lp) (p : Z) (it : item) : lp :=
  let l := get_lv st p in set_lv st p (mkL (job_head l ++ [it]) (wait_head l) (todo l + 1)).

Definition item_eqb (a b : item) : bool :=
  match a, b with
  | ITimer x, ITimer y => x =? y
  | IJob x, IJob y => x =? y
  | _, _ => false
  end.
Fixpoint remove_first (it : item) (l : list item) : list item :=
  match l with
  | [] => []
  | x :: t => if item_eqb x it then t else x :: remove_first it t
  end.
(* qb_loop_level_item_del: nothing when the item is on no list (being dispatched) *)
Definition level_item_del (st : lp) (p : Z) (it : item) : lp :=
  let l := get_lv st p in
  if existsb (item_eqb it) (job_head l)
  then set_lv st p (mkL (remove_first it (job_head l)) (wait_head l) (todo l - 1))
  else st.

(* ---------------------------------------------------------------- loop_timerlist.c *)
(* _get_empty_array_position_: first EMPTY slot below timer_entry_count, else grow by one *)
Fixpoint first_empty (l : list slot) (i : Z) : Z :=
  match l with
  | [] => i
  | s :: t => if s_state s =? LT_ENTRY_EMPTY then i else first_empty t (i + 1)
  end.

(* (((uint64_t) (t->check)) << 32) | t->install_pos  -- check is an int32_t (sign-extended) *)
Definition mk_handle (check pos : Z) : Z := ((check mod two32) * two32) mod two64 + pos.

(* timer->expire_time = qb_util_nano_current_get() + nano_duration   (uint64_t) *)
Definition expire_of (fx : fixes) (now dur : Z) : Z :=
  if f_sat fx then (if dur >? LT_UINT64_MAX - now then LT_UINT64_MAX else now + dur)
  else (now + dur) mod two64.

(* qb_loop_timer_add (p in {LOW, MED, HIGH}; timer_fn != NULL; chk = what random() returns) *)
Definition timer_add (fx : fixes) (st : lp) (p dur data chk : Z) : lp :=
  let i := first_empty (slots st) 0 in
  let st := if i >=? Z.of_nat (length (slots st)) then set_slots st (slots st ++ [zero_slot]) else st in
  let check := to_i32 chk in
  let h := mk_handle check i in
  let (now, st) := read_clock st in
  let timer := mkT (expire_of fx now dur) (next_tid st) i now dur in
  let st := bump_tid st in
  match heap_add (heap st) timer with
  | None => set_err st
  | Some hp =>
    let st := set_heap st hp in
    let st := put_slot st i (mkS LT_ENTRY_ACTIVE check p data (Some timer) now dur 0) in
    emit (push_issued st h) (ERet 0 h)
  end.

Inductive lookup_res := LErr (e : Z) | LOk (i : Z) (s : slot).
(* _timer_from_handle_ (qb_array_index grows the array on an index past its end: a zeroed element) *)
Definition timer_from_handle (fx : fixes) (st : lp) (h : Z) : lookup_res :=
  if h =? 0 then LErr LT_EINVAL else
  let check := to_i32 (h / two32) in
  let idx := to_i32 (h mod two32) in
  if f_chk0 fx && (check =? 0) then LErr LT_EINVAL else      (* repaired code: if (check == 0) return -EINVAL; *)
  if idx <? 0 then LErr LT_ERANGE else
  match nth_slot st idx with
  | Some s => if s_check s =? check then LOk idx s else LErr LT_EINVAL
  | None => if idx + 1 >? LT_ARRAY_MAX_ELEMENTS then LErr LT_EINVAL
            else if 0 =? check then LOk idx zero_slot else LErr LT_EINVAL
  end.

Definition with_th (s : slot) (t : option tmr) : slot :=
  mkS (s_state s) (s_check s) (s_prio s) (s_data s) t (g_add s) (g_dur s) (g_fire s).
Definition with_state (s : slot) (x : Z) : slot :=
  mkS x (s_check s) (s_prio s) (s_data s) (s_th s) (g_add s) (g_dur s) (g_fire s).
Definition with_check (s : slot) (x : Z) : slot :=
  mkS (s_state s) x (s_prio s) (s_data s) (s_th s) (g_add s) (g_dur s) (g_fire s).
Definition with_fire (s : slot) (x : Z) : slot :=
  mkS (s_state s) (s_check s) (s_prio s) (s_data s) (s_th s) (g_add s) (g_dur s) x.

(* qb_loop_timer_del *)
Definition timer_del (fx : fixes) (st : lp) (h : Z) : lp :=
  match timer_from_handle fx st h with
  | LErr e => emit st (ERet (- e) 0)
  | LOk i t =>
    let st := if s_check t =? 0 then emit st (ENote 2) else st in      (* ghost: forged handle *)
    if s_state t =? LT_ENTRY_DELETED then emit st (ERet 0 0)
    else if negb (s_state t =? LT_ENTRY_ACTIVE) && negb (s_state t =? LT_ENTRY_JOBLIST) then emit st (ERet (- LT_EINVAL) 0)
    else
      let st := if s_state t =? LT_ENTRY_JOBLIST then level_item_del st (s_prio t) (ITimer i) else st in
      match s_th t with
      | Some tm =>
        match heap_delete (heap st) tm with           (* timerlist_del: memset(handle_addr), heap_delete, free *)
        | None => set_err st
        | Some hp =>
          let st := set_heap st hp in
          emit (put_slot st i (with_state (with_th t None) LT_ENTRY_EMPTY)) (ERet 0 0)
        end
      | None => emit (put_slot st i (with_state t LT_ENTRY_EMPTY)) (ERet 0 0)
      end
  end.

(* qb_loop_timer_expire_time_get *)
Definition expire_time_get (fx : fixes) (st : lp) (h : Z) : Z :=
  match timer_from_handle fx st h with
  | LErr _ => 0
  | LOk _ t =>
    if negb (s_state t =? LT_ENTRY_ACTIVE) then 0
    else match s_th t with Some tm => t_exp tm | None => 0 end
  end.

(* qb_loop_timer_is_running *)
Definition is_running (fx : fixes) (st : lp) (h : Z) : Z := if expire_time_get fx st h >? 0 then 1 else 0.

(* qb_loop_timer_expire_time_remaining *)
Definition time_remaining (fx : fixes) (st : lp) (h : Z) : Z * lp :=
  match timer_from_handle fx st h with
  | LErr _ => (0, st)
  | LOk _ t =>
    if negb (s_state t =? LT_ENTRY_ACTIVE) then (0, st)
    else
      let (now, st) := read_clock st in
      let timer_ns := match s_th t with Some tm => t_exp tm | None => 0 end in
      if timer_ns <? now then (0, st) else (timer_ns - now, st)
  end.

(* timerlist_msec_duration_to_expire: uint64_t; (uint64_t)-1 when the heap is empty *)
Definition tl_msec_to_expire (st : lp) : Z * lp :=
  if size (heap st) =? 0 then (LT_UINT64_MAX, st)
  else
    match entry_get (heap st) 0 with
    | None => (LT_UINT64_MAX, set_err st)
    | Some tm =>
      let (now, st) := read_clock st in
      if t_exp tm <? now then (0, st)
      else (((t_exp tm - now) / LT_NS_IN_MSEC + 1000 / hz st) mod two64, st)
    end.

(* qb_loop_timer_msec_duration_to_expire: int32_t *)
Definition narrow_timeout (fx : fixes) (left : Z) : Z :=
  if f_clamp fx
  then (if negb (left =? LT_UINT64_MAX) && (left >? LT_INT32_MAX) then LT_INT32_MAX else to_i32 left)
  else (if negb (left =? LT_UINT64_MAX) && (left >? 4294967295) then to_i32 4294967294 else to_i32 left).
Definition msec_to_expire (fx : fixes) (st : lp) : Z * lp :=
  let (left, st) := tl_msec_to_expire st in (narrow_timeout fx left, st).

(* make_job_from_tmo (the timer_fn of every heap object), after timerlist_pre_dispatch cleared
   t->timerlist_handle through handle_addr *)
Definition make_job_from_tmo (now : Z) (st : lp) (tm : tmr) : lp :=
  match nth_slot st (t_data tm) with
  | None => set_err st
  | Some t =>
    if negb (s_state t =? LT_ENTRY_ACTIVE) then set_err st          (* assert(t->state == QB_POLL_ENTRY_ACTIVE) *)
    else
      let st := level_item_add st (s_prio t) (ITimer (t_data tm)) in
      put_slot st (t_data tm)
               (mkS LT_ENTRY_JOBLIST (s_check t) (s_prio t) (s_data t) None (t_add tm) (t_dur tm) now)
  end.

(* expire_the_timers = timerlist_expire + the callbacks; returns expired_timers *)
Definition expire_timers (st : lp) : Z * lp :=
  let (now, st) := read_clock st in
  match heap_expire (heap st) now with
  | None => (0, set_err st)
  | Some (hp, popped) =>
    (Z.of_nat (length popped), fold_left (make_job_from_tmo now) popped (set_heap st hp))
  end.

(* ---------------------------------------------------------------- loop_job.c *)
(* qb_loop_job_add *)
Definition job_add (st : lp) (p data : Z) : lp :=
  if (p <? LT_LOOP_LOW) || (p >? LT_LOOP_HIGH) then emit st (ERet (- LT_EINVAL) 0)
  else let l := get_lv st p in
       emit (set_lv st p (mkL (job_head l) (wait_head l ++ [data]) (todo l))) (ERet 0 0).

Definition more_jobs_level (acc : Z * lp) (p : Z) : Z * lp :=
  let (n, st) := acc in
  let l := get_lv st p in
  match wait_head l with
  | [] => (n, st)
  | _ => let k := Z.of_nat (length (wait_head l)) in
         (n + k, set_lv st p (mkL (job_head l ++ map IJob (wait_head l)) [] (todo l + k)))
  end.
(* get_more_jobs: for (p = LOW; p <= HIGH; p++) *)
Definition get_more_jobs (st : lp) : Z * lp :=
  fold_left more_jobs_level [LT_LOOP_LOW; LT_LOOP_MED; LT_LOOP_HIGH] (0, st).

(* ---------------------------------------------------------------- callbacks as data *)
Inductive href := RIssued (k : Z) | RLit (h : Z).
Inductive cbop :=
| CAdd (p dur data chk : Z)     (* qb_loop_timer_add; random() returns chk *)
| CDel (r : href)               (* qb_loop_timer_del *)
| CExp (r : href)               (* qb_loop_timer_expire_time_get *)
| CRem (r : href)               (* qb_loop_timer_expire_time_remaining *)
| CRun (r : href)               (* qb_loop_timer_is_running *)
| CMsec                         (* qb_loop_timer_msec_duration_to_expire *)
| CJob (p data : Z)             (* qb_loop_job_add *)
| CStop                         (* qb_loop_stop *)
| CTick (n : Z).                (* time passes *)

Definition resolve (st : lp) (r : href) : Z :=
  match r with
  | RLit h => h
  | RIssued k => if (k <? 0) || (k >=? Z.of_nat (length (issued st))) then 0 else nth (Z.to_nat k) (issued st) 0
  end.

Definition exec_cbop (fx : fixes) (st : lp) (c : cbop) : lp :=
  if err st then st else
  match c with
  | CAdd p dur data chk => timer_add fx st p dur data chk
  | CDel r => timer_del fx st (resolve st r)
  | CExp r => emit st (ERet 0 (expire_time_get fx st (resolve st r)))
  | CRem r => let (v, st') := time_remaining fx st (resolve st r) in emit st' (ERet 0 v)
  | CRun r => emit st (ERet 0 (is_running fx st (resolve st r)))
  | CMsec => let (v, st') := msec_to_expire fx st in emit st' (ERet 0 v)
  | CJob p data => job_add st p data
  | CStop => set_stop st true
  | CTick n => advance st n
  end.

Definition behaviour := list (Z * list cbop).
Fixpoint beh_of (b : behaviour) (data : Z) : list cbop :=
  match b with
  | [] => []
  | (d, l) :: t => if d =? data then l else beh_of t data
  end.

(* job->source->dispatch_and_take_back(job, level->priority): timer_dispatch / job_dispatch *)
Definition dispatch (fx : fixes) (beh : behaviour) (st : lp) (it : item) : lp :=
  match it with
  | ITimer i =>
    match nth_slot st i with
    | None => set_err st
    | Some t =>
      if negb (s_state t =? LT_ENTRY_JOBLIST) then set_err st       (* assert(timer->state == QB_POLL_ENTRY_JOBLIST) *)
      else
        let st := put_slot st i (with_check t 0) in
        let st := emit st (EFire (s_data t) (s_prio t) (g_add t) (g_dur t) (g_fire t) (clk st)) in
        let st := emit st (ECb 0 (s_data t) (clk st)) in
        let st := fold_left (exec_cbop fx) (beh_of beh (s_data t)) st in
        match nth_slot st i with
        | None => set_err st
        | Some t' => put_slot st i (with_state t' LT_ENTRY_EMPTY)
        end
    end
  | IJob data =>
    let st := emit st (ECb 1 data (clk st)) in
    fold_left (exec_cbop fx) (beh_of beh data) st
  end.

(* qb_loop_run_level: n = to_process - processed before taking the next job *)
Fixpoint run_level (fx : fixes) (beh : behaviour) (n : nat) (st : lp) (p : Z) : lp :=
  if err st then st else
  let l := get_lv st p in
  match job_head l with
  | [] => st
  | job :: rest =>
    let st := set_lv st p (mkL rest (wait_head l) (todo l)) in                  (* qb_list_del + qb_list_init *)
    let st := dispatch fx beh st job in
    let l' := get_lv st p in
    let st := set_lv st p (mkL (job_head l') (wait_head l') (todo l' - 1)) in  (* level->todo-- *)
    if stop st then st
    else match n with
         | S n' => match n' with
                   | S _ => run_level fx beh n' st p     (* processed < level->to_process *)
                   | O => st
                   end
         | O => st
         end
  end.

(* the for (p = HIGH; p >= LOW; p--) loop at the end of a turn; returns (state, remaining_todo, returned) *)
Fixpoint run_levels (fx : fixes) (beh : behaviour) (ps : list Z) (st : lp) (p_stop rem : Z) : lp * Z * bool :=
  match ps with
  | [] => (st, rem, false)
  | p :: ps' =>
    if p >=? p_stop then
      let st := run_level fx beh (Z.to_nat LT_TO_PROCESS) st p in
      if stop st then (st, rem, true)
      else run_levels fx beh ps' st p_stop (rem + todo (get_lv st p))
    else run_levels fx beh ps' st p_stop (rem + todo (get_lv st p))
  end.

Definition prios_desc : list Z := [LT_LOOP_HIGH; LT_LOOP_MED; LT_LOOP_LOW].

(* the timeout decision of qb_loop_run *)
Definition choose_timeout (fx : fixes) (st : lp) (remaining_todo timer_todo job_todo : Z) : Z * lp :=
  if (remaining_todo >? 0) || (timer_todo >? 0) then (0, st)
  else if job_todo >? 0 then (50, st)
  else msec_to_expire fx st.

(* the do { } while (!l->stop_requested) of qb_loop_run, one directive per turn:
   d >= 0: the poll source returns after d ns; d < 0: after the timeout it was given plus (-d - 1) ns
   (a negative timeout counts as 0 here - the harness records it); the last directive also requests a stop
   (the harness calls qb_loop_stop from inside its epoll_wait). *)
Fixpoint run_turns (fx : fixes) (beh : behaviour) (dirs : list Z) (st : lp) (p_stop remaining_todo : Z) : lp :=
  match dirs with
  | [] => st
  | d :: rest =>
    if err st then st else
    let p_stop := if p_stop =? LT_LOOP_LOW then LT_LOOP_HIGH else p_stop - 1 in
    let (job_todo, st) := get_more_jobs st in
    let (timer_todo, st) := expire_timers st in
    let now0 := clk st in
    let root := match entry_get (heap st) 0 with Some r => t_exp r | None => -1 end in
    let (ms_timeout, st) := choose_timeout fx st remaining_todo timer_todo job_todo in
    let st := emit st (EDecide ms_timeout now0 root (1000 / hz st) job_todo) in
    let st := emit st (EPoll ms_timeout (clk st)) in
    let st := advance st (if d <? 0 then (if ms_timeout <? 0 then 0 else ms_timeout * LT_NS_IN_MSEC) + (- d - 1) else d) in
    let st := match rest with [] => set_stop st true | _ => st end in
    let '(st, rem, returned) := run_levels fx beh prios_desc st p_stop 0 in
    if returned then st
    else if stop st then st
    else run_turns fx beh rest st p_stop rem
  end.

Definition total_todo (st : lp) : Z := todo (lv0 st) + todo (lv1 st) + todo (lv2 st).

(* qb_loop_run *)
Definition loop_run (fx : fixes) (beh : behaviour) (st : lp) (dirs : list Z) : lp :=
  match dirs with
  | [] => st
  | _ =>
    let st := set_stop st false in
    run_turns fx beh dirs st LT_LOOP_LOW (if f_todo fx then total_todo st else 0)
  end.

Inductive op := Cb (c : cbop) | Run (dirs : list Z).

Definition step (fx : fixes) (beh : behaviour) (st : lp) (o : op) : lp :=
  if err st then st else
  match o with
  | Cb c => exec_cbop fx st c
  | Run dirs => loop_run fx beh st dirs
  end.

Definition run (fx : fixes) (beh : behaviour) (st : lp) (ops : list op) : lp := fold_left (step fx beh) ops st.
