(* C04 - the ghost phase of every connection IS the state of the order automaton run over the logged callbacks:
   a second, independent invariant (it does not need GI), preserved by every function of the model and every
   callback interpreter.  With it "no OrderViolation" (IpcLifeProofs7) becomes a statement about the callback log. *)
Require Import ZArith List Bool Lia.
Require Import Verif.IpcLifeModel Verif.IpcLifeProofs.
Import ListNotations.
Open Scope Z_scope.

(* the automaton over the log (newest event first); None = some callback of c was out of order *)
Fixpoint tphs (l : list ev) (c : nat) : option phase :=
  match l with
  | [] => Some PNone
  | e :: t =>
    match e with
    | ENew c' => if Nat.eqb c' c then Some P0 else tphs t c
    | ECb k c' r => if Nat.eqb c' c
                    then match tphs t c with Some q => phase_step k r q | None => None end
                    else tphs t c
    | _ => tphs t c
    end
  end.

Definition TI (w : world) : Prop := forall c, tphs (log w) c = Some (c_ph (conns w c)).
Definition tsafe (r : R) : Prop := match r with Ok w _ => TI w | Fail _ _ => True end.

Lemma TI_same : forall w w',
  (forall c, c_ph (conns w' c) = c_ph (conns w c)) -> (forall c, tphs (log w') c = tphs (log w) c) -> TI w -> TI w'.
Proof. unfold TI; intros. rewrite H, H0. auto. Qed.
Lemma tsafe_bind : forall r f, tsafe r -> (forall w z, TI w -> tsafe (f w z)) -> tsafe (bind r f).
Proof. intros [w z|e w] f; simpl; auto. Qed.
Lemma tsafe_chk : forall c w k, tsafe k -> tsafe (chk c w k).
Proof. intros; unfold chk; destruct (c_alloc (conns w c)); simpl; auto. Qed.
Lemma tsafe_chks : forall w k, tsafe k -> tsafe (chks w k).
Proof. intros; unfold chks; destruct (s_alloc w); simpl; auto. Qed.

Ltac tleaf :=
  match goal with
  | Hti : TI ?w0 |- TI _ => apply (TI_same w0); [ solve [ext] | solve [intros; simpl; reflexivity] | exact Hti ]
  end.

Ltac tgo :=
  cbv zeta;
  repeat (first
    [ progress intros
    | match goal with
      | |- tsafe (bind _ _) => apply tsafe_bind; [| intros ? ? ?]
      | |- tsafe (chk _ _ _) => apply tsafe_chk
      | |- tsafe (chks _ _) => apply tsafe_chks
      | |- tsafe (Fail _ _) => exact I
      | |- tsafe (Ok _ _) => simpl; tleaf
      | |- tsafe (if ?b then _ else _) => destruct b
      | |- tsafe (match ?x with _ => _ end) => destruct x
      | |- TI _ => tleaf
      end ]).

Section Lib.
  Variable cb : kind -> nat -> world -> R.
  Hypothesis cbT : forall k c w, TI w -> tsafe (cb k c w).

  Lemma unref_s_T : forall w, TI w -> tsafe (unref_s w).
  Proof. intros. unfold unref_s. tgo. Qed.

  Lemma funcs_disconnect_T : forall c w, TI w -> TI (funcs_disconnect c w).
  Proof. intros. unfold funcs_disconnect. destruct (c_st (conns w c)); auto; tleaf. Qed.

  Lemma ref_T : forall c w, TI w -> tsafe (conn_ref c w).
  Proof. intros. unfold conn_ref. tgo. Qed.

  Lemma unref_T : forall c w, TI w -> tsafe (conn_unref cb c w).
  Proof.
    intros. unfold conn_unref. tgo.
    - apply cbT. tleaf.
    - apply unref_s_T. apply funcs_disconnect_T. auto.
  Qed.

  Lemma disconnect_sd_T : forall fixed c w, TI w -> tsafe (disconnect_sd fixed cb c w).
  Proof.
    intros. unfold disconnect_sd. destruct fixed; tgo.
    all: try (apply cbT; auto; tleaf).
    all: try (apply unref_T; auto).
  Qed.

  Lemma disconnect_T : forall fixed c w, TI w -> tsafe (disconnect fixed cb c w).
  Proof.
    intros. unfold disconnect. apply tsafe_chk.
    destruct (c_st (conns w c)); tgo.
    - apply unref_T. pose proof (funcs_disconnect_T c w H). tleaf.
    - apply disconnect_sd_T. pose proof (funcs_disconnect_T c w H). tleaf.
    - apply disconnect_sd_T. auto.
  Qed.

  Lemma job_run_T : forall fixed c w, TI w -> tsafe (job_run fixed cb c w).
  Proof. intros. unfold job_run. destruct fixed; tgo; apply disconnect_T; auto; tleaf. Qed.

  Lemma srv_send_T : forall c w, TI w -> tsafe (srv_send cb c w).
  Proof. intros. unfold srv_send. tgo. apply ref_T; auto. apply unref_T; auto. Qed.

  Lemma req_loop_T : forall fixed n c avail w, TI w -> tsafe (req_loop fixed cb n c avail w).
  Proof.
    induction n; intros; simpl; auto. tgo.
    - apply cbT. tleaf.
    - apply IHn. auto.
  Qed.

  Lemma dispatch_T : forall shm fixed c hup w, TI w -> tsafe (dispatch shm fixed cb c hup w).
  Proof.
    intros. unfold dispatch. apply tsafe_chk. apply tsafe_bind.
    { destruct fixed; [apply ref_T; auto | simpl; auto]. }
    intros w0 z0 T0.
    assert (Fin : forall w res, TI w ->
              tsafe (bind (if res =? 0 then Ok w 0 else disconnect fixed cb c w)
                          (fun w' _ => if fixed then conn_unref cb c w' else Ok w' 0))).
    { intros w1 res T1. apply tsafe_bind.
      - destruct (res =? 0); simpl; auto. apply disconnect_T; auto.
      - intros w2 z2 T2. destruct fixed; simpl; auto. apply unref_T; auto. }
    destruct hup; [apply Fin; auto|].
    apply tsafe_chk. destruct (negb (c_fc (conns w0 c) =? 0)); [apply Fin; auto|].
    apply tsafe_chks. destruct (shm && (q_len c w0 =? 0)); [apply Fin; auto|].
    apply tsafe_bind. apply req_loop_T; auto.
    intros w1 z1 T1. destruct (z1 =? 1); [apply Fin; auto|]. apply tsafe_chk. apply Fin; auto.
  Qed.

  Lemma liveliness_T : forall fixed c w, TI w -> tsafe (liveliness fixed cb c w).
  Proof. intros. unfold liveliness. apply tsafe_chk. apply disconnect_T; auto. Qed.

  Lemma first_get_T : forall w, TI w -> tsafe (first_get w).
  Proof. intros. unfold first_get. tgo. apply ref_T; auto. Qed.
  Lemma next_get_T : forall c w, TI w -> tsafe (next_get c w).
  Proof. intros. unfold next_get. tgo. apply ref_T; auto. Qed.

  Lemma walk_T : forall fixed lg disc fuel c w, TI w -> tsafe (walk fixed cb lg disc fuel c w).
  Proof.
    induction fuel; intros; simpl; auto.
    apply tsafe_bind.
    { destruct disc; [apply disconnect_T | simpl]; destruct lg; auto; tleaf. }
    intros w1 z1 T1. apply tsafe_bind. apply next_get_T; auto.
    intros w2 n T2. apply tsafe_bind. apply unref_T; auto.
    intros w3 z3 T3. destruct (n <? 0); simpl; auto.
  Qed.

  Lemma iterate_T : forall fixed lg disc w, TI w -> tsafe (iterate fixed cb lg disc w).
  Proof.
    intros. unfold iterate. apply tsafe_bind. apply first_get_T; auto.
    intros w1 z T1. destruct (z <? 0); [simpl; auto | apply walk_T; auto].
  Qed.

  Lemma walk_orig_T : forall fixed fuel pos w, TI w -> tsafe (walk_orig fixed cb fuel pos w).
  Proof.
    induction fuel; intros; simpl; auto. apply tsafe_chk. apply tsafe_bind. apply disconnect_T; auto.
    intros w1 z1 T1. destruct (succ_of pos (s_list w)); simpl; auto.
  Qed.

  Lemma destroy_T : forall fixed w, TI w -> tsafe (destroy fixed cb w).
  Proof.
    intros. unfold destroy. apply tsafe_chks. apply tsafe_bind.
    { destruct fixed; [apply iterate_T; auto|]. destruct (s_list w); [simpl; auto | apply walk_orig_T; auto]. }
    intros w1 z1 T1. apply tsafe_chks. apply unref_s_T. tleaf.
  Qed.

  Lemma rate_one_T : forall fixed newfc changed c w, TI w -> tsafe (rate_one fixed cb newfc changed c w).
  Proof.
    intros. unfold rate_one. apply tsafe_chk. cbv zeta.
    destruct (fixed && negb _); [simpl; auto|].
    destruct (st_eqb _ _ && _); [exact I|].
    apply tsafe_bind. apply ref_T; auto.
    intros w1 z1 T1. apply tsafe_chk.
    assert (T2 : TI (if c_fc (conns w1 c) =? newfc then w1 else put c (w_fc newfc (conns w1 c)) w1)).
    { destruct (c_fc (conns w1 c) =? newfc); auto. tleaf. }
    destruct changed; [apply tsafe_chk; apply tsafe_chks|]; apply unref_T; auto.
  Qed.
  Lemma rate_loop_T : forall fixed newfc changed l w, TI w -> tsafe (rate_loop fixed cb newfc changed l w).
  Proof. induction l; intros; simpl; auto. apply tsafe_bind. apply rate_one_T; auto. intros; apply IHl; auto. Qed.
  Lemma rate_limit_T : forall fixed rl w, TI w -> tsafe (rate_limit fixed cb rl w).
  Proof. intros. unfold rate_limit. apply tsafe_chks. apply rate_loop_T. tleaf. Qed.

  Lemma do_action_T : forall shm fixed a self w, TI w -> tsafe (do_action shm fixed cb a self w).
  Proof.
    intros. destruct a; simpl; unfold on_conn.
    - tgo. apply disconnect_T. tleaf.
    - tgo. apply ref_T. tleaf.
    - tgo. apply unref_T. tleaf.
    - tgo. apply srv_send_T. tleaf.
    - tgo. apply srv_send_T. tleaf.
    - tgo. apply destroy_T. tleaf.
    - tgo. apply rate_limit_T. tleaf.
    - tgo. apply iterate_T. tleaf.
    - tgo. apply iterate_T. tleaf.
  Qed.
  Lemma do_actions_T : forall shm fixed l self w, TI w -> tsafe (do_actions shm fixed cb l self w).
  Proof. induction l; intros; simpl; auto. apply tsafe_bind. apply do_action_T; auto. intros; apply IHl; auto. Qed.

  Lemma handle_new_T : forall fixed slot resp_ok w, TI w -> tsafe (handle_new fixed cb slot resp_ok w).
  Proof.
    intros. unfold handle_new. apply tsafe_chks. cbv zeta.
    apply tsafe_bind.
    { apply cbT. intros c. simpl. unfold updf.
      destruct (Nat.eqb_spec (next w) c);
        [ subst; rewrite ?Nat.eqb_refl; reflexivity
        | destruct (Nat.eqb_spec c (next w)); try congruence; apply H ]. }
    intros w2 r T2. apply tsafe_chk.
    destruct (negb (r =? 0)).
    - apply tsafe_bind. apply unref_T; auto. intros w3 z3 T3. simpl. tleaf.
    - apply tsafe_chks. destruct (negb resp_ok).
      + apply tsafe_bind. apply disconnect_T. tleaf. intros w5 z5 T5. simpl. tleaf.
      + apply tsafe_bind. apply ref_T. tleaf.
        intros w5 z5 T5. apply tsafe_bind. apply cbT; auto.
        intros w6 z6 T6. apply tsafe_chk. apply tsafe_bind.
        { apply unref_T. destruct (st_eqb (c_st (conns w6 (next w))) ACTIVE); auto. tleaf. }
        intros w8 z8 T8. destruct (st_eqb (c_st (conns w6 (next w))) ACTIVE); simpl; auto; tleaf.
  Qed.
End Lib.

(* the callback interpreter keeps log and ghost phase in step, at every nesting depth *)
Lemma TI_cb : forall w k c ret p b, TI w -> phase_step k ret (c_ph (conns w c)) = Some p ->
  TI (logit (ECb k c ret) (put c (w_ph p (conns w c)) (set_behs b w))).
Proof.
  intros w k c ret p b T E c'. simpl. unfold updf.
  destruct (Nat.eqb_spec c c');
    [ subst; rewrite ?Nat.eqb_refl; rewrite (T c'); simpl; auto
    | destruct (Nat.eqb_spec c' c); try congruence; apply T ].
Qed.

Lemma invoke_T : forall shm fixed n k c w, TI w -> tsafe (invoke shm fixed n k c w).
Proof.
  induction n; intros k c w T.
  - cbn [invoke]. cbn [conns set_behs]. destruct (phase_step _ _ _) eqn:E; [|exact I].
    destruct (match k with KDestroyed => _ | _ => false end); [exact I|].
    simpl tsafe. apply TI_cb; auto.
  - cbn [invoke]. cbn [conns set_behs]. destruct (phase_step _ _ _) eqn:E; [|exact I].
    destruct (match k with KDestroyed => _ | _ => false end); [exact I|].
    apply tsafe_bind.
    + apply do_actions_T. { intros; apply IHn; auto. } apply TI_cb; auto.
    + intros w3 z3 T3. simpl. auto.
Qed.

Lemma jobs_loop_T : forall shm fixed depth n w, TI w -> tsafe (jobs_loop shm fixed depth n w).
Proof.
  induction n; intros; simpl; auto. destruct (jobs w) eqn:E; simpl; auto.
  apply tsafe_bind. apply job_run_T. { intros; apply invoke_T; auto. } tleaf.
  intros; apply IHn; auto.
Qed.

Lemma step_T : forall shm fixed depth o w, TI w -> tsafe (step shm fixed depth o w).
Proof.
  intros shm fixed depth o w T.
  assert (CB : forall k c w, TI w -> tsafe (invoke shm fixed depth k c w)) by (intros; apply invoke_T; auto).
  destruct o; simpl.
  - tleaf.
  - destruct (_ && _ && _); simpl; auto. apply handle_new_T; auto.
  - destruct (if Nat.ltb slot maxslots then slots w slot else None); simpl; auto.
    destruct (_ && _ && _ && _); simpl; auto. tleaf.
  - destruct (if Nat.ltb slot maxslots then slots w slot else None); simpl; auto. destruct empty; tleaf.
  - cbv zeta.
    assert (T' : TI (if empty && negb shm then put c (w_nreq 0 (conns w c)) w else w)).
    { destruct (empty && negb shm); auto. tleaf. }
    set (w' := if empty && negb shm then _ else w) in *.
    destruct (Nat.ltb c (next w') && c_reg (conns w' c)); simpl; auto.
    destruct shm.
    + destruct (c_hup (conns w' c) || (0 <? c_nreq (conns w' c))); simpl; auto.
      apply tsafe_bind. apply dispatch_T; auto. intros; simpl; auto.
    + apply tsafe_bind.
      { destruct (0 <? c_nreq (conns w' c)); simpl; auto. apply tsafe_bind. apply dispatch_T; auto. intros; simpl; auto. }
      intros w1 n1 T1. destruct (c_reg (conns w1 c) && c_hup (conns w1 c)); simpl; auto.
      apply tsafe_bind. apply liveliness_T; auto. intros; simpl; auto.
  - apply tsafe_bind. apply jobs_loop_T; auto. intros; simpl; auto.
  - apply do_action_T; auto.
Qed.

Lemma run_T : forall shm fixed depth ops w, TI w -> tsafe (run shm fixed depth ops w).
Proof.
  induction ops; intros; simpl; auto. apply tsafe_bind. apply step_T; auto. intros; apply IHops; auto.
Qed.

Lemma TI_world0 : TI world0.
Proof. intros c. reflexivity. Qed.
