(* C17 trie part, iteration: trie_node_next enumerates the present nodes in pre-order (children from the highest
   index down = ascending signed-char order), each exactly once. *)
From Coq Require Import List ZArith Bool Arith Lia.
Import ListNotations.
Require Import Verif.gen.Consts_trie Verif.MapTrieModel Verif.MapTrieProofs.

(* the present nodes strictly below t, in traversal order *)
Definition self_list (al : tnode -> list ninfo) (c : option tnode) : list ninfo :=
  match c with Some t => (if alive t then [t_info t] else []) ++ al t | None => [] end.

Fixpoint al_t (t : tnode) {struct t} : list ninfo :=
  match t with TN _ _ f => al_f f end
with al_f (f : forest) {struct f} : list ninfo :=
  match f with
  | FNil => []
  | FCons c f' => al_f f' ++ match c with Some t => (if alive t then [t_info t] else []) ++ al_t t | None => [] end
  end.

(* the present nodes that come strictly after position rel (a path below t) *)
Fixpoint after_t (t : tnode) (rel : path) {struct t} : list ninfo :=
  match t with
  | TN _ _ f => match rel with [] => al_f f | j :: rel' => after_f f j rel' end
  end
with after_f (f : forest) (j : nat) (rel : path) {struct f} : list ninfo :=
  match f with
  | FNil => []
  | FCons c f' =>
    match j with
    | 0 => match c with Some t => after_t t rel | None => [] end
    | S j' => after_f f' j' rel ++ match c with Some t => (if alive t then [t_info t] else []) ++ al_t t | None => [] end
    end
  end.

Definition get_f (f : forest) (p : path) : option tnode :=
  match p with [] => None | j :: p' => match fget f j with Some c => get_at c p' | None => None end end.

Lemma get_at_cons : forall i s f p, p <> [] -> get_at (TN i s f) p = get_f f p.
Proof. intros. destruct p; [congruence|]. reflexivity. Qed.

Definition after_ff (f : forest) (p : path) : list ninfo :=
  match p with [] => al_f f | j :: p' => after_f f j p' end.

Lemma get_f_bump : forall c f p, p <> [] -> get_f (FCons c f) (bump p) = get_f f p.
Proof. intros. destruct p; [congruence|]. reflexivity. Qed.

Lemma after_ff_bump : forall c f p, p <> [] ->
  after_ff (FCons c f) (bump p) = after_ff f p ++ match c with Some t => (if alive t then [t_info t] else []) ++ al_t t | None => [] end.
Proof. intros. destruct p; [congruence|]. reflexivity. Qed.

(* mutual induction over nodes and children arrays (the generated scheme has no hypothesis for the node inside
   the option) *)
Section TnodeForestInd.
  Variables (P : tnode -> Prop) (Q : forest -> Prop).
  Hypothesis hT : forall i s f, Q f -> P (TN i s f).
  Hypothesis hN : Q FNil.
  Hypothesis hC0 : forall f, Q f -> Q (FCons None f).
  Hypothesis hC1 : forall t f, P t -> Q f -> Q (FCons (Some t) f).
  Fixpoint tnode_ind2 (t : tnode) : P t :=
    match t with TN i s f => hT i s f (forest_ind2 f) end
  with forest_ind2 (f : forest) : Q f :=
    match f with
    | FNil => hN
    | FCons None f' => hC0 f' (forest_ind2 f')
    | FCons (Some t) f' => hC1 t f' (tnode_ind2 t) (forest_ind2 f')
    end.
  Lemma tnode_forest_ind : (forall t, P t) /\ (forall f, Q f).
  Proof. split; [exact tnode_ind2 | exact forest_ind2]. Qed.
End TnodeForestInd.

(* first: Some p = the head of the list of present nodes, None = the list is empty *)
Definition first_spec_t (t : tnode) : Prop :=
  match first_t t with
  | Some p => p <> [] /\ exists tn, get_at t p = Some tn /\ alive tn = true /\ al_t t = t_info tn :: after_t t p
  | None => al_t t = []
  end.
Definition first_spec_f (f : forest) : Prop :=
  match first_f f with
  | Some p => p <> [] /\ exists tn, get_f f p = Some tn /\ alive tn = true /\ al_f f = t_info tn :: after_ff f p
  | None => al_f f = []
  end.

Lemma first_spec : (forall t, first_spec_t t) /\ (forall f, first_spec_f f).
Proof.
  apply tnode_forest_ind.
  - intros i s f IH. unfold first_spec_t, first_spec_f in *. cbn [first_t al_t].
    destruct (first_f f) as [p|]; auto.
    destruct IH as [Hp [tn [G [A E]]]]. split; auto. exists tn. rewrite get_at_cons by auto.
    split; [exact G|]. split; [exact A|]. rewrite E. destruct p; [congruence|]. reflexivity.
  - unfold first_spec_f. simpl. reflexivity.
  - intros f IHf. unfold first_spec_f in *. cbn [first_f al_f].
    destruct (first_f f) as [p|].
    + destruct IHf as [Hp [tn [G [A E]]]]. split. { destruct p; [congruence|]. discriminate. }
      exists tn. rewrite get_f_bump by auto. split; [exact G|]. split; [exact A|].
      rewrite after_ff_bump by auto. rewrite E. reflexivity.
    + rewrite IHf. reflexivity.
  - intros t f IHc IHf. unfold first_spec_f in *. cbn [first_f al_f].
    destruct (first_f f) as [p|].
    + destruct IHf as [Hp [tn [G [A E]]]]. split. { destruct p; [congruence|]. discriminate. }
      exists tn. rewrite get_f_bump by auto. split; [exact G|]. split; [exact A|].
      rewrite after_ff_bump by auto. rewrite E. reflexivity.
    + rewrite IHf. simpl.
      destruct (alive t) eqn:A.
      * split; [discriminate|]. exists t. simpl. split; [reflexivity|]. split; [exact A|]. destruct t. reflexivity.
      * simpl. unfold first_spec_t in IHc. destruct (first_t t) as [p|].
        -- destruct IHc as [Hp [tn [G [A2 E]]]]. split; [discriminate|]. exists tn. simpl.
           split; [exact G|]. split; [exact A2|]. rewrite E. reflexivity.
        -- exact IHc.
Qed.

(* next: Some p = the head of the present nodes after position rel, None = there is none *)
Definition next_spec_t (t : tnode) : Prop := forall rel,
  match next_t t rel with
  | Some p => p <> [] /\ exists tn, get_at t p = Some tn /\ alive tn = true /\ after_t t rel = t_info tn :: after_t t p
  | None => after_t t rel = []
  end.
Definition next_spec_f (f : forest) : Prop := forall j rel,
  match next_f f j rel with
  | Some p => p <> [] /\ exists tn, get_f f p = Some tn /\ alive tn = true /\ after_f f j rel = t_info tn :: after_ff f p
  | None => after_f f j rel = []
  end.

Lemma after_t_nil : forall t, after_t t [] = al_t t.
Proof. destruct t. reflexivity. Qed.

Lemma next_spec : (forall t, next_spec_t t) /\ (forall f, next_spec_f f).
Proof.
  apply tnode_forest_ind.
  - intros i s f IH rel. cbn [next_t after_t]. destruct rel as [|j rel'].
    + pose proof (proj2 first_spec f) as F. unfold first_spec_f in F. destruct (first_f f) as [p|]; auto.
      destruct F as [Hp [tn [G [A E]]]]. split; auto. exists tn. rewrite get_at_cons by auto.
      split; [exact G|]. split; [exact A|]. rewrite E. destruct p; [congruence|]. reflexivity.
    + specialize (IH j rel'). destruct (next_f f j rel') as [p|]; auto.
      destruct IH as [Hp [tn [G [A E]]]]. split; auto. exists tn. rewrite get_at_cons by auto.
      split; [exact G|]. split; [exact A|]. rewrite E. destruct p; [congruence|]. reflexivity.
  - intros j rel. reflexivity.
  - intros f IHf j rel. cbn [next_f after_f]. destruct j as [|j']; auto.
    specialize (IHf j' rel). destruct (next_f f j' rel) as [p|].
    + destruct IHf as [Hp [tn [G [A E]]]]. split. { destruct p; [congruence|]. discriminate. }
      exists tn. rewrite get_f_bump by auto. split; [exact G|]. split; [exact A|].
      rewrite after_ff_bump by auto. rewrite E. reflexivity.
    + simpl. rewrite IHf. reflexivity.
  - intros t f IHt IHf j rel. cbn [next_f after_f]. destruct j as [|j'].
    + specialize (IHt rel). destruct (next_t t rel) as [p|]; auto.
      destruct IHt as [Hp [tn [G [A E]]]]. split; [discriminate|]. exists tn. simpl.
      split; [exact G|]. split; [exact A|]. exact E.
    + specialize (IHf j' rel). destruct (next_f f j' rel) as [p|].
      * destruct IHf as [Hp [tn [G [A E]]]]. split. { destruct p; [congruence|]. discriminate. }
        exists tn. rewrite get_f_bump by auto. split; [exact G|]. split; [exact A|].
        rewrite after_ff_bump by auto. rewrite E. reflexivity.
      * rewrite IHf. simpl. destruct (alive t) eqn:A.
        -- split; [discriminate|]. exists t. simpl. split; [reflexivity|]. split; [exact A|].
           rewrite after_t_nil. reflexivity.
        -- simpl. pose proof (proj1 first_spec t) as F. unfold first_spec_t in F. destruct (first_t t) as [p|].
           ++ destruct F as [Hp [tn [G [A2 E]]]]. split; [discriminate|]. exists tn. simpl.
              split; [exact G|]. split; [exact A2|]. exact E.
           ++ exact F.
Qed.
