(* C11: the defects of the unrepaired code, exhibited on the faithful transcriptions by computation.
   The same inputs are replayed on the real library by props/C11.py (corpus). *)
From Coq Require Import ZArith List Bool Lia.
Import ListNotations.
Require Import Verif.gen.Consts_rb Verif.gen.Consts_rbow Verif.RbModel Verif.RbSpec Verif.RbOwSpec Verif.BbModel
               Verif.BbProofs.
Local Open Scope Z_scope.

(* ------------------------------------------------------------------ (repaired in /repo: f545f17) *)
(* OVERWRITE ring with the semaphore notifier, S = 3000: write 3000 bytes twice.  The second write reclaims the
   first chunk, the unrepaired qb_rb_space_free then reports 0 bytes free (equal pointers, count 1), the writer
   tries to reclaim from the empty ring and fails with EINVAL: a write of at most the requested size is refused. *)
Definition sem_stuck_demo : option (Z * Z) :=
  let b0 := rb_open 3000 false true in
  match write_unfixed b0 (repeat 7 3000) with
  | WRet b1 r1 => match write_unfixed b1 (repeat 9 3000) with WRet _ r2 => Some (r1, r2) | WFuel => None end
  | WFuel => None
  end.
Lemma overwrite_sem_stuck_unfixed : sem_stuck_demo = Some (3000, - RB_EINVAL).
Proof. vm_compute. reflexivity. Qed.

Definition sem_stuck_demo_fixed : option (Z * Z) :=
  let b0 := rb_open 3000 false true in
  match write b0 (repeat 7 3000) with
  | WRet b1 r1 => match write b1 (repeat 9 3000) with WRet _ r2 => Some (r1, r2) | WFuel => None end
  | WFuel => None
  end.
Lemma overwrite_sem_stuck_fixed : sem_stuck_demo_fixed = Some (3000, 3000).
Proof. vm_compute. reflexivity. Qed.

(* ------------------------------------------------------------------ fixes/C11-blackbox-fallback-reserve.patch *)
(* Blackbox of size 1024 with QB_LOG_CONF_MAX_LINE_LEN = 32, function "main".  Every third message is short
   (8 serialised bytes), the others do not fit in 32 bytes, so the "Log message too long ..." notice is stored
   instead: 78 bytes under the unrepaired limit QB_LOG_MAX_LEN, although only 32 were reserved. *)
Definition demo_hdr (i : Z) : bbrec :=
  {| r_lineno := i; r_tags := 0; r_prio := 6; r_fn := [109; 97; 105; 110; 0]; r_ts := repeat 0 16; r_msg := [] |}.
Definition demo_short (i : Z) : logcall :=
  {| lc_hdr := demo_hdr i; lc_len1 := 8; lc_m1 := [115; 104; 111; 114; 116; 32; 49; 0]; lc_m2 := [] |}.
Definition demo_long (i : Z) : logcall :=
  {| lc_hdr := demo_hdr i; lc_len1 := 32; lc_m1 := []; lc_m2 := repeat 76 77 ++ [0] |}.
Fixpoint demo_calls (n : nat) (i : Z) : list logcall :=
  match n with
  | O => []
  | S k => (if i mod 3 =? 0 then demo_short i else demo_long i) :: demo_calls k (i + 1)
  end.

Definition demo_dump (n : nat) : option (list Z) :=
  match fst (bb_run (bb_open 1024) (map (lc_op 32) (demo_calls n 0))) with
  | Some b => Some (map (fun c => de32 (firstn 4 c)) (bb_dump b 1024))     (* the line numbers of the dumped records *)
  | None => None
  end.

(* the serializer answers are within what the unrepaired code asks for, every reservation is within the size *)
Lemma demo_calls_ok_unfixed :
  Forall (fun c => ser_ok_unfixed 32 c /\ zlen (r_ts (lc_hdr c)) = BBO_SIZEOF_TIMESPEC /\
                   bb_reserve 32 (r_fn (lc_hdr c)) <= 1024) (demo_calls 41 0).
Proof.
  apply Forall_forall. intros c Hc.
  assert (H : forallb (fun c => implb (lc_len1 c <? 32) (zlen (lc_m1 c) =? lc_len1 c) &&
                                (zlen (lc_m2 c) <=? bb_fallback_limit_unfixed 32) &&
                                (zlen (r_ts (lc_hdr c)) =? BBO_SIZEOF_TIMESPEC) &&
                                (bb_reserve 32 (r_fn (lc_hdr c)) <=? 1024)) (demo_calls 41 0) = true)
    by (vm_compute; reflexivity).
  rewrite forallb_forall in H. specialize (H c Hc).
  apply andb_prop in H. destruct H as (H & H4). apply andb_prop in H. destruct H as (H & H3).
  apply andb_prop in H. destruct H as (H1 & H2).
  unfold ser_ok_unfixed. repeat split.
  - intros Hlt. apply Z.ltb_lt in Hlt. rewrite Hlt in H1. cbn in H1. apply Z.eqb_eq. exact H1.
  - apply Z.leb_le. exact H2.
  - apply Z.eqb_eq. exact H3.
  - apply Z.leb_le. exact H4.
Qed.

(* after 40 messages the dump holds all 40 records; the 41st commit runs over the header of the oldest chunk and
   past read_pt: a dump taken now contains NO record at all, although the blackbox did not report anything *)
Lemma blackbox_unfixed_loses_all :
  demo_dump 40 = Some (map Z.of_nat (seq 0 40)) /\ demo_dump 41 = Some [].
Proof. split; vm_compute; reflexivity. Qed.

(* the repaired code stores the notice truncated to the reservation: with m2 limited to 32 bytes the same run keeps
   the newest records (the last 56 of 100) *)
Definition demo_long_fixed (i : Z) : logcall :=
  {| lc_hdr := demo_hdr i; lc_len1 := 32; lc_m1 := []; lc_m2 := repeat 76 31 ++ [0] |}.
Fixpoint demo_calls_fixed (n : nat) (i : Z) : list logcall :=
  match n with
  | O => []
  | S k => (if i mod 3 =? 0 then demo_short i else demo_long_fixed i) :: demo_calls_fixed k (i + 1)
  end.
Definition demo_dump_fixed (n : nat) : option (list Z) :=
  match fst (bb_run (bb_open 1024) (map (lc_op 32) (demo_calls_fixed n 0))) with
  | Some b => Some (map (fun c => de32 (firstn 4 c)) (bb_dump b 1024))
  | None => None
  end.
Lemma blackbox_fixed_keeps_newest : demo_dump_fixed 100 = Some (map Z.of_nat (seq 44 56)).
Proof. vm_compute. reflexivity. Qed.

(* ------------------------------------------------------------------ non-vacuity *)
(* a reachable overwrite-ring state in which old chunks were dropped and the kept chunks wrap around the end of
   the data area: S = 4000 (one page), writes of 4000, 3, 3960 and 8 bytes; the last two must be
   kept (their cost is exactly 4000), the last three are (the three together would not "fit") *)
Definition ex_ds : list chunk := [repeat 1 4000; repeat 2 3; repeat 3 3960; repeat 4 8].
Lemma example_overwrite :
  (0 <= 4000 /\ 4000 + RB_CHUNK_MARGIN + RB_SIZE_EXTRA + RB_PAGE_SIZE <= two32) /\
  Forall (fun d => zlen d <= 4000) ex_ds /\
  exists b, ow_writes (rb_open 4000 false true) (map plain ex_ds) = Some b /\
            readback b 5000 = [repeat 2 3; repeat 3 3960; repeat 4 8] /\ wpt b < rpt b /\ sem b = Some 4 /\
            cost [repeat 3 3960; repeat 4 8] <= 4000 /\ 4000 < cost [repeat 2 3; repeat 3 3960; repeat 4 8].
Proof.
  split; [split; [lia | vm_compute; discriminate]|].
  split; [repeat constructor; vm_compute; discriminate|].
  destruct (ow_writes (rb_open 4000 false true) (map plain ex_ds)) as [b|] eqn:E.
  - exists b. split; [reflexivity|].
    assert (Hb : Some b = ow_writes (rb_open 4000 false true) (map plain ex_ds)) by (symmetry; exact E).
    assert (H1 : option_map (fun b => readback b 5000) (Some b) = Some [repeat 2 3; repeat 3 3960; repeat 4 8])
      by (rewrite Hb; vm_compute; reflexivity).
    assert (H2 : option_map (fun b => wpt b <? rpt b) (Some b) = Some true) by (rewrite Hb; vm_compute; reflexivity).
    assert (H3 : option_map sem (Some b) = Some (Some 4)) by (rewrite Hb; vm_compute; reflexivity).
    cbn [option_map] in H1, H2, H3.
    split; [congruence|]. split; [apply Z.ltb_lt; congruence|]. split; [congruence|].
    split; vm_compute; [discriminate | reflexivity].
  - exfalso. vm_compute in E. discriminate.
Qed.

(* a blackbox record that meets rec_ok, and a log call that meets call_ok's serializer contract *)
Definition ex_rec : bbrec :=
  {| r_lineno := 77; r_tags := 5; r_prio := 6; r_fn := [109; 97; 105; 110; 0]; r_ts := repeat 1 16;
     r_msg := [104; 105; 0] |}.
Lemma example_record : rec_ok ex_rec /\ zlen (bb_encode ex_rec) = 41 /\ bb_decode (bb_encode ex_rec) = Some ex_rec.
Proof.
  assert (H : rec_ok ex_rec) by (unfold rec_ok; vm_compute; repeat split; congruence).
  split; [exact H|]. split; [reflexivity | apply decode_encode; exact H].
Qed.
