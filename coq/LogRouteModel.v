(* C12: executable model of libqb's log routing (lib/log.c, lib/log_dcs.c).  No proofs in this
   file, so the model still builds and runs when a proof breaks.

   Transcribed function by function from
     lib/log.c      _cs_matches_filter_, _log_filter_exists, _log_filter_store, _log_filter_apply,
                    _log_filter_apply_to_cs, qb_log_filter_ctl2, _log_target_state_set,
                    qb_log_init (the state it leaves), qb_log_target_alloc / qb_log_custom_open,
                    qb_log_target_free / qb_log_custom_close, _log_target_enable / _disable /
                    qb_log_ctl2(QB_LOG_CONF_ENABLED), qb_log_callsite_get2, qb_log_real_va_ (delivery loop)
     lib/log_dcs.c  qb_log_dcs_get, _log_dcs_new_cs (lookup key, creation order, the two assertions)

   Conventions.  A C string is a list of byte values (Z); NULL text is [None].  The per-call-site
   `targets' bitmap is the list of the bit numbers that are set.  Call sites are kept in creation
   order (= index in callsite_arr = the id the harness assigns to the pointers it sees).  All call
   sites are dynamic ones: in this version of libqb QB_LOG_INIT_DATA is empty and qb_log() itself
   goes through qb_log_callsite_get2.  The sections registered by _log_register_callsites are the
   16-element bins of callsite_arr; unused slots have lineno 0 and are skipped by the code, used ones
   are exactly the created call sites, so "for every section, for every cs with lineno > 0" is
   "for every created call site with lineno > 0".
   regcomp/regexec are oracles (Section variables): [re_ok p] = regcomp(p) succeeds,
   [re_match p s] = regexec(compiled p, s) == 0.
   Not modelled: message ids (always NULL), the custom filter callback (never set), threaded targets,
   the static targets' own open functions (assumed to succeed), re-initialisation (one qb_log_init per
   history).

   The record [variant] selects, per proposed repair, the code as it is in the unchanged tree ([orig])
   or with the repair applied ([fixed]); see fixes/C12-*.patch. *)
From Coq Require Import ZArith List Bool.
Import ListNotations.
Require Import Verif.gen.Consts_log.
Local Open Scope Z_scope.

Definition str := list Z.

Fixpoint str_eqb (a b : str) : bool :=
  match a, b with
  | [], [] => true
  | x :: a', y :: b' => (x =? y) && str_eqb a' b'
  | _, _ => false
  end.

Definition STAR : str := [42].          (* "*" *)
Definition COMMA : Z := 44.
Definition TOKEN_MAX : nat := 498.      (* char token[500]; snprintf(token, 499, "%.*s", ...) keeps 498 bytes *)
Definition two32 : Z := 4294967296.
Definition two31 : Z := 2147483648.

Fixpoint is_prefix (p s : str) : bool :=
  match p, s with
  | [], _ => true
  | x :: p', y :: s' => (x =? y) && is_prefix p' s'
  | _ :: _, [] => false
  end.

(* strstr(hay, needle) != NULL *)
Fixpoint is_substr (needle hay : str) : bool :=
  match hay with
  | [] => is_prefix needle []
  | _ :: h' => is_prefix needle hay || is_substr needle h'
  end.

(* the do { token = next alternative; match = strcmp(name, token) == 0 } while (...) loop of
   _cs_matches_filter_.  [tok] accumulates the current alternative in reverse; an alternative that
   would start right after a trailing comma is never looked at (next[0] == 0 ends the loop). *)
Fixpoint alt_loop (name : str) (tok : str) (rest : str) : bool :=
  match rest with
  | [] => str_eqb (firstn TOKEN_MAX (rev tok)) name
  | c :: rest' =>
      if c =? COMMA then
        if str_eqb (firstn TOKEN_MAX (rev tok)) name then true
        else match rest' with [] => false | _ :: _ => alt_loop name [] rest' end
      else alt_loop name (c :: tok) rest'
  end.

Record flt := { f_conf : Z; f_type : Z; f_text : str; f_hi : Z; f_lo : Z; f_val : Z }.
Record target := { t_state : Z; t_filters : list flt }.
Record site := { cs_fn : str; cs_file : str; cs_fmt : str; cs_prio : Z; cs_line : Z;
                 cs_targets : list Z; cs_tags : Z }.

Definition set_targets (s : site) (b : list Z) : site :=
  {| cs_fn := cs_fn s; cs_file := cs_file s; cs_fmt := cs_fmt s; cs_prio := cs_prio s; cs_line := cs_line s;
     cs_targets := b; cs_tags := cs_tags s |}.
Definition set_tags (s : site) (g : Z) : site :=
  {| cs_fn := cs_fn s; cs_file := cs_file s; cs_fmt := cs_fmt s; cs_prio := cs_prio s; cs_line := cs_line s;
     cs_targets := cs_targets s; cs_tags := g |}.

(* qb_bit_is_set / qb_bit_set / qb_bit_clear on the list-of-set-bits representation *)
Definition bit_is_set (b : list Z) (t : Z) : bool := existsb (Z.eqb t) b.
Definition bit_set (b : list Z) (t : Z) : list Z := if bit_is_set b t then b else t :: b.
Definition bit_clear (b : list Z) (t : Z) : list Z := filter (fun u => negb (u =? t)) b.

Record variant := {
  v_replay_all : bool;    (* C12-replay-disabled: stored filters are replayed onto a new call site for every
                             target in use, not only for the targets that are enabled at that moment *)
  v_reapply : bool;       (* C12-remove-reapply: after FILTER_REMOVE / TAG_CLEAR the filters that remain stored are
                             applied again, and the removed filter's compiled regex is used for the clearing *)
  v_fnkey : bool;         (* C12-callsite-function: the function name is part of the call-site lookup key *)
  v_close_clears : bool   (* C12-close-clears-filters: qb_log_target_free passes "*" instead of NULL, so that
                             its CLEAR_ALL is not rejected with -EINVAL *)
}.
Definition orig : variant :=
  {| v_replay_all := false; v_reapply := false; v_fnkey := false; v_close_clears := false |}.
Definition fixed : variant :=
  {| v_replay_all := true; v_reapply := true; v_fnkey := true; v_close_clears := true |}.

Definition unused_target : target := {| t_state := LOG_STATE_UNUSED; t_filters := [] |}.

Fixpoint upd {A} (l : list A) (n : nat) (x : A) : list A :=
  match l, n with
  | [], _ => []
  | _ :: t, O => x :: t
  | a :: t, S n' => a :: upd t n' x
  end.

Definition zrange (n : Z) : list Z := map Z.of_nat (seq 0 (Z.to_nat n)).

Definition get_target (cf : list target) (t : Z) : target := nth (Z.to_nat t) cf unused_target.
Definition tstate (cf : list target) (t : Z) : Z := t_state (get_target cf t).
Definition tfilters (cf : list target) (t : Z) : list flt := t_filters (get_target cf t).

Definition is_regex_type (ty : Z) : bool :=
  (ty =? LOG_FILTER_FILE_REGEX) || (ty =? LOG_FILTER_FUNCTION_REGEX) || (ty =? LOG_FILTER_FORMAT_REGEX).

(* c names the per-target filter list (ADD / REMOVE / CLEAR_ALL) rather than the tag list *)
Definition is_target_conf (c : Z) : bool :=
  (c =? LOG_FILTER_ADD) || (c =? LOG_FILTER_CLEAR_ALL) || (c =? LOG_FILTER_REMOVE).

Section Oracles.
Variable re_ok : str -> bool.
Variable re_match : str -> str -> bool.

(* _cs_matches_filter_.  [avail] = the regex_t pointer handed in is not NULL. *)
Definition cs_matches (avail : bool) (s : site) (ty : Z) (text : str) (hi lo : Z) : bool :=
  if (lo <? cs_prio s) || (cs_prio s <? hi) then false else
  if str_eqb text STAR then true else
  if ty =? LOG_FILTER_FILE then alt_loop (cs_file s) [] text else
  if ty =? LOG_FILTER_FUNCTION then alt_loop (cs_fn s) [] text else
  if ty =? LOG_FILTER_FILE_REGEX then avail && re_match text (cs_file s) else
  if ty =? LOG_FILTER_FUNCTION_REGEX then avail && re_match text (cs_fn s) else
  if ty =? LOG_FILTER_FORMAT_REGEX then avail && re_match text (cs_fmt s) else
  if ty =? LOG_FILTER_FORMAT then is_substr text (cs_fmt s) else false.

(* _log_filter_apply_to_cs *)
Definition apply_to_cs (avail : bool) (s : site) (t c ty : Z) (text : str) (hi lo : Z) : site :=
  if c =? LOG_FILTER_CLEAR_ALL then set_targets s (bit_clear (cs_targets s) t) else
  if c =? LOG_TAG_CLEAR_ALL then set_tags s 0 else
  if cs_matches avail s ty text hi lo then
    if c =? LOG_FILTER_ADD then set_targets s (bit_set (cs_targets s) t) else
    if c =? LOG_FILTER_REMOVE then set_targets s (bit_clear (cs_targets s) t) else
    if c =? LOG_TAG_SET then set_tags s t else
    if c =? LOG_TAG_CLEAR then set_tags s 0 else s
  else s.

(* a stored filter applied to one call site (the stored regex_t is always there) *)
Definition apply_flt (s : site) (f : flt) : site :=
  apply_to_cs true s (f_val f) (f_conf f) (f_type f) (f_text f) (f_hi f) (f_lo f).

(* _log_filter_apply over every registered section: every created call site with lineno > 0 *)
Definition apply_all (avail : bool) (l : list site) (t c ty : Z) (text : str) (hi lo : Z) : list site :=
  map (fun s => if 0 <? cs_line s then apply_to_cs avail s t c ty text hi lo else s) l.

Definition apply_flt_all (l : list site) (f : flt) : list site :=
  apply_all true l (f_val f) (f_conf f) (f_type f) (f_text f) (f_hi f) (f_lo f).

(* _log_filter_exists *)
Definition filter_exists (l : list flt) (ty : Z) (text : str) (hi lo v : Z) : bool :=
  existsb (fun f => (f_type f =? ty) && (f_hi f =? hi) && (f_lo f =? lo) && (f_val f =? v) &&
                    str_eqb (f_text f) text) l.

(* the test of the REMOVE / TAG_CLEAR loop of _log_filter_store *)
Definition remove_hit (ty : Z) (text : str) (hi lo : Z) (f : flt) : bool :=
  (f_type f =? ty) && (f_lo f <=? lo) && (hi <=? f_hi f) && (str_eqb (f_text f) text || str_eqb STAR text).

Fixpoint remove_first (ty : Z) (text : str) (hi lo : Z) (l : list flt) : list flt * option flt :=
  match l with
  | [] => ([], None)
  | f :: r => if remove_hit ty text hi lo f then (r, Some f)
              else let '(r', x) := remove_first ty text hi lo r in (f :: r', x)
  end.

Record store_res := { sr_list : list flt; sr_rc : Z; sr_new : bool; sr_removed : option flt }.

(* _log_filter_store on the list selected by c (text is not NULL here, c and type were validated) *)
Definition filter_store (l : list flt) (t c ty : Z) (text : str) (hi lo : Z) : store_res :=
  if (c =? LOG_FILTER_ADD) || (c =? LOG_TAG_SET) then
    if filter_exists l ty text hi lo t then
      {| sr_list := l; sr_rc := - LOG_EEXIST; sr_new := false; sr_removed := None |}
    else if is_regex_type ty && negb (re_ok text) then
      {| sr_list := l; sr_rc := - LOG_EINVAL; sr_new := false; sr_removed := None |}
    else
      {| sr_list := l ++ [{| f_conf := c; f_type := ty; f_text := text; f_hi := hi; f_lo := lo; f_val := t |}];
         sr_rc := 0; sr_new := true; sr_removed := None |}
  else if (c =? LOG_FILTER_REMOVE) || (c =? LOG_TAG_CLEAR) then
    let '(l', x) := remove_first ty text hi lo l in
    {| sr_list := l'; sr_rc := 0; sr_new := false; sr_removed := x |}
  else (* CLEAR_ALL / TAG_CLEAR_ALL *)
    {| sr_list := []; sr_rc := 0; sr_new := false; sr_removed := None |}.

(* ---------------------------------------------------------------- the state *)

Record state := {
  conf : list target;        (* conf[QB_LOG_TARGET_MAX] *)
  active_max : Z;            (* conf_active_max *)
  tagsf : list flt;       (* tags_head *)
  sites : list site;         (* callsite_arr[0 .. callsite_arr_next) *)
  aborted : bool             (* an assert() of log_dcs.c has failed: the process is gone *)
}.

Definition with_sites (st : state) (l : list site) : state :=
  {| conf := conf st; active_max := active_max st; tagsf := tagsf st; sites := l; aborted := aborted st |}.

Definition set_filters (cf : list target) (t : Z) (fl : list flt) : list target :=
  upd cf (Z.to_nat t) {| t_state := tstate cf t; t_filters := fl |}.

(* highest index whose state is ENABLED *)
Fixpoint last_enabled (l : list target) (i : Z) (acc : option Z) : option Z :=
  match l with
  | [] => acc
  | x :: r => last_enabled r (i + 1) (if t_state x =? LOG_STATE_ENABLED then Some i else acc)
  end.

(* _log_target_state_set: conf_active_max keeps its old value when no target is enabled *)
Definition state_set (st : state) (t : Z) (s : Z) : state :=
  let cf := upd (conf st) (Z.to_nat t) {| t_state := s; t_filters := tfilters (conf st) t |} in
  {| conf := cf;
     active_max := match last_enabled cf 0 None with Some i => i | None => active_max st end;
     tagsf := tagsf st; sites := sites st; aborted := aborted st |}.

Variable v : variant.

Definition bad_target (cf : list target) (t : Z) : bool :=
  (t <? 0) || (LOG_TARGET_MAX <=? t) || (tstate cf t =? LOG_STATE_UNUSED).

(* qb_log_filter_ctl2 *)
Definition filter_ctl2 (st : state) (t c ty : Z) (text : option str) (hi lo : Z) : state * Z :=
  if is_target_conf c && bad_target (conf st) t then (st, - LOG_EBADF) else
  match text with
  | None => (st, - LOG_EINVAL)
  | Some tx =>
    if (lo <? hi) || (ty <? 0) || (LOG_FILTER_FORMAT_REGEX <? ty) || (c <? 0) || (LOG_TAG_CLEAR_ALL <? c)
    then (st, - LOG_EINVAL) else
    let tgt := is_target_conf c in
    let tv := if tgt then t else t mod two32 in                (* uint32_t t of _log_filter_store/_apply *)
    let r := filter_store (if tgt then tfilters (conf st) t else tagsf st) tv c ty tx hi lo in
    if sr_rc r <? 0 then (st, sr_rc r) else
    let avail := sr_new r || (v_reapply v && match sr_removed r with Some _ => true | None => false end) in
    let s1 := apply_all avail (sites st) tv c ty tx hi lo in
    let s2 := if v_reapply v && ((c =? LOG_FILTER_REMOVE) || (c =? LOG_TAG_CLEAR))
              then fold_left apply_flt_all (sr_list r) s1 else s1 in
    ({| conf := if tgt then set_filters (conf st) t (sr_list r) else conf st;
        active_max := active_max st;
        tagsf := if tgt then tagsf st else sr_list r;
        sites := s2; aborted := aborted st |}, 0)
  end.

(* qb_log_ctl(t, QB_LOG_CONF_ENABLED, arg) *)
Definition ctl_enabled (st : state) (t : Z) (arg : bool) : state * Z :=
  if bad_target (conf st) t then (st, - LOG_EBADF) else
  if arg then
    if tstate (conf st) t =? LOG_STATE_ENABLED then (st, 0) else (state_set st t LOG_STATE_ENABLED, 0)
  else
    if tstate (conf st) t =? LOG_STATE_ENABLED then (state_set st t LOG_STATE_DISABLED, 0) else (st, 0).

Fixpoint first_unused (l : list target) (i : Z) : option Z :=
  match l with
  | [] => None
  | x :: r => if t_state x =? LOG_STATE_UNUSED then Some i else first_unused r (i + 1)
  end.

(* qb_log_custom_open: qb_log_target_alloc *)
Definition custom_open (st : state) : state * Z :=
  match first_unused (conf st) 0 with
  | Some i => (state_set st i LOG_STATE_DISABLED, i)
  | None => (st, - LOG_EMFILE)
  end.

(* qb_log_custom_close: qb_log_target_free.  Its qb_log_filter_ctl(CLEAR_ALL, text = NULL) returns -EINVAL. *)
Definition custom_close (st : state) (t : Z) : state :=
  if bad_target (conf st) t then st else
  let st1 := fst (filter_ctl2 st t LOG_FILTER_CLEAR_ALL LOG_FILTER_FILE
                              (if v_close_clears v then Some STAR else None) LOG_PRIO_EMERG 0) in
  state_set st1 t LOG_STATE_UNUSED.

(* the comparison of qb_log_dcs_get (message_id == NULL): chain of the line, priority, file name, format *)
Definition key_eq (fn file fmt : str) (prio line : Z) (s : site) : bool :=
  (line =? cs_line s) && (prio =? cs_prio s) && str_eqb file (cs_file s) && str_eqb fmt (cs_fmt s) &&
  (if v_fnkey v then str_eqb fn (cs_fn s) else true).

Fixpoint find_site (fn file fmt : str) (prio line : Z) (l : list site) (i : nat) : option (nat * site) :=
  match l with
  | [] => None
  | s :: r => if key_eq fn file fmt prio line s then Some (i, s) else find_site fn file fmt prio line r (S i)
  end.

(* the filter replay of qb_log_callsite_get2 for a newly created call site *)
Definition replay_one (cf : list target) (s : site) (pos : Z) : site :=
  let tg := get_target cf pos in
  if (if v_replay_all v then negb (t_state tg =? LOG_STATE_UNUSED) else (t_state tg =? LOG_STATE_ENABLED))
  then fold_left apply_flt (t_filters tg) s else s.

Definition replay_targets (st : state) (s : site) : site :=
  fold_left (replay_one (conf st)) (if v_replay_all v then zrange LOG_TARGET_MAX else zrange (active_max st + 1)) s.

Inductive out :=
| ORc (rc : Z)
| ODeliv (id : Z) (tags : Z) (targets : list Z)   (* one logger call per listed target, in this order *)
| OAbort.

(* the delivery loop of qb_log_real_va_ *)
Definition deliveries (st : state) (s : site) : list Z :=
  filter (fun pos => (tstate (conf st) pos =? LOG_STATE_ENABLED) && bit_is_set (cs_targets s) pos)
         (zrange (active_max st + 1)).

(* qb_log_callsite_get2 + qb_log_real_ *)
Definition log_call (st : state) (fn file fmt : str) (prio line tags : Z) : state * out :=
  (* qb_array_index(lookup_arr, (int32_t) lineno): negative -> -ERANGE, beyond the growth limit -> -EINVAL; assert(rc == 0) *)
  if (two31 <=? line) || (LOG_ARRAY_MAX_ELEMENTS <=? line) then
    ({| conf := conf st; active_max := active_max st; tagsf := tagsf st; sites := sites st; aborted := true |}, OAbort)
  else
  match find_site fn file fmt prio line (sites st) O with
  | Some (i, s) =>
      let s' := if negb (tags =? 0) && negb (cs_tags s =? tags) then set_tags s tags else s in
      let st' := with_sites st (upd (sites st) i s') in
      (st', ODeliv (Z.of_nat i) (cs_tags s') (deliveries st' s'))
  | None =>
      let i := length (sites st) in
      (* _log_dcs_new_cs: qb_array_index(callsite_arr, callsite_arr_next++) must succeed *)
      if LOG_ARRAY_MAX_ELEMENTS <=? Z.of_nat i then
        ({| conf := conf st; active_max := active_max st; tagsf := tagsf st; sites := sites st; aborted := true |}, OAbort)
      else
      let s0 := {| cs_fn := fn; cs_file := file; cs_fmt := fmt; cs_prio := prio; cs_line := line;
                   cs_targets := []; cs_tags := tags |} in
      let s1 := replay_targets st s0 in
      let s2 := if tags =? 0 then fold_left apply_flt (tagsf st) s1 else set_tags s1 tags in
      let st' := with_sites st (sites st ++ [s2]) in
      (st', ODeliv (Z.of_nat i) (cs_tags s2) (deliveries st' s2))
  end.

Inductive op :=
| OFilter (t c ty : Z) (text : option str) (hi lo : Z)    (* qb_log_filter_ctl2 *)
| OEnable (t : Z) (on : bool)                             (* qb_log_ctl(t, QB_LOG_CONF_ENABLED, on) *)
| OOpen                                                   (* qb_log_custom_open *)
| OClose (t : Z)                                          (* qb_log_custom_close *)
| OLog (fn file fmt : str) (prio line tags : Z).          (* qb_log_callsite_get + qb_log_real_ *)

Definition step (st : state) (o : op) : state * out :=
  if aborted st then (st, OAbort) else
  match o with
  | OFilter t c ty text hi lo => let '(st', rc) := filter_ctl2 st t c ty text hi lo in (st', ORc rc)
  | OEnable t on => let '(st', rc) := ctl_enabled st t on in (st', ORc rc)
  | OOpen => let '(st', rc) := custom_open st in (st', ORc rc)
  | OClose t => (custom_close st t, ORc 0)
  | OLog fn file fmt prio line tags => log_call st fn file fmt prio line tags
  end.

Fixpoint run (st : state) (ops : list op) : state * list out :=
  match ops with
  | [] => (st, [])
  | o :: t => let '(st1, x) := step st o in let '(st2, xs) := run st1 t in (st2, x :: xs)
  end.

(* ---------------------------------------------------------------- the specification
   A configuration is the target table and the tag-filter list only: there are no call sites in it.
   Routing is a function of the configuration at the time of the call and of the call's own
   (function, file, line, priority, format), hence independent of when a call site was first seen. *)

Record cfg := { c_conf : list target; c_tagsf : list flt }.

Definition flt_selects (s : site) (f : flt) : bool :=
  cs_matches true s (f_type f) (f_text f) (f_hi f) (f_lo f).

(* deliver to t iff t is enabled and one of its stored filters selects the call; each such target once,
   in ascending order *)
Definition route (c : cfg) (s : site) : list Z :=
  filter (fun t => (tstate (c_conf c) t =? LOG_STATE_ENABLED) && existsb (flt_selects s) (tfilters (c_conf c) t))
         (zrange LOG_TARGET_MAX).

(* value of the last stored TAG_SET rule that selects the call, 0 when there is none *)
Definition tag_of (c : cfg) (s : site) : Z :=
  fold_left (fun acc f => if flt_selects s f then f_val f else acc) (c_tagsf c) 0.

Definition set_state (cf : list target) (t s : Z) : list target :=
  upd cf (Z.to_nat t) {| t_state := s; t_filters := tfilters cf t |}.

(* how the configuration evolves: the validation and the stored-list rules of the control API, nothing else *)
Definition cfg_step (c : cfg) (o : op) : cfg :=
  match o with
  | OFilter t cc ty text hi lo =>
      if is_target_conf cc && bad_target (c_conf c) t then c else
      match text with
      | None => c
      | Some tx =>
        if (lo <? hi) || (ty <? 0) || (LOG_FILTER_FORMAT_REGEX <? ty) || (cc <? 0) || (LOG_TAG_CLEAR_ALL <? cc) then c else
        let tgt := is_target_conf cc in
        let tv := if tgt then t else t mod two32 in
        let r := filter_store (if tgt then tfilters (c_conf c) t else c_tagsf c) tv cc ty tx hi lo in
        if sr_rc r <? 0 then c else
        {| c_conf := if tgt then set_filters (c_conf c) t (sr_list r) else c_conf c;
           c_tagsf := if tgt then c_tagsf c else sr_list r |}
      end
  | OEnable t on =>
      if bad_target (c_conf c) t then c else
      if on then
        if tstate (c_conf c) t =? LOG_STATE_ENABLED then c
        else {| c_conf := set_state (c_conf c) t LOG_STATE_ENABLED; c_tagsf := c_tagsf c |}
      else
        if tstate (c_conf c) t =? LOG_STATE_ENABLED
        then {| c_conf := set_state (c_conf c) t LOG_STATE_DISABLED; c_tagsf := c_tagsf c |} else c
  | OOpen =>
      match first_unused (c_conf c) 0 with
      | Some i => {| c_conf := set_state (c_conf c) i LOG_STATE_DISABLED; c_tagsf := c_tagsf c |}
      | None => c
      end
  | OClose t =>
      if bad_target (c_conf c) t then c else
      (* a closed target keeps nothing: its slot starts without filters when it is opened again *)
      {| c_conf := upd (c_conf c) (Z.to_nat t) unused_target; c_tagsf := c_tagsf c |}
  | OLog _ _ _ _ _ _ => c
  end.

End Oracles.

(* the state qb_log_init(name, facility, priority) leaves: the four static targets DISABLED, the others
   UNUSED, then syslog ENABLED with the filter (FILE, "*", LOG_EMERG .. priority) *)
Definition init_conf (priority : Z) : list target :=
  map (fun i => if i =? LOG_SYSLOG then
                  {| t_state := LOG_STATE_ENABLED;
                     t_filters := [{| f_conf := LOG_FILTER_ADD; f_type := LOG_FILTER_FILE; f_text := STAR;
                                      f_hi := LOG_PRIO_EMERG; f_lo := priority; f_val := LOG_SYSLOG |}] |}
                else if i <? LOG_TARGET_STATIC_MAX then {| t_state := LOG_STATE_DISABLED; t_filters := [] |}
                else unused_target)
      (zrange LOG_TARGET_MAX).

Definition log_init (priority : Z) : state :=
  {| conf := init_conf priority; active_max := LOG_SYSLOG; tagsf := []; sites := []; aborted := false |}.

Definition cfg_init (priority : Z) : cfg := {| c_conf := init_conf priority; c_tagsf := [] |}.

Definition abs (st : state) : cfg := {| c_conf := conf st; c_tagsf := tagsf st |}.

(* the coordinates of a log call, as a call-site record without routing state *)
Definition call_site (fn file fmt : str) (prio line : Z) : site :=
  {| cs_fn := fn; cs_file := file; cs_fmt := fmt; cs_prio := prio; cs_line := line; cs_targets := []; cs_tags := 0 |}.

(* the configuration after a history: log calls do not change it *)
Definition cfg_run (re_ok : str -> bool) (c : cfg) (h : list op) : cfg := fold_left (cfg_step re_ok) h c.

(* the guard of the known finding about line numbers: a call site with line 0 is skipped by every later
   filter change (the code takes lineno 0 for "slot not in use"), a line >= 65536 (QB_ARRAY_MAX_ELEMENTS) fails
   an assertion *)
Definition op_line_ok (o : op) : bool :=
  match o with
  | OLog _ _ _ _ line _ => (0 <? line) && (line <? LOG_ARRAY_MAX_ELEMENTS)
  | _ => true
  end.
Definition G_log_lineno_range (h : list op) : bool := forallb op_line_ok h.

(* calls that carry no explicit tag word *)
Definition op_no_tags (o : op) : bool :=
  match o with
  | OLog _ _ _ _ _ tags => tags =? 0
  | _ => true
  end.
Definition no_explicit_tags (h : list op) : bool := forallb op_no_tags h.
