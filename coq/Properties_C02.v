(* C02 property theorems: statements only, each closed by `exact`.
   Model: coq/IpcDataModel.v (call-level transition system of one IPC connection, both transports),
   variant `fixed' = lib/*.c with fixes/C02-server-send-size-check.patch and fixes/C06-*.patch applied.
   Quantifiers: every transport t, every negotiated maximum mx, every history h of well-formed calls
   (wf_hist: every message sent is at least a bare header, has a truthful size field and a user id; every
   kernel answer to a send on the connection's sockets is "accepted" or EAGAIN) - any call order, any burst
   pattern, any receive-buffer sizes, any rate-limit / flow-control toggles, any msg_process return values. *)
From Coq Require Import ZArith List.
Require Import Verif.gen.Consts_ipcdata Verif.IpcDataModel Verif.IpcDataProofs.
Import ListNotations.
Local Open Scope Z_scope.

(* exactly once, in order, intact, on all three channels; msg_process is told each message's own length *)
Theorem C02_exactly_once : forall t mx h s outs,
  wf_hist h -> run fixed (init t mx) h = (s, outs) ->
  acc_req (gh s) = dlv_req (gh s) ++ q_req (ch s) /\
  acc_resp (gh s) = rcv_resp (gh s) ++ q_resp (ch s) /\
  acc_evt (gh s) = rcv_evt (gh s) ++ q_evt (ch s) /\
  dlv_req (gh s) = cbs_of outs /\
  Forall out_ok outs /\
  closed s = false /\ blocked s = false.
Proof. exact exactly_once. Qed.
Print Assumptions C02_exactly_once.

(* the invariant behind it holds in every reachable state *)
Theorem C02_invariant_all_histories : forall t mx h, wf_hist h -> Inv (fst (run fixed (init t mx) h)).
Proof. exact reachable_inv. Qed.
Print Assumptions C02_invariant_all_histories.

(* a failed send has no effect *)
Theorem C02_failed_send_pure : forall s o env s' x,
  Inv s -> wf_op o -> env_live env -> is_send o = true -> step fixed s o env = (s', x) -> o_res x < 0 ->
  ch s' = ch s /\ gh s' = gh s /\ c2s (nt s') = c2s (nt s) /\
  s2c (nt s') + outst (nt s') = s2c (nt s) + outst (nt s).
Proof. exact failed_send_pure. Qed.
Print Assumptions C02_failed_send_pure.

(* a message larger than the negotiated maximum is refused by every send call, in every live state *)
Theorem C02_oversize_refused : forall s o env m,
  closed s = false -> blocked s = false -> maxsz s < m_len m ->
  (exists v, o = CSend v m \/ o = SResp v m \/ o = SEvt v m) ->
  exists x, step fixed s o env = (s, x) /\ o_res x = - IPC_EMSGSIZE.
Proof. exact oversize_refused. Qed.
Print Assumptions C02_oversize_refused.

(* ... refuted for the code as found (qb_ipcs_event_sendv; likewise response_send(v)) *)
Theorem C02_oversize_refused_orig_refuted :
  exists s o m, closed s = false /\ blocked s = false /\ maxsz s < m_len m /\ o = SEvt true m /\
                0 <= o_res (snd (step orig s o [])) /\ q_evt (ch (fst (step orig s o []))) = [m].
Proof. exact oversize_refused_orig_refuted. Qed.
Print Assumptions C02_oversize_refused_orig_refuted.

(* notification accounting in shm mode *)
Theorem C02_notify_accounting : forall s,
  Inv s -> tr s = SHM ->
  c2s (nt s) = Z.of_nat (length (q_req (ch s))) /\
  s2c (nt s) + outst (nt s) = Z.of_nat (length (q_evt (ch s))) /\
  0 <= s2c (nt s) /\ 0 <= outst (nt s).
Proof. exact notify_accounting. Qed.
Print Assumptions C02_notify_accounting.

(* readability of the client's descriptor while an event is queued (two-part reading, DESIGN.md C02 R(ii)) *)
Theorem C02_readable : forall s,
  Inv s ->
  (q_evt (ch s) <> [] -> outst (nt s) = 0 -> client_fd_readable s = true) /\
  (0 < outst (nt s) -> pollout (nt s) = true).
Proof. exact readable. Qed.
Print Assumptions C02_readable.

(* non-vacuity *)
Example C02_example_history_wf : wf_hist ex_hist.
Proof. exact ex_hist_wf. Qed.
Example C02_example_history_result :
  let s := fst (run fixed (init SHM 12328) ex_hist) in
  map m_tag (acc_req (gh s)) = [2] /\ map m_tag (dlv_req (gh s)) = [2] /\
  map m_tag (acc_evt (gh s)) = [4; 5] /\ map m_tag (rcv_evt (gh s)) = [4] /\ map m_tag (q_evt (ch s)) = [5] /\
  map m_tag (q_resp (ch s)) = [6] /\ s2c (nt s) = 1 /\ outst (nt s) = 0 /\
  map o_res (snd (run fixed (init SHM 12328) ex_hist)) = [0; -11; 0; 100; -90; 64; 16; 5; -105; 64; 32].
Proof. exact ex_hist_result. Qed.
