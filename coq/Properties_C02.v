(* C02 property theorems: statements only, each closed by `exact`. (being filled in) *)
From Coq Require Import ZArith List.
Require Import Verif.IpcDataModel.
