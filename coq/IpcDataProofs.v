(* C02: proofs about the call-level IPC model (IpcDataModel.v), for the code WITH the proposed fixes
   (variant `fixed').  Main result: the invariant Inv holds after every history of well-formed calls, for
   both transports, every message length between a bare header and the negotiated maximum, every
   interleaving of client and server calls, every rate-limit / flow-control toggle, every msg_process return
   value and every sequence of kernel answers in {accepted, EAGAIN}. *)
From Coq Require Import ZArith List Bool Lia.
Import ListNotations.
Require Import Verif.gen.Consts_ipcdata Verif.IpcDataModel.
Local Open Scope Z_scope.

(* ---------------------------------------------------------------- well-formed inputs *)
(* a message a well-behaved program sends: at least a bare header, truthful size field, a user id *)
Definition wfmsg (m : msg) : Prop := IPC_HDR_SIZE <= m_len m /\ m_hsize m = m_len m /\ 0 <= m_id m.
(* ... and one that was accepted on a connection whose negotiated maximum is mx *)
Definition wfm (mx : Z) (m : msg) : Prop := wfmsg m /\ m_len m <= mx.

Definition live (k : kres) : Prop := k = KOk \/ k = KAgain.
Definition env_live (env : list kres) : Prop := Forall live env.

Definition wf_op (o : op) : Prop :=
  match o with
  | CSend _ m | CSendRecv m _ | SResp _ m | SEvt _ m => wfmsg m
  | CRaw _ => False
  | _ => True
  end.

Definition wf_hist (h : list (op * list kres)) : Prop :=
  Forall (fun oe => wf_op (fst oe) /\ env_live (snd oe)) h.

(* ---------------------------------------------------------------- the invariant *)
Record Inv (s : st) : Prop := {
  i_req : acc_req (gh s) = dlv_req (gh s) ++ q_req (ch s);
  i_resp : acc_resp (gh s) = rcv_resp (gh s) ++ q_resp (ch s);
  i_evt : acc_evt (gh s) = rcv_evt (gh s) ++ q_evt (ch s);
  i_wreq : Forall (wfm (maxsz s)) (q_req (ch s));
  i_wresp : Forall (wfm (maxsz s)) (q_resp (ch s));
  i_wevt : Forall (wfm (maxsz s)) (q_evt (ch s));
  i_c2s : c2s (nt s) = match tr s with SHM => Z.of_nat (length (q_req (ch s))) | SOCK => 0 end;
  i_s2c : s2c (nt s) + outst (nt s) = match tr s with SHM => Z.of_nat (length (q_evt (ch s))) | SOCK => 0 end;
  i_s2c0 : 0 <= s2c (nt s);
  i_out0 : 0 <= outst (nt s);
  i_po : pollout (nt s) = (0 <? outst (nt s));
  i_open : closed s = false /\ blocked s = false
}.

Lemma inv_init t mx : Inv (init t mx).
Proof. constructor; simpl; auto; destruct t; reflexivity. Qed.

(* ---------------------------------------------------------------- small facts *)
Lemma hdr_pos : 0 < IPC_HDR_SIZE. Proof. reflexivity. Qed.

Lemma env_live_pop env k e : env_live env -> pop env = (k, e) -> live k /\ env_live e.
Proof.
  unfold pop; intros H; destruct env as [|x t]; intros E; inversion E; subst.
  - split; [left; reflexivity | constructor].
  - inversion H; subst; auto.
Qed.

Lemma notify_spin_live env r e : env_live env -> notify_spin env = (r, e) -> r = 1 /\ env_live e.
Proof.
  revert r e; induction env as [|k t IH]; simpl; intros r e H E.
  - inversion E; subst; split; [reflexivity | constructor].
  - inversion H as [|? ? Hk Ht]; subst. destruct Hk as [-> | ->].
    + inversion E; subst; auto.
    + apply IH; assumption.
Qed.

Lemma sent_ok_len v len : 0 < len -> sent_ok v len len = true.
Proof. intros H; unfold sent_ok; destruct v; [apply Z.ltb_lt; lia | apply Z.eqb_refl]. Qed.

Lemma sent_ok_neg v res len : res < 0 -> 0 < len -> sent_ok v res len = false.
Proof.
  intros H H0; unfold sent_ok; destruct v; [apply Z.ltb_ge; lia | apply Z.eqb_neq; lia].
Qed.

(* one_way send: either the message is appended and its length returned, or nothing changes and the result
   is negative *)
Lemma xsend_spec t W q m env q' res e :
  env_live env -> xsend t W q m env = (q', res, e) ->
  env_live e /\ ((q' = q ++ [m] /\ res = m_len m) \/ (q' = q /\ res < 0)).
Proof.
  intros He; unfold xsend; destruct t.
  - destruct (ring_fits W q (m_len m)); intros E; inversion E; subst; split; auto.
    right; split; [reflexivity | reflexivity].
  - destruct (pop env) as [k e'] eqn:Hp. destruct (env_live_pop _ _ _ He Hp) as [Hk He'].
    destruct Hk as [-> | ->]; intros E; inversion E; subst; split; auto.
    right; split; [reflexivity | reflexivity].
Qed.

(* one_way receive from a queue of accepted messages (fixed code) *)
Lemma xrecv_spec t q mx buflen q' res om :
  Forall (wfm mx) q -> xrecv fixed t q buflen = (q', res, om) ->
  (om = None /\ q' = q /\ res < 0) \/
  (exists m rest, q = m :: rest /\ q' = rest /\ om = Some m /\ res = m_len m /\ m_len m <= buflen).
Proof.
  intros Hq; unfold xrecv; destruct q as [|m rest].
  - intros E; inversion E; subst; left; repeat split; reflexivity.
  - inversion Hq as [|? ? Hm Hr]; subst. destruct Hm as [[Hl [Hh Hid]] Hmx].
    pose proof hdr_pos as HP.
    destruct t.
    + destruct (buflen <? m_len m) eqn:Hb; intros E; inversion E; subst.
      * left; repeat split; reflexivity.
      * right; do 2 eexists; repeat split; eauto. apply Z.ltb_ge in Hb; lia.
    + assert (Hhd : (IPC_HDR_SIZE <=? m_len m) = true) by (apply Z.leb_le; lia).
      rewrite Hhd, Hh. cbn [v_recvbound fixed andb].
      assert (Hn : (m_len m <? 0) = false) by (apply Z.ltb_ge; lia). rewrite Hn. cbn [orb].
      destruct (buflen <? m_len m) eqn:Hb.
      * intros E; inversion E; subst. left; repeat split; reflexivity.
      * unfold to_size_t. rewrite Hn. rewrite Z.min_id.
        assert (Hz : (m_len m =? 0) = false) by (apply Z.eqb_neq; lia). rewrite Hz.
        intros E; inversion E; subst. right; do 2 eexists; repeat split; eauto.
        apply Z.ltb_ge in Hb; lia.
Qed.

Lemma Forall_app_one {A} (P : A -> Prop) l x : Forall P l -> P x -> Forall P (l ++ [x]).
Proof. intros; apply Forall_app; split; auto. Qed.

Lemma Forall_tl {A} (P : A -> Prop) l : Forall P l -> Forall P (tl l).
Proof. destruct l; simpl; auto. inversion 1; auto. Qed.

Lemma len_app_one {A} (l : list A) x : Z.of_nat (length (l ++ [x])) = Z.of_nat (length l) + 1.
Proof. rewrite app_length; simpl; lia. Qed.

Ltac inv_pair E := inversion E; subst; clear E.

(* split a 5-fold conjunction whose first component is a record (plain `repeat split' would open the record) *)
Ltac conj5 := refine (conj _ (conj _ (conj _ (conj _ _)))).

(* finish one field of Inv for an updated state, from the fields of Inv for the old state (in context) *)
Ltac inv_field Ht :=
  cbn in *; rewrite ?Ht in *;
  first
    [ assumption
    | reflexivity
    | match goal with H : ?a = ?d ++ ?q |- ?a ++ [?m] = ?d ++ ?q ++ [?m] => rewrite H, app_assoc; reflexivity end
    | match goal with H : ?a = ?d ++ ?m :: ?q |- ?a = (?d ++ [?m]) ++ ?q => rewrite H, <- app_assoc; reflexivity end
    | match goal with |- Forall _ (_ ++ [_]) => apply Forall_app_one; [assumption | auto] end
    | match goal with H : Forall _ (_ :: ?t) |- Forall _ ?t => inversion H; assumption end
    | rewrite ?len_app_one in *; cbn [length] in *; lia
    | split; assumption
    | auto ].

Ltac fin := first [ solve [auto]
                  | solve [left; repeat split; first [reflexivity | assumption | lia]]
                  | solve [left; repeat split; auto]
                  | solve [right; repeat split; auto] ].

Ltac inv_build HI Ht :=
  destruct HI as [i1 i2 i3 i4 i5 i6 i7 i8 i9 i10 i11 i12]; rewrite ?Ht in *; constructor; inv_field Ht.

(* ---------------------------------------------------------------- client send *)
Lemma c_send_spec s v m env s' r e :
  Inv s -> wfmsg m -> env_live env -> c_send s v m env = (s', r, e) ->
  Inv s' /\ env_live e /\ tr s' = tr s /\ maxsz s' = maxsz s /\
  ((r < 0 /\ s' = s) \/
   (r = m_len m /\ m_len m <= maxsz s /\ q_req (ch s') = q_req (ch s) ++ [m] /\
    acc_req (gh s') = acc_req (gh s) ++ [m])).
Proof.
  intros HI [Hl [Hh Hid]] He. pose proof hdr_pos as HP. unfold c_send.
  destruct (maxsz s <? m_len m) eqn:Hmx.
  { intros E; inv_pair E. conj5; auto. }
  destruct (fc_blocks s).
  { intros E; inv_pair E. conj5; auto. }
  apply Z.ltb_ge in Hmx.
  destruct (xsend (tr s) (W_of s) (q_req (ch s)) m env) as [[q' res] env1] eqn:Hx.
  destruct (xsend_spec _ _ _ _ _ _ _ _ He Hx) as [He1 [[-> ->] | [-> Hneg]]].
  - assert (H0 : (0 <=? m_len m) = true) by (apply Z.leb_le; lia). rewrite H0.
    assert (Hwf : wfm (maxsz s) m) by (repeat split; auto; lia).
    destruct (tr s) eqn:Ht.
    + rewrite sent_ok_len by lia.
      destruct (notify_spin env1) as [r2 env2] eqn:Hn.
      destruct (notify_spin_live _ _ _ He1 Hn) as [-> He2]. cbn [Z.eqb Pos.eqb].
      intros E; inv_pair E. conj5; [inv_build HI Ht | fin ..].
    + intros E; inv_pair E. conj5; [inv_build HI Ht | fin ..].
  - assert (H0 : (0 <=? res) = false) by (apply Z.leb_gt; lia). rewrite H0.
    destruct (tr s) eqn:Ht.
    + rewrite sent_ok_neg by lia. intros E; inv_pair E. conj5; fin.
    + intros E; inv_pair E. conj5; fin.
Qed.

(* record eta: writing a field back gives the same state *)
Lemma eta_q_req s : with_ch s (set_q_req (ch s) (q_req (ch s))) = s.
Proof. destruct s as [? ? c ? ? ? ? ? ?]; destruct c; reflexivity. Qed.
Lemma eta_q_resp s : with_ch s (set_q_resp (ch s) (q_resp (ch s))) = s.
Proof. destruct s as [? ? c ? ? ? ? ? ?]; destruct c; reflexivity. Qed.
Lemma eta_q_evt s : with_ch s (set_q_evt (ch s) (q_evt (ch s))) = s.
Proof. destruct s as [? ? c ? ? ? ? ? ?]; destruct c; reflexivity. Qed.

(* ---------------------------------------------------------------- client receive *)
Lemma c_recv_spec s bl s' r om :
  Inv s -> c_recv fixed s bl = (s', r, om) ->
  Inv s' /\ tr s' = tr s /\ maxsz s' = maxsz s /\ q_req (ch s') = q_req (ch s) /\
  ((om = None /\ r < 0 /\ s' = s) \/
   (exists m rest, om = Some m /\ q_resp (ch s) = m :: rest /\ q_resp (ch s') = rest /\
                   rcv_resp (gh s') = rcv_resp (gh s) ++ [m] /\ r = m_len m /\ m_len m <= bl)).
Proof.
  intros HI. unfold c_recv.
  destruct (xrecv fixed (tr s) (q_resp (ch s)) bl) as [[q' res] om'] eqn:Hx.
  destruct (xrecv_spec _ _ _ _ _ _ _ (i_wresp _ HI) Hx) as [[-> [-> Hneg]] | [m [rest [Hq [-> [-> [-> Hb]]]]]]].
  - rewrite eta_q_resp. intros E; inv_pair E. conj5; fin.
  - intros E; inv_pair E. destruct (tr s) eqn:Ht.
    + conj5; [inv_build HI Ht | try fin ..].
      * rewrite Hq in *; inv_field Ht.
      * rewrite Hq in *; inv_field Ht.
      * right; exists m, rest; repeat split; auto.
    + conj5; [inv_build HI Ht | try fin ..].
      * rewrite Hq in *; inv_field Ht.
      * rewrite Hq in *; inv_field Ht.
      * right; exists m, rest; repeat split; auto.
Qed.

Ltac inv_build_q HI Ht Hq :=
  destruct HI as [i1 i2 i3 i4 i5 i6 i7 i8 i9 i10 i11 i12]; rewrite ?Ht in *; rewrite Hq in *;
  constructor; inv_field Ht.

Lemma readable_shm_inv s : Inv s -> tr s = SHM -> client_fd_readable s = true -> 0 < s2c (nt s).
Proof. intros _ Ht; unfold client_fd_readable; rewrite Ht; apply Z.ltb_lt. Qed.

Lemma c_evrecv_spec s bl s' r om :
  Inv s -> c_evrecv fixed s bl = (s', r, om) ->
  Inv s' /\ tr s' = tr s /\ maxsz s' = maxsz s /\ q_req (ch s') = q_req (ch s) /\
  ((om = None /\ r < 0 /\ s' = s) \/
   (exists m rest, om = Some m /\ q_evt (ch s) = m :: rest /\ q_evt (ch s') = rest /\
                   rcv_evt (gh s') = rcv_evt (gh s) ++ [m] /\ r = m_len m /\ m_len m <= bl)).
Proof.
  intros HI. unfold c_evrecv.
  destruct (client_fd_readable s) eqn:Hrd; cbn [negb].
  2:{ intros E; inv_pair E. conj5; fin. }
  destruct (xrecv fixed (tr s) (q_evt (ch s)) bl) as [[q' res] om'] eqn:Hx.
  destruct (xrecv_spec _ _ _ _ _ _ _ (i_wevt _ HI) Hx) as [[-> [-> Hneg]] | [m [rest [Hq [-> [-> [-> Hb]]]]]]].
  - rewrite eta_q_evt. intros E; inv_pair E. conj5; fin.
  - pose proof (i_wevt _ HI) as Hw. rewrite Hq in Hw. inversion Hw as [|? ? [[Hl _] _] _]; subst.
    pose proof hdr_pos as HP.
    destruct (tr s) eqn:Ht.
    + assert (Hpos : (0 <? m_len m) = true) by (apply Z.ltb_lt; lia). rewrite Hpos.
      pose proof (readable_shm_inv _ HI Ht Hrd) as Hs2c.
      intros E; inv_pair E.
      conj5; [inv_build_q HI Ht Hq | try fin ..].
      right; exists m, rest; repeat split; auto.
    + intros E; inv_pair E.
      conj5; [inv_build_q HI Ht Hq | try fin ..].
      right; exists m, rest; repeat split; auto.
Qed.

(* ---------------------------------------------------------------- sendv_recv *)
Lemma c_sendrecv_spec s m bl env s' r om e :
  Inv s -> wfmsg m -> env_live env -> c_sendrecv fixed s m bl env = (s', r, om, e) ->
  Inv s' /\ env_live e /\ tr s' = tr s /\ maxsz s' = maxsz s /\
  ((om = None /\ r < 0) \/ (exists m', om = Some m' /\ r = m_len m' /\ m_len m' <= bl)).
Proof.
  intros HI Hm He. unfold c_sendrecv.
  destruct (fc_blocks s).
  { intros E; inv_pair E. conj5; fin. }
  destruct (c_send s true m env) as [[s1 res] env1] eqn:Hs.
  destruct (c_send_spec _ _ _ _ _ _ _ HI Hm He Hs) as [HI1 [He1 [Ht1 [Hm1 Hcase]]]].
  destruct (res <? 0) eqn:Hneg.
  { intros E; inv_pair E. apply Z.ltb_lt in Hneg. conj5; fin. }
  destruct (c_recv fixed s1 bl) as [[s2 r2] om2] eqn:Hr.
  destruct (c_recv_spec _ _ _ _ _ HI1 Hr) as [HI2 [Ht2 [Hm2 [_ Hc2]]]].
  intros E; inv_pair E. conj5; try congruence; auto.
  destruct Hc2 as [[-> [Hn _]] | [m' [rest [-> [_ [_ [_ [-> Hb]]]]]]]].
  - left; auto.
  - right; exists m'; auto.
Qed.

(* ---------------------------------------------------------------- server: notifications *)
Definition nt_ok (n : notif) : Prop := 0 <= s2c n /\ 0 <= outst n /\ pollout n = (0 <? outst n).

Lemma inv_with_nt s n :
  Inv s -> c2s n = c2s (nt s) -> s2c n + outst n = s2c (nt s) + outst (nt s) -> nt_ok n -> Inv (with_nt s n).
Proof.
  intros HI H1 H2 [H3 [H4 H5]]. destruct HI; constructor; cbn; auto; congruence.
Qed.

Lemma resend_spec s env s' r e :
  nt_ok (nt s) -> env_live env -> resend s env = (s', r, e) ->
  env_live e /\ (0 <= r \/ r = - IPC_EAGAIN) /\
  exists n, s' = with_nt s n /\ c2s n = c2s (nt s) /\ s2c n + outst n = s2c (nt s) + outst (nt s) /\ nt_ok n /\
            (tr s = SOCK -> n = nt s).
Proof.
  intros [H1 [H2 H3]] He. unfold resend. destruct (tr s) eqn:Ht.
  2:{ intros E; inv_pair E. split; auto. split; [left; lia|]. exists (nt s'). destruct s'; cbn; repeat split; auto. }
  destruct (0 <? outst (nt s)) eqn:Ho.
  - apply Z.ltb_lt in Ho. destruct (pop env) as [k e'] eqn:Hp.
    destruct (env_live_pop _ _ _ He Hp) as [[-> | ->] He'].
    + assert (Hr : (0 <? outst (nt s)) = true) by (apply Z.ltb_lt; lia).
      cbn [set_s2c outst s2c c2s pollout]. rewrite Hr. cbn [set_outst outst s2c c2s pollout].
      rewrite Z.sub_diag. cbn [Z.eqb].
      intros E; inv_pair E. split; auto. split; [left; lia|]. eexists; split; [reflexivity|].
      repeat split; cbn; try lia; try discriminate.
    + cbn [Z.ltb Z.compare Z.opp IPC_EAGAIN].
      assert (Hz : (outst (nt s) =? 0) = false) by (apply Z.eqb_neq; lia). rewrite Hz.
      intros E; inv_pair E. split; auto. split; [right; reflexivity|]. exists (nt s). destruct s; cbn in *; repeat split; auto;
        try (rewrite H3; symmetry; apply Z.ltb_lt; lia); try discriminate.
  - cbn [Z.ltb Z.compare]. apply Z.ltb_ge in Ho. assert (Hz : outst (nt s) = 0) by lia.
    rewrite Hz. cbn [Z.eqb].
    intros E; inv_pair E. split; auto. split; [left; lia|]. eexists; split; [reflexivity|].
    repeat split; cbn; rewrite ?Hz; try lia; try discriminate; try reflexivity.
Qed.

Lemma new_notification_spec s env s' r e :
  nt_ok (nt s) -> env_live env -> new_notification s env = (s', r, e) ->
  env_live e /\ (0 <= r \/ r = - IPC_EAGAIN) /\
  exists n, s' = with_nt s n /\ c2s n = c2s (nt s) /\ nt_ok n /\
            match tr s with
            | SHM => s2c n + outst n = s2c (nt s) + outst (nt s) + 1
            | SOCK => n = nt s
            end.
Proof.
  intros Hok He. unfold new_notification. destruct (tr s) eqn:Ht.
  2:{ intros E; inv_pair E. split; auto. split; [left; lia|]. exists (nt s'). destruct s'; cbn in *; repeat split; auto;
      destruct Hok as [? [? ?]]; auto. }
  destruct Hok as [H1 [H2 H3]].
  destruct (0 <? outst (nt s)) eqn:Ho.
  - apply Z.ltb_lt in Ho. intros E.
    assert (Hok' : nt_ok (nt (with_nt s (set_outst (nt s) (outst (nt s) + 1))))).
    { cbn. repeat split; cbn; try lia. rewrite H3. symmetry; apply Z.ltb_lt; lia. }
    destruct (resend_spec _ _ _ _ _ Hok' He E) as [He' [Hr [n [-> [Hc [Hs [Hn _]]]]]]].
    split; auto. split; auto. exists n. cbn in *. repeat split; auto; try lia.
    destruct Hn as [? [? ?]]; auto. destruct Hn as [? [? ?]]; auto. destruct Hn as [? [? ?]]; auto.
  - apply Z.ltb_ge in Ho. destruct (pop env) as [k e'] eqn:Hp.
    destruct (env_live_pop _ _ _ He Hp) as [[-> | ->] He'].
    + intros E; inv_pair E. split; auto. split; [left; lia|]. eexists; split; [reflexivity|].
      cbn. repeat split; cbn; auto; try lia. rewrite H3; symmetry; apply Z.ltb_ge; lia.
    + intros E; inv_pair E. split; auto. split; [right; reflexivity|]. eexists; split; [reflexivity|].
      cbn. repeat split; cbn; auto; try lia.
Qed.

Lemma inv_with_sv s v : Inv s -> Inv (with_sv s v).
Proof. intros HI; destruct HI; constructor; cbn; auto. Qed.

(* ---------------------------------------------------------------- server: response send *)
Lemma s_resp_spec s v m env s' r e :
  Inv s -> wfmsg m -> env_live env -> s_resp fixed s v m env = (s', r, e) ->
  Inv s' /\ env_live e /\ tr s' = tr s /\ maxsz s' = maxsz s /\
  ((r < 0 /\ ch s' = ch s /\ gh s' = gh s /\ nt s' = nt s) \/
   (r = m_len m /\ m_len m <= maxsz s /\ q_resp (ch s') = q_resp (ch s) ++ [m] /\
    acc_resp (gh s') = acc_resp (gh s) ++ [m])).
Proof.
  intros HI [Hl [Hh Hid]] He. pose proof hdr_pos as HP. unfold s_resp. cbn [v_sendchk fixed andb].
  destruct (maxsz s <? m_len m) eqn:Hmx.
  { intros E; inv_pair E. conj5; fin. }
  apply Z.ltb_ge in Hmx.
  destruct (xsend (tr s) (W_of s) (q_resp (ch s)) m env) as [[q' res] env1] eqn:Hx.
  destruct (xsend_spec _ _ _ _ _ _ _ _ He Hx) as [He1 [[-> ->] | [-> Hneg]]].
  - rewrite sent_ok_len by lia.
    assert (Hwf : wfm (maxsz s) m) by (repeat split; auto; lia).
    intros E; inv_pair E. destruct (tr s) eqn:Ht.
    + conj5; [inv_build HI Ht | fin ..].
    + conj5; [inv_build HI Ht | fin ..].
  - rewrite sent_ok_neg by lia.
    destruct ((res =? - IPC_EAGAIN) || (res =? - IPC_ETIMEDOUT)); intros E; inv_pair E.
    + conj5; [apply inv_with_sv; auto | fin ..].
    + conj5; fin.
Qed.

(* ---------------------------------------------------------------- server: event send *)
Lemma s_evt_spec s v m env s' r e :
  Inv s -> wfmsg m -> env_live env -> s_evt fixed s v m env = (s', r, e) ->
  Inv s' /\ env_live e /\ tr s' = tr s /\ maxsz s' = maxsz s /\
  ((r < 0 /\ ch s' = ch s /\ gh s' = gh s /\ c2s (nt s') = c2s (nt s) /\
    s2c (nt s') + outst (nt s') = s2c (nt s) + outst (nt s)) \/
   (r = m_len m /\ m_len m <= maxsz s /\ q_evt (ch s') = q_evt (ch s) ++ [m] /\
    acc_evt (gh s') = acc_evt (gh s) ++ [m])).
Proof.
  intros HI [Hl [Hh Hid]] He. pose proof hdr_pos as HP. unfold s_evt.
  replace ((negb v || v_sendchk fixed)) with true by (destruct v; reflexivity). cbn [andb].
  destruct (maxsz s <? m_len m) eqn:Hmx.
  { intros E; inv_pair E. conj5; fin. }
  apply Z.ltb_ge in Hmx.
  assert (Hok : nt_ok (nt s)) by (destruct HI; repeat split; auto).
  destruct (xsend (tr s) (W_of s) (q_evt (ch s)) m env) as [[q' res] env1] eqn:Hx.
  destruct (xsend_spec _ _ _ _ _ _ _ _ He Hx) as [He1 [[-> ->] | [-> Hneg]]].
  - rewrite sent_ok_len by lia.
    assert (Hwf : wfm (maxsz s) m) by (repeat split; auto; lia).
    match goal with |- context [new_notification ?s1 env1] => set (S1 := s1) end.
    destruct (new_notification S1 env1) as [[s2 resn] env2] eqn:Hn.
    assert (Hok1 : nt_ok (nt S1)) by exact Hok.
    destruct (new_notification_spec _ _ _ _ _ Hok1 He1 Hn) as [He2 [Hres [n [-> [Hc [Hnok Hsum]]]]]].
    assert (Hb : ((resn <? 0) && negb (resn =? - IPC_EAGAIN) && (v || negb (resn =? - IPC_ENOBUFS))) = false).
    { destruct Hres as [Hr | ->].
      - assert (Hf : (resn <? 0) = false) by (apply Z.ltb_ge; lia). rewrite Hf; reflexivity.
      - rewrite Z.eqb_refl. cbn [negb]. rewrite andb_false_r. reflexivity. }
    rewrite Hb. intros E; inv_pair E. subst S1. cbn in Hsum, Hc.
    destruct Hnok as [Hn1 [Hn2 Hn3]].
    destruct (tr s) eqn:Ht.
    + conj5; [ | fin ..].
      destruct HI as [i1 i2 i3 i4 i5 i6 i7 i8 i9 i10 i11 i12]; rewrite ?Ht in *; constructor; cbn; rewrite ?Ht;
        first [ assumption | congruence
              | rewrite i3, app_assoc; reflexivity
              | apply Forall_app_one; assumption
              | rewrite len_app_one; lia
              | auto ].
    + subst n. conj5; [ | fin ..].
      destruct HI as [i1 i2 i3 i4 i5 i6 i7 i8 i9 i10 i11 i12]; rewrite ?Ht in *; constructor; cbn; rewrite ?Ht;
        first [ assumption | congruence
              | rewrite i3, app_assoc; reflexivity
              | apply Forall_app_one; assumption
              | auto ].
  - rewrite sent_ok_neg by lia.
    destruct ((res =? - IPC_EAGAIN) || (res =? - IPC_ETIMEDOUT)).
    + destruct (0 <? outst (nt s)).
      * destruct (resend s env1) as [[s1 x] env2] eqn:Hr.
        destruct (resend_spec _ _ _ _ _ Hok He1 Hr) as [He2 [_ [n [-> [Hc [Hs [Hn _]]]]]]].
        intros E; inv_pair E. conj5; [apply inv_with_sv; apply inv_with_nt; auto | fin ..].
      * intros E; inv_pair E. conj5; [apply inv_with_sv; auto | fin ..].
    + intros E; inv_pair E. conj5; fin.
Qed.

Lemma inv_with_fcmax s n : Inv s -> Inv (with_fcmax s n).
Proof. intros HI; destruct HI; constructor; cbn; auto. Qed.

(* ---------------------------------------------------------------- server: receiving *)
(* the invariant inside the dispatch loop: k requests have been consumed whose notification bytes are still
   in the socket (they are drained after the loop) *)
Definition sub_c2s (s : st) (k : Z) : st :=
  match tr s with
  | SHM => with_nt s (set_c2s (nt s) (c2s (nt s) - k))
  | SOCK => s
  end.
Definition InvR (s : st) (k : Z) : Prop := Inv (sub_c2s s k).

Lemma invr_0 s : Inv s -> InvR s 0.
Proof.
  intros HI; unfold InvR, sub_c2s. destruct (tr s) eqn:Ht; auto.
  destruct HI; constructor; cbn; rewrite ?Ht in *; auto. lia.
Qed.

Lemma xrecv_sock_max q mx :
  Forall (wfm mx) q ->
  xrecv fixed SOCK q mx = match q with [] => ([], - IPC_ETIMEDOUT, None) | m :: rest => (rest, m_len m, Some m) end.
Proof.
  intros Hq; destruct q as [|m rest]; [reflexivity|].
  inversion Hq as [|? ? [[Hl [Hh Hid]] Hmx] _]; subst. pose proof hdr_pos as HP.
  unfold xrecv.
  assert (Hhd : (IPC_HDR_SIZE <=? m_len m) = true) by (apply Z.leb_le; lia).
  rewrite Hhd, Hh. cbn [v_recvbound fixed andb].
  assert (Hn : (m_len m <? 0) = false) by (apply Z.ltb_ge; lia). rewrite Hn. cbn [orb].
  assert (Hb : (mx <? m_len m) = false) by (apply Z.ltb_ge; lia). rewrite Hb.
  unfold to_size_t. rewrite Hn, Z.min_id.
  assert (Hz : (m_len m =? 0) = false) by (apply Z.eqb_neq; lia). rewrite Hz. reflexivity.
Qed.

(* the checks of _process_request_ pass for an accepted message *)
Lemma process_body_ok s m reclaim :
  wfm (maxsz s) m ->
  process_body fixed s m (m_len m) reclaim =
  (let s1 := with_gh (with_sv s (set_mrets (inc_req (sv s)) (tl (mrets (sv s))))) (g_dlv_req (gh s) m) in
   let s2 := if reclaim then with_ch s1 (set_q_req (ch s1) (tl (q_req (ch s1)))) else s1 in
   (s2, (if match mrets (sv s) with [] => 0 | r :: _ => r end <? 0 then - IPC_ENOBUFS else m_len m),
    [(m_len m, m)])).
Proof.
  intros [[Hl [Hh Hid]] Hmx]. pose proof hdr_pos as HP. unfold process_body.
  assert (H1 : (m_len m =? 0) = false) by (apply Z.eqb_neq; lia).
  assert (H2 : (m_id m =? IPC_MSG_DISCONNECT) = false) by (apply Z.eqb_neq; unfold IPC_MSG_DISCONNECT; lia).
  rewrite H1, H2. cbn [orb v_reqvalid fixed andb]. rewrite Hh.
  assert (H3 : (m_len m <? IPC_HDR_SIZE) = false) by (apply Z.ltb_ge; lia).
  assert (H4 : (m_len m <? 0) = false) by (apply Z.ltb_ge; lia).
  assert (H5 : (m_len m <? m_len m) = false) by (apply Z.ltb_irrefl).
  assert (H6 : (maxsz s <? m_len m) = false) by (apply Z.ltb_ge; lia).
  rewrite H3, H4, H5, H6. cbn [orb]. unfold to_size_t. rewrite H4. reflexivity.
Qed.

Definition cb_true (c : cb) : Prop := fst c = m_len (snd c).

Lemma process_request_spec s k s1 res cbs :
  InvR s k -> process_request fixed s = (s1, res, cbs) ->
  fc_en (sv s1) = fc_en (sv s) /\
  ((cbs = [] /\ (res = - IPC_EAGAIN \/ res = - IPC_ETIMEDOUT) /\ InvR s1 k /\ dlv_req (gh s1) = dlv_req (gh s)) \/
   (exists m, cbs = [(m_len m, m)] /\ (res = m_len m /\ 0 < res \/ res = - IPC_ENOBUFS) /\ InvR s1 (k + 1) /\
              dlv_req (gh s1) = dlv_req (gh s) ++ [m])).
Proof.
  unfold InvR, sub_c2s, process_request. intros HI. destruct (tr s) eqn:Ht.
  - (* shm: peek, process, reclaim *)
    destruct (q_req (ch s)) as [|m rest] eqn:Hq.
    + intros E; inv_pair E. split; [reflexivity|]. left. cbn. rewrite Ht.
      split; [reflexivity|]. split; [left; reflexivity|]. split; [|reflexivity].
      destruct HI; constructor; cbn in *; rewrite ?Ht in *; auto.
    + assert (Hw : wfm (maxsz s) m).
      { pose proof (i_wreq _ HI) as H; cbn in H; rewrite Hq in H; inversion H; auto. }
      pose proof Hw as [[Hl _] _]. pose proof hdr_pos as HP.
      assert (Hz : (m_len m =? 0) = false) by (apply Z.eqb_neq; lia). rewrite Hz.
      rewrite process_body_ok by exact Hw. cbn zeta.
      intros E; inv_pair E. split; [reflexivity|]. right. exists m. cbn. rewrite Ht, Hq. cbn.
      split; [reflexivity|]. split.
      { destruct (match mrets (sv s) with [] => 0 | r :: _ => r end <? 0); [right; reflexivity | left; split; [reflexivity | lia]]. }
      split; [|reflexivity].
      destruct HI as [i1 i2 i3 i4 i5 i6 i7 i8 i9 i10 i11 i12]; cbn in *; rewrite ?Ht, ?Hq in *; constructor; cbn;
        rewrite ?Ht, ?Hq; cbn;
        first [ assumption
              | rewrite i1, <- app_assoc; reflexivity
              | inversion i4; assumption
              | cbn [length] in i7; lia
              | auto ].
  - (* socket: recv_at_most into receive_buf of maxsz bytes *)
    rewrite xrecv_sock_max by (exact (i_wreq _ HI)).
    destruct (q_req (ch s)) as [|m rest] eqn:Hq.
    + cbn. intros E; inv_pair E. split; [reflexivity|]. left. cbn. rewrite Ht.
      split; [reflexivity|]. split; [right; reflexivity|]. split; [|reflexivity].
      rewrite <- Hq. rewrite eta_q_req.
      destruct HI; constructor; cbn in *; rewrite ?Ht in *; auto.
    + assert (Hw : wfm (maxsz s) m).
      { pose proof (i_wreq _ HI) as H; rewrite Hq in H; inversion H; auto. }
      pose proof Hw as [[Hl _] _]. pose proof hdr_pos as HP.
      rewrite process_body_ok by exact Hw. cbn zeta.
      intros E; inv_pair E. split; [reflexivity|]. right. exists m. cbn. rewrite Ht.
      split; [reflexivity|]. split.
      { destruct (match mrets (sv s) with [] => 0 | r :: _ => r end <? 0); [right; reflexivity | left; split; [reflexivity | lia]]. }
      split; [|reflexivity].
      destruct HI as [i1 i2 i3 i4 i5 i6 i7 i8 i9 i10 i11 i12]; rewrite ?Ht, ?Hq in *; constructor; cbn;
        rewrite ?Ht;
        first [ assumption
              | rewrite i1, <- app_assoc; reflexivity
              | inversion i4; assumption
              | auto ].
Qed.

Definition res_ok (res : Z) : Prop :=
  0 < res \/ res = - IPC_EAGAIN \/ res = - IPC_ETIMEDOUT \/ res = - IPC_ENOBUFS.

Lemma res_ok_not_shutdown res : res_ok res -> (res =? - IPC_ESHUTDOWN) = false.
Proof.
  intros [H | [-> | [-> | ->]]]; try reflexivity. apply Z.eqb_neq. unfold IPC_ESHUTDOWN. lia.
Qed.

(* one round of the do-while loop, then the rest *)
Lemma disp_loop_unfold n s k cbs :
  disp_loop fixed n s k cbs =
  (let '(s1, res, c1) := process_request fixed s in
   if res =? - IPC_ESHUTDOWN then (s1, res, k, cbs ++ c1) else
   let recvd' := if (0 <? res) || (res =? - IPC_ENOBUFS) || (res =? - IPC_EINVAL) then k + 1 else k in
   match n with
   | S (S n' as m) =>
       if (0 <? res) && (fc_en (sv s1) =? 0) then disp_loop fixed m s1 recvd' (cbs ++ c1)
       else (s1, res, recvd', cbs ++ c1)
   | _ => (s1, res, recvd', cbs ++ c1)
   end).
Proof. destruct n; reflexivity. Qed.

Lemma disp_loop_spec n : forall s k cbs s' res k' cbs',
  InvR s k -> disp_loop fixed n s k cbs = (s', res, k', cbs') ->
  InvR s' k' /\ res_ok res /\
  exists d, cbs' = cbs ++ d /\ dlv_req (gh s') = dlv_req (gh s) ++ map snd d /\ Forall cb_true d.
Proof.
  induction n as [|n IH]; intros s k cbs s' res k' cbs' HI; rewrite disp_loop_unfold;
    destruct (process_request fixed s) as [[s1 r1] c1] eqn:Hp;
    destruct (process_request_spec _ _ _ _ _ HI Hp) as [Hfc Hcase].
  - (* n = 0: a single round *)
    destruct Hcase as [[-> [Hr [HI1 Hd]]] | [m [-> [Hr [HI1 Hd]]]]].
    + assert (Hok : res_ok r1) by (destruct Hr as [-> | ->]; [right; left | right; right; left]; reflexivity).
      rewrite (res_ok_not_shutdown _ Hok).
      assert (Hk : ((0 <? r1) || (r1 =? - IPC_ENOBUFS) || (r1 =? - IPC_EINVAL)) = false)
        by (destruct Hr as [-> | ->]; reflexivity).
      rewrite Hk. intros E; inv_pair E. split; [assumption|]. split; [assumption|].
      exists []. rewrite !app_nil_r. repeat split; auto.
    + assert (Hok : res_ok r1) by (destruct Hr as [[-> H] | ->]; [left; assumption | right; right; right; reflexivity]).
      rewrite (res_ok_not_shutdown _ Hok).
      assert (Hk : ((0 <? r1) || (r1 =? - IPC_ENOBUFS) || (r1 =? - IPC_EINVAL)) = true).
      { destruct Hr as [[-> H] | ->]; [|reflexivity]. apply Z.ltb_lt in H. rewrite H. reflexivity. }
      rewrite Hk. intros E; inv_pair E. split; [assumption|]. split; [assumption|].
      exists [(m_len m, m)]. repeat split; auto. constructor; [reflexivity | constructor].
  - (* n = S n *)
    destruct Hcase as [[-> [Hr [HI1 Hd]]] | [m [-> [Hr [HI1 Hd]]]]].
    + assert (Hok : res_ok r1) by (destruct Hr as [-> | ->]; [right; left | right; right; left]; reflexivity).
      rewrite (res_ok_not_shutdown _ Hok).
      assert (Hk : ((0 <? r1) || (r1 =? - IPC_ENOBUFS) || (r1 =? - IPC_EINVAL)) = false)
        by (destruct Hr as [-> | ->]; reflexivity).
      assert (Hp0 : (0 <? r1) = false) by (destruct Hr as [-> | ->]; reflexivity).
      rewrite Hk, Hp0. cbn [andb].
      destruct n; intros E; inv_pair E; (split; [assumption|]; split; [assumption|];
        exists []; rewrite !app_nil_r; repeat split; auto).
    + assert (Hok : res_ok r1) by (destruct Hr as [[-> H] | ->]; [left; assumption | right; right; right; reflexivity]).
      rewrite (res_ok_not_shutdown _ Hok).
      assert (Hk : ((0 <? r1) || (r1 =? - IPC_ENOBUFS) || (r1 =? - IPC_EINVAL)) = true).
      { destruct Hr as [[-> H] | ->]; [|reflexivity]. apply Z.ltb_lt in H. rewrite H. reflexivity. }
      rewrite Hk.
      assert (Hstop : InvR s1 (k + 1) /\ res_ok r1 /\
                      exists d, cbs ++ [(m_len m, m)] = cbs ++ d /\
                                dlv_req (gh s1) = dlv_req (gh s) ++ map snd d /\ Forall cb_true d).
      { split; [assumption|]. split; [assumption|]. exists [(m_len m, m)]. repeat split; auto.
        constructor; [reflexivity | constructor]. }
      destruct n as [|n'].
      * intros E; inv_pair E. exact Hstop.
      * destruct ((0 <? r1) && (fc_en (sv s1) =? 0)).
        -- intros E. destruct (IH _ _ _ _ _ _ _ HI1 E) as [HI2 [Hok2 [d [-> [Hd2 Hf]]]]].
           split; [assumption|]. split; [assumption|].
           exists ((m_len m, m) :: d). rewrite <- app_assoc. split; [reflexivity|]. split.
           ++ rewrite Hd2, Hd, <- app_assoc. reflexivity.
           ++ constructor; [reflexivity | assumption].
        -- intros E; inv_pair E. exact Hstop.
Qed.

(* the receive path never changes transport or negotiated maximum *)
Lemma process_request_shape s s1 res cbs :
  process_request fixed s = (s1, res, cbs) -> tr s1 = tr s /\ maxsz s1 = maxsz s.
Proof.
  unfold process_request, process_body. destruct (tr s) eqn:Ht.
  - destruct (q_req (ch s)) as [|m rest].
    + intros E; inv_pair E; cbn; auto.
    + repeat match goal with |- context [if ?b then _ else _] => destruct b end;
        intros E; inv_pair E; cbn; auto.
  - destruct (xrecv fixed SOCK (q_req (ch s)) (maxsz s)) as [[q' r] om]. destruct om as [m|].
    + repeat match goal with |- context [if ?b then _ else _] => destruct b end;
        intros E; inv_pair E; cbn; auto.
    + repeat match goal with |- context [if ?b then _ else _] => destruct b end;
        intros E; inv_pair E; cbn; auto.
Qed.

Lemma disp_loop_shape n : forall s k cbs s' res k' cbs',
  disp_loop fixed n s k cbs = (s', res, k', cbs') -> tr s' = tr s /\ maxsz s' = maxsz s.
Proof.
  induction n as [|n IH]; intros s k cbs s' res k' cbs'; rewrite disp_loop_unfold;
    destruct (process_request fixed s) as [[s1 r1] c1] eqn:Hp;
    destruct (process_request_shape _ _ _ _ Hp) as [Ht Hm].
  - destruct (r1 =? - IPC_ESHUTDOWN); intros E; inv_pair E; auto.
  - destruct (r1 =? - IPC_ESHUTDOWN); [intros E; inv_pair E; auto|].
    destruct n as [|n']; [intros E; inv_pair E; auto|].
    destruct ((0 <? r1) && (fc_en (sv s1) =? 0)); [|intros E; inv_pair E; auto].
    intros E. destruct (IH _ _ _ _ _ _ _ E) as [Ht2 Hm2]. split; congruence.
Qed.

Lemma q_len_limit_zero s : q_len_limit s = 0 -> Z.of_nat (length (q_req (ch s))) = 0.
Proof.
  unfold q_len_limit. set (n := Z.of_nat (length (q_req (ch s)))).
  destruct (n <=? 0) eqn:H0; [auto|]. apply Z.leb_gt in H0.
  destruct (prio (sv s) =? IPC_LOOP_MED); [unfold Z.min; destruct (n ?= 5) eqn:?; lia|].
  destruct (prio (sv s) =? IPC_LOOP_LOW); [lia|].
  unfold IPC_MAX_RECV_MSGS, Z.min; destruct (n ?= 50) eqn:?; lia.
Qed.

Lemma min0_res_ok res :
  res_ok res ->
  (if (Z.min 0 res =? - IPC_EAGAIN) || (Z.min 0 res =? - IPC_ETIMEDOUT) || (Z.min 0 res =? - IPC_ENOBUFS)
   then 0 else Z.min 0 res) = 0.
Proof.
  intros [H | [-> | [-> | ->]]]; try reflexivity.
  rewrite Z.min_l by lia. reflexivity.
Qed.

(* ---------------------------------------------------------------- qb_ipcs_dispatch_connection_request *)
Lemma dispatch_spec s pin pout env s' r cbs e :
  Inv s -> env_live env -> dispatch fixed s pin pout env = (s', r, cbs, e) ->
  Inv s' /\ env_live e /\ tr s' = tr s /\ maxsz s' = maxsz s /\
  (dlv_req (gh s') = dlv_req (gh s) ++ map snd cbs /\ Forall cb_true cbs).
Proof.
  intros HI He. unfold dispatch.
  assert (Hok : nt_ok (nt s)) by (destruct HI; repeat split; auto).
  (* POLLOUT: resend *)
  assert (H0 : exists s0 env0,
             (if pout then let '(s', _, e') := resend s env in (s', e') else (s, env)) = (s0, env0) /\
             Inv s0 /\ env_live env0 /\ tr s0 = tr s /\ maxsz s0 = maxsz s /\ gh s0 = gh s).
  { destruct pout.
    - destruct (resend s env) as [[s1 x] e1] eqn:Hr.
      destruct (resend_spec _ _ _ _ _ Hok He Hr) as [He1 [_ [n [-> [Hc [Hs [Hn _]]]]]]].
      exists (with_nt s n), e1. split; [reflexivity|]. split; [apply inv_with_nt; auto|].
      split; [exact He1|]. split; [reflexivity|]. split; reflexivity.
    - exists s, env. split; [reflexivity|]. split; [exact HI|]. split; [exact He|].
      split; [reflexivity|]. split; reflexivity. }
  destruct H0 as [s0 [env0 [-> [HI0 [He0 [Ht0 [Hm0 Hg0]]]]]]].
  destruct (negb pin).
  { intros E; inv_pair E. conj5; auto. rewrite Hg0, app_nil_r. split; [reflexivity | constructor]. }
  destruct (negb (fc_en (sv s0) =? 0)).
  { intros E; inv_pair E. conj5; auto. rewrite Hg0, app_nil_r. split; [reflexivity | constructor]. }
  pose proof (invr_0 _ HI0) as HR0.
  destruct (tr s0) eqn:Ht.
  - (* shm *)
    destruct (q_len_limit s0 =? 0) eqn:Hav.
    + apply Z.eqb_eq in Hav. apply q_len_limit_zero in Hav.
      pose proof (i_c2s _ HI0) as Hc. rewrite Ht, Hav in Hc. rewrite Hc. cbn [Z.ltb Z.compare].
      intros E; inv_pair E. conj5; auto; try congruence.
      rewrite Hg0, app_nil_r. split; [reflexivity | constructor].
    + destruct (disp_loop fixed (Z.to_nat (q_len_limit s0)) s0 0 []) as [[[s1 res] recvd] cbs1] eqn:Hl.
      destruct (disp_loop_spec _ _ _ _ _ _ _ _ HR0 Hl) as [HR1 [Hres [d [Hd [Hdl Hf]]]]].
      destruct (disp_loop_shape _ _ _ _ _ _ _ _ Hl) as [Ht1 Hm1].
      cbn [app] in Hd. subst cbs1.
      rewrite (res_ok_not_shutdown _ Hres).
      unfold InvR, sub_c2s in HR1. rewrite Ht1, Ht in HR1.
      assert (Hge : (c2s (nt s1) <? recvd) = false).
      { apply Z.ltb_ge. pose proof (i_c2s _ HR1) as Hc. cbn in Hc. rewrite Ht1, Ht in Hc. lia. }
      rewrite Hge. rewrite (min0_res_ok _ Hres). cbn [Z.eqb].
      intros E; inv_pair E.
      conj5; cbn; [exact HR1 | assumption | congruence | congruence
                  | rewrite Hdl, Hg0; split; [reflexivity | assumption]].
  - (* socket *)
    destruct (disp_loop fixed (Z.to_nat (q_len_limit s0)) s0 0 []) as [[[s1 res] recvd] cbs1] eqn:Hl.
    destruct (disp_loop_spec _ _ _ _ _ _ _ _ HR0 Hl) as [HR1 [Hres [d [Hd [Hdl Hf]]]]].
    destruct (disp_loop_shape _ _ _ _ _ _ _ _ Hl) as [Ht1 Hm1].
    cbn [app] in Hd. subst cbs1.
    rewrite (res_ok_not_shutdown _ Hres).
    unfold InvR, sub_c2s in HR1. rewrite Ht1, Ht in HR1.
    rewrite (min0_res_ok _ Hres). cbn [Z.eqb].
    intros E; inv_pair E.
    conj5; cbn; [exact HR1 | assumption | congruence | congruence
                | rewrite Hdl, Hg0; split; [reflexivity | assumption]].
Qed.

Lemma s_turn_spec s wr env s' r cbs e :
  Inv s -> env_live env -> s_turn fixed s wr env = (s', r, cbs, e) ->
  Inv s' /\ env_live e /\ tr s' = tr s /\ maxsz s' = maxsz s /\
  (dlv_req (gh s') = dlv_req (gh s) ++ map snd cbs /\ Forall cb_true cbs).
Proof.
  intros HI He. unfold s_turn.
  destruct (negb (server_fd_pollin s) && negb (pollout (nt s) && wr)).
  { intros E; inv_pair E. conj5; auto. rewrite app_nil_r. split; [reflexivity | constructor]. }
  destruct (dispatch fixed s (server_fd_pollin s) (pollout (nt s) && wr) env) as [[[s1 r1] cbs1] e1] eqn:Hd.
  intros E; inv_pair E. exact (dispatch_spec _ _ _ _ _ _ _ _ HI He Hd).
Qed.

(* ---------------------------------------------------------------- one step *)
(* what a step's outputs say: every msg_process call is told the length of the message it is handed, a
   receive call that returns a message returns its full length, and the connection is alive *)
Definition out_ok (x : out) : Prop :=
  o_dead x = false /\ Forall cb_true (o_cbs x) /\ (forall m, o_msg x = Some m -> o_res x = m_len m).

Lemma s_rate_inv s rl : Inv s -> Inv (s_rate s rl).
Proof. intros HI; unfold s_rate. apply inv_with_sv; exact HI. Qed.

Lemma step_spec s o env s' x :
  Inv s -> wf_op o -> env_live env -> step fixed s o env = (s', x) ->
  Inv s' /\ tr s' = tr s /\ maxsz s' = maxsz s /\ out_ok x /\
  dlv_req (gh s') = dlv_req (gh s) ++ map snd (o_cbs x).
Proof.
  intros HI Hw He. unfold step.
  destruct (i_open _ HI) as [Hc Hb]. rewrite Hc, Hb. cbn [orb].
  assert (Hnil : forall l : list msg, l = l ++ map snd (@nil cb)) by (intros; cbn; rewrite app_nil_r; reflexivity).
  destruct o as [v m | m bl | bl | bl | n | wr | v m | v m | rl | l | m]; cbn in Hw.
  - destruct (c_send s v m env) as [[s1 r] e] eqn:H.
    destruct (c_send_spec _ _ _ _ _ _ _ HI Hw He H) as [HI1 [_ [Ht [Hm Hcase]]]].
    intros E; inv_pair E. split; [assumption|]. split; [assumption|]. split; [assumption|]. split.
    + repeat split; cbn; auto. discriminate.
    + cbn. rewrite app_nil_r. destruct Hcase as [[_ ->] | [_ [_ [_ Ha]]]]; [reflexivity|].
      (* dlv_req is not touched by a send *)
      revert H. unfold c_send.
      repeat match goal with
             | |- context [if ?b then _ else _] => destruct b
             | |- context [let '(_, _) := ?p in _] => destruct p as [[? ?] ?]
             | |- context [match tr s with _ => _ end] => destruct (tr s)
             | |- context [notify_spin ?e] => destruct (notify_spin e) as [? ?]
             end; intros E; inv_pair E; reflexivity.
  - destruct (c_sendrecv fixed s m bl env) as [[[s1 r] om] e] eqn:H.
    destruct (c_sendrecv_spec _ _ _ _ _ _ _ _ HI Hw He H) as [HI1 [_ [Ht [Hm Hcase]]]].
    intros E; inv_pair E. split; [assumption|]. split; [assumption|]. split; [assumption|]. split.
    + repeat split; cbn; auto. intros m0 Hm0.
      destruct Hcase as [[-> _] | [m' [-> [-> _]]]]; [discriminate | inversion Hm0; reflexivity].
    + cbn. rewrite app_nil_r.
      revert H. unfold c_sendrecv, c_send, c_recv.
      repeat match goal with
             | |- context [if ?b then _ else _] => destruct b
             | |- context [xsend ?a ?b ?c ?d ?e] => destruct (xsend a b c d e) as [[? ?] ?]
             | |- context [xrecv ?a ?b ?c ?d] => destruct (xrecv a b c d) as [[? ?] [?|]]
             | |- context [match tr s with _ => _ end] => destruct (tr s)
             | |- context [notify_spin ?e] => destruct (notify_spin e) as [? ?]
             end; intros E; inv_pair E; reflexivity.
  - destruct (c_recv fixed s bl) as [[s1 r] om] eqn:H.
    destruct (c_recv_spec _ _ _ _ _ HI H) as [HI1 [Ht [Hm [_ Hcase]]]].
    intros E; inv_pair E. split; [assumption|]. split; [assumption|]. split; [assumption|]. split.
    + repeat split; cbn; auto. intros m0 Hm0.
      destruct Hcase as [[-> _] | [m' [rest [-> [_ [_ [_ [-> _]]]]]]]]; [discriminate | inversion Hm0; reflexivity].
    + cbn. rewrite app_nil_r.
      revert H. unfold c_recv.
      destruct (xrecv fixed (tr s) (q_resp (ch s)) bl) as [[? ?] [?|]]; intros E; inv_pair E; reflexivity.
  - destruct (c_evrecv fixed s bl) as [[s1 r] om] eqn:H.
    destruct (c_evrecv_spec _ _ _ _ _ HI H) as [HI1 [Ht [Hm [_ Hcase]]]].
    intros E; inv_pair E. split; [assumption|]. split; [assumption|]. split; [assumption|]. split.
    + repeat split; cbn; auto. intros m0 Hm0.
      destruct Hcase as [[-> _] | [m' [rest [-> [_ [_ [_ [-> _]]]]]]]]; [discriminate | inversion Hm0; reflexivity].
    + cbn. rewrite app_nil_r.
      revert H. unfold c_evrecv.
      repeat match goal with
             | |- context [if ?b then _ else _] => destruct b
             | |- context [xrecv ?a ?b ?c ?d] => destruct (xrecv a b c d) as [[? ?] [?|]]
             | |- context [match tr s with _ => _ end] => destruct (tr s)
             end; intros E; inv_pair E; reflexivity.
  - destruct ((n <? 0) || (2 <? n)); intros E; inv_pair E.
    + split; [assumption|]. repeat split; cbn; auto; try discriminate.
    + split; [apply inv_with_fcmax; assumption|]. repeat split; cbn; auto; try discriminate.
  - destruct (s_turn fixed s wr env) as [[[s1 r] cbs] e] eqn:H.
    destruct (s_turn_spec _ _ _ _ _ _ _ HI He H) as [HI1 [_ [Ht [Hm [Hd Hf]]]]].
    intros E; inv_pair E. split; [assumption|]. split; [assumption|]. split; [assumption|]. split.
    + repeat split; cbn; auto. discriminate.
    + exact Hd.
  - destruct (s_resp fixed s v m env) as [[s1 r] e] eqn:H.
    destruct (s_resp_spec _ _ _ _ _ _ _ HI Hw He H) as [HI1 [_ [Ht [Hm Hcase]]]].
    intros E; inv_pair E. split; [assumption|]. split; [assumption|]. split; [assumption|]. split.
    + repeat split; cbn; auto. discriminate.
    + cbn. rewrite app_nil_r.
      revert H. unfold s_resp.
      repeat match goal with
             | |- context [if ?b then _ else _] => destruct b
             | |- context [xsend ?a ?b ?c ?d ?e] => destruct (xsend a b c d e) as [[? ?] ?]
             end; intros E; inv_pair E; reflexivity.
  - destruct (s_evt fixed s v m env) as [[s1 r] e] eqn:H.
    destruct (s_evt_spec _ _ _ _ _ _ _ HI Hw He H) as [HI1 [_ [Ht [Hm Hcase]]]].
    intros E; inv_pair E. split; [assumption|]. split; [assumption|]. split; [assumption|]. split.
    + repeat split; cbn; auto. discriminate.
    + cbn. rewrite app_nil_r. destruct Hcase as [[_ [_ [-> _]]] | _]; [reflexivity|].
      revert H. unfold s_evt, new_notification, resend.
      repeat match goal with
             | |- context [if ?b then _ else _] => destruct b
             | |- context [xsend ?a ?b ?c ?d ?e] => destruct (xsend a b c d e) as [[? ?] ?]
             | |- context [pop ?e] => destruct (pop e) as [[| |?] ?]
             | |- context [match tr ?z with _ => _ end] => destruct (tr z)
             end; cbn; intros E; inv_pair E; reflexivity.
  - intros E; inv_pair E. split; [apply s_rate_inv; assumption|]. repeat split; cbn; auto; try discriminate.
  - intros E; inv_pair E. split; [apply inv_with_sv; assumption|]. repeat split; cbn; auto; try discriminate.
  - contradiction.
Qed.

(* ---------------------------------------------------------------- all histories *)
Definition cbs_of (outs : list out) : list msg := concat (map (fun x => map snd (o_cbs x)) outs).

Lemma run_spec h : forall s s' outs,
  Inv s -> wf_hist h -> run fixed s h = (s', outs) ->
  Inv s' /\ tr s' = tr s /\ maxsz s' = maxsz s /\ Forall out_ok outs /\
  dlv_req (gh s') = dlv_req (gh s) ++ cbs_of outs.
Proof.
  induction h as [|[o env] h IH]; intros s s' outs HI Hw; cbn [run].
  - intros E; inv_pair E. conj5; auto. unfold cbs_of; cbn. rewrite app_nil_r; reflexivity.
  - inversion Hw as [|? ? [Ho He] Hw']; subst. cbn in Ho, He.
    destruct (step fixed s o env) as [s1 x] eqn:Hs.
    destruct (step_spec _ _ _ _ _ HI Ho He Hs) as [HI1 [Ht1 [Hm1 [Hx Hd1]]]].
    destruct (run fixed s1 h) as [s2 xs] eqn:Hr.
    destruct (IH _ _ _ HI1 Hw' Hr) as [HI2 [Ht2 [Hm2 [Hxs Hd2]]]].
    intros E; inv_pair E. conj5; auto; try congruence.
    rewrite Hd2, Hd1, <- app_assoc. reflexivity.
Qed.

(* C02, exactly once / in order / intact: after every history, on each of the three channels the accepted
   messages are exactly the delivered ones followed by the ones still queued (same tokens, same order); the
   delivered requests are exactly the msg_process invocations, each told its message's own length; a receive
   call that returns a message returns its full length; the server never dropped the client nor blocked. *)
Theorem exactly_once t mx h s outs :
  wf_hist h -> run fixed (init t mx) h = (s, outs) ->
  acc_req (gh s) = dlv_req (gh s) ++ q_req (ch s) /\
  acc_resp (gh s) = rcv_resp (gh s) ++ q_resp (ch s) /\
  acc_evt (gh s) = rcv_evt (gh s) ++ q_evt (ch s) /\
  dlv_req (gh s) = cbs_of outs /\
  Forall out_ok outs /\
  closed s = false /\ blocked s = false.
Proof.
  intros Hw Hr. destruct (run_spec _ _ _ _ (inv_init t mx) Hw Hr) as [HI [_ [_ [Ho Hd]]]].
  destruct HI. cbn in Hd. destruct i_open0. repeat split; auto.
Qed.

(* reachable states satisfy the invariant *)
Theorem reachable_inv t mx h : wf_hist h -> Inv (fst (run fixed (init t mx) h)).
Proof.
  intros Hw. destruct (run fixed (init t mx) h) as [s outs] eqn:Hr.
  exact (proj1 (run_spec _ _ _ _ (inv_init t mx) Hw Hr)).
Qed.

(* C02, notification accounting (shm): one unread byte on the setup socket per queued request; one unread
   byte or one deferred notification per queued event; deferred notifications are armed for re-sending *)
Theorem notify_accounting s :
  Inv s -> tr s = SHM ->
  c2s (nt s) = Z.of_nat (length (q_req (ch s))) /\
  s2c (nt s) + outst (nt s) = Z.of_nat (length (q_evt (ch s))) /\
  0 <= s2c (nt s) /\ 0 <= outst (nt s).
Proof. intros HI Ht. destruct HI. rewrite Ht in *. auto. Qed.

(* C02, readability: while an event is queued and unread the descriptor the client polls is readable, unless
   its notification is still deferred - and then POLLOUT is armed, so the server's next turn re-sends it *)
Theorem readable s :
  Inv s ->
  (q_evt (ch s) <> [] -> outst (nt s) = 0 -> client_fd_readable s = true) /\
  (0 < outst (nt s) -> pollout (nt s) = true).
Proof.
  intros HI. split.
  - intros Hq Ho. unfold client_fd_readable. destruct (tr s) eqn:Ht.
    + destruct (notify_accounting _ HI Ht) as [_ [Hs _]]. apply Z.ltb_lt.
      destruct (q_evt (ch s)); [contradiction|]. cbn [length] in Hs. lia.
    + destruct (q_evt (ch s)); [contradiction | reflexivity].
  - intros Ho. rewrite (i_po _ HI). apply Z.ltb_lt; assumption.
Qed.

(* C02, a send that fails has no effect on any queue, any history, nor on the notification accounting *)
Definition is_send (o : op) : bool :=
  match o with CSend _ _ | SResp _ _ | SEvt _ _ => true | _ => false end.

Theorem failed_send_pure s o env s' x :
  Inv s -> wf_op o -> env_live env -> is_send o = true -> step fixed s o env = (s', x) -> o_res x < 0 ->
  ch s' = ch s /\ gh s' = gh s /\ c2s (nt s') = c2s (nt s) /\
  s2c (nt s') + outst (nt s') = s2c (nt s) + outst (nt s).
Proof.
  intros HI Hw He Hs. unfold step. destruct (i_open _ HI) as [Hc Hb]. rewrite Hc, Hb. cbn [orb].
  pose proof hdr_pos as HP.
  destruct o as [v m | m bl | bl | bl | n | wr | v m | v m | rl | l | m]; try discriminate; cbn in Hw.
  - destruct (c_send s v m env) as [[s1 r] e] eqn:H.
    destruct (c_send_spec _ _ _ _ _ _ _ HI Hw He H) as [_ [_ [_ [_ Hcase]]]].
    intros E; inv_pair E; cbn. intros Hneg.
    destruct Hcase as [[_ ->] | [-> _]]; [auto|]. destruct Hw as [Hl _]. lia.
  - destruct (s_resp fixed s v m env) as [[s1 r] e] eqn:H.
    destruct (s_resp_spec _ _ _ _ _ _ _ HI Hw He H) as [_ [_ [_ [_ Hcase]]]].
    intros E; inv_pair E; cbn. intros Hneg.
    destruct Hcase as [[_ [-> [-> ->]]] | [-> _]]; [auto|]. destruct Hw as [Hl _]. lia.
  - destruct (s_evt fixed s v m env) as [[s1 r] e] eqn:H.
    destruct (s_evt_spec _ _ _ _ _ _ _ HI Hw He H) as [_ [_ [_ [_ Hcase]]]].
    intros E; inv_pair E; cbn. intros Hneg.
    destruct Hcase as [[_ [-> [-> [-> ->]]]] | [-> _]]; [auto|]. destruct Hw as [Hl _]. lia.
Qed.

(* C02, every send call refuses a message larger than the negotiated maximum and changes nothing *)
Theorem oversize_refused s o env m :
  closed s = false -> blocked s = false -> maxsz s < m_len m ->
  (exists v, o = CSend v m \/ o = SResp v m \/ o = SEvt v m) ->
  exists x, step fixed s o env = (s, x) /\ o_res x = - IPC_EMSGSIZE.
Proof.
  intros Hc Hb Hm [v Ho]. unfold step. rewrite Hc, Hb. cbn [orb].
  apply Z.ltb_lt in Hm.
  destruct Ho as [-> | [-> | ->]].
  - unfold c_send. rewrite Hm. eexists; split; reflexivity.
  - unfold s_resp. cbn [v_sendchk fixed andb]. rewrite Hm. eexists; split; reflexivity.
  - unfold s_evt. replace (negb v || v_sendchk fixed) with true by (destruct v; reflexivity).
    cbn [andb]. rewrite Hm. eexists; split; reflexivity.
Qed.

(* ... which is false of the code as found: an event of 14000 bytes is accepted by qb_ipcs_event_sendv on a
   connection whose negotiated maximum is 12328 (design finding 6.3 #4; replayed on the real library) *)
Theorem oversize_refused_orig_refuted :
  exists s o m, closed s = false /\ blocked s = false /\ maxsz s < m_len m /\ o = SEvt true m /\
                0 <= o_res (snd (step orig s o [])) /\ q_evt (ch (fst (step orig s o []))) = [m].
Proof.
  exists (init SHM 12328), (SEvt true {| m_id := 2; m_len := 14000; m_hsize := 14000; m_tag := 1 |}),
         {| m_id := 2; m_len := 14000; m_hsize := 14000; m_tag := 1 |}.
  vm_compute. repeat split; congruence.
Qed.

(* non-vacuity: a well-formed history with a flow-control toggle, a refused and an accepted request, a
   deferred event notification, a re-send on POLLOUT and receives, on the shm transport *)
Definition ex_msg (len tag : Z) : msg := {| m_id := 1; m_len := len; m_hsize := len; m_tag := tag |}.
Definition ex_hist : list (op * list kres) :=
  [ (SRate IPC_RATE_OFF, []); (CSend false (ex_msg 100 1), []); (SRate IPC_RATE_NORMAL, []);
    (CSend true (ex_msg 100 2), [KAgain; KOk]); (CSend false (ex_msg 20000 3), []);
    (SEvt false (ex_msg 64 4), [KAgain]); (SEvt true (ex_msg 16 5), [KAgain]);
    (STurn true, [KOk]); (CEvRecv 10, []); (CEvRecv 64, []); (SResp false (ex_msg 32 6), []) ].

Example ex_hist_wf : wf_hist ex_hist.
Proof.
  unfold ex_hist, wf_hist, ex_msg.
  repeat (apply Forall_cons; [cbn; unfold wfmsg, env_live, live, IPC_HDR_SIZE; cbn;
                              repeat split; try lia; auto; repeat constructor; auto |]).
  constructor.
Qed.

Example ex_hist_result :
  let s := fst (run fixed (init SHM 12328) ex_hist) in
  map m_tag (acc_req (gh s)) = [2] /\ map m_tag (dlv_req (gh s)) = [2] /\
  map m_tag (acc_evt (gh s)) = [4; 5] /\ map m_tag (rcv_evt (gh s)) = [4] /\ map m_tag (q_evt (ch s)) = [5] /\
  map m_tag (q_resp (ch s)) = [6] /\ s2c (nt s) = 1 /\ outst (nt s) = 0 /\
  map o_res (snd (run fixed (init SHM 12328) ex_hist)) = [0; -11; 0; 100; -90; 64; 16; 5; -105; 64; 32].
Proof. vm_compute. repeat split; reflexivity. Qed.
