(* C14 round trip, serializer half: for a covered format whose record fits, qb_vsnprintf_serialize (repaired)
   returns exactly strlen(fmt) + 1 + |ser_data| and the record is  fmt, NUL, ser_data. *)
From Coq Require Import List ZArith Bool Lia.
Require Import Verif.gen.Consts_logfmt Verif.SerModel Verif.SerProofs Verif.SerLists Verif.SerSpec.
Import ListNotations.
Open Scope Z_scope.

Lemma long_is_llong : LF_SIZEOF_LONG = LF_SIZEOF_LLONG.
Proof. reflexivity. Qed.

Lemma zlen_scalar_bytes : forall sz a, 0 <= sz -> zlen (scalar_bytes sz a) = sz.
Proof. intros. unfold scalar_bytes. rewrite zlen_le_bytes. lia. Qed.

Lemma wrap32_small : forall x, 0 <= x < 4294967296 -> wrap32 x = x.
Proof. intros. unfold wrap32. apply Z.mod_small. lia. Qed.

Lemma store_bytes_append : forall buf loc bytes, 0 <= loc -> loc + zlen bytes <= zlen buf ->
  exists b, store_bytes buf loc bytes = Some b /\ zlen b = zlen buf /\
            takeZ (loc + zlen bytes) b = takeZ loc buf ++ bytes.
Proof.
  intros buf loc bytes Hl Hr. destruct (store_bytes_some bytes buf loc Hl Hr) as [b [E L]].
  exists b. split; [exact E|]. split; [exact L|].
  destruct (store_bytes_spec _ _ _ _ E Hl) as [Eb _]. rewrite Eb at 1. rewrite app_assoc.
  pose proof (zlen_nonneg _ bytes).
  assert (Hz : zlen (takeZ loc buf ++ bytes) = loc + zlen bytes) by (rewrite zlen_app, zlen_takeZ; lia).
  rewrite <- Hz. apply takeZ_app_exact.
Qed.

Lemma va_scalar_next : forall args, va_scalar args = (arg_raw (fst (next_arg args)), snd (next_arg args)).
Proof. destruct args; reflexivity. Qed.

Lemma va_string_next : forall args,
  va_string args = (match fst (next_arg args) with AStr s => Some (cstr s) | _ => None end, snd (next_arg args)).
Proof. destruct args as [|a t]; [reflexivity|]. destruct a; reflexivity. Qed.

Lemma takeZ_min_len : forall (s : list Z) a, takeZ (Z.min a (zlen s)) s = takeZ a s.
Proof.
  intros. destruct (Z_le_gt_dec a (zlen s)).
  - rewrite Z.min_l by lia. reflexivity.
  - rewrite Z.min_r by lia. rewrite !takeZ_all by lia. reflexivity.
Qed.

(* my_strlcpy (repaired) with room: exact content *)
Lemma my_strlcpy_exact : forall tag buf pos src n,
  0 <= pos -> 1 <= n < SIZE_MOD -> pos + n <= zlen buf ->
  let k := Z.min (n - 1) (zlen src) in
  exists b, my_strlcpy_m true tag buf pos src n = (Some b, k) /\ zlen b = zlen buf /\
            takeZ (pos + k + 1) b = takeZ pos buf ++ takeZ k src ++ [0].
Proof.
  intros tag buf pos src n Hp Hn Hr k. unfold my_strlcpy_m, strlcpy_m. cbn [andb].
  replace (n =? 0) with false by (symmetry; apply Z.eqb_neq; lia).
  pose proof (zlen_nonneg _ src) as Hs.
  assert (Hk : zlen (takeZ k src) = k) by (rewrite zlen_takeZ; unfold k; lia).
  fold k.
  destruct (store_bytes_append buf pos (takeZ k src ++ [0]) Hp) as [b [E [L T]]].
  { rewrite zlen_app, Hk. change (zlen [0]) with 1. unfold k. lia. }
  rewrite E. exists b. split.
  - f_equal. rewrite wrapsz_small by lia. unfold k. lia.
  - split; [exact L|]. rewrite zlen_app, Hk in T. change (zlen [0]) with 1 in T.
    replace (pos + k + 1) with (pos + (k + 1)) by lia. exact T.
Qed.

(* ------------------------------------------------------------------ the simulation *)
Definition rel_len (tl tll : bool) (d : pdir) : Prop := 0 <= p_l d /\ (tl || tll) = negb (p_l d =? 0).

Definition srel (m : smode) (pm : pmode) (st : sst) : Prop :=
  match m, pm with
  | SScan, PLit => True
  | SDir tl tll, PDir d =>
    rel_len tl tll d /\ s_len st = p_plen d /\ s_prec st = p_prec d /\ 0 <= p_plen d < SIZE_MAX
  | _, _ => False
  end.

Definition sgoal (max : Z) (st : sst) (data : list Z) (o : outcome) : Prop :=
  exists buf, o = Done (s_loc st + zlen data) buf 0 /\ zlen buf = max /\
              takeZ (s_loc st + zlen data) buf = takeZ (s_loc st) (s_buf st) ++ data.

Lemma sgoal_chain : forall max st st' bytes data' o,
  s_loc st' = s_loc st + zlen bytes ->
  takeZ (s_loc st') (s_buf st') = takeZ (s_loc st) (s_buf st) ++ bytes ->
  sgoal max st' data' o -> sgoal max st (bytes ++ data') o.
Proof.
  intros max st st' bytes data' o Hl Ht [buf [E [L T]]]. exists buf.
  rewrite zlen_app. replace (s_loc st + (zlen bytes + zlen data')) with (s_loc st' + zlen data') by lia.
  split; [exact E|]. split; [exact L|]. rewrite T, Ht, app_assoc. reflexivity.
Qed.

Lemma sgoal_same : forall max st st' data o,
  s_loc st' = s_loc st -> s_buf st' = s_buf st -> sgoal max st' data o -> sgoal max st data o.
Proof.
  intros max st st' data o Hl Hb H. apply (sgoal_chain max st st' [] data o); auto.
  - change (zlen (@nil Z)) with 0. lia.
  - rewrite Hl, Hb, app_nil_r. reflexivity.
Qed.

Lemma int_size_rel : forall tl tll d, rel_len tl tll d ->
  (if tl then LF_SIZEOF_LONG else if tll then LF_SIZEOF_LLONG else LF_SIZEOF_INT) = int_size d.
Proof.
  intros tl tll d [H0 H]. unfold int_size.
  destruct (p_l d =? 0) eqn:E0; cbn in H.
  - apply orb_false_iff in H. destruct H; subst. reflexivity.
  - destruct (p_l d =? 1); destruct tl; try reflexivity; destruct tll; try reflexivity; discriminate.
Qed.

Lemma sizes_pos :
  0 <= LF_SIZEOF_INT /\ 0 <= LF_SIZEOF_LONG /\ 0 <= LF_SIZEOF_LLONG /\ 0 <= LF_SIZEOF_DOUBLE /\
  0 <= LF_SIZEOF_UCHAR /\ 0 <= LF_SIZEOF_PTRDIFF.
Proof. vm_compute. repeat split; discriminate. Qed.

Lemma int_size_nonneg : forall d, 0 <= int_size d.
Proof. intros. unfold int_size. destruct (p_l d =? 0); [|destruct (p_l d =? 1)]; vm_compute; discriminate. Qed.

Section Ser.
  Variable max : Z.
  Hypothesis Hmax : 0 <= max < 4294967296.

  Lemma ser_scalar_data : forall sz st k a args' data',
    next_arg (s_args st) = (a, args') -> 0 <= sz ->
    zlen (s_buf st) = max -> 0 <= s_loc st -> s_loc st + zlen (scalar_bytes sz a ++ data') <= max ->
    (forall b, zlen b = max -> takeZ (s_loc st + sz) b = takeZ (s_loc st) (s_buf st) ++ scalar_bytes sz a ->
               sgoal max (mkS b (s_loc st + sz) (s_len st) (s_prec st) args') data'
                     (k (mkS b (s_loc st + sz) (s_len st) (s_prec st) args'))) ->
    sgoal max st (scalar_bytes sz a ++ data') (ser_scalar max sz st k).
  Proof.
    intros sz st k a args' data' EN Hsz Hb Hl Hroom Hk. unfold ser_scalar.
    rewrite zlen_app, zlen_scalar_bytes in Hroom by lia. pose proof (zlen_nonneg _ data').
    replace (max <? s_loc st + sz) with false by (symmetry; apply Z.ltb_ge; lia).
    rewrite va_scalar_next, EN. cbn [fst snd].
    destruct (store_bytes_append (s_buf st) (s_loc st) (scalar_bytes sz a)) as [b [E [L T]]]; [lia | rewrite zlen_scalar_bytes; lia |].
    unfold scalar_bytes in E. rewrite E. rewrite zlen_scalar_bytes in T by lia.
    rewrite wrap32_small by lia.
    eapply sgoal_chain; [ | | apply (Hk b); [lia | exact T]]; cbn.
    - rewrite zlen_scalar_bytes; lia.
    - exact T.
  Qed.

  Lemma ser_go_data : forall k f m pm st,
    (length f <= k)%nat -> srel m pm st -> wf_go f pm (s_args st) = true ->
    zlen (s_buf st) = max -> 0 <= s_loc st -> s_loc st + zlen (ser_data f pm (s_args st)) <= max ->
    sgoal max st (ser_data f pm (s_args st)) (ser_go true max f m st).
  Proof.
    induction k as [|k IH]; intros f m pm st Hlen Hrel Hwf Hb Hl Hroom.
    { destruct f; [|cbn in Hlen; lia]. destruct m, pm; try contradiction; cbn in *; try discriminate.
      exists (s_buf st). change (zlen (@nil Z)) with 0. rewrite Z.add_0_r, app_nil_r. auto. }
    destruct f as [|c f'].
    { destruct m, pm; try contradiction; cbn in *; try discriminate.
      exists (s_buf st). change (zlen (@nil Z)) with 0. rewrite Z.add_0_r, app_nil_r. auto. }
    cbn [length] in Hlen. assert (Hlen' : (length f' <= k)%nat) by lia.
    pose proof sizes_pos as [Hz1 [Hz2 [Hz3 [Hz4 [Hz5 Hz6]]]]].
    cbn [wf_go] in Hwf. destruct ((c =? 0) || (c =? LF_XC)) eqn:Ebad; [discriminate|].
    destruct m as [|tl tll]; destruct pm as [|d]; try contradiction.
    - (* scanning literal text *)
      cbn [ser_go ser_data] in *.
      destruct (classify c) eqn:EC; try discriminate;
        try (apply IH; [exact Hlen' | exact I | exact Hwf | exact Hb | exact Hl | exact Hroom]).
      (* CPct: the directive state starts afresh *)
      eapply sgoal_same with (st' := mkS (s_buf st) (s_loc st) 0 false (s_args st)); [reflexivity | reflexivity |].
      apply (IH f' (SDir false false) (PDir pd_init) (mkS (s_buf st) (s_loc st) 0 false (s_args st)));
        [exact Hlen' | | exact Hwf | exact Hb | exact Hl | exact Hroom].
      unfold srel, rel_len, pd_init. cbn [p_l p_plen p_prec s_len s_prec].
      split; [split; [lia | reflexivity]|]. split; [reflexivity|]. split; [reflexivity|].
      vm_compute. split; [discriminate | reflexivity].
    - (* inside a directive *)
      destruct Hrel as [Hrl [Hsl [Hsp Hpl]]].
      cbn [ser_go ser_data] in *.
      destruct (next_arg (s_args st)) as [a args'] eqn:EN.
      apply andb_true_iff in Hwf. destruct Hwf as [HG Hwf].
      assert (Hkeep : forall d', rel_len tl tll d' -> p_plen d' = p_plen d -> p_prec d' = p_prec d ->
                 srel (SDir tl tll) (PDir d') st).
      { intros d' H1 H2 H3. cbn. rewrite H2, H3. auto. }
      destruct (classify c) eqn:EC; try discriminate.
      + (* CFlag *)
        apply IH; [exact Hlen' | apply Hkeep; auto | exact Hwf | exact Hb | exact Hl | exact Hroom].
      + (* CDot *)
        eapply sgoal_same with (st' := mkS (s_buf st) (s_loc st) (s_len st) true (s_args st)); [reflexivity | reflexivity |].
        apply (IH f' (SDir tl tll) _ (mkS (s_buf st) (s_loc st) (s_len st) true (s_args st)));
          [exact Hlen' | cbn; auto | exact Hwf | exact Hb | exact Hl | exact Hroom].
      + (* CDigit *)
        apply andb_true_iff in Hwf. destruct Hwf as [HP Hwf].
        rewrite Hsp. destruct (p_prec d) eqn:EP.
        * apply Z.ltb_lt in HP.
          assert (Hc : 48 <= c <= 57).
          { unfold classify in EC. destruct (c =? 0); [discriminate|].
            destruct ((c =? 35) || (c =? 45) || (c =? 32) || (c =? 43) || (c =? 39) || (c =? 73)); [discriminate|].
            destruct (c =? 46); [discriminate|].
            destruct ((48 <=? c) && (c <=? 57)) eqn:E.
            - apply andb_true_iff in E. destruct E as [E1 E2]. apply Z.leb_le in E1, E2. lia.
            - repeat match type of EC with context [if ?b then _ else _] => destruct b end; discriminate. }
          eapply sgoal_same with (st' := mkS (s_buf st) (s_loc st) (wrapsz (wrapsz (s_len st * 10) + (c - 48))) true (s_args st));
            [reflexivity | reflexivity |].
          apply (IH f' (SDir tl tll) _ (mkS (s_buf st) (s_loc st) (wrapsz (wrapsz (s_len st * 10) + (c - 48))) true (s_args st)));
            [exact Hlen' | | exact Hwf | exact Hb | exact Hl | exact Hroom].
          cbn. rewrite Hsl.
          assert (0 <= p_plen d * 10 + (c - 48) < SIZE_MAX) by lia.
          unfold SIZE_MAX in *.
          rewrite (wrapsz_small (p_plen d * 10)) by lia. rewrite wrapsz_small by lia.
          pose proof SIZE_MOD_val. split; [exact Hrl|]. split; [reflexivity|]. split; [reflexivity|]. lia.
        * apply IH; [exact Hlen' | | exact Hwf | exact Hb | exact Hl | exact Hroom].
          cbn. split; [exact Hrl|]. split; [exact Hsl|]. split; [congruence | exact Hpl].
      + (* CStar *)
        apply andb_true_iff in Hwf. destruct Hwf as [_ Hwf].
        rewrite va_scalar_next, EN. cbn [fst snd].
        rewrite zlen_app, zlen_scalar_bytes in Hroom by lia.
        pose proof (zlen_nonneg _ (ser_data f' (PDir (pd_add d (dec (to_signed (8 * LF_SIZEOF_INT) (arg_raw a))))) args')).
        replace (max <? s_loc st + LF_SIZEOF_INT) with false by (symmetry; apply Z.ltb_ge; lia).
        destruct (store_bytes_append (s_buf st) (s_loc st) (scalar_bytes LF_SIZEOF_INT a)) as [b [E [L T]]];
          [lia | rewrite zlen_scalar_bytes; lia |].
        unfold scalar_bytes in E. rewrite E. rewrite zlen_scalar_bytes in T by lia.
        rewrite wrap32_small by lia.
        eapply (sgoal_chain max st (mkS b (s_loc st + LF_SIZEOF_INT) (s_len st) (s_prec st) args')).
        * cbn [s_loc]. rewrite zlen_scalar_bytes; lia.
        * cbn [s_loc s_buf]. exact T.
        * apply (IH f' (SDir tl tll) _ (mkS b (s_loc st + LF_SIZEOF_INT) (s_len st) (s_prec st) args'));
            [exact Hlen' | apply Hkeep; auto | exact Hwf | cbn [s_loc s_buf s_args]; lia | cbn [s_loc s_buf s_args]; lia | cbn [s_loc s_buf s_args]; lia].
      + (* CEll: the serializer takes "ll" in one step *)
        assert (Hnext : forall tl' tll', (tl' || tll') = true ->
                  srel (SDir tl' tll') (PDir (mkP (p_acc d ++ [c]) (p_l d + 1) (p_prec d) (p_plen d))) st).
        { intros tl' tll' Ht. unfold srel, rel_len; cbn [p_l p_plen p_prec]. destruct Hrl as [Hl0 _]. split; [|auto]. split; [lia|].
          rewrite Ht. symmetry. apply negb_true_iff. apply Z.eqb_neq. lia. }
        destruct f' as [|c2 f2].
        { apply IH; [exact Hlen' | apply Hnext; reflexivity | exact Hwf | exact Hb | exact Hl | exact Hroom]. }
        destruct (Z.eq_dec c2 108) as [->|Hne].
        * (* second 'l' *)
          cbn [wf_go] in Hwf. change ((108 =? 0) || (108 =? LF_XC)) with false in Hwf. cbv iota in Hwf.
          rewrite EN in Hwf. apply andb_true_iff in Hwf. destruct Hwf as [HG2 Hwf].
          change (classify 108) with CEll in Hwf.
          cbn [ser_data] in Hroom |- *. rewrite EN in Hroom |- *. change (classify 108) with CEll in Hroom |- *.
          apply IH; [cbn [length] in Hlen'; lia | | exact Hwf | exact Hb | exact Hl | exact Hroom].
          unfold srel, rel_len; cbn [p_l p_plen p_prec]. destruct Hrl as [Hl0 _]. split; [|auto]. split; [lia|].
          symmetry. apply negb_true_iff. apply Z.eqb_neq. lia.
        * assert (HIH : sgoal max st (ser_data (c2 :: f2) (PDir (mkP (p_acc d ++ [c]) (p_l d + 1) (p_prec d) (p_plen d))) (s_args st))
                              (ser_go true max (c2 :: f2) (SDir true tll) st)).
          { apply IH; [exact Hlen' | apply Hnext; destruct tll; reflexivity | exact Hwf | exact Hb | exact Hl | exact Hroom]. }
          destruct c2 as [|p|p]; try exact HIH.
          do 7 (destruct p as [p|p|]; try exact HIH). exfalso. apply Hne. reflexivity.
      + (* CZee *)
        change (LF_SIZEOF_SIZE_T =? LF_SIZEOF_LLONG) with true. cbv iota.
        apply IH; [exact Hlen' | | exact Hwf | exact Hb | exact Hl | exact Hroom].
        unfold srel, rel_len; cbn [p_l p_plen p_prec]. split; [|auto]. split; [lia|]. destruct tl; reflexivity.
      + (* CTee *)
        change (LF_SIZEOF_PTRDIFF =? LF_SIZEOF_LLONG) with true. cbv iota.
        apply IH; [exact Hlen' | | exact Hwf | exact Hb | exact Hl | exact Hroom].
        unfold srel, rel_len; cbn [p_l p_plen p_prec]. split; [|auto]. split; [lia|]. destruct tl; reflexivity.
      + (* CJay *)
        change (LF_SIZEOF_INTMAX =? LF_SIZEOF_LLONG) with true. cbv iota.
        apply IH; [exact Hlen' | | exact Hwf | exact Hb | exact Hl | exact Hroom].
        unfold srel, rel_len; cbn [p_l p_plen p_prec]. split; [|auto]. split; [lia|]. destruct tl; reflexivity.
      + (* CInt *)
        rewrite (int_size_rel tl tll d Hrl).
        pose proof (int_size_nonneg d) as Hisz.
        apply ser_scalar_data with (args' := args'); [exact EN | exact Hisz | exact Hb | exact Hl | exact Hroom |].
        intros b Lb Tb.
        rewrite zlen_app, zlen_scalar_bytes in Hroom by exact Hisz.
        apply (IH f' SScan PLit (mkS b (s_loc st + int_size d) (s_len st) (s_prec st) args'));
          [exact Hlen' | exact I | exact Hwf | exact Lb | cbn [s_loc s_buf s_args]; lia | cbn [s_loc s_buf s_args]; lia].
      + (* CDbl *)
        apply ser_scalar_data with (args' := args'); [exact EN | exact Hz4 | exact Hb | exact Hl | exact Hroom |].
        intros b Lb Tb.
        rewrite zlen_app, zlen_scalar_bytes in Hroom by exact Hz4.
        apply (IH f' SScan PLit (mkS b (s_loc st + LF_SIZEOF_DOUBLE) (s_len st) (s_prec st) args'));
          [exact Hlen' | exact I | exact Hwf | exact Lb | cbn [s_loc s_buf s_args]; lia | cbn [s_loc s_buf s_args]; lia].
      + (* CChr *)
        apply ser_scalar_data with (args' := args'); [exact EN | exact Hz5 | exact Hb | exact Hl | exact Hroom |].
        intros b Lb Tb.
        rewrite zlen_app, zlen_scalar_bytes in Hroom by exact Hz5.
        apply (IH f' SScan PLit (mkS b (s_loc st + LF_SIZEOF_UCHAR) (s_len st) (s_prec st) args'));
          [exact Hlen' | exact I | exact Hwf | exact Lb | cbn [s_loc s_buf s_args]; lia | cbn [s_loc s_buf s_args]; lia].
      + (* CStr *)
        rewrite va_string_next, EN. cbn [fst snd andb].
        set (want := str_arg d a) in *.
        set (rest := ser_data f' PLit args') in *.
        rewrite !zlen_app in Hroom. change (zlen [0]) with 1 in Hroom.
        pose proof (zlen_nonneg _ want) as Hw0. pose proof (zlen_nonneg _ rest) as Hr0.
        replace (max <? s_loc st + 1) with false by (symmetry; apply Z.ltb_ge; lia).
        rewrite wrapsz_small by (rewrite SIZE_MOD_val; lia).
        (* the source string and the size handed to my_strlcpy *)
        assert (Hsrc : exists src n,
                  (match match a with AStr s => Some (cstr s) | _ => None end with
                   | Some s => if s_len st =? 0 then (s, Z.min (wrapsz (zlen s + 1)) (max - s_loc st))
                               else (s, Z.min (wrapsz (s_len st + 1)) (max - s_loc st))
                   | None => ([40; 110; 117; 108; 108; 41], Z.min (6 + 1) (max - s_loc st))
                   end) = (src, n) /\ 1 <= n <= max - s_loc st /\ takeZ (Z.min (n - 1) (zlen src)) src = want /\
                  Z.min (n - 1) (zlen src) = zlen want).
        { assert (Hnull : str_arg d a = null_text -> exists src n,
                    ([40; 110; 117; 108; 108; 41], Z.min (6 + 1) (max - s_loc st)) = (src, n) /\
                    1 <= n <= max - s_loc st /\ takeZ (Z.min (n - 1) (zlen src)) src = want /\
                    Z.min (n - 1) (zlen src) = zlen want).
          { intros Hn. eexists _, _. split; [reflexivity|]. unfold want in *. rewrite Hn in *.
            change (zlen null_text) with 6 in *. change (zlen [40; 110; 117; 108; 108; 41]) with 6.
            rewrite (Z.min_l (6 + 1)) by lia. split; [lia|]. split; reflexivity. }
          destruct a as [v|v|v|v|v|s|]; try (apply Hnull; reflexivity).
          pose proof (zlen_nonneg _ (cstr s)) as Hcs.
          unfold want, str_arg in Hroom, Hw0 |- *. rewrite <- Hsl in Hroom, Hw0 |- *.
          destruct (s_len st =? 0) eqn:E0.
          - eexists _, _. split; [reflexivity|].
            rewrite wrapsz_small by (rewrite SIZE_MOD_val; lia).
            rewrite (Z.min_l (zlen (cstr s) + 1)) by lia.
            replace (zlen (cstr s) + 1 - 1) with (zlen (cstr s)) by lia. rewrite Z.min_id.
            split; [lia|]. split; [apply takeZ_all; lia | reflexivity].
          - apply Z.eqb_neq in E0.
            assert (Hsl1 : 0 <= s_len st < SIZE_MAX) by (rewrite Hsl; exact Hpl).
            unfold SIZE_MAX in Hsl1.
            eexists _, _. split; [reflexivity|].
            rewrite wrapsz_small by lia.
            rewrite zlen_takeZ in Hroom, Hw0.
            set (nn := Z.min (s_len st + 1) (max - s_loc st)).
            assert (Hmin : Z.min (nn - 1) (zlen (cstr s)) = Z.min (s_len st) (zlen (cstr s))) by (unfold nn; lia).
            split; [unfold nn; lia|]. split.
            + rewrite Hmin. apply takeZ_min_len.
            + rewrite Hmin, zlen_takeZ. lia. }
        destruct Hsrc as [src [nn [Esrc [Hnn [Htake Hlenw]]]]].
        rewrite Esrc.
        destruct (my_strlcpy_exact 1 (s_buf st) (s_loc st) src nn) as [b [E [L T]]]; [lia | rewrite SIZE_MOD_val; lia | lia |].
        rewrite E. rewrite Htake, Hlenw in T. rewrite Hlenw.
        rewrite (wrap32_small (s_loc st + zlen want)) by lia. rewrite wrap32_small by lia.
        replace (want ++ [0] ++ rest) with ((want ++ [0]) ++ rest) by (rewrite <- app_assoc; reflexivity).
        eapply (sgoal_chain max st (mkS b (s_loc st + zlen want + 1) (s_len st) (s_prec st) args')).
        * cbn [s_loc]. rewrite zlen_app. change (zlen [0]) with 1. lia.
        * cbn [s_loc s_buf]. exact T.
        * apply (IH f' SScan PLit (mkS b (s_loc st + zlen want + 1) (s_len st) (s_prec st) args'));
            [exact Hlen' | exact I | exact Hwf | cbn [s_loc s_buf s_args]; lia | cbn [s_loc s_buf s_args]; lia | cbn [s_loc s_buf s_args]; fold rest; lia].
      + (* CPtr *)
        rewrite va_scalar_next, EN. cbn [fst snd].
        rewrite zlen_app, zlen_scalar_bytes in Hroom by lia.
        pose proof (zlen_nonneg _ (ser_data f' PLit args')).
        replace (max <? s_loc st + LF_SIZEOF_PTRDIFF) with false by (symmetry; apply Z.ltb_ge; lia).
        destruct (store_bytes_append (s_buf st) (s_loc st) (scalar_bytes LF_SIZEOF_PTRDIFF a)) as [b [E [L T]]];
          [lia | rewrite zlen_scalar_bytes; lia |].
        unfold scalar_bytes in E. rewrite E. rewrite zlen_scalar_bytes in T by lia.
        rewrite wrap32_small by lia.
        eapply (sgoal_chain max st (mkS b (s_loc st + LF_SIZEOF_PTRDIFF) (s_len st) (s_prec st) args')).
        * cbn [s_loc]. rewrite zlen_scalar_bytes; lia.
        * cbn [s_loc s_buf]. exact T.
        * apply (IH f' SScan PLit (mkS b (s_loc st + LF_SIZEOF_PTRDIFF) (s_len st) (s_prec st) args'));
            [exact Hlen' | exact I | exact Hwf | cbn [s_loc s_buf s_args]; lia | cbn [s_loc s_buf s_args]; lia | cbn [s_loc s_buf s_args]; lia].
      + (* CPct *)
        apply IH; [exact Hlen' | exact I | exact Hwf | exact Hb | exact Hl | exact Hroom].
  Qed.
End Ser.
