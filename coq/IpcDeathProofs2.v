(* C03 - proofs about coq/IpcDeathModel.v, part 2: the client's calls when the server is dead. *)
Require Import ZArith List Bool Lia.
Require Import Verif.gen.Consts_ipcdeath Verif.IpcDeathModel.
Import ListNotations.
Open Scope Z_scope.

Lemma disc_facts : forall r, is_disconnected r = true ->
  (0 <=? r) = false /\ (r =? - D_EAGAIN) = false /\ (r =? - D_ETIMEDOUT) = false /\ (r <? 0) = true.
Proof.
  intros r H. unfold is_disconnected in H.
  destruct (0 <=? r) eqn:E0; [discriminate|].
  destruct (r =? - D_EAGAIN) eqn:E1; cbn [orb] in H; [discriminate|].
  destruct (r =? - D_ETIMEDOUT) eqn:E2; cbn [orb] in H; [discriminate|].
  apply Z.leb_gt in E0. repeat split; auto. apply Z.ltb_lt; exact E0.
Qed.

Lemma timedout_facts : (0 <=? - D_ETIMEDOUT) = false /\ is_disconnected (- D_ETIMEDOUT) = false /\
  (- D_ETIMEDOUT =? - D_EAGAIN) = false /\ (- D_ETIMEDOUT =? - D_ETIMEDOUT) = true /\ (- D_ETIMEDOUT <? 0) = true.
Proof. vm_compute. repeat split; reflexivity. Qed.
Lemma again_facts : (0 <=? - D_EAGAIN) = false /\ is_disconnected (- D_EAGAIN) = false /\
  (- D_EAGAIN =? - D_EAGAIN) = true /\ (- D_EAGAIN =? - D_ETIMEDOUT) = false.
Proof. vm_compute. repeat split; reflexivity. Qed.

(* the liveness look at the setup socket finds the hang-up at once *)
Lemma check_with_again_dead : forall e rq eq conn t, dead_server rq eq e ->
  exists r, check_state_with e conn (- D_EAGAIN) t = Some (r, false, 0) /\ is_disconnected r = true.
Proof.
  intros e rq eq conn t (_ & _ & Hr & _).
  destruct (Hr t) as (r & Hr1 & Hr2). exists r. split; [|exact Hr2].
  unfold check_state_with. destruct again_facts as (A1 & A2 & A3 & A4).
  rewrite A1, A2, A3, A4. cbn [orb]. rewrite Hr1, Hr2. reflexivity.
Qed.

(* qb_ipcc_recv with a finite timeout on a dead server with nothing queued: a disconnect error exactly at the
   deadline (or at once when the repaired code already knows that the connection is down) *)
Lemma recv_dead : forall fixed e conn eq t, dead_server false eq e -> 0 <= t ->
  exists r, ipcc_recv fixed e conn t = Some (r, false, if fixed && negb conn then 0 else t) /\
            is_disconnected r = true.
Proof.
  intros fixed e conn eq t D Ht. pose proof D as (Hrecv & _ & Hr & _).
  unfold ipcc_recv. set (t' := if fixed && negb conn then 0 else t).
  assert (Ht' : 0 <= t') by (unfold t'; destruct (fixed && negb conn); lia).
  specialize (Hrecv t'). unfold wait_answer in Hrecv.
  assert (E : (t' <? 0) = false) by (apply Z.ltb_ge; exact Ht'). rewrite E in Hrecv.
  destruct Hrecv as (r0 & Hr0 & Hcase). rewrite Hr0.
  destruct (Hr 0) as (r2 & Hr21 & Hr22).
  destruct Hcase as [Hto | Hd].
  - subst r0. destruct timedout_facts as (T1 & T2 & T3 & T4 & T5).
    rewrite T1. unfold check_state_with. rewrite T1, T2, T3, T4. cbn [orb]. rewrite Hr21, Hr22.
    destruct (disc_facts r2 Hr22) as (_ & _ & _ & L). rewrite L.
    exists r2. rewrite Z.add_0_r. auto.
  - destruct (disc_facts r0 Hd) as (F1 & F2 & F3 & F4).
    rewrite F1. unfold check_state_with. rewrite F1, Hd, F2, F3. cbn [orb]. rewrite F4.
    exists r0. rewrite Z.add_0_r. auto.
Qed.

(* qb_ipcc_sendv_recv whose request went out before the server died (or which is asked to wait for ever): the
   receive loop ends after ONE bounded wait with a disconnect error *)
Lemma recv_loop_dead : forall f fixed e eq ms, dead_server false eq e -> (ms = -1 \/ 0 <= ms) ->
  exists r w, recv_loop (S f) fixed e true ms ms 0 = Some (r, false, w) /\ is_disconnected r = true /\
              0 <= w <= D_MAX_WAIT_MS /\ (0 <= ms -> w <= ms).
Proof.
  intros f fixed e eq ms D Hms. cbn [recv_loop].
  set (tn := if (D_MAX_WAIT_MS <? ms) || (ms =? -1) then D_MAX_WAIT_MS else ms).
  assert (Htn : 0 <= tn <= D_MAX_WAIT_MS /\ (0 <= ms -> tn <= ms)).
  { unfold tn. destruct (D_MAX_WAIT_MS <? ms) eqn:E1; cbn [orb].
    - apply Z.ltb_lt in E1. pose proof (proj2 (proj2 (conj I (conj I (eq_refl : (0 <? D_MAX_WAIT_MS) = true))))) as P.
      apply Z.ltb_lt in P. lia.
    - apply Z.ltb_ge in E1. destruct (ms =? -1) eqn:E2.
      + apply Z.eqb_eq in E2. assert (P : (0 <? D_MAX_WAIT_MS) = true) by reflexivity. apply Z.ltb_lt in P. lia.
      + apply Z.eqb_neq in E2. lia. }
  destruct Htn as (Htn1 & Htn2).
  destruct (recv_dead fixed e true eq tn D (proj1 Htn1)) as (r & Hr & Hd).
  rewrite andb_false_r in Hr. rewrite Hr.
  destruct (disc_facts r Hd) as (_ & F2 & F3 & _). rewrite F3, F2. cbn [andb].
  exists r, (0 + tn). repeat split; auto; lia.
Qed.

(* a call started when the server is already dead: the send fails at once *)
Lemma sendv_recv_after_death : forall fuel fixed e rq eq conn ms, dead_server rq eq e -> e_fc e = 0 ->
  exists r, ipcc_sendv_recv fuel fixed e conn ms = Some (r, false, 0) /\ is_disconnected r = true.
Proof.
  intros fuel fixed e rq eq conn ms (_ & _ & _ & Hs & _) Hfc.
  unfold ipcc_sendv_recv. rewrite Hfc. cbn [Z.ltb Z.compare andb].
  unfold check_state. destruct (disc_facts _ Hs) as (F1 & _ & _ & F4). rewrite F1, Hs, F4.
  exists (e_sendv e). auto.
Qed.

Lemma send_after_death : forall e rq eq conn, dead_server rq eq e ->
  ipcc_send e conn = (e_sendv e, false) /\ is_disconnected (e_sendv e) = true.
Proof.
  intros e rq eq conn (_ & _ & _ & Hs & _). unfold ipcc_send, check_state.
  destruct (disc_facts _ Hs) as (F1 & _). rewrite F1, Hs. auto.
Qed.

(* qb_ipcc_event_recv: whatever the timeout (also -1), a disconnect error at once *)
Lemma event_recv_dead : forall e rq eq conn t, dead_server rq eq e ->
  exists r, ipcc_event_recv e conn t = Some (r, false, 0) /\ is_disconnected r = true.
Proof.
  intros e rq eq conn t D.
  destruct (check_with_again_dead e rq eq conn t D) as (r & H1 & H2).
  unfold ipcc_event_recv. rewrite H1. destruct (disc_facts r H2) as (_ & _ & _ & L). rewrite L. exists r. auto.
Qed.

(* qb_ipcc_disconnect: the client notices the death itself and unlinks the ring files *)
Lemma disconnect_forces : forall e rq eq conn pid_known, dead_server rq eq e ->
  ipcc_disconnect_forces e conn pid_known true = Some true.
Proof.
  intros e rq eq conn pid_known D.
  destruct (check_with_again_dead e rq eq conn 0 D) as (r & H1 & H2).
  unfold ipcc_disconnect_forces. rewrite H1. destruct pid_known; reflexivity.
Qed.

Lemma dead_env_shm_dead : forall rq eq, dead_server rq eq (dead_env_shm rq eq).
Proof.
  intros rq eq. unfold dead_server, dead_env_shm; cbn.
  assert (W : forall q t, wait_answer q t (if q then Some (80, 0) else if t <? 0 then None else Some (- D_ETIMEDOUT, t))).
  { intros q t. unfold wait_answer. destruct q; [exists 80; split; [reflexivity|lia]|].
    destruct (t <? 0); [reflexivity|]. exists (- D_ETIMEDOUT). split; [reflexivity|]. left; reflexivity. }
  repeat split; auto.
  - intros t. exists (- D_ENOTCONN). split; reflexivity.
  - lia.
Qed.

(* the code as found: once the connection is known to be down, qb_ipcc_recv still waits - for its whole timeout, and
   for ever when asked to wait without limit *)
Lemma recv_after_disconnect_unfixed :
  dead_server false false (dead_env_shm false false) /\
  ipcc_recv false (dead_env_shm false false) false (-1) = None /\
  ipcc_recv false (dead_env_shm false false) false 100 = Some (- D_ENOTCONN, false, 100) /\
  ipcc_recv true (dead_env_shm false false) false (-1) = Some (- D_ENOTCONN, false, 0) /\
  ipcc_recv true (dead_env_shm false false) false 100 = Some (- D_ENOTCONN, false, 0).
Proof. split; [apply dead_env_shm_dead|]. vm_compute. repeat split; reflexivity. Qed.
