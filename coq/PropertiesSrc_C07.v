(* C07 - source-tie obligations.  gen/Src_rb.v is regenerated from lib/ringbuffer.c by tools/c2coq.py on every
   run; these theorems state that the hand-written model functions the C07 theorems are about (RbModel.v)
   compute, for all inputs in the stated ranges, exactly what the translated C functions compute.
   Statements only, each closed by `exact'.  hdr_ok W w r: 0 < W <= 2^30, pointers inside [0, W);
   agree d m: word i of the C array is ldw m i; words_ok m: every word is a uint32_t value. *)
From Coq Require Import ZArith List Bool.
Require Import Verif.gen.Consts_rb Verif.gen.Src_rb Verif.C2CoqPrelude Verif.RbModel Verif.RbSrcEq.
Local Open Scope Z_scope.

Theorem C07_src_space_free : forall b rbp cnt orc inst,
  rbp <> 0 -> hdr_ok (rW b) (wpt b) (rpt b) ->
  qb_rb_space_free rbp cnt orc inst 0 (rpt b) (rW b) (wpt b) = (space_free b, cnt).
Proof. exact src_space_free. Qed.
Print Assumptions C07_src_space_free.

Theorem C07_src_space_used : forall b rbp cnt orc inst,
  rbp <> 0 -> hdr_ok (rW b) (wpt b) (rpt b) ->
  qb_rb_space_used rbp cnt orc inst 0 (rpt b) (rW b) (wpt b) = (space_used b, cnt).
Proof. exact src_space_used. Qed.
Print Assumptions C07_src_space_used.

Theorem C07_src_chunk_step : forall rbp d W p,
  0 < W <= 2 ^ 30 -> 0 <= p < W -> 0 <= d p < 2 ^ 32 ->
  qb_rb_chunk_step rbp p d W = chunk_step W p (d p).
Proof. exact src_chunk_step. Qed.
Print Assumptions C07_src_chunk_step.

Theorem C07_src_reclaim : forall b rbp d cnt errno orc inst,
  hdr_ok (rW b) (wpt b) (rpt b) -> agree d (data b) -> (forall i, 0 <= i -> 0 <= d i < 2 ^ 32) ->
  match _rb_chunk_reclaim rbp cnt errno orc inst 0 d (rpt b) (rW b) (wpt b), reclaim b with
  | (rc, cnt', errno', d', r'), (b', rc0) =>
      rc = rc0 /\ cnt' = cnt /\ r' = rpt b' /\ agree d' (data b') /\ wpt b' = wpt b /\ rW b' = rW b /\
      ovw b' = ovw b /\ sem b' = sem b /\ (rc0 <> 0 -> errno' = - rc0 /\ b' = b) /\ (rc0 = 0 -> errno' = errno)
  end.
Proof. exact src_reclaim. Qed.
Print Assumptions C07_src_reclaim.

Theorem C07_src_commit : forall b rbp d len cnt orc inst postfn,
  rbp <> 0 -> hdr_ok (rW b) (wpt b) (rpt b) -> agree d (data b) -> 0 <= len < 2 ^ 32 ->
  match qb_rb_chunk_commit rbp len cnt orc inst postfn d (rW b) (wpt b), commit b len with
  | (rc, cnt', d', w'), (b', rc0) =>
      w' = wpt b' /\ agree d' (data b') /\ rpt b' = rpt b /\ rW b' = rW b /\ ovw b' = ovw b /\
      (postfn = 0 -> rc = rc0 /\ cnt' = cnt) /\ (postfn <> 0 -> rc = s32 (orc cnt) /\ cnt' = cnt + 1)
  end.
Proof. exact src_commit. Qed.
Print Assumptions C07_src_commit.

Theorem C07_src_alloc : forall fuel b rbp d len cntr cnts errno orcr orcs flags inst ptr,
  rbp <> 0 -> hdr_ok (rW b) (wpt b) (rpt b) -> agree d (data b) -> ovw b = false ->
  0 <= len < 2 ^ 62 -> negb (Z.land flags (u32 2) =? 0) = false ->
  match qb_rb_chunk_alloc fuel rbp len cntr cnts errno orcr orcs flags inst 0 0 d ptr (rpt b) (rW b) (wpt b) with
  | None => False
  | Some (p, cntr', cnts', errno', d', r') =>
      cntr' = cntr /\ cnts' = cnts /\ r' = rpt b /\
      match alloc b len with
      | AOk b2 dp => p = ptr + 4 * dp /\ agree d' (data b2) /\ errno' = errno
      | AErr b1 e => p = 0 /\ errno' = e /\ b1 = b /\ d' = d
      | AFuel => False
      end
  end.
Proof. exact src_alloc_plain. Qed.
Print Assumptions C07_src_alloc.

(* overwrite mode (C11): whenever the model's reclaim loop finishes within n rounds, the translated function
   agrees with it given n+1 units of fuel *)
Theorem C07_src_alloc_overwrite : forall n b rbp d len cntr cnts errno orcr orcs flags inst ptr,
  rbp <> 0 -> hdr_ok (rW b) (wpt b) (rpt b) -> agree d (data b) -> words_ok (data b) ->
  0 <= len < 2 ^ 62 -> negb (Z.land flags (u32 2) =? 0) = true ->
  match ow_make_room n b (len + RB_CHUNK_MARGIN) with
  | None => True
  | Some (b1, rc) =>
      match qb_rb_chunk_alloc (S n) rbp len cntr cnts errno orcr orcs flags inst 0 0 d ptr (rpt b) (rW b) (wpt b) with
      | None => False
      | Some (p, cntr', cnts', errno', d', r') =>
          cntr' = cntr /\ cnts' = cnts /\ r' = rpt b1 /\
          if rc =? 0 then
            match alloc_header b1 with
            | AOk b2 dp => p = ptr + 4 * dp /\ agree d' (data b2) /\ errno' = errno
            | _ => False
            end
          else p = 0 /\ errno' = - rc /\ agree d' (data b1)
      end
  end.
Proof. exact src_alloc_overwrite. Qed.
Print Assumptions C07_src_alloc_overwrite.

(* non-vacuity: the translated functions evaluated on a concrete wrapped ring state *)
Example C07_src_example :
  qb_rb_space_free 1 0 (fun _ => 0) 0 0 1000 1027 5 = (3976, 0) /\
  qb_rb_chunk_step 1 1020 (fun i => if i =? 1020 then 37 else 0) 1027 = 5 /\
  hdr_ok 1027 5 1000.
Proof. exact src_example. Qed.
