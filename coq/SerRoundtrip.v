(* C14 round trip: serialize, then deserialize, gives printf_spec - for every covered format (wf_go), all argument
   lists, every rendering oracle, whenever the record fits max_len and the text fits the caller's buffer. *)
From Coq Require Import List ZArith Bool Lia.
Require Import Verif.gen.Consts_logfmt Verif.SerModel Verif.SerProofs Verif.SerLists Verif.SerSpec Verif.SerRoundS
        Verif.SerRoundD.
Import ListNotations.
Open Scope Z_scope.

Definition clean (f : list Z) : Prop := Forall (fun c => c <> 0 /\ c <> LF_XC) f.

Lemma wf_clean : forall f m args, wf_go f m args = true -> clean f.
Proof.
  induction f as [|c f' IH]; intros m args H; [constructor|].
  cbn [wf_go] in H. destruct ((c =? 0) || (c =? LF_XC)) eqn:Ebad; [discriminate|].
  apply orb_false_iff in Ebad. destruct Ebad as [E0 E7]. apply Z.eqb_neq in E0, E7.
  constructor; [split; assumption|].
  destruct m as [|d].
  - destruct (classify c); try discriminate; eapply IH; eauto.
  - destruct (next_arg args) as [a args']. apply andb_true_iff in H. destruct H as [_ H].
    destruct (classify c); try discriminate;
      repeat (apply andb_true_iff in H; destruct H as [_ H]); eapply IH; eauto.
Qed.

Lemma clean_nonzero : forall f, clean f -> nonzero f.
Proof. intros f H. unfold nonzero. eapply Forall_impl; [|exact H]. intros x [H0 _]. exact H0. Qed.

Lemma strchr_clean : forall f rest i, clean f -> strchr_m (f ++ 0 :: rest) LF_XC i = Some None.
Proof.
  induction f as [|c f' IH]; intros rest i H.
  - reflexivity.
  - inversion H as [|? ? [H0 H7] H']; subst. cbn [app strchr_m].
    replace (c =? LF_XC) with false by (symmetry; apply Z.eqb_neq; assumption).
    replace (c =? 0) with false by (symmetry; apply Z.eqb_neq; assumption).
    apply IH. exact H'.
Qed.

Theorem serialize_exact : forall max fmt args g,
  1 <= max < 4294967296 -> zlen g = max -> wf_go fmt PLit args = true ->
  zlen fmt + 1 + zlen (ser_data fmt PLit args) <= max ->
  exists buf, serialize true max fmt args g = Done (zlen fmt + 1 + zlen (ser_data fmt PLit args)) buf 0 /\
              zlen buf = max /\
              takeZ (zlen fmt + 1 + zlen (ser_data fmt PLit args)) buf = fmt ++ [0] ++ ser_data fmt PLit args.
Proof.
  intros max fmt args g Hmax Hg Hwf Hfit.
  pose proof (wf_clean _ _ _ Hwf) as Hcl. pose proof (clean_nonzero _ Hcl) as Hnz.
  pose proof (zlen_nonneg _ fmt) as Hf0. pose proof (zlen_nonneg _ (ser_data fmt PLit args)) as Hd0.
  unfold serialize. rewrite (cstr_idem_nonzero fmt Hnz).
  destruct (my_strlcpy_exact 1 g 0 fmt max) as [b0 [E [L T]]]; [lia | rewrite SIZE_MOD_val; lia | lia |].
  replace (Z.min (max - 1) (zlen fmt)) with (zlen fmt) in * by lia.
  rewrite E. rewrite (takeZ_all fmt) in T by lia. rewrite (takeZ_nonpos g 0) in T by lia. cbn [app] in T.
  assert (Hb0 : b0 = fmt ++ 0 :: dropZ (zlen fmt + 1) b0).
  { rewrite <- (takeZ_dropZ b0 (0 + zlen fmt + 1)) at 1. rewrite T, <- app_assoc. reflexivity. }
  assert (Hsc : strchr_m b0 LF_XC 0 = Some None) by (rewrite Hb0; apply strchr_clean; exact Hcl).
  rewrite Hsc.
  rewrite wrap32_small by lia.
  destruct (ser_go_data max ltac:(lia) (length fmt) fmt SScan PLit (mkS b0 (zlen fmt + 1) 0 false args))
    as [buf [Eb [Lb Tb]]]; [lia | exact I | exact Hwf | cbn [s_buf]; lia | cbn [s_loc]; lia | cbn [s_loc s_args]; lia |].
  cbn [s_loc s_buf s_args] in *. exists buf. split; [exact Eb|]. split; [exact Lb|].
  rewrite Tb. replace (zlen fmt + 1) with (0 + zlen fmt + 1) by lia. rewrite T, <- app_assoc. reflexivity.
Qed.

Theorem roundtrip_thm : forall r1 max n blen fmt args g1 g2,
  1 <= max < 4294967296 -> 1 <= n <= 4294967296 -> zlen g1 = max -> zlen g2 = n ->
  wf_go fmt PLit args = true ->
  zlen fmt + 1 + zlen (ser_data fmt PLit args) <= max ->
  zlen fmt + 1 + zlen (ser_data fmt PLit args) <= blen ->
  zlen (printf_spec r1 fmt PLit args) < n ->
  out_text (deserialize true (snp_of r1) (out_record max (serialize true max fmt args g1)) blen n g2)
  = printf_spec r1 fmt PLit args.
Proof.
  intros r1 max n blen fmt args g1 g2 Hmax Hn Hg1 Hg2 Hwf Hfit Hblen Htxt.
  destruct (serialize_exact max fmt args g1 Hmax Hg1 Hwf Hfit) as [buf [Es [Ls Ts]]].
  rewrite Es. unfold out_record.
  pose proof (zlen_nonneg _ fmt) as Hf0. pose proof (zlen_nonneg _ (ser_data fmt PLit args)) as Hd0.
  pose proof (zlen_nonneg _ (printf_spec r1 fmt PLit args)) as Hs0.
  rewrite Z.min_l by lia. rewrite Ts.
  set (rec := fmt ++ [0] ++ ser_data fmt PLit args).
  pose proof (wf_clean _ _ _ Hwf) as Hcl. pose proof (clean_nonzero _ Hcl) as Hnz.
  assert (Hcs : cstr rec = fmt) by (unfold rec; apply cstr_app_nul; exact Hnz).
  unfold deserialize.
  destruct (store_append g2 0 0) as [b0 [E0 [L0 T0]]]; [lia|]. rewrite E0. rewrite Hcs. cbn [andb].
  replace (blen <=? zlen fmt) with false by (symmetry; apply Z.leb_gt; lia).
  rewrite wrap32_small by lia.
  rewrite des_top_pass by (cbn [d_loc]; lia).
  destruct (des_go_spec r1 rec blen n Hn (length fmt) fmt (DScan []) PLit
                        (mkD b0 0 (zlen fmt + 1) (zlen fmt + 1)) args [])
    as [ret [b [hw [Ed Td]]]];
    [lia | exact I | exact Hwf | cbn [d_buf]; lia | cbn [d_loc]; lia | cbn [d_pos]; lia | | cbn [d_pos]; lia
     | cbn [d_pos]; lia | cbn [d_loc pending rev]; change (zlen (@nil Z)) with 0; lia |].
  - cbn [d_pos]. rewrite app_nil_r. unfold rec.
    replace (zlen fmt + 1) with (zlen (fmt ++ [0])) by (rewrite zlen_app; change (zlen [0]) with 1; lia).
    rewrite app_assoc. apply dropZ_app_exact.
  - rewrite Ed. unfold out_text. rewrite Td. cbn [d_loc d_buf pending rev app].
    rewrite takeZ_nonpos by lia. reflexivity.
Qed.

(* non-vacuity: a format with flags, width, precision, '*', every length modifier, strings, %c, %p, %% is covered *)
Definition demo_fmt : list Z :=
  [37;45;43;35;48;32;39;49;50;46;53;108;108;100;124;37;122;120;124;37;106;117;124;37;116;105;32;37;42;100;32;37;46;51;115;32;37;115;32;37;99;37;37;32;37;112;32;37;46;42;102;33].
  (* "%-+#0 '12.5lld|%zx|%ju|%ti %*d %.3s %s %c%% %p %.*f!" *)
Definition demo_args : list arg :=
  [ALLong (-123456789012); ALLong 18446744073709551615; ALLong 7; ALLong (-7); AInt 8; AInt 96;
   AStr [97;98;99;100;101]; ANull; AInt 65; APtr 4096; AInt 2; ADouble 4612811918334230528].

Lemma demo_covered :
  wf_go demo_fmt PLit demo_args = true /\
  zlen demo_fmt + 1 + zlen (ser_data demo_fmt PLit demo_args) = 125.
Proof. vm_compute. split; reflexivity. Qed.
