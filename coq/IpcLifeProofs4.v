(* C04 - witnesses against the code as found, the same histories on the repaired code, and the base case of the
   callback contract (callbacks that do not call back into the library). *)
Require Import ZArith List Bool Lia.
Require Import Verif.IpcLifeModel Verif.IpcLifeProofs Verif.IpcLifeProofs2 Verif.IpcLifeProofs3.
Import ListNotations.
Open Scope Z_scope.

Definition err_of (r : R) : option err := match r with Fail e _ => Some e | Ok _ _ => None end.
Definition B (ret : Z) (acts : list action) : behav := mkBeh ret acts.

(* 1. qb_ipcs_disconnect from inside msg_process *)
Definition wit_msg_disconnect : list op :=
  [OBeh KMsg (B 0 [ADisc TSelf]); OConn 0 true; OReq 0 true; OReq 0 true; OTurn 0 false].
(* 2. the application's reference outlives the peer; a second qb_ipcs_disconnect *)
Definition wit_second_disconnect : list op :=
  [OConn 0 true; OApp (ARef (TConn 0)); OHup 0 false; OTurn 0 false; OApp (ADisc (TConn 0)); OApp (AUnref (TConn 0))].
(* 3. connection_closed asked for a re-run; qb_ipcs_destroy before the job runs *)
Definition wit_rerun_destroy : list op :=
  [OBeh KClosed (B 1 []); OConn 0 true; OHup 0 false; OTurn 0 false; OApp ADestroy; OJobs].
(* 4. qb_ipcs_destroy while connection_closed of the first connection disconnects the next one *)
Definition wit_destroy_walk : list op :=
  [OConn 0 true; OConn 1 true; OBeh KClosed (B 0 [ADisc (TConn 0)]); OApp ADestroy].
(* 5. rate limit while a connection disconnected inside connection_created is still on the list *)
Definition wit_rate_released : list op :=
  [OBeh KCreated (B 0 [ARef TSelf; ADisc TSelf; ARate 3]); OConn 0 true].

Lemma orig_refuted :
  (forall shm, err_of (run shm false 6 wit_msg_disconnect world0) = Some (UseAfterFree 0)) /\
  (forall shm, err_of (run shm false 6 wit_second_disconnect world0) = Some (OrderViolation KClosed 0)) /\
  (forall shm, err_of (run shm false 6 wit_rerun_destroy world0) = Some (UseAfterFree 0)) /\
  (forall shm, err_of (run shm false 6 wit_destroy_walk world0) = Some (UseAfterFree 0)) /\
  (forall shm, err_of (run shm false 6 wit_rate_released world0) = Some (TransportGone 0)).
Proof. repeat split; intros [|]; vm_compute; reflexivity. Qed.

(* callback log of a run, oldest first: (kind, connection, return value) *)
Definition cbs_of (r : R) : list (kind * nat * Z) :=
  match r with
  | Ok w _ | Fail _ w => rev (flat_map (fun e => match e with ECb k c z => [(k, c, z)] | _ => [] end) (log w))
  end.

Lemma fixed_on_witnesses :
  (forall shm, cbs_of (run shm true 6 wit_msg_disconnect world0) =
               [(KAccept, 0%nat, 0); (KCreated, 0%nat, 0); (KMsg, 0%nat, 0); (KClosed, 0%nat, 0); (KDestroyed, 0%nat, 0)]) /\
  (forall shm, cbs_of (run shm true 6 wit_second_disconnect world0) =
               [(KAccept, 0%nat, 0); (KCreated, 0%nat, 0); (KClosed, 0%nat, 0); (KDestroyed, 0%nat, 0)]) /\
  (forall shm, cbs_of (run shm true 6 wit_rerun_destroy world0) =
               [(KAccept, 0%nat, 0); (KCreated, 0%nat, 0); (KClosed, 0%nat, 1); (KClosed, 0%nat, 0); (KDestroyed, 0%nat, 0)]) /\
  (forall shm, cbs_of (run shm true 6 wit_destroy_walk world0) =
               [(KAccept, 0%nat, 0); (KCreated, 0%nat, 0); (KAccept, 1%nat, 0); (KCreated, 1%nat, 0);
                (KClosed, 1%nat, 0); (KClosed, 0%nat, 0); (KDestroyed, 0%nat, 0); (KDestroyed, 1%nat, 0)]) /\
  (forall shm, err_of (run shm true 6 wit_rate_released world0) = None) /\
  (forall shm, err_of (run shm true 6 wit_msg_disconnect world0) = None) /\
  (forall shm, err_of (run shm true 6 wit_second_disconnect world0) = None) /\
  (forall shm, err_of (run shm true 6 wit_rerun_destroy world0) = None) /\
  (forall shm, err_of (run shm true 6 wit_destroy_walk world0) = None).
Proof. repeat split; intros [|]; vm_compute; reflexivity. Qed.

Definition Z0f : nat -> Z := fun _ => 0.
Definition Ff : dctx := mkD (fun _ => false) false.

Lemma GI_world0 : GI Z0f Z0f Ff world0.
Proof.
  unfold GI, world0; simpl. split; [|split; [|split]]; auto.
  - intros c. unfold CI, conn0, jw, Z0f; simpl. intuition (try lia; try discriminate).
  - unfold LI, Z0f; simpl. split; auto. intros; discriminate.
  - unfold SI, nalloc; simpl. repeat split; intros; try discriminate; auto; lia.
Qed.

Lemma phase_step_ret_indep : forall k p, phase_step k 0 p <> None -> forall r, phase_step k r p <> None.
Proof. intros k p; destruct k, p; simpl; intros; try congruence; destruct (r =? 0); congruence. Qed.

(* base case: an application whose callbacks do not call back into the library satisfies the contract *)
Lemma invoke0_ok : forall shm, cb_ok (invoke shm true 0).
Proof.
  intros shm k c w Hleg Hu.
  set (b := match behs w k with [] => mkBeh 0 [] | b :: _ => b end).
  set (ret := match k with KCreated | KDestroyed => 0 | _ => b_ret b end).
  destruct (phase_step k ret (c_ph (conns w c))) as [p'|] eqn:E.
  2: { exfalso. eapply phase_step_ret_indep; eauto. }
  exists ret, p'. split; auto.
  intros H J D G. unfold invoke. fold b. fold ret. cbn [conns set_behs]. rewrite E.
  assert (U : (match k with KDestroyed => negb (c_uref (conns w c) =? 0) | _ => false end) = false).
  { destruct k; auto. rewrite Hu; auto. }
  rewrite U. simpl. split; auto.
Qed.

Require Import Verif.gen.Consts_ipclife.
Lemma consts_ok :
  (LIFE_ST_INACTIVE, LIFE_ST_ACTIVE, LIFE_ST_ESTABLISHED, LIFE_ST_SHUTTING_DOWN) = (0, 1, 2, 3) /\
  (LIFE_RATE_FAST, LIFE_RATE_NORMAL, LIFE_RATE_SLOW, LIFE_RATE_OFF, LIFE_RATE_OFF_2) = (0, 1, 2, 3, 4) /\
  LIFE_MAX_RECV_MSGS = 50 /\ (LIFE_LOOP_LOW, LIFE_LOOP_MED, LIFE_LOOP_HIGH) = (0, 1, 2).
Proof. vm_compute. repeat split; reflexivity. Qed.
