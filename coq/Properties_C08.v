(* C08 - the event loop runs every job, timer, descriptor and signal callback exactly as registered.
   Statements only; each is closed by `exact`.  The model (LoopModel.v) transcribes lib/loop.c, loop_job.c,
   loop_timerlist.c, loop_poll.c, loop_poll_epoll.c; [run_history_fx f beh h rnd] is the loop state after the
   history h (API calls from outside the loop and runs; every run has its own stream of per-turn environments)
   with callbacks behaving as the table beh says (API calls from inside callbacks, return values) and random()
   returning rnd; f says which repairs the code contains.  The state carries a ghost log [out] (newest first) of
   registrations created (EvAdd kind uid), callbacks entered (EvInv kind uid) and registrations removed by a
   successful delete call or by the callback's own request (EvDel kind uid); kind 0 job, 1 timer, 2 descriptor, 3 signal.
   All theorems quantify over every history, every behaviour table and every positive random stream. *)
Require Import ZArith List Bool Lia Sorted.
Require Import Verif.gen.Consts_loop Verif.LoopModel Verif.LoopProofs_C08a Verif.LoopProofs_C08b Verif.LoopProofs_C08c
               Verif.LoopProofs_C08d Verif.LoopProofs_C08e Verif.LoopProofs_C08f Verif.LoopProofs_C08g Verif.LoopProofs_C08h
               Verif.LoopProofs_C10 Verif.LoopProofs_C10w Verif.LoopProofs_C10b Verif.LoopProofs_C10d.
Import ListNotations.
Open Scope Z_scope.

(* the kernel the check ran on behaves as the virtual epoll of harness and model assumes (probed on every run) *)
Theorem C08_kernel_epoll_as_modelled : LOOP_KERNEL_EPOLL_AS_MODELLED = 1.
Proof. exact kernel_model_probe. Qed.

(* well-formedness for all histories: no item twice on the lists; a timer / descriptor item on a list has its slot in
   JOBLIST state; a queued signal clone belongs to a live registration; a heap entry belongs to an ACTIVE slot; uids
   are unique and fresh; nothing that is gone is still registered; the log never shows a callback of something gone *)
Theorem C08_wf : forall f beh h rnd, fx_sigdel f = true -> good_rand rnd -> inv (run_history_fx f beh h rnd).
Proof. exact wf_all_histories. Qed.

(* after a successful delete (or a negative / non-zero return asking for removal) the callback is never entered
   again - also when the item was already on a job list, and when the caller is the item's own callback *)
Theorem C08_del_never_again : forall f beh h rnd post pre k u, fx_sigdel f = true -> good_rand rnd ->
  out (run_history_fx f beh h rnd) = post ++ EvDel k u :: pre -> ~ In (EvInv k u) post.
Proof. exact del_never_again. Qed.
Theorem C08_deleted_not_registered : forall f beh h rnd k u, fx_sigdel f = true -> good_rand rnd ->
  In (EvDel k u) (out (run_history_fx f beh h rnd)) -> ~ live (run_history_fx f beh h rnd) k u.
Proof. exact deleted_not_live. Qed.

(* a job and a timer enter their callback at most once *)
Theorem C08_job_timer_at_most_once : forall f beh h rnd post pre k u, fx_sigdel f = true -> good_rand rnd -> (k = 0 \/ k = 1) ->
  out (run_history_fx f beh h rnd) = post ++ EvInv k u :: pre -> ~ In (EvInv k u) post /\ ~ In (EvInv k u) pre.
Proof. exact job_timer_at_most_once. Qed.

(* exactly once, liveness half with its bound (workloads without deletions and signal registrations): the job at position k
   of its level's job list has entered its callback - EvInv in the log of the final state - after 3 * (k / to_process + 1)
   consecutive full turns of a loop that is not stopped; with C08_job_timer_at_most_once: exactly once.  An expired timer
   (C08_timer_due_is_queued) and a ready descriptor (C08_fd_event_queues) are on that list from the turn they became due *)
Theorem C08_job_entered_within : forall beh envs rs st st' rs' ts p k u key,
  workload beh -> nosig st -> length envs = (3 * (Z.to_nat (Z.of_nat k / LOOP_TO_PROCESS) + 1))%nat ->
  turns beh envs rs st = (st', rs', ts) -> (forall t, In t ts -> ti_returned t = false) ->
  nth_error (jq st p) k = Some (QJob u key) -> In (EvInv 0 u) (out st').
Proof. exact job_entered_within. Qed.

(* FIFO per priority (state form): in every reachable state the jobs of one priority sit on job_head ++ wait_head in the
   order of their qb_loop_job_add calls (uids are handed out in call order), and qb_loop_run_level always dispatches the
   first item of job_head - so jobs of one priority run in the order they were added *)
Theorem C08_fifo_queue_order : forall f beh h rnd p, fx_sigdel f = true -> good_rand rnd ->
  StronglySorted Z.lt (jseq (run_history_fx f beh h rnd) p).
Proof. exact fifo_all_histories. Qed.
Theorem C08_run_level_takes_head : forall beh p fuel processed st it rest, jobq (lv st p) = it :: rest ->
  run_level_go beh p (S fuel) processed st =
    (let st1 := dec_todo p (dispatch beh it (upd_level p (fun l => {| wait := wait l; jobq := rest; todo := todo l |}) st)) in
     if stop st1 then (st1, processed + 1)
     else if processed + 1 <? LOOP_TO_PROCESS then run_level_go beh p fuel (processed + 1) st1 else (st1, processed + 1)).
Proof. exact run_level_takes_head. Qed.

(* what a delete call that returns 0 removed *)
Theorem C08_job_del_logs : forall p key st, fst (job_del p key st) = 0 ->
  exists u k, out (snd (job_del p key st)) = EvDel 0 u :: out st /\ k = key /\
              (In (QJob u k) (wait (lv st p)) \/ In (QJob u k) (jobq (lv st p))).
Proof. exact job_del_logs. Qed.
Theorem C08_timer_del_logs : forall h st i t, timer_from_handle h st = Some (i, t) -> t_state t <> Deleted ->
  fst (timer_del h st) = 0 -> In (EvDel 1 (t_uid t)) (out (snd (timer_del h st))) /\ (t_state t = Active \/ t_state t = Joblist).
Proof. exact timer_del_logs. Qed.
Theorem C08_signal_del_logs : forall h st s, h <> 0 -> sig_find h st = Some s -> In (EvDel 3 h) (out (snd (signal_del h st))).
Proof. exact signal_del_logs. Qed.

(* stale handles: a timer handle whose timer fired (check word cleared), was deleted (slot EMPTY) or whose slot now
   carries another check word is rejected with -EINVAL and nothing changes; is_running answers 0; an epoll event
   whose user data carries an outdated check word is dropped *)
Theorem C08_stale_timer_rejected : forall st c i, 0 < c -> Z.of_nat i < TWO32 ->
  (forall t, nth_error (timers st) i = Some t -> t_check t <> c \/ t_state t = Empty) ->
  timer_del (c * TWO32 + Z.of_nat i) st = (- LOOP_EINVAL, st) /\ timer_is_running (c * TWO32 + Z.of_nat i) st = 0.
Proof. exact stale_timer_rejected. Qed.
Theorem C08_stale_poll_event_dropped : forall st data bits n e, nth_error (polls st) (Z.to_nat (data mod TWO32)) = Some e ->
  p_check e <> data / TWO32 -> poll_event (data, bits) (n, st) = (n, emit EvUsleep st).
Proof. exact stale_poll_event_dropped. Qed.

(* a pending timer (ACTIVE slot) has a heap entry and only pending timers have one, in every reachable state *)
Theorem C08_active_timer_on_heap : forall f beh h rnd i t, fx_sigdel f = true -> good_rand rnd ->
  nth_error (timers (run_history_fx f beh h rnd)) i = Some t -> (t_exp t <> None <-> t_state t = Active).
Proof. exact active_timer_on_heap. Qed.

(* timers, liveness step: after the timer source's turn (expire_the_timers) no heap entry is left whose expiry lies before the
   clock - every due timer has been moved to the job list of its priority (C10 bounds its wait there; at-most-once above) *)
Theorem C08_timer_due_is_queued : forall st j t e,
  nth_error (timers (snd (expire_the_timers st))) j = Some t -> t_exp t = Some e -> now (snd (expire_the_timers st)) <= e.
Proof. exact expire_no_due. Qed.

(* descriptors: an event for a watched (ACTIVE) entry puts it on the job list of its priority (C10: it is then dispatched
   within three turns); after the callback the entry is a tombstone when the callback returned a negative value, is
   left alone when it was deleted from inside, and otherwise is ACTIVE again with the same descriptor, check word and
   registration - it keeps being watched until removed or until its callback returns a negative value *)
Theorem C08_fd_event_queues : forall st i e bits n, nth_error (polls st) i = Some e ->
  p_state e = Active -> p_fn e = true -> p_sig e = false -> p_fd e <> -1 -> Z.of_nat i < TWO32 ->
  exists st', poll_event (p_check e * TWO32 + Z.of_nat i, bits) (n, st) = (n + 1, st') /\
    jobq (lv st' (p_p e)) = jobq (lv st (p_p e)) ++ [QFd i] /\
    (exists e', nth_error (polls st') i = Some e' /\ p_state e' = Joblist /\ p_uid e' = p_uid e /\ p_check e' = p_check e /\
                p_revents e' = Z.lor (p_revents e) (epoll_to_poll bits)) /\
    kset st' = kset st.
Proof. exact fd_event_queues. Qed.
Theorem C08_fd_after_callback : forall beh i st e, nth_error (polls st) i = Some e ->
  forall r s3, callback beh 2 (p_key e) (p_fd e) (p_revents e) (emit (EvInv 2 (p_uid e)) st) = (r, s3) ->
  forall e3, nth_error (polls s3) i = Some e3 ->
  exists e4, nth_error (polls (dispatch beh (QFd i) st)) i = Some e4 /\ kset (dispatch beh (QFd i) st) = kset s3 /\
    (r < 0 -> p_state e4 = Deleted /\ p_fd e4 = -1 /\ p_check e4 = 0) /\
    (0 <= r -> p_state e3 <> Deleted ->
       p_state e4 = Active /\ p_fd e4 = p_fd e3 /\ p_check e4 = p_check e3 /\ p_uid e4 = p_uid e3 /\ p_events e4 = p_events e3 /\ p_revents e4 = 0) /\
    (0 <= r -> p_state e3 = Deleted -> e4 = e3).
Proof. exact fd_after_callback. Qed.
(* signals: the pipe entry's turn reads exactly one delivered signal and queues one clone per registration of it *)
Theorem C08_signal_one_clone_per_delivery : forall i st g rest, sigpipe st = g :: rest ->
  sigpipe (snd (signal_add_to_jobs i st)) = rest /\
  fst (signal_add_to_jobs i st) = zlen (filter (fun s => s_signo s =? g) (sigs st)).
Proof. exact signal_read_one. Qed.

(* stop: every turn of a run but the last ran to its end; the run ends with the turn in which stop was requested *)
Theorem C08_run_ends_with_stop_turn : forall beh envs rs st, exists tis t, snd (run_go beh envs rs st) = tis ++ [t] /\
  (forall x, In x tis -> ti_returned x = false).
Proof. exact run_ends_with_stop_turn. Qed.

(* the code as found violates the property (witnesses replayed on the real library, see reports/loopq.md):
   qb_loop_signal_del leaves queued clones; a failed poll add leaves a half-initialised entry *)
Theorem C08_signal_del_refuted : exists post pre u,
  out (run_history_fx fixes_sigdel_missing beh_none hist_sigdel []) = post ++ EvDel 3 u :: pre /\ In (EvInv 3 u) post.
Proof. exact signal_del_refuted. Qed.
Theorem C08_poll_add_failure_refuted :
  last_poll_del_result (out (run_history_fx fixes_polladd_missing beh_none hist_polladd [])) = Some 0 /\
  cb_after_last_poll_del (out (run_history_fx fixes_polladd_missing beh_none hist_polladd [])) = 2%nat.
Proof. exact poll_add_failure_refuted. Qed.

(* signal handles are raw pointers the API can not validate: using one after its registration was freed (second delete;
   delete from inside the signal's own callback followed by a non-zero return) is outside the API contract - the model marks
   it with EvUaf and the generators never do it.  With a handle whose registration exists no freed memory is touched *)
Theorem C08_signal_live_handle_no_uaf : forall p g k h st s, sig_find h st = Some s ->
  uaf (snd (signal_del h st)) = uaf st /\ uaf (snd (signal_mod p g k h st)) = uaf st.
Proof. exact signal_ops_live_no_uaf. Qed.

(* descriptor numbers closed and reused without poll_del: as found the stale entry shadows the new one (refuted, replayed on
   the real library); repaired (fixes/C08-poll-add-live-fd) an add of a number that still has a live entry is refused with
   -EEXIST and changes nothing, so an add that goes through never creates a second live entry for a number *)
Theorem C08_fd_reuse_refuted :
  last_poll_del_result (out (run_history_fx fixes_pollreuse_missing beh_none hist_fdreuse [])) = Some 0 /\
  cb_after_last_poll_del (out (run_history_fx fixes_pollreuse_missing beh_none hist_fdreuse [])) = 1%nat.
Proof. exact fd_reuse_refuted. Qed.
Theorem C08_poll_add_refuses_live_fd : forall g p fd ev key st, fx_pollreuse (fx st) = true ->
  existsb (fd_is_live fd) (polls st) = true -> poll_add_gen g p fd ev key st = (- LOOP_EEXIST, st).
Proof. exact poll_add_refuses_live_fd. Qed.
Theorem C08_poll_add_ok_means_fresh_fd : forall g p fd ev key st, fx_pollreuse (fx st) = true ->
  fst (poll_add_gen g p fd ev key st) = 0 -> existsb (fd_is_live fd) (polls st) = false.
Proof. exact poll_add_ok_means_fresh_fd. Qed.
Example C08_example_fd_reuse_repaired :
  cb_after_last_poll_del (out (run_history_fx fixes_all beh_none hist_fdreuse [])) = 0%nat /\
  existsb (fun e => match e with EvRet 6 r => r =? - LOOP_EEXIST | _ => false end) (out (run_history_fx fixes_all beh_none hist_fdreuse [])) = true.
Proof. exact fd_reuse_repaired_witness. Qed.

(* non-vacuity *)
Example C08_example_history :
  map (fun e => match e with EvInv k u => k * 100 + u | EvDel k u => - (k * 100 + u) | _ => 0 end)
      (filter (fun e => match e with EvInv _ _ | EvDel _ _ => true | _ => false end) (rev (out (run_history_fx fixes_all ex_beh8 ex_hist8 []))))
  = [2; -3; -104; -205; -307; 8; 206; -206].
Proof. exact ex_hist8_log. Qed.
Example C08_example_repaired :
  existsb (fun e => match e with EvDel 3 2 => true | _ => false end) (out (run_history_fx fixes_all beh_none hist_sigdel [])) = true /\
  length (filter (fun e => match e with EvInv 3 2 => true | _ => false end) (out (run_history_fx fixes_all beh_none hist_sigdel []))) = O.
Proof. exact signal_del_repaired_witness. Qed.

(* LAST, so that on a tree without the repairs only this obligation breaks: the tree the constants were probed from
   contains the two repairs the theorems above are about (behavioural probes of harness/consts/loop.c, on every run) *)
Theorem C08_tree_repaired : fx_sigdel tree_fixes = true /\ fx_polladd tree_fixes = true /\ fx_pollreuse tree_fixes = true.
Proof. exact (conj (eq_refl true) (conj (eq_refl true) (eq_refl true))). Qed.

Print Assumptions C08_tree_repaired.
Print Assumptions C08_kernel_epoll_as_modelled.
Print Assumptions C08_wf.
Print Assumptions C08_del_never_again.
Print Assumptions C08_deleted_not_registered.
Print Assumptions C08_job_timer_at_most_once.
Print Assumptions C08_job_entered_within.
Print Assumptions C08_fifo_queue_order.
Print Assumptions C08_run_level_takes_head.
Print Assumptions C08_job_del_logs.
Print Assumptions C08_timer_del_logs.
Print Assumptions C08_signal_del_logs.
Print Assumptions C08_stale_timer_rejected.
Print Assumptions C08_stale_poll_event_dropped.
Print Assumptions C08_active_timer_on_heap.
Print Assumptions C08_timer_due_is_queued.
Print Assumptions C08_fd_event_queues.
Print Assumptions C08_fd_after_callback.
Print Assumptions C08_signal_one_clone_per_delivery.
Print Assumptions C08_run_ends_with_stop_turn.
Print Assumptions C08_signal_del_refuted.
Print Assumptions C08_poll_add_failure_refuted.
Print Assumptions C08_signal_live_handle_no_uaf.
Print Assumptions C08_fd_reuse_refuted.
Print Assumptions C08_poll_add_refuses_live_fd.
Print Assumptions C08_poll_add_ok_means_fresh_fd.
Print Assumptions C08_example_fd_reuse_repaired.
Print Assumptions C08_example_history.
Print Assumptions C08_example_repaired.
