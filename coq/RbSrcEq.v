(* The hand-written ring model (RbModel.v) equals, function by function, the Gallina text that tools/c2coq.py
   regenerates from lib/ringbuffer.c on every run (gen/Src_rb.v) - for all inputs in the stated ranges.
   A change to one of these C functions changes Src_rb.v and these proofs are re-checked against it.

   Correspondence of states: word i of the data area is `ldw (data b) i'; header fields are rW/wpt/rpt;
   the built-in notifiers leave space_used_fn and reclaim_fn NULL (lib/ringbuffer_helper.c). *)
From Coq Require Import ZArith List Bool Lia.
Require Import Verif.gen.Consts_rb Verif.gen.Src_rb Verif.C2CoqPrelude Verif.RbModel Verif.RbMem.
Local Open Scope Z_scope.
Ltac Zify.zify_post_hook ::= Z.div_mod_to_equations.

Definition words (m : mem) : Z -> Z := fun i => ldw m i.

Ltac unwrap := unfold u8, s8, u16, s16, u32, s32, u64, s64, uwrap, swrap in *;
  change (2 ^ 32) with 4294967296 in *; change (2 ^ 64) with 18446744073709551616 in *;
  change (2 ^ (32 - 1)) with 2147483648 in *; change (2 ^ (64 - 1)) with 9223372036854775808 in *.

Lemma quot_div a b : 0 <= a -> 0 < b -> Z.quot a b = a / b.
Proof. intros. apply Z.quot_div_nonneg; lia. Qed.
Lemma rem_mod a b : 0 <= a -> 0 < b -> Z.rem a b = a mod b.
Proof. intros. apply Z.rem_mod_nonneg; lia. Qed.

(* header well-formedness: what qb_rb_open establishes and every operation keeps (RbProofs.Repr) *)
Definition hdr_ok (W w r : Z) : Prop := 0 < W <= 2 ^ 30 /\ 0 <= w < W /\ 0 <= r < W.

(* ---------------------------------------------------------------- qb_rb_space_free / _used *)
Theorem src_space_free : forall b rbp cnt orc inst,
  rbp <> 0 -> hdr_ok (rW b) (wpt b) (rpt b) ->
  qb_rb_space_free rbp cnt orc inst 0 (rpt b) (rW b) (wpt b) = (space_free b, cnt).
Proof.
  intros b rbp cnt orc inst Hp (HW & Hw & Hr). change (2 ^ 30) with 1073741824 in HW.
  unfold qb_rb_space_free, space_free, free_words, RB_SIZEOF_WORD.
  destruct (rbp =? 0) eqn:E0; [apply Z.eqb_eq in E0; contradiction|].
  change (0 =? 0) with true. cbv [negb].
  f_equal.
  assert (Hu : forall x, 0 <= x < 4294967296 -> u32 x = x) by (intros; apply u32_small; lia).
  rewrite !(Hu (wpt b)), !(Hu (rpt b)) by lia.
  destruct (wpt b >? rpt b) eqn:E1; destruct (rpt b <? wpt b) eqn:E2; try lia.
  - unwrap. lia.
  - destruct (wpt b <? rpt b) eqn:E3; unwrap; lia.
Qed.

Theorem src_space_used : forall b rbp cnt orc inst,
  rbp <> 0 -> hdr_ok (rW b) (wpt b) (rpt b) ->
  qb_rb_space_used rbp cnt orc inst 0 (rpt b) (rW b) (wpt b) = (space_used b, cnt).
Proof.
  intros b rbp cnt orc inst Hp (HW & Hw & Hr). change (2 ^ 30) with 1073741824 in HW.
  unfold qb_rb_space_used, space_used, RB_SIZEOF_WORD.
  destruct (rbp =? 0) eqn:E0; [apply Z.eqb_eq in E0; contradiction|].
  change (0 =? 0) with true. cbv [negb].
  f_equal.
  assert (Hu : forall x, 0 <= x < 4294967296 -> u32 x = x) by (intros; apply u32_small; lia).
  rewrite !(Hu (wpt b)), !(Hu (rpt b)) by lia.
  destruct (wpt b >? rpt b) eqn:E1; destruct (rpt b <? wpt b) eqn:E2; try lia.
  - unwrap. lia.
  - destruct (wpt b <? rpt b) eqn:E3; unwrap; lia.
Qed.

(* ---------------------------------------------------------------- qb_rb_chunk_step *)
Theorem src_chunk_step : forall rbp d W p,
  0 < W <= 2 ^ 30 -> 0 <= p < W -> 0 <= d p < 2 ^ 32 ->
  qb_rb_chunk_step rbp p d W = chunk_step W p (d p).
Proof.
  intros rbp d W p HW Hp Hs. change (2 ^ 30) with 1073741824 in HW. change (2 ^ 32) with 4294967296 in Hs.
  unfold qb_rb_chunk_step, chunk_step, RB_CHUNK_HEADER_WORDS, RB_SIZEOF_WORD, RB_WORD_ALIGN.
  set (sz := d p) in *.
  assert (Hu : forall x, 0 <= x < 4294967296 -> u32 x = x) by (intros; apply u32_small; lia).
  assert (Hv : forall x, 0 <= x < 18446744073709551616 -> u64 x = x) by (intros; apply u64_small; lia).
  rewrite !(Hu sz), !(Hu p), !(Hu 2), !(Hu 1), !(Hv 1), !(Hv 0) by lia.
  rewrite (Hu (p + 2)) by lia. rewrite (Hu (p + 2)) by lia.
  rewrite !(Hv sz), (Hv (p + 2)) by lia.
  change (4 * 1) with 4. rewrite (Hv 4) by lia.
  rewrite quot_div, rem_mod by lia.
  assert (Hq : 0 <= sz / 4 < 1073741824) by lia.
  rewrite (Hv (p + 2 + sz / 4)) by lia. rewrite (Hu (p + 2 + sz / 4)) by lia.
  destruct (sz mod 4 =? 0) eqn:Em; cbv [negb].
  - rewrite (Hu (W - 1)) by lia.
    rewrite Z.add_0_r.
    destruct (p + 2 + sz / 4 >? W - 1) eqn:E1; destruct (W - 1 <? p + 2 + sz / 4) eqn:E2; try lia.
    rewrite rem_mod by lia. apply Hu. lia.
  - rewrite (Hu (p + 2 + sz / 4 + 1)) by lia. rewrite (Hu (W - 1)) by lia.
    destruct (p + 2 + sz / 4 + 1 >? W - 1) eqn:E1; destruct (W - 1 <? p + 2 + sz / 4 + 1) eqn:E2; try lia.
    rewrite rem_mod by lia. apply Hu. lia.
Qed.

(* ---------------------------------------------------------------- memory correspondence *)
Definition agree (d : Z -> Z) (m : mem) : Prop := forall i, 0 <= i -> d i = ldw m i.

Lemma u32_is_mod x : u32 x = x mod two32.
Proof. reflexivity. Qed.

Lemma agree_upd d m i v : agree d m -> 0 <= i -> agree (upd d i (u32 v)) (stw m i v).
Proof.
  intros A Hi j Hj. unfold upd. destruct (j =? i) eqn:E.
  - apply Z.eqb_eq in E. subst j. rewrite ldw_stw_same by lia. apply u32_is_mod.
  - apply Z.eqb_neq in E. rewrite ldw_stw_other by lia. apply A; lia.
Qed.

Lemma u32_idem x : u32 (u32 x) = u32 x.
Proof. unfold u32, uwrap. apply Z.mod_mod. lia. Qed.

Lemma u32_s32 x : 0 <= x < 2 ^ 32 -> u32 (s32 x) = x.
Proof. intros H. change (2 ^ 32) with 4294967296 in H. unwrap. lia. Qed.

Lemma u32_s32_any x : u32 (s32 x) = u32 x.
Proof. unwrap. lia. Qed.

Lemma chunk_step_range W p sz : 0 < W <= 2 ^ 30 -> 0 <= p < W -> 0 <= sz < 2 ^ 32 ->
  0 <= chunk_step W p sz < 2 ^ 32.
Proof.
  intros HW Hp Hs. change (2 ^ 30) with 1073741824 in HW. change (2 ^ 32) with 4294967296 in *.
  unfold chunk_step, RB_CHUNK_HEADER_WORDS, RB_SIZEOF_WORD, RB_WORD_ALIGN.
  destruct (sz mod (4 * 1) =? 0); destruct (W - 1 <? _); lia.
Qed.

(* ---------------------------------------------------------------- _rb_chunk_reclaim *)
Theorem src_reclaim : forall b rbp d cnt errno orc inst,
  hdr_ok (rW b) (wpt b) (rpt b) -> agree d (data b) -> (forall i, 0 <= i -> 0 <= d i < 2 ^ 32) ->
  match _rb_chunk_reclaim rbp cnt errno orc inst 0 d (rpt b) (rW b) (wpt b), reclaim b with
  | (rc, cnt', errno', d', r'), (b', rc0) =>
      rc = rc0 /\ cnt' = cnt /\ r' = rpt b' /\ agree d' (data b') /\ wpt b' = wpt b /\ rW b' = rW b /\
      ovw b' = ovw b /\ sem b' = sem b /\ (rc0 <> 0 -> errno' = - rc0 /\ b' = b) /\ (rc0 = 0 -> errno' = errno)
  end.
Proof.
  intros b rbp d cnt errno orc inst (HW & Hw & Hr) A R.
  pose proof HW as HW'. change (2 ^ 30) with 1073741824 in HW'.
  assert (Hu : forall x, 0 <= x < 4294967296 -> u32 x = x) by (intros; apply u32_small; lia).
  unfold _rb_chunk_reclaim, reclaim.
  rewrite (Hu (rpt b)) by lia. rewrite (Hu 1) by lia. rewrite (Hu (rpt b + 1)) by lia.
  rewrite rem_mod by lia.
  assert (Hidx : 0 <= (rpt b + 1) mod rW b < rW b) by (apply Z.mod_pos_bound; lia).
  rewrite u32_s32 by (apply R; lia).
  rewrite (A ((rpt b + 1) mod rW b)) by lia.
  unfold RB_CHUNK_MAGIC.
  destruct ((rpt b =? wpt b) || negb (ldw (data b) ((rpt b + 1) mod rW b) =? 2711724449)) eqn:E.
  - cbv zeta. unfold RB_EINVAL. repeat split; try reflexivity; try assumption; try (unwrap; lia).
  - cbv zeta. change (0 =? 0) with true. cbv [negb]. cbv iota beta.
    cbn [rpt data wpt rW ovw sem].
    assert (Hd : 0 <= d (rpt b) < 2 ^ 32) by (apply R; lia).
    rewrite src_chunk_step by (assumption || lia).
    pose proof (chunk_step_range (rW b) (rpt b) (d (rpt b)) HW Hr Hd) as Hc.
    rewrite u32_idem, (u32_small (chunk_step _ _ _)) by exact Hc.
    rewrite (A (rpt b)) by lia.
    repeat split; try reflexivity; try (intros; congruence).
    rewrite u32_s32_any. apply agree_upd; [|lia]. rewrite u32_idem. apply agree_upd; [exact A|lia].
Qed.

(* ---------------------------------------------------------------- qb_rb_chunk_commit *)
Theorem src_commit : forall b rbp d len cnt orc inst postfn,
  rbp <> 0 -> hdr_ok (rW b) (wpt b) (rpt b) -> agree d (data b) -> 0 <= len < 2 ^ 32 ->
  match qb_rb_chunk_commit rbp len cnt orc inst postfn d (rW b) (wpt b), commit b len with
  | (rc, cnt', d', w'), (b', rc0) =>
      w' = wpt b' /\ agree d' (data b') /\ rpt b' = rpt b /\ rW b' = rW b /\ ovw b' = ovw b /\
      (postfn = 0 -> rc = rc0 /\ cnt' = cnt) /\ (postfn <> 0 -> rc = s32 (orc cnt) /\ cnt' = cnt + 1)
  end.
Proof.
  intros b rbp d len cnt orc inst postfn Hp (HW & Hw & Hr) A Hl.
  pose proof HW as HW'. change (2 ^ 30) with 1073741824 in HW'.
  assert (Hu : forall x, 0 <= x < 4294967296 -> u32 x = x) by (intros; apply u32_small; lia).
  unfold qb_rb_chunk_commit, commit.
  destruct (rbp =? 0) eqn:E0; [apply Z.eqb_eq in E0; contradiction|].
  cbv zeta.
  rewrite (Hu (wpt b)) by lia. rewrite (Hu 1) by lia. rewrite (Hu (wpt b + 1)) by lia.
  rewrite rem_mod by lia. rewrite u32_idem.
  assert (Hidx : 0 <= (wpt b + 1) mod rW b < rW b) by (apply Z.mod_pos_bound; lia).
  assert (Hlen : u32 len = len) by (apply u32_small; exact Hl).
  rewrite src_chunk_step; [| exact HW | lia | rewrite upd_same, Hlen; exact Hl].
  rewrite upd_same, Hlen.
  rewrite ldw_stw_same by lia. change two32 with (2 ^ 32). rewrite (Z.mod_small len) by exact Hl.
  pose proof (chunk_step_range (rW b) (wpt b) len HW Hw Hl) as Hc.
  rewrite (u32_small (chunk_step _ _ _)) by exact Hc.
  assert (AG : agree (upd (upd d (wpt b) len) ((wpt b + 1) mod rW b) (u32 (s32 2711724449)))
                     (stw (stw (data b) (wpt b) len) ((wpt b + 1) mod rW b) RB_CHUNK_MAGIC)).
  { rewrite u32_s32_any. apply agree_upd; [|lia]. rewrite <- Hlen at 1. apply agree_upd; [exact A|lia]. }
  destruct (postfn =? 0) eqn:Ep; cbv [negb]; cbv iota beta.
  - apply Z.eqb_eq in Ep. unfold sem_post; destruct (sem b); cbn [wpt data rpt rW ovw set_sem sem];
      repeat split; try reflexivity; try exact AG; try (intros; congruence).
  - apply Z.eqb_neq in Ep. unfold sem_post; destruct (sem b); cbn [wpt data rpt rW ovw set_sem sem];
      repeat split; try reflexivity; try exact AG; try (intros; congruence).
Qed.

(* ---------------------------------------------------------------- qb_rb_chunk_alloc *)
(* one round of the overwrite loop: in overwrite mode the translated function, given one more unit of fuel,
   is "test; reclaim; itself on the new state" *)
Lemma alloc_ow_unfold : forall n rbp len cntr cnts errno orcr orcs flags inst rfn sfn d ptr r W w,
  (rbp =? 0) = false -> negb (Z.land flags (u32 2) =? 0) = true ->
  qb_rb_chunk_alloc (S n) rbp len cntr cnts errno orcr orcs flags inst rfn sfn d ptr r W w =
  let '(sf, cnts1) := qb_rb_space_free rbp cnts orcs inst sfn r W w in
  if (u64 sf <? u64 (len + u64 (4 * u64 (s32 (s32 (2 + 1) + 0))))) then
    let '(rc0, cntr1, errno1, d1, r1) := _rb_chunk_reclaim rbp cntr errno orcr inst rfn d r W w in
    if negb (s32 rc0 =? 0) then Some (0, cntr1, cnts1, errno1, d1, r1)
    else qb_rb_chunk_alloc n rbp len cntr1 cnts1 errno1 orcr orcs flags inst rfn sfn d1 ptr r1 W w
  else
    Some (ptr + 4 * Z.rem (u32 (u32 w + u32 2)) W, cntr, cnts1, errno,
          upd (upd d (u32 w) (u32 (u32 0))) (Z.rem (u32 (u32 w + u32 1)) W) (u32 (s32 2702233296)), r).
Proof.
  intros. unfold qb_rb_chunk_alloc at 1. rewrite H, H0. cbv beta iota zeta fix.
  destruct (qb_rb_space_free rbp cnts orcs inst sfn r W w) as [sf cnts1].
  destruct (u64 sf <? _) eqn:E.
  - destruct (_rb_chunk_reclaim rbp cntr errno orcr inst rfn d r W w) as [[[[rc0 cntr1] errno1] d1] r1].
    destruct (negb (s32 rc0 =? 0)) eqn:E2.
    + reflexivity.
    + unfold qb_rb_chunk_alloc. rewrite H, H0. reflexivity.
  - reflexivity.
Qed.

Definition words_ok (m : mem) : Prop := forall i, 0 <= i -> 0 <= ldw m i < 2 ^ 32.

Lemma words_ok_stw m i v : words_ok m -> 0 <= i -> words_ok (stw m i v).
Proof.
  intros H Hi j Hj. destruct (Z.eq_dec j i) as [->|N].
  - rewrite ldw_stw_same by lia. change (2 ^ 32) with two32. apply Z.mod_pos_bound. unfold two32; lia.
  - rewrite ldw_stw_other by lia. apply H; lia.
Qed.

Lemma agree_range d m : agree d m -> words_ok m -> forall i, 0 <= i -> 0 <= d i < 2 ^ 32.
Proof. intros A Wk i Hi. rewrite (A i Hi). apply Wk; exact Hi. Qed.

Lemma chunk_step_lt W p sz : 0 < W -> 0 <= p -> 0 <= sz -> 0 <= chunk_step W p sz < W.
Proof.
  intros HW Hp Hs. unfold chunk_step, RB_CHUNK_HEADER_WORDS, RB_SIZEOF_WORD, RB_WORD_ALIGN.
  destruct (sz mod (4 * 1) =? 0); destruct (W - 1 <? _) eqn:E; lia.
Qed.

Lemma reclaim_keeps b : hdr_ok (rW b) (wpt b) (rpt b) -> words_ok (data b) ->
  hdr_ok (rW (fst (reclaim b))) (wpt (fst (reclaim b))) (rpt (fst (reclaim b))) /\ words_ok (data (fst (reclaim b))) /\
  (snd (reclaim b) = 0 \/ snd (reclaim b) = - RB_EINVAL).
Proof.
  intros (HW & Hw & Hr) Wk. unfold reclaim.
  assert (Hidx : 0 <= (rpt b + 1) mod rW b < rW b) by (apply Z.mod_pos_bound; lia).
  destruct ((rpt b =? wpt b) || _); cbn [fst snd rW wpt rpt data].
  - split; [unfold hdr_ok; lia|]. split; [exact Wk|]. right; reflexivity.
  - assert (Hc : 0 <= chunk_step (rW b) (rpt b) (ldw (data b) (rpt b)) < rW b)
      by (apply chunk_step_lt; try lia; apply Wk; lia).
    split; [unfold hdr_ok; lia|]. split; [|left; reflexivity].
    apply words_ok_stw; [apply words_ok_stw; [exact Wk|lia]|lia].
Qed.

Lemma margin_is : u64 (4 * u64 (s32 (s32 (2 + 1) + 0))) = RB_CHUNK_MARGIN.
Proof. reflexivity. Qed.

Lemma space_free_range b : hdr_ok (rW b) (wpt b) (rpt b) -> 0 <= space_free b <= 2 ^ 32.
Proof.
  intros (HW & Hw & Hr). change (2 ^ 30) with 1073741824 in HW. change (2 ^ 32) with 4294967296.
  unfold space_free, free_words, RB_SIZEOF_WORD. destruct (rpt b <? wpt b) eqn:?; [|destruct (wpt b <? rpt b) eqn:?]; lia.
Qed.

(* the header stamped by a successful alloc *)
Lemma src_alloc_header b d ptr : hdr_ok (rW b) (wpt b) (rpt b) -> agree d (data b) ->
  match alloc_header b with
  | AOk b2 dp =>
      ptr + 4 * Z.rem (u32 (u32 (wpt b) + u32 2)) (rW b) = ptr + 4 * dp /\
      agree (upd (upd d (u32 (wpt b)) (u32 (u32 0))) (Z.rem (u32 (u32 (wpt b) + u32 1)) (rW b)) (u32 (s32 2702233296)))
            (data b2) /\ rpt b2 = rpt b /\ wpt b2 = wpt b /\ rW b2 = rW b
  | _ => False
  end.
Proof.
  intros (HW & Hw & Hr) A. pose proof HW as HW'. change (2 ^ 30) with 1073741824 in HW'.
  assert (Hu : forall x, 0 <= x < 4294967296 -> u32 x = x) by (intros; apply u32_small; lia).
  unfold alloc_header, RB_CHUNK_HEADER_WORDS.
  rewrite (Hu (wpt b)), (Hu 2), (Hu 1), (Hu (wpt b + 2)), (Hu (wpt b + 1)) by lia.
  rewrite !rem_mod by lia. cbn [data set_data rpt wpt rW].
  assert (Hidx : 0 <= (wpt b + 1) mod rW b < rW b) by (apply Z.mod_pos_bound; lia).
  repeat split; try reflexivity.
  rewrite u32_s32_any. apply agree_upd; [|lia]. rewrite u32_idem. apply agree_upd; [exact A|lia].
Qed.

(* overwrite mode: whenever the model's loop finishes within n rounds, the translated source function agrees
   with it given n+1 units of fuel *)
Theorem src_alloc_overwrite : forall n b rbp d len cntr cnts errno orcr orcs flags inst ptr,
  rbp <> 0 -> hdr_ok (rW b) (wpt b) (rpt b) -> agree d (data b) -> words_ok (data b) ->
  0 <= len < 2 ^ 62 -> negb (Z.land flags (u32 2) =? 0) = true ->
  match ow_make_room n b (len + RB_CHUNK_MARGIN) with
  | None => True
  | Some (b1, rc) =>
      match qb_rb_chunk_alloc (S n) rbp len cntr cnts errno orcr orcs flags inst 0 0 d ptr (rpt b) (rW b) (wpt b) with
      | None => False
      | Some (p, cntr', cnts', errno', d', r') =>
          cntr' = cntr /\ cnts' = cnts /\ r' = rpt b1 /\
          if rc =? 0 then
            match alloc_header b1 with
            | AOk b2 dp => p = ptr + 4 * dp /\ agree d' (data b2) /\ errno' = errno
            | _ => False
            end
          else p = 0 /\ errno' = - rc /\ agree d' (data b1)
      end
  end.
Proof.
  induction n as [|n IH]; intros b rbp d len cntr cnts errno orcr orcs flags inst ptr Hp Hh A Wk Hl Hf.
  - (* model fuel 0: finishes only if there is room already *)
    cbn [ow_make_room]. destruct (space_free b <? len + RB_CHUNK_MARGIN) eqn:E; [exact I|].
    rewrite alloc_ow_unfold by (try (apply Z.eqb_neq; exact Hp); exact Hf).
    rewrite src_space_free by assumption. rewrite margin_is.
    pose proof (space_free_range b Hh) as Hs. change (2 ^ 32) with 4294967296 in Hs. change (2 ^ 62) with 4611686018427387904 in Hl.
    unfold RB_CHUNK_MARGIN in *.
    rewrite (u64_small (space_free b)), (u64_small (len + 12)) by (change (2 ^ 64) with 18446744073709551616; lia).
    rewrite E. change (0 =? 0) with true. cbv iota.
    pose proof (src_alloc_header b d ptr Hh A) as Hhd. destruct (alloc_header b) as [b2 dp| |]; try contradiction.
    destruct Hhd as (Hpp & Ag & _). repeat split; try reflexivity; assumption.
  - cbn [ow_make_room]. destruct (space_free b <? len + RB_CHUNK_MARGIN) eqn:E.
    + (* one reclaim, then the induction hypothesis on the new state *)
      pose proof (reclaim_keeps b Hh Wk) as (Hh1 & Wk1 & Hrc).
      pose proof (src_reclaim b rbp d cntr errno orcr inst Hh A (agree_range d (data b) A Wk)) as SR.
      destruct (reclaim b) as [b1 rc] eqn:ER. cbn [fst snd] in *.
      destruct (_rb_chunk_reclaim rbp cntr errno orcr inst 0 d (rpt b) (rW b) (wpt b))
        as [[[[rc0 cntr1] errno1] d1] r1] eqn:ESR.
      destruct SR as (-> & -> & -> & A1 & Hw1 & HW1 & _ & _ & Hbad & Hgood).
      destruct (rc =? 0) eqn:Erc.
      * apply Z.eqb_eq in Erc. subst rc. specialize (Hgood eq_refl). subst errno1.
        specialize (IH b1 rbp d1 len cntr cnts errno orcr orcs flags inst ptr Hp Hh1 A1 Wk1 Hl Hf).
        destruct (ow_make_room n b1 (len + RB_CHUNK_MARGIN)) as [[b2 rc2]|]; [|exact I].
        rewrite alloc_ow_unfold by (try (apply Z.eqb_neq; exact Hp); exact Hf).
        rewrite src_space_free by assumption. rewrite margin_is.
        pose proof (space_free_range b Hh) as Hs. change (2 ^ 32) with 4294967296 in Hs. change (2 ^ 62) with 4611686018427387904 in Hl.
        unfold RB_CHUNK_MARGIN in *.
        rewrite (u64_small (space_free b)), (u64_small (len + 12)) by (change (2 ^ 64) with 18446744073709551616; lia).
        rewrite E. rewrite ESR. change (negb (s32 0 =? 0)) with false. cbv iota.
        rewrite <- Hw1, <- HW1. exact IH.
      * apply Z.eqb_neq in Erc. destruct (Hbad Erc) as (He & Hb). subst b1.
        rewrite alloc_ow_unfold by (try (apply Z.eqb_neq; exact Hp); exact Hf).
        rewrite src_space_free by assumption. rewrite margin_is.
        pose proof (space_free_range b Hh) as Hs. change (2 ^ 32) with 4294967296 in Hs. change (2 ^ 62) with 4611686018427387904 in Hl.
        unfold RB_CHUNK_MARGIN in *.
        rewrite (u64_small (space_free b)), (u64_small (len + 12)) by (change (2 ^ 64) with 18446744073709551616; lia).
        rewrite E. rewrite ESR.
        destruct Hrc as [Hrc|Hrc]; [contradiction|]. subst rc. unfold RB_EINVAL in *.
        change (negb (s32 (- (22)) =? 0)) with true. cbv iota.
        change (- (22) =? 0) with false. cbv iota.
        repeat split; try reflexivity; assumption.
    + rewrite alloc_ow_unfold by (try (apply Z.eqb_neq; exact Hp); exact Hf).
      rewrite src_space_free by assumption. rewrite margin_is.
      pose proof (space_free_range b Hh) as Hs. change (2 ^ 32) with 4294967296 in Hs. change (2 ^ 62) with 4611686018427387904 in Hl.
      unfold RB_CHUNK_MARGIN in *.
      rewrite (u64_small (space_free b)), (u64_small (len + 12)) by (change (2 ^ 64) with 18446744073709551616; lia).
      rewrite E. change (0 =? 0) with true. cbv iota.
      pose proof (src_alloc_header b d ptr Hh A) as Hhd. destruct (alloc_header b) as [b2 dp| |]; try contradiction.
      destruct Hhd as (Hpp & Ag & _). repeat split; try reflexivity; assumption.
Qed.

(* non-overwriting ring: admission test (space_free < len + MARGIN -> NULL, errno = EAGAIN, nothing stored) or header *)
Theorem src_alloc_plain : forall fuel b rbp d len cntr cnts errno orcr orcs flags inst ptr,
  rbp <> 0 -> hdr_ok (rW b) (wpt b) (rpt b) -> agree d (data b) -> ovw b = false ->
  0 <= len < 2 ^ 62 -> negb (Z.land flags (u32 2) =? 0) = false ->
  match qb_rb_chunk_alloc fuel rbp len cntr cnts errno orcr orcs flags inst 0 0 d ptr (rpt b) (rW b) (wpt b) with
  | None => False
  | Some (p, cntr', cnts', errno', d', r') =>
      cntr' = cntr /\ cnts' = cnts /\ r' = rpt b /\
      match alloc b len with
      | AOk b2 dp => p = ptr + 4 * dp /\ agree d' (data b2) /\ errno' = errno
      | AErr b1 e => p = 0 /\ errno' = e /\ b1 = b /\ d' = d
      | AFuel => False
      end
  end.
Proof.
  intros fuel b rbp d len cntr cnts errno orcr orcs flags inst ptr Hp Hh A Ho Hl Hf.
  unfold qb_rb_chunk_alloc, alloc. rewrite Ho, Hf.
  destruct (rbp =? 0) eqn:E0; [apply Z.eqb_eq in E0; contradiction|].
  cbv zeta. rewrite src_space_free by assumption. rewrite margin_is.
  pose proof (space_free_range b Hh) as Hs. change (2 ^ 32) with 4294967296 in Hs. change (2 ^ 62) with 4611686018427387904 in Hl.
  unfold RB_CHUNK_MARGIN in *.
  rewrite (u64_small (space_free b)), (u64_small (len + 12)) by (change (2 ^ 64) with 18446744073709551616; lia).
  destruct (space_free b <? len + 12) eqn:E.
  - repeat split; reflexivity.
  - pose proof (src_alloc_header b d ptr Hh A) as Hhd. destruct (alloc_header b) as [b2 dp| |]; try contradiction.
    destruct Hhd as (Hpp & Ag & _). repeat split; try reflexivity; assumption.
Qed.

Example src_example :
  qb_rb_space_free 1 0 (fun _ => 0) 0 0 1000 1027 5 = (3976, 0) /\
  qb_rb_chunk_step 1 1020 (fun i => if i =? 1020 then 37 else 0) 1027 = 5 /\
  hdr_ok 1027 5 1000.
Proof. split; [vm_compute; reflexivity|]. split; [vm_compute; reflexivity|]. unfold hdr_ok. change (2 ^ 30) with 1073741824. lia. Qed.
