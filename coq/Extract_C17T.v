(* Extraction of the trie model (C17/C18, trie part).  ExtrOcamlBasic only: bool/option/unit/list/prod/sumbool
   map to the OCaml types of the same shape; Z, positive, nat stay inductive; no Extract Constant. *)
From Coq Require Import ExtrOcamlBasic.
Require Import Verif.MapTrieModel Verif.MapTrieGuards.
Extraction "model_C17T.ml" trie_init step run c2i guard_split guard_split_root.
