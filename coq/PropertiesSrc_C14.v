(* C14 - source-tie obligations.  gen/Src_logfmt.v is regenerated from lib/log_format.c by tools/c2coq.py on every
   run; these theorems state that the model's my_strlcpy (SerModel.v, the repaired code: fx = true) reports exactly
   the number of characters the translated C function reports, for every size a size_t can hold and every source
   string (strlcpy's return value = strlen(src) is the oracle).  Statements only, closed by `exact'.
   What c2coq.py could not translate of lib/log_format.c is listed in coq/LogFmtSrcEq.v. *)
From Coq Require Import ZArith List Bool.
Import ListNotations.
Require Import Verif.gen.Consts_logfmt Verif.gen.Src_logfmt Verif.C2CoqPrelude Verif.SerModel Verif.LogFmtSrcEq.
Local Open Scope Z_scope.

Theorem C14_src_my_strlcpy : forall dest srcp maxlen cnt orc tag buf pos (srcl : list Z),
  0 <= maxlen < 2 ^ 64 -> zlen srcl < 2 ^ 64 -> orc cnt = zlen srcl ->
  fst (my_strlcpy dest srcp maxlen cnt orc) = snd (my_strlcpy_m true tag buf pos srcl maxlen).
Proof. exact src_my_strlcpy. Qed.
Print Assumptions C14_src_my_strlcpy.

(* non-vacuity: maxlen = 0 (the repaired corner) and an ordinary call *)
Example C14_src_my_strlcpy_example :
  fst (my_strlcpy 0 0 0 0 (fun _ => 5)) = 0 /\ fst (my_strlcpy 0 0 4 0 (fun _ => 5)) = 3.
Proof. vm_compute. split; reflexivity. Qed.
