(* C04 - handle_new_connection preserves the invariant (fixed variant). *)
Require Import ZArith List Bool Lia.
Require Import Verif.IpcLifeModel Verif.IpcLifeProofs Verif.IpcLifeProofs2 Verif.IpcLifeProofs3 Verif.IpcLifeProofs5.
Import ListNotations.
Open Scope Z_scope.

Lemma CI_fresh : CI 0 3 false 0 false (mkConn true INACTIVE 1 false false 0 0 false PAcc 0).
Proof. unfold CI, jw, init_of; simpl. repeat split; try lia; try discriminate; auto. Qed.
Lemma CI_none_facts : forall h j d nj inl x, CI h j d nj inl x -> c_ph x = PNone ->
  h = 0 /\ j = 0 /\ d = false /\ nj = 0 /\ inl = false.
Proof. intros. ci x. Qed.
Lemma CI_j3_facts : forall h d nj inl x, CI h 3 d nj inl x ->
  c_ph x = PAcc /\ c_st x = INACTIVE /\ c_reg x = false /\ c_alloc x = true /\ nj = 0 /\ d = false /\ live x /\ c_notified x = false.
Proof. intros. ci x. Qed.
Lemma CI_j3_unref_n : forall h nj inl x, CI h 3 false nj inl x -> c_rc x - 1 <> 0 -> CI h 0 false nj inl (w_rc (c_rc x - 1) x).
Proof. intros. ci x. Qed.
Lemma CI_j3_unref_z : forall h nj inl x, CI h 3 false nj inl x -> c_rc x - 1 = 0 ->
  phase_step KDestroyed 0 (c_ph x) <> None /\ c_uref x = 0 /\ CI h 0 true nj false (w_ph PDead (w_rc 0 x)).
Proof. intros. ci x. Qed.
Lemma CI_j3_inl : forall h d nj inl inl' x, CI h 3 d nj inl x -> CI h 3 d nj inl' x.
Proof. intros. ci x. Qed.
Lemma CI_j3_created : forall h d nj inl inl' x, CI h 3 d nj inl x ->
  CI h 4 d nj inl' (w_ph PCre (w_rc (c_rc x + 1) (w_st ACTIVE (w_reg true x)))).
Proof. intros. ci x. Qed.
Lemma CI_j4_facts : forall h d nj inl x, CI h 4 d nj inl x ->
  c_ph x = PCre /\ (c_st x = ACTIVE \/ c_st x = INACTIVE) /\ c_alloc x = true /\ d = false /\ live x.
Proof. intros. ci x. Qed.
Lemma CI_j4_est : forall h nj inl x, CI h 4 false nj inl x -> c_st x = ACTIVE ->
  c_rc x - 1 <> 0 /\ 1 <= c_rc x /\ CI h 0 false nj inl (w_rc (c_rc x - 1) (w_st ESTABLISHED x)).
Proof. intros. ci x. Qed.
Lemma CI_j4_unref_n : forall h nj inl x, CI h 4 false nj inl x -> c_st x = INACTIVE -> c_rc x - 1 <> 0 ->
  CI h 0 false nj inl (w_rc (c_rc x - 1) x).
Proof. intros. ci x. Qed.
Lemma CI_j4_unref_z : forall h nj inl x, CI h 4 false nj inl x -> c_st x = INACTIVE -> c_rc x - 1 = 0 ->
  phase_step KDestroyed 0 (c_ph x) <> None /\ c_uref x = 0 /\ CI h 0 true nj false (w_ph PDead (w_rc 0 x)).
Proof. intros. ci x. Qed.

Lemma CI_j3_fail_n : forall h nj inl inl' x, CI h 3 false nj inl x -> c_rc x - 1 <> 0 ->
  CI h 0 false nj inl' (w_rc (c_rc x - 1) (w_st INACTIVE (w_reg false (w_st ACTIVE (w_reg true x))))).
Proof. intros. ci x. Qed.
Lemma CI_j3_fail_z : forall h nj inl x, CI h 3 false nj inl x -> c_rc x - 1 = 0 ->
  c_uref x = 0 /\ CI h 0 true nj false (w_ph PDead (w_rc 0 (w_st INACTIVE (w_reg false (w_st ACTIVE (w_reg true x)))))).
Proof. intros. ci x. Qed.
Lemma CI_live_rc1 : forall h j d nj inl x, CI h j d nj inl x -> live x -> 1 <= c_rc x.
Proof. intros. ci x. Qed.

Lemma SI_alloc : forall df w x w',
  SI df w -> s_alloc w = true -> c_alloc x = true ->
  (forall i, conns w' i = updf (conns w) (next w) x i) -> next w' = S (next w) ->
  s_alloc w' = true -> s_rc w' = s_rc w + 1 -> s_creator w' = s_creator w -> destroy_called w' = destroy_called w ->
  SI df w'.
Proof.
  intros df w x w' (T1 & T2 & T3 & T4) Sv Ax E1 E2 E3 E4 E5 E6.
  destruct (T1 Sv) as (R1 & R2).
  assert (N : nalloc w' <= nalloc w + 1 /\ 0 <= nalloc w').
  { unfold nalloc. rewrite E2. simpl. rewrite (nalloc_upto_ext (conns w') (updf (conns w) (next w) x)) by (intros; apply f_equal; apply E1).
    rewrite nalloc_upto_upd_out by lia. rewrite E1, updf_same, Ax.
    pose proof (nalloc_upto_nonneg (conns w) (next w)). lia. }
  unfold SI. rewrite E3, E4, E5, E6.
  split; [|split; [|split]]; auto.
  - intros _. split; [lia|]. destruct (s_creator w); lia.
  - intros; discriminate.
Qed.

Lemma list_below_next : forall H J (D : dctx) w i, GI H J D w -> In i (s_list w) -> (i < next w)%nat.
Proof.
  intros H J D w i (A & _ & C & _) Hi. destruct (Nat.lt_ge_cases i (next w)); auto.
  specialize (C i H0). specialize (A i). apply mem_In in Hi. rewrite Hi in A.
  apply CI_inl_live in A. unfold live in A. rewrite C in A. tauto.
Qed.

Lemma conn_eta : forall x, mkConn (c_alloc x) (c_st x) (c_rc x) (c_notified x) (c_reg x) (c_fc x) (c_nreq x) (c_hup x) (c_ph x) (c_uref x) = x.
Proof. destruct x; reflexivity. Qed.

Section Hnc.
  Variable cb : kind -> nat -> world -> R.
  Hypothesis Hcb : cb_ok cb.

  Ltac redw := unfold put, set_list, set_jobs, set_conns; cbn [conns jobs s_list next].
  (* final unref of handle_new_connection's own reference, before the transport was connected (j = 3) *)
  Lemma unref_j3 : forall H J (D : dctx) c w,
    GI H (setf J c 3) D w -> J c = 0 ->
    safe (fun w' _ => GI H J D w') (conn_unref cb c w).
  Proof.
    intros H J D c w G Hj. pose proof G as (A & _ & _). pose proof (A c) as Ac. rewrite setf_same in Ac.
    destruct (CI_j3_facts _ _ _ _ _ Ac) as (_ & _ & _ & _ & _ & Dc & L & _).
    rewrite Dc in Ac.
    eapply unref_gen; eauto.
    - intros i Hi. rewrite setf_other; auto.
    - rewrite setf_same; auto.
    - intros. rewrite Hj. apply CI_j3_unref_n; auto.
    - intros. rewrite Hj. eapply CI_j3_unref_z; eauto.
  Qed.

  Lemma unref_j4 : forall H J (D : dctx) c w,
    GI H (setf J c 4) D w -> J c = 0 -> c_st (conns w c) = INACTIVE ->
    safe (fun w' _ => GI H J D w') (conn_unref cb c w).
  Proof.
    intros H J D c w G Hj S. pose proof G as (A & _ & _). pose proof (A c) as Ac. rewrite setf_same in Ac.
    destruct (CI_j4_facts _ _ _ _ _ Ac) as (_ & _ & _ & Dc & L).
    rewrite Dc in Ac.
    eapply unref_gen; eauto.
    - intros i Hi. rewrite setf_other; auto.
    - rewrite Hj; discriminate.
    - intros. rewrite Hj. apply CI_j4_unref_n; auto.
    - intros. rewrite Hj. eapply CI_j4_unref_z; eauto.
  Qed.

  Lemma handle_new_ok : forall slot resp_ok H J (D : dctx) w,
    GI H J D w -> (forall i, J i <> 3) -> destroy_called w = false ->
    safe (fun w' _ => GI H J D w') (handle_new true cb slot resp_ok w).
  Proof.
    intros slot resp_ok H J D w G Jn3 Ndc. pose proof G as (A & B & C & SV).
    assert (Sv : s_alloc w = true).
    { apply (GI_svc_creator _ _ _ _ G). destruct SV as (_ & _ & S3 & _). auto. }
    unfold handle_new. apply safe_chks; auto.
    set (c := next w).
    assert (Pn : c_ph (conns w c) = PNone) by (apply C; unfold c; lia).
    destruct (CI_none_facts _ _ _ _ _ _ (A c) Pn) as (Hc & Jc & Dc & Nc & Mc).
    set (x := mkConn true INACTIVE 1 false false 0 0 false P0 0).
    set (w1 := logit _ (set_slots _ _)).
    assert (Cw1 : conns w1 c = x) by (unfold w1; simpl; apply updf_same).
    (* the accept callback *)
    apply safe_bind.
    destruct (Hcb KAccept c w1) as (ret & p' & S1 & S2).
    { rewrite Cw1; simpl; congruence. }
    { intros; discriminate. }
    rewrite Cw1 in S1. simpl in S1. inversion S1; subst p'; clear S1.
    assert (SV1 : SI (dframe D) (put c (w_ph PAcc x) w1)).
    { eapply (SI_alloc (dframe D) w (w_ph PAcc x)); [exact SV | exact Sv | reflexivity | | | | | | ]; try reflexivity.
      intros i. unfold w1, c. ext. }
    assert (G1 : GI H (setf J c 3) D (put c (w_ph PAcc (conns w1 c)) w1)).
    { rewrite Cw1. unfold GI. split; [|split; [|split]]; [ | | | exact SV1].
      - intros i. simpl. unfold updf. destruct (Nat.eqb_spec i c).
        + subst i. rewrite setf_same, Hc, Dc, Nc, Mc. exact CI_fresh.
        + rewrite setf_other by auto. apply A.
      - simpl. destruct B as [B1 B2]. split; auto. intros c0 b E0 Hb. unfold setf in E0.
        destruct (Nat.eqb_spec c0 c); [subst c0; eapply list_below_next; eauto | eauto].
      - simpl. intros i Hi. unfold updf. destruct (Nat.eqb_spec i c); [subst; unfold c in Hi; lia|].
        destruct (Nat.eqb_spec i c); try congruence. apply C. unfold c in *. lia. }
    eapply safe_mono; [| apply (S2 H (setf J c 3) D G1)].
    intros w2 r (-> & G2). cbv beta.
    pose proof G2 as (A2 & B2 & C2 & SV2). pose proof (A2 c) as Ac2. rewrite setf_same in Ac2.
    destruct (CI_j3_facts _ _ _ _ _ Ac2) as (P2 & S2' & R2 & Al2 & N2 & Dc2 & L2 & Nf2).
    apply safe_chk; auto.
    destruct (negb (ret =? 0)).
    - (* refused *)
      apply safe_bind. eapply safe_mono; [| apply (unref_j3 H J D c w2 G2 Jc)].
      intros w3 z3 G3. simpl. eapply GI_ext; [|exact G3]; frame.
    - apply safe_chks; [apply (GI_svc_alive _ _ _ _ c G2 Al2)|].
      set (w3 := put c (w_st ACTIVE (w_reg true (conns w2 c))) w2).
      set (w4 := set_list (c :: s_list w3) w3).
      assert (Below : forall b, In b (s_list w2) -> (b < c)%nat).
      { intros b Hb. destruct B2 as [_ B2]. apply (B2 c b); auto. apply setf_same. }
      assert (NotIn : mem_id c (s_list w2) = false).
      { destruct (mem_id c (s_list w2)) eqn:E; auto. apply mem_In in E. apply Below in E. lia. }
      assert (Desc4 : desc (c :: s_list w2)) by (simpl; split; auto; apply B2).
      destruct resp_ok; cbn [negb].
      + (* connected: reference around the created callback *)
        unfold conn_ref, chk.
        assert (Cw4 : conns w4 c = w_st ACTIVE (w_reg true (conns w2 c))) by (unfold w4, w3; simpl; apply updf_same).
        rewrite Cw4. cbn [c_alloc w_st w_reg]. rewrite Al2. cbn [bind c_rc].
        set (w5 := put c _ w4).
        assert (Cw5 : conns w5 c = w_rc (c_rc (conns w2 c) + 1) (w_st ACTIVE (w_reg true (conns w2 c))))
          by (unfold w5; simpl; apply updf_same).
        apply safe_bind.
        destruct (Hcb KCreated c w5) as (ret5 & p5 & S5 & S6).
        { rewrite Cw5; simpl. rewrite P2. simpl; congruence. }
        { intros; discriminate. }
        rewrite Cw5 in S5. simpl in S5. rewrite P2 in S5. simpl in S5. inversion S5; subst p5; clear S5.
        assert (SV5 : SI (dframe D) (put c (w_ph PCre (conns w5 c)) w5)).
        { eapply SI_frame; [| | | | | | exact SV2]; try reflexivity.
          intros i. unfold w5, w4, w3. ext. }
        assert (G5 : GI H (setf J c 4) D (put c (w_ph PCre (conns w5 c)) w5)).
        { rewrite Cw5. unfold GI. split; [|split; [|split]]; [ | | | rewrite <- Cw5; exact SV5].
          - intros i. simpl. unfold updf. destruct (Nat.eqb_spec i c).
            + subst i. rewrite setf_same.
              eapply CI_j3_created; exact Ac2.
            + rewrite setf_other by auto. destruct (Nat.eqb_spec i c); try congruence.
              destruct (Nat.eqb_spec i c); try congruence. simpl.
              specialize (A2 i). rewrite setf_other in A2 by auto. exact A2.
          - simpl. split; auto. intros c0 b E0 Hb. unfold setf in E0.
            destruct (Nat.eqb_spec c0 c); [discriminate|]. exfalso. apply (Jn3 c0); auto.
          - simpl. intros i Hi. unfold updf. destruct (Nat.eqb_spec i c).
            + subst i. exfalso. specialize (C2 c Hi). rewrite P2 in C2. discriminate.
            + apply C2; auto. }
        eapply safe_mono; [| apply (S6 H (setf J c 4) D G5)].
        intros w6 r6 (-> & G6). cbv beta.
        pose proof G6 as (A6 & B6 & C6 & SV6). pose proof (A6 c) as Ac6. rewrite setf_same in Ac6.
        destruct (CI_j4_facts _ _ _ _ _ Ac6) as (P6 & S6' & Al6 & Dc6 & L6).
        apply safe_chk; auto. rewrite Dc6 in Ac6.
        destruct (st_eqb (c_st (conns w6 c)) ACTIVE) eqn:Es.
        * apply st_eqb_true in Es.
          destruct (CI_j4_est _ _ _ _ Ac6 Es) as (Q1 & Q2 & Q3).
          set (w7 := put c (w_st ESTABLISHED (conns w6 c)) w6).
          assert (Cw7 : conns w7 c = w_st ESTABLISHED (conns w6 c)) by (unfold w7; simpl; apply updf_same).
          rewrite (unref_nz cb c w7); try (rewrite Cw7; simpl; auto). cbn [bind].
          try rewrite Cw7; cbn [c_rc w_st]. try rewrite Es; simpl.
          eapply GI_ext with (w := put c (w_rc (c_rc (conns w6 c) - 1) (w_st ESTABLISHED (conns w6 c))) w6).
          -- unfold w7. frame.
          -- eapply GI_put; [exact G6 | | | | | | ].
             ++ intros i Hi. rewrite setf_other; auto.
             ++ rewrite Jc, Dc6. exact Q3.
             ++ simpl. rewrite P6. split; congruence.
             ++ rewrite Jc. discriminate.
             ++ simpl. rewrite Al6. reflexivity.
             ++ reflexivity.
        * assert (Si : c_st (conns w6 c) = INACTIVE).
          { destruct S6' as [Sa|Si]; auto. rewrite Sa in Es. discriminate. }
          apply safe_bind. eapply safe_mono; [| apply (unref_j4 H J D c w6 G6 Jc Si)].
          intros w8 z8 G8. simpl. eapply GI_ext; [|exact G8]; frame.
      + (* the response could not be sent: qb_ipcs_disconnect of the ACTIVE connection *)
        assert (Cw4 : conns w4 c = w_st ACTIVE (w_reg true (conns w2 c))) by (unfold w4, w3; simpl; apply updf_same).
        apply safe_bind. unfold disconnect. apply safe_chk. { rewrite Cw4; simpl; auto. }
        rewrite Cw4. cbn [c_st w_st w_reg]. apply safe_chks; [exact (GI_svc_alive _ _ _ _ c G2 Al2)|].
        unfold funcs_disconnect. rewrite Cw4. cbn [c_st w_st w_reg].
        set (w5 := put c (w_reg false (w_st ACTIVE (w_reg true (conns w2 c)))) w4).
        set (w6 := put c _ w5).
        set (x6 := w_st INACTIVE (w_reg false (w_st ACTIVE (w_reg true (conns w2 c))))).
        assert (Cw6 : conns w6 c = x6) by (unfold w6, w5; simpl; rewrite !updf_same; reflexivity).
        rewrite Dc2 in Ac2.
        assert (Al6 : c_alloc (conns w6 c) = true) by (rewrite Cw6; unfold x6; cbn [c_alloc w_st w_reg]; auto).
        assert (Rc6 : 1 <= c_rc (conns w6 c)) by (rewrite Cw6; unfold x6; cbn [c_rc w_st w_reg]; eapply CI_live_rc1; eauto).
        assert (LJ : LI J (c :: s_list w2)).
        { split; auto. intros c0 b E0. exfalso. apply (Jn3 c0); auto. }
        assert (Oth : forall i, i <> c -> CI (H i) (J i) (D i) (cnt i (jobs w2)) (mem_id i (c :: s_list w2)) (conns w2 i)).
        { intros i Hi. specialize (A2 i). rewrite setf_other in A2 by auto. simpl.
          destruct (Nat.eqb_spec i c); try congruence. exact A2. }
        eapply safe_mono with (P := fun w' _ => GI H J D w').
        { intros w7 z7 G7. simpl. eapply GI_ext; [|exact G7]; frame. }
        apply unref_ok; auto; rewrite Cw6; subst w6 w5 w4 w3.
        * intros Hn. unfold GI. split; [|split; [|split]].
          4: { eapply SI_frame; [| | | | | | exact SV2]; try reflexivity. intros i. ext. }
          -- intros i. redw. unfold updf. destruct (Nat.eqb_spec i c).
             ++ subst i. rewrite Jc. try rewrite Dc2. unfold x6 in *. cbn [c_rc w_st w_reg] in Hn.
                cbn [c_rc w_st w_reg]. eapply CI_j3_fail_n; eauto.
             ++ apply Oth; auto.
          -- redw. exact LJ.
          -- redw. intros i Hi. unfold updf. destruct (Nat.eqb_spec i c).
             ++ subst i. exfalso. specialize (C2 c Hi). rewrite P2 in C2. discriminate.
             ++ apply C2; auto.
        * intros Hz. unfold x6 in Hz. cbn [c_rc w_st w_reg] in Hz.
          destruct (CI_j3_fail_z _ _ _ _ Ac2 Hz) as (U0 & Cz).
          split; [|split].
          -- unfold x6; cbn [c_ph w_st w_reg]. rewrite P2. simpl. congruence.
          -- unfold x6; cbn [c_uref w_st w_reg]. auto.
          -- unfold GI. split; [|split; [|split]].
             4: { eapply SI_frame; [| | | | | | exact SV2]; try reflexivity. intros i. ext. }
             ++ intros i. redw. unfold updf. destruct (Nat.eqb_spec i c).
                ** subst i. rewrite setb_same, Jc. rewrite mem_remove_same. exact Cz.
                ** rewrite setb_other by auto. rewrite mem_remove_other by auto. apply Oth; auto.
             ++ redw. apply LI_remove. exact LJ.
             ++ redw. intros i Hi. unfold updf. destruct (Nat.eqb_spec i c).
                ** subst i. exfalso. specialize (C2 c Hi). rewrite P2 in C2. discriminate.
                ** apply C2; auto.
  Qed.
End Hnc.
