(* C10 / C08 source tie: definitions of the loop model (LoopModel.v, owned by loopq) equal the Gallina text that
   tools/c2coq.py regenerates from lib/loop.c and lib/loop_job.c on every run (gen/Src_loop.v, gen/Src_loopjob.v).
   Translated and tied here: qb_loop_level_item_add / _del (the todo counter), qb_loop_stop, qb_loop_job_add
   (priority validation, result) and get_more_jobs (job_todo and the todo counters of the three levels).
   The list surgery itself (qb_list_* on struct qb_list_head) is pointer manipulation outside the translator's
   memory model: those calls are dropped / oracles, and the model's wait / jobq lists stay tied by the
   correspondence run only.
   NOT TRANSLATED (reported by the tool on every run, evidence field src_tie): qb_loop_run_level and job_dispatch
   (`qb_list_first_entry' / `qb_list_entry' expand to GNU statement expressions; qb_loop_run_level also loops with a
   backward goto); qb_loop_run is left out of the spec on purpose: it translates, but only with qb_loop_run_level and
   the three source->poll calls as oracles, and the translator assumes oracles have no effect on the modelled
   paths - false here (they change level[p].todo and stop_requested, which qb_loop_run reads afterwards), so the
   generated text would not describe the C function (see reports/loopt.md, "c2coq request 2"). *)
From Coq Require Import ZArith List Bool Lia.
Import ListNotations.
Require Import Verif.gen.Consts_loop Verif.gen.Src_loop Verif.gen.Src_loopjob Verif.C2CoqPrelude Verif.LoopModel.
Local Open Scope Z_scope.

Definition i32 (x : Z) : Prop := - 2 ^ 31 <= x < 2 ^ 31.

Lemma lv_set_lv : forall p l st q, lv (set_lv p l st) q = if prio_eqb q p then l else lv st q.
Proof. reflexivity. Qed.

Lemma lv_upd_level : forall p f st q, lv (upd_level p f st) q = if prio_eqb q p then f (lv st p) else lv st q.
Proof. reflexivity. Qed.

Lemma prio_eqb_refl : forall p, prio_eqb p p = true.
Proof. destruct p; reflexivity. Qed.

(* qb_loop_level_item_add: level->todo++ (the list append is qb_list_add_tail) *)
Theorem src_item_add : forall p it st lvp jb, i32 (todo (lv st p) + 1) ->
  qb_loop_level_item_add lvp jb (todo (lv st p)) = todo (lv (item_add p it st) p).
Proof.
  intros p it st lvp jb R. unfold qb_loop_level_item_add, item_add. rewrite lv_upd_level, prio_eqb_refl. cbn [todo].
  apply s32_small. exact R.
Qed.

(* qb_loop_level_item_del: nothing when the item is on no list (qb_list_empty(&job->list)), else level->todo-- *)
Theorem src_item_del : forall p st lvp jb c orc, i32 (todo (lv st p) - 1) ->
  qb_loop_level_item_del lvp jb c (todo (lv st p)) orc =
  (c + 1, if negb (s32 (orc c) =? 0) then todo (lv st p) else todo (lv (dec_todo p st) p)).
Proof.
  intros p st lvp jb c orc R. unfold qb_loop_level_item_del, dec_todo. rewrite lv_upd_level, prio_eqb_refl. cbn [todo].
  destruct (negb (s32 (orc c) =? 0)); [reflexivity|]. rewrite s32_small by exact R. reflexivity.
Qed.

(* the model's item_del decrements exactly when the item is on one of the three job lists *)
Theorem item_del_todo : forall p it st,
  todo (lv (item_del p it st) p) =
  if in_jobq it High st || in_jobq it Med st || in_jobq it Low st then todo (lv st p) - 1 else todo (lv st p).
Proof.
  intros p it st. unfold item_del.
  destruct (in_jobq it High st); [|destruct (in_jobq it Med st); [|destruct (in_jobq it Low st); [|reflexivity]]];
    cbn [orb]; unfold dec_todo, unlink; rewrite !lv_upd_level, prio_eqb_refl; cbn [todo];
    destruct p; reflexivity.
Qed.

(* qb_loop_stop(l) with a non-NULL loop: stop_requested = QB_TRUE, i.e. set_stop true *)
Theorem src_stop : forall l sr dflt st, 0 < l < 2 ^ 64 ->
  qb_loop_stop l sr dflt = 1 /\ (stop (set_stop true st) = true /\ (1 =? 0) = false).
Proof.
  intros l sr dflt st H. unfold qb_loop_stop. split; [|split; reflexivity].
  replace (l =? 0) with false by (symmetry; apply Z.eqb_neq; lia). cbn [negb].
  rewrite (u64_small l) by lia.
  replace (l =? 0) with false by (symmetry; apply Z.eqb_neq; lia). reflexivity.
Qed.

(* ---------------------------------------------------------------- lib/loop_job.c *)
(* qb_loop_job_add with a loop, a callback and a priority of the enum: 0 (malloc succeeds), like the model;
   a priority outside LOW..HIGH is refused with -EINVAL before anything is queued *)
Theorem src_job_add : forall lp pr key data fn cm cd jf js jt ju ljs om od st,
  0 < lp < 2 ^ 64 -> fn <> 0 -> 0 < om cm < 2 ^ 64 ->
  fst (fst (fst (fst (fst (fst (qb_loop_job_add lp (prio_z pr) data fn cm cd jf js jt ju ljs om od)))))) = fst (job_add pr key st).
Proof.
  intros lp pr key data fn cm cd jf js jt ju ljs om od st Hl Hf Hm. unfold qb_loop_job_add, job_add, fresh_uid.
  rewrite (u64_small lp) by lia.
  replace (lp =? 0) with false by (symmetry; apply Z.eqb_neq; lia).
  replace (fn =? 0) with false by (symmetry; apply Z.eqb_neq; assumption). cbn [orb].
  assert (P : (u32 (prio_z pr) <? u32 0) || (u32 (prio_z pr) >? u32 2) = false) by (destruct pr; vm_compute; reflexivity).
  rewrite P. rewrite !(u64_small (om cm)) by lia.
  replace (om cm =? 0) with false by (symmetry; apply Z.eqb_neq; lia).
  replace (lp =? 0) with false by (symmetry; apply Z.eqb_neq; lia). reflexivity.
Qed.

Theorem src_job_add_bad_prio : forall lp p data fn cm cd jf js jt ju ljs om od,
  0 < lp < 2 ^ 64 -> fn <> 0 -> 0 <= p < 2 ^ 32 -> ~ (0 <= p <= 2) ->
  qb_loop_job_add lp p data fn cm cd jf js jt ju ljs om od = (- LOOP_EINVAL, cm, cd, jf, js, jt, ju).
Proof.
  intros lp p data fn cm cd jf js jt ju ljs om od Hl Hf Hp Hn. unfold qb_loop_job_add.
  rewrite (u64_small lp) by lia.
  replace (lp =? 0) with false by (symmetry; apply Z.eqb_neq; lia).
  replace (fn =? 0) with false by (symmetry; apply Z.eqb_neq; assumption). cbn [orb].
  rewrite (u32_small p) by lia. change (u32 0) with 0. change (u32 2) with 2.
  replace ((p <? 0) || (p >? 2)) with true by (symmetry; apply orb_true_iff; right; apply Z.gtb_lt; lia).
  destruct ((lp =? 0) || false); reflexivity.
Qed.

(* get_more_jobs: job_todo and the todo counters.  n p = what qb_list_length(&level[p].wait_head) answers; the k-th
   qb_list_empty / qb_list_length calls are answered by the model's wait lists, LOW first *)
Definition wlen (st : state) (p : prio) : Z := zlen (wait (lv st p)).

Lemma model_more_jobs_level : forall p n st,
  more_jobs_level p (n, st) =
  (n + wlen st p,
   if wlen st p =? 0 then st
   else upd_level p (fun l => {| wait := []; jobq := jobq l ++ wait (lv st p); todo := todo l + wlen st p |}) st).
Proof.
  intros p n st. unfold more_jobs_level, wlen, zlen. destruct (wait (lv st p)) eqn:E.
  - simpl. rewrite Z.add_0_r. reflexivity.
  - replace (Z.of_nat (length (q :: l)) =? 0) with false by (symmetry; apply Z.eqb_neq; simpl; lia). reflexivity.
Qed.

Lemma wlen_nonneg : forall st p, 0 <= wlen st p.
Proof. intros. unfold wlen, zlen. lia. Qed.

(* what the model's get_more_jobs computes: the sum of the three wait-list lengths; each level's todo grows by its own *)
Theorem model_get_more_jobs : forall st,
  fst (LoopModel.get_more_jobs st) = wlen st Low + wlen st Med + wlen st High /\
  forall p, todo (lv (snd (LoopModel.get_more_jobs st)) p) = todo (lv st p) + wlen st p.
Proof.
  intros st. unfold LoopModel.get_more_jobs.
  rewrite (model_more_jobs_level Low 0 st).
  set (s1 := if wlen st Low =? 0 then st else _).
  assert (W1 : forall p, p <> Low -> wait (lv s1 p) = wait (lv st p))
    by (intros p Hp; unfold s1; destruct (wlen st Low =? 0); [reflexivity|]; rewrite lv_upd_level; destruct p; simpl; congruence).
  assert (T1 : forall p, todo (lv s1 p) = todo (lv st p) + (if prio_eqb p Low then wlen st Low else 0)).
  { intros p. unfold s1. destruct (wlen st Low =? 0) eqn:E; [apply Z.eqb_eq in E; destruct p; simpl; lia|].
    rewrite lv_upd_level. destruct p; simpl; lia. }
  rewrite (model_more_jobs_level Med _ s1).
  assert (E1 : wlen s1 Med = wlen st Med) by (unfold wlen; rewrite W1; congruence).
  rewrite E1.
  set (s2 := if wlen st Med =? 0 then s1 else _).
  assert (W2 : wait (lv s2 High) = wait (lv st High)).
  { unfold s2. destruct (wlen st Med =? 0); [apply W1; congruence|]. rewrite lv_upd_level. simpl. apply W1. congruence. }
  assert (T2 : forall p, todo (lv s2 p) = todo (lv s1 p) + (if prio_eqb p Med then wlen st Med else 0)).
  { intros p. unfold s2. destruct (wlen st Med =? 0) eqn:E; [apply Z.eqb_eq in E; destruct p; simpl; lia|].
    rewrite lv_upd_level. destruct p; simpl; lia. }
  rewrite (model_more_jobs_level High _ s2).
  assert (E2 : wlen s2 High = wlen st High) by (unfold wlen; rewrite W2; reflexivity).
  rewrite E2. cbn [fst snd]. split; [lia|].
  intros p. destruct (wlen st High =? 0) eqn:E.
  - apply Z.eqb_eq in E. rewrite T2, T1. destruct p; simpl; lia.
  - rewrite lv_upd_level. destruct p; simpl; rewrite ?T2, ?T1; simpl; lia.
Qed.

(* one iteration of the for (p = LOW; p <= HIGH; p++) loop of get_more_jobs *)
Lemma loop1_iter : forall f oe ol ce cl lj nj p T n,
  0 <= p <= 2 -> oe ce = (if n =? 0 then 1 else 0) -> (n <> 0 -> ol cl = n) -> 0 <= n ->
  i32 n -> i32 nj -> i32 (nj + n) -> i32 (T p) -> i32 (T p + n) ->
  get_more_jobs_loop1 (Datatypes.S f) oe ol ce cl lj nj p T =
  get_more_jobs_loop1 f oe ol (ce + 1) (cl + (if n =? 0 then 0 else 1)) (if n =? 0 then lj else n) (nj + n) (p + 1)
                      (if n =? 0 then T else upd T p (T p + n)).
Proof.
  intros f oe ol ce cl lj nj p T n Hp He Hl Hn Rn Rj Rjn Rt Rtn. cbn [get_more_jobs_loop1].
  replace (p <=? 2) with true by (symmetry; apply Z.leb_le; lia). rewrite He.
  assert (Sp : s32 (p + 1) = p + 1) by (apply s32_small; change (2 ^ 31) with 2147483648; lia).
  destruct (n =? 0) eqn:E.
  - apply Z.eqb_eq in E. subst n. change (s32 1 =? 0) with false. cbn [negb]. rewrite Sp, !Z.add_0_r. reflexivity.
  - apply Z.eqb_neq in E. change (s32 0 =? 0) with true. cbn [negb]. rewrite (Hl E), Sp.
    rewrite (s32_small n) by exact Rn. rewrite (s32_small n) by exact Rn. rewrite (s32_small nj) by exact Rj.
    rewrite (s32_small (nj + n)) by exact Rjn. rewrite (s32_small (nj + n)) by exact Rjn.
    rewrite (s32_small (T p)) by exact Rt. rewrite (s32_small (T p + n)) by exact Rtn. rewrite (s32_small (T p + n)) by exact Rtn.
    reflexivity.
Qed.

Lemma loop1_end : forall f oe ol ce cl lj nj T,
  get_more_jobs_loop1 (Datatypes.S f) oe ol ce cl lj nj 3 T = Some (ce, cl, lj, nj, 3, T).
Proof. reflexivity. Qed.

Definition small (x : Z) : Prop := 0 <= x <= 2 ^ 29.

(* get_more_jobs (lib/loop_job.c) = LoopModel.get_more_jobs: the return value (job_todo of qb_loop_run) and the
   three todo counters, when qb_list_empty / qb_list_length answer according to the model's wait lists *)
Theorem src_get_more_jobs : forall st sp ms ce cl oe ol T fuel,
  (4 <= fuel)%nat ->
  let n0 := wlen st Low in let n1 := wlen st Med in let n2 := wlen st High in
  let d0 := if n0 =? 0 then 0 else 1 in let d1 := if n1 =? 0 then 0 else 1 in
  oe ce = (if n0 =? 0 then 1 else 0) -> oe (ce + 1) = (if n1 =? 0 then 1 else 0) -> oe (ce + 1 + 1) = (if n2 =? 0 then 1 else 0) ->
  (n0 <> 0 -> ol cl = n0) -> (n1 <> 0 -> ol (cl + d0) = n1) -> (n2 <> 0 -> ol (cl + d0 + d1) = n2) ->
  (forall p, T (prio_z p) = todo (lv st p)) ->
  (forall p, small (wlen st p) /\ small (todo (lv st p))) ->
  exists ce' cl' T',
    Src_loopjob.get_more_jobs fuel sp ms ce cl oe ol T = Some (fst (LoopModel.get_more_jobs st), ce', cl', T') /\
    forall p, T' (prio_z p) = todo (lv (snd (LoopModel.get_more_jobs st)) p).
Proof.
  intros st sp ms ce cl oe ol T fuel Hf n0 n1 n2 d0 d1 E0 E1 E2 L0 L1 L2 HT R.
  destruct (model_get_more_jobs st) as [M1 M2].
  destruct fuel as [|[|[|[|f]]]]; try lia.
  assert (B : 2 ^ 29 = 536870912) by reflexivity. assert (B31 : 2 ^ 31 = 2147483648) by reflexivity.
  destruct (R Low) as [[A0 A0'] [T0 T0']]. destruct (R Med) as [[A1 A1'] [T1 T1']]. destruct (R High) as [[A2 A2'] [T2 T2']].
  fold n0 in A0, A0'. fold n1 in A1, A1'. fold n2 in A2, A2'.
  pose proof (HT Low) as HL. pose proof (HT Med) as HM. pose proof (HT High) as HH.
  change (prio_z Low) with 0 in HL. change (prio_z Med) with 1 in HM. change (prio_z High) with 2 in HH.
  unfold Src_loopjob.get_more_jobs. change (s32 0) with 0.
  assert (RT0 : i32 (T 0) /\ i32 (T 0 + n0)) by (rewrite HL; unfold i32; lia).
  rewrite (loop1_iter _ oe ol ce cl 0 0 0 T n0) by (solve [assumption | lia | unfold i32; lia | apply RT0]).
  fold d0.
  set (Ta := if n0 =? 0 then T else upd T 0 (T 0 + n0)).
  assert (Ta1 : Ta 1 = T 1) by (unfold Ta; destruct (n0 =? 0); [reflexivity|apply upd_other; lia]).
  assert (Ta2 : Ta 2 = T 2) by (unfold Ta; destruct (n0 =? 0); [reflexivity|apply upd_other; lia]).
  assert (Ta0 : Ta 0 = T 0 + n0) by (unfold Ta; destruct (n0 =? 0) eqn:Q; [apply Z.eqb_eq in Q; lia|apply upd_same]).
  change (0 + 1) with 1. rewrite (Z.add_0_l n0).
  assert (RT1 : i32 (Ta 1) /\ i32 (Ta 1 + n1)) by (rewrite Ta1, HM; unfold i32; lia).
  rewrite (loop1_iter _ oe ol (ce + 1) (cl + d0) _ n0 1 Ta n1) by (solve [assumption | lia | unfold i32; lia | apply RT1]).
  fold d1.
  set (Tb := if n1 =? 0 then Ta else upd Ta 1 (Ta 1 + n1)).
  assert (Tb0 : Tb 0 = Ta 0) by (unfold Tb; destruct (n1 =? 0); [reflexivity|apply upd_other; lia]).
  assert (Tb2 : Tb 2 = Ta 2) by (unfold Tb; destruct (n1 =? 0); [reflexivity|apply upd_other; lia]).
  assert (Tb1 : Tb 1 = Ta 1 + n1) by (unfold Tb; destruct (n1 =? 0) eqn:Q; [apply Z.eqb_eq in Q; lia|apply upd_same]).
  change (1 + 1) with 2.
  assert (RT2 : i32 (Tb 2) /\ i32 (Tb 2 + n2)) by (rewrite Tb2, Ta2, HH; unfold i32; lia).
  rewrite (loop1_iter _ oe ol (ce + 1 + 1) (cl + d0 + d1) _ (n0 + n1) 2 Tb n2) by (solve [assumption | lia | unfold i32; lia | apply RT2]).
  set (Tc := if n2 =? 0 then Tb else upd Tb 2 (Tb 2 + n2)).
  assert (Tc0 : Tc 0 = Tb 0) by (unfold Tc; destruct (n2 =? 0); [reflexivity|apply upd_other; lia]).
  assert (Tc1 : Tc 1 = Tb 1) by (unfold Tc; destruct (n2 =? 0); [reflexivity|apply upd_other; lia]).
  assert (Tc2 : Tc 2 = Tb 2 + n2) by (unfold Tc; destruct (n2 =? 0) eqn:Q; [apply Z.eqb_eq in Q; lia|apply upd_same]).
  change (2 + 1) with 3. rewrite loop1_end.
  eexists _, _, Tc. split; [rewrite M1; reflexivity|].
  intros p. rewrite M2. destruct p.
  - change (prio_z Low) with 0. rewrite Tc0, Tb0, Ta0, HL. reflexivity.
  - change (prio_z Med) with 1. rewrite Tc1, Tb1, Ta1, HM. reflexivity.
  - change (prio_z High) with 2. rewrite Tc2, Tb2, Ta2, HH. reflexivity.
Qed.

Section RunLevel.
Variable beh : behaviour.
Variable p : prio.
(* answers of the environment of the translated function: qb_list_empty(&level->job_head), and the values of
   level->todo / level->l->stop_requested after the k-th dispatch_and_take_back call *)
Variables oe od hvS hvT : Z -> Z.

Definition popped (st : state) (rest : list qitem) : state :=
  upd_level p (fun l => {| wait := wait l; jobq := rest; todo := todo l |}) st.

(* the environment answers as the model's execution does *)
Fixpoint agree (fuel : nat) (processed : Z) (st : state) (ce cd : Z) : Prop :=
  match fuel with
  | O => True
  | Datatypes.S f =>
    match jobq (lv st p) with
    | [] => s32 (oe ce) <> 0
    | it :: rest =>
      s32 (oe ce) = 0 /\
      let st2 := dispatch beh it (popped st rest) in
      hvT cd = todo (lv st2 p) /\ (hvS cd =? 0) = negb (stop st2) /\
      - 2 ^ 31 <= todo (lv st2 p) - 1 < 2 ^ 31 /\
      (if stop st2 then True
       else if processed + 1 <? LOOP_TO_PROCESS then agree f (processed + 1) (dec_todo p st2) (ce + 1) (cd + 1) else True)
    end
  end.

Lemma stop_dec_todo : forall s, stop (dec_todo p s) = stop s.
Proof. reflexivity. Qed.
Lemma todo_dec_todo : forall s, todo (lv (dec_todo p s) p) = todo (lv s p) - 1.
Proof. intros s. unfold dec_todo, upd_level, set_lv, set_lv_f. cbn [lv]. destruct p; reflexivity. Qed.

(* result of the translated loop, in both of its exit forms, as (dispatch count, empty-test count, stop flag, todo, processed) *)
Definition view (r : (Z * Z * Z * Z * Z * Z) + (Z * Z * Z * Z)) : Z * Z * Z * Z :=
  match r with
  | inl (cd', ce', _, sv', tv', _) => (cd', ce', sv', tv')
  | inr (cd', ce', sv', tv') => (cd', ce', sv', tv')
  end.

Lemma loop_eq : forall f processed st ce cd job sv tv,
  agree (Datatypes.S f) processed st ce cd -> (sv =? 0) = negb (stop st) -> tv = todo (lv st p) ->
  0 <= processed <= 2 ^ 30 -> LOOP_TO_PROCESS - processed <= Z.of_nat (Datatypes.S f) ->
  exists r, qb_loop_run_level_loop1 (Datatypes.S f) hvS hvT LOOP_TO_PROCESS od oe cd ce job sv tv processed = Some r /\
    let '(st', n) := run_level_go beh p (Datatypes.S f) processed st in
    let '(cd', _, sv', tv') := view r in
    tv' = todo (lv st' p) /\ (sv' =? 0) = negb (stop st') /\ cd' - cd = n - processed.
Proof.
  induction f; intros processed st ce cd job sv tv A Hs Ht Hp Hf.
  - (* fuel 1 *)
    cbn [qb_loop_run_level_loop1 run_level_go agree] in *. change (negb (1 =? 0)) with true. cbv iota.
    destruct (jobq (lv st p)) as [|it rest] eqn:Q; rewrite ?Q in A.
    + replace (s32 (oe ce) =? 0) with false by (symmetry; apply Z.eqb_neq; assumption). cbn [negb].
      eexists. split; [reflexivity|]. cbn [view]. repeat split; auto; lia.
    + destruct A as [A1 [A2 [A3 [A4 A5]]]]. rewrite A1. change (0 =? 0) with true. cbn [negb].
      fold (popped st rest). set (st2 := dispatch beh it (popped st rest)) in *.
      rewrite A2. rewrite (s32_small (todo (lv st2 p) - 1)) by exact A4.
      rewrite (s32_small (processed + 1)) by (change (2 ^ 31) with 2147483648; change (2 ^ 30) with 1073741824 in Hp; lia).
      rewrite stop_dec_todo. rewrite <- (negb_involutive (stop st2)), <- A3.
      destruct (hvS cd =? 0) eqn:E; cbn [negb];
        (assert (S2 : stop st2 = negb (hvS cd =? 0)) by (rewrite E; destruct (stop st2) eqn:X; rewrite ?X in A3; simpl in A3; simpl; congruence)); rewrite E in S2; cbn [negb] in S2.
      * (* not stopped: quota reached, since the fuel is 1 *)
        replace (processed + 1 <? LOOP_TO_PROCESS) with false by (symmetry; apply Z.ltb_ge; change (Z.of_nat 1) with 1 in Hf; lia).
        eexists. split; [reflexivity|]. cbn [view]. rewrite todo_dec_todo, stop_dec_todo.
        repeat split; auto; [rewrite S2; exact E|lia].
      * eexists. split; [reflexivity|]. cbn [view]. rewrite todo_dec_todo, stop_dec_todo.
        repeat split; auto; [rewrite S2; exact E|lia].
  - (* fuel >= 2 *)
    remember (Datatypes.S f) as f1.
    cbn [qb_loop_run_level_loop1 run_level_go agree] in *. change (negb (1 =? 0)) with true. cbv iota.
    destruct (jobq (lv st p)) as [|it rest] eqn:Q; rewrite ?Q in A.
    + replace (s32 (oe ce) =? 0) with false by (symmetry; apply Z.eqb_neq; assumption). cbn [negb].
      eexists. split; [reflexivity|]. cbn [view]. repeat split; auto; lia.
    + destruct A as [A1 [A2 [A3 [A4 A5]]]]. rewrite A1. change (0 =? 0) with true. cbn [negb].
      fold (popped st rest). set (st2 := dispatch beh it (popped st rest)) in *.
      rewrite A2. rewrite (s32_small (todo (lv st2 p) - 1)) by exact A4.
      rewrite (s32_small (processed + 1)) by (change (2 ^ 31) with 2147483648; change (2 ^ 30) with 1073741824 in Hp; lia).
      rewrite stop_dec_todo. rewrite <- (negb_involutive (stop st2)), <- A3.
      destruct (hvS cd =? 0) eqn:E; cbn [negb];
        (assert (S2 : stop st2 = negb (hvS cd =? 0)) by (rewrite E; destruct (stop st2) eqn:X; rewrite ?X in A3; simpl in A3; simpl; congruence)); rewrite E in S2; cbn [negb] in S2.
      * rewrite S2 in A5.
        destruct (processed + 1 <? LOOP_TO_PROCESS) eqn:L.
        -- apply Z.ltb_lt in L.
           destruct (IHf (processed + 1) (dec_todo p st2) (ce + 1) (cd + 1) job (hvS cd) (todo (lv st2 p) - 1)) as [r [R1 R2]].
           ++ exact A5.
           ++ rewrite stop_dec_todo, S2. exact E.
           ++ symmetry. apply todo_dec_todo.
           ++ change (2 ^ 30) with 1073741824 in *. assert (LOOP_TO_PROCESS = 4) by reflexivity. lia.
           ++ rewrite Heqf1 in *. rewrite !Nat2Z.inj_succ in *. lia.
           ++ exists r. split; [exact R1|].
              destruct (run_level_go beh p f1 (processed + 1) (dec_todo p st2)) as [st' n].
              destruct (view r) as [[[cd' ce'] sv'] tv']. destruct R2 as [X1 [X2 X3]]. repeat split; auto. lia.
        -- eexists. split; [reflexivity|]. cbn [view]. rewrite todo_dec_todo, stop_dec_todo.
           repeat split; auto; [rewrite S2; exact E|lia].
      * eexists. split; [reflexivity|]. cbn [view]. rewrite todo_dec_todo, stop_dec_todo.
        repeat split; auto; [rewrite S2; exact E|lia].
Qed.

(* qb_loop_run_level(&l->level[p]) = LoopModel.run_level: same number of dispatches (the to_process quota, the
   empty list and a requested stop end the loop in the same iteration), same level->todo, same stop flag *)
Theorem src_run_level : forall st lvl ce cd sv prio_,
  agree (Datatypes.S (Z.to_nat LOOP_TO_PROCESS)) 0 st ce cd -> (sv =? 0) = negb (stop st) ->
  exists cd' ce' sv' tv',
    qb_loop_run_level (Datatypes.S (Z.to_nat LOOP_TO_PROCESS)) lvl cd ce hvS hvT sv prio_ LOOP_TO_PROCESS (todo (lv st p)) od oe
      = Some (cd', ce', sv', tv') /\
    let '(st', n) := run_level beh p st in
    tv' = todo (lv st' p) /\ (sv' =? 0) = negb (stop st') /\ cd' - cd = n.
Proof.
  intros st lvl ce cd sv prio_ A Hs. unfold qb_loop_run_level, run_level. change (s32 0) with 0.
  destruct (loop_eq (Z.to_nat LOOP_TO_PROCESS) 0 st ce cd 0 sv (todo (lv st p)) A Hs eq_refl) as [r [R1 R2]].
  - change (2 ^ 30) with 1073741824. lia.
  - rewrite Nat2Z.inj_succ, Z2Nat.id by (vm_compute; congruence). lia.
  - rewrite R1. destruct (run_level_go beh p (Datatypes.S (Z.to_nat LOOP_TO_PROCESS)) 0 st) as [st' n].
    destruct r as [[[[[[cd' ce'] j'] sv'] tv'] n']|[[[cd' ce'] sv'] tv']]; cbn [view] in R2;
      exists cd', ce', sv', tv'; (split; [reflexivity|]); destruct R2 as [X1 [X2 X3]]; repeat split; auto; lia.
Qed.
End RunLevel.
