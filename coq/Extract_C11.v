(* Extraction of the overwrite-ring / blackbox model for C11.  ExtrOcamlBasic only: bool/option/unit/list/prod/sumbool
   map to the OCaml types of the same shape; Z, positive, nat stay inductive; no Extract Constant. *)
From Coq Require Import ExtrOcamlBasic.
Require Import Verif.RbModel Verif.RbSpec Verif.RbOwSpec Verif.BbModel Verif.RbOwDumpModel Verif.RbOwSplitModel Verif.RbOwWaitModel.
Extraction "model_C11.ml" rb_open step run readback drain rfits bb_open bb_step bb_run bb_decode bb_encode
  bb_fallback_limit bb_fallback_limit_unfixed
  rb_of_file bb_default_maxline bb_dump_file_size bb_timespec_size readback_words rb_from_dump
  xstep xrun read_wait peek_wait.
