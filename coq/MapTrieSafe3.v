(* C18 trie part, safety (3): release, insert, deref keep the accounting invariant. *)
From Coq Require Import List ZArith Bool Arith Lia.
Import ListNotations.
Require Import Verif.gen.Consts_trie Verif.MapTrieModel Verif.MapTrieProofs Verif.MapTrieProofs2 Verif.MapTrieIter
               Verif.MapTrieIds Verif.MapTrieIter3 Verif.MapTrieIter4 Verif.MapTrieIter6 Verif.MapTrieSafe1 Verif.MapTrieSafe2.

(* a node other than the header has a non-zero id, so its accounting inequality is real *)
Lemma pa_real : forall r its next p tn, Saf r its next -> get_at r p = Some tn -> p <> [] ->
  pres (t_info tn) + parked its (n_id (t_info tn)) <= n_rc (t_info tn) /\ n_id (t_info tn) <> 0.
Proof.
  intros r its next p tn HS G Hp. pose proof (paths_of_all _ _ _ _ (sf_acc _ _ _ HS) G) as X.
  assert (N : n_id (t_info tn) <> 0).
  { intro Z. destruct (sf_ids _ _ _ HS) as [U [_ [H0 _]]].
    pose proof (find_unique _ _ _ U G) as F. rewrite Z, <- H0, find_root in F. inversion F. congruence. }
  destruct X as [X|X]; [contradiction|auto].
Qed.

Lemma keyed_of_rc : forall i s, wfi i s -> 1 <= n_rc i -> n_key i <> None.
Proof.
  intros i s [A [B _]] R K. pose proof (B K) as V. destruct (A V) as [_ [Z _]]. lia.
Qed.

Lemma saf_release : forall r its next p, Saf r its next -> Saf (release r p) its next.
Proof.
  intros r its next p HS. pose proof HS as HS0. destruct HS as [W S HV I A E P H].
  unfold release. pose proof (rel_ok p r true W) as R. pose proof (rel_info p r true) as RI.
  pose proof (ids_r_release r next p I) as IR. unfold release in IR.
  destruct (rel_t r p true) as [r'|] eqn:RE; [|exact HS0].
  destruct R as [R1 [R2 R3]]. constructor; auto; try congruence.
  - apply (proj1 all_of_paths). intros q tn' G'. destruct (rel_get _ _ _ _ _ _ RE G') as [tn [G T]].
    rewrite <- T. apply (paths_of_all _ _ _ _ A G).
  - intros id H1 H2. pose proof (E id H1 H2) as C. destruct (proj1 cnt_path r id C) as [q [tn [G Ei]]].
    assert (Hq : q <> []).
    { intro Z. subst q. simpl in G. inversion G; subst tn. destruct I as [_ [_ [H0 _]]]. congruence. }
    destruct (pa_real _ _ _ _ _ HS0 G Hq) as [X _]. rewrite Ei in X.
    pose proof (all_get_at _ _ _ _ W G) as Wi.
    assert (K : n_key (t_info tn) <> None) by (eapply keyed_of_rc; eauto; lia).
    pose proof (rel_survive p r true q tn G K) as SV. rewrite RE in SV. destruct SV as [tn' [G' T]].
    rewrite <- Ei, <- T. eapply cnt_get; eauto.
Qed.

Lemma saf_ins : forall fx r its next k r1 p nid, Saf r its next -> f_split fx = true -> k <> [] ->
  Forall (fun b => b <> 0) k -> ins_t fx r k true next = (r1, p, nid) -> Saf r1 its nid.
Proof.
  intros fx r its next k r1 p nid HS Hfx Hk Hnz I0. pose proof HS as HS0. destruct HS as [W S HV I A E P H].
  destruct (ins_ok fx _ _ (le_n _) _ _ _ _ _ _ W Hnz I0) as [O1 [L1 W1]].
  destruct (ins_cnt fx _ _ (le_n _) _ _ _ _ _ _ W I0) as [Lnid C].
  constructor; auto.
  - destruct r as [i0 s0 f0]. simpl in S. subst s0. eapply hdr_ins; eauto.
  - destruct r as [i0 s0 f0]. simpl in S. subst s0. rewrite (hdr_ins_info _ _ _ _ _ _ _ _ Hk I0). exact HV.
  - eapply ids_r_ins; eauto.
  - eapply (ins_all fx (PA its) Hfx _ r (le_n _)); [|exact A|exact I0].
    intros x Hx. right. simpl.
    destruct (Nat.eq_dec (parked its x) 0) as [e|e]; [lia|].
    destruct I as [_ [B [_ N1]]]. assert (x <> 0) by lia.
    pose proof (E x ltac:(lia) H0) as C1. rewrite (B x Hx) in C1. lia.
  - intros id H1 H2. rewrite C. pose proof (E id H1 H2). lia.
Qed.

(* one reference of a node other than the header is dropped; the caller shows there was one to spare *)
Lemma saf_deref : forall r its next p tn, Saf r its next -> p <> [] -> get_at r p = Some tn ->
  n_val (t_info tn) <> None -> pres (t_info tn) + parked its (n_id (t_info tn)) + 1 <= n_rc (t_info tn) ->
  Saf (fst (node_deref r p)) its next.
Proof.
  intros r its next p tn HS Hp G V Sl. destruct tn as [i sg fc]. simpl in *.
  pose proof (all_get_at _ _ _ _ (sf_wf _ _ _ HS) G) as Wi. simpl in Wi. destruct Wi as [Wa [Wb Wc]].
  unfold node_deref. rewrite G. unfold alive_i. destruct (n_val i) as [v|] eqn:Ev; [|congruence].
  replace (n_rc i =? 0) with false by (symmetry; apply Nat.eqb_neq; lia). simpl.
  assert (S1 : Saf (upd_t r p (fun i0 => set_rc (n_rc i0 - 1) i0)) its next).
  { apply saf_upd with (tn := TN i sg fc); auto.
    - unfold wfi, set_rc. simpl. rewrite Ev. repeat split; auto; congruence.
    - right. unfold pres, set_rc in *. simpl. rewrite Ev in *. lia. }
  destruct (0 <? n_rc i - 1) eqn:Z; simpl; [exact S1|].
  apply Nat.ltb_ge in Z. assert (Hrc : n_rc i = 1) by lia.
  unfold node_destroy. rewrite (get_at_upd _ _ _ _ _ _ G). cbn [set_rc n_val]. rewrite Ev. simpl.
  apply saf_release.
  apply saf_upd with (tn := TN (set_rc (n_rc i - 1) i) sg fc); auto.
  - exact (get_at_upd _ _ (fun i0 => set_rc (n_rc i0 - 1) i0) _ _ _ G).
  - unfold wfi, set_removed, set_kv, set_rc. simpl. repeat split; auto. lia.
  - right. unfold pres, set_removed, set_kv, set_rc. simpl. lia.
Qed.
