(* C07 property theorems: statements only, each closed by `exact`.
   Model: RbModel.v (transcription of lib/ringbuffer.c WITH fixes/C07-empty-ring-marker.patch and
   fixes/C11-overwrite-sem-stuck.patch).  Specification: RbSpec.v (FIFO queue + notification count).
   `Inv b s' = the ring state b represents the abstract state s (RbProofs.v: Repr + equal counts).
   Non-overwriting rings only (ovw = false); overwrite mode is C11. *)
From Coq Require Import ZArith List Bool.
Import ListNotations.
Require Import Verif.gen.Consts_rb Verif.RbModel Verif.RbSpec Verif.RbProofs Verif.RbRefine Verif.RbRefuted.
Local Open Scope Z_scope.

(* qb_rb_open: the data area is the requested size plus margin plus one, rounded up to the page size;
   the fresh ring represents the empty queue. *)
Theorem C07_open : forall S ns ow, 0 <= S -> S + RB_CHUNK_MARGIN + RB_SIZE_EXTRA + RB_PAGE_SIZE <= two32 ->
  Inv (rb_open S ns ow) (spec0 ns) /\ ovw (rb_open S ns ow) = ow /\
  4 * rW (rb_open S ns ow) = roundup (S + RB_CHUNK_MARGIN + RB_SIZE_EXTRA) RB_PAGE_SIZE.
Proof. exact open_inv. Qed.
Print Assumptions C07_open.

(* Capacity contract: no refusal while the unread chunks plus the new reservation, each counted with
   16 bytes of overhead, fit in the requested size S; the chunk becomes the newest of the queue. *)
Theorem C07_must_accept : forall S b s rlen d, Inv b s -> ovw b = false ->
  S + RB_CHUNK_MARGIN + RB_SIZE_EXTRA <= 4 * rW b -> zlen d <= rlen ->
  cost (sq s) + rlen + 16 <= S ->
  exists b', alloc_commit b rlen d = WRet b' 0 /\
             Inv b' {| sq := sq s ++ [d]; stok := tok_add s 1 |} /\ rW b' = rW b /\ ovw b' = false.
Proof. exact must_accept. Qed.
Print Assumptions C07_must_accept.

(* ... and qb_rb_chunk_write in particular; an empty ring takes any single chunk of up to S bytes. *)
Theorem C07_write_accepts_and_single_max : forall S b s d, Inv b s -> ovw b = false ->
  S + RB_CHUNK_MARGIN + RB_SIZE_EXTRA <= 4 * rW b ->
  cost (sq s) + zlen d + 16 <= S \/ (sq s = [] /\ zlen d <= S) ->
  exists b', write b d = WRet b' (zlen d) /\ Inv b' {| sq := sq s ++ [d]; stok := tok_add s 1 |}.
Proof. exact write_accepts. Qed.
Print Assumptions C07_write_accepts_and_single_max.

(* A refused write reports EAGAIN and leaves the whole state (pointers, data, count) untouched. *)
Theorem C07_refuse_pure : forall b d b' r, ovw b = false -> write b d = WRet b' r -> r < 0 ->
  b' = b /\ r = - RB_EAGAIN.
Proof. exact refuse_pure. Qed.
Print Assumptions C07_refuse_pure.

(* A read with a notification pending returns exactly the oldest unread chunk, or -ENOBUFS (and the
   queue stays as it was) when the caller's buffer is too small. *)
Theorem C07_read_head : forall b s n c t, Inv b s -> sq s = c :: t -> has_token s = true ->
  exists b', read b n = (b', if n <? zlen c then - RB_ENOBUFS else zlen c, if n <? zlen c then [] else c) /\
             Inv b' (if n <? zlen c then s else {| sq := t; stok := tok_add s (-1) |}).
Proof. exact read_delivers_head. Qed.
Print Assumptions C07_read_head.

(* Any read that reports an error (too-small buffer, empty ring, no notification) delivers nothing and
   leaves pointers, data and the represented queue unchanged. *)
Theorem C07_read_error_pure : forall b s n b' r bytes, Inv b s -> read b n = (b', r, bytes) -> r < 0 ->
  wpt b' = wpt b /\ rpt b' = rpt b /\ data b' = data b /\ bytes = [] /\ Inv b' s.
Proof. exact read_error_pure. Qed.
Print Assumptions C07_read_error_pure.

(* A read on an empty ring fails, whatever stale bytes the data area holds. *)
Theorem C07_read_empty : forall b s n, Inv b s -> sq s = [] ->
  exists b' r, read b n = (b', r, []) /\ r < 0 /\ Inv b' s.
Proof. exact read_empty_fails. Qed.
Print Assumptions C07_read_empty.

(* Loss-free FIFO for EVERY operation list over write / alloc+commit / read / peek / reclaim / query /
   dump, every requested size, both notifier modes, every payload: the return values and delivered
   bytes of the ring are exactly those of the FIFO specification, and the invariant is preserved. *)
Theorem C07_refines_fifo : forall ops b s, Inv b s -> ovw b = false -> Forall wf_op ops ->
  forall b' xs s' ys, run b ops = (b', xs) -> spec_run (rW b) s ops = (s', ys) ->
  Inv b' s' /\ map obs_of xs = ys /\ rW b' = rW b /\ ovw b' = false.
Proof. exact run_refines. Qed.
Print Assumptions C07_refines_fifo.

Theorem C07_refines_fifo_from_open : forall S ns ops, 0 <= S ->
  S + RB_CHUNK_MARGIN + RB_SIZE_EXTRA + RB_PAGE_SIZE <= two32 -> Forall wf_op ops ->
  forall b' xs s' ys, run (rb_open S ns false) ops = (b', xs) ->
                      spec_run (rW (rb_open S ns false)) (spec0 ns) ops = (s', ys) ->
  Inv b' s' /\ map obs_of xs = ys.
Proof. exact open_run_refines. Qed.
Print Assumptions C07_refines_fifo_from_open.

(* Non-vacuity: a reachable state with a wrapped queue of two chunks, one notification consumed by a peek. *)
Example C07_example_wrapped_state :
  exists b xs s ys, run (rb_open 100 false false) ex_ops = (b, xs) /\
                    spec_run (rW (rb_open 100 false false)) (spec0 false) ex_ops = (s, ys) /\
                    Inv b s /\ wpt b < rpt b /\ length (sq s) = 2%nat /\ stok s = Some 1 /\
                    nth 4 ys None = Some (2001, repeat 9 2001).
Proof. exact example_wrap. Qed.

(* The unrepaired code violates the property (witnesses computed on the transcription of the unrepaired
   functions; the same scripts fail on the unrepaired library): *)
(* an empty NO_SEMAPHORE ring returns an 8-byte chunk that nobody wrote *)
Theorem C07_unrepaired_phantom_chunk_refuted :
  phantom_demo = Some (3000, 1096, 8, [8; 0; 0; 0; 161; 161; 161; 161]).
Proof. exact phantom_chunk_unfixed. Qed.
(* after "write; reclaim" an empty semaphore ring refuses a 4-byte chunk *)
Theorem C07_unrepaired_empty_ring_refuses_refuted : stuck_demo = Some (4, - RB_EAGAIN).
Proof. exact empty_ring_refuses_unfixed. Qed.
(* the repaired transcription on the first script: the third read fails *)
Theorem C07_repaired_no_phantom_chunk : phantom_demo_fixed = Some (3000, 1096, - RB_ETIMEDOUT).
Proof. exact phantom_chunk_fixed. Qed.
