(* placeholder while the pipeline is brought up; replaced by the real statements *)
From Coq Require Import ZArith List.
Require Import Verif.RbModel.
Local Open Scope Z_scope.
Example C07_pipeline_smoke : fst (run (rb_open 100 true false) nil) = rb_open 100 true false.
Proof. reflexivity. Qed.
