(* C09: invariants of the loop-level model (LoopTimerModel.v, repaired code) that hold for EVERY history -
   whatever handles are passed, whatever the callbacks do, whatever the (monotone) clock does:
   a timer callback never runs before its duration has elapsed, and every timeout decision of qb_loop_run
   taken while a timer is in the heap is non-negative and sound with respect to the root of the heap. *)
From Coq Require Import ZArith List Bool Lia.
Import ListNotations.
Require Import Verif.gen.Consts_looptimer Verif.HeapModel Verif.HeapProofs Verif.HeapSubset Verif.LoopTimerModel
               Verif.LoopTimerArith.
Local Open Scope Z_scope.

(* ghost data carried by a heap object: created at clock t_add with duration t_dur *)
Definition tm_ok (tm : tmr) : Prop :=
  t_exp tm = expire_of fixed (t_add tm) (t_dur tm) /\ u64 (t_add tm) /\ u64 (t_dur tm) /\ 0 < t_add tm.

Definition ev_ok (e : ev) : Prop :=
  match e with
  | EFire _ _ a d f n => a + d < f /\ f <= n
  | EDecide t n root tick j =>
      0 <= root ->
      0 <= t <= LT_INT32_MAX /\
      (t = 0 \/ (t = 50 /\ j > 0) \/ n + t * LT_NS_IN_MSEC <= Z.max n root + tick * LT_NS_IN_MSEC)
  | _ => True
  end.

Definition jok (c : Z) (s : slot) : Prop := g_add s + g_dur s < g_fire s /\ g_fire s <= c.

Record W (st : lp) : Prop := mkW {
  w_heap : forall tm, In tm (ents (heap st)) -> tm_ok tm;
  w_job : forall i s, nth_slot st i = Some s -> s_state s = LT_ENTRY_JOBLIST -> jok (clk st) s;
  w_clk : 0 < clk st <= LT_UINT64_MAX;
  w_hz : 0 < hz st;
  w_ev : forall e, In e (out st) -> ev_ok e }.

Lemma W_frame : forall st st',
  W st -> heap st' = heap st -> slots st' = slots st -> clk st <= clk st' <= LT_UINT64_MAX -> hz st' = hz st ->
  (forall e, In e (out st') -> In e (out st) \/ ev_ok e) -> W st'.
Proof.
  intros st st' [H J C Z E] Eh Es Ec Ez Ee. constructor.
  - rewrite Eh. assumption.
  - intros i s Hs Hj. unfold nth_slot in Hs. rewrite Es in Hs. destruct (J i s Hs Hj). split; lia.
  - lia.
  - rewrite Ez. assumption.
  - intros e He. destruct (Ee e He); auto.
Qed.

Ltac fields := cbn [heap next_tid slots lv0 lv1 lv2 hz clk cstep stop issued out err].

Lemma set_lv_fields : forall st p l,
  heap (set_lv st p l) = heap st /\ slots (set_lv st p l) = slots st /\ clk (set_lv st p l) = clk st /\
  hz (set_lv st p l) = hz st /\ out (set_lv st p l) = out st /\ cstep (set_lv st p l) = cstep st.
Proof. intros. unfold set_lv. destruct (p =? LT_LOOP_LOW); [|destruct (p =? LT_LOOP_MED)]; fields; auto 10. Qed.

Lemma W_set_lv : forall st p l, W st -> W (set_lv st p l).
Proof.
  intros st p l H. destruct (set_lv_fields st p l) as [A [B [C [D [E _]]]]].
  apply (W_frame st); auto; [rewrite C; destruct (w_clk st H); lia|rewrite E; auto].
Qed.

Lemma sat64_range : forall x, 0 <= x -> sat64 x <= LT_UINT64_MAX /\ (x <= LT_UINT64_MAX -> sat64 x = x) /\ Z.min x LT_UINT64_MAX = sat64 x.
Proof.
  intros x H. unfold sat64. destruct (x >? LT_UINT64_MAX) eqn:E; [apply Z.gtb_lt in E|rewrite Z.gtb_ltb in E; apply Z.ltb_ge in E]; lia.
Qed.

Lemma W_advance : forall st n, W st -> W (advance st n) /\ clk st <= clk (advance st n).
Proof.
  intros st n H. destruct (w_clk st H) as [C1 C2].
  destruct (sat64_range (clk st + Z.max 0 n) ltac:(lia)) as [S1 [_ S3]].
  assert (clk st <= sat64 (clk st + Z.max 0 n)) by (rewrite <- S3; lia).
  split; [|unfold advance, set_clk; fields; assumption].
  apply (W_frame st); unfold advance, set_clk; fields; auto. 
Qed.

Lemma W_emit : forall st e, W st -> ev_ok e -> W (emit st e).
Proof.
  intros st e H He. apply (W_frame st); unfold emit; fields; auto; [destruct (w_clk st H); lia|].
  intros x [<-|Hx]; auto.
Qed.

Lemma W_set_err : forall st, W st -> W (set_err st).
Proof.
  intros st H. apply (W_frame st); unfold set_err; fields; auto; [destruct (w_clk st H); lia|].
  intros x [<-|Hx]; [right; exact I|auto].
Qed.

Lemma W_set_stop : forall st b, W st -> W (set_stop st b).
Proof. intros st b H. apply (W_frame st); unfold set_stop; fields; auto. destruct (w_clk st H); lia. Qed.

Lemma W_push_issued : forall st h, W st -> W (push_issued st h).
Proof. intros st h H. apply (W_frame st); unfold push_issued; fields; auto. destruct (w_clk st H); lia. Qed.

Lemma W_bump : forall st, W st -> W (bump_tid st).
Proof. intros st H. apply (W_frame st); unfold bump_tid; fields; auto. destruct (w_clk st H); lia. Qed.

Lemma W_read_clock : forall st, W st ->
  W (snd (read_clock st)) /\ fst (read_clock st) = clk st /\ clk st <= clk (snd (read_clock st)) /\
  heap (snd (read_clock st)) = heap st /\ hz (snd (read_clock st)) = hz st.
Proof.
  intros st H. unfold read_clock. cbn [fst snd]. destruct (W_advance st (cstep st) H).
  split; [assumption|]. split; [reflexivity|]. split; [assumption|]. split; reflexivity.
Qed.

(* slots after a write *)
Lemma nth_slot_in : forall st i s, nth_slot st i = Some s -> In s (slots st).
Proof.
  intros st i s. unfold nth_slot. destruct ((i <? 0) || (i >=? Z.of_nat (length (slots st)))); [discriminate|].
  apply nth_error_In.
Qed.

Lemma W_slots : forall st st',
  W st -> heap st' = heap st -> clk st' = clk st -> hz st' = hz st -> out st' = out st ->
  (forall s, In s (slots st') -> In s (slots st) \/ s_state s <> LT_ENTRY_JOBLIST \/ jok (clk st) s) -> W st'.
Proof.
  intros st st' [H J C Z E] Eh Ec Ez Eo Es. constructor.
  - rewrite Eh. assumption.
  - intros i s Hs Hj. rewrite Ec. apply nth_slot_in in Hs. destruct (Es s Hs) as [X|[X|X]]; [|contradiction|assumption].
    apply In_nth_error in X. destruct X as [n X].
    apply (J (Z.of_nat n) s); [|assumption]. unfold nth_slot.
    assert (n < length (slots st))%nat by (apply nth_error_Some; congruence).
    replace (Z.of_nat n <? 0) with false by (symmetry; apply Z.ltb_ge; lia).
    replace (Z.of_nat n >=? Z.of_nat (length (slots st))) with false by (symmetry; rewrite Z.geb_leb; apply Z.leb_gt; lia).
    rewrite Nat2Z.id. assumption.
  - rewrite Ec. assumption.
  - rewrite Ez. assumption.
  - rewrite Eo. assumption.
Qed.

Lemma W_put_slot : forall st i s, W st -> (s_state s <> LT_ENTRY_JOBLIST \/ jok (clk st) s) -> W (put_slot st i s).
Proof.
  intros st i s H Hs. apply (W_slots st); unfold put_slot, set_slots; fields; auto.
  intros x Hx. apply in_upd in Hx. destruct Hx as [Hx| ->]; [left; assumption|right; assumption].
Qed.

Lemma W_set_heap : forall st h, W st -> (forall tm, In tm (ents h) -> tm_ok tm) -> W (set_heap st h).
Proof.
  intros st h [H J C Z E] Hh. constructor; unfold set_heap; fields; auto.
Qed.

Lemma consts_neq : LT_ENTRY_ACTIVE <> LT_ENTRY_JOBLIST /\ LT_ENTRY_EMPTY <> LT_ENTRY_JOBLIST.
Proof. vm_compute. split; congruence. Qed.

(* ---------------------------------------------------------------- API calls *)
Lemma W_timer_add : forall st p dur data chk, W st -> u64 dur -> W (timer_add fixed st p dur data chk).
Proof.
  intros st p dur data chk H Hd. unfold timer_add.
  set (i := first_empty (slots st) 0).
  set (st1 := if i >=? Z.of_nat (length (slots st)) then set_slots st (slots st ++ [zero_slot]) else st).
  assert (H1 : W st1).
  { unfold st1. destruct (i >=? Z.of_nat (length (slots st))); [|assumption].
    apply (W_slots st); unfold set_slots; fields; auto.
    intros s Hs. apply in_app_or in Hs. destruct Hs as [Hs|[<-|[]]]; [left; assumption|].
    right. left. vm_compute. congruence. }
  destruct (W_read_clock st1 H1) as [H2 [Ec [Em [Eh Ez]]]].
  destruct (read_clock st1) as [now st2] eqn:R. cbn [fst snd] in *. subst now.
  assert (H3 : W (bump_tid st2)) by (apply W_bump; assumption).
  set (timer := mkT (expire_of fixed (clk st1) dur) (next_tid st2) i (clk st1) dur).
  destruct (heap_add (heap (bump_tid st2)) timer) as [hp|] eqn:A; [|apply W_set_err; assumption].
  apply W_emit; [|exact I]. apply W_push_issued. apply W_put_slot.
  - apply W_set_heap; [assumption|]. intros tm Htm.
    destruct (heap_add_in _ _ _ A tm Htm) as [X| ->]; [apply (w_heap _ H3); assumption|].
    unfold tm_ok, timer. cbn [t_exp t_add t_dur]. split; [reflexivity|].
    destruct (w_clk st1 H1). split; [unfold u64; lia|]. split; [assumption|lia].
  - left. cbn [s_state]. apply (proj1 consts_neq).
Qed.

Lemma W_level_item_del : forall st p it, W st -> W (level_item_del st p it).
Proof. intros. unfold level_item_del. destruct (existsb _ _); [apply W_set_lv|]; assumption. Qed.

Lemma W_level_item_add : forall st p it, W st -> W (level_item_add st p it).
Proof. intros. unfold level_item_add. apply W_set_lv. assumption. Qed.

Lemma W_timer_del : forall fx st h, W st -> W (timer_del fx st h).
Proof.
  intros fx st h H. unfold timer_del. destruct (timer_from_handle fx st h) as [e|i t]; [apply W_emit; [assumption|exact I]|].
  set (st0 := if s_check t =? 0 then emit st (ENote 2) else st).
  assert (H0 : W st0) by (unfold st0; destruct (s_check t =? 0); [apply W_emit; [assumption|exact I]|assumption]).
  destruct (s_state t =? LT_ENTRY_DELETED); [apply W_emit; [assumption|exact I]|].
  destruct (negb (s_state t =? LT_ENTRY_ACTIVE) && negb (s_state t =? LT_ENTRY_JOBLIST)); [apply W_emit; [assumption|exact I]|].
  set (st1 := if s_state t =? LT_ENTRY_JOBLIST then level_item_del st0 (s_prio t) (ITimer i) else st0).
  assert (H1 : W st1) by (unfold st1; destruct (s_state t =? LT_ENTRY_JOBLIST); [apply W_level_item_del|]; assumption).
  destruct (s_th t) as [tm|].
  - destruct (heap_delete (heap st1) tm) as [hp|] eqn:D; [|apply W_set_err; assumption].
    apply W_emit; [|exact I]. apply W_put_slot.
    + apply W_set_heap; [assumption|]. intros x Hx. apply (w_heap _ H1). eapply heap_delete_in; eauto.
    + left. cbn [with_state s_state]. apply (proj2 consts_neq).
  - apply W_emit; [|exact I]. apply W_put_slot; [assumption|]. left. cbn [with_state s_state]. apply (proj2 consts_neq).
Qed.

Lemma W_time_remaining : forall fx st h, W st -> W (snd (time_remaining fx st h)).
Proof.
  intros fx st h H. unfold time_remaining. destruct (timer_from_handle fx st h) as [e|i t]; [assumption|].
  destruct (negb (s_state t =? LT_ENTRY_ACTIVE)); [assumption|].
  destruct (W_read_clock st H) as [H2 _]. destruct (read_clock st) as [now st2]. cbn [snd] in H2.
  destruct (_ <? now); assumption.
Qed.

Lemma W_tl_msec : forall st, W st -> W (snd (tl_msec_to_expire st)) /\ hz (snd (tl_msec_to_expire st)) = hz st.
Proof.
  intros st H. unfold tl_msec_to_expire. destruct (size (heap st) =? 0); [split; [assumption|reflexivity]|].
  destruct (entry_get (heap st) 0); [|split; [apply W_set_err; assumption|reflexivity]].
  destruct (W_read_clock st H) as [H2 [_ [_ [_ Ez]]]]. destruct (read_clock st) as [now st2]. cbn [snd] in *.
  destruct (_ <? now); split; assumption.
Qed.

Lemma W_msec : forall st, W st -> W (snd (msec_to_expire fixed st)) /\ hz (snd (msec_to_expire fixed st)) = hz st.
Proof.
  intros st H. unfold msec_to_expire. destruct (W_tl_msec st H) as [A B]. destruct (tl_msec_to_expire st).
  cbn [snd] in *. split; assumption.
Qed.

Lemma W_job_add : forall st p data, W st -> W (job_add st p data).
Proof.
  intros. unfold job_add. destruct (_ || _); (apply W_emit; [|exact I]); [assumption|apply W_set_lv; assumption].
Qed.

Definition wf_cbop (c : cbop) : Prop := match c with CAdd _ dur _ _ => u64 dur | _ => True end.
Definition wf_beh (b : behaviour) : Prop := forall d l, In (d, l) b -> Forall wf_cbop l.
Definition wf_op (o : op) : Prop := match o with Cb c => wf_cbop c | Run _ => True end.

Lemma W_exec_cbop : forall st c, W st -> wf_cbop c -> W (exec_cbop fixed st c).
Proof.
  intros st c H Hc. unfold exec_cbop. destruct (err st); [assumption|]. destruct c.
  - apply W_timer_add; assumption.
  - apply W_timer_del; assumption.
  - apply W_emit; [assumption|exact I].
  - pose proof (W_time_remaining fixed st (resolve st r) H). destruct (time_remaining fixed st (resolve st r)). apply W_emit; [assumption|exact I].
  - apply W_emit; [assumption|exact I].
  - destruct (W_msec st H) as [X _]. destruct (msec_to_expire fixed st). apply W_emit; [assumption|exact I].
  - apply W_job_add; assumption.
  - apply W_set_stop; assumption.
  - apply W_advance; assumption.
Qed.

Lemma W_exec_cbops : forall l st, W st -> Forall wf_cbop l -> W (fold_left (exec_cbop fixed) l st).
Proof.
  induction l; intros st H F; simpl; [assumption|]. inversion F; subst. apply IHl; [apply W_exec_cbop|]; assumption.
Qed.

Lemma wf_beh_of : forall b d, wf_beh b -> Forall wf_cbop (beh_of b d).
Proof.
  induction b as [|[d0 l0] b]; intros d H; simpl; [constructor|].
  destruct (d0 =? d); [apply (H d0 l0); left; reflexivity|]. apply IHb. intros d1 l1 X. apply (H d1 l1). right. assumption.
Qed.

(* ---------------------------------------------------------------- expiry: timers become jobs *)
Lemma W_make_job : forall now st tm, W st -> tm_ok tm -> t_exp tm < now -> now <= clk st ->
  W (make_job_from_tmo now st tm).
Proof.
  intros now st tm H [T1 [T2 [T3 _]]] Lt Le. unfold make_job_from_tmo.
  destruct (nth_slot st (t_data tm)) as [t|]; [|apply W_set_err; assumption].
  destruct (negb (s_state t =? LT_ENTRY_ACTIVE)); [apply W_set_err; assumption|].
  pose proof (W_level_item_add st (s_prio t) (ITimer (t_data tm)) H) as H1.
  assert (Ec : clk (level_item_add st (s_prio t) (ITimer (t_data tm))) = clk st)
    by (unfold level_item_add; apply (set_lv_fields st)).
  apply W_put_slot; [assumption|]. right. unfold jok. cbn [g_add g_dur g_fire]. rewrite Ec.
  split; [|assumption]. destruct (w_clk st H).
  destruct (expire_of_fixed _ _ T2 T3) as [_ U]. rewrite <- T1 in U.
  apply (expire_of_fixed_never_early (t_add tm) (t_dur tm) now); auto; [unfold u64 in *; lia|rewrite <- T1; assumption].
Qed.

Lemma clk_make_job : forall now st tm, clk (make_job_from_tmo now st tm) = clk st.
Proof.
  intros. unfold make_job_from_tmo. destruct (nth_slot st (t_data tm)); [|reflexivity].
  destruct (negb _); [reflexivity|]. unfold put_slot, set_slots. fields. unfold level_item_add. apply (set_lv_fields st).
Qed.

Lemma W_make_jobs : forall now l st, W st -> (forall tm, In tm l -> tm_ok tm /\ t_exp tm < now) -> now <= clk st ->
  W (fold_left (make_job_from_tmo now) l st).
Proof.
  induction l; intros st H Hl Le; simpl; [assumption|]. apply IHl.
  - destruct (Hl a (or_introl eq_refl)). apply W_make_job; assumption.
  - intros tm Htm. apply Hl. right. assumption.
  - rewrite clk_make_job. assumption.
Qed.

Lemma W_expire_timers : forall st, W st -> W (snd (expire_timers st)).
Proof.
  intros st H. unfold expire_timers. destruct (W_read_clock st H) as [H2 [Ec [Em [Eh _]]]].
  destruct (read_clock st) as [now st2]. cbn [fst snd] in *. subst now.
  destruct (heap_expire (heap st2) (clk st)) as [[hp popped]|] eqn:X; cbn [snd]; [|apply W_set_err; assumption].
  destruct (heap_expire_in _ _ _ _ X) as [I1 I2].
  apply W_make_jobs.
  - apply W_set_heap; [assumption|]. intros tm Htm. apply (w_heap _ H2). apply I1. assumption.
  - intros tm Htm. destruct (I2 tm Htm). split; [apply (w_heap _ H2)|]; assumption.
  - unfold set_heap. fields. assumption.
Qed.

Lemma W_get_more_jobs : forall st, W st -> W (snd (get_more_jobs st)).
Proof.
  intros st H. unfold get_more_jobs.
  assert (G : forall l acc, W (snd acc) -> W (snd (fold_left more_jobs_level l acc))).
  { induction l; intros acc Ha; simpl; [assumption|]. apply IHl. unfold more_jobs_level. destruct acc as [n s]. cbn [snd] in *.
    destruct (wait_head (get_lv s a)); [assumption|]. cbn [snd]. apply W_set_lv. assumption. }
  apply G. assumption.
Qed.

(* ---------------------------------------------------------------- dispatch *)
Lemma W_dispatch : forall beh st it, W st -> wf_beh beh -> W (dispatch fixed beh st it).
Proof.
  intros beh st it H Hb. unfold dispatch. destruct it as [i|data].
  - destruct (nth_slot st i) as [t|] eqn:N; [|apply W_set_err; assumption].
    destruct (negb (s_state t =? LT_ENTRY_JOBLIST)) eqn:J; [apply W_set_err; assumption|].
    apply negb_false_iff, Z.eqb_eq in J.
    destruct (w_job st H i t N J) as [J1 J2].
    set (st1 := put_slot st i (with_check t 0)).
    assert (H1 : W st1) by (apply W_put_slot; [assumption|]; right; split; assumption).
    assert (Ec : clk st1 = clk st) by reflexivity.
    set (st2 := emit st1 (EFire (s_data t) (s_prio t) (g_add t) (g_dur t) (g_fire t) (clk st1))).
    assert (H2 : W st2) by (apply W_emit; [assumption|]; cbn [ev_ok]; rewrite Ec; split; assumption).
    set (st3 := emit st2 (ECb 0 (s_data t) (clk st2))).
    assert (H3 : W st3) by (apply W_emit; [assumption|exact I]).
    pose proof (W_exec_cbops (beh_of beh (s_data t)) st3 H3 (wf_beh_of beh _ Hb)) as H4.
    match goal with |- W (match ?x with _ => _ end) => destruct x as [t'|] end; [|apply W_set_err; assumption].
    apply W_put_slot; [assumption|]. left. cbn [with_state s_state]. apply (proj2 consts_neq).
  - apply W_exec_cbops; [|apply wf_beh_of; assumption]. apply W_emit; [assumption|exact I].
Qed.

Lemma W_run_level : forall beh n st p, W st -> wf_beh beh -> W (run_level fixed beh n st p).
Proof.
  induction n; intros st p H Hb; cbn [run_level].
  - destruct (err st); [assumption|]. destruct (job_head (get_lv st p)); [assumption|].
    match goal with |- W (if stop ?s then _ else _) => assert (W s) as X end.
    { apply W_set_lv. apply W_dispatch; [apply W_set_lv|]; assumption. }
    destruct (stop _); assumption.
  - destruct (err st); [assumption|]. destruct (job_head (get_lv st p)); [assumption|].
    match goal with |- W (if stop ?s then _ else _) => assert (W s) as X end.
    { apply W_set_lv. apply W_dispatch; [apply W_set_lv|]; assumption. }
    destruct (stop _); [assumption|]. destruct n; [assumption|]. apply IHn; assumption.
Qed.

Lemma W_run_levels : forall beh ps st p_stop rem, W st -> wf_beh beh ->
  W (fst (fst (run_levels fixed beh ps st p_stop rem))).
Proof.
  induction ps; intros st p_stop rem H Hb; cbn [run_levels]; [assumption|].
  destruct (a >=? p_stop).
  - pose proof (W_run_level beh (Z.to_nat LT_TO_PROCESS) st a H Hb) as X.
    destruct (stop _); [assumption|]. apply IHps; assumption.
  - apply IHps; assumption.
Qed.

Lemma W_choose : forall st rem tt jt, W st ->
  W (snd (choose_timeout fixed st rem tt jt)) /\ hz (snd (choose_timeout fixed st rem tt jt)) = hz st.
Proof.
  intros. unfold choose_timeout. destruct (_ || _); [split; [assumption|reflexivity]|].
  destruct (jt >? 0); [split; [assumption|reflexivity]|]. apply W_msec. assumption.
Qed.

Lemma decide_ok : forall st rem tt jt, W st ->
  ev_ok (EDecide (fst (choose_timeout fixed st rem tt jt)) (clk st)
                 (match entry_get (heap st) 0 with Some r => t_exp r | None => -1 end)
                 (1000 / hz st) jt).
Proof.
  intros st rem tt jt H. cbn [ev_ok]. destruct (entry_get (heap st) 0) as [r|] eqn:G; [|intros; lia].
  intros _. pose proof (entry_get_in _ _ _ G) as Hin. destruct (w_heap st H r Hin) as [T1 [T2 [T3 _]]].
  destruct (expire_of_fixed _ _ T2 T3) as [_ U]. rewrite <- T1 in U.
  destruct (w_clk st H). 
  destruct (choose_timeout_sound st r rem tt jt (proj1 (entry_get_at _ _ _) G) ltac:(unfold u64; lia) U (w_hz st H)) as [A [B _]].
  split; [exact A|exact B].
Qed.

Lemma W_run_turns : forall beh dirs st p_stop rem, W st -> wf_beh beh -> W (run_turns fixed beh dirs st p_stop rem).
Proof.
  induction dirs; intros st p_stop rem H Hb; cbn [run_turns]; [assumption|].
  destruct (err st); [assumption|].
  pose proof (W_get_more_jobs st H) as H1. destruct (get_more_jobs st) as [jt st1]. cbn [snd] in H1.
  pose proof (W_expire_timers st1 H1) as H2. destruct (expire_timers st1) as [tt st2]. cbn [snd] in H2.
  pose proof (decide_ok st2 rem tt jt H2) as D.
  destruct (W_choose st2 rem tt jt H2) as [H3 Ez].
  destruct (choose_timeout fixed st2 rem tt jt) as [ms st3]. cbn [fst snd] in *.
  rewrite <- Ez in D.
  match goal with |- context [run_levels _ _ _ ?s _ _] => assert (W s) as H4 end.
  { destruct dirs; [apply W_set_stop|]; apply W_advance; (apply W_emit; [apply W_emit; assumption|exact I]). }
  match goal with |- context [run_levels ?f ?b ?ps ?s ?q ?r] =>
    pose proof (W_run_levels b ps s q r H4 Hb) as H5; destruct (run_levels f b ps s q r) as [[st5 rem5] ret5] end.
  cbn [fst] in H5. destruct ret5; [assumption|]. destruct (stop st5); [assumption|]. apply IHdirs; assumption.
Qed.

Lemma W_step : forall beh st o, W st -> wf_beh beh -> wf_op o -> W (step fixed beh st o).
Proof.
  intros beh st o H Hb Ho. unfold step. destruct (err st); [assumption|]. destruct o.
  - apply W_exec_cbop; assumption.
  - unfold loop_run. destruct dirs; [assumption|]. apply W_run_turns; [apply W_set_stop|]; assumption.
Qed.

Lemma W_run : forall beh ops st, W st -> wf_beh beh -> Forall wf_op ops -> W (run fixed beh st ops).
Proof.
  intros beh ops. unfold run. induction ops; intros st H Hb F; simpl; [assumption|].
  inversion F; subst. apply IHops; [apply W_step|assumption|]; assumption.
Qed.

Lemma W_init : forall hz0 clk0 cstep0, 0 < hz0 -> 0 < clk0 <= LT_UINT64_MAX -> W (lp_init hz0 clk0 cstep0).
Proof.
  intros. constructor; unfold lp_init; fields; auto.
  - intros tm [].
  - intros i s X. unfold nth_slot in X. fields. simpl in X. destruct (_ || _) in X; [discriminate|]. destruct (Z.to_nat i); discriminate.
  - intros e [].
Qed.

(* ---------------------------------------------------------------- the two end-to-end statements *)
(* every timer callback in every history runs after the full duration has elapsed on the (64-bit, monotone)
   clock: add-time + duration < clock at expiry <= clock when the callback runs *)
Theorem never_early_all_histories : forall beh ops hz0 clk0 cstep0 data prio add dur fire now,
  0 < hz0 -> 0 < clk0 <= LT_UINT64_MAX -> wf_beh beh -> Forall wf_op ops ->
  In (EFire data prio add dur fire now) (out (run fixed beh (lp_init hz0 clk0 cstep0) ops)) ->
  add + dur < fire /\ fire <= now.
Proof.
  intros beh ops hz0 clk0 cstep0 data prio add dur fire now Hz Hc Hb Ho Hin.
  pose proof (W_run beh ops _ (W_init hz0 clk0 cstep0 Hz Hc) Hb Ho) as H.
  exact (w_ev _ H _ Hin).
Qed.

(* every timeout decision of every turn of every history, taken with a timer at the root of the heap:
   non-negative, at most INT32_MAX, and 0, or 50 with jobs just queued, or ending no later than the root's
   expiry plus one tick *)
Theorem timeout_sound_all_histories : forall beh ops hz0 clk0 cstep0 t n root tick j,
  0 < hz0 -> 0 < clk0 <= LT_UINT64_MAX -> wf_beh beh -> Forall wf_op ops ->
  In (EDecide t n root tick j) (out (run fixed beh (lp_init hz0 clk0 cstep0) ops)) -> 0 <= root ->
  0 <= t <= LT_INT32_MAX /\
  (t = 0 \/ (t = 50 /\ j > 0) \/ n + t * LT_NS_IN_MSEC <= Z.max n root + tick * LT_NS_IN_MSEC).
Proof.
  intros beh ops hz0 clk0 cstep0 t n root tick j Hz Hc Hb Ho Hin Hr.
  pose proof (W_run beh ops _ (W_init hz0 clk0 cstep0 Hz Hc) Hb Ho) as H.
  exact (w_ev _ H _ Hin Hr).
Qed.
