(* The IPC data-path model (IpcDataModel.v) against the Gallina text that tools/c2coq.py regenerates from
   lib/ipcs.c on every run (gen/Src_ipcs.v): _process_request_, _request_q_len_get and the size checks of the four
   server-side send calls.  A change to one of these C functions changes Src_ipcs.v and these proofs are re-checked
   against what the code says now.

   What the translation gives (see the comments in gen/Src_ipcs.v): the transport functions (funcs.peek / recv /
   reclaim / send / sendv), the application's msg_process and the notification helpers are ORACLE streams (any
   result); `hdr' is taken to denote one object for the whole call (object_locals: the chunk peeked in the ring, or
   the connection's receive buffer); the arguments of msg_process are recorded, so the theorems can say what the
   callback was told.  Everything below holds for every oracle. *)
From Coq Require Import ZArith List Bool Lia.
Import ListNotations.
Require Import Verif.gen.Consts_ipcdata Verif.gen.Src_ipcs Verif.C2CoqPrelude Verif.IpcDataModel.
Local Open Scope Z_scope.
Ltac Zify.zify_post_hook ::= Z.div_mod_to_equations.

Ltac unwrap := unfold u8, s8, u16, s16, u32, s32, u64, s64, uwrap, swrap in *;
  change (2 ^ 32) with 4294967296 in *; change (2 ^ 64) with 18446744073709551616 in *;
  change (2 ^ 31) with 2147483648 in *; change (2 ^ 63) with 9223372036854775808 in *;
  change (2 ^ (32 - 1)) with 2147483648 in *; change (2 ^ (64 - 1)) with 9223372036854775808 in *.

Lemma s64_id x : - 2 ^ 63 <= x < 2 ^ 63 -> s64 x = x.
Proof. apply s64_small. Qed.
Lemma s32_lit_s64 x : - 2 ^ 31 <= x < 2 ^ 31 -> s64 (s32 x) = x.
Proof. intros. rewrite s32_small by lia. apply s64_small. lia. Qed.

(* -------------------------------------------------------------------------------------------------------------
   _process_request_: what the message callback is told (C06, second half; C02 "msg_process is told the message's
   own length").  `size' is what the transport handed over for this call: the k-th answer of funcs.peek in peek mode
   (shm), of funcs.recv otherwise (socket). *)
Section ProcessRequest.
  Variables (c ms : Z) (a0r a0m a1r a1m a2r a2m a3r : Z -> Z) (rbuf mx fpeek frecl retries reqs : Z)
            (kpeek krecl krecv kmp hid hsz : Z) (opeek opeek_out orecl orecv omp : Z -> Z).

  Definition peek_mode : bool := negb (fpeek =? 0) && negb (frecl =? 0).
  Definition got_size : Z := if peek_mode then s64 (s64 (opeek kpeek)) else s64 (s64 (orecv krecv)).

  Definition run_src :=
    _process_request_ c ms a0r a0m a1r a1m a2r a2m a3r rbuf mx fpeek frecl retries reqs
                      kpeek krecl krecv kmp hid hsz opeek opeek_out orecl orecv omp.

  (* ranges of the C types involved: int32_t hdr.size / hdr.id, uint32_t max_msg_size *)
  Hypothesis Hhsz : - 2 ^ 31 <= hsz < 2 ^ 31.
  Hypothesis Hmx : 0 <= mx < 2 ^ 32.

  (* the callback is invoked at most once; when it is, the length it is told is the header's own size field and
     0 <= told <= bytes handed over by the transport, told <= negotiated maximum, and a whole header was there *)
  Lemma src_process_request_told :
    let '(res, _, _, _, _, _, a2m', _, _, _, _, _, _, kmp') := run_src in
    (kmp' = kmp /\ (forall k, a2m' k = a2m k)) \/
    (kmp' = kmp + 1 /\ a2m' kmp = hsz /\
     0 <= hsz /\ hsz <= got_size /\ hsz <= mx /\ IPC_HDR_SIZE <= got_size /\ hid <> IPC_MSG_DISCONNECT).
  Proof.
    unfold run_src, _process_request_, got_size, peek_mode.
    destruct (negb (fpeek =? 0) && negb (frecl =? 0)) eqn:Epk; cbv beta iota zeta.
    - set (size := s64 (s64 (opeek kpeek))).
      destruct (size <? s64 0) eqn:E1; [left; split; [reflexivity|intros; reflexivity]|].
      destruct ((size =? s64 0) || (hid =? s32 (-3))) eqn:E2; [left; split; [reflexivity|intros; reflexivity]|].
      destruct ((size <? s64 16) || (hsz <? 0) || (s64 hsz >? size) || (u64 hsz >? mx)) eqn:E3;
        [left; split; [reflexivity|intros; reflexivity]|].
      right. cbv beta iota zeta.
      apply orb_false_iff in E2. destruct E2 as [_ E2].
      apply orb_false_iff in E3. destruct E3 as [E3 E3d].
      apply orb_false_iff in E3. destruct E3 as [E3 E3c].
      apply orb_false_iff in E3. destruct E3 as [E3a E3b].
      assert (Hh0 : 0 <= hsz) by lia.
      rewrite s64_small in E3c by (unwrap; lia).
      rewrite u64_small in E3d by (unwrap; lia).
      change (s64 16) with 16 in E3a. change (s32 (-3)) with (-3) in E2.
      unfold IPC_HDR_SIZE, IPC_MSG_DISCONNECT.
      repeat split; try lia.
      + rewrite upd_same. apply u64_small. unwrap; lia.
    - set (size := s64 (s64 (orecv krecv))).
      destruct (size <? s64 0) eqn:E1; [left; split; [reflexivity|intros; reflexivity]|].
      destruct ((size =? s64 0) || (hid =? s32 (-3))) eqn:E2; [left; split; [reflexivity|intros; reflexivity]|].
      destruct ((size <? s64 16) || (hsz <? 0) || (s64 hsz >? size) || (u64 hsz >? mx)) eqn:E3;
        [left; split; [reflexivity|intros; reflexivity]|].
      right. cbv beta iota zeta.
      apply orb_false_iff in E2. destruct E2 as [_ E2].
      apply orb_false_iff in E3. destruct E3 as [E3 E3d].
      apply orb_false_iff in E3. destruct E3 as [E3 E3c].
      apply orb_false_iff in E3. destruct E3 as [E3a E3b].
      assert (Hh0 : 0 <= hsz) by lia.
      rewrite s64_small in E3c by (unwrap; lia).
      rewrite u64_small in E3d by (unwrap; lia).
      change (s64 16) with 16 in E3a. change (s32 (-3)) with (-3) in E2.
      unfold IPC_HDR_SIZE, IPC_MSG_DISCONNECT.
      repeat split; try lia.
      + rewrite upd_same. apply u64_small. unwrap; lia.
  Qed.


  (* agreement with the model's process_body (repaired code): same return value, callback invoked exactly when the
     model invokes it and told the same length, statistics counted alike; the chunk is reclaimed exactly in peek mode
     after a callback.  got_size < 2^31: `res = size' narrows ssize_t to int32_t (messages of 2 GiB and more are outside
     the model's range). *)
  Variables (s : st) (m : msg).
  Hypothesis Hid : m_id m = hid.
  Hypothesis Hhs : m_hsize m = hsz.
  Hypothesis Hmax : maxsz s = mx.
  Hypothesis Hret : match mrets (sv s) with [] => 0 | r :: _ => r end = s32 (s32 (omp kmp)).
  Hypothesis Hsize : 0 <= got_size < 2 ^ 31.

  Lemma src_process_request_body_eq :
    let '(res, _, _, _, _, _, a2m', _, retries', reqs', _, krecl', _, kmp') := run_src in
    let '(s', mres, cbs) := process_body fixed s m got_size peek_mode in
    res = mres /\ retries' = retries /\
    match cbs with
    | [] => kmp' = kmp /\ krecl' = krecl /\ reqs' = reqs
    | (told, _) :: _ => kmp' = kmp + 1 /\ a2m' kmp = told /\ reqs' = u64 (reqs + 1) /\
                        krecl' = (if peek_mode then krecl + 1 else krecl)
    end.
  Proof.
    revert Hsize.
    unfold run_src, _process_request_, got_size, peek_mode, process_body.
    rewrite Hid, Hhs, Hmax. cbn [v_reqvalid fixed andb].
    unfold IPC_MSG_DISCONNECT, IPC_ESHUTDOWN, IPC_HDR_SIZE, IPC_EBADMSG, IPC_ENOBUFS.
    destruct (negb (fpeek =? 0) && negb (frecl =? 0)) eqn:Epk; cbv beta iota zeta; intros Hsize'.
    - set (size := s64 (s64 (opeek kpeek))) in *.
      change (s64 0) with 0. change (s64 16) with 16. change (s32 (-3)) with (-3).
      destruct (size <? 0) eqn:E1; [lia|].
      destruct ((size =? 0) || (hid =? -3)) eqn:E2; [repeat split; reflexivity|].
      destruct (hsz <? 0) eqn:Eneg.
      + rewrite !orb_true_r. cbn [orb]. repeat split; reflexivity.
      + rewrite u64_small by (unwrap; lia).
        rewrite (s64_small hsz) by (unwrap; lia).
        rewrite !Z.gtb_ltb. rewrite orb_false_r.
        destruct ((size <? 16) || (size <? hsz) || (mx <? hsz)) eqn:E3; [repeat split; reflexivity|].
        cbv beta iota zeta. rewrite Hret. rewrite upd_same.
        assert (Hts : to_size_t hsz = hsz) by (unfold to_size_t; rewrite Eneg; reflexivity).
        rewrite Hts.
        assert (Hsz32 : s32 (s32 size) = size) by (rewrite !(s32_small size); unwrap; lia).
        rewrite Hsz32. change (s32 (s32 (-105))) with (-105).
        destruct (s32 (s32 (omp kmp)) <? 0); repeat split; reflexivity.
    - set (size := s64 (s64 (orecv krecv))) in *.
      change (s64 0) with 0. change (s64 16) with 16. change (s32 (-3)) with (-3).
      destruct (size <? 0) eqn:E1; [lia|].
      destruct ((size =? 0) || (hid =? -3)) eqn:E2; [repeat split; reflexivity|].
      destruct (hsz <? 0) eqn:Eneg.
      + rewrite !orb_true_r. cbn [orb]. repeat split; reflexivity.
      + rewrite u64_small by (unwrap; lia).
        rewrite (s64_small hsz) by (unwrap; lia).
        rewrite !Z.gtb_ltb. rewrite orb_false_r.
        destruct ((size <? 16) || (size <? hsz) || (mx <? hsz)) eqn:E3; [repeat split; reflexivity|].
        cbv beta iota zeta. rewrite Hret. rewrite upd_same.
        assert (Hts : to_size_t hsz = hsz) by (unfold to_size_t; rewrite Eneg; reflexivity).
        rewrite Hts.
        assert (Hsz32 : s32 (s32 size) = size) by (rewrite !(s32_small size); unwrap; lia).
        rewrite Hsz32. change (s32 (s32 (-105))) with (-105).
        destruct (s32 (s32 (omp kmp)) <? 0); repeat split; reflexivity.
  Qed.
End ProcessRequest.

(* the transport's error path: nothing is delivered, the error is passed on, and recv_retries counts exactly the
   EAGAIN / ETIMEDOUT answers (process_request's `None' branch in the model) *)
Lemma src_process_request_error c ms a0r a0m a1r a1m a2r a2m a3r rbuf mx fpeek frecl retries reqs
      kpeek krecl krecv kmp hid hsz opeek opeek_out orecl orecv omp :
  got_size fpeek frecl kpeek krecv opeek orecv < 0 -> - 2 ^ 31 <= got_size fpeek frecl kpeek krecv opeek orecv ->
  let size := got_size fpeek frecl kpeek krecv opeek orecv in
  let '(res, _, _, _, _, _, _, _, retries', reqs', _, krecl', _, kmp') :=
    _process_request_ c ms a0r a0m a1r a1m a2r a2m a3r rbuf mx fpeek frecl retries reqs
                      kpeek krecl krecv kmp hid hsz opeek opeek_out orecl orecv omp in
  res = size /\ kmp' = kmp /\ krecl' = krecl /\ reqs' = reqs /\
  retries' = (if (size =? - IPC_EAGAIN) || (size =? - IPC_ETIMEDOUT) then u64 (retries + 1) else retries).
Proof.
  unfold got_size, peek_mode, _process_request_, IPC_EAGAIN, IPC_ETIMEDOUT.
  change (Z.opp 11) with (-11). change (Z.opp 110) with (-110).
  destruct (negb (fpeek =? 0) && negb (frecl =? 0)) eqn:Epk; cbv beta iota zeta; intros Hneg Hlo.
  - set (size := s64 (s64 (opeek kpeek))) in *.
    change (s64 0) with 0. destruct (size <? 0) eqn:E1; [|lia].
    change (s64 (s32 (-11))) with (-11). change (s64 (s32 (-110))) with (-110).
    rewrite !(s32_small size) by (unwrap; lia).
    destruct (size =? -11) eqn:Ea; destruct (size =? -110) eqn:Eb; cbn [negb andb orb]; repeat split; reflexivity.
  - set (size := s64 (s64 (orecv krecv))) in *.
    change (s64 0) with 0. destruct (size <? 0) eqn:E1; [|lia].
    change (s64 (s32 (-11))) with (-11). change (s64 (s32 (-110))) with (-110).
    rewrite !(s32_small size) by (unwrap; lia).
    destruct (size =? -11) eqn:Ea; destruct (size =? -110) eqn:Eb; cbn [negb andb orb]; repeat split; reflexivity.
Qed.

(* -------------------------------------------------------------------------------------------------------------
   _request_q_len_get = the model's q_len_limit, when the transport reports the model's queue length *)
Lemma src_q_len_limit c fq prio_ k oq (s : st) :
  fq <> 0 -> prio (sv s) = prio_ -> 0 <= prio_ < 2 ^ 32 ->
  s64 (s64 (oq k)) = Z.of_nat (length (q_req (ch s))) ->
  fst (_request_q_len_get c fq prio_ k oq) = q_len_limit s.
Proof.
  intros Hf Hp Hpr Hq. unfold _request_q_len_get, q_len_limit, IPC_LOOP_MED, IPC_LOOP_LOW, IPC_MAX_RECV_MSGS.
  apply Z.eqb_neq in Hf. rewrite Hf. cbn [negb]. cbv beta iota zeta. rewrite Hq, Hp.
  set (n := Z.of_nat (length (q_req (ch s)))).
  change (s64 0) with 0. change (s64 5) with 5. change (s64 50) with 50. change (s64 (s64 1)) with 1.
  change (u32 1) with 1. change (u32 0) with 0.
  rewrite (u32_small prio_) by lia.
  assert (Hn : 0 <= n) by (unfold n; lia).
  destruct (n <=? 0) eqn:E0; [reflexivity|].
  destruct (prio_ =? 1) eqn:E1.
  - cbn [fst]. destruct (n <? 5) eqn:E5.
    + rewrite s64_small; [lia| unwrap; lia].
    + change (s64 5) with 5. lia.
  - destruct (prio_ =? 0) eqn:E2; [reflexivity|].
    cbn [fst]. destruct (n <? 50) eqn:E5.
    + rewrite s64_small; [lia| unwrap; lia].
    + change (s64 50) with 50. lia.
Qed.

(* the transport has no q_len_get (socket): one request per dispatch *)
Lemma src_q_len_nofn c prio_ k oq : fst (_request_q_len_get c 0 prio_ k oq) = 1.
Proof. reflexivity. Qed.

(* -------------------------------------------------------------------------------------------------------------
   The four server-side send calls refuse a message above the negotiated maximum before anything else happens: the
   result is -EMSGSIZE, the transport's send function is not called, no notification is sent, no statistic moves
   (C02 "a send that cannot be queued ... has no effect"; the model's `v_sendchk' guard). *)
Lemma src_response_send_oversize c data size mx nresp nretry k1 k2 k3 o1 o2 o3 :
  c <> 0 -> mx < size ->
  qb_ipcs_response_send c data size mx nresp nretry k1 k2 k3 o1 o2 o3 = (- IPC_EMSGSIZE, nresp, nretry, k1, k2, k3).
Proof.
  intros Hc Hs. unfold qb_ipcs_response_send. apply Z.eqb_neq in Hc. rewrite Hc.
  assert (E : (size >? mx) = true) by lia. rewrite E. reflexivity.
Qed.

Lemma src_event_send_oversize c data size mx outst nevt nretry k1 k2 k3 k4 k5 en o1 o2 o3 o4 o5 :
  c <> 0 -> mx < size ->
  qb_ipcs_event_send c data size mx outst nevt nretry k1 k2 k3 k4 k5 en o1 o2 o3 o4 o5
  = (- IPC_EMSGSIZE, nevt, nretry, k1, k2, k3, k4, k5, en).
Proof.
  intros Hc Hs. unfold qb_ipcs_event_send. apply Z.eqb_neq in Hc. rewrite Hc.
  assert (E : (size >? mx) = true) by lia. rewrite E. reflexivity.
Qed.

Lemma src_response_sendv_oversize fuel c iov n mx nresp nretry k1 k2 k3 lens o1 o2 o3 total :
  c <> 0 -> _iov_total_size_ fuel iov n lens = Some total -> mx < total ->
  qb_ipcs_response_sendv fuel c iov n mx nresp nretry k1 k2 k3 lens o1 o2 o3
  = Some (- IPC_EMSGSIZE, nresp, nretry, k1, k2, k3).
Proof.
  intros Hc Ht Hs. unfold qb_ipcs_response_sendv. apply Z.eqb_neq in Hc. rewrite Hc, Ht.
  assert (E : (total >? mx) = true) by lia. rewrite E. reflexivity.
Qed.

Lemma src_event_sendv_oversize fuel c iov n mx outst nevt nretry k1 k2 k3 k4 k5 en lens o1 o2 o3 o4 o5 total :
  c <> 0 -> _iov_total_size_ fuel iov n lens = Some total -> mx < total ->
  qb_ipcs_event_sendv fuel c iov n mx outst nevt nretry k1 k2 k3 k4 k5 en lens o1 o2 o3 o4 o5
  = Some (- IPC_EMSGSIZE, nevt, nretry, k1, k2, k3, k4, k5, en).
Proof.
  intros Hc Ht Hs. unfold qb_ipcs_event_sendv. apply Z.eqb_neq in Hc. rewrite Hc, Ht.
  assert (E : (total >? mx) = true) by lia. rewrite E. reflexivity.
Qed.

(* ... and a message within the maximum does reach the transport (the check refuses nothing it should not) *)
Lemma src_response_send_passes c data size mx nresp nretry k1 k2 k3 o1 o2 o3 :
  c <> 0 -> size <= mx ->
  let '(_, _, _, _, k2', _) := qb_ipcs_response_send c data size mx nresp nretry k1 k2 k3 o1 o2 o3 in k2' = k2 + 1.
Proof.
  intros Hc Hs. unfold qb_ipcs_response_send. apply Z.eqb_neq in Hc. rewrite Hc.
  assert (E : (size >? mx) = false) by lia. rewrite E. cbv beta iota zeta.
  destruct (u64 (s64 (s64 (o2 k2))) =? size); [reflexivity|].
  destruct ((s64 (s64 (o2 k2)) =? s64 (s32 (-11))) || (s64 (s64 (o2 k2)) =? s64 (s32 (-110)))); [|reflexivity].
  destruct (negb (u64 (u64 (o1 k1)) =? 0)); reflexivity.
Qed.

(* the iovec total: the sum of the lengths (while it stays below 2^64) *)
Fixpoint sum_lens (lens : Z -> Z) (i : Z) (n : nat) : Z :=
  match n with O => 0 | S n' => lens i + sum_lens lens (i + 1) n' end.

Lemma src_iov_total_loop lens : forall (n : nat) fuel i acc,
  (n < fuel)%nat -> 0 <= i -> i + Z.of_nat n < 2 ^ 64 -> 0 <= acc ->
  (forall j, 0 <= lens j) -> acc + sum_lens lens i n < 2 ^ 64 ->
  _iov_total_size__loop1 fuel lens (i + Z.of_nat n) i acc = Some (i + Z.of_nat n, acc + sum_lens lens i n).
Proof.
  induction n as [|n IH]; intros fuel i acc Hf Hi Hn Ha Hl Hs; destruct fuel as [|fuel]; try lia.
  - cbn [_iov_total_size__loop1 sum_lens]. rewrite Z.add_0_r, Z.ltb_irrefl. f_equal. f_equal. lia.
  - cbn [_iov_total_size__loop1].
    assert (E : (i <? i + Z.of_nat (S n)) = true) by (apply Z.ltb_lt; lia). rewrite E.
    cbn [sum_lens] in Hs |- *.
    assert (Hrest : 0 <= sum_lens lens (i + 1) n).
    { clear - Hl. revert i. induction n as [|n IHn]; intros i; cbn [sum_lens]; [lia|]. specialize (IHn (i + 1)). specialize (Hl (i + 1)). lia. }
    specialize (Hl i) as Hli.
    rewrite (u64_small acc) by (unwrap; lia).
    rewrite !(u64_small (acc + lens i)) by (unwrap; lia).
    rewrite (u64_small (i + 1)) by (unwrap; lia).
    replace (i + Z.of_nat (S n)) with ((i + 1) + Z.of_nat n) by lia.
    rewrite IH by lia. f_equal. f_equal. lia.
Qed.

Lemma src_iov_total lens n fuel iov :
  (n < fuel)%nat -> Z.of_nat n < 2 ^ 64 -> (forall j, 0 <= lens j) -> sum_lens lens 0 n < 2 ^ 64 ->
  _iov_total_size_ fuel iov (Z.of_nat n) lens = Some (sum_lens lens 0 n).
Proof.
  intros Hf Hn Hl Hs. unfold _iov_total_size_.
  change (u64 (u64 0)) with 0.
  pose proof (src_iov_total_loop lens n fuel 0 0 Hf) as H. cbn [Z.add] in H.
  rewrite H by lia. reflexivity.
Qed.

(* -------------------------------------------------------------------------------------------------------------
   Client side (gen/Src_ipcc.v, regenerated from lib/ipcc.c): qb_ipcc_send refuses a message above the negotiated
   maximum before the flow-control word is read or the transport is called; qb_ipcc_sendv does the same for the iovec
   total while that total stays below 2^31 (its accumulator is an int32_t: see the remark in DESIGN.md, section 9) *)
Require Import Verif.gen.Src_ipcc.

Lemma src_ipcc_send_oversize fuel c p len fcmax ffc nsp mx k1 k2 k3 k4 o1 o2 o3 o4 :
  c <> 0 -> mx < len ->
  qb_ipcc_send fuel c p len fcmax ffc nsp mx k1 k2 k3 k4 o1 o2 o3 o4 = Some (- IPC_EMSGSIZE, k1, k2, k3, k4).
Proof.
  intros Hc Hs. unfold qb_ipcc_send. apply Z.eqb_neq in Hc. rewrite Hc.
  assert (E : (len >? mx) = true) by lia. rewrite E. reflexivity.
Qed.

Lemma src_ipcc_sendv_loop lens : forall (n : nat) fuel i acc,
  (n < fuel)%nat -> 0 <= i -> i + Z.of_nat n < 2 ^ 31 -> 0 <= acc ->
  (forall j, 0 <= lens j) -> acc + sum_lens lens i n < 2 ^ 31 ->
  qb_ipcc_sendv_loop1 fuel lens (i + Z.of_nat n) i acc = Some (i + Z.of_nat n, acc + sum_lens lens i n).
Proof.
  induction n as [|n IH]; intros fuel i acc Hf Hi Hn Ha Hl Hs; destruct fuel as [|fuel]; try lia.
  - cbn [qb_ipcc_sendv_loop1 sum_lens]. rewrite Z.add_0_r.
    rewrite (u64_small i) by (unwrap; lia). rewrite Z.ltb_irrefl. f_equal. f_equal. lia.
  - cbn [qb_ipcc_sendv_loop1].
    rewrite (u64_small i) by (unwrap; lia).
    assert (E : (i <? i + Z.of_nat (S n)) = true) by (apply Z.ltb_lt; lia). rewrite E.
    cbn [sum_lens] in Hs |- *.
    assert (Hrest : 0 <= sum_lens lens (i + 1) n).
    { clear - Hl. revert i. induction n as [|n IHn]; intros i; cbn [sum_lens]; [lia|]. specialize (IHn (i + 1)). specialize (Hl (i + 1)). lia. }
    specialize (Hl i) as Hli.
    rewrite (u64_small acc) by (unwrap; lia).
    rewrite (u64_small (acc + lens i)) by (unwrap; lia).
    rewrite (s32_small (acc + lens i)) by (unwrap; lia).
    rewrite (s32_small (i + 1)) by (unwrap; lia).
    replace (i + Z.of_nat (S n)) with ((i + 1) + Z.of_nat n) by lia.
    rewrite IH by lia. f_equal. f_equal. lia.
Qed.

Lemma src_ipcc_sendv_oversize fuel c iov (n : nat) fcmax ffc nsp mx k1 k2 k3 k4 lens o1 o2 o3 o4 o5 :
  c <> 0 -> (n < fuel)%nat -> Z.of_nat n < 2 ^ 31 -> (forall j, 0 <= lens j) -> sum_lens lens 0 n < 2 ^ 31 ->
  mx < sum_lens lens 0 n ->
  qb_ipcc_sendv fuel c iov (Z.of_nat n) fcmax ffc nsp mx k1 k2 k3 k4 lens o1 o2 o3 o4 o5
  = Some (- IPC_EMSGSIZE, k1, k2, k3, k4).
Proof.
  intros Hc Hf Hn Hl Hs Hm. unfold qb_ipcc_sendv.
  change (s32 0) with 0.
  pose proof (src_ipcc_sendv_loop lens n fuel 0 0 Hf) as H. cbn [Z.add] in H.
  rewrite H by lia.
  apply Z.eqb_neq in Hc. rewrite Hc.
  assert (Hnn : 0 <= sum_lens lens 0 n).
  { clear - Hl. generalize 0 at 2. induction n as [|n IHn]; intros i; cbn [sum_lens]; [lia|]. specialize (IHn (i + 1)). specialize (Hl i). lia. }
  rewrite u64_small by (unwrap; lia).
  assert (E : (sum_lens lens 0 n >? mx) = true) by lia. rewrite E. reflexivity.
Qed.
