(* C17 trie part, prefix iteration (1): paths through a sub-node; the lookup of a prefix and the keys below it. *)
From Coq Require Import List ZArith Bool Arith Lia.
Import ListNotations.
Require Import Verif.gen.Consts_trie Verif.MapTrieModel Verif.MapTrieProofs Verif.MapTrieProofs2 Verif.MapTrieIter
               Verif.MapTrieIter2 Verif.MapTrieIter3.

Lemma get_at_app : forall p q n, get_at n (p ++ q) = match get_at n p with Some s => get_at s q | None => None end.
Proof.
  induction p; intros q n; simpl; auto. destruct (fget (t_ch n) a); auto.
Qed.

Lemma upd_app : forall p q n g s, get_at n p = Some s -> get_at (upd_t n (p ++ q) g) p = Some (upd_t s q g).
Proof.
  induction p; intros q n g s G; destruct n as [i sg f]; simpl in G.
  - inversion G; subst. reflexivity.
  - destruct (fget f a) as [c|] eqn:F; [|discriminate]. simpl app. cbn [upd_t]. simpl.
    rewrite upd_f_fget, F. rewrite fget_fset_same by (eapply fget_some_lt; eauto). apply IHp. exact G.
Qed.

Lemma strip_prefix_app : forall a b, strip_prefix a (a ++ b) = Some b.
Proof. induction a; simpl; intros; auto. rewrite Nat.eqb_refl. auto. Qed.

Fixpoint is_prefix (a b : key) : bool :=
  match a, b with
  | [], _ => true
  | x :: a', y :: b' => (x =? y) && is_prefix a' b'
  | _ :: _, [] => false
  end.

Lemma is_prefix_app : forall a b, is_prefix a (a ++ b) = true.
Proof. induction a; simpl; intros; auto. rewrite Nat.eqb_refl. simpl. auto. Qed.

Lemma is_prefix_app2 : forall a b c, is_prefix a ((a ++ b) ++ c) = true.
Proof. intros. rewrite <- app_assoc. apply is_prefix_app. Qed.

Lemma i2c_c2i : forall b, i2c (c2i b) = b.
Proof. intro b. apply c2i_inj. apply c2i_i2c. Qed.

Lemma is_prefix_spec : forall a b, is_prefix a b = true -> exists c, b = a ++ c.
Proof.
  induction a; simpl; intros. - eauto. - destruct b; [discriminate|]. apply andb_true_iff in H. destruct H as [E H].
    apply Nat.eqb_eq in E. subst. destruct (IHa _ H) as [c C]. exists c. subst. reflexivity.
Qed.

(* the node at which the lookup of the prefix ends: every key with the prefix is looked up through it, and every
   node below it (itself included) has a string with the prefix *)
Lemma look_prefix_through : forall sz n, size_t n <= sz -> forall pre pr, pre <> [] \/ True ->
  look_t n pre false = Some pr ->
  (forall k p, is_prefix pre k = true -> look_t n k true = Some p -> exists q, p = pr ++ q) /\
  (forall q tn, get_at n (pr ++ q) = Some tn -> is_prefix pre (qstr n (pr ++ q)) = true).
Proof.
  induction sz; intros n Hsz pre pr _ H.
  { destruct n; simpl in Hsz; lia. }
  destruct n as [i seg f]. cbn [look_t] in H.
  destruct (strip seg pre 0) eqn:St; try discriminate.
  - (* the prefix ends in this node *)
    simpl in H. inversion H; subst pr; clear H.
    apply strip_keyend in St. destruct St as [rest [S1 S2]]. subst seg.
    split.
    + intros k p _ _. exists p. reflexivity.
    + intros q tn G. simpl app. destruct q as [|j q]; cbn [qstr t_seg t_ch].
      * apply is_prefix_app.
      * apply is_prefix_app2.
  - pose proof (strip_segend _ _ _ _ _ St) as Sk.
    rewrite look_f_fget in H. destruct (fget f (c2i c)) as [t0|] eqn:G0; [|discriminate].
    destruct (look_t t0 k' false) as [p0|] eqn:L; [|discriminate]. inversion H; subst pr; clear H.
    assert (Hst : size_t t0 <= sz). { apply size_fget in G0. simpl in Hsz. lia. }
    destruct (IHsz t0 Hst k' p0 (or_intror I) L) as [I1 I2].
    split.
    + intros k p Pk Lk. subst pre. destruct (is_prefix_spec _ _ Pk) as [e E]. rewrite <- app_assoc in E. simpl in E.
      subst k. cbn [look_t] in Lk. rewrite strip_self_more in Lk. rewrite look_f_fget, G0 in Lk.
      destruct (look_t t0 (k' ++ e) true) as [p1|] eqn:L1; [|discriminate]. inversion Lk; subst p.
      destruct (I1 (k' ++ e) p1 (is_prefix_app _ _) L1) as [q Q]. exists q. simpl. rewrite Q. reflexivity.
    + intros q tn G. simpl app in *. simpl in G. rewrite G0 in G. simpl. rewrite i2c_c2i, G0.
      subst pre.
      assert (X : forall a b c, is_prefix b c = true -> is_prefix (a ++ b) (a ++ c) = true).
      { induction a; simpl; intros; auto. rewrite Nat.eqb_refl. simpl. auto. }
      apply X. simpl. rewrite Nat.eqb_refl. simpl. apply (I2 q tn G).
Qed.
