(* C07: refinement of the FIFO specification, operation by operation and for every operation list. *)
From Coq Require Import ZArith List Bool Lia ZifyBool.
Import ListNotations.
Require Import Verif.gen.Consts_rb Verif.RbModel Verif.RbSpec Verif.RbMem Verif.RbProofs.
Local Open Scope Z_scope.

Ltac Zify.zify_post_hook ::= Z.div_mod_to_equations.

(* ------------------------------------------------------------------ refinement, operation by operation *)
Ltac splits := repeat match goal with |- _ /\ _ => split end.
Definition Inv (b : rb) (s : spec) : Prop := Repr b (sq s) /\ sem b = stok s.

Definition wf_op (o : op) : Prop :=
  match o with OAllocCommit rlen d => zlen d <= rlen | _ => True end.

Lemma neg_errno_lt0 :
  (- RB_ETIMEDOUT <? 0) = true /\ (- RB_EBADMSG <? 0) = true /\ (- RB_ENOBUFS <? 0) = true /\
  (- RB_EAGAIN <? 0) = true /\ (- RB_EINVAL <? 0) = true.
Proof. vm_compute. splits; reflexivity. Qed.

Lemma sem_trywait_cases : forall b s, Inv b s ->
  (has_token s = false /\ sem_trywait b = (b, - RB_ETIMEDOUT)) \/
  (has_token s = true /\ exists b1, sem_trywait b = (b1, 0) /\ Repr b1 (sq s) /\ sem b1 = tok_add s (-1) /\
                                   rW b1 = rW b /\ ovw b1 = ovw b /\
                                   (wpt b1 = wpt b /\ rpt b1 = rpt b /\ data b1 = data b)).
Proof.
  intros b s (HR & Hs). unfold sem_trywait, has_token, tok_add. rewrite Hs.
  destruct (stok s) as [c|].
  - destruct (0 <? c) eqn:E.
    + right. split; [reflexivity|]. eexists; split; [reflexivity|].
      split; [apply Repr_set_sem; exact HR|]. cbn. splits; try reflexivity; f_equal; lia.
    + left. split; reflexivity.
  - right. split; [reflexivity|]. exists b. splits; try reflexivity; assumption.
Qed.

Lemma sem_post_after_take : forall b1 s, sem b1 = tok_add s (-1) -> sem (sem_post b1) = stok s.
Proof.
  intros b1 s H. unfold sem_post, tok_add in *. destruct (stok s) as [c|]; rewrite H; cbn; [f_equal; lia | exact H].
Qed.

Lemma sem_post_rW : forall b, rW (sem_post b) = rW b /\ ovw (sem_post b) = ovw b.
Proof. intros b; unfold sem_post; destruct (sem b); split; reflexivity. Qed.
Lemma sem_post_same : forall b, wpt (sem_post b) = wpt b /\ rpt (sem_post b) = rpt b /\ data (sem_post b) = data b.
Proof. intros b; unfold sem_post; destruct (sem b); splits; reflexivity. Qed.

Lemma read_refines : forall b s n, Inv b s ->
  forall b' r bytes s' y, read b n = (b', r, bytes) -> spec_step (rW b) s (ORead n) = (s', y) ->
  Inv b' s' /\ y = Some (r, bytes) /\ rW b' = rW b /\ ovw b' = ovw b /\
  (r < 0 -> wpt b' = wpt b /\ rpt b' = rpt b /\ data b' = data b /\ s' = s /\ bytes = []).
Proof.
  intros b s n HI b' r bytes s' y Hm Hsp.
  destruct neg_errno_lt0 as (Lt1 & Lt2 & Lt3 & _).
  unfold read in Hm. cbn [spec_step] in Hsp.
  destruct (sem_trywait_cases b s HI) as [(Htok & Htw) | (Htok & b1 & Htw & HR1 & Hs1 & HW1 & Ho1 & Hsame)];
    rewrite Htw in Hm; rewrite Htok in Hsp; cbn [negb] in Hsp.
  - rewrite Lt1 in Hm. inversion Hm; inversion Hsp; subst. splits; try reflexivity; try apply HI. intros _; splits; reflexivity.
  - change (0 <? 0) with false in Hm. cbv iota in Hm.
    unfold Inv.
    destruct (sem_post_same b1) as (P1 & P2 & P3).
    destruct (sq s) as [|c t] eqn:Eq.
    + rewrite (chunk_ready_empty _ HR1) in Hm. cbn [negb] in Hm.
      unfold tok_add in Hs1. destruct (stok s) as [c0|] eqn:Es; rewrite Hs1 in Hm;
        inversion Hm; inversion Hsp; subst; rewrite Eq, Es.
      * destruct (sem_post_rW b1) as (-> & ->).
        splits; try assumption; try reflexivity.
        -- apply Repr_sem_post; exact HR1.
        -- unfold sem_post. rewrite Hs1. cbn. f_equal; lia.
        -- intros _. splits; try reflexivity; intuition congruence.
      * splits; try assumption; try reflexivity. intros _. splits; try reflexivity; tauto.
    + rewrite (chunk_ready_head _ _ _ HR1) in Hm. cbn [negb] in Hm.
      rewrite (head_size _ _ _ HR1) in Hm.
      destruct (n <? zlen c) eqn:En.
      * inversion Hm; inversion Hsp; subst; rewrite Eq.
        destruct (sem_post_rW b1) as (-> & ->).
        splits; try assumption; try reflexivity.
        -- apply Repr_sem_post; exact HR1.
        -- apply sem_post_after_take; exact Hs1.
        -- intros _. splits; try reflexivity; intuition congruence.
      * rewrite (head_bytes _ _ _ HR1) in Hm.
        destruct (reclaim_head _ _ _ HR1) as (b2 & Hrec & HR2 & HW2 & Hs2 & Ho2 & _).
        rewrite Hrec in Hm. inversion Hm; inversion Hsp; subst. cbn [sq stok].
        splits; try congruence; try reflexivity; try exact HR2.
        pose proof (zlen_nonneg bytes). intros; lia.
Qed.

Lemma peek_refines : forall b s, Inv b s ->
  forall b' r bytes s' y, peek b = (b', r, bytes) -> spec_step (rW b) s OPeek = (s', y) ->
  Inv b' s' /\ y = Some (r, bytes) /\ rW b' = rW b /\ ovw b' = ovw b.
Proof.
  intros b s HI b' r bytes s' y Hm Hsp.
  destruct neg_errno_lt0 as (Lt1 & Lt2 & Lt3 & _).
  unfold peek in Hm. cbn [spec_step] in Hsp.
  destruct (sem_trywait_cases b s HI) as [(Htok & Htw) | (Htok & b1 & Htw & HR1 & Hs1 & HW1 & Ho1 & _)];
    rewrite Htw in Hm; rewrite Htok in Hsp; cbn [negb] in Hsp.
  - rewrite Lt1 in Hm. inversion Hm; inversion Hsp; subst. splits; try reflexivity; apply HI.
  - change (0 <? 0) with false in Hm. cbv iota in Hm.
    unfold Inv.
    destruct (sq s) as [|c t] eqn:Eq.
    + rewrite (chunk_ready_empty _ HR1) in Hm. cbn [negb] in Hm.
      inversion Hm; inversion Hsp; subst; rewrite Eq.
      destruct (sem_post_rW b1) as (-> & ->).
      splits; try assumption; try reflexivity.
      * apply Repr_sem_post; exact HR1.
      * apply sem_post_after_take; exact Hs1.
    + rewrite (chunk_ready_head _ _ _ HR1) in Hm. cbn [negb] in Hm.
      rewrite (head_size _ _ _ HR1) in Hm. rewrite (head_bytes _ _ _ HR1) in Hm.
      inversion Hm; inversion Hsp; subst. cbn [sq stok].
      splits; try assumption; reflexivity.
Qed.

Lemma reclaim_refines : forall b s, Inv b s ->
  forall b' rc s' y, reclaim b = (b', rc) -> spec_step (rW b) s OReclaim = (s', y) ->
  Inv b' s' /\ y = Some (0, []) /\ rW b' = rW b /\ ovw b' = ovw b.
Proof.
  intros b s (HR & Hs) b' rc s' y Hm Hsp. cbn [spec_step] in Hsp. inversion Hsp; subst. clear Hsp.
  unfold Inv; cbn [sq stok].
  destruct (sq s) as [|c t] eqn:Eq; cbn [tl].
  - rewrite (reclaim_empty _ HR) in Hm. inversion Hm; subst. splits; try assumption; reflexivity.
  - destruct (reclaim_head _ _ _ HR) as (b2 & Hrec & HR2 & HW2 & Hs2 & Ho2 & _).
    rewrite Hrec in Hm. inversion Hm; subst. splits; try assumption; try reflexivity; congruence.
Qed.

Lemma alloc_commit_has_room : forall b rlen d, ovw b = false ->
  (space_free b <? rlen + RB_CHUNK_MARGIN) = false ->
  alloc_commit b rlen d = let '(b2, r) := put_result b d in WRet b2 r.
Proof.
  intros b rlen d Ho Hf. unfold alloc_commit, alloc, put_result. rewrite Ho, Hf.
  unfold alloc_header. reflexivity.
Qed.

Lemma has_room_space_free : forall b q rlen, Repr b q ->
  (space_free b <? rlen + RB_CHUNK_MARGIN) = negb (has_room (rW b) q rlen).
Proof.
  intros b q rlen HR. rewrite (space_free_repr _ _ HR). unfold has_room.
  destruct (rlen + RB_CHUNK_MARGIN <=? free_bytes (rW b) q) eqn:E; cbn [negb]; lia.
Qed.

Lemma alloc_commit_refines : forall b s rlen d okval, Inv b s -> ovw b = false -> 0 <= zlen d <= rlen ->
  forall b' r s' y, alloc_commit b rlen d = WRet b' r -> spec_write (rW b) s rlen d okval = (s', y) ->
  Inv b' s' /\ y = Some (if r =? 0 then okval else r, []) /\ (r = 0 \/ r = - RB_EAGAIN) /\
  rW b' = rW b /\ ovw b' = ovw b /\ (r <> 0 -> b' = b).
Proof.
  intros b s rlen d okval (HR & Hs) Ho Hd b' r s' y Hm Hsp.
  unfold spec_write in Hsp.
  pose proof (has_room_space_free b (sq s) rlen HR) as Hf.
  destruct (has_room (rW b) (sq s) rlen) eqn:Ea; cbn [negb] in Hf.
  - rewrite (alloc_commit_has_room _ _ _ Ho Hf) in Hm.
    destruct (put_chunk_repr b (sq s) d HR) as (b2 & Hput & HR2 & HW2 & Ho2 & _ & Hs2).
    { apply has_room_used with (rlen := rlen); [lia | exact Ea]. }
    rewrite Hput in Hm. inversion Hm; inversion Hsp; subst. unfold Inv; cbn [sq stok].
    change (0 =? 0) with true. cbv iota.
    splits; try assumption; try reflexivity; try (left; reflexivity); try congruence.
    rewrite Hs2, Hs. unfold tok_add. destruct (stok s); reflexivity.
  - unfold alloc_commit, alloc in Hm. rewrite Ho, Hf in Hm. inversion Hm; inversion Hsp; subst.
    destruct consts_ok as (_ & _ & _ & _ & _ & _ & _ & _ & _ & _ & _ & _ & _ & He & _).
    destruct (- RB_EAGAIN =? 0) eqn:E0; [lia|].
    unfold Inv. splits; try assumption; try reflexivity. right; reflexivity.
Qed.

Lemma alloc_commit_nofuel : forall b rlen d, ovw b = false -> exists b' r, alloc_commit b rlen d = WRet b' r.
Proof.
  intros b rlen d Ho. unfold alloc_commit, alloc. rewrite Ho.
  destruct (space_free b <? rlen + RB_CHUNK_MARGIN).
  - eexists; eexists; reflexivity.
  - unfold alloc_header. destruct (commit _ _) as (b2, r). eexists; eexists; reflexivity.
Qed.

Lemma step_refines : forall b s o, Inv b s -> ovw b = false -> wf_op o ->
  forall b' x s' y, step b o = (b', x) -> spec_step (rW b) s o = (s', y) ->
  Inv b' s' /\ obs_of x = y /\ rW b' = rW b /\ ovw b' = false.
Proof.
  intros b s o HI Ho Hwf b' x s' y Hm Hsp.
  destruct neg_errno_lt0 as (_ & _ & _ & LtA & _).
  destruct o as [d | rlen d | n | | | | ]; cbn [step] in Hm.
  - (* write *)
    unfold write in Hm. cbn [spec_step] in Hsp.
    destruct (alloc_commit_nofuel b (zlen d) d Ho) as (b1 & r & Hac). rewrite Hac in Hm.
    inversion Hm; subst; clear Hm.
    pose proof (zlen_nonneg d) as Hzd.
    destruct (alloc_commit_refines b s (zlen d) d (zlen d) HI Ho ltac:(lia) _ _ _ _ Hac Hsp)
      as (HI' & Hy & Hr & HW' & Ho' & _).
    splits; try assumption; try congruence.
    rewrite Hy. cbn [obs_of]. destruct Hr as [-> | ->].
    + reflexivity.
    + rewrite LtA. destruct (- RB_EAGAIN =? 0) eqn:E; [lia | reflexivity].
  - (* alloc + commit *)
    cbn [spec_step] in Hsp. cbn [wf_op] in Hwf.
    destruct (alloc_commit_nofuel b rlen d Ho) as (b1 & r & Hac). rewrite Hac in Hm.
    inversion Hm; subst; clear Hm.
    pose proof (zlen_nonneg d) as Hzd.
    destruct (alloc_commit_refines b s rlen d 0 HI Ho ltac:(lia) _ _ _ _ Hac Hsp)
      as (HI' & Hy & Hr & HW' & Ho' & _).
    splits; try assumption; try congruence.
    rewrite Hy. cbn [obs_of]. destruct (r =? 0) eqn:E; [|reflexivity].
    do 3 f_equal; lia.
  - (* read *)
    destruct (read b n) as ((b1, r), bytes) eqn:Hr. inversion Hm; subst; clear Hm.
    destruct (read_refines b s n HI _ _ _ _ _ Hr Hsp) as (HI' & Hy & HW' & Ho' & _).
    splits; try assumption; try congruence. cbn [obs_of]. congruence.
  - (* peek *)
    destruct (peek b) as ((b1, r), bytes) eqn:Hr. inversion Hm; subst; clear Hm.
    destruct (peek_refines b s HI _ _ _ _ _ Hr Hsp) as (HI' & Hy & HW' & Ho').
    splits; try assumption; try congruence. cbn [obs_of]. congruence.
  - (* reclaim *)
    destruct (reclaim b) as (b1, rc) eqn:Hr. inversion Hm; subst; clear Hm.
    destruct (reclaim_refines b s HI _ _ _ _ Hr Hsp) as (HI' & Hy & HW' & Ho').
    splits; try assumption; try congruence. cbn [obs_of]. congruence.
  - cbn [spec_step] in Hsp. inversion Hm; inversion Hsp; subst. splits; try assumption; reflexivity.
  - cbn [spec_step] in Hsp. inversion Hm; inversion Hsp; subst. splits; try assumption; reflexivity.
Qed.

(* every operation list: the outputs of the transcription are the outputs of the FIFO specification *)
Theorem run_refines : forall ops b s, Inv b s -> ovw b = false -> Forall wf_op ops ->
  forall b' xs s' ys, run b ops = (b', xs) -> spec_run (rW b) s ops = (s', ys) ->
  Inv b' s' /\ map obs_of xs = ys /\ rW b' = rW b /\ ovw b' = false.
Proof.
  induction ops as [|o t IH]; intros b s HI Ho Hwf b' xs s' ys Hm Hsp; cbn [run spec_run] in *.
  - inversion Hm; inversion Hsp; subst. splits; try assumption; reflexivity.
  - destruct (step b o) as (b1, x) eqn:Hst. destruct (run b1 t) as (b2, xs') eqn:Hrun.
    destruct (spec_step (rW b) s o) as (s1, y) eqn:Hss. destruct (spec_run (rW b) s1 t) as (s2, ys') eqn:Hsr.
    inversion Hm; inversion Hsp; subst; clear Hm Hsp.
    inversion Hwf as [|? ? Hwo Hwt]; subst.
    destruct (step_refines b s o HI Ho Hwo _ _ _ _ Hst Hss) as (HI1 & Hy & HW1 & Ho1).
    rewrite <- HW1 in Hsr.
    destruct (IH b1 s1 HI1 Ho1 Hwt _ _ _ _ Hrun Hsr) as (HI2 & Hys & HW2 & Ho2).
    splits; try assumption; try congruence. cbn [map]. congruence.
Qed.

(* ------------------------------------------------------------------ the statements of C07 *)
Definition spec0 (nosem : bool) : spec := {| sq := []; stok := if nosem then None else Some 0 |}.

Lemma open_inv : forall S ns ow, 0 <= S -> S + RB_CHUNK_MARGIN + RB_SIZE_EXTRA + RB_PAGE_SIZE <= two32 ->
  Inv (rb_open S ns ow) (spec0 ns) /\ ovw (rb_open S ns ow) = ow /\
  4 * rW (rb_open S ns ow) = roundup (S + RB_CHUNK_MARGIN + RB_SIZE_EXTRA) RB_PAGE_SIZE.
Proof.
  intros S ns ow HS Hmax. split; [split|split].
  - apply rb_open_repr; assumption.
  - reflexivity.
  - reflexivity.
  - apply rb_open_W.
Qed.

(* a ring opened for S never refuses while the unread chunks plus the new reservation, each counted
   with 16 bytes of overhead, fit in S; the chunk is then the newest of the queue *)
Lemma must_accept : forall S b s rlen d, Inv b s -> ovw b = false ->
  S + RB_CHUNK_MARGIN + RB_SIZE_EXTRA <= 4 * rW b -> zlen d <= rlen ->
  cost (sq s) + rlen + 16 <= S ->
  exists b', alloc_commit b rlen d = WRet b' 0 /\
             Inv b' {| sq := sq s ++ [d]; stok := tok_add s 1 |} /\ rW b' = rW b /\ ovw b' = false.
Proof.
  intros S b s rlen d HI Ho HS Hd Hfit.
  pose proof (has_room_of_fits _ _ _ _ HS Hfit) as Ha.
  destruct (alloc_commit_nofuel b rlen d Ho) as (b1 & r & Hac).
  pose proof (zlen_nonneg d) as Hzd.
  destruct (spec_write (rW b) s rlen d 0) as (s', y) eqn:Hsp.
  destruct (alloc_commit_refines b s rlen d 0 HI Ho ltac:(lia) _ _ _ _ Hac Hsp) as (HI' & Hy & Hr & HW' & Ho' & _).
  unfold spec_write in Hsp. rewrite Ha in Hsp. inversion Hsp; subst.
  assert (r = 0).
  { destruct (r =? 0) eqn:E; [lia|]. inversion H1. destruct neg_errno_lt0 as (_ & _ & _ & LtA & _). lia. }
  subst r. exists b1. splits; try assumption; congruence.
Qed.

Lemma write_accepts : forall S b s d, Inv b s -> ovw b = false ->
  S + RB_CHUNK_MARGIN + RB_SIZE_EXTRA <= 4 * rW b ->
  cost (sq s) + zlen d + 16 <= S \/ (sq s = [] /\ zlen d <= S) ->
  exists b', write b d = WRet b' (zlen d) /\ Inv b' {| sq := sq s ++ [d]; stok := tok_add s 1 |}.
Proof.
  intros S b s d HI Ho HS Hfit.
  assert (Ha : has_room (rW b) (sq s) (zlen d) = true).
  { destruct Hfit as [Hfit | (He & Hl)].
    - apply has_room_of_fits with (S := S); assumption.
    - rewrite He. apply has_room_single_max with (S := S); assumption. }
  destruct (alloc_commit_nofuel b (zlen d) d Ho) as (b1 & r & Hac).
  pose proof (zlen_nonneg d) as Hzd.
  destruct (spec_write (rW b) s (zlen d) d 0) as (s', y) eqn:Hsp.
  destruct (alloc_commit_refines b s (zlen d) d 0 HI Ho ltac:(lia) _ _ _ _ Hac Hsp) as (HI' & Hy & Hr & _).
  unfold spec_write in Hsp. rewrite Ha in Hsp. inversion Hsp; subst.
  assert (r = 0).
  { destruct (r =? 0) eqn:E; [lia|]. inversion H1. destruct neg_errno_lt0 as (_ & _ & _ & LtA & _). lia. }
  subst r. exists b1. unfold write. rewrite Hac. change (0 <? 0) with false. cbv iota.
  split; [reflexivity | assumption].
Qed.

(* a refused write changes nothing at all (no invariant needed) *)
Lemma refuse_pure : forall b d b' r, ovw b = false -> write b d = WRet b' r -> r < 0 ->
  b' = b /\ r = - RB_EAGAIN.
Proof.
  intros b d b' r Ho Hw Hr. unfold write, alloc_commit, alloc in Hw. rewrite Ho in Hw.
  destruct (space_free b <? zlen d + RB_CHUNK_MARGIN).
  - destruct neg_errno_lt0 as (_ & _ & _ & LtA & _). rewrite LtA in Hw. inversion Hw; subst. split; reflexivity.
  - unfold alloc_header, commit in Hw. change (0 <? 0) with false in Hw. cbv iota in Hw.
    inversion Hw; subst. pose proof (zlen_nonneg d). lia.
Qed.

(* a read that reports an error leaves pointers, data and the queue as they were and delivers nothing *)
Lemma read_error_pure : forall b s n b' r bytes, Inv b s -> read b n = (b', r, bytes) -> r < 0 ->
  wpt b' = wpt b /\ rpt b' = rpt b /\ data b' = data b /\ bytes = [] /\ Inv b' s.
Proof.
  intros b s n b' r bytes HI Hm Hr.
  destruct (spec_step (rW b) s (ORead n)) as (s', y) eqn:Hsp.
  destruct (read_refines b s n HI _ _ _ _ _ Hm Hsp) as (HI' & _ & _ & _ & Hpure).
  destruct (Hpure Hr) as (H1 & H2 & H3 & -> & H5). splits; assumption.
Qed.

Lemma read_delivers_head : forall b s n c t, Inv b s -> sq s = c :: t -> has_token s = true ->
  exists b', read b n = (b', if n <? zlen c then - RB_ENOBUFS else zlen c, if n <? zlen c then [] else c) /\
             Inv b' (if n <? zlen c then s else {| sq := t; stok := tok_add s (-1) |}).
Proof.
  intros b s n c t HI Hq Htok.
  destruct (read b n) as ((b', r), bytes) eqn:Hm.
  destruct (spec_step (rW b) s (ORead n)) as (s', y) eqn:Hsp.
  destruct (read_refines b s n HI _ _ _ _ _ Hm Hsp) as (HI' & Hy & _).
  cbn [spec_step] in Hsp. rewrite Htok, Hq in Hsp. cbn [negb] in Hsp.
  exists b'. destruct (n <? zlen c); inversion Hsp; subst; inversion H1; subst; split; try reflexivity; assumption.
Qed.

Lemma read_empty_fails : forall b s n, Inv b s -> sq s = [] ->
  exists b' r, read b n = (b', r, []) /\ r < 0 /\ Inv b' s.
Proof.
  intros b s n HI Hq.
  destruct (read b n) as ((b', r), bytes) eqn:Hm.
  destruct (spec_step (rW b) s (ORead n)) as (s', y) eqn:Hsp.
  destruct (read_refines b s n HI _ _ _ _ _ Hm Hsp) as (HI' & Hy & _).
  destruct neg_errno_lt0 as (Lt1 & Lt2 & _).
  cbn [spec_step] in Hsp. rewrite Hq in Hsp.
  exists b', r.
  destruct (negb (has_token s)); [|destruct (stok s)]; inversion Hsp; subst; inversion H1; subst;
    splits; try reflexivity; try assumption; lia.
Qed.

(* ------------------------------------------------------------------ from a freshly opened ring *)
Theorem open_run_refines : forall S ns ops, 0 <= S -> S + RB_CHUNK_MARGIN + RB_SIZE_EXTRA + RB_PAGE_SIZE <= two32 ->
  Forall wf_op ops ->
  forall b' xs s' ys, run (rb_open S ns false) ops = (b', xs) ->
                      spec_run (rW (rb_open S ns false)) (spec0 ns) ops = (s', ys) ->
  Inv b' s' /\ map obs_of xs = ys.
Proof.
  intros S ns ops HS Hmax Hwf b' xs s' ys Hm Hsp.
  destruct (open_inv S ns false HS Hmax) as (HI & Ho & _).
  destruct (run_refines ops _ _ HI Ho Hwf _ _ _ _ Hm Hsp) as (H1 & H2 & _). split; assumption.
Qed.

(* non-vacuity: a reachable state whose queue wraps around the end of the data area *)
Definition ex_ops : list op :=
  [OWrite (repeat 7 3000); ORead 70000; OWrite (repeat 9 2001); OAllocCommit 600 (repeat 3 90); OPeek].

Lemma example_wrap :
  exists b xs s ys, run (rb_open 100 false false) ex_ops = (b, xs) /\
                    spec_run (rW (rb_open 100 false false)) (spec0 false) ex_ops = (s, ys) /\
                    Inv b s /\ wpt b < rpt b /\ length (sq s) = 2%nat /\ stok s = Some 1 /\
                    nth 4 ys None = Some (2001, repeat 9 2001).
Proof.
  destruct (run (rb_open 100 false false) ex_ops) as (b, xs) eqn:Hm.
  destruct (spec_run (rW (rb_open 100 false false)) (spec0 false) ex_ops) as (s, ys) eqn:Hsp.
  exists b, xs, s, ys. split; [reflexivity|]. split; [reflexivity|].
  assert (Hwf : Forall wf_op ex_ops).
  { unfold ex_ops. repeat constructor. vm_compute. discriminate. }
  destruct (open_run_refines 100 false ex_ops ltac:(lia) ltac:(vm_compute; discriminate) Hwf _ _ _ _ Hm Hsp) as (HI & _).
  split; [exact HI|].
  assert (Hb : (wpt b <? rpt b) = true).
  { replace b with (fst (run (rb_open 100 false false) ex_ops)) by (rewrite Hm; reflexivity). vm_compute. reflexivity. }
  assert (Hs : s = fst (spec_run (rW (rb_open 100 false false)) (spec0 false) ex_ops)) by (rewrite Hsp; reflexivity).
  assert (Hy : ys = snd (spec_run (rW (rb_open 100 false false)) (spec0 false) ex_ops)) by (rewrite Hsp; reflexivity).
  split; [lia|]. rewrite Hs, Hy. vm_compute. repeat split; reflexivity.
Qed.
