(* C01: the notifier semaphore - no lost wake-up (I5 of DESIGN.md C01) for reader programs without peek. *)
From Coq Require Import ZArith List Bool Lia ZifyBool.
Import ListNotations.
Require Import Verif.gen.Consts_rb Verif.gen.Consts_rbconc Verif.RbModel Verif.RbMem Verif.RbSpec Verif.RbProofs
  Verif.RbConcModel Verif.RbConcProofs Verif.RbConcProofsInv.
Local Open Scope Z_scope.

(* ------------------------------------------------------------------ the notifier: no lost wake-up
   For reader programs without qb_rb_chunk_peek (a peek takes a token and leaves the chunk): tokens in the
   semaphore + the token the reader holds inside a read call + the post the writer is about to make
   >= published chunks not yet consumed.  So whenever both threads are idle, every unread chunk has a token. *)
Definition rtok (t : rthread) : Z :=
  if is_read (rcur t) then match r_pc t with RStart | RCall => 0 | _ => 1 end else 0.
Definition wtok (t : wthread) : Z := match w_pc t with WPost => 1 | _ => 0 end.
Definition no_peek (t : rthread) : Prop := Forall (fun c => is_peek c = false) (r_prog t).

Definition dgot (g : ghost) : Z := match g with GCons _ => 1 | _ => 0 end.
Definition dpub (g : ghost) : Z := match g with GPub _ => 1 | _ => 0 end.
Definition semv (h : shared) : Z := match hsem h with Some c => c | None => 0 end.

Lemma no_peek_cur : forall t, no_peek t -> r_prog t <> [] -> is_peek (rcur t) = false.
Proof. intros t H Hne. unfold no_peek, rcur in *. destruct (r_prog t); [congruence|]. inversion H; assumption. Qed.

Lemma rstep_prog : forall h t r, rstep h t = Some r -> r_prog (s_t r) = r_prog t \/ r_prog (s_t r) = tl (r_prog t).
Proof.
  intros h t r H.
  destruct (r_pc t) eqn:Epc; unfold rstep in H; rewrite Epc in H;
    unfold rgo, rreturn, r_fail, rc_fail, copy_done, act_wait, act_rd_rpt, act_rc_rd_rpt in H;
    repeat match type of H with
           | context [match ?x with _ => _ end] => destruct x eqn:?
           end;
    try discriminate; inversion H; subst r; clear H; cbn [s_t r_at r_ret r_prog tl]; auto.
  all: match goal with E : r_prog _ = _ |- _ => rewrite E; cbn [tl]; auto end.
Qed.

Lemma rstep_no_peek : forall h t r, rstep h t = Some r -> no_peek t -> no_peek (s_t r).
Proof.
  intros h t r H Hnp. unfold no_peek in *. destruct (rstep_prog _ _ _ H) as [->| ->]; [assumption|].
  destruct (r_prog t); cbn [tl]; [constructor|]. inversion Hnp; assumption.
Qed.

Lemma rstep_tokens : forall h t r c, rstep h t = Some r -> hsem h = Some c -> no_peek t -> s_err r = false ->
  (exists c', hsem (s_sh r) = Some c') /\ semv (s_sh r) + rtok (s_t r) + dgot (s_gh r) >= c + rtok t /\ dpub (s_gh r) = 0.
Proof.
  intros h t r c H Hs Hnp He.
  assert (Hpk : r_prog t <> [] -> is_peek (rcur t) = false) by (apply no_peek_cur; assumption).
  destruct (r_pc t) eqn:Epc; unfold rstep in H; rewrite Epc in H;
    unfold rgo, rreturn, r_fail, rc_fail, copy_done, act_wait, act_rd_rpt, act_rc_rd_rpt, post in H;
    rewrite ?Hs in H;
    repeat match type of H with
           | context [match ?x with _ => _ end] => destruct x eqn:?
           end;
    try discriminate; inversion H; subst r; clear H;
    cbn [s_sh s_t s_gh s_err hsem set_hsem set_mem set_rpt dgot dpub] in *; try discriminate;
    unfold semv, rtok, rcur in *; cbn [hsem set_hsem set_mem set_rpt r_at r_ret r_pc r_prog tl] in *;
    rewrite ?Hs; rewrite ?Epc;
    (split; [eexists; reflexivity|]); (split; [|reflexivity]).
  all: try match goal with E : r_prog _ = _ |- _ => rewrite E in *; cbn [is_read is_peek tl] in * end; try discriminate.
  all: try (match goal with Hp : _ :: _ <> [] -> true = false |- _ =>
              exfalso; assert (Hd : true = false) by (apply Hp; discriminate); discriminate end).
  all: repeat match goal with
              | E : is_read ?x = _ |- context [is_read ?x] => rewrite E
              end;
       repeat match goal with |- context [if ?b then _ else _] => destruct b eqn:? end; try lia; try congruence.
Qed.

Lemma wstep_tokens : forall h t r c, wstep h t = Some r -> hsem h = Some c ->
  (exists c', hsem (s_sh r) = Some c') /\ semv (s_sh r) + wtok (s_t r) >= c + wtok t + dpub (s_gh r) /\ dgot (s_gh r) = 0.
Proof.
  intros h t r c H Hs.
  destruct (w_pc t) eqn:Epc; unfold wstep in H; rewrite Epc in H; unfold post in H; rewrite ?Hs in H;
    repeat match type of H with
           | context [match ?x with _ => _ end] => destruct x eqn:?
           end;
    try discriminate; inversion H; subst r; clear H;
    cbn [s_sh s_t s_gh hsem set_hsem set_mem set_wpt dgot dpub]; unfold semv, wtok;
    cbn [hsem set_hsem set_mem set_wpt w_at w_ret w_pc]; rewrite ?Hs, ?Epc;
    (split; [eexists; reflexivity|]); (split; [lia|reflexivity]).
Qed.

Lemma wstep_sem_none : forall h t r, wstep h t = Some r -> hsem h = None -> hsem (s_sh r) = None.
Proof.
  intros h t r H Hs.
  destruct (w_pc t) eqn:Epc; unfold wstep in H; rewrite Epc in H; unfold post in H; rewrite ?Hs in H;
    repeat match type of H with
           | context [match ?x with _ => _ end] => destruct x eqn:?
           end;
    try discriminate; inversion H; subst r; clear H; cbn [s_sh hsem set_hsem set_mem set_wpt]; assumption.
Qed.

Lemma rstep_sem_none : forall h t r, rstep h t = Some r -> hsem h = None -> hsem (s_sh r) = None.
Proof.
  intros h t r H Hs.
  destruct (r_pc t) eqn:Epc; unfold rstep in H; rewrite Epc in H;
    unfold rgo, rreturn, r_fail, rc_fail, copy_done, act_wait, act_rd_rpt, act_rc_rd_rpt, post in H; rewrite ?Hs in H;
    repeat match type of H with
           | context [match ?x with _ => _ end] => destruct x eqn:?
           end;
    try discriminate; inversion H; subst r; clear H; cbn [s_sh hsem set_hsem set_mem set_rpt]; assumption.
Qed.

Definition TokInv (s : state) : Prop :=
  match hsem (g_sh s) with
  | Some c => c + rtok (g_r s) + wtok (g_w s) >= Z.of_nat (length (g_pub s)) - Z.of_nat (length (g_got s))
  | None => True
  end.

Lemma apply_ghost_len : forall g pub got pub' got', apply_ghost g pub got = (pub', got') ->
  Z.of_nat (length pub') = Z.of_nat (length pub) + dpub g /\ Z.of_nat (length got') = Z.of_nat (length got) + dgot g.
Proof.
  intros g pub got pub' got' H. destruct g; cbn [apply_ghost dpub dgot] in *; inversion H; subst;
    rewrite ?app_length; cbn [length]; lia.
Qed.

Theorem tok_step : forall t s s' o, Inv s -> TokInv s -> no_peek (g_r s) -> step t s = Some (s', o) ->
  TokInv s' /\ no_peek (g_r s').
Proof.
  intros t s s' o HI HT Hnp Hst.
  pose proof (inv_step _ _ _ _ HI Hst) as (_ & _ & _ & _ & _ & _ & _ & _ & _ & Herr').
  unfold step in Hst. unfold TokInv in *. destruct t.
  - destruct (wstep (g_sh s) (g_w s)) as [r|] eqn:Ew; [|discriminate].
    destruct (apply_ghost (s_gh r) (g_pub s) (g_got s)) as [pub got] eqn:Eg.
    inversion Hst; subst s'; clear Hst. cbn [g_sh g_w g_r g_pub g_got] in *. split; [|assumption].
    destruct (apply_ghost_len _ _ _ _ _ Eg) as (Lp & Lg).
    destruct (hsem (g_sh s)) as [c|] eqn:Es.
    + destruct (wstep_tokens _ _ _ _ Ew Es) as ((c' & Es') & Hge & Hdg). rewrite Es'. unfold semv in Hge. rewrite Es' in Hge. lia.
    + rewrite (wstep_sem_none _ _ _ Ew Es). exact I.
  - destruct (rstep (g_sh s) (g_r s)) as [r|] eqn:Er; [|discriminate].
    destruct (apply_ghost (s_gh r) (g_pub s) (g_got s)) as [pub got] eqn:Eg.
    inversion Hst; subst s'; clear Hst. cbn [g_sh g_w g_r g_pub g_got g_err] in *.
    split; [|eapply rstep_no_peek; eauto].
    destruct (apply_ghost_len _ _ _ _ _ Eg) as (Lp & Lg).
    assert (He : s_err r = false) by (destruct (g_err s), (s_err r); cbn in Herr'; congruence).
    destruct (hsem (g_sh s)) as [c|] eqn:Es.
    + destruct (rstep_tokens _ _ _ _ Er Es Hnp He) as ((c' & Es') & Hge & Hdp). rewrite Es'. unfold semv in Hge. rewrite Es' in Hge. lia.
    + rewrite (rstep_sem_none _ _ _ Er Es). exact I.
Qed.

Theorem tok_exec : forall sched s, Inv s -> TokInv s -> no_peek (g_r s) -> TokInv (exec sched s).
Proof.
  induction sched as [|t sc IH]; intros s HI HT Hnp; cbn [exec fold_left]; [exact HT|].
  unfold step1. destruct (step t s) as [[s' o]|] eqn:E; [|apply IH; assumption].
  destruct (tok_step _ _ _ _ HI HT Hnp E) as (HT' & Hnp'). apply IH; [eapply inv_step; eauto | assumption | assumption].
Qed.

(* no lost wake-up: at every moment both threads are between calls, the semaphore holds at least one token per
   published chunk that has not been consumed *)
Theorem all_tokens : forall h pw pr sched, wf_ring h -> Forall (fun c => is_peek c = false) pr ->
  let s := exec sched (init h pw pr) in
  quiescent s = true ->
  match hsem (g_sh s) with
  | Some c => c >= Z.of_nat (length (g_pub s)) - Z.of_nat (length (g_got s))
  | None => True
  end.
Proof.
  intros h pw pr sched Hwf Hnp s Hq.
  assert (HT : TokInv s).
  { apply tok_exec; [apply inv_init; assumption | | exact Hnp].
    unfold TokInv, init; cbn [g_sh g_w g_r g_pub g_got length]. destruct Hwf as (_ & _ & _ & _ & Hs). unfold sem_ok in Hs.
    destruct (hsem h); [|exact I]. unfold rtok, wtok; cbn [rthread0 wthread0 r_pc w_pc]. destruct (is_read _); lia. }
  unfold TokInv in HT. unfold quiescent in Hq. apply andb_prop in Hq. destruct Hq as (Hw & Hr).
  destruct (hsem (g_sh s)); [|exact I].
  assert (wtok (g_w s) = 0) by (unfold wtok, w_idle in *; destruct (w_pc (g_w s)); try discriminate; reflexivity).
  assert (rtok (g_r s) = 0) by (unfold rtok, r_idle in *; destruct (is_read _); [|reflexivity]; destruct (r_pc (g_r s)); try discriminate; reflexivity).
  lia.
Qed.

(* ------------------------------------------------------------------ no lost-wake-up deadlock *)
Lemma wstep_none_tok : forall h t, wstep h t = None -> wtok t = 0.
Proof.
  intros h t H. unfold wtok. destruct (w_pc t) eqn:E; try reflexivity.
  unfold wstep in H. rewrite E in H. discriminate.
Qed.

Lemma rstep_none_blocked : forall h t, rstep h t = None -> r_prog t <> [] ->
  r_pc t = RCall /\ exists c, hsem h = Some c /\ c <= 0.
Proof.
  intros h t H Hne.
  destruct (r_pc t) eqn:Epc; unfold rstep in H; rewrite Epc in H;
    unfold rgo, rreturn, r_fail, rc_fail, copy_done, act_wait, act_rd_rpt, act_rc_rd_rpt in H;
    repeat match type of H with
           | context [match ?x with _ => _ end] => destruct x eqn:?
           end;
    try discriminate; try congruence.
  all: split; [reflexivity|]; eexists; split; [reflexivity|lia].
Qed.

(* if the reader is blocked in sem_wait and the writer has nothing left to do, nothing published is unread:
   the two threads cannot get stuck with a chunk in the ring (reader programs without peek) *)
Theorem all_no_deadlock : forall h pw pr sched, wf_ring h -> Forall (fun c => is_peek c = false) pr ->
  let s := exec sched (init h pw pr) in
  r_prog (g_r s) <> [] -> step TR s = None -> step TW s = None ->
  length (g_got s) = length (g_pub s).
Proof.
  intros h pw pr sched Hwf Hnp s Hne Hr Hw.
  assert (HI : Inv s) by (apply all_inv; assumption).
  assert (HT : TokInv s).
  { apply tok_exec; [apply inv_init; assumption | | exact Hnp].
    unfold TokInv, init; cbn [g_sh g_w g_r g_pub g_got length]. destruct Hwf as (_ & _ & _ & _ & Hs). unfold sem_ok in Hs.
    destruct (hsem h); [|exact I]. unfold rtok, wtok; cbn [rthread0 wthread0 r_pc w_pc]. destruct (is_read _); lia. }
  unfold step in Hr, Hw.
  destruct (rstep (g_sh s) (g_r s)) as [r|] eqn:Er.
  { destruct (apply_ghost (s_gh r) (g_pub s) (g_got s)); discriminate. }
  destruct (wstep (g_sh s) (g_w s)) as [r|] eqn:Ew.
  { destruct (apply_ghost (s_gh r) (g_pub s) (g_got s)); discriminate. }
  destruct (rstep_none_blocked _ _ Er Hne) as (Epc & c & Es & Hc).
  pose proof (wstep_none_tok _ _ Ew) as Hwt.
  unfold TokInv in HT. rewrite Es in HT. rewrite Hwt in HT.
  assert (Hrt : rtok (g_r s) = 0) by (unfold rtok; rewrite Epc; destruct (is_read _); reflexivity).
  rewrite Hrt in HT.
  destruct HI as (RP & q & pre & Hpub & Hgot & _).
  pose proof (forall2_len _ _ _ _ _ Hgot) as Hl.
  assert (Hle : (length (g_got s) <= length (g_pub s))%nat).
  { rewrite Hpub, app_length. replace (length (g_got s)) with (length pre) by (symmetry; exact Hl). lia. }
  lia.
Qed.

(* ------------------------------------------------------------------ refusals are exact *)
Definition unread (s : state) : list chunk := skipn (length (g_got s)) (g_pub s).

(* qb_rb_space_free as a function of the chunks really in the ring *)
Definition room_bytes (W : Z) (q : list chunk) : Z :=
  RB_SIZEOF_WORD * (if used q =? 0 then W else W - used q - 1).

(* the admission test of a write is evaluated (step WRdRpt) on the exact content of the ring at that moment: the
   write is refused exactly when the unread chunks leave less than len + MARGIN bytes (counting the gap word) *)
Theorem refusal_exact : forall s w1 r, Inv s -> w_pc (g_w s) = WRdRpt w1 -> wstep (g_sh s) (g_w s) = Some r ->
  (s_ret r = Some (- RB_EAGAIN, []) <->
   room_bytes (hW (g_sh s)) (unread s) < zlen (wdata (g_w s)) + RB_CHUNK_MARGIN).
Proof.
  intros s w1 r (RP & q & pre & Hpub & Hgot & HC & Hwi & _) Epc Hst.
  assert (Hun : unread s = q).
  { unfold unread. pose proof (forall2_len _ _ _ _ _ Hgot) as Hl.
    replace (length (g_got s)) with (length pre) by (symmetry; exact Hl).
    rewrite Hpub. rewrite skipn_app. rewrite skipn_all. rewrite Nat.sub_diag. reflexivity. }
  rewrite Hun.
  destruct HC as [HW H32 Hr Hw Hcap Hpend Hq].
  unfold winv in Hwi. unfold w_win in Hcap. unfold w_pend in Hw. rewrite Epc in *. subst w1.
  pose proof (used_nonneg q) as Huq.
  unfold wstep in Hst. rewrite Epc in Hst.
  assert (Hfree : free_words (hW (g_sh s)) (hwpt (g_sh s)) (hrpt (g_sh s)) * RB_SIZEOF_WORD = room_bytes (hW (g_sh s)) q).
  { rewrite Hw, Hr. replace (RP + used q + 0) with (RP + used q) by lia.
    rewrite free_words_logical by lia. unfold room_bytes. lia. }
  rewrite Hfree in Hst.
  destruct (room_bytes (hW (g_sh s)) q <? zlen (wdata (g_w s)) + RB_CHUNK_MARGIN) eqn:E;
    inversion Hst; subst r; cbn [s_ret]; split; intro H; try lia; try reflexivity; try discriminate.
Qed.

(* the reader's emptiness verdict is never spurious: when a published chunk is unread, the pointer test and the
   marker test of read / peek / reclaim both pass (the call goes on to the size word) *)
Theorem no_spurious_empty : forall s r, Inv s -> unread s <> [] -> rstep (g_sh s) (g_r s) = Some r ->
  (forall rp, r_pc (g_r s) = RRdWpt rp -> r_pc (s_t r) = RRdMagic rp /\ s_ret r = None) /\
  (forall rp, r_pc (g_r s) = RRdMagic rp -> r_pc (s_t r) = RRdSize rp /\ s_ret r = None) /\
  (forall rp, r_pc (g_r s) = RcRdWpt rp -> r_pc (s_t r) = RcRdMagic rp /\ s_ret r = None) /\
  (forall rp, r_pc (g_r s) = RcRdMagic rp -> r_pc (s_t r) = RcRdSize1 rp /\ s_ret r = None).
Proof.
  intros s r (RP & q & pre & Hpub & Hgot & HC & Hwi & (Hh & Hrd & Hpc) & _) Hne Hst.
  assert (Hun : unread s = q).
  { unfold unread. pose proof (forall2_len _ _ _ _ _ Hgot) as Hl.
    replace (length (g_got s)) with (length pre) by (symmetry; exact Hl).
    rewrite Hpub. rewrite skipn_app. rewrite skipn_all. rewrite Nat.sub_diag. reflexivity. }
  rewrite Hun in Hne.
  destruct HC as [HW H32 Hr Hw Hcap Hpend Hq].
  destruct q as [|c q0]; [exfalso; apply Hne; reflexivity|].
  pose proof (used_cons_ge2 c q0) as Hu2.
  assert (Hdiff : (RP mod hW (g_sh s) =? hwpt (g_sh s)) = false).
  { apply Z.eqb_neq. intro E. rewrite Hw in E. symmetry in E.
    replace (RP + used (c :: q0) + w_pend (g_w s)) with (RP + (used (c :: q0) + w_pend (g_w s))) in E by lia.
    cbn [used] in *. apply mod_neq_window in E; [contradiction | lia | lia]. }
  assert (Hmag : r_kill (g_r s) = false ->
                 (ldw (hmem (g_sh s)) ((RP mod hW (g_sh s) + 1) mod hW (g_sh s)) =? RB_CHUNK_MAGIC) = true).
  { intros Hk. rewrite Hk in Hq. unfold q_in_mem in Hq. apply head_of_q in Hq; [|assumption].
    destruct Hq as (_ & Hm & _). rewrite succ_mod by assumption. lia. }
  unfold rstep in Hst.
  (split; [|split; [|split]]); intros rp Epc; rewrite Epc in *; destruct Hpc as (Hrp & _) || (rename Hpc into Hrp); subst rp;
    unfold r_kill in Hmag; rewrite ?Epc in Hmag; rewrite ?Hdiff, ?(Hmag eq_refl) in Hst;
    unfold rgo in Hst; inversion Hst; subst r; cbn [s_t s_ret r_at r_pc]; split; reflexivity.
Qed.
