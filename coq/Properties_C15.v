(* C15 - blackbox dump files: the property theorems.  Statements only; each is closed by `exact`.
   Model: BbFileModel.v (transcribes qb_log_blackbox_print_from_file, qb_rb_create_from_file, the reader side of
   the ring on the loaded mapping, qb_log_blackbox_write_to_file / qb_rb_write_to_file).  print_from_file fxh fxr:
   fxh/fxr = true is the code WITH fixes/C15-create-from-file-validate.patch / fixes/C15-print-record-bounds.patch,
   false the code as found. *)
From Coq Require Import ZArith List.
Require Import Verif.gen.Consts_rb Verif.gen.Consts_bbfile Verif.RbModel Verif.RbSpec Verif.RbProofs Verif.BbFileModel
        Verif.BbFileProofs Verif.BbFileRoundTrip Verif.BbFileRefuted.
Import ListNotations.
Local Open Scope Z_scope.

(* relations between constants regenerated from /repo that the proofs rest on (chunk buffer = 2 * QB_LOG_MAX_LEN and
   not larger than a page, so a chunk copy stays inside the double mapping; BB_MIN_ENTRY_SIZE covers the fixed fields) *)
Theorem C15_consts_ok :
  BBF_CHUNK_BUF = 2 * BBF_LOG_MAX_LEN /\ 0 < BBF_CHUNK_BUF <= RB_PAGE_SIZE /\ BBF_SIZEOF_U32 = 4 /\
  3 * BBF_SIZEOF_U32 + 1 + BBF_SIZEOF_TIME_T + BBF_SIZEOF_U32 <= BBF_MIN_ENTRY_SIZE /\ BBF_MIN_ENTRY_SIZE <= BBF_CHUNK_BUF /\
  0 < BBF_SIZEOF_TIME_T /\ BBF_SIZEOF_TIME_T = 8 /\ BBF_SIZEOF_TIMESPEC = 16 /\ 1 <= BBF_LOG_MAX_LEN /\
  BBF_FILE_HDR_SIZE = 20 /\ RB_SIZEOF_WORD = 4 /\ RB_PAGE_SIZE mod 4 = 0 /\ RB_CHUNK_HEADER_WORDS = 2 /\
  RB_CHUNK_MARGIN + RB_SIZE_EXTRA = 13 /\ RB_CHUNK_MAGIC <> RB_CHUNK_MAGIC_DEAD /\ RB_CHUNK_MAGIC <> 0 /\
  0 <= RB_CHUNK_MAGIC_DEAD < two32 /\ RB_WORD_ALIGN = 1.
Proof. exact bbf_consts_ok. Qed.
Print Assumptions C15_consts_ok.

(* ROBUSTNESS, repaired code: for EVERY byte list `f' - valid dump, truncated, corrupted, never a dump - , every
   sequence of decoder answers within the decoder's contract (dec_ok: 1 <= r <= QB_LOG_MAX_LEN, string[r-1] = NUL),
   every content of the uninitialised chunk buffer and stack, every stale errno: the printer RETURNS (out = Ret rc:
   no access outside the ring mapping / chunk buffer / message[], no failed assert, the entry loop ends within the
   proved fuel bound = number of chunk markers in the data), rc is -errno0 (file shorter than the marker block), -EIO,
   -1 or 20, and no temporary shm file is left. *)
Theorem C15_print_total : forall orc heap0 stk errno0 f, dec_ok orc ->
  let r := print_from_file true true orc heap0 stk errno0 f in
  (exists rc, out r = Ret rc /\ (rc = - errno0 \/ rc = - BBF_EIO \/ rc = -1 \/ rc = BBF_FILE_HDR_SIZE)) /\
  shm_left r = [].
Proof. exact print_total. Qed.
Print Assumptions C15_print_total.

(* non-vacuity: the theorem's hypothesis holds for a full-size decoder answer, and the run it speaks about prints a record *)
Example C15_print_total_example :
  dec_ok orc_full /\
  records (print_from_file true true orc_full heapA [] 0 wit_valid) =
    [ERec 6 1700000000 123456789 [102; 110] 10 3 (repeat 65 511)].
Proof. exact total_example. Qed.
Print Assumptions C15_print_total_example.

(* ROUND TRIP, repaired code: for EVERY ring state b that represents a queue of entries `map enc rs' (RbProofs.Repr:
   the invariant of the ring model, preserved by every alloc/commit/read/reclaim in both normal and overwrite mode, so
   `rs' is exactly the retained entries of the blackbox, whatever was overwritten before), of any page-multiple size,
   any read/write positions (wrapped or not), any entries with fields in their C ranges (wf_rec): printing the file
   that qb_log_blackbox_write_to_file writes (bb_dump b: marker block, header words, data) prints exactly those
   entries, oldest first, each with its priority, seconds, nanoseconds, function, line, tags as logged and the message
   = the decoder's answer for ITS stored bytes, then ends with -EIO (qb_rb_chunk_read on the drained ring reports
   -ETIMEDOUT: by design of the loop, harmless) and leaves no shm file.  (That the decoder's answer on the stored bytes
   is the text printf would have produced is C14's theorem.) *)
Theorem C15_roundtrip : forall b rs orc heap0 stk errno0,
  Repr b (map enc rs) -> bytes_ok (data b) -> (4 * rW b) mod RB_PAGE_SIZE = 0 ->
  Forall wf_rec rs -> dec_ok orc ->
  let r := print_from_file true true orc heap0 stk errno0 (bb_dump b) in
  records r = printed_recs rs orc stk /\ out r = Ret (- BBF_EIO) /\ shm_left r = [] /\
  evs r = EHdr (rW b) (wpt b) (rpt b) (free32 (rW b) (wpt b) (rpt b)) (used32 (rW b) (wpt b) (rpt b)) ::
          rec_events rs orc stk ++ [ERead (- RB_ETIMEDOUT); EErr 2 RB_ETIMEDOUT].
Proof. exact roundtrip. Qed.
Print Assumptions C15_roundtrip.

(* non-vacuity / concrete instance: an overwrite-mode ring of two pages after 100 blackbox entries (the writer model
   of RbModel.alloc_commit with the blackbox's reservation): it has wrapped (write_pt < read_pt), entries 0..47 were
   overwritten; dump + print shows exactly entries 48..99 with all fields *)
Example C15_roundtrip_example :
  rpt ring100 = 1776 /\ wpt ring100 = 1652 /\
  (records (print_from_file true true (map orc_k (map Z.of_nat (seq 48 52))) heapA [] 0 (bb_dump ring100)) =
   map (fun k => ERec (k mod 8) (1700000000 + k) (1000 * k) [102; 110; 65 + k mod 26] (100 + k) k
                      (repeat (97 + k mod 26) 99)) (map Z.of_nat (seq 48 52))).
Proof. exact roundtrip_example. Qed.
Print Assumptions C15_roundtrip_example.

(* the same statement is FALSE of the code as found: four independent witnesses (replayed on the unchanged library) *)
Theorem C15_print_total_refuted : ~ found_total.
Proof. exact found_total_refuted. Qed.
Print Assumptions C15_print_total_refuted.

Theorem C15_refuted_short_file_aborts :
  out (print_from_file false false [] heapA [] 0 wit_short) = Fault Abort.
Proof. exact refuted_short. Qed.
Print Assumptions C15_refuted_short_file_aborts.

Theorem C15_refuted_read_pt_outside_mapping :
  let r := print_from_file false false [] heapA [] 0 wit_readpt in
  out r = Fault (OobRing 3072) /\ shm_left r = [0; 1].
Proof. exact refuted_readpt. Qed.
Print Assumptions C15_refuted_read_pt_outside_mapping.

Theorem C15_refuted_unterminated_message :
  let r := print_from_file false false [] heapA [] 0 wit_unterminated_file in
  out r = Fault (OobChunk 1024) /\ shm_left r = [0; 1].
Proof. exact refuted_unterminated. Qed.
Print Assumptions C15_refuted_unterminated_message.

Theorem C15_refuted_message_index :
  let r := print_from_file false false orc_full heapA [] 0 wit_valid in
  out r = Fault (OobMsg 512) /\ shm_left r = [0; 1].
Proof. exact refuted_msg_index. Qed.
Print Assumptions C15_refuted_message_index.

(* each repair is needed: with only the other one applied the witness still faults *)
Theorem C15_refuted_each_fix_needed :
  out (print_from_file false true [] heapA [] 0 wit_readpt) = Fault (OobRing 3072) /\
  out (print_from_file true false [] heapA [] 0 wit_unterminated_file) = Fault (OobChunk 1024).
Proof. exact (conj refuted_readpt_needs_header_fix refuted_unterminated_needs_record_fix). Qed.
Print Assumptions C15_refuted_each_fix_needed.
