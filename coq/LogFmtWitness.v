(* C13 - witnesses: the formatter AS FOUND ([fx = false]) violates the property (each replayed on the real
   library: props/C13.py corpus()), and concrete examples for the repaired code. *)
From Coq Require Import List ZArith Bool Lia.
Require Import Verif.gen.Consts_logfmt Verif.SerModel Verif.LogFmtModel.
Import ListNotations.
Open Scope Z_scope.

Definition cs0 := mkCS [109;97;105;110] [102;46;99] 7 6 [].          (* main, f.c, line 7, info *)
Definition o0 := mkO [] [] [52;50] [104] [113;98].                    (* pid "42", host "h", name "qb" *)
Definition hello := [104;101;108;108;111].
Definition abcdef := [97;98;99;100;101;102].

(* 1. empty format: output_buffer[idx - 1] with idx = 0 *)
Lemma asfound_empty_format : target_format false [] cs0 hello 512 false o0 (repeat 90 512) = FOob 2.
Proof. vm_compute. reflexivity. Qed.
Lemma fixed_empty_format : fres_text (target_format true [] cs0 hello 512 false o0 (repeat 90 512)) = [].
Proof. vm_compute. reflexivity. Qed.

(* 2. "abc%": the scan steps over the terminating NUL of the format *)
Lemma asfound_percent_last : target_format false [97;98;99;37] cs0 hello 512 false o0 (repeat 90 512) = FOob 4.
Proof. vm_compute. reflexivity. Qed.
Lemma fixed_percent_last : fres_text (target_format true [97;98;99;37] cs0 hello 512 false o0 (repeat 90 512)) = [97;98;99].
Proof. vm_compute. reflexivity. Qed.

(* 3. "aaaa\n", limit 6, ellipsis: the stripped newline's NUL is overwritten by the ellipsis, no terminator *)
Lemma asfound_no_terminator :
  target_format false [97;97;97;97;10] cs0 hello 6 true o0 (repeat 90 6) = FDone [97;97;46;46;46;90].
Proof. vm_compute. reflexivity. Qed.
Lemma fixed_terminator :
  target_format true [97;97;97;97;10] cs0 hello 6 true o0 (repeat 90 6) = FDone [97;97;46;46;46;0].
Proof. vm_compute. reflexivity. Qed.

(* 4. ellipsis with fewer than three characters: output_buffer[idx - 3] *)
Lemma asfound_ellipsis_short : target_format false [37;98] cs0 abcdef 3 true o0 (repeat 90 3) = FOob 1.
Proof. vm_compute. reflexivity. Qed.
Lemma fixed_ellipsis_short : fres_text (target_format true [37;98] cs0 abcdef 3 true o0 (repeat 90 3)) = [97;98].
Proof. vm_compute. reflexivity. Qed.

(* 5. limit 1: the first character is stored before any test *)
Lemma asfound_limit_one : target_format false [120] cs0 hello 1 false o0 (repeat 90 1) = FOob 1.
Proof. vm_compute. reflexivity. Qed.
Lemma fixed_limit_one : target_format true [120] cs0 hello 1 false o0 (repeat 90 1) = FDone [0].
Proof. vm_compute. reflexivity. Qed.

(* 6. qb_log_format_set: a 406-byte format is expanded into modified_format[256] (limit 512) *)
Definition long_fmt := [37;78;91;37;80;93;32] ++ repeat 120 399.
Lemma asfound_format_set_overflow :
  format_set false long_fmt 512 o0 (repeat 190 (Z.to_nat (MODIFIED_FORMAT_SIZE false))) = FOob 1.
Proof. vm_compute. reflexivity. Qed.
Lemma fixed_format_set :
  fres_text (format_set true long_fmt 512 o0 (repeat 190 (Z.to_nat (MODIFIED_FORMAT_SIZE true))))
  = [113;98;91;52;50;93;32] ++ repeat 120 399.
Proof. vm_compute. reflexivity. Qed.

(* 7. the control API as found accepts limits no line can be formatted with *)
Lemma asfound_ctl_accepts_zero : ctl_accepts_line_len false 0 = true /\ ctl_accepts_line_len false (-1) = true /\
                                  ctl_accepts_line_len true 0 = false /\ ctl_accepts_line_len true (-1) = false.
Proof. vm_compute. repeat split; reflexivity. Qed.

(* 8. (repaired code too) a '-' field that does not fit the room left is built for the room, not cut from
   the full field: "ab%-10n" with "abc" in a limit of 8 gives "ab  abc", the documented reading "ab     " *)
Lemma ralign_clamped_differs :
  fres_text (target_format true [97;98;37;45;49;48;110] (mkCS [97;98;99] [] 0 0 []) [] 8 false o0 (repeat 90 8))
  <> line_spec [97;98;37;45;49;48;110] (mkCS [97;98;99] [] 0 0 []) [] 8 false o0.
Proof. vm_compute. discriminate. Qed.

Lemma spec_example :
  fres_text (target_format true [91;37;112;93;32;37;45;56;110;124;37;98] cs0 hello 512 false o0 (repeat 90 512))
  = line_spec [91;37;112;93;32;37;45;56;110;124;37;98] cs0 hello 512 false o0.
Proof. vm_compute. reflexivity. Qed.

Lemma asfound_bounds_false :
  ~ (forall fmt cs msg L ell o garbage, 1 <= L < SIZE_MOD -> zlen garbage = L ->
       fres_oob (target_format false fmt cs msg L ell o garbage) = false).
Proof.
  intros H. specialize (H [] cs0 hello 512 false o0 (repeat 90 512)).
  rewrite asfound_empty_format in H. cbn in H.
  assert (true = false); [apply H | discriminate].
  - vm_compute. split; [discriminate | reflexivity].
  - reflexivity.
Qed.
