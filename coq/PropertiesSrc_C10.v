(* C10 (weak priorities) / C08 - source tie: definitions of coq/LoopModel.v = the Gallina text regenerated from
   lib/loop.c and lib/loop_job.c by tools/c2coq.py on every run (gen/Src_loop.v, gen/Src_loopjob.v).
   Statements only.  What is outside the translator's subset is listed in coq/LoopSrcEq.v's header and in
   reports/loopt.md; the tool reports it on every run (qb_loop_run_level, job_dispatch: NOT TRANSLATED). *)
From Coq Require Import ZArith List Bool.
Import ListNotations.
Require Import Verif.gen.Consts_loop Verif.gen.Src_loop Verif.gen.Src_loopjob Verif.C2CoqPrelude Verif.LoopModel Verif.LoopSrcEq.
Local Open Scope Z_scope.

(* qb_loop_level_item_add: level->todo++ *)
Theorem C10_src_item_add : forall p it st lvp jb, i32 (todo (lv st p) + 1) ->
  qb_loop_level_item_add lvp jb (todo (lv st p)) = todo (lv (item_add p it st) p).
Proof. exact src_item_add. Qed.
Print Assumptions C10_src_item_add.

(* qb_loop_level_item_del: no-op when the item is on no list, else level->todo-- (= dec_todo) *)
Theorem C10_src_item_del : forall p st lvp jb c orc, i32 (todo (lv st p) - 1) ->
  qb_loop_level_item_del lvp jb c (todo (lv st p)) orc =
  (c + 1, if negb (s32 (orc c) =? 0) then todo (lv st p) else todo (lv (dec_todo p st) p)).
Proof. exact src_item_del. Qed.
Print Assumptions C10_src_item_del.

Theorem C10_model_item_del_todo : forall p it st,
  todo (lv (item_del p it st) p) =
  if in_jobq it High st || in_jobq it Med st || in_jobq it Low st then todo (lv st p) - 1 else todo (lv st p).
Proof. exact item_del_todo. Qed.
Print Assumptions C10_model_item_del_todo.

(* qb_loop_stop: stop_requested = QB_TRUE *)
Theorem C10_src_stop : forall l sr dflt st, 0 < l < 2 ^ 64 ->
  qb_loop_stop l sr dflt = 1 /\ (stop (set_stop true st) = true /\ (1 =? 0) = false).
Proof. exact src_stop. Qed.
Print Assumptions C10_src_stop.

(* qb_loop_job_add: 0 for a priority of the enum (like the model), -EINVAL outside LOW..HIGH *)
Theorem C10_src_job_add : forall lp pr key data fn cm cd jf js jt ju ljs om od st,
  0 < lp < 2 ^ 64 -> fn <> 0 -> 0 < om cm < 2 ^ 64 ->
  fst (fst (fst (fst (fst (fst (qb_loop_job_add lp (prio_z pr) data fn cm cd jf js jt ju ljs om od)))))) = fst (job_add pr key st).
Proof. exact src_job_add. Qed.
Print Assumptions C10_src_job_add.

Theorem C10_src_job_add_bad_prio : forall lp p data fn cm cd jf js jt ju ljs om od,
  0 < lp < 2 ^ 64 -> fn <> 0 -> 0 <= p < 2 ^ 32 -> ~ (0 <= p <= 2) ->
  qb_loop_job_add lp p data fn cm cd jf js jt ju ljs om od = (- LOOP_EINVAL, cm, cd, jf, js, jt, ju).
Proof. exact src_job_add_bad_prio. Qed.
Print Assumptions C10_src_job_add_bad_prio.

(* get_more_jobs: the value qb_loop_run uses as job_todo and the todo counters of the three levels, LOW first *)
Theorem C10_src_get_more_jobs : forall st sp ms ce cl oe ol T fuel,
  (4 <= fuel)%nat ->
  let n0 := wlen st Low in let n1 := wlen st Med in let n2 := wlen st High in
  let d0 := if n0 =? 0 then 0 else 1 in let d1 := if n1 =? 0 then 0 else 1 in
  oe ce = (if n0 =? 0 then 1 else 0) -> oe (ce + 1) = (if n1 =? 0 then 1 else 0) -> oe (ce + 1 + 1) = (if n2 =? 0 then 1 else 0) ->
  (n0 <> 0 -> ol cl = n0) -> (n1 <> 0 -> ol (cl + d0) = n1) -> (n2 <> 0 -> ol (cl + d0 + d1) = n2) ->
  (forall p, T (prio_z p) = todo (lv st p)) ->
  (forall p, small (wlen st p) /\ small (todo (lv st p))) ->
  exists ce' cl' T',
    Src_loopjob.get_more_jobs fuel sp ms ce cl oe ol T = Some (fst (LoopModel.get_more_jobs st), ce', cl', T') /\
    forall p, T' (prio_z p) = todo (lv (snd (LoopModel.get_more_jobs st)) p).
Proof. exact src_get_more_jobs. Qed.
Print Assumptions C10_src_get_more_jobs.

(* append to coq/PropertiesSrc_C10.v after c2coq2.diff is applied to tools/c2coq.py, harness/c2coq/loop.json has
   "object_locals": ["job"] and "oracle_havoc": {"job_source_dispatch_and_take_back": ["level_todo", "level_l_stop_requested"]},
   and LoopSrcEq_addendum.v is appended to coq/LoopSrcEq.v *)
(* qb_loop_run_level = LoopModel.run_level: when qb_list_empty and the values of level->todo / l->stop_requested after
   each dispatch are those of the model's execution (agree), the translated C function makes the same number of
   dispatches - the to_process quota, the empty list and a requested stop end the loop in the same iteration - and
   leaves the same todo counter and stop flag *)
Theorem C10_src_run_level : forall beh p oe od hvS hvT st lvl ce cd sv prio_,
  agree beh p oe hvS hvT (Datatypes.S (Z.to_nat LOOP_TO_PROCESS)) 0 st ce cd -> (sv =? 0) = negb (stop st) ->
  exists cd' ce' sv' tv',
    qb_loop_run_level (Datatypes.S (Z.to_nat LOOP_TO_PROCESS)) lvl cd ce hvS hvT sv prio_ LOOP_TO_PROCESS (todo (lv st p)) od oe
      = Some (cd', ce', sv', tv') /\
    let '(st', n) := run_level beh p st in
    tv' = todo (lv st' p) /\ (sv' =? 0) = negb (stop st') /\ cd' - cd = n.
Proof. exact src_run_level. Qed.
Print Assumptions C10_src_run_level.
