(* C17 trie part, iteration (6): id uniqueness in every reachable state; qb_map_foreach as a step of a history. *)
From Coq Require Import List ZArith Bool Arith Lia Sorted.
Import ListNotations.
Require Import Verif.gen.Consts_trie Verif.MapTrieModel Verif.MapTrieSpec Verif.MapTrieProofs Verif.MapTrieProofs2
               Verif.MapTrieProofs3 Verif.MapTrieIter Verif.MapTrieIter2 Verif.MapTrieIds Verif.MapTrieIter3
               Verif.MapTrieIter4 Verif.MapTrieIter5 Verif.MapTrieOrder.

Definition ids_r (r : tnode) (next : nat) : Prop :=
  (forall id, cnt_t r id <= 1) /\ (forall id, next <= id -> cnt_t r id = 0) /\ n_id (t_info r) = 0 /\ 1 <= next.

Lemma ids_ok_r : forall t, ids_ok t <-> ids_r (t_root t) (t_next t).
Proof. intro t. split; [intros [A B C D]|intros [A [B [C D]]]; constructor]; unfold ids_r; auto. Qed.

Lemma ids_r_upd : forall r n p g, ids_r r n -> (forall i, n_id (g i) = n_id i) -> ids_r (upd_t r p g) n.
Proof.
  intros r n p g [A [B [C D]]] Hg. unfold ids_r. repeat split; auto.
  - intro id. rewrite upd_cnt; auto.
  - intros id H. rewrite upd_cnt; auto.
  - rewrite upd_root_id; auto.
Qed.

Lemma ids_r_release : forall r n p, ids_r r n -> ids_r (release r p) n.
Proof.
  intros r n p [A [B [C D]]]. unfold release. pose proof (rel_cnt p r true) as R.
  destruct (rel_t r p true) as [r'|]; [|unfold ids_r; auto].
  destruct R as [R1 R2]. unfold ids_r. repeat split; auto.
  - intro id. specialize (R1 id). specialize (A id). lia.
  - intros id H. specialize (R1 id). specialize (B id H). lia.
  - congruence.
Qed.

Lemma ids_r_destroy : forall r n p, ids_r r n -> ids_r (fst (node_destroy r p)) n.
Proof.
  intros. unfold node_destroy. destruct (get_at r p) as [[i s f]|]; auto. destruct (n_val i); auto. simpl.
  apply ids_r_release. apply ids_r_upd; auto.
Qed.

Lemma ids_r_deref : forall r n p, ids_r r n -> ids_r (fst (node_deref r p)) n.
Proof.
  intros. unfold node_deref. destruct (get_at r p) as [[i s f]|]; auto. destruct (alive_i i); auto.
  destruct (0 <? n_rc i - 1); simpl.
  - apply ids_r_upd; auto.
  - apply ids_r_destroy. apply ids_r_upd; auto.
Qed.

Lemma ids_r_ref : forall r n p, ids_r r n -> ids_r (node_ref r p) n.
Proof. intros. destruct p; auto. unfold node_ref. apply ids_r_upd; auto. Qed.

Lemma ids_r_ins : forall fx r next k r1 p nid, ids_r r next -> all_t wfi r -> t_seg r = [] -> k <> [] ->
  ins_t fx r k true next = (r1, p, nid) -> ids_r r1 nid.
Proof.
  intros fx r next k r1 p nid H W S K I.
  pose proof (ids_ins fx {| t_root := r; t_len := 0; t_next := next; t_iters := [] |} k true r1 p nid) as X.
  simpl in X.
  assert (Y : ids_ok {| t_root := r; t_len := 0; t_next := next; t_iters := [] |}) by (apply ids_ok_r; exact H).
  specialize (X Y W I S K eq_refl). apply ids_ok_r in X. exact X.
Qed.

(* ---------- every operation keeps the ids unique ---------- *)
Lemma ids_put : forall fx t d k v, Inv t d -> ids_ok t -> kvalid k -> ids_ok (fst (do_put fx t k v)).
Proof.
  intros fx t d k v HI H [Hne Hnz]. apply ids_ok_r in H. unfold do_put.
  destruct (ins_t fx (t_root t) k true (t_next t)) as [[r1 p] nid] eqn:I.
  pose proof (ids_r_ins _ _ _ _ _ _ _ H (inv_wf _ _ HI) (inv_hdr _ _ HI) Hne I) as H1.
  destruct (get_at r1 p) as [[i s f]|]; [|apply ids_ok_r; exact H].
  destruct (if n_removed i then None else n_val i); simpl; apply ids_ok_r; simpl.
  - apply ids_r_upd; auto.
  - apply ids_r_ref. apply ids_r_upd; auto.
Qed.

Lemma ids_rm : forall fx t k, ids_ok t -> ids_ok (fst (fst (do_rm fx t k))).
Proof.
  intros fx t k H. pose proof H as H'. apply ids_ok_r in H. unfold do_rm.
  destruct (lookup (t_root t) k true) as [p|]; auto.
  destruct (f_rm fx && negb match get_at (t_root t) p with Some n => alive n | None => false end); auto.
  match goal with |- context [node_deref ?r p] => pose proof (ids_r_deref r (t_next t) p) as X; destruct (node_deref r p) as [r1 evs] end.
  simpl. apply ids_ok_r. simpl. apply X. destruct (f_removed fx); auto. apply ids_r_upd; auto.
Qed.

Lemma ids_notify_add : forall fx t d k fn ev ud, Inv t d -> ids_ok t -> okvalid k ->
  ids_ok (fst (do_notify_add fx t k fn ev ud)).
Proof.
  intros fx t d k fn ev ud HI H Hk. pose proof H as H'. apply ids_ok_r in H. unfold do_notify_add.
  destruct ((match k with Some _ => true | None => false end) && has ev TRIE_NOTIFY_FREE); auto.
  assert (X : exists r1 p nid, (match k with
      | Some kk => match lookup (t_root t) kk true with
                   | Some p => (t_root t, p, t_next t)
                   | None => ins_t fx (t_root t) kk true (t_next t)
                   end
      | None => (t_root t, [], t_next t) end) = (r1, p, nid) /\ ids_r r1 nid).
  { destruct k as [kk|].
    - destruct (lookup (t_root t) kk true).
      + do 3 eexists. split; [reflexivity|]. auto.
      + destruct (ins_t fx (t_root t) kk true (t_next t)) as [[r1 p] nid] eqn:I. destruct Hk as [Hne Hnz].
        do 3 eexists. split; [reflexivity|]. eapply ids_r_ins; eauto; [apply (inv_wf _ _ HI)|apply (inv_hdr _ _ HI)].
    - do 3 eexists. split; [reflexivity|]. auto. }
  destruct X as [r1 [p [nid [E X]]]]. rewrite E.
  destruct (get_at r1 p) as [[i sg fc]|]; [|apply ids_ok_r; exact X].
  destruct (existsb _ (n_nots i)); [apply ids_ok_r; exact X|]. simpl. apply ids_ok_r. simpl. apply ids_r_upd; auto.
Qed.

Lemma ids_notify_del : forall t k fn ev cmp ud, ids_ok t -> ids_ok (fst (do_notify_del t k fn ev cmp ud)).
Proof.
  intros t k fn ev cmp ud H. pose proof H as H'. apply ids_ok_r in H. unfold do_notify_del.
  destruct (match k with Some kk => lookup (t_root t) kk false | None => Some [] end) as [p|]; auto.
  destruct (get_at (t_root t) p) as [[i sg fc]|]; auto.
  destruct (existsb _ (n_nots i)); auto. simpl. apply ids_ok_r. simpl. apply ids_r_release. apply ids_r_upd; auto.
Qed.

(* ---------- qb_map_foreach as one step ---------- *)
Definition take {A : Type} (stop : nat) (l : list A) : list A := if stop =? 0 then l else firstn stop l.

Lemma set_root_same : forall t, set_root t (t_root t) = t.
Proof. destruct t. reflexivity. Qed.

Lemma foreach_step : forall fx t d stop, Inv t d -> ids_ok t ->
  step fx t (OForeach stop) = Ok (t, RUnit, map vis (take stop (al_t (t_root t)))).
Proof.
  intros fx t d stop HI [U B H N]. cbn [step].
  assert (C : iter_ctx (t_root t) [] (t_root t)).
  { constructor; auto. apply (inv_hval _ _ HI). }
  pose proof (foreach_from fx (t_root t) (al_t (t_root t)) (S (size_t (t_root t))) [] (t_root t) stop 0 [] C) as F.
  simpl node_ref in F. unfold mk_iter in F. rewrite H in F. unfold new_iter.
  rewrite F.
  - rewrite set_root_same. simpl. rewrite Nat.sub_0_r. reflexivity.
  - apply after_t_nil.
  - pose proof (proj1 al_len (t_root t)). lia.
  - lia.
Qed.

(* ---------- histories with dictionary operations, notifier registrations and traversals ---------- *)
Inductive iop := IH (h : hop) | IForeach (stop : nat).
Definition iop_op (o : iop) : op := match o with IH h => hop_op h | IForeach s => OForeach s end.
Definition iop_valid (o : iop) : Prop := match o with IH h => hop_valid h | IForeach _ => True end.

(* L enumerates the dictionary d: every entry once, keys strictly ascending in the trie's order klt
   (the order of the signed char values, a proper prefix first: MapTrieOrder.v) *)
Definition enum (d : dict) (L : list (key * val)) : Prop :=
  NoDup (map fst L) /\ (forall k v, In (k, v) L -> d_get d k = Some v) /\
  (forall k v, k <> [] -> d_get d k = Some v -> In (k, v) L) /\ StronglySorted klt (map fst L).

Definition visit_of (kv : key * val) : ev := EVisit (Some (fst kv)) (Some (snd kv)).

Inductive hist_ok : dict -> list iop -> list (out * list ev) -> Prop :=
| HO_nil : forall d, hist_ok d [] []
| HO_dict : forall d o evs hs outs,
    hist_ok (fst (spec_step d o)) hs outs -> hist_ok d (IH (HDict o) :: hs) ((snd (spec_step d o), evs) :: outs)
| HO_nadd : forall d k fn e ud z hs outs, hist_ok d hs outs -> hist_ok d (IH (HNotifyAdd k fn e ud) :: hs) ((RInt z, []) :: outs)
| HO_ndel : forall d k fn e z hs outs, hist_ok d hs outs -> hist_ok d (IH (HNotifyDel k fn e) :: hs) ((RInt z, []) :: outs)
| HO_ndel2 : forall d k fn e ud z hs outs, hist_ok d hs outs -> hist_ok d (IH (HNotifyDel2 k fn e ud) :: hs) ((RInt z, []) :: outs)
| HO_foreach : forall d stop L hs outs, enum d L -> hist_ok d hs outs ->
    hist_ok d (IForeach stop :: hs) ((RUnit, map visit_of (take stop L)) :: outs).

Definition kv_of (i : ninfo) : key * val :=
  match n_key i, n_val i with Some k, Some v => (k, v) | _, _ => ([], 0) end.

Lemma al_enum : forall t d, Inv t d -> ids_ok t ->
  enum d (map kv_of (al_t (t_root t))) /\ map vis (al_t (t_root t)) = map visit_of (map kv_of (al_t (t_root t))).
Proof.
  intros t d HI IO.
  assert (S : forall i, In i (al_t (t_root t)) -> exists k v, n_key i = Some k /\ n_val i = Some v /\ d_get d k = Some v).
  { intros. eapply al_sound; eauto. }
  split; [split; [|split; [|split]]|].
  - rewrite map_map.
    pose proof (al_nodup_keys t d HI (ids_uniq _ IO)) as ND.
    apply nodup_map_inj with (f := n_key); auto.
    intros x y Hx Hy E. destruct (S x Hx) as [k [v [K [V _]]]]. destruct (S y Hy) as [k' [v' [K' [V' _]]]].
    unfold kv_of in E. rewrite K, V, K', V' in E. simpl in E. congruence.
  - intros k v H. apply in_map_iff in H. destruct H as [i [E Hi]]. destruct (S i Hi) as [k' [v' [K [V D]]]].
    unfold kv_of in E. rewrite K, V in E. inversion E; subst. exact D.
  - intros k v Hk D. destruct (al_complete t d k v HI Hk D) as [i [Hi [K V]]].
    apply in_map_iff. exists i. split; auto. unfold kv_of. rewrite K, V. reflexivity.
  - apply (visit_keys_sorted t d HI).
  - rewrite map_map. apply map_ext_in. intros i Hi. destruct (S i Hi) as [k [v [K [V _]]]].
    unfold vis, visit_of, kv_of. rewrite K, V. reflexivity.
Qed.

Lemma take_map : forall (A B : Type) (f : A -> B) stop l, take stop (map f l) = map f (take stop l).
Proof. intros. unfold take. destruct (stop =? 0); auto. apply firstn_map. Qed.

Definition Inv2 (t : trie) (d : dict) : Prop := Inv t d /\ ids_ok t.

Lemma run_iter : forall fx hs t d, f_rm fx = true -> Inv2 t d -> Forall iop_valid hs ->
  exists outs t', run fx t (map iop_op hs) = (outs, Ok t') /\ hist_ok d hs outs.
Proof.
  intro fx. induction hs as [|h hs]; intros t d Hfx [HI IO] Hv.
  - exists [], t. split; auto. constructor.
  - inversion Hv; subst. cbn [map run].
    destruct h as [[o|k fn e ud|k fn e|k fn e ud]|stop]; cbn [iop_op hop_op iop_valid hop_valid] in *.
    + destruct (step_refines fx t d o Hfx HI H1) as [t' [evs [S I']]]. rewrite S.
      assert (IO' : ids_ok t').
      { destruct o as [k v|k|k|]; simpl in S.
        - pose proof (ids_put fx t d k v HI IO H1) as X. destruct (do_put fx t k v). inversion S; subst. exact X.
        - inversion S; subst. exact IO.
        - pose proof (ids_rm fx t k IO) as X. destruct (do_rm fx t k) as [[a b] c]. inversion S; subst. exact X.
        - inversion S; subst. exact IO. }
      destruct (IHhs t' _ Hfx (conj I' IO') H2) as [outs [t'' [R HO]]]. rewrite R.
      exists ((snd (spec_step d o), evs) :: outs), t''. split; auto. constructor. exact HO.
    + pose proof (notify_add_inv fx t d k fn e ud HI H1) as I'. pose proof (ids_notify_add fx t d k fn e ud HI IO H1) as IO'.
      cbn [step]. destruct (do_notify_add fx t k fn e ud) as [t' z]. simpl in I', IO'.
      destruct (IHhs t' d Hfx (conj I' IO') H2) as [outs [t'' [R HO]]]. rewrite R.
      exists ((RInt z, []) :: outs), t''. split; auto. constructor. exact HO.
    + pose proof (notify_del_inv t d k fn e false 0 HI) as I'. pose proof (ids_notify_del t k fn e false 0 IO) as IO'.
      cbn [step]. destruct (do_notify_del t k fn e false 0) as [t' z]. simpl in I', IO'.
      destruct (IHhs t' d Hfx (conj I' IO') H2) as [outs [t'' [R HO]]]. rewrite R.
      exists ((RInt z, []) :: outs), t''. split; auto. constructor. exact HO.
    + pose proof (notify_del_inv t d k fn e true ud HI) as I'. pose proof (ids_notify_del t k fn e true ud IO) as IO'.
      cbn [step]. destruct (do_notify_del t k fn e true ud) as [t' z]. simpl in I', IO'.
      destruct (IHhs t' d Hfx (conj I' IO') H2) as [outs [t'' [R HO]]]. rewrite R.
      exists ((RInt z, []) :: outs), t''. split; auto. constructor. exact HO.
    + pose proof (foreach_step fx t d stop HI IO) as F. rewrite F.
      destruct (IHhs t d Hfx (conj HI IO) H2) as [outs [t'' [R HO]]]. rewrite R.
      destruct (al_enum t d HI IO) as [EN EQ].
      exists ((RUnit, map vis (take stop (al_t (t_root t)))) :: outs), t''. split; auto.
      rewrite <- take_map, EQ, take_map. constructor; auto.
Qed.

(* C17 (trie, iteration): in every history of dictionary operations, notifier registrations and qb_map_foreach
   calls (complete, or abandoned by the callback at its stop-th call) no error state is reached - in particular the
   traversal never runs out of fuel -, the dictionary operations answer like the dictionary, and every traversal
   visits the first [stop] entries (all of them for stop = 0) of a duplicate-free enumeration of exactly the present
   keys with their values, leaving the map unchanged *)
Theorem trie_foreach_all_histories : forall fx hs, f_rm fx = true -> Forall iop_valid hs ->
  exists outs t', run fx trie_init (map iop_op hs) = (outs, Ok t') /\ hist_ok [] hs outs.
Proof.
  intros fx hs Hfx Hv. apply run_iter; auto. split; [apply inv_init | apply ids_init].
Qed.
