(* C11: the blackbox keeps an unbroken run of the latest records ending with the very last one. *)
From Coq Require Import ZArith List Bool Lia ZifyBool.
Import ListNotations.
Require Import Verif.gen.Consts_rb Verif.gen.Consts_rbow Verif.RbModel Verif.RbSpec Verif.RbMem Verif.RbProofs
               Verif.RbRefine Verif.RbOwSpec Verif.RbOwProofs Verif.RbOwKeeps Verif.BbModel.
Local Open Scope Z_scope.

Ltac Zify.zify_post_hook ::= Z.div_mod_to_equations.

Lemma bb_consts_ok :
  BBO_SIZEOF_U32 = 4 /\ BBO_SIZEOF_U8 = 1 /\ 0 <= BBO_SIZEOF_TIMESPEC /\ 0 < BBO_LOG_MAX_LEN /\
  BBO_MIN_ENTRY_SIZE <= 4 * BBO_SIZEOF_U32 + BBO_SIZEOF_U8 + BBO_SIZEOF_TIMESPEC + 1 /\
  BBO_LOG_MAX_LEN = BB_LOG_MAX_LEN.
Proof. vm_compute. repeat split; congruence. Qed.

(* ------------------------------------------------------------------ sizes *)
Lemma zlen_le32 : forall v, zlen (le32 v) = 4.
Proof. reflexivity. Qed.

Lemma zlen_encode : forall r, zlen (bb_encode r) = 4 * 4 + 1 + zlen (r_fn r) + zlen (r_ts r) + zlen (r_msg r).
Proof.
  intros r. unfold bb_encode. rewrite !zlen_app, !zlen_le32.
  replace (zlen [r_prio r mod 256]) with 1 by reflexivity. lia.
Qed.

(* what the serializer is trusted with: it produces at most `limit' bytes *)
Definition ser_ok (maxline : Z) (c : logcall) : Prop :=
  (lc_len1 c < maxline -> zlen (lc_m1 c) = lc_len1 c) /\ zlen (lc_m2 c) <= bb_fallback_limit maxline.
(* ... and the same for the unrepaired code, whose second call is limited by QB_LOG_MAX_LEN only *)
Definition ser_ok_unfixed (maxline : Z) (c : logcall) : Prop :=
  (lc_len1 c < maxline -> zlen (lc_m1 c) = lc_len1 c) /\ zlen (lc_m2 c) <= bb_fallback_limit_unfixed maxline.

Lemma msg_le_maxline : forall maxline c, ser_ok maxline c ->
  zlen (bb_msg maxline (lc_len1 c) (lc_m1 c) (lc_m2 c)) <= maxline.
Proof.
  intros maxline c (H1 & H2). unfold bb_msg, bb_uses_fallback, bb_fallback_limit in *.
  destruct (maxline <=? lc_len1 c) eqn:E; lia.
Qed.

(* reserve >= commit *)
Lemma commit_le_reserve : forall maxline c, ser_ok maxline c -> zlen (r_ts (lc_hdr c)) = BBO_SIZEOF_TIMESPEC ->
  zlen (bb_encode (lc_rec maxline c)) <= bb_reserve maxline (r_fn (lc_hdr c)).
Proof.
  intros maxline c Hs Hts. pose proof (msg_le_maxline maxline c Hs) as Hm.
  rewrite zlen_encode. unfold lc_rec, with_msg, bb_reserve, bb_fixed in *. cbn [r_fn r_ts r_msg].
  destruct bb_consts_ok as (-> & -> & _). lia.
Qed.

(* ------------------------------------------------------------------ one log call = one alloc + commit *)
Lemma ow_alloc_ok : forall b q rlen, Repr b q -> ovw b = true ->
  has_room (rW b) (drop_until (rW b) q rlen) rlen = true -> exists b1 p, alloc b rlen = AOk b1 p.
Proof.
  intros b q rlen HR Ho Hroom.
  destruct (ow_make_room_repr q _ b rlen HR (fuel_enough _ _ HR)) as (b1 & rc & Hm & _ & _ & _ & _ & _ & Hrc).
  rewrite Hroom in Hrc. subst rc. unfold alloc. rewrite Ho, Hm. change (0 =? 0) with true. cbv iota.
  unfold alloc_header. eexists; eexists; reflexivity.
Qed.

Lemma bb_vlogger_as_write : forall b maxline hdr len1 m1 m2 b',
  let rlen := bb_reserve maxline (r_fn hdr) in
  let chunk := bb_encode (with_msg hdr (bb_msg maxline len1 m1 m2)) in
  (exists b1 p, alloc b rlen = AOk b1 p) -> alloc_commit b rlen chunk = WRet b' 0 ->
  bb_vlogger b maxline hdr len1 m1 m2 =
  (Some b', BoLog rlen (if bb_uses_fallback maxline len1 then Some (bb_fallback_limit maxline) else None) 0 chunk).
Proof.
  intros b maxline hdr len1 m1 m2 b' rlen chunk (b1 & p & Ha) Hac.
  unfold bb_vlogger, alloc_commit in *. fold rlen chunk. fold rlen in Hac. rewrite Ha in *.
  destruct (commit _ _) as (b2, r). inversion Hac; subst. reflexivity.
Qed.

(* a well-formed log call on a ring opened for S *)
Definition call_ok (S maxline n : Z) (c : logcall) : Prop :=
  ser_ok maxline c /\ zlen (r_ts (lc_hdr c)) = BBO_SIZEOF_TIMESPEC /\
  bb_reserve maxline (r_fn (lc_hdr c)) <= S /\                       (* the reservation is within the requested size *)
  zlen (bb_encode (lc_rec maxline c)) <= n.                          (* the reader's buffer takes the record *)

Definition lc_out (maxline : Z) (c : logcall) : bbout :=
  BoLog (bb_reserve maxline (r_fn (lc_hdr c)))
        (if bb_uses_fallback maxline (lc_len1 c) then Some (bb_fallback_limit maxline) else None)
        0 (bb_encode (lc_rec maxline c)).

Definition lc_wchunk (maxline : Z) (c : logcall) : wchunk := bb_wchunk maxline (with_msg (lc_rec maxline c) (r_msg (lc_rec maxline c))).

Lemma lc_wchunk_eq : forall maxline c,
  lc_wchunk maxline c = (bb_reserve maxline (r_fn (lc_hdr c)), bb_encode (lc_rec maxline c)).
Proof. intros; reflexivity. Qed.

Lemma call_ok_wf_w : forall S maxline n c, call_ok S maxline n c -> wf_w S (lc_wchunk maxline c).
Proof.
  intros S maxline n c (Hs & Hts & Hr & _). rewrite lc_wchunk_eq. unfold wf_w; cbn [fst snd].
  pose proof (commit_le_reserve maxline c Hs Hts). pose proof (zlen_nonneg (bb_encode (lc_rec maxline c))). lia.
Qed.

(* every log call succeeds (the blackbox never closes itself) and is exactly one reserve+commit on the ring *)
Lemma bb_run_logs : forall S maxline n calls b s, S + RB_CHUNK_MARGIN + RB_SIZE_EXTRA <= 4 * rW b ->
  Inv b s -> ovw b = true -> Forall (call_ok S maxline n) calls ->
  exists b' s', bb_run (Some b) (map (lc_op maxline) calls) = (Some b', map (lc_out maxline) calls) /\
                ow_writes b (map (lc_wchunk maxline) calls) = Some b' /\ Inv b' s'.
Proof.
  intros S maxline n. induction calls as [|c t IH]; intros b s HS HI Ho Hok; cbn [map bb_run ow_writes].
  - exists b, s. splits; try reflexivity; assumption.
  - inversion Hok as [|? ? Hc Ht]; subst.
    pose proof (call_ok_wf_w _ _ _ _ Hc) as Hwf. rewrite lc_wchunk_eq in *. unfold wf_w in Hwf; cbn [fst snd] in Hwf.
    set (rlen := bb_reserve maxline (r_fn (lc_hdr c))) in *. set (chunk := bb_encode (lc_rec maxline c)) in *.
    destruct Hwf as (Hd & Hr).
    assert (Hroom : has_room (rW b) (drop_until (rW b) (sq s) rlen) rlen = true).
    { destruct (drop_until_room (rW b) rlen (sq s)) as [H | (_ & H)]; [exact H|].
      rewrite (has_room_single_max (rW b) S rlen HS Hr) in H. discriminate. }
    destruct (ow_spec_write (rW b) s rlen chunk 0) as (s1, y) eqn:Hsp.
    destruct (ow_alloc_commit_refines b s rlen chunk 0 HI Ho Hd _ _ Hsp) as (b1 & r & Hac & HI1 & Hy & Hr01 & HW1 & Ho1).
    unfold ow_spec_write in Hsp. rewrite Hroom in Hsp.
    assert (Hy0 : y = Some (0, [])) by congruence.
    assert (r = 0).
    { destruct Hr01 as [-> | ->]; [reflexivity|]. rewrite einval_nz in Hy. rewrite Hy0 in Hy.
      inversion Hy; lia. }
    subst r. rewrite Hac. change (0 =? 0) with true. cbv iota.
    cbn [bb_step lc_op].
    destruct HI as (HR & Hsem).
    rewrite (bb_vlogger_as_write b maxline (lc_hdr c) (lc_len1 c) (lc_m1 c) (lc_m2 c) b1
               (ow_alloc_ok b (sq s) rlen HR Ho Hroom) Hac).
    rewrite <- HW1 in HS.
    destruct (IH b1 s1 HS HI1 Ho1 Ht) as (b2 & s2 & Hrun & Hws & HI2).
    rewrite Hrun. exists b2, s2. splits; try assumption. reflexivity.
Qed.

(* ------------------------------------------------------------------ suffixes under map *)
Lemma suffix_map_inv : forall A B (f : A -> B) k m, suffix k (map f m) -> exists l, suffix l m /\ k = map f l.
Proof.
  intros A B f k m Hs. exists (lastn (length k) m). split; [apply lastn_suffix|].
  rewrite lastn_map. apply suffix_lastn. exact Hs.
Qed.

(* ------------------------------------------------------------------ the blackbox theorem *)
(* R = the largest reservation: header + longest function name + max_line_length *)
Theorem bb_keeps_latest : forall S maxline n R calls, size_ok S -> Forall (call_ok S maxline n) calls ->
  Forall (fun c => bb_reserve maxline (r_fn (lc_hdr c)) <= R) calls ->
  exists b kept,
    bb_run (bb_open S) (map (lc_op maxline) calls) = (Some b, map (lc_out maxline) calls) /\
    suffix kept calls /\ (calls <> [] -> kept <> []) /\
    (forall l, suffix l calls -> Z.of_nat (length l) * (R + 16) <= S -> suffix l kept) /\
    bb_dump b n = map (fun c => bb_encode (lc_rec maxline c)) kept.
Proof.
  intros S maxline n R calls Hs Hok HR.
  pose proof Hs as (HS0 & Hmax).
  destruct (open_inv S false true HS0 Hmax) as (HI & Ho & _).
  pose proof (rb_open_W S false true) as (_ & HW).
  destruct (bb_run_logs S maxline n calls _ _ HW HI Ho Hok) as (b & s & Hrun & Hws & _).
  assert (Hwf : Forall (wf_w S) (map (lc_wchunk maxline) calls)).
  { apply Forall_forall. intros w Hw. apply in_map_iff in Hw. destruct Hw as (c & <- & Hc).
    rewrite Forall_forall in Hok. eapply call_ok_wf_w. apply Hok. exact Hc. }
  assert (Hn : Forall (fun w : wchunk => zlen (snd w) <= n) (map (lc_wchunk maxline) calls)).
  { apply Forall_forall. intros w Hw. apply in_map_iff in Hw. destruct Hw as (c & <- & Hc).
    rewrite Forall_forall in Hok. destruct (Hok c Hc) as (_ & _ & _ & H). exact H. }
  destruct (ow_suffix S false _ n Hs Hwf Hn) as (b' & kept' & Hws' & Hsuf & Hne & Hfit & _ & Hrb & _).
  rewrite Hws in Hws'. inversion Hws'; subst b'. clear Hws'.
  destruct (suffix_map_inv _ _ _ _ _ Hsuf) as (kept & Hk & ->).
  exists b, kept. unfold bb_open. splits; try assumption.
  - intros Hc Hk0. apply Hne; [destruct calls; [congruence | discriminate] | subst kept; reflexivity].
  - intros l Hl Hlen.
    assert (Hl' : suffix (map (lc_wchunk maxline) l) (map (lc_wchunk maxline) kept)).
    { apply Hfit; [apply suffix_map; exact Hl|].
      apply rfits_from_uniform with (R := R).
      - apply Forall_forall. intros w Hw. apply in_map_iff in Hw. destruct Hw as (c & <- & Hc).
        destruct Hl as (p & Hp). assert (Hin : In c calls) by (rewrite Hp; apply in_or_app; right; exact Hc).
        rewrite Forall_forall in Hok, HR. pose proof (call_ok_wf_w _ _ _ _ (Hok c Hin)) as (Hd & _).
        rewrite lc_wchunk_eq in *. cbn [fst snd] in *. split; [exact Hd | exact (HR c Hin)].
      - rewrite map_length. lia. }
    apply suffix_of_suffix with (m := calls); try assumption.
    apply suffix_length in Hl'. rewrite !map_length in Hl'. exact Hl'.
  - unfold bb_dump. rewrite Hrb. rewrite map_map. reflexivity.
Qed.

(* dumps do not change the blackbox: the state after any mix of log calls and dumps is the state after the log calls *)
Definition is_log (o : bbop) : bool := match o with BLog _ _ _ _ _ => true | BDump _ => false end.
Lemma bb_run_ignores_dumps : forall ops st, fst (bb_run st ops) = fst (bb_run st (filter is_log ops)).
Proof.
  induction ops as [|o t IH]; intros st; cbn [filter bb_run]; [reflexivity|].
  destruct o as [ml h l1 m1 m2 | n]; cbn [is_log].
  - cbn [bb_run]. destruct (bb_step st (BLog ml h l1 m1 m2)) as (st1, x).
    specialize (IH st1). destruct (bb_run st1 t) as (st2, xs). destruct (bb_run st1 (filter is_log t)) as (st3, xs').
    cbn [fst] in *. exact IH.
  - assert (Hst : fst (bb_step st (BDump n)) = st) by (destruct st; reflexivity).
    destruct (bb_step st (BDump n)) as (st1, x). cbn [fst] in Hst. subst st1.
    specialize (IH st). destruct (bb_run st t) as (st2, xs). cbn [fst] in *. exact IH.
Qed.

(* ------------------------------------------------------------------ records are recovered from their chunks *)
Definition rec_ok (r : bbrec) : Prop :=
  0 <= r_lineno r < two32 /\ 0 <= r_tags r < two32 /\ 0 <= r_prio r < 256 /\
  0 < zlen (r_fn r) /\ zlen (r_fn r) < two32 /\ zlen (r_ts r) = BBO_SIZEOF_TIMESPEC /\
  0 < zlen (r_msg r) <= BBO_LOG_MAX_LEN.

Lemma de32_le32 : forall v, 0 <= v < two32 -> de32 (le32 v) = v.
Proof. intros v Hv. unfold de32, le32. cbn [nth]. apply word_bytes. exact Hv. Qed.

Lemma take_app : forall (a rest : list Z), take (zlen a) (a ++ rest) = (a, rest).
Proof.
  intros a rest. unfold take. rewrite to_nat_zlen. f_equal.
  - rewrite firstn_app, firstn_all, Nat.sub_diag. cbn [firstn]. apply app_nil_r.
  - rewrite skipn_app, skipn_all, Nat.sub_diag. reflexivity.
Qed.

Lemma take4 : forall v rest, take 4 (le32 v ++ rest) = (le32 v, rest).
Proof. reflexivity. Qed.

Theorem decode_encode : forall r, rec_ok r -> bb_decode (bb_encode r) = Some r.
Proof.
  intros r (Hl & Ht & Hp & Hf0 & Hf1 & Hts & Hm).
  destruct bb_consts_ok as (E4 & E1 & Hts0 & Hmax0 & Hmin & _).
  unfold bb_decode. rewrite zlen_encode. rewrite Hts.
  destruct (4 * 4 + 1 + zlen (r_fn r) + BBO_SIZEOF_TIMESPEC + zlen (r_msg r) <? BBO_MIN_ENTRY_SIZE) eqn:E0; [lia|].
  unfold bb_encode. rewrite E4, E1.
  rewrite take4. cbv beta iota. rewrite take4. cbv beta iota.
  change (take 1 ([r_prio r mod 256] ++ le32 (zlen (r_fn r)) ++ r_fn r ++ r_ts r ++ le32 (zlen (r_msg r)) ++ r_msg r))
    with ([r_prio r mod 256], le32 (zlen (r_fn r)) ++ r_fn r ++ r_ts r ++ le32 (zlen (r_msg r)) ++ r_msg r).
  cbv beta iota. rewrite take4. cbv beta iota. rewrite (de32_le32 (zlen (r_fn r))) by (split; [lia | exact Hf1]).
  destruct (4 * 4 + 1 + zlen (r_fn r) + BBO_SIZEOF_TIMESPEC + zlen (r_msg r) <? zlen (r_fn r) + BBO_MIN_ENTRY_SIZE) eqn:E2; [lia|].
  destruct (zlen (r_fn r) <=? 0) eqn:E3; [lia|].
  rewrite take_app. cbv beta iota. rewrite <- Hts. rewrite take_app. cbv beta iota. rewrite take4. cbv beta iota.
  rewrite (de32_le32 (zlen (r_msg r))) by (unfold two32; vm_compute in Hmax0; unfold BBO_LOG_MAX_LEN in *; lia).
  destruct (BBO_LOG_MAX_LEN <? zlen (r_msg r)) eqn:E4'; [lia|].
  destruct (zlen (r_msg r) <=? 0) eqn:E5; [lia|]. cbn [orb].
  rewrite <- (app_nil_r (r_msg r)) at 2. rewrite take_app. cbv beta iota.
  rewrite !de32_le32 by assumption. cbn [nth]. rewrite Z.mod_small by lia.
  destruct r; reflexivity.
Qed.
