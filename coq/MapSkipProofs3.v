(* MapSkipProofs3 - C18 for the pointer-level skiplist model (MapSkipModel.v, variant kv_fixed): memory safety for
   EVERY interleaving of iterator create / next / free with put / get / rm / count / foreach / notify / destroy and
   every sequence of random() answers.  Proofs about the model only.

   The invariant is [SGood] of MapSkipProofs2.v with
     - the reference count of a linked node (and of the header) = 1 + the number of iterators parked on it,
     - the removed nodes that parked iterators still hold ("zombies"): level -1, reference count = the number of
       iterators parked on them (>= 1), unlinked from every level, still owning their forward array.          *)
From Coq Require Import List NArith ZArith Bool Arith Lia Sorted.
Require Import Verif.MapSpec Verif.MapHashModel Verif.MapSkipModel Verif.MapRefModel Verif.MapRefProofs Verif.MapHashProofs2 Verif.MapSkipProofs2.
Import ListNotations.

(* ---------- moving the invariant between states and parameters ---------- *)
Lemma sgood_transfer : forall (RP RP' : nat -> nat -> Prop) (ZP ZP' : nat -> snode -> Prop) Zs Zs' s s' C0,
  SGood RP ZP Zs s C0 ->
  (forall x, In x (HEADER :: C0 ++ Zs') -> dnode s' x = dnode s x) ->
  (forall x n, In x (HEADER :: C0 ++ Zs') -> dnode s x = Ok n -> darr s' (sn_fwd n) = darr s (sn_fwd n)) ->
  k_level s' = k_level s -> k_length s' = k_length s -> k_alive s' = k_alive s ->
  (forall z, In z Zs' -> In z Zs) ->
  (forall id r, In id (HEADER :: C0) -> RP id r -> RP' id r) -> (forall z m, In z Zs' -> ZP z m -> ZP' z m) ->
  SGood RP' ZP' Zs' s' C0.
Proof.
  intros RP RP' ZP ZP' Zs Zs' s s' C0 G DN DA LV LN AL ZI WR WZ.
  assert (INC : forall x, In x C0 -> In x (HEADER :: C0 ++ Zs')) by (intros; right; apply in_or_app; auto).
  assert (INU : forall x, In x (HEADER :: C0 ++ Zs') -> In x (HEADER :: C0 ++ Zs)).
  { intros x [Hx|Hx]. left; auto. right. apply in_app_or in Hx. apply in_or_app. destruct Hx; auto. }
  assert (KEY : forall x, In x C0 -> nkey s' x = nkey s x) by (intros; unfold nkey; rewrite DN; auto).
  assert (LVL : forall x, In x C0 -> nlvl s' x = nlvl s x) by (intros; unfold nlvl; rewrite DN; auto).
  assert (CH : forall l, chain s' C0 l = chain s C0 l).
  { intros. unfold chain. apply filter_ext_in'. intros. unfold at_level. rewrite LVL; auto. }
  assert (LIVE : forall x, In x (HEADER :: C0 ++ Zs') -> exists n, dnode s x = Ok n).
  { intros x Hx. apply INU in Hx. destruct Hx as [Hx|Hx]. subst. destruct (sg_hdr _ _ _ _ _ G) as [h [H1 _]]. eauto.
    apply in_app_or in Hx. destruct Hx as [Hx|Hx]. destruct (sg_node _ _ _ _ _ G x Hx) as [m [k [M1 _]]]. eauto.
    destruct (sg_z _ _ _ _ _ G x Hx) as [[m [M1 _]] _]. eauto. }
  assert (FW : forall x l, In x (HEADER :: C0) -> fwd s' x l = fwd s x l).
  { intros x l Hx. assert (Hx' : In x (HEADER :: C0 ++ Zs')) by (destruct Hx; [left|right; apply in_or_app]; auto).
    destruct (LIVE x Hx') as [n N]. unfold fwd. rewrite DN, N by auto. cbn [bind]. rewrite (DA x n Hx' N). reflexivity. }
  constructor.
  - destruct (sg_hdr _ _ _ _ _ G) as [h [H1 [H2 H3]]]. exists h. rewrite DN by (left; auto). split; auto. split; auto. apply WR; auto. left; auto.
  - intros x Hx. destruct (sg_node _ _ _ _ _ G x Hx) as [m [k [M1 [M2 [M3 [M4 M5]]]]]]. exists m, k. rewrite DN, LV by auto.
    repeat split; auto; try lia. apply WR; auto. right; auto.
  - destruct (sg_own _ _ _ _ _ G) as [OA OI]. constructor.
    + intros x m Hx M. rewrite DN in M by auto. rewrite (DA x m Hx M). apply (OA x m); auto.
    + intros x y m1 m2 Hx Hy M1 M2. rewrite DN in M1, M2 by auto. apply (OI x y m1 m2); auto.
  - intros z Hz. destruct (sg_z _ _ _ _ _ G z (ZI z Hz)) as [[m [M1 M2]] [Z1 Z2]]. split; auto.
    exists m. rewrite DN by (right; apply in_or_app; auto). auto.
  - eapply ss_ext. 2: apply (sg_sorted _ _ _ _ _ G). intros a b Ha Hb. unfold klt. rewrite !KEY; auto.
  - intros l Hl. rewrite CH. apply (linked_ext s).
    + intros y Hy. apply FW. destruct Hy as [Hy|Hy]. left; auto. right. unfold chain in Hy. apply filter_In in Hy. apply Hy.
    + apply (sg_linked _ _ _ _ _ G l Hl).
  - rewrite LV. apply (sg_level _ _ _ _ _ G).
  - rewrite LN. apply (sg_length _ _ _ _ _ G).
  - rewrite AL. apply (sg_alive _ _ _ _ _ G).
  - intros h0. rewrite DN by (left; auto). apply (sg_hlvl _ _ _ _ _ G).
Qed.

Lemma sgood_add_zombie : forall (RP : nat -> nat -> Prop) (ZP : nat -> snode -> Prop) Zs s C0 y n,
  SGood RP ZP Zs s C0 -> dnode s y = Ok n -> ZP y n -> y <> HEADER -> ~ In y C0 ->
  (exists a, darr s (sn_fwd n) = Ok a /\ length a = S LEVEL_MAX) ->
  (forall z m, In z (HEADER :: C0 ++ Zs) -> dnode s z = Ok m -> sn_fwd m <> sn_fwd n) ->
  SGood RP ZP (y :: Zs) s C0.
Proof.
  intros RP ZP Zs s C0 y n G N ZY NH NC AR DIS.
  assert (SPLIT : forall x, In x (HEADER :: C0 ++ y :: Zs) -> x = y \/ In x (HEADER :: C0 ++ Zs)).
  { intros x [Hx|Hx]. right; left; auto. apply in_app_or in Hx. destruct Hx as [Hx|[Hx|Hx]]; auto.
    right; right; apply in_or_app; auto. right; right; apply in_or_app; auto. }
  destruct (sg_own _ _ _ _ _ G) as [OA OI].
  constructor; try (destruct G; assumption).
  - constructor.
    + intros x m Hx M. destruct (SPLIT x Hx) as [Q|Q].
      * subst x. rewrite N in M. inversion M; subst m. exact AR.
      * apply (OA x m); auto.
    + intros x z m1 m2 Hx Hz M1 M2 Q. destruct (SPLIT x Hx) as [Q1|Q1], (SPLIT z Hz) as [Q2|Q2].
      * congruence.
      * subst x. rewrite N in M1. inversion M1; subst m1. exfalso. apply (DIS z m2 Q2 M2). auto.
      * subst z. rewrite N in M2. inversion M2; subst m2. exfalso. apply (DIS x m1 Q1 M1). auto.
      * apply (OI x z m1 m2); auto.
  - intros z [Hz|Hz].
    + subst z. split; eauto.
    + apply (sg_z _ _ _ _ _ G z Hz).
Qed.

(* ---------- successors: skiplist_node_next of a linked node, skiplist_lookup_after of a removed node's key ---------- *)
(* b: the key the iterator stands on (None: before the first entry) *)
Definition above (b : option key) (k : key) : bool := match b with None => true | Some bk => key_ltb bk k end.
(* nx is the linked node with the least key above b *)
Definition Succ (s : kstate) (C0 : list nat) (b : option key) (nx : option nat) : Prop :=
  match nx with
  | None => forall y, In y C0 -> above b (nkey s y) = false
  | Some x => In x C0 /\ above b (nkey s x) = true /\
              forall y, In y C0 -> key_ltb (nkey s y) (nkey s x) = true -> above b (nkey s y) = false
  end.

Lemma above_mono : forall b k1 k2, above b k1 = false -> key_ltb k2 k1 = true -> above b k2 = false.
Proof.
  intros [bk|] k1 k2; simpl; intros; [|discriminate].
  destruct (key_ltb bk k2) eqn:E; auto. rewrite (key_ltb_trans _ _ _ E H0) in H. discriminate.
Qed.

Section LookupAfter.
Variable RP : nat -> nat -> Prop.
Variable ZP : nat -> snode -> Prop.
Variable Zs : list nat.
Variable s : kstate.
Variable C0 : list nat.
Hypothesis G : SGood RP ZP Zs s C0.

Lemma hdr_not_in : ~ In HEADER C0.
Proof. intro Q. destruct (sg_node _ _ _ _ _ G HEADER Q) as [_ [_ [_ [_ [_ [_ Q2]]]]]]. congruence. Qed.

(* the position c in the level-0 chain, the bound at or above c and below the node after c *)
Lemma succ_at_pos : forall pre c T b, HEADER :: C0 = pre ++ c :: T ->
  (c = HEADER \/ above b (nkey s c) = false) -> (forall y, hd_error T = Some y -> above b (nkey s y) = true) ->
  Succ s C0 b (hd_error T).
Proof.
  intros pre c T b E LE GT. generalize (sg_sorted _ _ _ _ _ G). intro SS. generalize hdr_not_in. intro HN.
  assert (POS : (pre = [] /\ c = HEADER /\ C0 = T) \/ (exists pre_t, C0 = pre_t ++ c :: T /\ c <> HEADER)).
  { destruct pre as [|h0 pre_t]; simpl in E; injection E as EH EC.
    - left. auto.
    - right. exists pre_t. split; auto. intro; subst c. apply HN. rewrite EC. apply in_or_app; right; left; auto. }
  assert (BEFORE : forall y, In y C0 -> In y T \/ above b (nkey s y) = false).
  { intros y Hy. destruct POS as [[P1 [P2 P3]]|[pre_t [P1 P2]]].
    - left. rewrite <- P3. auto.
    - destruct LE as [LE|LE]; [contradiction|].
      rewrite P1 in Hy. apply in_app_or in Hy. destruct Hy as [Hy|[Hy|Hy]]; auto; right.
      + eapply above_mono. exact LE. rewrite P1 in SS. apply (ss_app_lt _ _ _ y c SS Hy). left; auto.
      + subst y. auto. }
  assert (TC : forall y, In y T -> In y C0).
  { intros y Hy. destruct POS as [[P1 [P2 P3]]|[pre_t [P1 P2]]]. rewrite P3; auto. rewrite P1. apply in_or_app. right; right; auto. }
  assert (SST : StronglySorted (klt s) T).
  { destruct POS as [[P1 [P2 P3]]|[pre_t [P1 P2]]]. rewrite <- P3; auto. rewrite P1 in SS. apply ss_app_r in SS. inversion SS; auto. }
  destruct T as [|x T']; cbn [hd_error Succ].
  - intros y Hy. destruct (BEFORE y Hy) as [[]|Q]; auto.
  - split. apply TC; left; auto. split. apply GT; auto.
    intros y Hy LT. destruct (BEFORE y Hy) as [[Q|Q]|Q]; auto.
    + subst y. rewrite key_ltb_irrefl in LT. discriminate.
    + inversion SST; subst. eapply Forall_forall in H2; eauto. unfold klt in H2. rewrite (key_ltb_asym _ _ H2) in LT. discriminate.
Qed.

Definition valid_at (lv : nat) (c : nat) : Prop := c = HEADER \/ (In c C0 /\ at_level s lv c = true).
Definition lek (k : key) (c : nat) : Prop := c = HEADER \/ key_ltb k (nkey s c) = false.

Lemma filter_length_le' : forall {A} (p : A -> bool) l, length (filter p l) <= length l.
Proof. induction l; simpl; auto. destruct (p a); simpl; lia. Qed.

Lemma valid_split : forall lv c, lv <= LEVEL_MAX -> valid_at lv c ->
  exists pre T, HEADER :: chain s C0 lv = pre ++ c :: T /\ Linked s lv c T.
Proof.
  intros lv c Hl [V|[V1 V2]].
  - subst c. exists [], (chain s C0 lv). split; auto. apply (sg_linked _ _ _ _ _ G lv Hl).
  - assert (IN : In c (chain s C0 lv)) by (unfold chain; apply filter_In; auto).
    apply in_split in IN. destruct IN as [pre [post E]]. exists (HEADER :: pre), post. split. rewrite E. reflexivity.
    eapply linked_suffix. apply (sg_linked _ _ _ _ _ G lv Hl). exact E.
Qed.

Lemma chain_member : forall lv x, In x (chain s C0 lv) -> In x C0 /\ at_level s lv x = true.
Proof. intros. unfold chain in H. apply filter_In in H. auto. Qed.

Lemma lal_ok : forall k lv T fuel pre c, HEADER :: chain s C0 lv = pre ++ c :: T -> Linked s lv c T -> length T < fuel ->
  exists pre' c' T', lookup_after_level fuel s k c lv = Ok c' /\ HEADER :: chain s C0 lv = pre' ++ c' :: T' /\ Linked s lv c' T' /\
    (c' = c \/ (In c' C0 /\ at_level s lv c' = true /\ key_ltb k (nkey s c') = false)) /\
    (forall y, hd_error T' = Some y -> key_ltb k (nkey s y) = true).
Proof.
  induction T; intros fuel pre c E L Hf.
  - destruct fuel; [simpl in Hf; lia|]. cbn [lookup_after_level]. simpl in L. rewrite L. cbn [bind].
    exists pre, c, []. repeat split; auto. intros y Q; discriminate.
  - destruct fuel; [simpl in Hf; lia|]. cbn [lookup_after_level]. destruct L as [L1 L2]. rewrite L1. cbn [bind].
    assert (AIN : In a (chain s C0 lv)).
    { assert (In a (HEADER :: chain s C0 lv)) by (rewrite E; apply in_or_app; right; right; left; auto).
      destruct H as [H|H]; auto. exfalso. subst a.
      assert (In HEADER (chain s C0 lv)).
      { destruct pre as [|h0 pre_t]; simpl in E; injection E as EH EC.
        - rewrite EC. left; auto.
        - rewrite EC. apply in_or_app; right; right; left; auto. }
      apply chain_member in H. apply hdr_not_in. apply H. }
    destruct (chain_member lv a AIN) as [AC AL].
    destruct (sg_node _ _ _ _ _ G a AC) as [m [ka [M1 [M2 _]]]]. rewrite M1. cbn [bind]. rewrite M2.
    assert (KA : nkey s a = ka) by (eapply nkey_some; eauto).
    destruct (key_ltb k ka) eqn:LT.
    + exists pre, c, (a :: T). repeat split; auto. intros y Q. simpl in Q. inversion Q; subst y. rewrite KA. auto.
    + destruct (IHT fuel (pre ++ [c]) a) as [pre' [c' [T' [Q1 [Q2 [Q3 [Q4 Q5]]]]]]].
      rewrite <- app_assoc. exact E. exact L2. simpl in Hf; lia.
      exists pre', c', T'. repeat split; auto. destruct Q4 as [Q4|Q4]; auto. subst c'. right. rewrite KA. auto.
Qed.

Lemma at_level_down : forall lv x, at_level s (S lv) x = true -> at_level s lv x = true.
Proof. unfold at_level. intros. apply Nat.leb_le in H. apply Nat.leb_le. lia. Qed.

Lemma lal_valid : forall k lv c, lv <= LEVEL_MAX -> valid_at lv c -> lek k c ->
  exists pre' c' T', lookup_after_level (search_fuel s) s k c lv = Ok c' /\ valid_at lv c' /\ lek k c' /\
    HEADER :: chain s C0 lv = pre' ++ c' :: T' /\ (forall y, hd_error T' = Some y -> key_ltb k (nkey s y) = true).
Proof.
  intros k lv c Hl V LE. destruct (valid_split lv c Hl V) as [pre [T [E L]]].
  destruct (lal_ok k lv T (search_fuel s) pre c E L) as [pre' [c' [T' [Q1 [Q2 [Q3 [Q4 Q5]]]]]]].
  { assert (length (HEADER :: chain s C0 lv) <= S (length C0)) by (simpl; generalize (filter_length_le' (at_level s lv) C0); unfold chain; lia).
    rewrite E, app_length in H. simpl in H. unfold search_fuel. generalize (sgood_len _ _ _ _ _ G). lia. }
  exists pre', c', T'. split; auto. destruct Q4 as [Q4|[Q4 [Q6 Q7]]].
  - subst c'. auto.
  - split. right; auto. split. right; auto. auto.
Qed.

Lemma lals_ok : forall k lv c, lv <= LEVEL_MAX -> valid_at lv c -> lek k c ->
  exists pre' c' T', lookup_after_levels s k c (rev (seq 0 (S lv))) = Ok c' /\ lek k c' /\
    HEADER :: C0 = pre' ++ c' :: T' /\ (forall y, hd_error T' = Some y -> key_ltb k (nkey s y) = true).
Proof.
  induction lv; intros c Hl V LE.
  - cbn [seq rev app lookup_after_levels]. destruct (lal_valid k 0 c Hl V LE) as [pre' [c' [T' [Q1 [Q2 [Q3 [Q4 Q5]]]]]]]. rewrite Q1. cbn [bind].
    exists pre', c', T'. rewrite chain_level0 in Q4. auto.
  - rewrite seq_S, rev_app_distr. cbn [rev app plus lookup_after_levels].
    destruct (lal_valid k (S lv) c Hl V LE) as [pre1 [c1 [T1 [Q1 [Q2 [Q3 _]]]]]]. rewrite Q1. cbn [bind].
    apply IHlv; auto. lia. destruct Q2 as [Q2|[Q2 Q6]]. left; auto. right. split; auto. apply at_level_down; auto.
Qed.

Lemma valid0_linked : forall pre c T, HEADER :: C0 = pre ++ c :: T -> Linked s 0 c T.
Proof.
  intros. generalize (sg_linked _ _ _ _ _ G 0 (Nat.le_0_l _)). rewrite chain_level0. intro L.
  destruct pre as [|h0 pre_t]; simpl in H; injection H as EH EC.
  - rewrite <- EH, <- EC. auto.
  - eapply linked_suffix. exact L. exact EC.
Qed.

Lemma lookup_after_ok : forall k, exists nx, k_lookup_after s k = Ok nx /\ Succ s C0 (Some k) nx.
Proof.
  intros k. unfold k_lookup_after, levels_down. generalize (sg_level _ _ _ _ _ G). intro LV.
  assert (FIN : forall pre c T, lek k c -> HEADER :: C0 = pre ++ c :: T -> (forall y, hd_error T = Some y -> key_ltb k (nkey s y) = true) ->
                exists nx, fwd s c 0 = Ok nx /\ Succ s C0 (Some k) nx).
  { intros pre c T LE E GT. exists (hd_error T). split. apply linked_head. eapply valid0_linked; eauto.
    eapply succ_at_pos; eauto. }
  destruct (Z.ltb (k_level s) 0) eqn:NEG.
  - cbn [lookup_after_levels bind]. apply Z.ltb_lt in NEG.
    assert (C0 = []). { destruct C0 as [|n l]; auto. destruct (sg_node _ _ _ _ _ G n) as [m [k0 [_ [_ [_ [Q _]]]]]]. left; auto. lia. }
    apply (FIN [] HEADER C0). left; auto. reflexivity. rewrite H. intros y Q; discriminate.
  - apply Z.ltb_ge in NEG. destruct (lals_ok k (Z.to_nat (k_level s)) HEADER) as [pre' [c' [T' [Q1 [Q2 [Q3 Q4]]]]]].
    unfold LEVEL_MAX. lia. left; auto. left; auto. rewrite Q1. cbn [bind]. eapply FIN; eauto.
Qed.
End LookupAfter.

(* ---------- the invariant with parked iterators ---------- *)
Definition inc (cnt : nat -> nat) (x : nat) : nat -> nat := fun id => if Nat.eqb id x then S (cnt id) else cnt id.
Definition dec (cnt : nat -> nat) (x : nat) : nat -> nat := fun id => if Nat.eqb id x then pred (cnt id) else cnt id.
(* a linked node (and the header): one reference of the list plus one per parked iterator *)
Definition RPP (cnt : nat -> nat) : nat -> nat -> Prop := fun id r => r = S (cnt id).
(* a removed node: marked, still carrying its key zk z, kept by the iterators parked on it and by nothing else *)
Definition ZPP (cnt : nat -> nat) (zk : nat -> key) : nat -> snode -> Prop :=
  fun z n => sn_key n = Some (zk z) /\ (sn_level n < 0)%Z /\ sn_ref n = cnt z /\ 1 <= cnt z.

Lemma rpp_pos : forall cnt id r, RPP cnt id r -> 1 <= r.
Proof. unfold RPP. intros. lia. Qed.

Record KInv (cnt : nat -> nat) (zk : nat -> key) (s : kstate) (C0 Zs : list nat) : Prop := {
  ki_good : SGood (RPP cnt) (ZPP cnt zk) Zs s C0;
  ki_pin : forall id, 1 <= cnt id -> In id (HEADER :: C0 ++ Zs)
}.

Definition same_tab (s s' : kstate) : Prop := k_iters s' = k_iters s /\ k_used s' = k_used s /\ k_alive s' = k_alive s.
Definition keys_same (s s' : kstate) (C0 : list nat) : Prop := forall y, In y C0 -> sent s' y = sent s y.

Lemma keys_same_nkey : forall s s' C0 y, keys_same s s' C0 -> In y C0 -> nkey s' y = nkey s y.
Proof. intros. rewrite <- !sent_key. rewrite H; auto. Qed.

Lemma sent_put_same : forall s id n n' y, dnode s id = Ok n -> sn_key n' = sn_key n -> sn_val n' = sn_val n -> sn_subs n' = sn_subs n ->
  sent (put_node s id n') y = sent s y.
Proof.
  intros. unfold sent. rewrite dnode_put_node by (eapply dnode_lt; eauto). destruct (Nat.eqb id y) eqn:E; auto.
  apply Nat.eqb_eq in E. subst. rewrite H, H0, H1, H2. reflexivity.
Qed.

Lemma kinv_disj : forall cnt zk s C0 Zs x, KInv cnt zk s C0 Zs -> In x (HEADER :: C0) -> In x Zs -> False.
Proof.
  intros. destruct (sg_z _ _ _ _ _ (ki_good _ _ _ _ _ H) x H1) as [_ [Z1 Z2]]. destruct H0; auto.
Qed.

Lemma kinv_chain_node : forall cnt zk s C0 Zs x, KInv cnt zk s C0 Zs -> In x (HEADER :: C0) ->
  exists n, dnode s x = Ok n /\ sn_ref n = S (cnt x) /\ (0 <= sn_level n)%Z.
Proof.
  intros cnt zk s C0 Zs x K [Hx|Hx].
  - subst x. destruct (sg_hdr _ _ _ _ _ (ki_good _ _ _ _ _ K)) as [h [H1 [H2 H3]]]. exists h. split; auto. split; auto.
    apply (sg_hlvl _ _ _ _ _ (ki_good _ _ _ _ _ K)); auto.
  - destruct (sg_node _ _ _ _ _ (ki_good _ _ _ _ _ K) x Hx) as [m [k [M1 [M2 [M3 [M4 M5]]]]]]. exists m. split; auto. split; auto. lia.
Qed.

(* parking one more iterator on a linked node *)
Lemma kinv_bump : forall cnt zk s C0 Zs x xn, KInv cnt zk s C0 Zs -> In x (HEADER :: C0) -> dnode s x = Ok xn ->
  KInv (inc cnt x) zk (put_node s x (bumpk xn)) C0 Zs.
Proof.
  intros cnt zk s C0 Zs x xn K Hx N. destruct (kinv_chain_node _ _ _ _ _ x K Hx) as [n [N1 [N2 N3]]]. rewrite N in N1. inversion N1; subst n.
  constructor.
  - eapply (sgood_put_gen (RPP cnt) (ZPP cnt zk) Zs (RPP (inc cnt x)) (ZPP (inc cnt x) zk)). apply (ki_good _ _ _ _ _ K).
    + destruct Hx; [left|right; apply in_or_app]; auto.
    + exact N.
    + reflexivity.
    + reflexivity.
    + intros _. split. reflexivity. unfold RPP, inc. simpl. rewrite Nat.eqb_refl. lia.
    + intros Q. exfalso. eapply kinv_disj; eauto.
    + intros y r Hy. unfold RPP, inc. replace (Nat.eqb y x) with false by (symmetry; apply Nat.eqb_neq; auto). auto.
    + intros z m Hz. unfold ZPP, inc. replace (Nat.eqb z x) with false by (symmetry; apply Nat.eqb_neq; auto). auto.
  - intros id Hid. unfold inc in Hid. destruct (Nat.eqb id x) eqn:E.
    + apply Nat.eqb_eq in E. subst id. destruct Hx; [left|right; apply in_or_app]; auto.
    + apply (ki_pin _ _ _ _ _ K); auto.
Qed.

Lemma same_tab_put_node : forall s x n, same_tab s (put_node s x n).
Proof. intros. repeat split. Qed.

(* an iterator leaves the node it was parked on *)
Lemma kinv_deref : forall cnt zk s C0 Zs p, KInv cnt zk s C0 Zs -> 1 <= cnt p ->
  exists s' ns Zs', k_node_deref kv_fixed s p = Ok (s', ns) /\ KInv (dec cnt p) zk s' C0 Zs' /\ same_tab s s' /\
    keys_same s s' C0 /\ (forall z, In z Zs' -> In z Zs) /\ (forall z, In z Zs -> z <> p \/ 2 <= cnt p -> In z Zs').
Proof.
  intros cnt zk s C0 Zs p K CP. generalize (ki_pin _ _ _ _ _ K p CP). intro PU.
  assert (PU' : In p (HEADER :: C0) \/ In p Zs).
  { destruct PU as [Q|Q]. left; left; auto. apply in_app_or in Q. destruct Q; auto. left; right; auto. }
  assert (DECO : forall y, y <> p -> dec cnt p y = cnt y).
  { intros. unfold dec. replace (Nat.eqb y p) with false by (symmetry; apply Nat.eqb_neq; auto). auto. }
  assert (DECP : dec cnt p p = pred (cnt p)) by (unfold dec; rewrite Nat.eqb_refl; auto).
  destruct PU' as [PC|PZ].
  - (* a linked node or the header: the list keeps it *)
    destruct (kinv_chain_node _ _ _ _ _ p K PC) as [n [N1 [N2 N3]]].
    rewrite (deref_store_ok s p n N1) by lia. exists (put_node s p (lower_ref n)), [], Zs. split; auto.
    split; [|split; [apply same_tab_put_node|split; [|split; auto]]].
    + constructor.
      * eapply (sgood_put_gen (RPP cnt) (ZPP cnt zk) Zs (RPP (dec cnt p)) (ZPP (dec cnt p) zk)). apply (ki_good _ _ _ _ _ K).
        { exact PU. }
        { exact N1. }
        { reflexivity. }
        { reflexivity. }
        { intros _. split. reflexivity. unfold RPP. simpl. rewrite N2, DECP. lia. }
        { intros Q. exfalso. eapply kinv_disj; eauto. }
        { intros y r Hy. unfold RPP. rewrite DECO; auto. }
        { intros z m Hz. unfold ZPP. rewrite DECO; auto. }
      * intros id Hid. destruct (Nat.eq_dec id p). subst; auto. rewrite DECO in Hid by auto. apply (ki_pin _ _ _ _ _ K); auto.
    + intros y _. eapply sent_put_same; eauto.
  - (* a removed node *)
    destruct (sg_z _ _ _ _ _ (ki_good _ _ _ _ _ K) p PZ) as [[n [N1 [Z1 [Z2 [Z3 Z4]]]]] [PH PNC]].
    destruct (Nat.eq_dec (cnt p) 1) as [ONE|MORE].
    + (* the last iterator: the node is destroyed now *)
      destruct (own_arr _ _ (sg_own _ _ _ _ _ (ki_good _ _ _ _ _ K)) p n PU N1) as [a [A1 A2]].
      destruct (sg_hdr _ _ _ _ _ (ki_good _ _ _ _ _ K)) as [h [H1 _]].
      destruct (deref_destroy_ok s p n (zk p) a h N1) as [s' [P1 [P2 [P3 [P4 [P5 [P6 [P7 [P8 P9]]]]]]]]]; auto. lia.
      set (Zs' := filter (fun z => negb (Nat.eqb z p)) Zs).
      assert (ZS' : forall z, In z Zs' <-> In z Zs /\ z <> p).
      { intros. unfold Zs'. rewrite filter_In. rewrite negb_true_iff, Nat.eqb_neq. tauto. }
      assert (NP : forall x, In x (HEADER :: C0 ++ Zs') -> x <> p /\ In x (HEADER :: C0 ++ Zs)).
      { intros x [Hx|Hx]. subst. split; auto. left; auto. apply in_app_or in Hx. destruct Hx as [Hx|Hx].
        split. intro; subst; contradiction. right; apply in_or_app; auto.
        apply ZS' in Hx. destruct Hx. split; auto. right; apply in_or_app; auto. }
      eexists s', _, Zs'. split; [exact P1|]. split; [|split; [repeat split; auto|split; [|split]]].
      * constructor.
        { eapply (sgood_transfer (RPP cnt) (RPP (dec cnt p)) (ZPP cnt zk) (ZPP (dec cnt p) zk) Zs Zs' s s'). apply (ki_good _ _ _ _ _ K).
          { intros x Hx. apply P2. apply NP; auto. }
          { intros x m Hx M. apply P3. intro Q. destruct (NP x Hx) as [X1 X2]. apply X1.
            apply (own_inj _ _ (sg_own _ _ _ _ _ (ki_good _ _ _ _ _ K)) x p m n); auto. }
          { auto. } { auto. } { auto. }
          { intros z Hz. apply ZS' in Hz. apply Hz. }
          { intros id r Hid. unfold RPP. rewrite DECO; auto. intro; subst. destruct Hid; auto. }
          { intros z m Hz. apply ZS' in Hz. unfold ZPP. rewrite DECO; auto. apply Hz. } }
        { intros id Hid. destruct (Nat.eq_dec id p). subst. rewrite DECP in Hid. lia. rewrite DECO in Hid by auto.
          generalize (ki_pin _ _ _ _ _ K id Hid). intros [Q|Q]. left; auto. right. apply in_app_or in Q. apply in_or_app.
          destruct Q; auto. right. apply ZS'. auto. }
      * intros y Hy. unfold sent. rewrite P2; auto. intro; subst; contradiction.
      * intros z Hz. apply ZS' in Hz. apply Hz.
      * intros z Hz [Q|Q]. apply ZS'; auto. lia.
    + rewrite (deref_store_ok s p n N1) by lia. exists (put_node s p (lower_ref n)), [], Zs. split; auto.
      split; [|split; [apply same_tab_put_node|split; [|split; auto]]].
      * constructor.
        { eapply (sgood_put_gen (RPP cnt) (ZPP cnt zk) Zs (RPP (dec cnt p)) (ZPP (dec cnt p) zk)). apply (ki_good _ _ _ _ _ K).
          { exact PU. }
          { exact N1. }
          { reflexivity. }
          { reflexivity. }
          { intros Q. exfalso. eapply kinv_disj; eauto. }
          { intros _. unfold ZPP. simpl. rewrite DECP. repeat split; auto; lia. }
          { intros y r Hy. unfold RPP. rewrite DECO; auto. }
          { intros z m Hz. unfold ZPP. rewrite DECO; auto. } }
        { intros id Hid. destruct (Nat.eq_dec id p). subst; auto. rewrite DECO in Hid by auto. apply (ki_pin _ _ _ _ _ K); auto. }
      * intros y _. eapply sent_put_same; eauto.
Qed.

(* the key an iterator parked on p stands on *)
Definition PB (s : kstate) (C0 Zs : list nat) (zk : nat -> key) (p : nat) (b : option key) : Prop :=
  (p = HEADER /\ b = None) \/ (In p C0 /\ b = Some (nkey s p)) \/ (In p Zs /\ b = Some (zk p)).

Lemma pb_fun : forall cnt zk s C0 Zs p b1 b2, KInv cnt zk s C0 Zs -> PB s C0 Zs zk p b1 -> PB s C0 Zs zk p b2 -> b1 = b2.
Proof.
  intros cnt zk s C0 Zs p b1 b2 K H1 H2.
  assert (HN : ~ In HEADER C0) by (eapply hdr_not_in; apply (ki_good _ _ _ _ _ K)).
  destruct H1 as [[A1 A2]|[[A1 A2]|[A1 A2]]], H2 as [[B1 B2]|[[B1 B2]|[B1 B2]]]; subst; auto; exfalso;
    try contradiction; try (eapply kinv_disj; eauto; try (left; reflexivity); try (right; assumption); fail).
Qed.

(* the successor of a parked position: forward[0] for a linked node, lookup_after for a removed one - in both cases
   the linked node with the least key above the key the iterator stands on *)
Lemma kinv_succ : forall cnt zk s C0 Zs p pn, KInv cnt zk s C0 Zs -> 1 <= cnt p -> dnode s p = Ok pn ->
  exists nx b, (if kx_removed kv_fixed && Z.ltb (sn_level pn) 0
              then match sn_key pn with Some pk => k_lookup_after s pk | None => Err NullDeref end
              else node_next (search_fuel s) s p) = Ok nx /\ PB s C0 Zs zk p b /\ Succ s C0 b nx.
Proof.
  intros cnt zk s C0 Zs p pn K CP N. generalize (ki_pin _ _ _ _ _ K p CP). intro PU. simpl kx_removed. cbn [andb].
  generalize (ki_good _ _ _ _ _ K). intro G.
  assert (PU' : In p (HEADER :: C0) \/ In p Zs).
  { destruct PU as [Q|Q]. left; left; auto. apply in_app_or in Q. destruct Q; auto. left; right; auto. }
  destruct PU' as [PC|PZ].
  - destruct (kinv_chain_node _ _ _ _ _ p K PC) as [n [N1 [N2 N3]]]. rewrite N in N1. inversion N1; subst n.
    replace (Z.ltb (sn_level pn) 0) with false by (symmetry; apply Z.ltb_ge; auto).
    apply in_split in PC. destruct PC as [pre [T E]].
    assert (LT : Linked s 0 p T) by (eapply valid0_linked; eauto).
    assert (TC : forall x, In x T -> In x C0).
    { intros x Hx. destruct pre as [|h0 pre_t]; simpl in E; injection E as EH EC. rewrite EC; auto. rewrite EC. apply in_or_app; right; right; auto. }
    set (b := if Nat.eqb p HEADER then None else Some (nkey s p)).
    exists (hd_error T), b. split; [|split].
    + apply (node_next_ok (RPP cnt) (ZPP cnt zk) Zs (rpp_pos cnt) s C0 p T G LT TC).
    + unfold b. destruct (Nat.eqb p HEADER) eqn:EP.
      * apply Nat.eqb_eq in EP. left; auto.
      * apply Nat.eqb_neq in EP. right; left. split; auto.
        destruct pre as [|h0 pre_t]; simpl in E; injection E as EH EC. congruence. rewrite EC. apply in_or_app; right; left; auto.
    + eapply (succ_at_pos _ _ _ s C0 G pre p T b E).
      * unfold b. destruct (Nat.eqb p HEADER) eqn:EP. apply Nat.eqb_eq in EP; auto. right. simpl. apply key_ltb_irrefl.
      * intros y Hy. unfold b. destruct (Nat.eqb p HEADER) eqn:EP; auto. simpl. apply Nat.eqb_neq in EP.
        destruct T as [|x T']; simpl in Hy; inversion Hy; subst x.
        destruct pre as [|h0 pre_t]; simpl in E; injection E as EH EC. congruence.
        generalize (sg_sorted _ _ _ _ _ G). rewrite EC. intro SS. apply ss_app_r in SS. inversion SS; subst.
        eapply Forall_forall in H2. 2:{ left; reflexivity. } exact H2.
  - destruct (sg_z _ _ _ _ _ G p PZ) as [[n [N1 [Z1 [Z2 [Z3 Z4]]]]] [PH PNC]]. rewrite N in N1. inversion N1; subst n.
    replace (Z.ltb (sn_level pn) 0) with true by (symmetry; apply Z.ltb_lt; auto). rewrite Z1.
    destruct (lookup_after_ok (RPP cnt) (ZPP cnt zk) Zs s C0 G (zk p)) as [nx [X1 X2]].
    exists nx, (Some (zk p)). split; auto. split; auto. right; right; auto.
Qed.

Definition kvk' (s : kstate) (x : nat) : key * val := kv (sent s x).

(* skiplist_iter_next from a parked position, whatever happened to the list since the iterator stopped there *)
Lemma kinv_iter_next : forall cnt zk s C0 Zs p, KInv cnt zk s C0 Zs -> 1 <= cnt p ->
  exists s' pos1 r ns Zs' b, k_iter_next kv_fixed s (Some p) = Ok (s', pos1, r, ns) /\
    KInv (match pos1 with Some x => dec (inc cnt x) p | None => dec cnt p end) zk s' C0 Zs' /\ same_tab s s' /\
    keys_same s s' C0 /\ (forall z, In z Zs' -> In z Zs) /\ (forall z, In z Zs -> z <> p \/ 2 <= cnt p -> In z Zs') /\
    PB s C0 Zs zk p b /\ Succ s C0 b pos1 /\ r = option_map (kvk' s') pos1.
Proof.
  intros cnt zk s C0 Zs p K CP. generalize (ki_pin _ _ _ _ _ K p CP). intro PU.
  assert (PL : exists pn, dnode s p = Ok pn).
  { destruct PU as [Q|Q]. subst. destruct (sg_hdr _ _ _ _ _ (ki_good _ _ _ _ _ K)) as [h [H1 _]]; eauto.
    apply in_app_or in Q. destruct Q as [Q|Q]. destruct (sg_node _ _ _ _ _ (ki_good _ _ _ _ _ K) p Q) as [m [k [M1 _]]]; eauto.
    destruct (sg_z _ _ _ _ _ (ki_good _ _ _ _ _ K) p Q) as [[m [M1 _]] _]; eauto. }
  destruct PL as [pn N]. unfold k_iter_next. rewrite N. cbn [bind].
  destruct (kinv_succ cnt zk s C0 Zs p pn K CP N) as [nx [b [X1 [XB X2]]]]. rewrite X1. cbn [bind].
  destruct nx as [x|].
  - assert (XC : In x C0) by (apply X2).
    destruct (sg_node _ _ _ _ _ (ki_good _ _ _ _ _ K) x XC) as [xn [kx [M1 [M2 _]]]]. rewrite M1. cbn [bind]. fold (bumpk xn).
    assert (K1 : KInv (inc cnt x) zk (put_node s x (bumpk xn)) C0 Zs) by (apply kinv_bump; auto; right; auto).
    assert (CP1 : 1 <= inc cnt x p). { unfold inc. destruct (Nat.eqb p x); lia. }
    destruct (kinv_deref _ _ _ _ _ p K1 CP1) as [s2 [ns [Zs' [D1 [D2 [D3 [D4 [D5 D6]]]]]]]]. rewrite D1. cbn [bind].
    destruct (sg_node _ _ _ _ _ (ki_good _ _ _ _ _ D2) x XC) as [xn2 [kx2 [M1' [M2' _]]]]. rewrite M1'. cbn [bind]. rewrite M2'.
    eexists s2, (Some x), _, ns, Zs', b. split; [reflexivity|]. split; auto. split; auto. split.
    { intros y Hy. rewrite D4 by auto. eapply sent_put_same; eauto. }
    split; auto. split.
    { intros z Hz Q. apply D6; auto. destruct Q; auto. right. unfold inc. destruct (Nat.eqb p x); lia. }
    split; auto. split; auto. simpl. unfold kvk'. rewrite (sent_node _ _ _ _ M1' M2'). reflexivity.
  - destruct (kinv_deref _ _ _ _ _ p K CP) as [s2 [ns [Zs' [D1 [D2 [D3 [D4 [D5 D6]]]]]]]]. rewrite D1. cbn [bind].
    eexists s2, None, None, ns, Zs', b. split; [reflexivity|]. split; [exact D2|]. split; [exact D3|]. split; [exact D4|].
    split; [exact D5|]. split; [exact D6|]. split; [exact XB|]. split; [exact X2|reflexivity].
Qed.

Lemma kinv_iter_free : forall cnt zk s C0 Zs p, KInv cnt zk s C0 Zs -> 1 <= cnt p ->
  exists s' ns Zs', k_iter_free kv_fixed s (Some p) = Ok (s', ns) /\ KInv (dec cnt p) zk s' C0 Zs' /\ same_tab s s' /\
    keys_same s s' C0 /\ (forall z, In z Zs' -> In z Zs) /\ (forall z, In z Zs -> z <> p \/ 2 <= cnt p -> In z Zs').
Proof. intros. unfold k_iter_free. simpl kx_iter_free. cbv iota. eapply kinv_deref; eauto. Qed.

Lemma kinv_iter_create : forall cnt zk s C0 Zs, KInv cnt zk s C0 Zs ->
  exists h, k_iter_create s = Ok (put_node s HEADER (bumpk h)) /\ KInv (inc cnt HEADER) zk (put_node s HEADER (bumpk h)) C0 Zs /\
    keys_same s (put_node s HEADER (bumpk h)) C0.
Proof.
  intros. destruct (sg_hdr _ _ _ _ _ (ki_good _ _ _ _ _ H)) as [h [H1 _]]. exists h. unfold k_iter_create. rewrite H1. cbn [bind].
  split. reflexivity. split. apply kinv_bump; auto. left; auto. intros y _. eapply sent_put_same; eauto.
Qed.

(* ---------- the operations that are not iterator operations, with iterators parked anywhere ---------- *)
Lemma kinv_fresh : forall cnt zk s C0 Zs, KInv cnt zk s C0 Zs -> cnt (length (k_nodes s)) = 0.
Proof.
  intros cnt zk s C0 Zs K. destruct (cnt (length (k_nodes s))) eqn:E; auto. exfalso.
  assert (PU : In (length (k_nodes s)) (HEADER :: C0 ++ Zs)) by (apply (ki_pin _ _ _ _ _ K); lia).
  assert (exists n, dnode s (length (k_nodes s)) = Ok n).
  { destruct PU as [Q|Q]. rewrite <- Q. destruct (sg_hdr _ _ _ _ _ (ki_good _ _ _ _ _ K)) as [h [H1 _]]; eauto.
    apply in_app_or in Q. destruct Q as [Q|Q]. destruct (sg_node _ _ _ _ _ (ki_good _ _ _ _ _ K) _ Q) as [m [k [M1 _]]]; eauto.
    destruct (sg_z _ _ _ _ _ (ki_good _ _ _ _ _ K) _ Q) as [[m [M1 _]] _]; eauto. }
  destruct H as [m M]. apply dnode_lt in M. lia.
Qed.

Lemma kinv_of_kstep : forall cnt zk s C0 Zs rc o orc, KInv cnt zk s C0 Zs -> (forall k, o <> Rm k) ->
  kstep_ok (RPP cnt) (ZPP cnt zk) Zs rc s C0 o orc ->
  exists s' x ns, k_step kv_fixed rc s o orc = Ok (s', x, ns) /\
    (k_alive s' = false \/ ((exists C0', KInv cnt zk s' C0' Zs /\ (forall y, In y C0 -> In y C0' /\ nkey s' y = nkey s y)) /\
                            k_iters s' = k_iters s /\ k_used s' = k_used s)).
Proof.
  intros cnt zk s C0 Zs rc o orc K NR [s' [C0' [x [x' [ns [E1 [_ [_ E4]]]]]]]]. exists s', x, ns. split; auto.
  destruct E4 as [[G' [IT [US [MEM KEYS]]]]|D]; auto. right. split; auto. exists C0'.
  assert (SUB : forall y, In y C0 -> In y C0').
  { intros y Hy. destruct (sg_node _ _ _ _ _ (ki_good _ _ _ _ _ K) y Hy) as [m [k [M1 _]]]. apply (MEM y m Hy M1). right; auto. }
  split.
  - constructor; auto.
    intros id Hid. generalize (ki_pin _ _ _ _ _ K id Hid). intros [Q|Q]. left; auto. right. apply in_app_or in Q. apply in_or_app.
    destruct Q as [Q|Q]; auto.
  - intros y Hy. split; auto.
Qed.

Lemma kinv_plain : forall cnt zk s C0 Zs rc o orc, KInv cnt zk s C0 Zs -> is_iter_op o = false -> (forall k, o <> Rm k) ->
  exists s' x ns, k_step kv_fixed rc s o orc = Ok (s', x, ns) /\
    (k_alive s' = false \/ ((exists C0', KInv cnt zk s' C0' Zs /\ (forall y, In y C0 -> In y C0' /\ nkey s' y = nkey s y)) /\
                            k_iters s' = k_iters s /\ k_used s' = k_used s)).
Proof.
  intros cnt zk s C0 Zs rc o orc K NI NR. apply (kinv_of_kstep cnt zk s C0 Zs rc o orc K NR).
  generalize (ki_good _ _ _ _ _ K). intro G. destruct o; try discriminate.
  - apply kstep_put; auto. unfold RPP. rewrite (kinv_fresh _ _ _ _ _ K). reflexivity.
  - apply (kstep_get _ _ _ rc s C0 k G).
  - exfalso. apply (NR k); auto.
  - apply (kstep_count _ _ _ rc s C0 G).
  - apply (kstep_foreach _ _ _ (rpp_pos cnt) rc s C0 stop G).
  - apply (kstep_notify_add _ _ _ rc s C0 k fn ev ud G).
  - apply (kstep_notify_del _ _ _ rc s C0 k fn ev ud G).
  - apply (kstep_destroy _ _ _ (rpp_pos cnt) rc s C0 G).
Qed.

(* removal under parked iterators: the node is destroyed only when no iterator holds it *)
Lemma kinv_rm : forall cnt zk s C0 Zs k, KInv cnt zk s C0 Zs ->
  exists s' b ns C0' Zs' zk', k_rm kv_fixed s k = Ok (s', b, ns) /\ KInv cnt zk' s' C0' Zs' /\ same_tab s s' /\
    (forall z, In z Zs -> In z Zs' /\ zk' z = zk z) /\
    ((s' = s /\ C0' = C0 /\ (forall y, In y C0 -> nkey s y <> k)) \/
     (exists lo y hi', C0 = lo ++ y :: hi' /\ C0' = lo ++ hi' /\ nkey s y = k /\ (forall z, In z C0' -> nkey s' z = nkey s z) /\
        (1 <= cnt y -> In y Zs' /\ zk' y = k))).
Proof.
  intros cnt zk s C0 Zs k K. generalize (ki_good _ _ _ _ _ K). intro G.
  destruct (rm_found (RPP cnt) (ZPP cnt zk) Zs (rpp_pos cnt) s C0 k G)
    as [[A1 A2]|[lo [y [hi' [ny [h [s' [ns [E [N1 [N2 [H1 [A1 [G' [DS [LN [US [AL [IT CS]]]]]]]]]]]]]]]]]]].
  { exists s, false, [], C0, Zs, zk. split; auto. split; auto. split. repeat split. split; auto. }
  assert (YC : In y C0) by (rewrite E; apply in_or_app; right; left; auto).
  destruct (sg_node _ _ _ _ _ G y YC) as [ny0 [ky0 [N1' [_ [N3 [_ N5]]]]]]. rewrite N1 in N1'. inversion N1'; subst ny0. unfold RPP in N3.
  assert (NDC : NoDup C0) by (eapply sgood_nodup; eauto).
  assert (YN : ~ In y (lo ++ hi')). { rewrite E in NDC. apply NoDup_remove_2 in NDC. auto. }
  assert (SUB : forall id, id <> y -> In id (HEADER :: C0 ++ Zs) -> In id (HEADER :: (lo ++ hi') ++ Zs)).
  { intros id NE [Q|Q]. left; auto. right. apply in_app_or in Q. apply in_or_app. destruct Q as [Q|Q]; auto. left.
    rewrite E in Q. apply in_app_or in Q. apply in_or_app. destruct Q as [Q|[Q|Q]]; auto. congruence. }
  assert (KY : nkey s y = k) by (eapply nkey_some; eauto).
  assert (KS : forall z, In z (lo ++ hi') -> nkey s' z = nkey s z).
  { intros z Hz. unfold nkey. rewrite DS; auto. intro; subst; contradiction. }
  set (zk' := fun z => if Nat.eqb z y then k else zk z).
  assert (ZK : forall z, In z Zs -> zk' z = zk z).
  { intros z Hz. unfold zk'. destruct (Nat.eqb z y) eqn:EQ; auto. apply Nat.eqb_eq in EQ. subst z.
    destruct (sg_z _ _ _ _ _ G y Hz) as [_ [_ Q]]. contradiction. }
  assert (G2 : SGood (RPP cnt) (ZPP cnt zk') Zs s' (lo ++ hi')).
  { eapply (sgood_transfer (RPP cnt) (RPP cnt) (ZPP cnt zk) (ZPP cnt zk') Zs Zs s' s'); eauto.
    intros z m Hz. unfold ZPP. rewrite ZK; auto. }
  destruct CS as [[R1 NS]|[R1 [NS [DY [AY DIS]]]]].
  - (* nobody holds it: destroyed *)
    exists s', true, ns, (lo ++ hi'), Zs, zk'. split; auto. split; [|split; [repeat split; auto|split]].
    + constructor; auto. intros id Hid. apply SUB. intro; subst. lia. apply (ki_pin _ _ _ _ _ K); auto.
    + intros z Hz. split; auto.
    + right. exists lo, y, hi'. repeat split; auto; lia.
  - (* parked iterators keep it *)
    exists s', true, ns, (lo ++ hi'), (y :: Zs), zk'. split; auto. split; [|split; [repeat split; auto|split]].
    + constructor.
      * eapply sgood_add_zombie; eauto.
        unfold ZPP, zk'. simpl. rewrite N2, Nat.eqb_refl. repeat split; try lia.
      * intros id Hid. destruct (Nat.eq_dec id y).
        { subst. right. apply in_or_app. right. left; auto. }
        { generalize (SUB id n (ki_pin _ _ _ _ _ K id Hid)). intros [Q|Q]. left; auto. right. apply in_app_or in Q. apply in_or_app.
          destruct Q; auto. right; right; auto. }
    + intros z Hz. split; auto. right; auto.
    + right. exists lo, y, hi'. repeat split; auto. left; auto. unfold zk'. rewrite Nat.eqb_refl. auto.
Qed.

(* ---------- the caller's iterator table ---------- *)
Definition pw (o : option nat) (id : nat) : nat := match o with Some x => if Nat.eqb id x then 1 else 0 | None => 0 end.
Fixpoint kpc (P : list (option nat)) (id : nat) : nat :=
  match P with [] => 0 | o :: t => pw o id + kpc t id end.

Lemma kpc_mid : forall A o B id, kpc (A ++ o :: B) id = kpc (A ++ B) id + pw o id.
Proof. induction A; simpl; intros. lia. rewrite IHA. lia. Qed.

Lemma tab_split : forall its it pos, NoDup (map fst its) -> kiter_lookup its it = Some pos ->
  exists A B, its = A ++ (it, pos) :: B /\ ~ In it (map fst A) /\ ~ In it (map fst B).
Proof.
  induction its as [|[i p] t]; simpl; intros it pos ND L. discriminate.
  inversion ND; subst. destruct (Nat.eqb i it) eqn:E.
  - apply Nat.eqb_eq in E. subst i. inversion L; subst p. exists [], t. simpl. auto.
  - apply Nat.eqb_neq in E. destruct (IHt it pos H2 L) as [A [B [E1 [E2 E3]]]]. exists ((i, p) :: A), B. subst t. simpl. split; auto.
    split; auto. intros [Q|Q]; auto.
Qed.

Lemma tab_map_other : forall (A : list (nat * option nat)) it q, ~ In it (map fst A) ->
  map (fun p => if Nat.eqb (fst p) it then q else p) A = A.
Proof.
  induction A as [|[i p] A]; simpl; intros; auto. rewrite IHA by tauto.
  replace (Nat.eqb i it) with false by (symmetry; apply Nat.eqb_neq; intro; subst; tauto). reflexivity.
Qed.

Lemma tab_map : forall (A B : list (nat * option nat)) it pos pos1, ~ In it (map fst A) -> ~ In it (map fst B) ->
  map (fun p => if Nat.eqb (fst p) it then (it, pos1) else p) (A ++ (it, pos) :: B) = A ++ (it, pos1) :: B.
Proof. intros. rewrite map_app. simpl. rewrite Nat.eqb_refl. rewrite !tab_map_other; auto. Qed.

Lemma tab_filter_other : forall (A : list (nat * option nat)) it, ~ In it (map fst A) ->
  filter (fun p => negb (Nat.eqb (fst p) it)) A = A.
Proof.
  induction A as [|[i p] A]; simpl; intros; auto.
  replace (Nat.eqb i it) with false by (symmetry; apply Nat.eqb_neq; intro; subst; tauto). simpl. rewrite IHA by tauto. reflexivity.
Qed.

Lemma tab_filter : forall (A B : list (nat * option nat)) it pos, ~ In it (map fst A) -> ~ In it (map fst B) ->
  filter (fun p => negb (Nat.eqb (fst p) it)) (A ++ (it, pos) :: B) = A ++ B.
Proof. intros. rewrite filter_app. simpl. rewrite Nat.eqb_refl. simpl. rewrite !tab_filter_other; auto. Qed.

Lemma kinv_same_heap : forall cnt zk s s' C0 Zs, KInv cnt zk s C0 Zs ->
  k_nodes s' = k_nodes s -> k_arrs s' = k_arrs s -> k_level s' = k_level s -> k_length s' = k_length s -> k_alive s' = k_alive s ->
  KInv cnt zk s' C0 Zs.
Proof.
  intros cnt zk s s' C0 Zs K E1 E2 E3 E4 E5. constructor.
  - eapply (sgood_transfer (RPP cnt) (RPP cnt) (ZPP cnt zk) (ZPP cnt zk) Zs Zs s s'); auto. apply (ki_good _ _ _ _ _ K).
    + intros. unfold dnode. rewrite E1. reflexivity.
    + intros. unfold darr. rewrite E2. reflexivity.
  - apply (ki_pin _ _ _ _ _ K).
Qed.

(* the whole-state invariant: the reference counts are those of the caller's open iterators *)
Definition TInv (s : kstate) : Prop :=
  exists C0 Zs cnt zk, KInv cnt zk s C0 Zs /\ (forall id, cnt id = kpc (map snd (k_iters s)) id) /\
    NoDup (map fst (k_iters s)) /\ (forall i, In i (map fst (k_iters s)) -> In i (k_used s)).
Definition KTop (s : kstate) : Prop := k_alive s = false \/ TInv s.

Lemma ktop_create : KTop k_create.
Proof.
  right. exists [], [], (fun _ => 0), (fun _ => []). split; [|split; [|split]].
  - constructor.
    + apply sgood_create_g. reflexivity.
    + intros. lia.
  - intros. reflexivity.
  - constructor.
  - intros i [].
Qed.

Theorem skip_step_safe : forall rc s o orc, KTop s ->
  exists s' x ns, k_step kv_fixed rc s o orc = Ok (s', x, ns) /\ KTop s'.
Proof.
  intros rc s o orc [D|[C0 [Zs [cnt [zk [K [CNT [ND US]]]]]]]].
  { exists s, OIgnored, []. destruct rc as [[e1 e2] e3]. unfold k_step. rewrite D. simpl. split; auto. left; auto. }
  assert (AL : k_alive s = true) by apply (sg_alive _ _ _ _ _ (ki_good _ _ _ _ _ K)).
  destruct (is_iter_op o) eqn:IO.
  - (* iterator operations *)
    destruct rc as [[e1 e2] e3]. destruct o; try discriminate; unfold k_step; rewrite AL; cbn [negb].
    + (* create *)
      destruct (existsb (Nat.eqb it) (k_used s)) eqn:EX.
      { exists s, OIgnored, []. split; auto. right. exists C0, Zs, cnt, zk. auto. }
      destruct (kinv_iter_create cnt zk s C0 Zs K) as [h [E1 [E2 _]]]. rewrite E1. cbn [bind].
      eexists _, _, _. split; [reflexivity|]. right. exists C0, Zs, (inc cnt HEADER), zk. split; [|split; [|split]].
      * eapply kinv_same_heap. exact E2. all: try reflexivity. simpl. auto.
      * intros id. cbn [k_iters map snd kpc]. unfold inc, pw. rewrite CNT. cbn [k_iters put_node set_nodes]. destruct (Nat.eqb id HEADER); lia.
      * cbn [k_iters map fst put_node set_nodes]. constructor; auto. intro Q. apply US in Q.
        assert (existsb (Nat.eqb it) (k_used s) = true) by (apply existsb_exists; exists it; split; auto; apply Nat.eqb_refl). congruence.
      * cbn [k_iters k_used map fst put_node set_nodes]. intros i [Q|Q]. left; auto. right; auto.
    + (* next *)
      destruct (kiter_lookup (k_iters s) it) as [pos|] eqn:LK.
      2:{ exists s, OIgnored, []. split; auto. right. exists C0, Zs, cnt, zk. auto. }
      destruct (tab_split _ _ _ ND LK) as [A [B [T1 [T2 T3]]]].
      destruct pos as [p|].
      * assert (CP : 1 <= cnt p). { rewrite CNT, T1, map_app. cbn [map snd]. rewrite kpc_mid. unfold pw. rewrite Nat.eqb_refl. lia. }
        destruct (kinv_iter_next cnt zk s C0 Zs p K CP) as [s' [pos1 [r [ns [Zs' [b [E1 [E2 [[E3 [E4 E5]] _]]]]]]]]]. rewrite E1. cbn [bind].
        eexists _, _, _. split; [reflexivity|]. right. rewrite E3, T1, tab_map by auto.
        exists C0, Zs', (match pos1 with Some x => dec (inc cnt x) p | None => dec cnt p end), zk. split; [|split; [|split]].
        { eapply kinv_same_heap. exact E2. all: reflexivity. }
        { intros id. cbn [k_iters set_kiters]. rewrite map_app. cbn [map snd]. rewrite kpc_mid.
          generalize (CNT id). rewrite T1, map_app. cbn [map snd]. rewrite kpc_mid. rewrite <- map_app. intro Q.
          destruct pos1 as [x|]; unfold dec, inc, pw in *.
          - destruct (Nat.eqb id p), (Nat.eqb id x); lia.
          - destruct (Nat.eqb id p); lia. }
        { cbn [k_iters set_kiters]. rewrite T1 in ND. rewrite map_app in *. exact ND. }
        { cbn [k_iters set_kiters k_used]. rewrite E4. intros i Hi. apply US. rewrite T1. rewrite map_app in *. exact Hi. }
      * cbn [k_iter_next bind]. eexists _, _, _. split; [reflexivity|]. right. rewrite T1, tab_map by auto. rewrite <- T1.
        exists C0, Zs, cnt, zk. split; [|split; [|split]]; auto. eapply kinv_same_heap. exact K. all: reflexivity.
    + (* free *)
      destruct (kiter_lookup (k_iters s) it) as [pos|] eqn:LK.
      2:{ exists s, OIgnored, []. split; auto. right. exists C0, Zs, cnt, zk. auto. }
      destruct (tab_split _ _ _ ND LK) as [A [B [T1 [T2 T3]]]].
      assert (NDF : NoDup (map fst (A ++ B))). { rewrite T1 in ND. rewrite map_app in *. cbn [map] in ND. apply NoDup_remove_1 in ND. exact ND. }
      assert (USF : forall i, In i (map fst (A ++ B)) -> In i (k_used s)).
      { intros i Hi. apply US. rewrite T1. rewrite map_app in *. apply in_app_or in Hi. apply in_or_app. destruct Hi; auto. right; right; auto. }
      destruct pos as [p|].
      * assert (CP : 1 <= cnt p). { rewrite CNT, T1, map_app. cbn [map snd]. rewrite kpc_mid. unfold pw. rewrite Nat.eqb_refl. lia. }
        destruct (kinv_iter_free cnt zk s C0 Zs p K CP) as [s' [ns [Zs' [E1 [E2 [[E3 [E4 E5]] _]]]]]]. rewrite E1. cbn [bind].
        eexists _, _, _. split; [reflexivity|]. right. rewrite E3, T1, tab_filter by auto.
        exists C0, Zs', (dec cnt p), zk. split; [|split; [|split]].
        { eapply kinv_same_heap. exact E2. all: reflexivity. }
        { intros id. cbn [k_iters set_kiters].
          generalize (CNT id). rewrite T1, map_app. cbn [map snd]. rewrite kpc_mid. rewrite <- map_app. intro Q.
          unfold dec, pw in *. destruct (Nat.eqb id p); lia. }
        { exact NDF. }
        { cbn [k_iters set_kiters k_used]. rewrite E4. exact USF. }
      * unfold k_iter_free. simpl kx_iter_free. cbv iota. cbn [bind]. eexists _, _, _. split; [reflexivity|]. right. rewrite T1, tab_filter by auto.
        exists C0, Zs, cnt, zk. split; [|split; [|split]]; auto.
        { eapply kinv_same_heap. exact K. all: reflexivity. }
        { intros id. cbn [k_iters set_kiters]. rewrite (CNT id), T1, map_app. cbn [map snd]. rewrite kpc_mid. rewrite <- map_app. simpl. lia. }
  - (* the other operations *)
    assert (RMC : (exists k, o = Rm k) \/ (forall k, o <> Rm k)).
    { destruct o; try (right; intros; discriminate). left; eauto. }
    destruct RMC as [[k RK]|NR].
    + subst o. destruct (kinv_rm cnt zk s C0 Zs k K) as [s' [b [ns [C0' [Zs' [zk' [E1 [E2 [[E3 [E4 E5]] _]]]]]]]]].
      destruct rc as [[e1 e2] e3]. unfold k_step. rewrite AL. cbn [negb]. rewrite E1. cbn [bind].
      eexists _, _, _. split; [reflexivity|]. right. exists C0', Zs', cnt, zk'. rewrite E3, E4. auto.
    + destruct (kinv_plain cnt zk s C0 Zs rc o orc K IO NR) as [s' [x [ns [E1 E2]]]]. exists s', x, ns. split; auto.
      destruct E2 as [E2|[[C0' [E2 _]] [E3 E4]]]. left; auto. right. exists C0', Zs, cnt, zk. rewrite E3, E4. auto.
Qed.

Require Import Verif.MapSkipProofs.

(* C18, memory safety of the pointer-level skiplist: no use after free, no double free, no reference-count
   underflow, no NULL dereference, no exhausted fuel - in ANY history *)
Theorem skip_c18_no_error_from : forall ops s, KTop s -> snd (k_run kv_fixed s ops) = None.
Proof.
  induction ops as [|[o orc] ops]; intros s T; auto. cbn [k_run].
  destruct (skip_step_safe rc_consts s o orc T) as [s' [x [ns [E1 E2]]]]. rewrite E1.
  generalize (IHops s' E2). destruct (k_run kv_fixed s' ops). simpl. auto.
Qed.

Theorem skip_c18_no_error : forall ops, snd (k_run kv_fixed k_create ops) = None.
Proof. intros. apply skip_c18_no_error_from. apply ktop_create. Qed.

(* non-vacuity: an iterator parked on a removed entry - the node is kept, marked, held by exactly that iterator *)
Fixpoint k_state_after (v : kvariant) (s : kstate) (ops : list (op * list Z)) : res kstate :=
  match ops with
  | [] => Ok s
  | (o, orc) :: t => match k_step v rc_consts s o orc with Ok (s', _, _) => k_state_after v s' t | Err e => Err e end
  end.

Lemma skip_c18_example_state :
  match k_state_after kv_fixed k_create [(Put kb 1%N, lvl0); (IterCreate 0 None, []); (IterNext 0, []); (Rm kb, [])] with
  | Ok s => k_iters s = [(0, Some 1)] /\ k_length s = 0%Z /\
            exists n, dnode s 1 = Ok n /\ sn_level n = (-1)%Z /\ sn_ref n = 1 /\ sn_key n = Some kb
  | Err _ => False
  end.
Proof. vm_compute. repeat split. eexists. repeat split. Qed.
