(* C17 / C18 trie part: the trie's key order klt is a strict total order on strings; sorted duplicate-free lists
   with the same elements are equal. *)
From Coq Require Import List ZArith Bool Arith Lia Sorted.
Import ListNotations.
Require Import Verif.gen.Consts_trie Verif.MapTrieModel Verif.MapTrieProofs Verif.MapTrieOrder.

Lemma klt_irrefl : forall a, ~ klt a a.
Proof. induction a; simpl; auto. intros [H|[_ H]]; [lia|auto]. Qed.

Lemma klt_trans : forall a b c, klt a b -> klt b c -> klt a c.
Proof.
  induction a; intros b c H1 H2; destruct b, c; simpl in *; auto; try contradiction.
  destruct H1 as [H1|[E1 H1]]; destruct H2 as [H2|[E2 H2]]; subst.
  - left. lia.
  - left. lia.
  - left. lia.
  - right. split; auto. eapply IHa; eauto.
Qed.

Lemma klt_asym : forall a b, klt a b -> ~ klt b a.
Proof. intros a b H1 H2. apply (klt_irrefl a). eapply klt_trans; eauto. Qed.

(* total on distinct strings (c2i is injective) *)
Lemma klt_total : forall a b, a = b \/ klt a b \/ klt b a.
Proof.
  induction a; destruct b; simpl; auto.
  destruct (Nat.lt_trichotomy (c2i a) (c2i b)) as [H|[H|H]].
  - right. right. left. exact H.
  - apply c2i_inj in H. subst. destruct (IHa b0) as [E|[E|E]].
    + left. congruence.
    + right. left. right. auto.
    + right. right. right. auto.
  - right. left. left. exact H.
Qed.

(* two klt-sorted lists with the same elements are equal *)
Lemma sorted_same_elements : forall l1 l2 : list key, StronglySorted klt l1 -> StronglySorted klt l2 ->
  (forall x, In x l1 <-> In x l2) -> l1 = l2.
Proof.
  induction l1 as [|a l1]; intros l2 S1 S2 H.
  - destruct l2 as [|b l2]; auto. exfalso. apply (proj2 (H b)). simpl. auto.
  - destruct l2 as [|b l2]. { exfalso. apply (proj1 (H a)). simpl. auto. }
    inversion S1 as [|? ? S1' F1]; subst. inversion S2 as [|? ? S2' F2]; subst.
    rewrite Forall_forall in F1, F2.
    assert (E : a = b).
    { destruct (proj1 (H a) (or_introl eq_refl)) as [X|X]; auto.
      destruct (proj2 (H b) (or_introl eq_refl)) as [Y|Y]; auto.
      exfalso. apply (klt_asym a b); auto. }
    subst b. f_equal. apply IHl1; auto. intro x. split; intro Hx.
    + destruct (proj1 (H x) (or_intror Hx)) as [X|X]; auto. subst x. exfalso. apply (klt_irrefl a). apply F1. exact Hx.
    + destruct (proj2 (H x) (or_intror Hx)) as [X|X]; auto. subst x. exfalso. apply (klt_irrefl a). apply F2. exact Hx.
Qed.

Lemma sorted_filter : forall (P : key -> bool) l, StronglySorted klt l -> StronglySorted klt (filter P l).
Proof.
  induction l; simpl; intros; auto. inversion H; subst. destruct (P a); auto. constructor; auto.
  rewrite Forall_forall in *. intros x Hx. apply filter_In in Hx. apply H3. tauto.
Qed.
