(* C08 - the property theorems derived from the invariant, the refutations for the code as found, witnesses. *)
Require Import ZArith List Bool Lia.
Require Import Verif.gen.Consts_loop Verif.LoopModel Verif.LoopProofs_C08a Verif.LoopProofs_C08b Verif.LoopProofs_C08c Verif.LoopProofs_C08d.
Import ListNotations.
Open Scope Z_scope.

(* ------------------------------------------------------------------ reading the log (newest event first) *)
Lemma log_ok_app : forall a b, log_ok (a ++ b) -> log_ok b.
Proof. induction a; cbn; intros b H; [exact H|]. apply IHa. tauto. Qed.
Lemma log_ok_inv_not_gone : forall a k u b, log_ok (a ++ EvInv k u :: b) -> ~ gone b k u.
Proof. intros a k u b H. apply log_ok_app in H. cbn in H. tauto. Qed.

(* once a removal of registration (k, u) is in the log, no later callback entry of it *)
Lemma never_after_delete : forall l post pre k u, log_ok l -> l = post ++ EvDel k u :: pre -> ~ In (EvInv k u) post.
Proof.
  intros l post pre k u L E H. subst l. apply in_split in H. destruct H as (p1 & p2 & ->).
  rewrite <- app_assoc in L. cbn in L. apply log_ok_inv_not_gone in L. apply L. left. apply in_or_app. right. cbn. auto.
Qed.
(* a job (k = 0) or a timer (k = 1) enters its callback at most once *)
Lemma at_most_once : forall l post pre k u, log_ok l -> (k = 0 \/ k = 1) -> l = post ++ EvInv k u :: pre -> ~ In (EvInv k u) post /\ ~ In (EvInv k u) pre.
Proof.
  intros l post pre k u L K E. subst l. split.
  - intros H. apply in_split in H. destruct H as (p1 & p2 & ->). rewrite <- app_assoc in L. cbn in L.
    apply log_ok_inv_not_gone in L. apply L. right. split; [exact K|]. apply in_or_app. right. cbn. auto.
  - intros H. apply log_ok_inv_not_gone in L. apply L. right. auto.
Qed.

(* ------------------------------------------------------------------ statements over all histories *)
Lemma wf_all_histories : forall f beh h rnd, fx_sigdel f = true -> good_rand rnd -> inv (run_history_fx f beh h rnd).
Proof. exact run_history_inv. Qed.

Lemma del_never_again : forall f beh h rnd post pre k u, fx_sigdel f = true -> good_rand rnd ->
  out (run_history_fx f beh h rnd) = post ++ EvDel k u :: pre -> ~ In (EvInv k u) post.
Proof.
  intros f beh h rnd post pre k u F G E. pose proof (run_history_inv f beh h rnd F G) as (_ & _ & _ & _ & _ & (_ & _ & L) & _).
  eapply never_after_delete; eauto.
Qed.
Lemma job_timer_at_most_once : forall f beh h rnd post pre k u, fx_sigdel f = true -> good_rand rnd -> (k = 0 \/ k = 1) ->
  out (run_history_fx f beh h rnd) = post ++ EvInv k u :: pre -> ~ In (EvInv k u) post /\ ~ In (EvInv k u) pre.
Proof.
  intros f beh h rnd post pre k u F G K E. pose proof (run_history_inv f beh h rnd F G) as (_ & _ & _ & _ & _ & (_ & _ & L) & _).
  eapply at_most_once; eauto.
Qed.
(* a removed registration is not registered any more, and the log only removes what was registered *)
Lemma deleted_not_live : forall f beh h rnd k u, fx_sigdel f = true -> good_rand rnd ->
  In (EvDel k u) (out (run_history_fx f beh h rnd)) -> ~ live (run_history_fx f beh h rnd) k u.
Proof.
  intros f beh h rnd k u F G H. pose proof (run_history_inv f beh h rnd F G) as (_ & _ & _ & _ & _ & (_ & G2 & _) & _).
  apply G2. left. exact H.
Qed.

(* a pending timer (slot ACTIVE) has its heap entry, and only pending timers have one *)
Lemma active_timer_on_heap : forall f beh h rnd i t, fx_sigdel f = true -> good_rand rnd ->
  nth_error (timers (run_history_fx f beh h rnd)) i = Some t -> (t_exp t <> None <-> t_state t = Active).
Proof.
  intros f beh h rnd i t F G N. pose proof (run_history_inv f beh h rnd F G) as (_ & (T1 & _) & _). exact (T1 i t N).
Qed.

(* ------------------------------------------------------------------ what the delete calls log when they return 0 *)
Lemma job_del_logs : forall p key st, fst (job_del p key st) = 0 ->
  exists u k, out (snd (job_del p key st)) = EvDel 0 u :: out st /\ k = key /\
              (In (QJob u k) (wait (lv st p)) \/ In (QJob u k) (jobq (lv st p))).
Proof.
  intros p key st. unfold job_del. destruct (remove_first (is_job_key key) (wait (lv st p))) as [[it r]|] eqn:R.
  - intros _. destruct (occ_remove_first_gen _ it _ _ _ R) as (_ & _ & Hin & Fk). destruct it; cbn in Fk; try discriminate.
    apply Z.eqb_eq in Fk. subst. exists uid, key. cbn. auto.
  - destruct (find (is_job_key key) (jobq (lv st p))) as [it|] eqn:Fd; cbn [fst snd].
    + intros _. apply find_some in Fd. destruct Fd as [Hin Fk]. destruct it; cbn in Fk; try discriminate. apply Z.eqb_eq in Fk. subst.
      exists uid, key. rewrite item_del_emit. cbn [item_uid]. split; [|auto].
      destruct (item_del_frame p (QJob uid key) st) as (_ & _ & _ & _ & O & _). cbn. now rewrite O.
    + unfold LOOP_ENOENT. intros H. lia.
Qed.
Lemma timer_del_logs : forall h st i t, timer_from_handle h st = Some (i, t) -> t_state t <> Deleted ->
  fst (timer_del h st) = 0 -> In (EvDel 1 (t_uid t)) (out (snd (timer_del h st))) /\ (t_state t = Active \/ t_state t = Joblist).
Proof.
  intros h st i t TF ND. unfold timer_del. rewrite TF. destruct (t_state t) eqn:S; cbn [fst snd]; try congruence.
  - unfold LOOP_EINVAL. intros H. lia.
  - intros _. split; [cbn; auto|auto].
  - intros _. split; [cbn; auto|auto].
Qed.
Lemma signal_del_logs : forall h st s, h <> 0 -> sig_find h st = Some s -> In (EvDel 3 h) (out (snd (signal_del h st))).
Proof.
  intros h st s H0 F. unfold signal_del. destruct (h =? 0) eqn:E; [apply Z.eqb_eq in E; contradiction|].
  rewrite F. cbn. auto.
Qed.

(* signal handles are raw pointers (qb_loop_signal_handle is a void pointer): the API can not validate them; their use after the
   registration was freed is outside the contract and is what the model marks with EvUaf 1 / 2 / 4.  With a handle whose
   registration exists neither call touches freed memory *)
Lemma signal_ops_live_no_uaf : forall p g k h st s, sig_find h st = Some s ->
  uaf (snd (signal_del h st)) = uaf st /\ uaf (snd (signal_mod p g k h st)) = uaf st.
Proof.
  intros p g k h st s F. unfold signal_del, signal_mod. destruct (h =? 0); [split; reflexivity|]. rewrite F. cbn [snd]. split; [|reflexivity].
  destruct (fx_sigdel (fx st)); [reflexivity|]. destruct (find _ _) as [q|]; [|reflexivity].
  cbn [uaf set_sigs emit set_out]. unfold item_del.
  destruct (in_jobq q High st); [reflexivity|]. destruct (in_jobq q Med st); [reflexivity|]. destruct (in_jobq q Low st); reflexivity.
Qed.

(* ------------------------------------------------------------------ stale timer handles and stale epoll data *)
(* the handle (c, i) of a timer that fired (the slot's check word is 0), was deleted (slot EMPTY) or whose slot
   was given to a new timer with another check word: rejected, nothing changes *)
Lemma stale_timer_rejected : forall st c i, 0 < c -> Z.of_nat i < TWO32 ->
  (forall t, nth_error (timers st) i = Some t -> t_check t <> c \/ t_state t = Empty) ->
  timer_del (c * TWO32 + Z.of_nat i) st = (- LOOP_EINVAL, st) /\ timer_is_running (c * TWO32 + Z.of_nat i) st = 0.
Proof.
  intros st c i C B H. unfold timer_del, timer_is_running, timer_from_handle.
  assert (T : 0 < TWO32) by (unfold TWO32; lia).
  assert (E1 : (c * TWO32 + Z.of_nat i) mod TWO32 = Z.of_nat i) by (rewrite Z.add_comm, Z_mod_plus_full; apply Z.mod_small; lia).
  assert (E2 : (c * TWO32 + Z.of_nat i) / TWO32 = c) by (rewrite Z.add_comm, Z.div_add by lia; rewrite Z.div_small by lia; lia).
  rewrite E1, E2, Nat2Z.id.
  destruct (_ =? 0); [auto|]. destruct (c =? 0); [auto|]. destruct (nth_error (timers st) i) as [t|] eqn:N; [|auto].
  destruct (H t eq_refl) as [X|X].
  - apply Z.eqb_neq in X. rewrite X. auto.
  - destruct (t_check t =? c); [|auto]. rewrite X. auto.
Qed.
Lemma fired_or_deleted_is_stale : forall t, t_check t = 0 \/ t_state t = Empty -> forall c, 0 < c -> t_check t <> c \/ t_state t = Empty.
Proof. intros t [H|H] c C; [left; lia|right; exact H]. Qed.
(* an epoll event whose user data names a slot that now carries another check word is dropped *)
Lemma stale_poll_event_dropped : forall st data bits n e, nth_error (polls st) (Z.to_nat (data mod TWO32)) = Some e ->
  p_check e <> data / TWO32 -> poll_event (data, bits) (n, st) = (n, emit EvUsleep st).
Proof.
  intros st data bits n e N C. unfold poll_event. rewrite N. destruct (p_check e =? data / TWO32) eqn:E; [apply Z.eqb_eq in E; contradiction|reflexivity].
Qed.
Lemma tombstone_event_dropped : forall st data bits n e, nth_error (polls st) (Z.to_nat (data mod TWO32)) = Some e ->
  p_state e = Deleted -> snd (poll_event (data, bits) (n, st)) = st \/ snd (poll_event (data, bits) (n, st)) = emit EvUsleep st.
Proof.
  intros st data bits n e N D. unfold poll_event. rewrite N. destruct (negb _); [right; reflexivity|].
  rewrite D. cbn. rewrite orb_true_r. left. reflexivity.
Qed.

(* ------------------------------------------------------------------ stop *)
(* stop_requested is only cleared at the start of qb_loop_run; a level whose service ends with stop requested
   makes the turn return; a turn that returned ends the run *)
Lemma run_ends_with_stop_turn : forall beh envs rs st, exists tis t, snd (run_go beh envs rs st) = tis ++ [t] /\
  (forall x, In x tis -> ti_returned x = false).
Proof.
  intros beh. induction envs as [|e es IH]; intros rs st; cbn [run_go].
  - destruct (iteration beh env_end rs st) as [[s r] t]. exists [], t. cbn. split; [reflexivity|tauto].
  - destruct (iteration beh e rs st) as [[s r] t]. destruct (ti_returned t || stop s) eqn:E.
    + exists [], t. cbn. split; [reflexivity|tauto].
    + destruct (IH r s) as (tis & t' & A & B). destruct (run_go beh es r s) as [s' l]. cbn [snd] in *. subst l.
      exists (t :: tis), t'. split; [reflexivity|]. intros x [<-|H]; [apply orb_false_iff in E; tauto|auto].
Qed.

(* ------------------------------------------------------------------ the code as found violates the property *)
Definition env0 (sigs : list Z) (ready : list (Z * Z)) (stp : bool) : env := {| e_adv := 0; e_sigs := sigs; e_ready := ready; e_stop := stp |}.
Definition beh_none : behaviour := fun _ _ => ([], 0).
(* signal registered at LOW; two deliveries are cloned while LOW is not served; signal_del returns 0; the
   second clone's callback is entered afterwards *)
Definition hist_sigdel : list cmd :=
  [CmdOp (OSigAdd Low 10 1 100);
   CmdRun [env0 [10] [(SIGPIPE_FD, 1)] false; env0 [10] [(SIGPIPE_FD, 1)] false; env0 [] [] true];
   CmdOp (OSigDel 100);
   CmdRun [env0 [] [] false; env0 [] [] false; env0 [] [] false; env0 [] [] false]].
Definition fixes_sigdel_missing : fixes := {| fx_polladd := true; fx_sigdel := false; fx_runtodo := false; fx_pollreuse := true |}.
Lemma signal_del_refuted : exists post pre u,
  out (run_history_fx fixes_sigdel_missing beh_none hist_sigdel []) = post ++ EvDel 3 u :: pre /\ In (EvInv 3 u) post.
Proof.
  exists [EvRunRet; EvWait (-1) 0; EvWait (-1) 0; EvCb 3 1 10 0; EvInv 3 2; EvWait 0 0; EvWait 0 0; EvWait (-1) 0; EvRet 11 0].
  exists [EvOp (OSigDel 100); EvRunRet; EvWait 0 0; EvWait 0 1; EvWait (-1) 1; EvRet 9 0; EvAdd 3 2 Low;
          EvOp (OSigAdd Low 10 1 100); EvAdd 2 1 High].
  exists 2. split; [vm_compute; reflexivity|cbn; tauto].
Qed.
(* with the repair the same history logs no callback after the removal (instance of del_never_again) *)
Lemma signal_del_repaired_witness :
  existsb (fun e => match e with EvDel 3 2 => true | _ => false end) (out (run_history_fx fixes_all beh_none hist_sigdel [])) = true /\
  length (filter (fun e => match e with EvInv 3 2 => true | _ => false end) (out (run_history_fx fixes_all beh_none hist_sigdel []))) = O.
Proof. vm_compute. split; reflexivity. Qed.

(* a second poll_add of a descriptor fails and, as found, leaves its slot half initialised in front of the live one:
   poll_del then returns 0 without removing anything and the callback keeps running *)
Definition hist_polladd : list cmd :=
  [CmdOp (OPollAdd Med 104 1 1); CmdOp (OPollAdd Med 105 1 2); CmdOp (OPollDel 104); CmdRun [env0 [] [] false];
   CmdOp (OPollAdd Med 105 1 3); CmdOp (OPollDel 105);
   CmdRun [env0 [] [(105, 1)] false; env0 [] [(105, 1)] false; env0 [] [(105, 1)] false]].
Definition fixes_polladd_missing : fixes := {| fx_polladd := false; fx_sigdel := true; fx_runtodo := false; fx_pollreuse := false |}.
Definition last_poll_del_result (l : list ev) : option Z :=
  match find (fun e => match e with EvRet 8 _ => true | _ => false end) l with Some (EvRet _ r) => Some r | _ => None end.
Definition cb_after_last_poll_del (l : list ev) : nat :=
  (fix go l := match l with [] => O | EvRet 8 _ :: _ => O | EvCb 2 _ _ _ :: r => S (go r) | _ :: r => go r end) l.
Lemma poll_add_failure_refuted :
  last_poll_del_result (out (run_history_fx fixes_polladd_missing beh_none hist_polladd [])) = Some 0 /\
  cb_after_last_poll_del (out (run_history_fx fixes_polladd_missing beh_none hist_polladd [])) = 2%nat.
Proof. vm_compute. split; reflexivity. Qed.
Lemma poll_add_failure_repaired_witness :
  last_poll_del_result (out (run_history_fx fixes_all beh_none hist_polladd [])) = Some 0 /\
  cb_after_last_poll_del (out (run_history_fx fixes_all beh_none hist_polladd [])) = 0%nat.
Proof. vm_compute. split; reflexivity. Qed.
(* the same entry picked by poll_mod: the next event calls the null add_to_jobs pointer *)
Definition hist_polladd_mod : list cmd :=
  [CmdOp (OPollAdd Low 100 1 2); CmdOp (OPollAdd Low 100 1 8); CmdOp (OPollDel 100); CmdOp (OPollAdd Low 100 1 9);
   CmdOp (OPollAdd Low 100 1 10); CmdOp (OPollMod High 100 5 11)].
Lemma poll_add_failure_null_call_refuted :
  uaf (fst (loop_run beh_none [env0 [] [(100, 1)] false]
        (run_history_fx fixes_polladd_missing beh_none
           [CmdOp (OPollAdd Low 104 1 1); CmdOp (OPollAdd Low 100 1 2); CmdOp (OPollDel 104); CmdRun [env0 [] [] false];
            CmdOp (OPollAdd Low 100 1 3); CmdOp (OPollDel 100); CmdOp (OPollMod High 100 5 11)] []))) = true.
Proof. vm_compute. reflexivity. Qed.

(* the real kernel's epoll showed, in the constants program, the semantics the virtual interest list of the harness and
   of the model implements: ADD on a present descriptor fails with EEXIST, MOD / DEL on an absent one with ENOENT, MOD
   replaces the user data, readiness is level triggered, close drops the registration and frees the number *)
Lemma kernel_model_probe : LOOP_KERNEL_EPOLL_AS_MODELLED = 1.
Proof. reflexivity. Qed.

(* a descriptor closed without poll_del, its number added again (the kernel accepts: close dropped the registration): as found,
   two live entries share the number, poll_del(fd) returns 0 after retiring the STALE one and the new entry's queued callback
   still runs; repaired, the second add is refused with -EEXIST *)
Definition hist_fdreuse : list cmd :=
  [CmdOp (OPollAdd Med 100 1 1); CmdOp (OClose 100); CmdOp (OPollAdd Low 100 1 2);
   CmdRun [env0 [] [(100, 1)] false; env0 [] [] true]; CmdOp (OPollDel 100);
   CmdRun [env0 [] [] false; env0 [] [] false; env0 [] [] false; env0 [] [] false]].
Definition fixes_pollreuse_missing : fixes := {| fx_polladd := true; fx_sigdel := true; fx_runtodo := true; fx_pollreuse := false |}.
Lemma fd_reuse_refuted :
  last_poll_del_result (out (run_history_fx fixes_pollreuse_missing beh_none hist_fdreuse [])) = Some 0 /\
  cb_after_last_poll_del (out (run_history_fx fixes_pollreuse_missing beh_none hist_fdreuse [])) = 1%nat.
Proof. vm_compute. split; reflexivity. Qed.
Lemma fd_reuse_repaired_witness :
  cb_after_last_poll_del (out (run_history_fx fixes_all beh_none hist_fdreuse [])) = 0%nat /\
  existsb (fun e => match e with EvRet 6 r => r =? - LOOP_EEXIST | _ => false end) (out (run_history_fx fixes_all beh_none hist_fdreuse [])) = true.
Proof. vm_compute. split; reflexivity. Qed.
Lemma poll_add_refuses_live_fd : forall g p fd ev key st, fx_pollreuse (fx st) = true ->
  existsb (fd_is_live fd) (polls st) = true -> poll_add_gen g p fd ev key st = (- LOOP_EEXIST, st).
Proof. intros g p fd ev key st F E. unfold poll_add_gen. rewrite F, E. reflexivity. Qed.
(* and whenever an add goes through no live entry carries that number *)
Lemma poll_add_ok_means_fresh_fd : forall g p fd ev key st, fx_pollreuse (fx st) = true ->
  fst (poll_add_gen g p fd ev key st) = 0 -> existsb (fd_is_live fd) (polls st) = false.
Proof.
  intros g p fd ev key st F R. destruct (existsb (fd_is_live fd) (polls st)) eqn:E; [|reflexivity].
  rewrite (poll_add_refuses_live_fd g p fd ev key st F E) in R. cbn in R. unfold LOOP_EEXIST in R. lia.
Qed.

(* non-vacuity: a history with deletions of queued items from inside callbacks, signals, a negative return *)
Definition ex_beh8 : behaviour := fun key n =>
  if (key =? 1) && (n =? 0) then ([OJobDel Med 2; OTimerDel 0; OPollDel 100; OSigDel 100], 0)
  else if key =? 5 then ([], -1) else ([], 0).
Definition ex_hist8 : list cmd :=
  [CmdOp (OJobAdd High 1); CmdOp (OJobAdd Med 2); CmdOp (OTimerAdd Med 1 3 0); CmdOp (OPollAdd Low 100 1 4);
   CmdOp (OPollAdd Low 101 1 5); CmdOp (OSigAdd Low 10 6 100); CmdOp (OJobAdd Low 7);
   CmdRun [env0 [10] [(100, 1); (101, 1); (SIGPIPE_FD, 1)] false; env0 [] [] false; env0 [] [(101, 1)] false; env0 [] [(101, 1)] false]].
Lemma ex_hist8_log :
  map (fun e => match e with EvInv k u => k * 100 + u | EvDel k u => - (k * 100 + u) | _ => 0 end)
      (filter (fun e => match e with EvInv _ _ | EvDel _ _ => true | _ => false end) (rev (out (run_history_fx fixes_all ex_beh8 ex_hist8 []))))
  = [2; -3; -104; -205; -307; 8; 206; -206].
Proof. vm_compute. reflexivity. Qed.
