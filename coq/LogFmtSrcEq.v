(* C13 / C14 - source tie: the arithmetic cores of lib/log_format.c as translated from the working tree by
   tools/c2coq.py (coq/gen/Src_logfmt.v, regenerated on every run) compute what the hand-written model functions
   compute.  Translated: my_strlcpy (the size arithmetic; strlcpy itself is an oracle call whose result is strlen(src)),
   qb_log_priority2str (which entry of prioritynames[]).
   Outside the translator's subset, as reported by tools/c2coq.py (tried, NOT tied here):
     _strcpy_cutoff            the generated text is ill-typed: `dest' is both the pointer parameter (Z) and the array
                               path of `dest[cutoff] = 0' (Z -> Z)                                  [limitation of the tool]
     qb_log_target_format      "lvalue of kind BinaryOperator" (output_buffer[output_buffer_idx++] = c)
     qb_vsnprintf_serialize    "assignment inside an expression"; also va_arg and the backward `goto reprocess'
     qb_vsnprintf_deserialize_n "use of non-integer local fmt" (char fmt[20]); backward goto
     qb_log_ctl2               "parameter arg_not4directuse of type qb_log_ctl2_arg_t" (union passed by value)
     cs_format                 "call to __builtin_va_copy"
   These stay tied by the correspondence run only. *)
From Coq Require Import List ZArith Bool Lia.
Require Import Verif.gen.Consts_logfmt Verif.gen.Src_logfmt Verif.C2CoqPrelude.
Require Import Verif.SerModel Verif.SerProofs Verif.LogFmtModel.
Import ListNotations.
Local Open Scope Z_scope.

Lemma two64 : 2 ^ 64 = 18446744073709551616.
Proof. reflexivity. Qed.

(* my_strlcpy (repaired): the number of characters reported as written *)
Lemma src_my_strlcpy : forall dest srcp maxlen cnt orc tag buf pos (srcl : list Z),
  0 <= maxlen < 2 ^ 64 -> zlen srcl < 2 ^ 64 -> orc cnt = zlen srcl ->
  Datatypes.fst (my_strlcpy dest srcp maxlen cnt orc) = Datatypes.snd (my_strlcpy_m true tag buf pos srcl maxlen).
Proof.
  intros dest srcp maxlen cnt orc tag buf pos srcl Hm Hs Horc.
  pose proof (zlen_nonneg _ srcl) as Hl. pose proof two64 as H64. pose proof SIZE_MOD_val as HSM.
  unfold my_strlcpy, my_strlcpy_m, strlcpy_m. cbn [andb]. rewrite (u64_small 0) by lia.
  destruct (maxlen =? 0) eqn:E0; [reflexivity|]. apply Z.eqb_neq in E0.
  rewrite Horc. rewrite !(u64_small (zlen srcl)) by lia. rewrite (u64_small 1) by lia.
  rewrite (u64_small (maxlen - 1)) by lia. cbn [Datatypes.fst Datatypes.snd].
  unfold wrapsz. rewrite Z.mod_small by lia.
  destruct (zlen srcl <? maxlen - 1) eqn:E; [apply Z.ltb_lt in E | apply Z.ltb_ge in E]; lia.
Qed.

(* qb_log_priority2str: which entry of prioritynames[] is taken *)
Lemma src_priority2str : forall p names, 0 <= p < 256 ->
  qb_log_priority2str p names = names (Z.min p LF_PRIO_TRACE).
Proof.
  intros p names Hp. unfold qb_log_priority2str. change LF_PRIO_TRACE with 8.
  rewrite (s32_small p) by lia. change (s32 (7 + 1)) with 8.
  destruct (p >? 8) eqn:E.
  - apply Z.gtb_lt in E. rewrite Z.min_r by lia. reflexivity.
  - assert (p <= 8).
    { destruct (Z_le_gt_dec p 8) as [|g]; [assumption|]. assert (Hg : (p >? 8) = true) by (apply Z.gtb_lt; lia). congruence. }
    rewrite Z.min_l by lia. reflexivity.
Qed.
