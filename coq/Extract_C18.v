(* C18 uses the same extracted model as C17 (model_C17.ml, written when Extract_C17.v is compiled). *)
Require Import Verif.Extract_C17.
