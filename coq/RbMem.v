(* Laws of the byte memory of RbModel.v and of the modular (double-mapping) address arithmetic.
   Everything later is proved from these lemmas only; ld/st are never unfolded again. *)
From Coq Require Import ZArith List Bool Lia FMapPositive ZifyBool.
Import ListNotations.
Require Import Verif.RbModel.
Local Open Scope Z_scope.

Ltac Zify.zify_post_hook ::= Z.div_mod_to_equations.

(* ------------------------------------------------------------------ ld / st *)
Lemma mkey_inj : forall a b, 0 <= a -> 0 <= b -> mkey a = mkey b -> a = b.
Proof.
  unfold mkey; intros a b Ha Hb H.
  apply Z2Pos.inj in H; lia.
Qed.

Lemma ld_st_same : forall m a v, ld (st m a v) a = v.
Proof. intros; unfold ld, st; rewrite PositiveMap.gss; reflexivity. Qed.

Lemma ld_st_other : forall m a b v, 0 <= a -> 0 <= b -> a <> b -> ld (st m a v) b = ld m b.
Proof.
  intros m a b v Ha Hb Hab; unfold ld, st.
  rewrite PositiveMap.gso; [reflexivity|].
  intro H; apply Hab; symmetry; apply mkey_inj; assumption.
Qed.

Global Opaque ld st.

(* ------------------------------------------------------------------ words *)
Lemma word_bytes : forall v, 0 <= v < two32 ->
  v mod 256 + 256 * ((v / 256) mod 256) + 65536 * ((v / 65536) mod 256) + 16777216 * ((v / 16777216) mod 256) = v.
Proof. unfold two32; intros v Hv; lia. Qed.

Lemma ldw_stw_same : forall m i v, 0 <= i -> ldw (stw m i v) i = v mod two32.
Proof.
  intros m i v Hi; unfold ldw, stw.
  set (u := v mod two32).
  assert (Hu : 0 <= u < two32) by (subst u; apply Z.mod_pos_bound; unfold two32; lia).
  rewrite ld_st_same.
  rewrite (ld_st_other _ (4 * i + 3) (4 * i + 2)) by lia. rewrite ld_st_same.
  rewrite (ld_st_other _ (4 * i + 3) (4 * i + 1)) by lia.
  rewrite (ld_st_other _ (4 * i + 2) (4 * i + 1)) by lia. rewrite ld_st_same.
  rewrite (ld_st_other _ (4 * i + 3) (4 * i)) by lia.
  rewrite (ld_st_other _ (4 * i + 2) (4 * i)) by lia.
  rewrite (ld_st_other _ (4 * i + 1) (4 * i)) by lia. rewrite ld_st_same.
  apply word_bytes; assumption.
Qed.

(* a word store changes only its own four bytes *)
Lemma ld_stw_other : forall m i v a, 0 <= i -> 0 <= a -> (a < 4 * i \/ 4 * i + 4 <= a) ->
  ld (stw m i v) a = ld m a.
Proof.
  intros m i v a Hi Ha Hout; unfold stw.
  rewrite !ld_st_other by lia. reflexivity.
Qed.

Lemma ldw_ext : forall m m' i,
  (forall j, 0 <= j < 4 -> ld m' (4 * i + j) = ld m (4 * i + j)) -> ldw m' i = ldw m i.
Proof.
  intros m m' i H; unfold ldw.
  rewrite <- (Z.add_0_r (4 * i)) at 1 5.
  rewrite !H by lia. reflexivity.
Qed.

Lemma ldw_stw_other : forall m i j v, 0 <= i -> 0 <= j -> i <> j -> ldw (stw m i v) j = ldw m j.
Proof.
  intros m i j v Hi Hj Hij. apply ldw_ext; intros k Hk.
  apply ld_stw_other; lia.
Qed.

(* ------------------------------------------------------------------ modular addresses *)
(* two addresses less than n apart that agree mod n are equal *)
Lemma mod_inj_window : forall n a b, 0 < n -> a mod n = b mod n -> - n < a - b < n -> a = b.
Proof.
  intros n a b Hn H Hab.
  pose proof (Z.div_mod a n ltac:(lia)) as Ea.
  pose proof (Z.div_mod b n ltac:(lia)) as Eb.
  rewrite H in Ea.
  assert (Hk : a - b = n * (a / n - b / n)) by lia.
  assert (a / n - b / n = 0) by nia.
  lia.
Qed.

Lemma mod_small_or_wrap : forall W x, 0 < W -> 0 <= x < 2 * W ->
  x mod W = if x <? W then x else x - W.
Proof.
  intros W x HW Hx. destruct (x <? W) eqn:E.
  - apply Z.mod_small; lia.
  - symmetry; apply (Z.mod_unique x W 1); lia.
Qed.

(* byte j of the word at logical position X *)
Lemma byte_addr : forall W X k, 0 < W -> (4 * (X mod W) + k) mod (4 * W) = (4 * X + k) mod (4 * W).
Proof.
  intros W X k HW.
  rewrite <- (Z.mul_mod_distr_l X W 4) by lia.
  rewrite Zplus_mod_idemp_l. reflexivity.
Qed.

Lemma byte_addr_small : forall W X j, 0 < W -> 0 <= j < 4 -> 4 * (X mod W) + j = (4 * X + j) mod (4 * W).
Proof.
  intros W X j HW Hj. rewrite <- byte_addr by assumption.
  symmetry; apply Z.mod_small.
  pose proof (Z.mod_pos_bound X W HW). lia.
Qed.

Lemma mod_shift : forall W X t, 0 < W -> (X + W * t) mod W = X mod W.
Proof. intros W X t HW. rewrite Z.mul_comm. apply Z_mod_plus_full. Qed.

(* ------------------------------------------------------------------ memcpy *)
Lemma zlen_nonneg : forall d, 0 <= zlen d.
Proof. intros; unfold zlen; lia. Qed.
Lemma zlen_nil : zlen [] = 0.
Proof. reflexivity. Qed.
Lemma zlen_cons : forall x t, zlen (x :: t) = 1 + zlen t.
Proof. intros; unfold zlen; cbn [length]; lia. Qed.
Lemma zlen_app : forall a b, zlen (a ++ b) = zlen a + zlen b.
Proof. intros; unfold zlen; rewrite app_length; lia. Qed.
Lemma to_nat_zlen : forall d, Z.to_nat (zlen d) = length d.
Proof. intros; unfold zlen; lia. Qed.

Lemma ld_write_bytes_other : forall d m W4 a b, 0 < W4 -> 0 <= b ->
  (forall k, 0 <= k < zlen d -> (a + k) mod W4 <> b) ->
  ld (write_bytes m W4 a d) b = ld m b.
Proof.
  induction d as [|x t IH]; intros m W4 a b HW Hb Hne; cbn [write_bytes]; [reflexivity|].
  rewrite zlen_cons in Hne. pose proof (zlen_nonneg t) as Ht.
  assert (H0 : a mod W4 <> b).
  { specialize (Hne 0). rewrite Z.add_0_r in Hne. apply Hne. lia. }
  assert (Hm : 0 <= a mod W4) by (apply Z.mod_pos_bound; lia).
  rewrite IH; try assumption.
  - apply ld_st_other; assumption.
  - intros k Hk. replace (a + 1 + k) with (a + (k + 1)) by lia. apply Hne. lia.
Qed.

Lemma ld_write_bytes_in : forall d m W4 a k, 0 < W4 -> zlen d <= W4 -> 0 <= k < zlen d ->
  ld (write_bytes m W4 a d) ((a + k) mod W4) = nth (Z.to_nat k) d 0.
Proof.
  induction d as [|x t IH]; intros m W4 a k HW Hlen Hk; cbn [write_bytes].
  { rewrite zlen_nil in Hk; lia. }
  rewrite zlen_cons in Hlen, Hk. pose proof (zlen_nonneg t) as Ht.
  destruct (Z.eq_dec k 0) as [->|Hk0].
  - rewrite Z.add_0_r. cbn [Z.to_nat nth].
    assert (Hm : 0 <= a mod W4) by (apply Z.mod_pos_bound; lia).
    rewrite ld_write_bytes_other; [apply ld_st_same | lia | assumption |].
    intros j Hj Heq. apply mod_inj_window in Heq; lia.
  - replace (a + k) with (a + 1 + (k - 1)) by lia.
    rewrite IH by lia.
    replace (Z.to_nat k) with (S (Z.to_nat (k - 1))) by lia. reflexivity.
Qed.

Lemma read_bytes_spec : forall c m W4 a,
  (forall k, 0 <= k < zlen c -> ld m ((a + k) mod W4) = nth (Z.to_nat k) c 0) ->
  read_bytes m W4 a (length c) = c.
Proof.
  induction c as [|x t IH]; intros m W4 a H; cbn [read_bytes length]; [reflexivity|].
  rewrite zlen_cons in H. pose proof (zlen_nonneg t) as Ht.
  f_equal.
  - specialize (H 0). rewrite Z.add_0_r in H. apply H. lia.
  - apply IH. intros k Hk. replace (a + 1 + k) with (a + (k + 1)) by lia.
    rewrite H by lia.
    replace (Z.to_nat (k + 1)) with (S (Z.to_nat k)) by lia. reflexivity.
Qed.
