(* C11: the reader-side functions and qb_rb_chunk_write of the hand-written ring model (RbModel.v) equal the Gallina text
   that tools/c2coq.py regenerates from lib/ringbuffer.c on every run (gen/Src_rbow.v, spec harness/c2coq/rbow.json) -
   for all inputs in the stated ranges.  Continues RbSrcEq.v (C07), whose lemmas about the functions both specs
   translate (space_free, chunk_step, _rb_chunk_reclaim, alloc, commit) are reused through same_*: identical text. *)
From Coq Require Import ZArith List Bool Lia.
Require Import Verif.gen.Consts_rb Verif.gen.Src_rbow Verif.gen.Src_rb Verif.C2CoqPrelude Verif.RbModel Verif.RbMem Verif.RbSrcEq.
Local Open Scope Z_scope.
Ltac Zify.zify_post_hook ::= Z.div_mod_to_equations.

(* the functions both specs translate are the same text *)
Lemma same_reclaim : Src_rbow._rb_chunk_reclaim = Src_rb._rb_chunk_reclaim.
Proof. reflexivity. Qed.
Lemma same_alloc : Src_rbow.qb_rb_chunk_alloc = Src_rb.qb_rb_chunk_alloc.
Proof. reflexivity. Qed.
Lemma same_commit : Src_rbow.qb_rb_chunk_commit = Src_rb.qb_rb_chunk_commit.
Proof. reflexivity. Qed.

Definition tok (b : rb) : bool := match sem b with None => true | Some c => 0 <? c end.
Definition has_notifier (b : rb) : bool := match sem b with None => false | Some _ => true end.

(* what the built-in notifier answers (lib/ringbuffer_helper.c, ms_timeout = 0): 0 with a positive count,
   -ETIMEDOUT otherwise; no notifier functions at all on a NO_SEMAPHORE ring *)
Definition notif_ok (b : rb) (twfn postfn : Z) (orct : Z -> Z) (cntt : Z) : Prop :=
  match sem b with
  | None => twfn = 0 /\ postfn = 0
  | Some c => twfn <> 0 /\ postfn <> 0 /\ orct cntt = (if 0 <? c then 0 else - RB_ETIMEDOUT)
  end.

Lemma chunk_ready_trywait : forall b, chunk_ready (fst (sem_trywait b)) = chunk_ready b.
Proof. intros b. unfold sem_trywait. destruct (sem b) as [c|]; [destruct (0 <? c)|]; reflexivity. Qed.


Lemma neg_consts : s32 (- 43) = -43 /\ s32 (- 110) = - RB_ETIMEDOUT /\ s32 (- 74) = - RB_EBADMSG /\ s32 (- 105) = - RB_ENOBUFS /\
                   s32 (- 22) = - RB_EINVAL /\ s32 0 = 0.
Proof. vm_compute. repeat split; reflexivity. Qed.

(* ---------------------------------------------------------------- qb_rb_chunk_reclaim (public wrapper) *)
Theorem src_reclaim_public : forall b rbp d cnt errno orc inst,
  rbp <> 0 -> hdr_ok (rW b) (wpt b) (rpt b) -> agree d (data b) -> words_ok (data b) ->
  match Src_rbow.qb_rb_chunk_reclaim rbp cnt errno orc inst 0 d (rpt b) (rW b) (wpt b), reclaim b with
  | (cnt', errno', d', r'), (b', rc0) =>
      cnt' = cnt /\ r' = rpt b' /\ agree d' (data b') /\ wpt b' = wpt b /\ rW b' = rW b /\
      ovw b' = ovw b /\ sem b' = sem b /\ (rc0 <> 0 -> b' = b)
  end.
Proof.
  intros b rbp d cnt errno orc inst Hp Hh A Wk.
  unfold Src_rbow.qb_rb_chunk_reclaim.
  destruct (rbp =? 0) eqn:E0; [apply Z.eqb_eq in E0; contradiction|].
  rewrite same_reclaim.
  pose proof (src_reclaim b rbp d cnt errno orc inst Hh A (agree_range d (data b) A Wk)) as H.
  destruct (Src_rb._rb_chunk_reclaim rbp cnt errno orc inst 0 d (rpt b) (rW b) (wpt b)) as ((((rc, cnt'), errno'), d'), r').
  destruct (reclaim b) as (b', rc0).
  destruct H as (H1 & H2 & H3 & H4 & H5 & H6 & H7 & H8 & H9 & H10).
  repeat split; try assumption. intros Hn. apply H9; assumption.
Qed.

(* ---------------------------------------------------------------- pieces shared by peek and read *)
Section Pieces.
Variables (b : rb) (d : Z -> Z).
Hypothesis Hh : hdr_ok (rW b) (wpt b) (rpt b).
Hypothesis A : agree d (data b).
Hypothesis Wk : words_ok (data b).

Lemma u32_rpt : u32 (rpt b) = rpt b.
Proof. destruct Hh as (HW & _ & Hr). change (2 ^ 30) with 1073741824 in HW. apply u32_small. change (2 ^ 32) with 4294967296. lia. Qed.

Lemma src_idx (k : Z) : 0 <= k <= 2 -> Z.rem (u32 (rpt b + u32 k)) (rW b) = (rpt b + k) mod rW b.
Proof.
  intros Hk. destruct Hh as (HW & _ & Hr). change (2 ^ 30) with 1073741824 in HW.
  rewrite (u32_small k) by (change (2 ^ 32) with 4294967296; lia).
  rewrite (u32_small (rpt b + k)) by (change (2 ^ 32) with 4294967296; lia).
  apply rem_mod; lia.
Qed.

Lemma src_not_ready :
  ((rpt b =? wpt b) || negb (u32 (s32 (d ((rpt b + 1) mod rW b))) =? 2711724449)) = negb (chunk_ready b).
Proof.
  destruct Hh as (HW & _ & Hr).
  assert (Hidx : 0 <= (rpt b + 1) mod rW b < rW b) by (apply Z.mod_pos_bound; lia).
  rewrite u32_s32 by (apply (agree_range d (data b) A Wk); lia).
  rewrite (A ((rpt b + 1) mod rW b)) by lia.
  unfold chunk_ready, RB_CHUNK_MAGIC. rewrite negb_andb, negb_involutive. reflexivity.
Qed.

Lemma src_size : u32 (d (rpt b)) = ldw (data b) (rpt b).
Proof.
  destruct Hh as (HW & _ & Hr).
  rewrite u32_small by (apply (agree_range d (data b) A Wk); lia). apply A; lia.
Qed.
End Pieces.

Theorem src_peek : forall b rbp dout tmo cntp cntt dop errno orcp orct inst postfn twfn d ptr,
  rbp <> 0 -> hdr_ok (rW b) (wpt b) (rpt b) -> agree d (data b) -> words_ok (data b) ->
  notif_ok b twfn postfn orct cntt ->
  match Src_rbow.qb_rb_chunk_peek rbp dout tmo cntp cntt dop errno orcp orct inst postfn twfn d ptr (rpt b) (rW b) (wpt b),
        peek b with
  | (rv, cntp', cntt', dop', errno'), (b', r, bytes) =>
      rv = r /\ errno' = errno /\
      cntt' = cntt + (if has_notifier b then 1 else 0) /\
      cntp' = cntp + (if has_notifier b && tok b && negb (chunk_ready b) then 1 else 0) /\
      dop' = (if tok b && chunk_ready b then upd dop 0 (u64 (ptr + 4 * ((rpt b + 2) mod rW b))) else dop)
  end.
Proof.
  intros b rbp dout tmo cntp cntt dop errno orcp orct inst postfn twfn d ptr Hp Hh A Wk Hn.
  destruct neg_consts as (C43 & C110 & C74 & C105 & C22 & C0).
  unfold Src_rbow.qb_rb_chunk_peek, peek, sem_trywait, notif_ok, tok, has_notifier in *.
  destruct (rbp =? 0) eqn:E0; [apply Z.eqb_eq in E0; contradiction|].
  rewrite (u32_rpt b Hh). rewrite !(src_idx b Hh) by lia.
  rewrite (src_not_ready b d Hh A Wk). rewrite (src_size b d Hh A Wk).
  pose proof (Wk (rpt b) ltac:(destruct Hh as (_ & _ & ?); lia)) as Hsz. change (2 ^ 32) with 4294967296 in Hsz.
  assert (S64 : s64 (ldw (data b) (rpt b)) = ldw (data b) (rpt b)).
  { apply s64_small. change (2 ^ 63) with 9223372036854775808. lia. }
  destruct (sem b) as [c|] eqn:Es.
  - destruct Hn as (Ht & Hpf & Ho).
    destruct (twfn =? 0) eqn:Et; [apply Z.eqb_eq in Et; contradiction|].
    destruct (postfn =? 0) eqn:Epf; [apply Z.eqb_eq in Epf; contradiction|].
    cbv [negb]. rewrite Ho.
    destruct (0 <? c) eqn:Ec.
    + change (s32 (s32 0)) with 0. change (0 <? 0) with false. cbv [andb]. cbv beta iota.
      change (chunk_ready (set_sem b (Some (c - 1)))) with (chunk_ready b).
      destruct (chunk_ready b); cbv [negb andb]; cbv beta iota.
      * cbn [data rpt set_sem]. rewrite S64. repeat split; try reflexivity; lia.
      * repeat split; try reflexivity; lia.
    + change (s32 (s32 (- RB_ETIMEDOUT))) with (-110). change (s32 (-43)) with (-43). change (s32 (-110)) with (-110).
      change (-110 <? 0) with true. change (-110 =? -43) with false. change (-110 =? -110) with true.
      cbv [negb andb]. cbv beta iota. change (- RB_ETIMEDOUT <? 0) with true. cbv beta iota.
      repeat split; try reflexivity; try lia; destruct (chunk_ready b); reflexivity.
  - destruct Hn as (-> & ->). change (0 =? 0) with true. cbv [negb]. cbv beta iota.
    change (s32 0) with 0. change (0 <? 0) with false. cbv [andb]. cbv beta iota.
    destruct (chunk_ready b); cbv [negb andb]; cbv beta iota.
    + rewrite S64. repeat split; try reflexivity; lia.
    + repeat split; try reflexivity; lia.
Qed.

Lemma reclaim_ready_rc : forall b, chunk_ready b = true -> snd (reclaim b) = 0.
Proof.
  intros b H. unfold reclaim, chunk_ready in *.
  apply andb_prop in H. destruct H as (H1 & H2). rewrite H2. apply negb_true_iff in H1. rewrite H1. reflexivity.
Qed.

Theorem src_read : forall b rbp dout len tmo a0 a1 a2 cntm cntp cntr cntt errno orcm orcp orcr orct inst postfn twfn d ptr,
  rbp <> 0 -> hdr_ok (rW b) (wpt b) (rpt b) -> agree d (data b) -> words_ok (data b) -> 0 <= len < 2 ^ 63 ->
  notif_ok b twfn postfn orct cntt ->
  match Src_rbow.qb_rb_chunk_read rbp dout len tmo a0 a1 a2 cntm cntp cntr cntt errno orcm orcp orcr orct inst postfn 0 twfn d ptr
          (rpt b) (rW b) (wpt b), read b len with
  | (rv, a0', a1', a2', cntm', cntp', cntr', cntt', errno', d', r'), (b', r, bytes) =>
      rv = r /\ errno' = errno /\ cntr' = cntr /\ r' = rpt b' /\ agree d' (data b') /\ wpt b' = wpt b /\ rW b' = rW b /\
      cntt' = cntt + (if has_notifier b then 1 else 0) /\
      cntp' = cntp + (if has_notifier b && tok b && (negb (chunk_ready b) || (len <? ldw (data b) (rpt b))) then 1 else 0) /\
      (if tok b && chunk_ready b && negb (len <? ldw (data b) (rpt b))
       then cntm' = cntm + 1 /\ a0' cntm = dout /\ a1' cntm = ptr + 4 * ((rpt b + 2) mod rW b) /\ a2' cntm = r
       else cntm' = cntm /\ a0' = a0 /\ a1' = a1 /\ a2' = a2 /\ d' = d /\ r' = rpt b)
  end.
Proof.
  intros b rbp dout len tmo a0 a1 a2 cntm cntp cntr cntt errno orcm orcp orcr orct inst postfn twfn d ptr Hp Hh A Wk Hl Hn.
  unfold Src_rbow.qb_rb_chunk_read, read, sem_trywait, notif_ok, tok, has_notifier in *.
  destruct (rbp =? 0) eqn:E0; [apply Z.eqb_eq in E0; contradiction|].
  rewrite (u32_rpt b Hh). rewrite !(src_idx b Hh) by lia.
  rewrite (src_not_ready b d Hh A Wk). rewrite (src_size b d Hh A Wk).
  pose proof (Wk (rpt b) ltac:(destruct Hh as (_ & _ & ?); lia)) as Hsz. change (2 ^ 32) with 4294967296 in Hsz.
  assert (S64 : s64 (ldw (data b) (rpt b)) = ldw (data b) (rpt b)).
  { apply s64_small. change (2 ^ 63) with 9223372036854775808. lia. }
  assert (U64 : u64 (ldw (data b) (rpt b)) = ldw (data b) (rpt b)).
  { apply u64_small. change (2 ^ 64) with 18446744073709551616. lia. }
  rewrite U64, S64. rewrite same_reclaim.
  (* the success branch, for a state b1 that differs from b in the notifier count only *)
  assert (Hsucc : forall b1, rpt b1 = rpt b -> wpt b1 = wpt b -> rW b1 = rW b -> data b1 = data b ->
            chunk_ready b = true ->
            match Src_rb._rb_chunk_reclaim rbp cntr errno orcr inst 0 d (rpt b) (rW b) (wpt b), reclaim b1 with
            | (rc, cnt', errno', d', r'), (b', rc0) =>
                cnt' = cntr /\ errno' = errno /\ r' = rpt b' /\ agree d' (data b') /\ wpt b' = wpt b /\ rW b' = rW b
            end).
  { intros b1 E1 E2 E3 E4 Hrdy.
    assert (Hh1 : hdr_ok (rW b1) (wpt b1) (rpt b1)) by (rewrite E1, E2, E3; exact Hh).
    assert (A1 : agree d (data b1)) by (rewrite E4; exact A).
    assert (Wk1 : words_ok (data b1)) by (rewrite E4; exact Wk).
    pose proof (src_reclaim b1 rbp d cntr errno orcr inst Hh1 A1 (agree_range d (data b1) A1 Wk1)) as H.
    rewrite E1, E2, E3 in H.
    assert (Hr1 : chunk_ready b1 = true) by (unfold chunk_ready in *; rewrite E1, E2, E3, E4; exact Hrdy).
    pose proof (reclaim_ready_rc b1 Hr1) as Hrc.
    destruct (Src_rb._rb_chunk_reclaim rbp cntr errno orcr inst 0 d (rpt b) (rW b) (wpt b)) as ((((rc, cnt'), errno'), d'), r').
    destruct (reclaim b1) as (b', rc0). cbn [snd] in Hrc. subst rc0.
    destruct H as (H1 & H2 & H3 & H4 & H5 & H6 & H7 & H8 & H9 & H10).
    repeat split; try assumption; try congruence. apply H10; reflexivity. }
  destruct (sem b) as [c|] eqn:Es.
  - destruct Hn as (Ht & Hpf & Ho).
    destruct (twfn =? 0) eqn:Et; [apply Z.eqb_eq in Et; contradiction|].
    destruct (postfn =? 0) eqn:Epf; [apply Z.eqb_eq in Epf; contradiction|].
    cbv [negb]. rewrite Ho.
    destruct (0 <? c) eqn:Ec.
    + change (s32 (s32 0)) with 0. change (0 <? 0) with false. cbv [andb]. cbv beta iota.
      change (chunk_ready (set_sem b (Some (c - 1)))) with (chunk_ready b).
      destruct (chunk_ready b) eqn:Er; cbv [negb andb orb]; cbv beta iota.
      * cbn [data rpt set_sem sem].
        destruct (len <? ldw (data b) (rpt b)) eqn:El; cbv [negb]; cbv beta iota.
        -- unfold sem_post. cbn [sem set_sem rpt data wpt rW]. repeat split; try reflexivity; try lia; exact A.
        -- specialize (Hsucc (set_sem b (Some (c - 1))) eq_refl eq_refl eq_refl eq_refl eq_refl).
           destruct (Src_rb._rb_chunk_reclaim rbp cntr errno orcr inst 0 d (rpt b) (rW b) (wpt b)) as ((((rc, cnt'), errno'), d'), r').
           destruct (reclaim (set_sem b (Some (c - 1)))) as (b', rc0).
           destruct Hsucc as (H1 & H2 & H3 & H4 & H5 & H6).
           repeat split; try assumption; try reflexivity; try lia; try (rewrite upd_same; reflexivity).
      * cbn [sem set_sem]. unfold sem_post. cbn [sem set_sem rpt data wpt rW].
        repeat split; try reflexivity; try lia; exact A.
    + change (s32 (s32 (- RB_ETIMEDOUT))) with (-110). change (s32 (-43)) with (-43). change (s32 (-110)) with (-110).
      change (-110 <? 0) with true. change (-110 =? -43) with false. change (-110 =? -110) with true.
      cbv [negb andb]. cbv beta iota. change (- RB_ETIMEDOUT <? 0) with true. cbv beta iota.
      repeat split; try reflexivity; try lia; exact A.
  - destruct Hn as (-> & ->). change (0 =? 0) with true. cbv [negb]. cbv beta iota.
    change (s32 0) with 0. change (0 <? 0) with false. cbv [andb]. cbv beta iota.
    destruct (chunk_ready b) eqn:Er; cbv [negb andb orb]; cbv beta iota.
    + destruct (len <? ldw (data b) (rpt b)) eqn:El; cbv [negb]; cbv beta iota.
      * unfold sem_post. rewrite Es. repeat split; try reflexivity; try lia; exact A.
      * specialize (Hsucc b eq_refl eq_refl eq_refl eq_refl eq_refl).
        destruct (Src_rb._rb_chunk_reclaim rbp cntr errno orcr inst 0 d (rpt b) (rW b) (wpt b)) as ((((rc, cnt'), errno'), d'), r').
        destruct (reclaim b) as (b', rc0).
        destruct Hsucc as (H1 & H2 & H3 & H4 & H5 & H6).
        repeat split; try assumption; try reflexivity; try lia; try (rewrite upd_same; reflexivity).
    + rewrite Es. repeat split; try reflexivity; try lia; exact A.
Qed.

(* ---------------------------------------------------------------- qb_rb_chunk_write (overwrite mode) *)
Lemma reclaim_frame : forall b, wpt (fst (reclaim b)) = wpt b /\ rW (fst (reclaim b)) = rW b.
Proof. intros b. unfold reclaim. destruct ((rpt b =? wpt b) || _); split; reflexivity. Qed.

Ltac spl := repeat match goal with |- _ /\ _ => split end.

Lemma ow_make_room_keeps : forall n b need b1 rc, hdr_ok (rW b) (wpt b) (rpt b) -> words_ok (data b) ->
  ow_make_room n b need = Some (b1, rc) ->
  hdr_ok (rW b1) (wpt b1) (rpt b1) /\ words_ok (data b1) /\ wpt b1 = wpt b /\ rW b1 = rW b /\ (rc = 0 \/ rc = - RB_EINVAL).
Proof.
  induction n as [|n IH]; intros b need b1 rc Hh Wk H; cbn [ow_make_room] in H.
  - destruct (space_free b <? need); [discriminate|]. inversion H; subst. spl; try assumption; try reflexivity. left; reflexivity.
  - destruct (space_free b <? need).
    + pose proof (reclaim_keeps b Hh Wk) as (Hh1 & Wk1 & Hrc). pose proof (reclaim_frame b) as (Fw & FW).
      destruct (reclaim b) as (b2, rc2). cbn [fst snd] in *.
      destruct (rc2 =? 0) eqn:E.
      * destruct (IH b2 need b1 rc Hh1 Wk1 H) as (G1 & G2 & G3 & G4 & G5).
        spl; try assumption; congruence.
      * inversion H; subst. spl; try assumption.
    + inversion H; subst. spl; try assumption; try reflexivity. left; reflexivity.
Qed.

Theorem src_write_overwrite : forall n b rbp srcp len a0 a1 a2 cntm cntp cntr cnts errno orcm orcp orcr orcs flags inst postfn d ptr,
  rbp <> 0 -> hdr_ok (rW b) (wpt b) (rpt b) -> agree d (data b) -> words_ok (data b) ->
  0 <= len < 2 ^ 32 -> negb (Z.land flags (u32 2) =? 0) = true ->
  0 < ptr -> ptr + 4 * rW b < 2 ^ 64 ->
  (postfn = 0 \/ s32 (orcp cntp) = 0) ->
  match ow_make_room n b (len + RB_CHUNK_MARGIN) with
  | None => True
  | Some (b1, rc) =>
      match Src_rbow.qb_rb_chunk_write (S n) rbp srcp len a0 a1 a2 cntm cntp cntr cnts errno orcm orcp orcr orcs flags inst
              postfn 0 0 d ptr (rpt b) (rW b) (wpt b) with
      | None => False
      | Some (rv, a0', a1', a2', cntm', cntp', cntr', cnts', errno', d', r', w') =>
          cntr' = cntr /\ cnts' = cnts /\ r' = rpt b1 /\
          if rc =? 0 then
            match alloc_header b1 with
            | AOk b2 dp =>
                let '(b3, _) := commit b2 len in
                rv = len /\ w' = wpt b3 /\ rpt b3 = rpt b1 /\ agree d' (data b3) /\ errno' = errno /\
                cntm' = cntm + 1 /\ a0' cntm = ptr + 4 * dp /\ a1' cntm = srcp /\ a2' cntm = len /\
                cntp' = cntp + (if postfn =? 0 then 0 else 1)
            | _ => False
            end
          else rv = rc /\ w' = wpt b /\ agree d' (data b1) /\ errno' = - rc /\ cntm' = cntm /\ cntp' = cntp
      end
  end.
Proof.
  intros n b rbp srcp len a0 a1 a2 cntm cntp cntr cnts errno orcm orcp orcr orcs flags inst postfn d ptr
         Hp Hh A Wk Hl Hf Hptr Hptr2 Hpost.
  pose proof (src_alloc_overwrite n b rbp d len cntr cnts errno orcr orcs flags inst ptr Hp Hh A Wk
                ltac:(change (2 ^ 32) with 4294967296 in Hl; change (2 ^ 62) with 4611686018427387904; lia) Hf) as HA.
  destruct (ow_make_room n b (len + RB_CHUNK_MARGIN)) as [(b1, rc)|] eqn:EM; [|exact I].
  destruct (ow_make_room_keeps n b _ b1 rc Hh Wk EM) as (Hh1 & Wk1 & Ew & EW & Hrc).
  unfold Src_rbow.qb_rb_chunk_write. rewrite same_alloc.
  destruct (Src_rb.qb_rb_chunk_alloc (S n) rbp len cntr cnts errno orcr orcs flags inst 0 0 d ptr (rpt b) (rW b) (wpt b))
    as [(((((p, cntr'), cnts'), errno'), d'), r')|]; [|contradiction].
  destruct HA as (-> & -> & -> & HA).
  destruct (rbp =? 0) eqn:E0; [apply Z.eqb_eq in E0; contradiction|].
  destruct Hrc as [-> | ->].
  - (* room was made *)
    change (0 =? 0) with true in *. cbv iota in *.
    unfold alloc_header in *. destruct HA as (-> & Ad & ->).
    set (b2 := set_data b1 _) in *.
    assert (Hdp : 0 <= (wpt b1 + RB_CHUNK_HEADER_WORDS) mod rW b1 < rW b1).
    { apply Z.mod_pos_bound. destruct Hh1 as (? & _). lia. }
    rewrite EW in Hdp at 2.
    rewrite (u64_small (ptr + _)) by (change (2 ^ 64) with 18446744073709551616 in *; lia).
    destruct (ptr + 4 * ((wpt b1 + RB_CHUNK_HEADER_WORDS) mod rW b1) =? 0) eqn:Ez; [lia|].
    rewrite same_commit.
    assert (Hh2 : hdr_ok (rW b2) (wpt b2) (rpt b2)) by exact Hh1.
    pose proof (src_commit b2 rbp d' len cntp orcp inst postfn Hp Hh2 Ad Hl) as HC.
    change (rW b2) with (rW b1) in HC. change (wpt b2) with (wpt b1) in HC. rewrite EW, Ew in HC.
    destruct (Src_rb.qb_rb_chunk_commit rbp len cntp orcp inst postfn d' (rW b) (wpt b)) as (((r3, cntp3), d3), w3).
    destruct (commit b2 len) as (b3, rc3) eqn:EC.
    assert (rc3 = 0) by (unfold commit in EC; inversion EC; reflexivity). subst rc3.
    destruct HC as (Hw3 & Ad3 & Hr3 & HW3 & _ & Hp0 & Hp1).
    assert (Hr30 : s32 r3 = 0 /\ cntp3 = cntp + (if postfn =? 0 then 0 else 1)).
    { destruct (postfn =? 0) eqn:Epf.
      - apply Z.eqb_eq in Epf. destruct (Hp0 Epf) as (-> & ->). split; [reflexivity | lia].
      - apply Z.eqb_neq in Epf. destruct (Hp1 Epf) as (-> & ->).
        destruct Hpost as [Hpost | Hpost]; [contradiction|]. rewrite Hpost. split; reflexivity. }
    destruct Hr30 as (Hr30 & Hcp). rewrite Hr30. change (0 <? 0) with false. cbv iota.
    assert (S64 : s64 len = len) by (apply s64_small; change (2 ^ 32) with 4294967296 in Hl; change (2 ^ 63) with 9223372036854775808; lia).
    rewrite S64.
    spl; try reflexivity; try assumption; try (rewrite upd_same; reflexivity).
  - (* even the empty ring is too small: EINVAL *)
    change (- RB_EINVAL =? 0) with false in *. cbv iota in *.
    destruct HA as (-> & -> & Ad). change (u64 0 =? 0) with true. cbv iota.
    spl; try reflexivity; assumption.
Qed.

Lemma src_example_c11 :
  let d := fun i => if i =? 1020 then 5 else if i =? 1021 then 2711724449 else 0 in
  hdr_ok 1027 1024 1020 /\
  fst (fst (fst (fst (Src_rbow.qb_rb_chunk_peek 1 0 0 0 0 (fun _ => 0) 0 (fun _ => 0) (fun _ => 0) 0 0 0 d 4096 1020 1027 1024)))) = 5 /\
  snd (Src_rbow.qb_rb_chunk_read 1 0 100 0 (fun _ => 0) (fun _ => 0) (fun _ => 0) 0 0 0 0 0 (fun _ => 0) (fun _ => 0) (fun _ => 0)
         (fun _ => 0) 0 0 0 0 d 4096 1020 1027 1024) = 1024.
Proof. cbv zeta. split; [unfold hdr_ok; lia|]. split; vm_compute; reflexivity. Qed.
