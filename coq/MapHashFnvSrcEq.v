(* Source tie for the hash function of lib/hashtable.c (C17 / C18, hashtable part).
   gen/Src_maphash.v is regenerated from lib/hashtable.c by tools/c2coq.py on every run; hash_fnv walks over the key's
   bytes with a byte-pointer cursor, which the translator represents by its offset (`value_bytes' is the byte path).
   Here: the translated hash_fnv, applied to the bytes of a key k, computes exactly the bucket number the model uses,
   (hash_fnv_raw prime order k) mod 2^order, with the prime of the working tree. *)
From Coq Require Import ZArith NArith List Bool Lia.
Import ListNotations.
Require Import Verif.C2CoqPrelude Verif.gen.Consts_map Verif.gen.Src_maphash Verif.MapSpec Verif.MapHashModel.
Local Open Scope Z_scope.
Ltac Zify.zify_post_hook ::= Z.div_mod_to_equations.

Ltac unwrap := unfold u8, s8, u16, s16, u32, s32, u64, s64, uwrap, swrap in *;
  change (2 ^ 32) with 4294967296 in *; change (2 ^ 64) with 18446744073709551616 in *;
  change (2 ^ (32 - 1)) with 2147483648 in *; change (2 ^ (64 - 1)) with 9223372036854775808 in *.

Lemma N2Z_inj_lxor a b : Z.of_N (N.lxor a b) = Z.lxor (Z.of_N a) (Z.of_N b).
Proof. destruct a, b; reflexivity. Qed.
Lemma N2Z_inj_shiftr a n : Z.of_N (N.shiftr a n) = Z.shiftr (Z.of_N a) (Z.of_N n).
Proof.
  rewrite Z.shiftr_div_pow2 by apply N2Z.is_nonneg. rewrite N.shiftr_div_pow2.
  rewrite N2Z.inj_div, N2Z.inj_pow. reflexivity.
Qed.

(* the key's bytes as the translated function sees them *)
Definition bytes_of (k : key) (i : Z) : Z := Z.of_N (nth (Z.to_nat i) k 0%N).

Definition fnv_step (prime : N) (h b : N) : N := ((N.lxor h b * prime) mod 4294967296)%N.

Lemma fnv_step_z prime h b :
  Z.of_N prime = 16777619 -> (h < 4294967296)%N -> (b < 256)%N ->
  u32 (u32 (u32 (u32 (Z.lxor (u32 (Z.of_N h)) (u32 (Z.of_N b)))) * u32 16777619)) = Z.of_N (fnv_step prime h b).
Proof.
  intros Hp Hh Hb. unfold fnv_step.
  rewrite N2Z.inj_mod, N2Z.inj_mul, N2Z_inj_lxor, Hp.
  change (Z.of_N 4294967296) with 4294967296.
  rewrite (u32_small (Z.of_N h)) by (unwrap; lia).
  rewrite (u32_small (Z.of_N b)) by (unwrap; lia).
  change (u32 16777619) with 16777619.
  assert (Hx : 0 <= Z.lxor (Z.of_N h) (Z.of_N b) < 4294967296).
  { rewrite <- N2Z_inj_lxor.
    assert (N.lxor h b < 2 ^ 32)%N.
    { destruct (N.eq_dec (N.lxor h b) 0) as [E|E]; [rewrite E; reflexivity|].
      apply N.log2_lt_pow2; [lia|].
      eapply N.le_lt_trans; [apply N.log2_lxor|].
      apply N.max_lub_lt.
      - destruct (N.eq_dec h 0) as [->|]; [reflexivity|]. apply N.log2_lt_pow2; [lia|]. exact Hh.
      - destruct (N.eq_dec b 0) as [->|]; [reflexivity|]. apply N.log2_lt_pow2; [lia|].
        eapply N.lt_trans; [exact Hb|reflexivity]. }
    change (2 ^ 32)%N with 4294967296%N in H. lia. }
  unfold u32, uwrap. change (2 ^ 32) with 4294967296.
  rewrite !(Z.mod_small (Z.lxor (Z.of_N h) (Z.of_N b)) 4294967296) by lia.
  rewrite !Z.mod_mod by lia. reflexivity.
Qed.

Lemma fnv_step_lt prime h b : (fnv_step prime h b < 4294967296)%N.
Proof. unfold fnv_step. apply N.mod_lt. discriminate. Qed.

Lemma src_hash_fnv_loop prime : Z.of_N prime = 16777619 ->
  forall (l : list N) (pre : list N) (fuel : nat) (h : N),
  (length l < fuel)%nat -> Z.of_nat (length pre + length l) < 2 ^ 63 -> (h < 4294967296)%N ->
  Forall (fun b => (b < 256)%N) l ->
  hash_fnv_loop1 fuel (Z.of_nat (length pre + length l)) (bytes_of (pre ++ l)) (Z.of_nat (length pre)) (Z.of_N h)
  = Some (Z.of_nat (length pre + length l), Z.of_N (fold_left (fnv_step prime) l h)).
Proof.
  intros Hp l. induction l as [|b l IH]; intros pre fuel h Hf Hn Hh Hb; destruct fuel as [|fuel]; cbn [length] in *; try lia.
  - cbn [hash_fnv_loop1 fold_left]. rewrite Nat.add_0_r, Z.ltb_irrefl. reflexivity.
  - cbn [hash_fnv_loop1 fold_left].
    assert (E : (Z.of_nat (length pre) <? Z.of_nat (length pre + S (length l))) = true) by (apply Z.ltb_lt; lia).
    rewrite E.
    assert (Hbyte : bytes_of (pre ++ b :: l) (Z.of_nat (length pre)) = Z.of_N b).
    { unfold bytes_of. rewrite Nat2Z.id, app_nth2 by lia. rewrite Nat.sub_diag. reflexivity. }
    rewrite Hbyte.
    inversion Hb as [|? ? Hb0 Hbl]; subst.
    rewrite (fnv_step_z prime) by assumption.
    rewrite (u64_small (Z.of_nat (length pre) + 1)) by (unwrap; lia).
    replace (Z.of_nat (length pre) + 1) with (Z.of_nat (length (pre ++ [b]))) by (rewrite app_length; cbn [length]; lia).
    replace (pre ++ b :: l) with ((pre ++ [b]) ++ l) by (rewrite <- app_assoc; reflexivity).
    replace (length pre + S (length l))%nat with (length (pre ++ [b]) + length l)%nat by (rewrite app_length; cbn [length]; lia).
    apply IH.
    + lia.
    + rewrite app_length. cbn [length]. lia.
    + apply fnv_step_lt.
    + exact Hbl.
Qed.

Lemma fnv_fold_eq prime k : fnv_fold prime k = fold_left (fnv_step prime) k FNV_OFFSET.
Proof. reflexivity. Qed.

(* the translated hash_fnv = the model's bucket number *)
Lemma src_hash_fnv prime (k : key) (order : nat) (fuel : nat) (value : Z) :
  Z.of_N prime = 16777619 -> (length k < fuel)%nat -> Z.of_nat (length k) < 2 ^ 32 -> (1 <= order <= 30)%nat ->
  Forall (fun b => (b < 256)%N) k ->
  hash_fnv fuel value (Z.of_nat (length k)) (Z.of_nat order) (bytes_of k)
  = Some (Z.of_N (hash_fnv_raw prime order k mod 2 ^ N.of_nat order)).
Proof.
  intros Hp Hf Hn Ho Hb. unfold hash_fnv.
  change (u32 2166136261) with (Z.of_N FNV_OFFSET).
  pose proof (src_hash_fnv_loop prime Hp k [] fuel FNV_OFFSET) as HL.
  cbn [length Nat.add app] in HL. change (Z.of_nat 0) with 0 in HL.
  rewrite HL; [|lia|lia|reflexivity|exact Hb]. clear HL.
  rewrite <- fnv_fold_eq. unfold hash_fnv_raw.
  set (h := fnv_fold prime k).
  assert (Hh : (h < 4294967296)%N).
  { unfold h. rewrite fnv_fold_eq. destruct k as [|b k'] using rev_ind; [reflexivity|].
    rewrite fold_left_app. cbn [fold_left]. apply fnv_step_lt. }
  f_equal.
  set (o := Z.of_nat order).
  assert (Ho' : 1 <= o <= 30) by (unfold o; lia).
  assert (Hpow : 2 <= 2 ^ o <= 2 ^ 30) by (split; [change 2 with (2 ^ 1) at 1|]; apply Z.pow_le_mono_r; lia).
  change (2 ^ 30) with 1073741824 in Hpow.
  rewrite Z.shiftl_1_l.
  rewrite (s32_small (2 ^ o)) by (unwrap; lia).
  rewrite (s32_small (2 ^ o - 1)) by (unwrap; lia).
  rewrite (u32_small (2 ^ o - 1)) by (unwrap; lia).
  replace (2 ^ o - 1) with (Z.ones o) by (rewrite Z.ones_equiv; lia).
  rewrite Z.land_ones by lia.
  set (x := Z.lxor (Z.shiftr (Z.of_N h) o) (Z.of_N h)).
  assert (Hx : x = Z.of_N (N.lxor (N.shiftr h (N.of_nat order)) h)).
  { unfold x, o. rewrite N2Z_inj_lxor, N2Z_inj_shiftr. rewrite nat_N_Z. reflexivity. }
  assert (Hm : 0 <= x mod 2 ^ o < 2 ^ o) by (apply Z.mod_pos_bound; lia).
  rewrite (s32_small (x mod 2 ^ o)) by (unwrap; lia).
  rewrite (s32_small (x mod 2 ^ o)) by (unwrap; lia).
  rewrite (u32_small (x mod 2 ^ o)) by (unwrap; lia).
  rewrite Hx, N2Z.inj_mod, N2Z.inj_pow. unfold o. rewrite nat_N_Z. reflexivity.
Qed.

(* the prime the model runs with is the working tree's (regenerated constant) and the literal in the translated source *)
Lemma map_prime_ok : Z.of_N (Z.to_N MAP_FNV_32_PRIME) = 16777619.
Proof. reflexivity. Qed.
