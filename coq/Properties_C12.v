(* C12 property theorems: statements only, each closed by `exact`.
   Model: coq/LogRouteModel.v (variant [fixed] = lib/log.c + lib/log_dcs.c with fixes/C12-*.patch applied;
   variant [orig] = the unchanged tree).  Proofs: coq/LogRouteProofs.v.
   [re_ok]/[re_match] are the regcomp/regexec oracles: the theorems hold for every behaviour of them. *)
From Coq Require Import ZArith List.
Require Import Verif.gen.Consts_log Verif.LogRouteModel Verif.LogRouteProofs.
Import ListNotations.
Local Open Scope Z_scope.

(* ROUTING.  For every history h of filter / tag / enable / disable / open / close operations and log calls, in any
   order, and every further log call from any (function, file, format, priority, line): the loggers invoked are exactly
   [route] of the CONFIGURATION h leaves (target states and stored filters - a structure without call sites) and the
   call's own coordinates; an explicit tag word is reported as given.  Hence the outcome does not depend on when the
   call site was first used, on when targets were enabled, or on what was removed before.
   _partial: hypothesis G_log_lineno_range (0 < line < 65536 for every call in the history) - known finding
   C12-lineno-range, see C12_routing_line0_refuted; and the process must not have been ended by the assertion
   that fires at the 65537th distinct call site. *)
Theorem C12_routing_partial :
  forall (re_ok : str -> bool) (re_match : str -> str -> bool) p h fn file fmt prio line tags,
  G_log_lineno_range (h ++ [OLog fn file fmt prio line tags]) = true ->
  let st := fst (run re_ok re_match fixed (log_init p) h) in
  let r := step re_ok re_match fixed st (OLog fn file fmt prio line tags) in
  aborted (fst r) = false ->
  exists id g, snd r = ODeliv id g (route re_match (cfg_run re_ok (cfg_init p) h) (call_site fn file fmt prio line))
               /\ (tags <> 0 -> g = tags).
Proof. exact routing_fixed. Qed.
Print Assumptions C12_routing_partial.

(* what [route] says: target t gets the message iff it is a valid slot, ENABLED now, and one of ITS stored filters
   selects the call ... *)
Theorem C12_route_iff :
  forall (re_match : str -> str -> bool) c s t,
  In t (route re_match c s) <->
  (0 <= t < LOG_TARGET_MAX) /\ tstate (c_conf c) t = LOG_STATE_ENABLED /\
  exists f, In f (tfilters (c_conf c) t) /\ flt_selects re_match s f = true.
Proof. exact route_iff. Qed.
Print Assumptions C12_route_iff.

(* ... and exactly once per call *)
Theorem C12_route_exactly_once : forall (re_match : str -> str -> bool) c s, NoDup (route re_match c s).
Proof. exact route_NoDup. Qed.
Print Assumptions C12_route_exactly_once.

(* TAGS.  For histories whose calls carry no explicit tag word, the tag reported with a message is the value of the
   last stored tag rule that selects the call (0 if none): a function of the configuration and the call alone.
   _partial: not covered are histories that mix explicit tag words and tag rules on one call site (an explicit tag word
   is sticky in the call-site record - tests/check_log.c:test_zero_tags relies on it - so there the last writer wins). *)
Theorem C12_tags_partial :
  forall (re_ok : str -> bool) (re_match : str -> str -> bool) p h fn file fmt prio line,
  G_log_lineno_range (h ++ [OLog fn file fmt prio line 0]) = true ->
  no_explicit_tags h = true ->
  let st := fst (run re_ok re_match fixed (log_init p) h) in
  let r := step re_ok re_match fixed st (OLog fn file fmt prio line 0) in
  aborted (fst r) = false ->
  exists id, snd r = ODeliv id (tag_of re_match (cfg_run re_ok (cfg_init p) h) (call_site fn file fmt prio line))
                              (route re_match (cfg_run re_ok (cfg_init p) h) (call_site fn file fmt prio line)).
Proof. exact tags_refine_spec. Qed.
Print Assumptions C12_tags_partial.

(* The same statement is FALSE of the code in the unchanged tree ... *)
Theorem C12_routing_refuted_unchanged_tree : ~ routing_statement orig.
Proof. exact routing_refuted_orig. Qed.
Print Assumptions C12_routing_refuted_unchanged_tree.

(* ... and each of the four repairs is needed on its own (witnesses = the scripts replayed on the real library) *)
Theorem C12_refuted_without_replay_for_disabled_targets : ~ routing_statement without_replay_all.
Proof. exact routing_refuted_without_replay_all. Qed.
Theorem C12_refuted_without_reapply_after_remove : ~ routing_statement without_reapply.
Proof. exact routing_refuted_without_reapply. Qed.
Theorem C12_refuted_without_regex_of_removed_filter : ~ routing_statement without_reapply.
Proof. exact routing_refuted_without_reapply_regex. Qed.
Theorem C12_refuted_without_function_in_key : ~ routing_statement without_fnkey.
Proof. exact routing_refuted_without_fnkey. Qed.
Theorem C12_refuted_without_clearing_on_close : ~ routing_statement without_close_clears.
Proof. exact routing_refuted_without_close_clears. Qed.

(* the guard of C12_routing_partial cannot be dropped: line 0 (known finding C12-lineno-range) *)
Theorem C12_routing_line0_refuted :
  exists id g, snd (step (fun _ => true) (fun _ _ => false) fixed
                         (fst (run (fun _ => true) (fun _ _ => false) fixed (log_init 6) witness_L)) (OLog s_f s_ac s_a 6 0 0))
               = ODeliv id g [] /\
               route (fun _ _ => false) (cfg_run (fun _ => true) (cfg_init 6) witness_L) (call_site s_f s_ac s_a 6 0) = [4].
Proof. exact routing_line0_refuted. Qed.

(* non-vacuity: a concrete history (three targets, overlapping filters, REMOVE, disable, close + re-open, a tag rule,
   call sites logged before anything was configured) meets the hypotheses; the call is routed to target 4, tag 9 *)
Example C12_example_meets_hypotheses :
  G_log_lineno_range (example_history ++ [OLog s_f s_ac s_a 6 10 0]) = true /\
  aborted (fst (step (fun _ => true) (fun _ _ => false) fixed
                     (fst (run (fun _ => true) (fun _ _ => false) fixed (log_init 6) example_history))
                     (OLog s_f s_ac s_a 6 10 0))) = false /\
  snd (step (fun _ => true) (fun _ _ => false) fixed
            (fst (run (fun _ => true) (fun _ _ => false) fixed (log_init 6) example_history))
            (OLog s_f s_ac s_a 6 10 0)) = ODeliv 0 9 [4] /\
  route (fun _ _ => false) (cfg_run (fun _ => true) (cfg_init 6) example_history) (call_site s_f s_ac s_a 6 10) = [4].
Proof. exact example_meets_hypotheses. Qed.
