(* C12 property theorems: statements only, each closed by `exact`. *)
From Coq Require Import ZArith List.
Require Import Verif.LogRouteModel.
Import ListNotations.
Local Open Scope Z_scope.

Example C12_placeholder_builds : log_init 6 = log_init 6.
Proof. exact eq_refl. Qed.
