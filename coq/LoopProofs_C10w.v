(* C10 for the workloads the property names: self-re-adding jobs, always-ready descriptors, zero-delay
   timers, in any mix - callbacks that add / modify / query but never delete and register no signals.
   For these, an item that is on a job list stays there until it is dispatched, so "pending work" can be
   stated at the START of a window of three turns: the level dispatches at least one item in the window. *)
Require Import ZArith List Bool Lia.
Require Import Verif.gen.Consts_loop Verif.LoopModel Verif.LoopProofs_C10.
Import ListNotations.
Open Scope Z_scope.

Definition jq (st : state) (p : prio) : list qitem := jobq (lv st p).
Definition is_sig (it : qitem) : bool := match it with QSig _ _ _ _ => true | _ => false end.
Definition op_workload (o : op) : bool :=
  match o with
  | OJobAdd _ _ | OTimerAdd _ _ _ _ | OTimerRunning _ | OPollAdd _ _ _ _ | OPollMod _ _ _ _
  | OStop | OClose _ | ORaise _ => true
  | _ => false
  end.
(* every callback only makes workload calls (what it returns is free: a negative return of a descriptor
   callback removes the descriptor, which touches no job list) *)
Definition workload (beh : behaviour) : Prop := forall key n, forallb op_workload (fst (beh key n)) = true.
(* no signal registration and no signal clone anywhere *)
Definition nosig (st : state) : Prop :=
  sigs st = [] /\ (forall p it, In it (jq st p) -> is_sig it = false) /\
  (forall p it, In it (wait (lv st p)) -> is_sig it = false).

(* frame: levels and signal registrations untouched *)
Definition fr (st st' : state) : Prop := lv st' = lv st /\ sigs st' = sigs st.
Lemma fr_refl : forall st, fr st st. Proof. split; reflexivity. Qed.
Lemma fr_trans : forall a b c, fr a b -> fr b c -> fr a c.
Proof. intros a b c [H1 H2] [H3 H4]. split; congruence. Qed.
Lemma fr_nosig : forall st st', fr st st' -> nosig st -> nosig st'.
Proof. intros st st' [L S] (A & B & C). unfold nosig, jq in *. rewrite L, S. auto. Qed.
Lemma fr_jq : forall st st' p, fr st st' -> jq st' p = jq st p.
Proof. intros st st' p [L _]. unfold jq. now rewrite L. Qed.

Lemma prio_eqb_eq : forall a b, prio_eqb a b = true <-> a = b.
Proof. destruct a, b; cbn; split; intros; congruence. Qed.
Lemma prio_eqb_refl : forall a, prio_eqb a a = true.
Proof. destruct a; reflexivity. Qed.

Lemma fr_next_random : forall st, fr st (snd (next_random st)).
Proof. intros. unfold next_random. destruct (rand st); (split; reflexivity). Qed.
Lemma fr_draw_check : forall f c st, fr st (snd (draw_check f c st)).
Proof.
  induction f; intros; cbn [draw_check]; [(split; reflexivity)|].
  pose proof (fr_next_random st). destruct (next_random st) as [r s]. cbn in H.
  destruct (0 <? r); cbn; [auto|]. eapply fr_trans; eauto.
Qed.
Lemma fr_draw_check_p : forall f c st, fr st (snd (draw_check_p f c st)).
Proof.
  induction f; intros; cbn [draw_check_p]; [(split; reflexivity)|].
  pose proof (fr_next_random st). destruct (next_random st) as [r s]. cbn in H.
  destruct (negb (r =? 0) && negb (r =? TWO32 - 1)); cbn; [auto|]. eapply fr_trans; eauto.
Qed.
Lemma fr_timer_slot : forall st, fr st (snd (timer_slot st)).
Proof. intros. unfold timer_slot. destruct (find_idx _ _); (split; reflexivity). Qed.
Lemma fr_poll_slot : forall st, fr st (snd (poll_slot st)).
Proof. intros. unfold poll_slot. destruct (find_idx _ _); (split; reflexivity). Qed.
Lemma fr_k_add : forall a b c st, fr st (snd (k_add a b c st)).
Proof. intros. unfold k_add. destruct (kfind _ _); (split; reflexivity). Qed.
Lemma fr_k_mod : forall a b c st, fr st (snd (k_mod a b c st)).
Proof. intros. unfold k_mod. destruct (kfind _ _); (split; reflexivity). Qed.

Lemma fr_timer_add : forall p d k r st, fr st (snd (timer_add p d k r st)).
Proof.
  intros. unfold timer_add.
  pose proof (fr_timer_slot st). destruct (timer_slot st) as [i s1]. cbn in H.
  unfold fresh_uid.
  match goal with |- context [draw_check 200 0 ?s] => pose proof (fr_draw_check 200 0 s) as H2; destruct (draw_check 200 0 s) as [c s2] end.
  cbn in H2. cbn. eapply fr_trans; [exact H|]. eapply fr_trans; [|split; reflexivity]. destruct H2 as [A B]. split; cbn in *; auto.
Qed.
Lemma fr_poll_add : forall g p fd e k st, fr st (snd (poll_add_gen g p fd e k st)).
Proof.
  intros. unfold poll_add_gen.
  destruct (fx_pollreuse (fx st) && existsb (fd_is_live fd) (polls st)); [split; reflexivity|].
  pose proof (fr_poll_slot st). destruct (poll_slot st) as [i s1]. cbn in H.
  unfold fresh_uid.
  match goal with |- context [draw_check_p 200 0 ?s] => pose proof (fr_draw_check_p 200 0 s) as H2; destruct (draw_check_p 200 0 s) as [c s2] end.
  match goal with |- context [k_add ?a ?b ?d s2] => pose proof (fr_k_add a b d s2) as H3; destruct (k_add a b d s2) as [res s3] end.
  destruct (res =? 0); cbn in *; destruct H as [A1 B1], H2 as [A2 B2], H3 as [A3 B3]; split; cbn in *; congruence.
Qed.
Lemma fr_poll_mod : forall p fd e k st, fr st (snd (poll_mod p fd e k st)).
Proof.
  intros. unfold poll_mod. destruct (find_idx _ _); [|(split; reflexivity)].
  destruct (nth_error _ _); [|(split; reflexivity)]. destruct (_ || _); [(split; reflexivity)|].
  destruct (p_events p0 =? e).
  - cbn. split; reflexivity.
  - match goal with |- context [k_mod ?a ?b ?d st] => pose proof (fr_k_mod a b d st) as H3; destruct (k_mod a b d st) as [res s3] end.
    cbn in *. destruct H3. split; cbn; auto.
Qed.
Lemma raise_nosig : forall g st, sigs st = [] -> raise_signal g st = st.
Proof. intros. unfold raise_signal. now rewrite H. Qed.

(* job list of a level after an update of one level *)
Lemma jq_upd_level : forall p f st q, jq (upd_level p f st) q = if prio_eqb q p then jobq (f (lv st p)) else jq st q.
Proof. intros. unfold jq, upd_level, set_lv. cbn. destruct (prio_eqb q p); reflexivity. Qed.
Lemma wait_upd_level : forall p f st q,
  wait (lv (upd_level p f st) q) = if prio_eqb q p then wait (f (lv st p)) else wait (lv st q).
Proof. intros. unfold upd_level, set_lv. cbn. destruct (prio_eqb q p); reflexivity. Qed.
Lemma sigs_upd_level : forall p f st, sigs (upd_level p f st) = sigs st.
Proof. reflexivity. Qed.

(* a workload call leaves every job list as it is *)
Lemma exec_op_workload : forall o st, op_workload o = true -> nosig st ->
  nosig (exec_op o st) /\ (forall p, jq (exec_op o st) p = jq st p).
Proof.
  intros o st W N. unfold exec_op, ret.
  assert (E : fr st (emit (EvOp o) st)) by (split; reflexivity).
  pose proof (fr_nosig _ _ E N) as N1. set (s0 := emit (EvOp o) st) in *.
  assert (FR : forall s', fr s0 s' -> nosig s' /\ (forall p, jq s' p = jq st p)).
  { intros s' F. split; [eapply fr_nosig; eauto|]. intros p. rewrite (fr_jq _ _ p F). apply (fr_jq _ _ p E). }
  destruct o; try discriminate W.
  - (* job_add *)
    unfold job_add, fresh_uid. cbn [fst snd].
    match goal with |- nosig (emit _ (upd_level ?p ?f ?s)) /\ _ => set (s1 := s) end.
    assert (F1 : fr s0 s1) by (split; reflexivity).
    destruct (FR s1 F1) as [(NA & NB & NC) J1]. split.
    + split; [exact NA|]. split.
      * intros q it. unfold emit. change (jq (set_out ?o ?s) q) with (jq s q). rewrite jq_upd_level.
        destruct (prio_eqb q p) eqn:Eq; [apply prio_eqb_eq in Eq; subst; cbn|]; apply NB.
      * intros q it. unfold emit. change (lv (set_out ?o ?s) q) with (lv s q). rewrite wait_upd_level.
        destruct (prio_eqb q p) eqn:Eq; [apply prio_eqb_eq in Eq; subst; cbn|]; [|apply NC].
        intros Hin. apply in_app_or in Hin. destruct Hin as [Hin|[<-|[]]]; [eapply NC; eauto | reflexivity].
    + intros q. unfold emit. change (jq (set_out ?o ?s) q) with (jq s q). rewrite jq_upd_level.
      destruct (prio_eqb q p) eqn:Eq; [apply prio_eqb_eq in Eq; subst; cbn|]; apply J1.
  - (* timer_add *) apply FR. eapply fr_trans; [apply fr_timer_add|split; reflexivity].
  - (* is_running *) apply FR. split; reflexivity.
  - (* poll_add *) apply FR. eapply fr_trans; [apply fr_poll_add|split; reflexivity].
  - (* poll_mod *) apply FR. eapply fr_trans; [apply fr_poll_mod|split; reflexivity].
  - (* stop *) apply FR. split; reflexivity.
  - (* close *) apply FR. split; reflexivity.
  - (* raise *) rewrite raise_nosig by apply N1. apply FR. (split; reflexivity).
Qed.

Lemma exec_ops_workload : forall ops st, forallb op_workload ops = true -> nosig st ->
  nosig (exec_ops ops st) /\ (forall p, jq (exec_ops ops st) p = jq st p).
Proof.
  induction ops as [|o ops IH]; intros st W N; [split; auto|]. cbn in W. apply andb_true_iff in W. destruct W as [W1 W2].
  unfold exec_ops. cbn [fold_left]. destruct (exec_op_workload o st W1 N) as [N1 J1].
  destruct (IH (exec_op o st) W2 N1) as [N2 J2]. split; [exact N2|]. intros p. unfold exec_ops in J2. rewrite J2. apply J1.
Qed.

Lemma callback_workload : forall beh kind key a b st, workload beh -> nosig st ->
  nosig (snd (callback beh kind key a b st)) /\ (forall p, jq (snd (callback beh kind key a b st)) p = jq st p).
Proof.
  intros beh kind key a b st W N. unfold callback. specialize (W key (assoc key (cnt st))).
  destruct (beh key (assoc key (cnt st))) as [ops r]. cbn [fst snd] in *.
  match goal with |- context [exec_ops ops ?s] => set (s1 := s) end.
  assert (F : fr st s1) by (split; reflexivity).
  destruct (exec_ops_workload ops s1 W (fr_nosig _ _ F N)) as [N2 J2]. split; [exact N2|].
  intros p. rewrite J2. apply (fr_jq _ _ p F).
Qed.

Lemma callback_workload_fr : forall beh kind key a b st s1, workload beh -> nosig st -> fr st s1 ->
  nosig (snd (callback beh kind key a b s1)) /\ (forall p, jq (snd (callback beh kind key a b s1)) p = jq st p).
Proof.
  intros beh kind key a b st s1 W N F.
  destruct (callback_workload beh kind key a b s1 W (fr_nosig _ _ F N)) as [N2 J2].
  split; [exact N2|]. intros p. rewrite J2. apply (fr_jq _ _ p F).
Qed.

(* dispatching an item that is not a signal clone leaves every job list as it is *)
Lemma dispatch_workload : forall beh it st, workload beh -> nosig st -> is_sig it = false ->
  nosig (dispatch beh it st) /\ (forall p, jq (dispatch beh it st) p = jq st p).
Proof.
  intros beh it st W N S. destruct it; try discriminate S; cbn [dispatch].
  - apply callback_workload_fr; auto. split; reflexivity.
  - destruct (nth_error (timers st) slot) as [tsl|]; [|split; auto].
    match goal with |- context [callback beh 1 ?k 0 0 ?s] =>
      assert (F : fr st s) by (split; reflexivity);
      pose proof (callback_workload_fr beh 1 k 0 0 st s W N F) as [N2 J2]; destruct (callback beh 1 k 0 0 s) as [r s2] end.
    cbn [snd] in *.
    match goal with |- nosig ?s /\ _ => assert (F3 : fr s2 s) by (split; reflexivity) end.
    split; [eapply fr_nosig; eauto|]. intros q. rewrite (fr_jq _ _ q F3). apply J2.
  - destruct (nth_error (polls st) slot) as [psl|]; [|split; auto].
    match goal with |- context [callback beh 2 ?k ?a ?b ?s] =>
      assert (F : fr st s) by (split; reflexivity);
      pose proof (callback_workload_fr beh 2 k a b st s W N F) as [N2 J2]; destruct (callback beh 2 k a b s) as [r s2] end.
    cbn [snd] in *.
    assert (X : forall s', fr s2 s' -> nosig s' /\ (forall q, jq s' q = jq st q))
      by (intros s' F3; split; [eapply fr_nosig; eauto|intros q; rewrite (fr_jq _ _ q F3); apply J2]).
    destruct (r <? 0).
    + destruct (nth_error (polls s2) slot) as [e'|]; [destruct (est_eqb (p_state e') Deleted)|]; apply X; split; reflexivity.
    + match goal with |- nosig ?s /\ _ => assert (F3 : fr s2 s) by (split; reflexivity) end.
      split; [eapply fr_nosig; eauto|]. intros q. rewrite (fr_jq _ _ q F3). apply J2.
Qed.

(* qb_loop_run_level: other levels' job lists unchanged; its own only loses a prefix *)
Lemma run_level_go_workload : forall beh p, workload beh -> forall fuel processed st st' n,
  nosig st -> run_level_go beh p fuel processed st = (st', n) ->
  nosig st' /\ (forall q, q <> p -> jq st' q = jq st q) /\ (exists pre, jq st p = pre ++ jq st' p).
Proof.
  intros beh p W. induction fuel as [|f IH]; intros processed st st' n N; cbn [run_level_go].
  - intros H; inversion H; subst. split; [auto|]. split; [auto|]. exists []. reflexivity.
  - destruct (jobq (lv st p)) as [|it rest] eqn:Q.
    + intros H; inversion H; subst. split; [auto|]. split; [auto|]. exists []. reflexivity.
    + set (s1 := upd_level p (fun l => {| wait := wait l; jobq := rest; todo := todo l |}) st).
      assert (J1 : forall q, jq s1 q = if prio_eqb q p then rest else jq st q).
      { intros q. unfold s1. rewrite jq_upd_level. reflexivity. }
      destruct N as (NA & NB & NC).
      assert (Sit : is_sig it = false) by (apply (NB p); unfold jq; rewrite Q; cbn; auto).
      assert (N1 : nosig s1).
      { split; [exact NA|]. split.
        - intros q x. rewrite J1. destruct (prio_eqb q p) eqn:E; [|apply NB].
          intros Hin. apply (NB p). unfold jq. rewrite Q. cbn; auto.
        - intros q x. unfold s1. rewrite wait_upd_level. destruct (prio_eqb q p) eqn:E; [|apply NC].
          apply prio_eqb_eq in E; subst. cbn. apply NC. }
      destruct (dispatch_workload beh it s1 W N1 Sit) as [N2 J2].
      set (s2 := dispatch beh it s1) in *.
      set (s3 := dec_todo p s2).
      assert (J3 : forall q, jq s3 q = jq s2 q).
      { intros q. unfold s3, dec_todo. rewrite jq_upd_level. destruct (prio_eqb q p) eqn:E; [|reflexivity].
        apply prio_eqb_eq in E; subst. reflexivity. }
      assert (N3 : nosig s3).
      { destruct N2 as (A & B & C). split; [exact A|]. split.
        - intros q x. rewrite J3. apply B.
        - intros q x. unfold s3, dec_todo. rewrite wait_upd_level. destruct (prio_eqb q p) eqn:E; [|apply C].
          apply prio_eqb_eq in E; subst. cbn. apply C. }
      assert (R : (forall q, q <> p -> jq s3 q = jq st q) /\ jq st p = [it] ++ jq s3 p).
      { split.
        - intros q Hq. rewrite J3, J2, J1. destruct (prio_eqb q p) eqn:E; [apply prio_eqb_eq in E; contradiction|reflexivity].
        - rewrite J3, J2, J1, prio_eqb_refl. unfold jq. rewrite Q. reflexivity. }
      destruct R as [R1 R2].
      fold s1. fold s2. fold s3.
      destruct (stop s3).
      * intros H; inversion H; subst. split; [exact N3|]. split; [exact R1|]. exists [it]. exact R2.
      * destruct (processed + 1 <? LOOP_TO_PROCESS).
        -- intros H. apply IH in H; [|exact N3]. destruct H as (N4 & O4 & (pre & P4)).
           split; [exact N4|]. split.
           ++ intros q Hq. rewrite O4 by auto. apply R1; auto.
           ++ exists ([it] ++ pre). rewrite R2, P4. now rewrite app_assoc.
        -- intros H; inversion H; subst. split; [exact N3|]. split; [exact R1|]. exists [it]. exact R2.
Qed.

Lemma serve_workload : forall beh c p st st' i, workload beh -> nosig st -> serve beh c p st = (st', i) ->
  nosig st' /\ (forall q, q <> p -> jq st' q = jq st q) /\ (exists pre, jq st p = pre ++ jq st' p) /\
  (li_admitted i = false -> st' = st).
Proof.
  intros beh c p st st' i W N. unfold serve. destruct (prio_geb p c).
  - destruct (run_level beh p st) as [s n] eqn:R. intros H; inversion H; subst.
    unfold run_level in R. apply run_level_go_workload in R; auto. destruct R as (A & B & C).
    split; [exact A|]. split; [exact B|]. split; [exact C|]. cbn. discriminate.
  - intros H; inversion H; subst. split; [auto|]. split; [auto|]. split; [exists []; reflexivity|auto].
Qed.

(* ------------------------------------------------------------------ the three polls only append *)
Definition grows (st st' : state) : Prop := forall p, exists l, jq st' p = jq st p ++ l.
Lemma grows_refl : forall st, grows st st. Proof. intros st p. exists []. now rewrite app_nil_r. Qed.
Lemma grows_trans : forall a b c, grows a b -> grows b c -> grows a c.
Proof. intros a b c H1 H2 p. destruct (H1 p) as [l1 E1], (H2 p) as [l2 E2]. exists (l1 ++ l2). now rewrite E2, E1, app_assoc. Qed.
Lemma grows_fr : forall st st', fr st st' -> grows st st'.
Proof. intros st st' F p. exists []. now rewrite (fr_jq _ _ p F), app_nil_r. Qed.
Lemma grows_nonempty : forall st st' p, grows st st' -> jq st p <> [] -> jq st' p <> [].
Proof. intros st st' p G H. destruct (G p) as [l E]. rewrite E. destruct (jq st p); [congruence|discriminate]. Qed.

(* adding a non-signal item to a job list *)
Lemma item_add_nosig : forall p it st, is_sig it = false -> nosig st -> nosig (item_add p it st) /\ grows st (item_add p it st).
Proof.
  intros p it st S (NA & NB & NC). unfold item_add. split.
  - split; [exact NA|]. split.
    + intros q x. rewrite jq_upd_level. destruct (prio_eqb q p) eqn:E; [|apply NB]. apply prio_eqb_eq in E; subst. cbn.
      intros Hin. apply in_app_or in Hin. destruct Hin as [Hin|[<-|[]]]; [eapply NB; eauto|exact S].
    + intros q x. rewrite wait_upd_level. destruct (prio_eqb q p) eqn:E; [|apply NC]. apply prio_eqb_eq in E; subst. cbn. apply NC.
  - intros q. rewrite jq_upd_level. destruct (prio_eqb q p) eqn:E.
    + apply prio_eqb_eq in E; subst. cbn. exists [it]. reflexivity.
    + exists []. now rewrite app_nil_r.
Qed.

Lemma more_jobs_level_nosig : forall p n st, nosig st ->
  nosig (snd (more_jobs_level p (n, st))) /\ grows st (snd (more_jobs_level p (n, st))).
Proof.
  intros p n st (NA & NB & NC). unfold more_jobs_level. destruct (wait (lv st p)) as [|w ws] eqn:Wq.
  - cbn. split; [repeat split; auto|apply grows_refl].
  - cbn [snd]. split.
    + split; [exact NA|]. split.
      * intros q x. rewrite jq_upd_level. destruct (prio_eqb q p) eqn:E; [|apply NB]. apply prio_eqb_eq in E; subst. cbn [jobq].
        intros Hin. apply in_app_or in Hin. destruct Hin as [Hin|Hin]; [eapply NB; eauto|]. apply (NC p). now rewrite Wq.
      * intros q x. rewrite wait_upd_level. destruct (prio_eqb q p) eqn:E; [|apply NC]. cbn. tauto.
    + intros q. rewrite jq_upd_level. destruct (prio_eqb q p) eqn:E.
      * apply prio_eqb_eq in E; subst. cbn [jobq]. eexists. reflexivity.
      * exists []. now rewrite app_nil_r.
Qed.
Lemma get_more_jobs_nosig : forall st, nosig st -> nosig (snd (get_more_jobs st)) /\ grows st (snd (get_more_jobs st)).
Proof.
  intros st N. unfold get_more_jobs.
  destruct (more_jobs_level_nosig Low 0 st N) as [N1 G1]. destruct (more_jobs_level Low (0, st)) as [n1 s1]. cbn [snd] in *.
  destruct (more_jobs_level_nosig Med n1 s1 N1) as [N2 G2]. destruct (more_jobs_level Med (n1, s1)) as [n2 s2]. cbn [snd] in *.
  destruct (more_jobs_level_nosig High n2 s2 N2) as [N3 G3]. split; [exact N3|]. eapply grows_trans; [exact G1|]. eapply grows_trans; eauto.
Qed.

Lemma expire_go_nosig : forall fuel n st, nosig st -> nosig (snd (expire_go fuel n st)) /\ grows st (snd (expire_go fuel n st)).
Proof.
  induction fuel as [|f IH]; intros n st N; cbn [expire_go]; [split; [auto|apply grows_refl]|].
  destruct (heap_min st) as [[i e]|]; [|split; [auto|apply grows_refl]].
  destruct (e <? now st); [|split; [auto|apply grows_refl]].
  destruct (nth_error (timers st) i) as [t|]; [|split; [auto|apply grows_refl]].
  match goal with |- context [item_add (t_p t) (QTimer i) ?s] => set (s1 := s) end.
  assert (F : fr st s1) by (split; reflexivity).
  destruct (item_add_nosig (t_p t) (QTimer i) s1 eq_refl (fr_nosig _ _ F N)) as [N2 G2].
  destruct (IH (n + 1) _ N2) as [N3 G3]. split; [exact N3|].
  eapply grows_trans; [apply grows_fr; exact F|]. eapply grows_trans; eauto.
Qed.

Lemma poll_event_nosig : forall evt n st, nosig st ->
  nosig (snd (poll_event evt (n, st))) /\ grows st (snd (poll_event evt (n, st))).
Proof.
  intros [data bits] n st N. unfold poll_event.
  assert (FRR : forall s', fr st s' -> nosig s' /\ grows st s') by (intros; split; [eapply fr_nosig; eauto|apply grows_fr; auto]).
  destruct (nth_error (polls st) _) as [e|]; [|apply FRR; split; reflexivity].
  destruct (negb _); [apply FRR; split; reflexivity|].
  destruct (_ || _); [apply FRR; (split; reflexivity)|].
  destruct (est_eqb (p_state e) Joblist); [apply FRR; split; reflexivity|].
  destruct (negb (p_fn e)); [apply FRR; split; reflexivity|].
  destruct (p_sig e).
  - (* the pipe entry: no registration, so no clone *)
    unfold signal_add_to_jobs. cbn [sigpipe set_polls].
    match goal with |- context [match sigpipe ?s with _ => _ end] => destruct (sigpipe s) as [|g rest] eqn:SP end.
    + cbn. apply FRR. split; reflexivity.
    + destruct N as (NA & _). cbn [sigs set_polls set_sigpipe]. rewrite NA. cbn. apply FRR. split; reflexivity.
  - cbn [snd].
    match goal with |- context [item_add (p_p e) (QFd ?i) ?s] => set (s1 := s); set (pos := i) end.
    assert (F : fr st s1) by (split; reflexivity).
    destruct (item_add_nosig (p_p e) (QFd pos) s1 eq_refl (fr_nosig _ _ F N)) as [N2 G2].
    match goal with |- nosig ?s /\ _ => assert (F3 : fr (item_add (p_p e) (QFd pos) s1) s) by (split; reflexivity) end.
    split; [eapply fr_nosig; eauto|].
    eapply grows_trans; [apply grows_fr; exact F|]. eapply grows_trans; [exact G2|apply grows_fr; exact F3].
Qed.

Lemma fold_poll_event_nosig : forall evs n st, nosig st ->
  nosig (snd (fold_left (fun acc evt => poll_event evt acc) evs (n, st))) /\
  grows st (snd (fold_left (fun acc evt => poll_event evt acc) evs (n, st))).
Proof.
  induction evs as [|evt evs IH]; intros n st N; cbn [fold_left]; [split; [auto|apply grows_refl]|].
  destruct (poll_event_nosig evt n st N) as [N1 G1]. destruct (poll_event evt (n, st)) as [n1 s1]. cbn [snd] in *.
  destruct (IH n1 s1 N1) as [N2 G2]. split; [exact N2|eapply grows_trans; eauto].
Qed.

Lemma fold_raise_nosig : forall gs st, sigs st = [] -> fold_left (fun s g => raise_signal g s) gs st = st.
Proof. induction gs; intros; cbn; [reflexivity|]. rewrite raise_nosig by auto. auto. Qed.

Lemma poll_and_add_nosig : forall e t st, nosig st ->
  nosig (snd (poll_and_add_to_jobs e t st)) /\ grows st (snd (poll_and_add_to_jobs e t st)).
Proof.
  intros e t st N. unfold poll_and_add_to_jobs.
  rewrite fold_raise_nosig by (destruct N as [NA _]; exact NA).
  match goal with |- context [fold_left _ ?evs (0, ?s)] => set (s1 := s); set (el := evs) end.
  assert (F : fr st s1) by (unfold s1; destruct (e_stop e); split; reflexivity).
  destruct (fold_poll_event_nosig el 0 s1 (fr_nosig _ _ F N)) as [N2 G2].
  split; [exact N2|]. eapply grows_trans; [apply grows_fr; exact F|exact G2].
Qed.

(* ------------------------------------------------------------------ one turn *)
(* a level with something on its job list at the start of a turn: either it is served in this turn with a
   non-empty list, or the list is still non-empty after the turn *)
Lemma turn_persist : forall beh e rs st st' rs' ti p,
  workload beh -> nosig st -> iteration beh e rs st = (st', rs', ti) -> ti_returned ti = false ->
  jq st p <> [] ->
  nosig st' /\
  ((li_admitted (ti_lv ti p) = true /\ 0 < li_qlen (ti_lv ti p)) \/
   (li_admitted (ti_lv ti p) = false /\ jq st' p <> [])).
Proof.
  intros beh e rs st st' rs' ti p W N. unfold iteration.
  destruct (get_more_jobs_nosig st N) as [N1 G1]. destruct (get_more_jobs st) as [jt s1]. cbn [snd] in *.
  unfold expire_the_timers.
  destruct (expire_go_nosig (length (timers s1)) 0 s1 N1) as [N2 G2]. destruct (expire_go _ 0 s1) as [tt s2]. cbn [snd] in *.
  match goal with |- context [poll_and_add_to_jobs e ?t s2] =>
    destruct (poll_and_add_nosig e t s2 N2) as [N3 G3]; destruct (poll_and_add_to_jobs e t s2) as [x s3] end.
  cbn [snd] in *.
  assert (G : grows st s3) by (eapply grows_trans; [exact G1|]; eapply grows_trans; eauto).
  intros H Hret Q. pose proof (grows_nonempty _ _ p G Q) as Q3. clear G G1 G2 G3 N N1 N2 Q.
  destruct (serve beh (next_pstop (r_pstop rs)) High s3) as [s4 ih] eqn:SH.
  pose proof (serve_spec _ _ _ _ _ _ SH) as (_ & QH & _).
  destruct (serve_workload _ _ _ _ _ _ W N3 SH) as (N4 & O4 & _ & U4).
  destruct (li_admitted ih && stop s4); [inversion H; subst; discriminate Hret|].
  destruct (serve beh (next_pstop (r_pstop rs)) Med s4) as [s5 im] eqn:SM.
  pose proof (serve_spec _ _ _ _ _ _ SM) as (_ & QM & _).
  destruct (serve_workload _ _ _ _ _ _ W N4 SM) as (N5 & O5 & _ & U5).
  destruct (li_admitted im && stop s5); [inversion H; subst; discriminate Hret|].
  destruct (serve beh (next_pstop (r_pstop rs)) Low s5) as [s6 il] eqn:SL.
  pose proof (serve_spec _ _ _ _ _ _ SL) as (_ & QL & _).
  destruct (serve_workload _ _ _ _ _ _ W N5 SL) as (N6 & O6 & _ & U6).
  destruct (li_admitted il && stop s6); [inversion H; subst; discriminate Hret|].
  inversion H; subst. split; [exact N6|]. cbn [ti_lv ti_high ti_med ti_low].
  destruct p; cbn [ti_lv ti_high ti_med ti_low].
  - (* Low: untouched by the two higher levels *)
    assert (E : jq s5 Low = jq s3 Low) by (rewrite O5, O4 by discriminate; reflexivity).
    destruct (li_admitted il) eqn:A.
    + left. split; [reflexivity|]. rewrite QL. apply zlen_pos. fold (jq s5 Low). now rewrite E.
    + right. split; [reflexivity|]. rewrite (U6 eq_refl). now rewrite E.
  - (* Med *)
    assert (E : jq s4 Med = jq s3 Med) by (rewrite O4 by discriminate; reflexivity).
    destruct (li_admitted im) eqn:A.
    + left. split; [reflexivity|]. rewrite QM. apply zlen_pos. fold (jq s4 Med). now rewrite E.
    + right. split; [reflexivity|]. rewrite O6 by discriminate. rewrite (U5 eq_refl). now rewrite E.
  - (* High *)
    destruct (li_admitted ih) eqn:A.
    + left. split; [reflexivity|]. rewrite QH. apply zlen_pos. exact Q3.
    + right. split; [reflexivity|]. rewrite O6, O5 by discriminate. now rewrite (U4 eq_refl).
Qed.

(* no starvation, workload form: whatever is queued at higher (or any) priorities, a level whose job list
   is non-empty at the start of three consecutive full turns dispatches at least one item in them *)
Lemma no_starvation_workload : forall beh e1 e2 e3 rs st st' rs' ts p,
  workload beh -> nosig st ->
  three_turns beh e1 e2 e3 rs st = (st', rs', ts) ->
  (forall t, In t ts -> ti_returned t = false) ->
  jq st p <> [] ->
  1 <= total_disp ts p.
Proof.
  intros beh e1 e2 e3 rs st st' rs' ts p W N H Hret Q.
  pose proof (three_turns_spec _ _ _ _ _ _ _ _ _ H Hret) as ((u1 & u2 & u3 & Ets & P2 & P3) & OK & _).
  unfold three_turns in H.
  destruct (iteration beh e1 rs st) as [[s1 r1] t1] eqn:I1.
  destruct (iteration beh e2 r1 s1) as [[s2 r2] t2] eqn:I2.
  destruct (iteration beh e3 r2 s2) as [[s3 r3] t3] eqn:I3.
  subst ts. inversion H; subst. clear H. try rename u1 into t1. try rename u2 into t2. try rename u3 into t3.
  assert (Hd : forall t, In t [t1; t2; t3] -> 0 <= li_disp (ti_lv t p)).
  { intros t Ht. destruct (OK t p Ht) as [[? _] _]. lia. }
  assert (Served : forall t, In t [t1; t2; t3] -> li_admitted (ti_lv t p) = true -> 0 < li_qlen (ti_lv t p) ->
                             1 <= total_disp [t1; t2; t3] p).
  { intros t Ht A L. destruct (OK t p Ht) as [(_ & S & _) _]. specialize (S A L).
    pose proof (total_disp_ge [t1; t2; t3] p t Hd Ht). lia. }
  assert (Adm : forall t, In t [t1; t2; t3] -> li_admitted (ti_lv t p) = prio_geb p (ti_pstop t)) by (intros; apply OK; auto).
  destruct (turn_persist _ _ _ _ _ _ _ p W N I1 (Hret t1 ltac:(cbn; auto)) Q) as [N1 [[A L]|[A1 Q1]]];
    [apply (Served t1); cbn; auto|].
  destruct (turn_persist _ _ _ _ _ _ _ p W N1 I2 (Hret t2 ltac:(cbn; auto)) Q1) as [N2 [[A L]|[A2 Q2]]];
    [apply (Served t2); cbn; auto|].
  destruct (turn_persist _ _ _ _ _ _ _ p W N2 I3 (Hret t3 ltac:(cbn; auto)) Q2) as [N3 [[A L]|[A3 Q3]]];
    [apply (Served t3); cbn; auto|].
  (* not admitted in any of three consecutive turns: impossible, one of the cut-offs is LOW *)
  exfalso. rewrite Adm in A1, A2, A3 by (cbn; auto). rewrite P3, P2 in A3. rewrite P2 in A2.
  destruct (one_is_low (ti_pstop t1)) as [L|[L|L]]; rewrite L in *; rewrite geb_low in *; discriminate.
Qed.

(* ------------------------------------------------------------------ non-vacuity witnesses for Properties_C10 *)
Definition ex_beh : behaviour := fun key _ =>
  ([OJobAdd (if key <? 10 then High else if key <? 20 then Med else Low) key], 0).
Definition ex_env : env := {| e_adv := 1000; e_sigs := []; e_ready := [(100, 1)]; e_stop := false |}.
Definition ex_st : state :=
  fst (fst (iteration ex_beh ex_env run_start
    (exec_ops [OJobAdd High 1; OJobAdd High 2; OJobAdd High 3; OJobAdd High 4; OJobAdd High 5; OJobAdd High 6;
               OJobAdd Med 11; OPollAdd Med 100 1 12; OJobAdd Low 21] (loop_create [])))).
Definition ex_rs : runstate := snd (fst (iteration ex_beh ex_env run_start
    (exec_ops [OJobAdd High 1; OJobAdd High 2; OJobAdd High 3; OJobAdd High 4; OJobAdd High 5; OJobAdd High 6;
               OJobAdd Med 11; OPollAdd Med 100 1 12; OJobAdd Low 21] (loop_create [])))).
Lemma ex_workload_ok : workload ex_beh /\ nosig ex_st /\ jq ex_st Low <> [].
Proof.
  split; [intros key n; reflexivity|]. split; [|vm_compute; discriminate].
  split; [reflexivity|]. split; intros p it; destruct p; vm_compute; intros H;
    repeat (destruct H as [H|H]; [subst it; reflexivity|]); destruct H.
Qed.
Lemma ex_window_ok :
  let ts := snd (three_turns ex_beh ex_env ex_env ex_env ex_rs ex_st) in
  map ti_returned ts = [false; false; false] /\ map ti_pstop ts = [Med; Low; High] /\
  map (fun t => li_disp (ti_lv t High)) ts = [4; 4; 4] /\ map (fun t => li_disp (ti_lv t Med)) ts = [2; 3; 0] /\
  map (fun t => li_disp (ti_lv t Low)) ts = [0; 1; 0] /\
  zlen (jq ex_st Low) = 1 /\ zlen (jq ex_st High) = 2 /\ total_disp ts Low = 1.
Proof. vm_compute. repeat split; reflexivity. Qed.
