(* C14 - specification side of the round-trip theorem (definitions only):
   [ser_data]  the argument bytes a format / argument list puts into the record, in order;
   [wf_go]     which formats / argument lists the round-trip theorem covers (C14_roundtrip_partial). *)
From Coq Require Import List ZArith Bool Lia.
Require Import Verif.gen.Consts_logfmt Verif.SerModel.
Import ListNotations.
Open Scope Z_scope.

Definition pd_init : pdir := mkP [37] 0 false 0.

(* same walk as printf_spec (SerModel.v); what it collects is the serialized form of each argument:
   4 bytes for a '*', the conversion's integer / double / pointer size, 1 byte for %c, and for %s the string cut
   to a literal precision (or "(null)") followed by its NUL *)
Fixpoint ser_data (f : list Z) (m : pmode) (args : list arg) : list Z :=
  match f with
  | [] => []
  | c :: f' =>
    match m with
    | PLit =>
      match classify c with
      | CNul => []
      | CPct => ser_data f' (PDir pd_init) args
      | _ => ser_data f' PLit args
      end
    | PDir d =>
      let '(a, args') := next_arg args in
      match classify c with
      | CFlag => ser_data f' (PDir (pd_add d [c])) args
      | CDot => ser_data f' (PDir (mkP (p_acc d ++ [c]) (p_l d) true (p_plen d))) args
      | CDigit =>
        ser_data f' (PDir (mkP (p_acc d ++ [c]) (p_l d) (p_prec d)
                               (if p_prec d then p_plen d * 10 + (c - 48) else p_plen d))) args
      | CStar => scalar_bytes LF_SIZEOF_INT a ++
                 ser_data f' (PDir (pd_add d (dec (to_signed (8 * LF_SIZEOF_INT) (arg_raw a))))) args'
      | CEll => ser_data f' (PDir (mkP (p_acc d ++ [c]) (p_l d + 1) (p_prec d) (p_plen d))) args
      | CZee | CTee | CJay => ser_data f' (PDir (mkP (p_acc d ++ [c]) 2 (p_prec d) (p_plen d))) args
      | CInt => scalar_bytes (int_size d) a ++ ser_data f' PLit args'
      | CDbl => scalar_bytes LF_SIZEOF_DOUBLE a ++ ser_data f' PLit args'
      | CChr => scalar_bytes LF_SIZEOF_UCHAR a ++ ser_data f' PLit args'
      | CPtr => scalar_bytes LF_SIZEOF_PTRDIFF a ++ ser_data f' PLit args'
      | CStr => str_arg d a ++ [0] ++ ser_data f' PLit args'
      | CPct => ser_data f' PLit args
      | CNul | COther => []
      end
    end
  end.

(* Covered by the round-trip theorem: formats without NUL and without the extended-information marker QB_XC, in
   which every '%' opens a directive made of the characters the two scanners know
        flags  # - + space ' I   digits   .   *   l ll z t j   and a conversion  d i o u x X e E f F g G a A c s p %
   (in any order the scanners accept - the text of the directive is what the oracle is asked to render), such that
     - the text of the directive as the decoder rebuilds it ('*' replaced by the decimal value of its argument) is at
       most MINI_FORMAT_STR_LEN - 1 characters            (outside: known finding C14-directive-longer-than-minifmt);
     - a literal precision stays below SIZE_MAX            (implied by the previous line; stated because the serializer
                                                            accumulates it in a size_t).
   Not covered: a character the scanners do not know inside a directive (h, L, q, $, n, m ...), a format that ends
   inside a directive.  A negative '*' precision IS covered by this theorem (the decoder's text "%.-1d" is what the
   oracle is asked for on both sides) but is not what printf does with the original format: known finding
   C14-negative-star-precision, excluded by the monitor's comparison with vsnprintf, not by this predicate. *)
Fixpoint wf_go (f : list Z) (m : pmode) (args : list arg) : bool :=
  match f with
  | [] => match m with PLit => true | PDir _ => false end
  | c :: f' =>
    if (c =? 0) || (c =? LF_XC) then false else
    match m with
    | PLit =>
      match classify c with
      | CNul => false
      | CPct => wf_go f' (PDir pd_init) args
      | _ => wf_go f' PLit args
      end
    | PDir d =>
      let '(a, args') := next_arg args in
      (zlen (p_acc d) + 2 <=? LF_MINI_FORMAT_STR_LEN) &&
      match classify c with
      | CFlag => wf_go f' (PDir (pd_add d [c])) args
      | CDot => wf_go f' (PDir (mkP (p_acc d ++ [c]) (p_l d) true (p_plen d))) args
      | CDigit =>
        (if p_prec d then p_plen d * 10 + (c - 48) <? SIZE_MAX else true) &&
        wf_go f' (PDir (mkP (p_acc d ++ [c]) (p_l d) (p_prec d)
                            (if p_prec d then p_plen d * 10 + (c - 48) else p_plen d))) args
      | CStar =>
        (zlen (p_acc d) + zlen (dec (to_signed (8 * LF_SIZEOF_INT) (arg_raw a))) + 2 <=? LF_MINI_FORMAT_STR_LEN) &&
        wf_go f' (PDir (pd_add d (dec (to_signed (8 * LF_SIZEOF_INT) (arg_raw a))))) args'
      | CEll => wf_go f' (PDir (mkP (p_acc d ++ [c]) (p_l d + 1) (p_prec d) (p_plen d))) args
      | CZee | CTee | CJay => wf_go f' (PDir (mkP (p_acc d ++ [c]) 2 (p_prec d) (p_plen d))) args
      | CInt | CDbl | CChr | CPtr | CStr => wf_go f' PLit args'
      | CPct => wf_go f' PLit args
      | CNul | COther => false
      end
    end
  end.
