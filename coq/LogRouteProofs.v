(* C12: proofs about the routing model of LogRouteModel.v (variant [fixed]).

   Main result (routing_refines_spec): for every history of control operations and log calls whose
   line numbers are in range, what a log call delivers is exactly [route] of the *configuration*
   (target states + stored filters, no call sites) at that moment: each enabled target one of whose
   stored filters selects the call, once, in ascending order.  The proof goes through an invariant
   over the call-site registry: every known call site's target bit equals "some stored filter of that
   target selects it", for every target, enabled or not. *)
From Coq Require Import ZArith List Bool Lia FinFun.
Require Import Verif.gen.Consts_log Verif.LogRouteModel.
Import ListNotations.
Local Open Scope Z_scope.

(* ------------------------------------------------------------------ lists *)

Lemma upd_length {A} (l : list A) n x : length (upd l n x) = length l.
Proof. revert n; induction l as [|a l IH]; intros [|n]; simpl; auto. Qed.

Lemma nth_upd_eq {A} (l : list A) n x d : (n < length l)%nat -> nth n (upd l n x) d = x.
Proof. revert n; induction l as [|a l IH]; intros [|n] H; simpl in *; try lia; auto. apply IH; lia. Qed.

Lemma nth_upd_neq {A} (l : list A) n m x d : n <> m -> nth m (upd l n x) d = nth m l d.
Proof. revert n m; induction l as [|a l IH]; intros [|n] [|m] H; simpl; auto; try congruence. Qed.

Lemma upd_upd {A} (l : list A) n x y : upd (upd l n x) n y = upd l n y.
Proof. revert n; induction l as [|a l IH]; intros [|n]; simpl; auto. f_equal; apply IH. Qed.

Lemma upd_nth_same {A} (l : list A) n d : (n < length l)%nat -> upd l n (nth n l d) = l.
Proof. revert n; induction l as [|a l IH]; intros [|n] H; simpl in *; try lia; auto. f_equal; apply IH; lia. Qed.

Lemma upd_out {A} (l : list A) n x : (length l <= n)%nat -> upd l n x = l.
Proof. revert n; induction l as [|a l IH]; intros [|n] H; simpl in *; try lia; auto. f_equal; apply IH; lia. Qed.

Lemma In_upd {A} (l : list A) n x y : In y (upd l n x) -> y = x \/ In y l.
Proof.
  revert n; induction l as [|a l IH]; intros [|n]; simpl; auto.
  - intros [H|H]; auto.
  - intros [H|H]; auto. destruct (IH _ H); auto.
Qed.

Lemma str_eqb_eq a b : str_eqb a b = true <-> a = b.
Proof.
  revert b; induction a as [|x a IH]; intros [|y b]; simpl; split; intro H; try congruence; auto.
  - apply andb_true_iff in H as [H1 H2]. apply Z.eqb_eq in H1. apply IH in H2. congruence.
  - inversion H; subst. rewrite Z.eqb_refl. simpl. apply IH; reflexivity.
Qed.

Lemma str_eqb_refl a : str_eqb a a = true.
Proof. apply str_eqb_eq; reflexivity. Qed.

Lemma In_zrange n t : In t (zrange n) <-> 0 <= t < n.
Proof.
  unfold zrange. rewrite in_map_iff. split.
  - intros (k & <- & Hk). apply in_seq in Hk. lia.
  - intros H. exists (Z.to_nat t). split; [lia|]. apply in_seq. lia.
Qed.

Lemma NoDup_zrange n : NoDup (zrange n).
Proof.
  unfold zrange. apply Injective_map_NoDup; [|apply seq_NoDup].
  intros a b H. lia.
Qed.

Lemma zrange_split a b : 0 <= a <= b -> zrange b = zrange a ++ map (fun k => a + k) (zrange (b - a)).
Proof.
  intros H. unfold zrange.
  replace (Z.to_nat b) with (Z.to_nat a + Z.to_nat (b - a))%nat by lia.
  rewrite seq_app, map_app. f_equal. rewrite map_map. simpl.
  rewrite <- (seq_shift (Z.to_nat (b - a))) at 1 || idtac.
  generalize (Z.to_nat (b - a)) as n. intros n.
  assert (G : forall m k, map Z.of_nat (seq (k + m) n) = map (fun x => Z.of_nat k + Z.of_nat x) (seq m n)).
  { intros m k. revert m. induction n as [|n IH]; intros m; simpl; auto. f_equal; [lia|].
    replace (S (k + m)) with (k + S m)%nat by lia. apply IH. }
  specialize (G 0%nat (Z.to_nat a)). rewrite Nat.add_0_r in G. rewrite G.
  apply map_ext. intros x. lia.
Qed.

Lemma filter_all_false {A} (P : A -> bool) l : (forall x, In x l -> P x = false) -> filter P l = [].
Proof.
  induction l as [|a l IH]; simpl; intros H; auto.
  rewrite (H a) by auto. apply IH. intros; apply H; auto.
Qed.

(* ------------------------------------------------------------------ bits *)

Lemma bit_set_spec b t u : bit_is_set (bit_set b t) u = bit_is_set b u || (u =? t).
Proof.
  unfold bit_set. destruct (bit_is_set b t) eqn:E.
  - destruct (Z.eqb_spec u t) as [Heq|Hne]; [subst u; rewrite E|]; rewrite ?orb_true_r, ?orb_false_r; reflexivity.
  - unfold bit_is_set at 1. simpl. fold (bit_is_set b u). rewrite orb_comm. reflexivity.
Qed.

Lemma bit_clear_spec b t u : bit_is_set (bit_clear b t) u = bit_is_set b u && negb (u =? t).
Proof.
  unfold bit_clear, bit_is_set. induction b as [|x b IH]; simpl; auto.
  destruct (Z.eqb_spec x t) as [Hx|Hx]; simpl.
  - rewrite IH. destruct (Z.eqb_spec u x) as [Hu|Hu]; simpl; auto.
    assert (E : (u =? t) = true) by (apply Z.eqb_eq; congruence). rewrite E. simpl. apply andb_false_r.
  - rewrite IH. destruct (Z.eqb_spec u x) as [Hu|Hu]; simpl; auto.
    assert (E : (u =? t) = false) by (apply Z.eqb_neq; congruence). rewrite E. reflexivity.
Qed.

(* ------------------------------------------------------------------ matching depends on the coordinates only *)

Definition same_coords (s s' : site) : Prop :=
  cs_fn s = cs_fn s' /\ cs_file s = cs_file s' /\ cs_fmt s = cs_fmt s' /\ cs_prio s = cs_prio s' /\ cs_line s = cs_line s'.

Lemma same_coords_refl s : same_coords s s.
Proof. repeat split. Qed.

Lemma same_coords_trans a b c : same_coords a b -> same_coords b c -> same_coords a c.
Proof. unfold same_coords; intuition congruence. Qed.

Lemma same_coords_sym a b : same_coords a b -> same_coords b a.
Proof. unfold same_coords; intuition congruence. Qed.

Section WithOracles.
Variable re_ok : str -> bool.
Variable re_match : str -> str -> bool.

Notation cs_matches := (cs_matches re_match).
Notation apply_to_cs := (apply_to_cs re_match).
Notation apply_flt := (apply_flt re_match).
Notation apply_all := (apply_all re_match).
Notation apply_flt_all := (apply_flt_all re_match).
Notation flt_selects := (flt_selects re_match).
Notation filter_store := (filter_store re_ok).
Notation route := (route re_match).
Notation tag_of := (tag_of re_match).
Notation cfg_step := (cfg_step re_ok).
Notation step := (step re_ok re_match fixed).
Notation run := (run re_ok re_match fixed).
Notation filter_ctl2 := (filter_ctl2 re_ok re_match fixed).
Notation log_call := (log_call re_match fixed).
Notation custom_close := (custom_close re_ok re_match fixed).

Lemma cs_matches_coords av s s' ty tx hi lo :
  same_coords s s' -> cs_matches av s ty tx hi lo = cs_matches av s' ty tx hi lo.
Proof. intros (H1 & H2 & H3 & H4 & _). unfold LogRouteModel.cs_matches. rewrite H1, H2, H3, H4. reflexivity. Qed.

Lemma flt_selects_coords s s' f : same_coords s s' -> flt_selects s f = flt_selects s' f.
Proof. intros H. unfold LogRouteModel.flt_selects. apply cs_matches_coords; auto. Qed.

Lemma existsb_selects_coords s s' l :
  same_coords s s' -> existsb (flt_selects s) l = existsb (flt_selects s') l.
Proof. intros H. induction l as [|f l IH]; simpl; auto. rewrite IH, (flt_selects_coords s s' f H). reflexivity. Qed.

(* ------------------------------------------------------------------ what _log_filter_apply_to_cs does, operation by operation *)

Lemma apply_add av s t ty tx hi lo :
  apply_to_cs av s t LOG_FILTER_ADD ty tx hi lo =
  if cs_matches av s ty tx hi lo then set_targets s (bit_set (cs_targets s) t) else s.
Proof. reflexivity. Qed.

Lemma apply_remove av s t ty tx hi lo :
  apply_to_cs av s t LOG_FILTER_REMOVE ty tx hi lo =
  if cs_matches av s ty tx hi lo then set_targets s (bit_clear (cs_targets s) t) else s.
Proof. reflexivity. Qed.

Lemma apply_clear_all av s t ty tx hi lo :
  apply_to_cs av s t LOG_FILTER_CLEAR_ALL ty tx hi lo = set_targets s (bit_clear (cs_targets s) t).
Proof. reflexivity. Qed.

Lemma apply_tag_set av s t ty tx hi lo :
  apply_to_cs av s t LOG_TAG_SET ty tx hi lo = if cs_matches av s ty tx hi lo then set_tags s t else s.
Proof. reflexivity. Qed.

Lemma apply_tag_clear av s t ty tx hi lo :
  apply_to_cs av s t LOG_TAG_CLEAR ty tx hi lo = if cs_matches av s ty tx hi lo then set_tags s 0 else s.
Proof. reflexivity. Qed.

Lemma apply_tag_clear_all av s t ty tx hi lo :
  apply_to_cs av s t LOG_TAG_CLEAR_ALL ty tx hi lo = set_tags s 0.
Proof. reflexivity. Qed.

(* the six operation codes are exactly 0..5: case analysis on a validated code *)
Lemma conf_cases c : 0 <= c <= LOG_TAG_CLEAR_ALL ->
  c = LOG_FILTER_ADD \/ c = LOG_FILTER_REMOVE \/ c = LOG_FILTER_CLEAR_ALL \/
  c = LOG_TAG_SET \/ c = LOG_TAG_CLEAR \/ c = LOG_TAG_CLEAR_ALL.
Proof.
  unfold LOG_TAG_CLEAR_ALL, LOG_FILTER_ADD, LOG_FILTER_REMOVE, LOG_FILTER_CLEAR_ALL, LOG_TAG_SET, LOG_TAG_CLEAR. lia.
Qed.

Lemma apply_to_cs_coords av s t c ty tx hi lo : same_coords (apply_to_cs av s t c ty tx hi lo) s.
Proof.
  unfold LogRouteModel.apply_to_cs.
  repeat match goal with |- context [if ?b then _ else _] => destruct b end; repeat split.
Qed.

Lemma apply_flt_coords s f : same_coords (apply_flt s f) s.
Proof. apply apply_to_cs_coords. Qed.

Lemma fold_apply_flt_coords l s : same_coords (fold_left apply_flt l s) s.
Proof.
  revert s; induction l as [|f l IH]; intros s; simpl; [apply same_coords_refl|].
  eapply same_coords_trans; [apply IH|apply apply_flt_coords].
Qed.

(* a stored per-target filter: operation ADD, value = the target's own index *)
Definition add_flt_of (t : Z) (f : flt) : Prop := f_conf f = LOG_FILTER_ADD /\ f_val f = t.
(* a stored tag rule *)
Definition tag_flt (f : flt) : Prop := f_conf f = LOG_TAG_SET.

Lemma apply_flt_add_bits s f t u : add_flt_of t f ->
  bit_is_set (cs_targets (apply_flt s f)) u = bit_is_set (cs_targets s) u || ((u =? t) && flt_selects s f).
Proof.
  intros [Hc Hv]. unfold LogRouteModel.apply_flt. rewrite Hc, Hv, apply_add.
  unfold LogRouteModel.flt_selects.
  destruct (cs_matches true s (f_type f) (f_text f) (f_hi f) (f_lo f)); simpl.
  - rewrite bit_set_spec, andb_true_r. reflexivity.
  - rewrite andb_false_r, orb_false_r. reflexivity.
Qed.

Lemma apply_flt_add_tags s f t : add_flt_of t f -> cs_tags (apply_flt s f) = cs_tags s.
Proof.
  intros [Hc Hv]. unfold LogRouteModel.apply_flt. rewrite Hc, apply_add.
  destruct (cs_matches _ _ _ _ _ _); reflexivity.
Qed.

Lemma fold_apply_add_bits l s t u : Forall (add_flt_of t) l ->
  bit_is_set (cs_targets (fold_left apply_flt l s)) u =
  bit_is_set (cs_targets s) u || ((u =? t) && existsb (flt_selects s) l).
Proof.
  revert s; induction l as [|f l IH]; intros s H; simpl.
  - rewrite andb_false_r, orb_false_r; reflexivity.
  - inversion H as [|? ? Hf Hl]; subst. rewrite IH by assumption.
    rewrite (apply_flt_add_bits s f t u Hf).
    rewrite (existsb_selects_coords (apply_flt s f) s l (apply_flt_coords s f)).
    destruct (u =? t); simpl; rewrite ?orb_false_r; auto. rewrite orb_assoc. reflexivity.
Qed.

Lemma fold_apply_add_tags l s t : Forall (add_flt_of t) l -> cs_tags (fold_left apply_flt l s) = cs_tags s.
Proof.
  revert s; induction l as [|f l IH]; intros s H; simpl; auto.
  inversion H; subst. rewrite IH by assumption. eapply apply_flt_add_tags; eauto.
Qed.

(* tag rules leave the target bits alone and set the tag word of what they select *)
Lemma apply_flt_tag_bits s f : tag_flt f -> cs_targets (apply_flt s f) = cs_targets s.
Proof.
  intros Hc. unfold LogRouteModel.apply_flt. rewrite Hc, apply_tag_set.
  destruct (cs_matches _ _ _ _ _ _); reflexivity.
Qed.

Lemma apply_flt_tag_tags s f : tag_flt f ->
  cs_tags (apply_flt s f) = if flt_selects s f then f_val f else cs_tags s.
Proof.
  intros Hc. unfold LogRouteModel.apply_flt, LogRouteModel.flt_selects. rewrite Hc, apply_tag_set.
  destruct (cs_matches _ _ _ _ _ _); reflexivity.
Qed.

Lemma fold_apply_tag_bits l s : Forall tag_flt l -> cs_targets (fold_left apply_flt l s) = cs_targets s.
Proof.
  revert s; induction l as [|f l IH]; intros s H; simpl; auto.
  inversion H; subst. rewrite IH by assumption. apply apply_flt_tag_bits; assumption.
Qed.

Definition last_tag (s0 : site) (l : list flt) (g : Z) : Z :=
  fold_left (fun acc f => if flt_selects s0 f then f_val f else acc) l g.

Lemma fold_apply_tag_tags l s s0 : Forall tag_flt l -> same_coords s s0 ->
  cs_tags (fold_left apply_flt l s) = last_tag s0 l (cs_tags s).
Proof.
  unfold last_tag. revert s; induction l as [|f l IH]; intros s H Hc; simpl; auto.
  inversion H as [|? ? Hf Hl]; subst. rewrite IH; auto.
  - rewrite (apply_flt_tag_tags s f Hf), (flt_selects_coords s s0 f Hc). reflexivity.
  - eapply same_coords_trans; [apply apply_flt_coords|exact Hc].
Qed.

(* ------------------------------------------------------------------ the target table *)

Definition in_range (t : Z) : Prop := 0 <= t < LOG_TARGET_MAX.

Lemma get_upd_eq cf t x : 0 <= t -> (Z.to_nat t < length cf)%nat -> get_target (upd cf (Z.to_nat t) x) t = x.
Proof. intros. unfold get_target. apply nth_upd_eq; assumption. Qed.

Lemma get_upd_neq cf t u x : 0 <= t -> 0 <= u -> t <> u -> get_target (upd cf (Z.to_nat t) x) u = get_target cf u.
Proof. intros. unfold get_target. apply nth_upd_neq. lia. Qed.

Lemma target_eta x : {| t_state := t_state x; t_filters := t_filters x |} = x.
Proof. destruct x; reflexivity. Qed.

(* ------------------------------------------------------------------ _log_filter_store *)

Lemma remove_first_existsb (P : flt -> bool) ty tx hi lo l :
  existsb P l = (match snd (remove_first ty tx hi lo l) with Some r => P r | None => false end)
                || existsb P (fst (remove_first ty tx hi lo l)).
Proof.
  induction l as [|f l IH]; simpl; auto.
  destruct (remove_hit ty tx hi lo f); simpl; auto.
  destruct (remove_first ty tx hi lo l) as [l' x]; simpl in *. rewrite IH.
  destruct x as [r|]; simpl; auto. destruct (P f), (P r); reflexivity.
Qed.

Lemma remove_first_hit ty tx hi lo l r :
  snd (remove_first ty tx hi lo l) = Some r -> remove_hit ty tx hi lo r = true.
Proof.
  induction l as [|f l IH]; simpl; try discriminate.
  destruct (remove_hit ty tx hi lo f) eqn:E; simpl.
  - intros H; inversion H; subst; assumption.
  - destruct (remove_first ty tx hi lo l) as [l' x]; simpl in *. assumption.
Qed.

Lemma remove_first_Forall (Q : flt -> Prop) ty tx hi lo l :
  Forall Q l -> Forall Q (fst (remove_first ty tx hi lo l)).
Proof.
  induction l as [|f l IH]; simpl; auto. intros H; inversion H; subst.
  destruct (remove_hit ty tx hi lo f); simpl; auto.
  destruct (remove_first ty tx hi lo l) as [l' x]; simpl in *. constructor; auto.
Qed.

(* a filter removed by REMOVE(ty, tx, hi, lo) selects nothing that the REMOVE arguments themselves do not match *)
Lemma remove_hit_covers ty tx hi lo r s :
  remove_hit ty tx hi lo r = true -> flt_selects s r = true -> cs_matches true s ty tx hi lo = true.
Proof.
  unfold remove_hit, LogRouteModel.flt_selects, LogRouteModel.cs_matches. intros H Hs.
  apply andb_true_iff in H as [H Htx]. apply andb_true_iff in H as [H Hhi].
  apply andb_true_iff in H as [Hty Hlo]. apply Z.eqb_eq in Hty. apply Z.leb_le in Hlo, Hhi.
  destruct ((f_lo r <? cs_prio s) || (cs_prio s <? f_hi r)) eqn:W; [discriminate|].
  apply orb_false_iff in W as [W1 W2]. apply Z.ltb_ge in W1, W2.
  assert (W' : (lo <? cs_prio s) || (cs_prio s <? hi) = false).
  { apply orb_false_iff; split; apply Z.ltb_ge; lia. }
  rewrite W'.
  apply orb_true_iff in Htx as [Htx|Htx].
  - apply str_eqb_eq in Htx. rewrite <- Htx, <- Hty. exact Hs.
  - apply str_eqb_eq in Htx. rewrite <- Htx. rewrite str_eqb_refl. reflexivity.
Qed.

Definition new_flt (t c ty : Z) (tx : str) (hi lo : Z) : flt :=
  {| f_conf := c; f_type := ty; f_text := tx; f_hi := hi; f_lo := lo; f_val := t |}.

Lemma filter_store_Forall (Q : flt -> Prop) l t c ty tx hi lo :
  Forall Q l -> (c = LOG_FILTER_ADD \/ c = LOG_TAG_SET -> Q (new_flt t c ty tx hi lo)) ->
  Forall Q (sr_list (filter_store l t c ty tx hi lo)).
Proof.
  intros Hl Hn. unfold LogRouteModel.filter_store.
  destruct ((c =? LOG_FILTER_ADD) || (c =? LOG_TAG_SET)) eqn:E.
  - destruct (filter_exists l ty tx hi lo t); simpl; auto.
    destruct (is_regex_type ty && negb (re_ok tx)); simpl; auto.
    apply Forall_app; split; auto. constructor; auto. apply Hn.
    apply orb_true_iff in E as [E|E]; apply Z.eqb_eq in E; auto.
  - destruct ((c =? LOG_FILTER_REMOVE) || (c =? LOG_TAG_CLEAR)); simpl; auto.
    pose proof (remove_first_Forall Q ty tx hi lo l Hl) as H.
    destruct (remove_first ty tx hi lo l) as [l' x]; simpl in *; auto.
Qed.

(* the three shapes of a store result *)
Lemma filter_store_add l t c ty tx hi lo : c = LOG_FILTER_ADD \/ c = LOG_TAG_SET ->
  let r := filter_store l t c ty tx hi lo in
  (sr_rc r < 0) \/ (sr_rc r = 0 /\ sr_new r = true /\ sr_removed r = None /\ sr_list r = l ++ [new_flt t c ty tx hi lo]).
Proof.
  intros Hc. unfold LogRouteModel.filter_store.
  assert (E : (c =? LOG_FILTER_ADD) || (c =? LOG_TAG_SET) = true) by (destruct Hc; subst c; reflexivity).
  rewrite E. destruct (filter_exists l ty tx hi lo t); simpl.
  - left. unfold LOG_EEXIST. lia.
  - destruct (is_regex_type ty && negb (re_ok tx)); simpl.
    + left. unfold LOG_EINVAL. lia.
    + right. repeat split.
Qed.

Lemma filter_store_remove l t c ty tx hi lo : c = LOG_FILTER_REMOVE \/ c = LOG_TAG_CLEAR ->
  filter_store l t c ty tx hi lo =
  {| sr_list := fst (remove_first ty tx hi lo l); sr_rc := 0; sr_new := false; sr_removed := snd (remove_first ty tx hi lo l) |}.
Proof.
  intros Hc. unfold LogRouteModel.filter_store.
  assert (E : (c =? LOG_FILTER_ADD) || (c =? LOG_TAG_SET) = false) by (destruct Hc; subst c; reflexivity).
  assert (E' : (c =? LOG_FILTER_REMOVE) || (c =? LOG_TAG_CLEAR) = true) by (destruct Hc; subst c; reflexivity).
  rewrite E, E'. destruct (remove_first ty tx hi lo l); reflexivity.
Qed.

Lemma filter_store_clear l t c ty tx hi lo : c = LOG_FILTER_CLEAR_ALL \/ c = LOG_TAG_CLEAR_ALL ->
  filter_store l t c ty tx hi lo = {| sr_list := []; sr_rc := 0; sr_new := false; sr_removed := None |}.
Proof. intros [Hc|Hc]; subst c; reflexivity. Qed.

(* ------------------------------------------------------------------ filters applied to the whole registry *)

Definition lines_pos (l : list site) : Prop := Forall (fun s => 0 < cs_line s) l.

Lemma apply_all_pos av l t c ty tx hi lo : lines_pos l ->
  apply_all av l t c ty tx hi lo = map (fun s => apply_to_cs av s t c ty tx hi lo) l.
Proof.
  intros H. unfold LogRouteModel.apply_all. apply map_ext_in. intros s Hs.
  unfold lines_pos in H. rewrite Forall_forall in H. specialize (H s Hs).
  destruct (Z.ltb_spec 0 (cs_line s)); [reflexivity|lia].
Qed.

Lemma lines_pos_map (g : site -> site) l : (forall s, same_coords (g s) s) -> lines_pos l -> lines_pos (map g l).
Proof.
  intros Hg H. unfold lines_pos in *. rewrite Forall_forall in *. intros s' Hs'.
  apply in_map_iff in Hs' as (s & <- & Hs). destruct (Hg s) as (_ & _ & _ & _ & ->). auto.
Qed.

Lemma fold_apply_flt_all_pos fl l : lines_pos l ->
  fold_left apply_flt_all fl l = map (fun s => fold_left apply_flt fl s) l.
Proof.
  revert l; induction fl as [|f fl IH]; intros l H; simpl.
  - rewrite map_id; reflexivity.
  - unfold LogRouteModel.apply_flt_all at 2. rewrite apply_all_pos by assumption.
    rewrite IH.
    + rewrite map_map. reflexivity.
    + apply lines_pos_map; auto. intros s. apply apply_to_cs_coords.
Qed.

(* ------------------------------------------------------------------ the invariant *)

Record Inv (st : state) : Prop := {
  inv_len : length (conf st) = Z.to_nat LOG_TARGET_MAX;
  inv_amax : in_range (active_max st);
  (* conf_active_max bounds every enabled target: the delivery loop misses none *)
  inv_enabled : forall t, in_range t -> tstate (conf st) t = LOG_STATE_ENABLED -> t <= active_max st;
  inv_flt : forall t, in_range t -> Forall (add_flt_of t) (tfilters (conf st) t);
  inv_unused : forall t, in_range t -> tstate (conf st) t = LOG_STATE_UNUSED -> tfilters (conf st) t = [];
  inv_tagf : Forall tag_flt (tagsf st);
  inv_lines : lines_pos (sites st);
  (* the heart of it: every known call site carries, for EVERY target, exactly "some stored filter selects me" *)
  inv_bits : forall s t, In s (sites st) -> in_range t ->
             bit_is_set (cs_targets s) t = existsb (flt_selects s) (tfilters (conf st) t)
}.

Lemma range_nat t (cf : list target) : in_range t -> length cf = Z.to_nat LOG_TARGET_MAX -> (Z.to_nat t < length cf)%nat.
Proof. unfold in_range. intros. lia. Qed.

Lemma last_enabled_spec l : forall i acc,
  match last_enabled l i acc with
  | Some j => (forall k, (k < length l)%nat -> t_state (nth k l unused_target) = LOG_STATE_ENABLED -> i + Z.of_nat k <= j)
              /\ (acc = Some j \/ i <= j < i + Z.of_nat (length l))
  | None => acc = None /\ forall k, (k < length l)%nat -> t_state (nth k l unused_target) <> LOG_STATE_ENABLED
  end.
Proof.
  induction l as [|x r IH]; intros i acc; simpl.
  - destruct acc; split; auto; intros; lia.
  - specialize (IH (i + 1) (if t_state x =? LOG_STATE_ENABLED then Some i else acc)).
    destruct (last_enabled r (i + 1) _) as [j|].
    + destruct IH as [IH1 IH2]. split.
      * intros [|k] Hk He.
        -- apply Z.eqb_eq in He. rewrite He in IH2. destruct IH2 as [IH2|IH2]; [inversion IH2|]; lia.
        -- specialize (IH1 k ltac:(lia) He). lia.
      * destruct IH2 as [IH2|IH2]; [|right; lia].
        destruct (t_state x =? LOG_STATE_ENABLED); [inversion IH2; right; lia|auto].
    + destruct IH as [IH1 IH2]. destruct (Z.eqb_spec (t_state x) LOG_STATE_ENABLED) as [E|E]; [discriminate|].
      split; auto. intros [|k] Hk; auto. apply IH2. lia.
Qed.

Lemma tstate_set cf t s fl u : in_range t -> in_range u -> length cf = Z.to_nat LOG_TARGET_MAX ->
  tstate (upd cf (Z.to_nat t) {| t_state := s; t_filters := fl |}) u = if u =? t then s else tstate cf u.
Proof.
  intros Ht Hu Hl. unfold tstate. destruct (Z.eqb_spec u t) as [->|Hne].
  - rewrite get_upd_eq; auto; [apply Ht|eapply range_nat; eauto].
  - rewrite get_upd_neq; auto; [apply Ht|apply Hu].
Qed.

Lemma tfilters_set cf t s fl u : in_range t -> in_range u -> length cf = Z.to_nat LOG_TARGET_MAX ->
  tfilters (upd cf (Z.to_nat t) {| t_state := s; t_filters := fl |}) u = if u =? t then fl else tfilters cf u.
Proof.
  intros Ht Hu Hl. unfold tfilters. destruct (Z.eqb_spec u t) as [->|Hne].
  - rewrite get_upd_eq; auto; [apply Ht|eapply range_nat; eauto].
  - rewrite get_upd_neq; auto; [apply Ht|apply Hu].
Qed.

Lemma state_set_inv st t s : Inv st -> in_range t ->
  (s = LOG_STATE_UNUSED -> tfilters (conf st) t = []) -> Inv (state_set st t s).
Proof.
  intros I Ht Hs. destruct I as [Il Ia Ie If Iu Itg Iln Ib].
  set (cf := upd (conf st) (Z.to_nat t) {| t_state := s; t_filters := tfilters (conf st) t |}).
  assert (Hlen : length cf = Z.to_nat LOG_TARGET_MAX) by (unfold cf; rewrite upd_length; exact Il).
  assert (Hfl : forall u, in_range u -> tfilters cf u = tfilters (conf st) u).
  { intros u Hu. unfold cf. rewrite tfilters_set by assumption. destruct (Z.eqb_spec u t); subst; reflexivity. }
  pose proof (last_enabled_spec cf 0 None) as LE.
  constructor; unfold state_set; fold cf; simpl.
  - exact Hlen.
  - destruct (last_enabled cf 0 None) as [j|]; [|exact Ia].
    destruct LE as [_ [LE|LE]]; [discriminate|]. unfold in_range. rewrite Hlen in LE. lia.
  - intros u Hu He. unfold tstate, get_target in He.
    destruct (last_enabled cf 0 None) as [j|].
    + destruct LE as [LE _]. specialize (LE (Z.to_nat u) ltac:(eapply range_nat; eauto) He).
      unfold in_range in Hu. lia.
    + destruct LE as [_ LE]. exfalso. apply (LE (Z.to_nat u)); [eapply range_nat; eauto|exact He].
  - intros u Hu. rewrite Hfl by assumption. apply If; assumption.
  - intros u Hu He. rewrite Hfl by assumption. unfold cf in He. rewrite tstate_set in He by assumption.
    destruct (Z.eqb_spec u t) as [->|Hne]; auto.
  - exact Itg.
  - exact Iln.
  - intros x u Hx Hu. rewrite Hfl by assumption. apply Ib; assumption.
Qed.

Lemma state_set_abs st t s : abs (state_set st t s) = {| c_conf := set_state (conf st) t s; c_tagsf := tagsf st |}.
Proof. reflexivity. Qed.

(* ------------------------------------------------------------------ qb_log_filter_ctl2 *)

Lemma bad_target_false cf t : bad_target cf t = false -> in_range t /\ tstate cf t <> LOG_STATE_UNUSED.
Proof.
  unfold bad_target. intros H. apply orb_false_iff in H as [H H3]. apply orb_false_iff in H as [H1 H2].
  apply Z.ltb_ge in H1. apply Z.leb_gt in H2. apply Z.eqb_neq in H3. unfold in_range; split; [lia|auto].
Qed.

(* what one known call site looks like after a filter operation that passed validation and storing *)
Definition site_after (t c ty : Z) (tx : str) (hi lo : Z) (r : store_res) (s : site) : site :=
  let avail := sr_new r || match sr_removed r with Some _ => true | None => false end in
  let s1 := apply_to_cs avail s t c ty tx hi lo in
  if (c =? LOG_FILTER_REMOVE) || (c =? LOG_TAG_CLEAR) then fold_left apply_flt (sr_list r) s1 else s1.

Lemma site_after_coords t c ty tx hi lo r s : same_coords (site_after t c ty tx hi lo r s) s.
Proof.
  unfold site_after. destruct ((c =? LOG_FILTER_REMOVE) || (c =? LOG_TAG_CLEAR)).
  - eapply same_coords_trans; [apply fold_apply_flt_coords|apply apply_to_cs_coords].
  - apply apply_to_cs_coords.
Qed.

Lemma filter_ctl2_cases st t c ty text hi lo : lines_pos (sites st) ->
  fst (filter_ctl2 st t c ty text hi lo) = st \/
  exists tx, text = Some tx /\ 0 <= c <= LOG_TAG_CLEAR_ALL /\
    (is_target_conf c = true -> bad_target (conf st) t = false) /\
    let tgt := is_target_conf c in
    let tv := if tgt then t else t mod two32 in
    let r := filter_store (if tgt then tfilters (conf st) t else tagsf st) tv c ty tx hi lo in
    0 <= sr_rc r /\
    fst (filter_ctl2 st t c ty text hi lo) =
      {| conf := if tgt then set_filters (conf st) t (sr_list r) else conf st; active_max := active_max st;
         tagsf := if tgt then tagsf st else sr_list r;
         sites := map (site_after tv c ty tx hi lo r) (sites st); aborted := aborted st |}.
Proof.
  intros Hl. unfold LogRouteModel.filter_ctl2.
  destruct (is_target_conf c && bad_target (conf st) t) eqn:B; [left; reflexivity|].
  destruct text as [tx|]; [|left; reflexivity].
  destruct ((lo <? hi) || (ty <? 0) || (LOG_FILTER_FORMAT_REGEX <? ty) || (c <? 0) || (LOG_TAG_CLEAR_ALL <? c)) eqn:V;
    [left; reflexivity|].
  set (tgt := is_target_conf c) in *.
  set (tv := if tgt then t else t mod two32).
  set (r := filter_store (if tgt then tfilters (conf st) t else tagsf st) tv c ty tx hi lo).
  destruct (sr_rc r <? 0) eqn:R; [left; reflexivity|].
  right. exists tx. split; [reflexivity|].
  apply orb_false_iff in V as [V V5]. apply orb_false_iff in V as [V V4]. apply Z.ltb_ge in V4, V5.
  split; [lia|]. split.
  { intros Ht. rewrite Ht in B. exact B. }
  cbv zeta. split; [apply Z.ltb_ge in R; exact R|].
  cbn [fst]. change (v_reapply fixed) with true. cbn [andb].
  f_equal.
  unfold site_after.
  rewrite apply_all_pos by assumption.
  destruct ((c =? LOG_FILTER_REMOVE) || (c =? LOG_TAG_CLEAR)).
  - rewrite fold_apply_flt_all_pos.
    + rewrite map_map. apply map_ext. intros s. reflexivity.
    + apply lines_pos_map; auto. intros s. apply apply_to_cs_coords.
  - apply map_ext. intros s. reflexivity.
Qed.

Lemma is_target_conf_cases c : 0 <= c <= LOG_TAG_CLEAR_ALL ->
  (is_target_conf c = true /\ (c = LOG_FILTER_ADD \/ c = LOG_FILTER_REMOVE \/ c = LOG_FILTER_CLEAR_ALL)) \/
  (is_target_conf c = false /\ (c = LOG_TAG_SET \/ c = LOG_TAG_CLEAR \/ c = LOG_TAG_CLEAR_ALL)).
Proof.
  intros H. destruct (conf_cases c H) as [E|[E|[E|[E|[E|E]]]]]; subst c; [left|left|left|right|right|right];
    (split; [reflexivity|auto]).
Qed.

(* the target bits of one call site after ADD / REMOVE / CLEAR_ALL on target t *)
Lemma site_after_bits_target cf t c ty tx hi lo s :
  in_range t ->
  c = LOG_FILTER_ADD \/ c = LOG_FILTER_REMOVE \/ c = LOG_FILTER_CLEAR_ALL ->
  Forall (add_flt_of t) (tfilters cf t) ->
  let r := filter_store (tfilters cf t) t c ty tx hi lo in
  0 <= sr_rc r ->
  (forall u, in_range u -> bit_is_set (cs_targets s) u = existsb (flt_selects s) (tfilters cf u)) ->
  forall u, in_range u ->
    bit_is_set (cs_targets (site_after t c ty tx hi lo r s)) u =
    existsb (flt_selects (site_after t c ty tx hi lo r s)) (if u =? t then sr_list r else tfilters cf u).
Proof.
  intros Ht Hc Hf r Hrc Hb u Hu.
  rewrite (existsb_selects_coords _ s _ (site_after_coords t c ty tx hi lo r s)).
  destruct Hc as [Hc|[Hc|Hc]].
  - (* ADD *)
    destruct (filter_store_add (tfilters cf t) t c ty tx hi lo (or_introl Hc)) as [Hneg|(H0 & Hn & Hr & Hlst)];
      [fold r in Hneg; lia|].
    fold r in H0, Hn, Hr, Hlst. unfold site_after. rewrite Hn, Hlst. subst c. cbn [orb].
    change ((LOG_FILTER_ADD =? LOG_FILTER_REMOVE) || (LOG_FILTER_ADD =? LOG_TAG_CLEAR)) with false. cbv iota.
    rewrite apply_add.
    assert (Hsel : flt_selects s (new_flt t LOG_FILTER_ADD ty tx hi lo) = cs_matches true s ty tx hi lo) by reflexivity.
    destruct (Z.eqb_spec u t) as [->|Hne].
    + rewrite existsb_app. cbn [existsb]. rewrite Hsel, orb_false_r, <- (Hb t Ht).
      destruct (cs_matches true s ty tx hi lo); cbn [cs_targets set_targets].
      * rewrite bit_set_spec, Z.eqb_refl. reflexivity.
      * rewrite orb_false_r. reflexivity.
    + rewrite <- (Hb u Hu). destruct (cs_matches true s ty tx hi lo); cbn [cs_targets set_targets]; auto.
      rewrite bit_set_spec. apply Z.eqb_neq in Hne. rewrite Hne, orb_false_r. reflexivity.
  - (* REMOVE *)
    pose proof (filter_store_remove (tfilters cf t) t c ty tx hi lo (or_introl Hc)) as Hshape. fold r in Hshape.
    unfold site_after. rewrite Hshape. cbn [sr_new sr_removed sr_list orb]. subst c.
    change ((LOG_FILTER_REMOVE =? LOG_FILTER_REMOVE) || (LOG_FILTER_REMOVE =? LOG_TAG_CLEAR)) with true. cbv iota.
    set (rf := remove_first ty tx hi lo (tfilters cf t)).
    set (av := match snd rf with Some _ => true | None => false end).
    assert (Hf' : Forall (add_flt_of t) (fst rf)) by (apply remove_first_Forall; exact Hf).
    rewrite (fold_apply_add_bits (fst rf) _ t u Hf').
    rewrite (existsb_selects_coords _ s _ (apply_to_cs_coords av s t LOG_FILTER_REMOVE ty tx hi lo)).
    rewrite apply_remove.
    destruct (Z.eqb_spec u t) as [->|Hne].
    + cbn [andb].
      pose proof (remove_first_existsb (flt_selects s) ty tx hi lo (tfilters cf t)) as HE. fold rf in HE.
      specialize (Hb t Ht). rewrite HE in Hb.
      destruct (cs_matches av s ty tx hi lo) eqn:M; cbn [cs_targets set_targets].
      * rewrite bit_clear_spec, Z.eqb_refl. cbn [negb]. rewrite andb_false_r. reflexivity.
      * rewrite Hb.
        destruct (snd rf) as [x|] eqn:Ex; [|destruct (existsb (flt_selects s) (fst rf)); reflexivity].
        assert (Hx : flt_selects s x = false).
        { destruct (flt_selects s x) eqn:Sx; auto. exfalso.
          pose proof (remove_hit_covers ty tx hi lo x s (remove_first_hit _ _ _ _ _ _ Ex) Sx) as Cov.
          unfold av in M. congruence. }
        rewrite Hx. destruct (existsb (flt_selects s) (fst rf)); reflexivity.
    + apply Z.eqb_neq in Hne. cbn [andb]. rewrite orb_false_r, <- (Hb u Hu).
      destruct (cs_matches av s ty tx hi lo); cbn [cs_targets set_targets]; auto.
      rewrite bit_clear_spec, Hne. cbn [negb]. apply andb_true_r.
  - (* CLEAR_ALL *)
    pose proof (filter_store_clear (tfilters cf t) t c ty tx hi lo (or_introl Hc)) as Hshape. fold r in Hshape.
    unfold site_after. rewrite Hshape. cbn [sr_new sr_removed sr_list orb]. subst c.
    change ((LOG_FILTER_CLEAR_ALL =? LOG_FILTER_REMOVE) || (LOG_FILTER_CLEAR_ALL =? LOG_TAG_CLEAR)) with false. cbv iota.
    rewrite apply_clear_all. cbn [cs_targets set_targets]. rewrite bit_clear_spec.
    destruct (Z.eqb_spec u t) as [->|Hne]; cbn [negb existsb].
    + apply andb_false_r.
    + rewrite andb_true_r. apply Hb; assumption.
Qed.

Lemma site_after_targets_tagop t c ty tx hi lo r s :
  c = LOG_TAG_SET \/ c = LOG_TAG_CLEAR \/ c = LOG_TAG_CLEAR_ALL -> Forall tag_flt (sr_list r) ->
  cs_targets (site_after t c ty tx hi lo r s) = cs_targets s.
Proof.
  intros Hc Hf. unfold site_after. destruct Hc as [Hc|[Hc|Hc]]; subst c.
  - change ((LOG_TAG_SET =? LOG_FILTER_REMOVE) || (LOG_TAG_SET =? LOG_TAG_CLEAR)) with false. cbv iota.
    rewrite apply_tag_set. destruct (cs_matches _ _ _ _ _ _); reflexivity.
  - change ((LOG_TAG_CLEAR =? LOG_FILTER_REMOVE) || (LOG_TAG_CLEAR =? LOG_TAG_CLEAR)) with true. cbv iota.
    rewrite fold_apply_tag_bits by assumption. rewrite apply_tag_clear. destruct (cs_matches _ _ _ _ _ _); reflexivity.
  - change ((LOG_TAG_CLEAR_ALL =? LOG_FILTER_REMOVE) || (LOG_TAG_CLEAR_ALL =? LOG_TAG_CLEAR)) with false. cbv iota.
    rewrite apply_tag_clear_all. reflexivity.
Qed.

Lemma set_filters_len cf t fl : length (set_filters cf t fl) = length cf.
Proof. unfold set_filters. apply upd_length. Qed.

Lemma filter_ctl2_inv st t c ty text hi lo : Inv st -> Inv (fst (filter_ctl2 st t c ty text hi lo)).
Proof.
  intros I. pose proof I as [Il Ia Ie If Iu Itg Iln Ib].
  destruct (filter_ctl2_cases st t c ty text hi lo Iln) as [E|(tx & -> & Hc & Hbad & Hrc & E)]; rewrite E; [exact I|].
  clear E. cbv zeta in Hrc. cbv zeta.
  destruct (is_target_conf_cases c Hc) as [[Ht Hc3]|[Ht Hc3]]; rewrite Ht in *; cbv iota in *.
  - (* ADD / REMOVE / CLEAR_ALL on target t *)
    destruct (bad_target_false _ _ (Hbad eq_refl)) as [Hr Hnu].
    set (r := filter_store (tfilters (conf st) t) t c ty tx hi lo) in *.
    assert (Hst : forall u, in_range u -> tstate (set_filters (conf st) t (sr_list r)) u = tstate (conf st) u).
    { intros u Hu. unfold set_filters. rewrite tstate_set by assumption. destruct (Z.eqb_spec u t); subst; reflexivity. }
    assert (Hfl : forall u, in_range u -> tfilters (set_filters (conf st) t (sr_list r)) u =
                                         if u =? t then sr_list r else tfilters (conf st) u).
    { intros u Hu. unfold set_filters. apply tfilters_set; assumption. }
    constructor; cbn [conf active_max tagsf sites aborted].
    + rewrite set_filters_len. exact Il.
    + exact Ia.
    + intros u Hu He. rewrite Hst in He by assumption. apply Ie; assumption.
    + intros u Hu. rewrite Hfl by assumption. destruct (Z.eqb_spec u t) as [->|Hne]; [|apply If; assumption].
      apply filter_store_Forall; [apply If; assumption|].
      intros [Hc'|Hc']; split; auto; subst c; destruct Hc3 as [H|[H|H]]; discriminate H.
    + intros u Hu He. rewrite Hst in He by assumption. rewrite Hfl by assumption.
      destruct (Z.eqb_spec u t) as [->|Hne]; [congruence|]. apply Iu; assumption.
    + exact Itg.
    + apply lines_pos_map; auto. intros s. apply site_after_coords.
    + intros s' u Hs' Hu. apply in_map_iff in Hs' as (s & <- & Hs). rewrite Hfl by assumption.
      apply (site_after_bits_target (conf st) t c ty tx hi lo s Hr Hc3 (If t Hr) Hrc); auto.
  - (* TAG_SET / TAG_CLEAR / TAG_CLEAR_ALL *)
    set (r := filter_store (tagsf st) (t mod two32) c ty tx hi lo) in *.
    assert (Hf : Forall tag_flt (sr_list r)).
    { apply filter_store_Forall; auto. intros [Hc'|Hc']; [|exact Hc'].
      subst c; destruct Hc3 as [H|[H|H]]; discriminate H. }
    constructor; cbn [conf active_max tagsf sites aborted]; auto.
    + apply lines_pos_map; auto. intros s. apply site_after_coords.
    + intros s' u Hs' Hu. apply in_map_iff in Hs' as (s & <- & Hs).
      rewrite site_after_targets_tagop by assumption.
      rewrite (existsb_selects_coords _ s _ (site_after_coords _ _ _ _ _ _ _ s)). apply Ib; assumption.
Qed.

Lemma filter_ctl2_abs st t c ty text hi lo :
  abs (fst (filter_ctl2 st t c ty text hi lo)) = cfg_step (abs st) (OFilter t c ty text hi lo).
Proof.
  unfold LogRouteModel.filter_ctl2, LogRouteModel.cfg_step, abs. cbn [c_conf c_tagsf].
  destruct (is_target_conf c && bad_target (conf st) t); [reflexivity|].
  destruct text as [tx|]; [|reflexivity].
  destruct ((lo <? hi) || (ty <? 0) || (LOG_FILTER_FORMAT_REGEX <? ty) || (c <? 0) || (LOG_TAG_CLEAR_ALL <? c)); [reflexivity|].
  cbv zeta.
  destruct (sr_rc (filter_store (if is_target_conf c then tfilters (conf st) t else tagsf st)
                                (if is_target_conf c then t else t mod two32) c ty tx hi lo) <? 0); reflexivity.
Qed.

(* ------------------------------------------------------------------ enable / disable, open, close *)

Notation ctl_enabled := (ctl_enabled).

Lemma ctl_enabled_inv st t on : Inv st -> Inv (fst (ctl_enabled st t on)).
Proof.
  intros I. unfold LogRouteModel.ctl_enabled.
  destruct (bad_target (conf st) t) eqn:B; [exact I|].
  destruct (bad_target_false _ _ B) as [Hr _].
  destruct on; destruct (tstate (conf st) t =? LOG_STATE_ENABLED); cbn [fst]; auto;
    apply state_set_inv; auto; intros H; discriminate H.
Qed.

Lemma ctl_enabled_abs st t on : abs (fst (ctl_enabled st t on)) = cfg_step (abs st) (OEnable t on).
Proof.
  unfold LogRouteModel.ctl_enabled, LogRouteModel.cfg_step, abs. cbn [c_conf c_tagsf].
  destruct (bad_target (conf st) t); [reflexivity|].
  destruct on; destruct (tstate (conf st) t =? LOG_STATE_ENABLED); reflexivity.
Qed.

Lemma first_unused_spec l : forall i j, first_unused l i = Some j ->
  i <= j < i + Z.of_nat (length l) /\ t_state (nth (Z.to_nat (j - i)) l unused_target) = LOG_STATE_UNUSED.
Proof.
  induction l as [|x r IH]; intros i j; simpl; [discriminate|].
  destruct (Z.eqb_spec (t_state x) LOG_STATE_UNUSED) as [E|E].
  - intros H; inversion H; subst. rewrite Z.sub_diag. simpl. split; [lia|exact E].
  - intros H. apply IH in H as [H1 H2]. split; [lia|].
    replace (Z.to_nat (j - i)) with (S (Z.to_nat (j - (i + 1)))) by lia. exact H2.
Qed.

Lemma custom_open_inv st : Inv st -> Inv (fst (custom_open st)).
Proof.
  intros I. unfold custom_open. destruct (first_unused (conf st) 0) as [i|] eqn:F; cbn [fst]; auto.
  apply first_unused_spec in F as [F _]. apply state_set_inv; auto.
  - unfold in_range. rewrite (inv_len _ I) in F. lia.
  - intros H; discriminate H.
Qed.

Lemma custom_open_abs st : abs (fst (custom_open st)) = cfg_step (abs st) OOpen.
Proof.
  unfold custom_open, LogRouteModel.cfg_step, abs. cbn [c_conf c_tagsf].
  destruct (first_unused (conf st) 0); reflexivity.
Qed.

Lemma close_clear_conf st t : bad_target (conf st) t = false ->
  abs (fst (filter_ctl2 st t LOG_FILTER_CLEAR_ALL LOG_FILTER_FILE (Some STAR) LOG_PRIO_EMERG 0)) =
  {| c_conf := set_filters (conf st) t []; c_tagsf := tagsf st |}.
Proof.
  intros B. rewrite filter_ctl2_abs. unfold LogRouteModel.cfg_step, abs. cbn [c_conf c_tagsf].
  rewrite B. reflexivity.
Qed.

Lemma custom_close_inv st t : Inv st -> Inv (custom_close st t).
Proof.
  intros I. unfold LogRouteModel.custom_close.
  destruct (bad_target (conf st) t) eqn:B; [exact I|].
  destruct (bad_target_false _ _ B) as [Hr _].
  change (v_close_clears fixed) with true. cbv iota.
  set (st1 := fst (filter_ctl2 st t LOG_FILTER_CLEAR_ALL LOG_FILTER_FILE (Some STAR) LOG_PRIO_EMERG 0)).
  assert (I1 : Inv st1) by (apply filter_ctl2_inv; exact I).
  apply state_set_inv; auto. intros _.
  pose proof (close_clear_conf st t B) as H. fold st1 in H. unfold abs in H. inversion H as [[Hc Ht]].
  rewrite Hc. unfold set_filters. rewrite tfilters_set; auto; [|exact (inv_len _ I)]. rewrite Z.eqb_refl. reflexivity.
Qed.

Lemma custom_close_abs st t : Inv st -> abs (custom_close st t) = cfg_step (abs st) (OClose t).
Proof.
  intros I. unfold LogRouteModel.custom_close, LogRouteModel.cfg_step. cbn [abs c_conf c_tagsf].
  destruct (bad_target (conf st) t) eqn:B; [reflexivity|].
  destruct (bad_target_false _ _ B) as [Hr _].
  change (v_close_clears fixed) with true. cbv iota.
  set (st1 := fst (filter_ctl2 st t LOG_FILTER_CLEAR_ALL LOG_FILTER_FILE (Some STAR) LOG_PRIO_EMERG 0)).
  pose proof (close_clear_conf st t B) as H. fold st1 in H. unfold abs in H. inversion H as [[Hc Ht]].
  rewrite state_set_abs, Hc, Ht. f_equal.
  unfold set_state, set_filters. rewrite tfilters_set; auto; [|exact (inv_len _ I)]. rewrite Z.eqb_refl.
  rewrite upd_upd. reflexivity.
Qed.

(* ------------------------------------------------------------------ a log call *)

Lemma find_site_some fn file fmt prio line l : forall i j s,
  find_site fixed fn file fmt prio line l i = Some (j, s) ->
  (i <= j)%nat /\ nth_error l (j - i) = Some s /\ key_eq fixed fn file fmt prio line s = true.
Proof.
  induction l as [|x r IH]; intros i j s; simpl; [discriminate|].
  destruct (key_eq fixed fn file fmt prio line x) eqn:K.
  - intros H; inversion H; subst. rewrite Nat.sub_diag. simpl. auto.
  - intros H. apply IH in H as (H1 & H2 & H3). split; [lia|]. split; [|exact H3].
    replace (j - i)%nat with (S (j - S i)) by lia. exact H2.
Qed.

Lemma key_eq_fixed fn file fmt prio line s :
  key_eq fixed fn file fmt prio line s = true -> same_coords s (call_site fn file fmt prio line).
Proof.
  unfold key_eq. change (v_fnkey fixed) with true. cbv iota. intros H.
  apply andb_true_iff in H as [H H5]. apply andb_true_iff in H as [H H4]. apply andb_true_iff in H as [H H3].
  apply andb_true_iff in H as [H1 H2].
  apply Z.eqb_eq in H1, H2. apply str_eqb_eq in H3, H4, H5.
  unfold same_coords, call_site; cbn. repeat split; congruence.
Qed.

Lemma deliveries_route st s c : Inv st ->
  (forall t, in_range t -> bit_is_set (cs_targets s) t = existsb (flt_selects c) (tfilters (conf st) t)) ->
  deliveries st s = route (abs st) c.
Proof.
  intros I Hb. unfold deliveries, LogRouteModel.route. cbn [abs c_conf].
  pose proof (inv_amax _ I) as Ha. unfold in_range in Ha.
  rewrite (zrange_split (active_max st + 1) LOG_TARGET_MAX) by lia.
  rewrite filter_app.
  rewrite (filter_all_false _ (map _ _)).
  - rewrite app_nil_r. apply filter_ext_in. intros t Ht. apply In_zrange in Ht.
    rewrite Hb; [reflexivity|unfold in_range; lia].
  - intros x Hx. apply in_map_iff in Hx as (k & <- & Hk). apply In_zrange in Hk.
    destruct (Z.eqb_spec (tstate (conf st) (active_max st + 1 + k)) LOG_STATE_ENABLED) as [E|E]; [|reflexivity].
    apply (inv_enabled _ I) in E; [lia|unfold in_range; lia].
Qed.

Lemma replay_one_eq cf s pos : (tstate cf pos = LOG_STATE_UNUSED -> tfilters cf pos = []) ->
  replay_one re_match fixed cf s pos = fold_left apply_flt (tfilters cf pos) s.
Proof.
  intros H. unfold replay_one. change (v_replay_all fixed) with true. cbv iota.
  fold (tstate cf pos). fold (tfilters cf pos).
  destruct (Z.eqb_spec (tstate cf pos) LOG_STATE_UNUSED) as [E|E]; cbn [negb]; [|reflexivity].
  rewrite (H E). reflexivity.
Qed.

Lemma replay_fold cf ps : forall s,
  (forall p, In p ps -> Forall (add_flt_of p) (tfilters cf p) /\ (tstate cf p = LOG_STATE_UNUSED -> tfilters cf p = [])) ->
  let s' := fold_left (replay_one re_match fixed cf) ps s in
  same_coords s' s /\ cs_tags s' = cs_tags s /\
  forall u, bit_is_set (cs_targets s') u =
            bit_is_set (cs_targets s) u || (existsb (Z.eqb u) ps && existsb (flt_selects s) (tfilters cf u)).
Proof.
  induction ps as [|p ps IH]; intros s H; cbn [fold_left].
  - split; [apply same_coords_refl|]. split; [reflexivity|]. intros u. cbn. rewrite orb_false_r. reflexivity.
  - destruct (H p (or_introl eq_refl)) as [Hf Hu].
    rewrite (replay_one_eq cf s p Hu).
    set (s1 := fold_left apply_flt (tfilters cf p) s).
    assert (C1 : same_coords s1 s) by apply fold_apply_flt_coords.
    destruct (IH s1 (fun q Hq => H q (or_intror Hq))) as (C & T & B).
    split; [eapply same_coords_trans; eauto|]. split.
    + rewrite T. unfold s1. eapply fold_apply_add_tags; eauto.
    + intros u. rewrite B. unfold s1 at 1. rewrite (fold_apply_add_bits _ s p u Hf).
      rewrite (existsb_selects_coords s1 s _ C1). cbn [existsb].
      destruct (Z.eqb_spec u p) as [->|Hne]; cbn [andb orb].
      * destruct (bit_is_set (cs_targets s) p), (existsb (flt_selects s) (tfilters cf p)), (existsb (Z.eqb p) ps); reflexivity.
      * rewrite orb_false_r. reflexivity.
Qed.

Lemma existsb_eqb_zrange u n : 0 <= u < n -> existsb (Z.eqb u) (zrange n) = true.
Proof. intros H. apply existsb_exists. exists u. split; [apply In_zrange; exact H|apply Z.eqb_refl]. Qed.

Lemma In_upd_site (l : list site) i s s' x : nth_error l i = Some s -> In x (upd l i s') -> x = s' \/ In x l.
Proof. intros _ H. apply In_upd in H. exact H. Qed.

Definition log_ok (fn file fmt : str) (prio line tags : Z) : Prop := 0 < line < LOG_ARRAY_MAX_ELEMENTS.

(* one log call: the invariant is kept and, unless the 65537th distinct call site makes an assertion fail,
   the loggers invoked are exactly those the configuration prescribes *)
Lemma log_call_correct st fn file fmt prio line tags :
  Inv st -> 0 < line < LOG_ARRAY_MAX_ELEMENTS ->
  let r := log_call st fn file fmt prio line tags in
  abs (fst r) = abs st /\
  ((snd r = OAbort /\ aborted (fst r) = true) \/
   (Inv (fst r) /\ aborted (fst r) = aborted st /\
    exists id s, snd r = ODeliv id (cs_tags s) (route (abs st) (call_site fn file fmt prio line)) /\
                 In s (sites (fst r)) /\ same_coords s (call_site fn file fmt prio line) /\
                 (* the tag word: explicit if given, else what the existing record holds / what the replay computes *)
                 (tags <> 0 -> cs_tags s = tags))).
Proof.
  intros I Hline. unfold LogRouteModel.log_call.
  assert (E0 : (two31 <=? line) || (LOG_ARRAY_MAX_ELEMENTS <=? line) = false).
  { apply orb_false_iff. split; apply Z.leb_gt; [|lia].
    assert (LOG_ARRAY_MAX_ELEMENTS <= two31) by (unfold LOG_ARRAY_MAX_ELEMENTS, two31; lia). lia. }
  rewrite E0.
  destruct (find_site fixed fn file fmt prio line (sites st) 0) as [[i s]|] eqn:F.
  - (* known call site *)
    apply find_site_some in F as (_ & Hn & K). rewrite Nat.sub_0_r in Hn.
    apply key_eq_fixed in K.
    set (s' := if negb (tags =? 0) && negb (cs_tags s =? tags) then set_tags s tags else s).
    assert (Cs : same_coords s' s) by (unfold s'; destruct (_ && _); repeat split).
    assert (Ts : cs_targets s' = cs_targets s) by (unfold s'; destruct (_ && _); reflexivity).
    assert (Hin : In s (sites st)) by (eapply nth_error_In; eauto).
    cbv zeta. cbn [fst snd]. split; [reflexivity|]. right.
    assert (Hb' : forall t, in_range t ->
               bit_is_set (cs_targets s') t = existsb (flt_selects (call_site fn file fmt prio line)) (tfilters (conf st) t)).
    { intros t Ht. rewrite Ts, (inv_bits _ I s t Hin Ht). apply existsb_selects_coords. exact K. }
    split; [|split; [reflexivity|]].
    + destruct I as [Il Ia Ie If Iu Itg Iln Ib]. constructor; cbn [with_sites conf active_max tagsf sites aborted]; auto.
      * unfold lines_pos in *. rewrite Forall_forall in *. intros x Hx. apply In_upd in Hx as [->|Hx]; auto.
        destruct Cs as (_ & _ & _ & _ & ->). auto.
      * intros x t Hx Ht. apply In_upd in Hx as [->|Hx]; auto.
        rewrite Ts, (existsb_selects_coords s' s _ Cs). auto.
    + exists (Z.of_nat i), s'. split; [|split; [|split]].
      * f_equal. apply (deliveries_route st s' _ I Hb').
      * cbn [with_sites sites]. clear - Hn. revert i Hn. induction (sites st) as [|a l IH]; intros [|i] Hn; simpl in *; try discriminate; auto.
      * eapply same_coords_trans; eauto.
      * intros Hne. unfold s'. destruct (Z.eqb_spec tags 0) as [E|E]; [contradiction|]. cbn [negb andb].
        destruct (Z.eqb_spec (cs_tags s) tags) as [E'|E']; cbn [negb]; [exact E'|reflexivity].
  - (* first use: a record is created and the stored filters are replayed onto it *)
    destruct (LOG_ARRAY_MAX_ELEMENTS <=? Z.of_nat (length (sites st))) eqn:Full.
    + cbn [fst snd]. split; [reflexivity|]. left. split; reflexivity.
    + set (s0 := {| cs_fn := fn; cs_file := file; cs_fmt := fmt; cs_prio := prio; cs_line := line;
                    cs_targets := []; cs_tags := tags |}).
      set (s1 := replay_targets re_match fixed st s0).
      set (s2 := if tags =? 0 then fold_left apply_flt (tagsf st) s1 else set_tags s1 tags).
      assert (R : same_coords s1 s0 /\ cs_tags s1 = cs_tags s0 /\
                  forall u, in_range u -> bit_is_set (cs_targets s1) u = existsb (flt_selects s0) (tfilters (conf st) u)).
      { unfold s1, replay_targets. change (v_replay_all fixed) with true. cbv iota.
        destruct (replay_fold (conf st) (zrange LOG_TARGET_MAX) s0) as (C & T & B).
        - intros p Hp. apply In_zrange in Hp. split; [apply (inv_flt _ I); exact Hp|apply (inv_unused _ I); exact Hp].
        - split; [exact C|]. split; [exact T|]. intros u Hu. rewrite B.
          rewrite (existsb_eqb_zrange u LOG_TARGET_MAX Hu). reflexivity. }
      destruct R as (C1 & T1 & B1).
      assert (C2 : same_coords s2 s1).
      { unfold s2. destruct (tags =? 0); [apply fold_apply_flt_coords|repeat split]. }
      assert (Tg2 : cs_targets s2 = cs_targets s1).
      { unfold s2. destruct (tags =? 0); [apply fold_apply_tag_bits; exact (inv_tagf _ I)|reflexivity]. }
      assert (C0 : same_coords s0 (call_site fn file fmt prio line)) by (repeat split).
      assert (C20 : same_coords s2 s0) by (eapply same_coords_trans; eauto).
      assert (Hb' : forall t, in_range t ->
                 bit_is_set (cs_targets s2) t = existsb (flt_selects (call_site fn file fmt prio line)) (tfilters (conf st) t)).
      { intros t Ht. rewrite Tg2, (B1 t Ht). apply existsb_selects_coords. exact C0. }
      cbv zeta. cbn [fst snd]. split; [reflexivity|]. right.
      split; [|split; [reflexivity|]].
      * destruct I as [Il Ia Ie If Iu Itg Iln Ib]. constructor; cbn [with_sites conf active_max tagsf sites aborted]; auto.
        -- unfold lines_pos in *. apply Forall_app. split; auto. constructor; auto.
           destruct C20 as (_ & _ & _ & _ & ->). cbn. lia.
        -- intros x t Hx Ht. apply in_app_iff in Hx as [Hx|[<-|[]]]; auto.
           rewrite Tg2, (B1 t Ht). apply existsb_selects_coords. eapply same_coords_sym; exact C20.
      * exists (Z.of_nat (length (sites st))), s2. split; [|split; [|split]].
        -- f_equal. apply (deliveries_route st s2 _ I Hb').
        -- cbn [with_sites sites]. apply in_app_iff. right. left. reflexivity.
        -- eapply same_coords_trans; eauto.
        -- intros Hne. unfold s2. destruct (Z.eqb_spec tags 0) as [E|E]; [contradiction|]. reflexivity.
Qed.

(* ------------------------------------------------------------------ histories *)

Lemma step_aborted st o : aborted st = true -> step st o = (st, OAbort).
Proof. intros H. unfold LogRouteModel.step. rewrite H. reflexivity. Qed.

Lemma run_aborted h : forall st, aborted st = true -> fst (run st h) = st.
Proof.
  induction h as [|o h IH]; intros st H; simpl; auto.
  rewrite (step_aborted st o H). specialize (IH st H). destruct (run st h); simpl in *. exact IH.
Qed.

Lemma run_cons st o h : fst (run st (o :: h)) = fst (run (fst (step st o)) h).
Proof. simpl. destruct (step st o) as [st1 x]. simpl. destruct (run st1 h). reflexivity. Qed.

Lemma filter_ctl2_aborted st t c ty text hi lo : aborted (fst (filter_ctl2 st t c ty text hi lo)) = aborted st.
Proof.
  unfold LogRouteModel.filter_ctl2.
  destruct (is_target_conf c && bad_target (conf st) t); [reflexivity|].
  destruct text as [tx|]; [|reflexivity].
  destruct ((lo <? hi) || (ty <? 0) || (LOG_FILTER_FORMAT_REGEX <? ty) || (c <? 0) || (LOG_TAG_CLEAR_ALL <? c)); [reflexivity|].
  cbv zeta. destruct (sr_rc _ <? 0); reflexivity.
Qed.

(* one operation of a history whose line numbers are in range *)
Lemma step_correct st o : Inv st -> aborted st = false -> op_line_ok o = true ->
  let st' := fst (step st o) in
  aborted st' = true \/ (aborted st' = false /\ Inv st' /\ abs st' = cfg_step (abs st) o).
Proof.
  intros I A L. unfold LogRouteModel.step. rewrite A. destruct o as [t c ty text hi lo|t on| |t|fn file fmt prio line tags].
  - right. pose proof (filter_ctl2_inv st t c ty text hi lo I) as I'.
    pose proof (filter_ctl2_abs st t c ty text hi lo) as Ab.
    pose proof (filter_ctl2_aborted st t c ty text hi lo) as Aa.
    destruct (filter_ctl2 st t c ty text hi lo) as [st' rc]. cbn [fst] in *. split; [congruence|]. split; assumption.
  - right. pose proof (ctl_enabled_inv st t on I) as I'. pose proof (ctl_enabled_abs st t on) as Ab.
    assert (Aa : aborted (fst (ctl_enabled st t on)) = aborted st).
    { unfold LogRouteModel.ctl_enabled. destruct (bad_target _ _); [reflexivity|].
      destruct on; destruct (_ =? _); reflexivity. }
    destruct (ctl_enabled st t on) as [st' rc]. cbn [fst] in *. split; [congruence|]. split; assumption.
  - right. pose proof (custom_open_inv st I) as I'. pose proof (custom_open_abs st) as Ab.
    assert (Aa : aborted (fst (custom_open st)) = aborted st).
    { unfold custom_open. destruct (first_unused _ _); reflexivity. }
    destruct (custom_open st) as [st' rc]. cbn [fst] in *. split; [congruence|]. split; assumption.
  - right. cbn [fst]. split; [|split; [apply custom_close_inv; exact I|apply custom_close_abs; exact I]].
    unfold LogRouteModel.custom_close. destruct (bad_target _ _); [exact A|].
    unfold state_set. cbn [aborted]. rewrite filter_ctl2_aborted. exact A.
  - cbn [op_line_ok] in L. apply andb_true_iff in L as [L1 L2]. apply Z.ltb_lt in L1, L2.
    destruct (log_call_correct st fn file fmt prio line tags I (conj L1 L2)) as (Ab & [[_ Ha]|(I' & Aa & _)]).
    + left. exact Ha.
    + right. split; [congruence|]. split; [exact I'|]. rewrite Ab. reflexivity.
Qed.

Lemma run_correct h : forall st, Inv st -> aborted st = false -> G_log_lineno_range h = true ->
  aborted (fst (run st h)) = false ->
  Inv (fst (run st h)) /\ abs (fst (run st h)) = cfg_run re_ok (abs st) h.
Proof.
  induction h as [|o h IH]; intros st I A G F.
  - simpl. split; [exact I|reflexivity].
  - rewrite run_cons in *. cbn [G_log_lineno_range forallb] in G. apply andb_true_iff in G as [G1 G2].
    destruct (step_correct st o I A G1) as [Ha|(Ha & I' & Ab)].
    + rewrite (run_aborted h _ Ha) in F. congruence.
    + destruct (IH _ I' Ha G2 F) as [I'' Ab'']. split; [exact I''|].
      rewrite Ab''. unfold cfg_run. cbn [fold_left]. rewrite Ab. reflexivity.
Qed.

(* the state qb_log_init leaves *)
Lemma init_get p t : in_range t ->
  get_target (init_conf p) t =
  if t =? LOG_SYSLOG then
    {| t_state := LOG_STATE_ENABLED;
       t_filters := [{| f_conf := LOG_FILTER_ADD; f_type := LOG_FILTER_FILE; f_text := STAR;
                        f_hi := LOG_PRIO_EMERG; f_lo := p; f_val := LOG_SYSLOG |}] |}
  else if t <? LOG_TARGET_STATIC_MAX then {| t_state := LOG_STATE_DISABLED; t_filters := [] |}
  else unused_target.
Proof.
  intros Ht. unfold get_target, init_conf, zrange, in_range in *.
  set (f := fun i : Z => if i =? LOG_SYSLOG then _ else _).
  rewrite (nth_indep _ unused_target (f 0)) by (rewrite !map_length, seq_length; lia).
  rewrite map_nth.
  replace (nth (Z.to_nat t) (map Z.of_nat (seq 0 (Z.to_nat LOG_TARGET_MAX))) 0) with t; [reflexivity|].
  rewrite (nth_indep _ 0 (Z.of_nat 0)) by (rewrite map_length, seq_length; lia).
  rewrite map_nth, seq_nth by lia. lia.
Qed.

Lemma init_inv p : Inv (log_init p).
Proof.
  constructor; cbn [log_init conf active_max tagsf sites aborted].
  - unfold init_conf, zrange. rewrite !map_length, seq_length. reflexivity.
  - unfold in_range, LOG_SYSLOG, LOG_TARGET_MAX. lia.
  - intros t Ht He. unfold tstate in He. rewrite (init_get p t Ht) in He.
    destruct (Z.eqb_spec t LOG_SYSLOG) as [->|_]; [lia|].
    destruct (t <? LOG_TARGET_STATIC_MAX); discriminate He.
  - intros t Ht. unfold tfilters. rewrite (init_get p t Ht).
    destruct (Z.eqb_spec t LOG_SYSLOG) as [->|_]; [repeat constructor|].
    destruct (t <? LOG_TARGET_STATIC_MAX); constructor.
  - intros t Ht He. unfold tstate in He. unfold tfilters. rewrite (init_get p t Ht) in *.
    destruct (t =? LOG_SYSLOG); [discriminate He|]. destruct (t <? LOG_TARGET_STATIC_MAX); reflexivity.
  - constructor.
  - constructor.
  - intros s t [].
Qed.

(* THE ROUTING THEOREM.  For every history h of control operations and log calls (line numbers in
   range) and every further log call: unless an assertion of log_dcs.c has ended the process (65537th distinct
   call site), the loggers invoked for the call are exactly [route] of the configuration that h leaves and of the
   call's own coordinates - whatever was logged before, in whatever order targets were enabled and filters added. *)
Theorem routing_refines_spec p h fn file fmt prio line tags :
  G_log_lineno_range (h ++ [OLog fn file fmt prio line tags]) = true ->
  let st := fst (run (log_init p) h) in
  let r := step st (OLog fn file fmt prio line tags) in
  aborted (fst r) = false ->
  exists id g, snd r = ODeliv id g (route (cfg_run re_ok (cfg_init p) h) (call_site fn file fmt prio line))
               /\ (tags <> 0 -> g = tags).
Proof.
  intros G st r F. unfold G_log_lineno_range in G. rewrite forallb_app in G. apply andb_true_iff in G as [G1 G2].
  cbn [forallb] in G2. rewrite andb_true_r in G2.
  assert (A : aborted st = false).
  { destruct (aborted st) eqn:E; auto. unfold r in F. rewrite (step_aborted st _ E) in F. cbn in F. congruence. }
  destruct (run_correct h (log_init p) (init_inv p) eq_refl G1 A) as [I Ab].
  fold st in I, Ab. change (abs (log_init p)) with (cfg_init p) in Ab.
  unfold r in *. unfold LogRouteModel.step in *. rewrite A in *.
  cbn [op_line_ok] in G2. apply andb_true_iff in G2 as [L1 L2]. apply Z.ltb_lt in L1, L2.
  destruct (log_call_correct st fn file fmt prio line tags I (conj L1 L2)) as (_ & [[_ Ha]|(_ & _ & id & s & Ho & _ & _ & Ht)]).
  - congruence.
  - exists id, (cs_tags s). rewrite Ho, Ab. split; [reflexivity|exact Ht].
Qed.

(* what [route] means, spelled out: membership, exactly once, ascending *)
Lemma route_iff c s t :
  In t (route c s) <-> in_range t /\ tstate (c_conf c) t = LOG_STATE_ENABLED /\
                       exists f, In f (tfilters (c_conf c) t) /\ flt_selects s f = true.
Proof.
  unfold LogRouteModel.route. rewrite filter_In, In_zrange, andb_true_iff, Z.eqb_eq, existsb_exists. reflexivity.
Qed.

Lemma route_NoDup c s : NoDup (route c s).
Proof. unfold LogRouteModel.route. apply NoDup_filter. apply NoDup_zrange. Qed.

(* ------------------------------------------------------------------ tags *)

(* every known call site carries the value of the last stored tag rule that selects it (0 if none) *)
Definition TInv (st : state) : Prop := forall s, In s (sites st) -> cs_tags s = last_tag s (tagsf st) 0.

Lemma last_tag_app s l f g : last_tag s (l ++ [f]) g = if flt_selects s f then f_val f else last_tag s l g.
Proof. unfold last_tag. rewrite fold_left_app. reflexivity. Qed.

Lemma last_tag_coords s s' l g : same_coords s s' -> last_tag s l g = last_tag s' l g.
Proof.
  intros C. unfold last_tag. revert g; induction l as [|f l IH]; intros g; simpl; auto.
  rewrite (flt_selects_coords s s' f C). apply IH.
Qed.

Lemma last_tag_idem s l : forall g, last_tag s l (last_tag s l g) = last_tag s l g.
Proof.
  induction l as [|f l IH] using rev_ind; intros g; [reflexivity|].
  rewrite !last_tag_app. destruct (flt_selects s f); [reflexivity|]. apply IH.
Qed.

Lemma remove_first_none ty tx hi lo l : snd (remove_first ty tx hi lo l) = None -> fst (remove_first ty tx hi lo l) = l.
Proof.
  induction l as [|f l IH]; simpl; auto. destruct (remove_hit ty tx hi lo f); simpl; [discriminate|].
  destruct (remove_first ty tx hi lo l) as [l' x]; simpl in *. intros H. rewrite (IH H). reflexivity.
Qed.

Lemma last_tag_remove s ty tx hi lo l r : snd (remove_first ty tx hi lo l) = Some r -> flt_selects s r = false ->
  forall g, last_tag s l g = last_tag s (fst (remove_first ty tx hi lo l)) g.
Proof.
  unfold last_tag. induction l as [|f l IH]; simpl; [discriminate|].
  destruct (remove_hit ty tx hi lo f); simpl.
  - intros H Hs g. inversion H; subst. rewrite Hs. reflexivity.
  - destruct (remove_first ty tx hi lo l) as [l' x]; simpl in *. intros H Hs g. apply IH; assumption.
Qed.

Lemma site_after_tags_target t c ty tx hi lo r s :
  c = LOG_FILTER_ADD \/ c = LOG_FILTER_REMOVE \/ c = LOG_FILTER_CLEAR_ALL -> Forall (add_flt_of t) (sr_list r) ->
  cs_tags (site_after t c ty tx hi lo r s) = cs_tags s.
Proof.
  intros Hc Hf. unfold site_after. destruct Hc as [Hc|[Hc|Hc]]; subst c.
  - change ((LOG_FILTER_ADD =? LOG_FILTER_REMOVE) || (LOG_FILTER_ADD =? LOG_TAG_CLEAR)) with false. cbv iota.
    rewrite apply_add. destruct (cs_matches _ _ _ _ _ _); reflexivity.
  - change ((LOG_FILTER_REMOVE =? LOG_FILTER_REMOVE) || (LOG_FILTER_REMOVE =? LOG_TAG_CLEAR)) with true. cbv iota.
    rewrite (fold_apply_add_tags _ _ t Hf). rewrite apply_remove. destruct (cs_matches _ _ _ _ _ _); reflexivity.
  - change ((LOG_FILTER_CLEAR_ALL =? LOG_FILTER_REMOVE) || (LOG_FILTER_CLEAR_ALL =? LOG_TAG_CLEAR)) with false. cbv iota.
    rewrite apply_clear_all. reflexivity.
Qed.

(* the tag word of one call site after TAG_SET / TAG_CLEAR / TAG_CLEAR_ALL *)
Lemma site_after_tags_tagop l tv c ty tx hi lo s :
  c = LOG_TAG_SET \/ c = LOG_TAG_CLEAR \/ c = LOG_TAG_CLEAR_ALL ->
  Forall tag_flt l ->
  let r := filter_store l tv c ty tx hi lo in
  0 <= sr_rc r ->
  cs_tags s = last_tag s l 0 ->
  cs_tags (site_after tv c ty tx hi lo r s) = last_tag (site_after tv c ty tx hi lo r s) (sr_list r) 0.
Proof.
  intros Hc Hf r Hrc Ht.
  rewrite (last_tag_coords _ s _ _ (site_after_coords tv c ty tx hi lo r s)).
  destruct Hc as [Hc|[Hc|Hc]].
  - destruct (filter_store_add l tv c ty tx hi lo (or_intror Hc)) as [Hneg|(H0 & Hn & Hr & Hlst)]; [fold r in Hneg; lia|].
    fold r in H0, Hn, Hr, Hlst. unfold site_after. rewrite Hn, Hlst. subst c. cbn [orb].
    change ((LOG_TAG_SET =? LOG_FILTER_REMOVE) || (LOG_TAG_SET =? LOG_TAG_CLEAR)) with false. cbv iota.
    rewrite apply_tag_set, last_tag_app.
    assert (Hsel : flt_selects s (new_flt tv LOG_TAG_SET ty tx hi lo) = cs_matches true s ty tx hi lo) by reflexivity.
    rewrite Hsel. destruct (cs_matches true s ty tx hi lo); [reflexivity|exact Ht].
  - pose proof (filter_store_remove l tv c ty tx hi lo (or_intror Hc)) as Hshape. fold r in Hshape.
    unfold site_after. rewrite Hshape. cbn [sr_new sr_removed sr_list orb]. subst c.
    change ((LOG_TAG_CLEAR =? LOG_FILTER_REMOVE) || (LOG_TAG_CLEAR =? LOG_TAG_CLEAR)) with true. cbv iota.
    set (rf := remove_first ty tx hi lo l).
    set (av := match snd rf with Some _ => true | None => false end).
    assert (Hf' : Forall tag_flt (fst rf)) by (apply remove_first_Forall; exact Hf).
    rewrite (fold_apply_tag_tags (fst rf) _ s Hf' (apply_to_cs_coords av s tv LOG_TAG_CLEAR ty tx hi lo)).
    rewrite apply_tag_clear.
    destruct (cs_matches av s ty tx hi lo) eqn:M; [reflexivity|].
    rewrite Ht.
    destruct (snd rf) as [x|] eqn:Ex.
    + assert (Hx : flt_selects s x = false).
      { destruct (flt_selects s x) eqn:Sx; auto. exfalso.
        pose proof (remove_hit_covers ty tx hi lo x s (remove_first_hit _ _ _ _ _ _ Ex) Sx) as Cov.
        unfold av in M. congruence. }
      rewrite (last_tag_remove s ty tx hi lo l x Ex Hx). fold rf. apply last_tag_idem.
    + assert (El : fst rf = l) by (apply remove_first_none; exact Ex).
      replace (last_tag s l 0) with (last_tag s (fst rf) 0) by (rewrite El; reflexivity). apply last_tag_idem.
  - pose proof (filter_store_clear l tv c ty tx hi lo (or_intror Hc)) as Hshape. fold r in Hshape.
    unfold site_after. rewrite Hshape. cbn [sr_new sr_removed sr_list orb]. subst c.
    change ((LOG_TAG_CLEAR_ALL =? LOG_FILTER_REMOVE) || (LOG_TAG_CLEAR_ALL =? LOG_TAG_CLEAR)) with false. cbv iota.
    rewrite apply_tag_clear_all. reflexivity.
Qed.

Lemma filter_ctl2_tinv st t c ty text hi lo : Inv st -> TInv st -> TInv (fst (filter_ctl2 st t c ty text hi lo)).
Proof.
  intros I T. pose proof I as [Il Ia Ie If Iu Itg Iln Ib].
  destruct (filter_ctl2_cases st t c ty text hi lo Iln) as [E|(tx & -> & Hc & Hbad & Hrc & E)]; rewrite E; [exact T|].
  clear E. cbv zeta in Hrc. cbv zeta.
  destruct (is_target_conf_cases c Hc) as [[Ht Hc3]|[Ht Hc3]]; rewrite Ht in *; cbv iota in *.
  - destruct (bad_target_false _ _ (Hbad eq_refl)) as [Hr Hnu].
    intros s' Hs'. cbn [sites tagsf] in *. apply in_map_iff in Hs' as (s & <- & Hs).
    rewrite site_after_tags_target; auto.
    + rewrite (last_tag_coords _ s _ _ (site_after_coords _ _ _ _ _ _ _ s)). apply T; exact Hs.
    + apply filter_store_Forall; [apply If; exact Hr|].
      intros [Hc'|Hc']; split; auto; subst c; destruct Hc3 as [H|[H|H]]; discriminate H.
  - intros s' Hs'. cbn [sites tagsf] in *. apply in_map_iff in Hs' as (s & <- & Hs).
    apply site_after_tags_tagop; auto.
Qed.

Lemma log_call_tinv st fn file fmt prio line : Inv st -> TInv st -> TInv (fst (log_call st fn file fmt prio line 0)).
Proof.
  intros I T. unfold LogRouteModel.log_call.
  destruct ((two31 <=? line) || (LOG_ARRAY_MAX_ELEMENTS <=? line)); [exact T|].
  destruct (find_site fixed fn file fmt prio line (sites st) 0) as [[i s]|] eqn:F.
  - cbv zeta. cbn [fst negb andb Z.eqb]. intros x Hx. cbn [with_sites sites tagsf] in *.
    apply find_site_some in F as (_ & Hn & _). rewrite Nat.sub_0_r in Hn.
    apply In_upd in Hx as [->|Hx]; [|apply T; exact Hx]. apply T. eapply nth_error_In; eauto.
  - destruct (LOG_ARRAY_MAX_ELEMENTS <=? Z.of_nat (length (sites st))); [exact T|].
    cbv zeta. cbn [fst Z.eqb]. intros x Hx. cbn [with_sites sites tagsf] in *.
    apply in_app_iff in Hx as [Hx|[<-|[]]]; [apply T; exact Hx|].
    set (s0 := {| cs_fn := fn; cs_file := file; cs_fmt := fmt; cs_prio := prio; cs_line := line;
                  cs_targets := []; cs_tags := 0 |}).
    set (s1 := replay_targets re_match fixed st s0).
    assert (T1 : cs_tags s1 = 0).
    { unfold s1, replay_targets. change (v_replay_all fixed) with true. cbv iota.
      destruct (replay_fold (conf st) (zrange LOG_TARGET_MAX) s0) as (_ & Tg & _); [|exact Tg].
      intros p Hp. apply In_zrange in Hp. split; [apply (inv_flt _ I); exact Hp|apply (inv_unused _ I); exact Hp]. }
    rewrite (fold_apply_tag_tags (tagsf st) s1 (fold_left apply_flt (tagsf st) s1) (inv_tagf _ I)).
    + rewrite T1. reflexivity.
    + apply same_coords_sym. apply fold_apply_flt_coords.
Qed.

Lemma step_tinv st o : Inv st -> TInv st -> op_no_tags o = true -> TInv (fst (step st o)).
Proof.
  intros I T N. unfold LogRouteModel.step. destruct (aborted st); [exact T|].
  destruct o as [t c ty text hi lo|t on| |t|fn file fmt prio line tags].
  - pose proof (filter_ctl2_tinv st t c ty text hi lo I T) as T'.
    destruct (filter_ctl2 st t c ty text hi lo); exact T'.
  - unfold LogRouteModel.ctl_enabled. destruct (bad_target _ _); [exact T|].
    destruct on; destruct (_ =? _); exact T.
  - unfold custom_open. destruct (first_unused _ _); exact T.
  - cbn [fst]. unfold LogRouteModel.custom_close. destruct (bad_target _ _); [exact T|].
    change (v_close_clears fixed) with true. cbv iota.
    pose proof (filter_ctl2_tinv st t LOG_FILTER_CLEAR_ALL LOG_FILTER_FILE (Some STAR) LOG_PRIO_EMERG 0 I T) as T'.
    exact T'.
  - cbn [op_no_tags] in N. apply Z.eqb_eq in N. subst tags. apply log_call_tinv; assumption.
Qed.

Lemma run_tinv h : forall st, Inv st -> TInv st -> aborted st = false ->
  G_log_lineno_range h = true -> no_explicit_tags h = true ->
  aborted (fst (run st h)) = false -> TInv (fst (run st h)).
Proof.
  induction h as [|o h IH]; intros st I T A G N F; [exact T|].
  rewrite run_cons in *. cbn [G_log_lineno_range no_explicit_tags forallb] in G, N.
  apply andb_true_iff in G as [G1 G2]. apply andb_true_iff in N as [N1 N2].
  destruct (step_correct st o I A G1) as [Ha|(Ha & I' & _)].
  - rewrite (run_aborted h _ Ha) in F. congruence.
  - apply IH; auto. apply step_tinv; assumption.
Qed.

(* THE TAG THEOREM: for histories whose calls carry no explicit tag word, the tag reported with a message is the value
   of the last stored tag rule that selects the call - again a function of the configuration and the call alone. *)
Theorem tags_refine_spec p h fn file fmt prio line :
  G_log_lineno_range (h ++ [OLog fn file fmt prio line 0]) = true ->
  no_explicit_tags h = true ->
  let st := fst (run (log_init p) h) in
  let r := step st (OLog fn file fmt prio line 0) in
  aborted (fst r) = false ->
  exists id, snd r = ODeliv id (tag_of (cfg_run re_ok (cfg_init p) h) (call_site fn file fmt prio line))
                              (route (cfg_run re_ok (cfg_init p) h) (call_site fn file fmt prio line)).
Proof.
  intros G N st r F. unfold G_log_lineno_range in G. rewrite forallb_app in G. apply andb_true_iff in G as [G1 G2].
  cbn [forallb] in G2. rewrite andb_true_r in G2.
  assert (A : aborted st = false).
  { destruct (aborted st) eqn:E; auto. unfold r in F. rewrite (step_aborted st _ E) in F. cbn in F. congruence. }
  destruct (run_correct h (log_init p) (init_inv p) eq_refl G1 A) as [I Ab].
  assert (T : TInv st) by (apply run_tinv; auto; [apply init_inv|intros s []]).
  fold st in I, Ab. change (abs (log_init p)) with (cfg_init p) in Ab.
  pose proof (log_call_tinv st fn file fmt prio line I T) as T'.
  unfold r in *. unfold LogRouteModel.step in *. rewrite A in *.
  cbn [op_line_ok] in G2. apply andb_true_iff in G2 as [L1 L2]. apply Z.ltb_lt in L1, L2.
  destruct (log_call_correct st fn file fmt prio line 0 I (conj L1 L2)) as (Ab' & [[_ Ha]|(_ & _ & id & s & Ho & Hin & Cs & _)]).
  - congruence.
  - exists id. rewrite Ho, Ab. f_equal.
    rewrite (T' s Hin). rewrite (last_tag_coords s _ _ _ Cs).
    assert (Etg : tagsf (fst (log_call st fn file fmt prio line 0)) = c_tagsf (cfg_run re_ok (cfg_init p) h)).
    { rewrite <- Ab. change (tagsf (fst (log_call st fn file fmt prio line 0))) with (c_tagsf (abs (fst (log_call st fn file fmt prio line 0)))).
      rewrite Ab'. reflexivity. }
    rewrite Etg. reflexivity.
Qed.

End WithOracles.

(* ------------------------------------------------------------------ the statement, for any variant of the code *)

Definition routing_statement (v : variant) : Prop :=
  forall (re_ok : str -> bool) (re_match : str -> str -> bool) p h fn file fmt prio line tags,
  G_log_lineno_range (h ++ [OLog fn file fmt prio line tags]) = true ->
  let st := fst (run re_ok re_match v (log_init p) h) in
  let r := step re_ok re_match v st (OLog fn file fmt prio line tags) in
  aborted (fst r) = false ->
  exists id g, snd r = ODeliv id g (route re_match (cfg_run re_ok (cfg_init p) h) (call_site fn file fmt prio line))
               /\ (tags <> 0 -> g = tags).

Lemma routing_fixed : routing_statement fixed.
Proof. unfold routing_statement. intros. eapply routing_refines_spec; eauto. Qed.

(* ... and it is FALSE of the code as it stands in the unchanged tree, and stays false when any single one of the
   four repairs is left out.  The witnesses are the scripts that props/C12.py replays on the real library. *)
Definition without_replay_all : variant := {| v_replay_all := false; v_reapply := true; v_fnkey := true; v_close_clears := true |}.
Definition without_reapply : variant := {| v_replay_all := true; v_reapply := false; v_fnkey := true; v_close_clears := true |}.
Definition without_fnkey : variant := {| v_replay_all := true; v_reapply := true; v_fnkey := false; v_close_clears := true |}.
Definition without_close_clears : variant := {| v_replay_all := true; v_reapply := true; v_fnkey := true; v_close_clears := false |}.

Definition s_f : str := [102].            (* "f" *)
Definition s_g : str := [103].            (* "g" *)
Definition s_a : str := [97].             (* "a" *)
Definition s_ac : str := [97; 46; 99].    (* "a.c" *)

(* target disabled when the call site is first used *)
Definition witness_A : list op :=
  [OEnable 0 false; OOpen; OFilter 4 LOG_FILTER_ADD LOG_FILTER_FILE (Some STAR) 0 7; OLog s_f s_ac s_a 6 10 0; OEnable 4 true].
(* REMOVE of one of two filters that both select the call site *)
Definition witness_B : list op :=
  [OEnable 0 false; OOpen; OEnable 4 true; OFilter 4 LOG_FILTER_ADD LOG_FILTER_FILE (Some STAR) 0 7;
   OFilter 4 LOG_FILTER_ADD LOG_FILTER_FORMAT (Some s_a) 0 7; OLog s_f s_ac s_a 6 10 0;
   OFilter 4 LOG_FILTER_REMOVE LOG_FILTER_FORMAT (Some s_a) 0 7].
(* REMOVE of a regex filter: the known call site keeps the target *)
Definition witness_B2 : list op :=
  [OEnable 0 false; OOpen; OEnable 4 true; OFilter 4 LOG_FILTER_ADD LOG_FILTER_FILE_REGEX (Some s_a) 0 7;
   OLog s_f s_ac s_a 6 10 0; OFilter 4 LOG_FILTER_REMOVE LOG_FILTER_FILE_REGEX (Some s_a) 0 7].
(* same coordinates, other function *)
Definition witness_C : list op :=
  [OEnable 0 false; OOpen; OEnable 4 true; OFilter 4 LOG_FILTER_ADD LOG_FILTER_FUNCTION (Some s_g) 0 7; OLog s_f s_ac s_a 6 10 0].
(* a closed target's filters are inherited by the next target in the slot *)
Definition witness_D : list op :=
  [OEnable 0 false; OOpen; OFilter 4 LOG_FILTER_ADD LOG_FILTER_FILE (Some STAR) 0 7; OClose 4; OOpen; OEnable 4 true].

Ltac refute w fn :=
  let H := fresh in
  unfold routing_statement; intros H;
  specialize (H (fun _ => true) (fun p s => is_substr p s) 6 w fn s_ac s_a 6 10 0 eq_refl eq_refl);
  vm_compute in H; destruct H as (id & g & H & _); discriminate H.

Lemma routing_refuted_orig : ~ routing_statement orig.
Proof. refute witness_A s_f. Qed.
Lemma routing_refuted_without_replay_all : ~ routing_statement without_replay_all.
Proof. refute witness_A s_f. Qed.
Lemma routing_refuted_without_reapply : ~ routing_statement without_reapply.
Proof. refute witness_B s_f. Qed.
Lemma routing_refuted_without_reapply_regex : ~ routing_statement without_reapply.
Proof. refute witness_B2 s_f. Qed.
Lemma routing_refuted_without_fnkey : ~ routing_statement without_fnkey.
Proof. refute witness_C s_g. Qed.
Lemma routing_refuted_without_close_clears : ~ routing_statement without_close_clears.
Proof. refute witness_D s_f. Qed.

(* the line-number guard is needed: a call site with line 0 is skipped by later filter changes *)
Definition witness_L : list op :=
  [OEnable 0 false; OOpen; OEnable 4 true; OLog s_f s_ac s_a 6 0 0; OFilter 4 LOG_FILTER_ADD LOG_FILTER_FILE (Some STAR) 0 7].
Lemma routing_line0_refuted :
  exists id g, snd (step (fun _ => true) (fun _ _ => false) fixed
                         (fst (run (fun _ => true) (fun _ _ => false) fixed (log_init 6) witness_L)) (OLog s_f s_ac s_a 6 0 0))
               = ODeliv id g [] /\
               route (fun _ _ => false) (cfg_run (fun _ => true) (cfg_init 6) witness_L) (call_site s_f s_ac s_a 6 0) = [4].
Proof. exists 0, 0. vm_compute. split; reflexivity. Qed.

(* non-vacuity: a history with three targets, overlapping filters, a REMOVE, a disable, a close and re-open,
   logged-before-configured call sites and a tag rule; it meets the hypotheses of the theorem *)
Definition example_history : list op :=
  [OLog s_f s_ac s_a 6 10 0; OEnable 0 false; OOpen; OOpen; OOpen;
   OFilter 4 LOG_FILTER_ADD LOG_FILTER_FILE (Some STAR) 0 7; OFilter 4 LOG_FILTER_ADD LOG_FILTER_FORMAT (Some s_a) 0 7;
   OFilter 5 LOG_FILTER_ADD LOG_FILTER_FUNCTION (Some [102; 44; 103]) 3 6;
   OFilter 6 LOG_FILTER_ADD LOG_FILTER_FILE (Some s_ac) 0 7;
   OLog s_g s_ac s_a 6 10 0; OEnable 4 true; OEnable 5 true; OEnable 6 true;
   OFilter 4 LOG_FILTER_REMOVE LOG_FILTER_FORMAT (Some s_a) 0 7; OEnable 5 false;
   OClose 6; OOpen; OEnable 6 true; OFilter 9 LOG_TAG_SET LOG_FILTER_FILE (Some s_ac) 0 7].

Lemma example_meets_hypotheses :
  G_log_lineno_range (example_history ++ [OLog s_f s_ac s_a 6 10 0]) = true /\
  aborted (fst (step (fun _ => true) (fun _ _ => false) fixed
                     (fst (run (fun _ => true) (fun _ _ => false) fixed (log_init 6) example_history))
                     (OLog s_f s_ac s_a 6 10 0))) = false /\
  snd (step (fun _ => true) (fun _ _ => false) fixed
            (fst (run (fun _ => true) (fun _ _ => false) fixed (log_init 6) example_history))
            (OLog s_f s_ac s_a 6 10 0)) = ODeliv 0 9 [4] /\
  route (fun _ _ => false) (cfg_run (fun _ => true) (cfg_init 6) example_history) (call_site s_f s_ac s_a 6 10) = [4].
Proof. vm_compute. repeat split; reflexivity. Qed.
