(* MapHashModel - executable transcription of lib/hashtable.c behind lib/map.c (C17 / C18).  Model only, no proofs.

   Heap objects (hash nodes) live in [heap] = list of cells indexed by allocation order, each with an
   allocation status; EVERY access goes through [deref], which yields the error UseAfterFree for a freed
   cell.  "never touches freed memory" is then "no reachable Err".

   The code exists in two versions: as it is in the repository at the time of writing (variant [v_orig]) and
   with the proposed repairs fixes/C17-hashtable-iter-free-release.patch (fx_iter_free) and
   fixes/C18-hashtable-removed-nodes.patch (fx_removed) applied (variant [v_fixed]).  The full theorems are
   about [v_fixed]; the refutations are about [v_orig].

   The hash function is a parameter [hf : key -> N] (the value before masking): bucket index =
   hf k mod nb.  The extracted instance is FNV-1a exactly as hash_fnv() computes it ([hash_fnv_raw]).   *)
From Coq Require Import List NArith ZArith Bool Arith.
Require Import Verif.MapSpec.
Import ListNotations.

Inductive error := UseAfterFree (id : nat) | OutOfBounds (id : nat) | OutOfFuel | RefUnderflow (id : nat)
  | UseAfterFreeArr (id : nat) | NullDeref.
Inductive res (A : Type) := Ok (a : A) | Err (e : error).
Arguments Ok {A} a.
Arguments Err {A} e.
Definition bind {A B} (r : res A) (f : A -> res B) : res B :=
  match r with Ok a => f a | Err e => Err e end.
Notation "'do' x <- r ; f" := (bind r (fun x => f)) (at level 200, x name, r at level 100, f at level 200).
Notation "'do' ' x <- r ; f" := (bind r (fun x => f)) (at level 200, x pattern, r at level 100, f at level 200).

Record variant := { fx_iter_free : bool; fx_removed : bool }.
Definition v_orig := {| fx_iter_free := false; fx_removed := false |}.
Definition v_fixed := {| fx_iter_free := true; fx_removed := true |}.

(* struct qb_map_notifier (map_int.h): callback, events, user_data *)
Record nsub := { ns_fn : N; ns_events : N; ns_ud : N }.

(* struct hash_node *)
Record hnode := { hn_key : key; hn_val : val; hn_ref : nat; hn_removed : bool; hn_subs : list nsub }.
Record cell := { c_live : bool; c_node : hnode }.
Definition heap := list cell.

Definition deref (h : heap) (id : nat) : res hnode :=
  match nth_error h id with
  | Some c => if c_live c then Ok (c_node c) else Err (UseAfterFree id)
  | None => Err (OutOfBounds id)
  end.

Fixpoint upd {A} (l : list A) (i : nat) (x : A) : list A :=
  match l, i with
  | [], _ => []
  | _ :: t, O => x :: t
  | a :: t, S i' => a :: upd t i' x
  end.

Definition store (h : heap) (id : nat) (n : hnode) : heap := upd h id {| c_live := true; c_node := n |}.
Definition free_cell (h : heap) (id : nat) : heap :=
  match nth_error h id with
  | Some c => upd h id {| c_live := false; c_node := c_node c |}
  | None => h
  end.
Definition alloc (h : heap) (n : hnode) : heap * nat := (h ++ [{| c_live := true; c_node := n |}], length h).

(* struct hashtable_iter: node, bucket *)
Record hiter := { hi_node : option nat; hi_bucket : nat }.

(* struct hash_table + the iterators the caller holds (script id -> iterator) *)
Record hstate := {
  h_heap : heap;
  h_buckets : list (list nat);        (* hash_buckets[]: node ids in list order *)
  h_count : Z;                        (* size_t count: wraps modulo 2^64 *)
  h_subs : list nsub;                 (* notifier_head *)
  h_iters : list (nat * hiter);       (* open iterators *)
  h_used : list nat;                  (* iterator ids ever used *)
  h_alive : bool                      (* false after qb_map_destroy *)
}.

Definition wrap64 (z : Z) : Z := (z mod 18446744073709551616)%Z.

(* qb_hashtable_create: order = max(bit length of max_size, 3); 2^order buckets *)
Fixpoint bitlen_pos (p : positive) : nat :=
  match p with xH => 1 | xO q => S (bitlen_pos q) | xI q => S (bitlen_pos q) end.
Definition order_of (max_size : N) : nat :=
  match max_size with N0 => 3 | Npos p => Nat.max (bitlen_pos p) 3 end.
Definition h_create (max_size : N) : hstate :=
  {| h_heap := []; h_buckets := repeat [] (2 ^ order_of max_size); h_count := 0; h_subs := [];
     h_iters := []; h_used := []; h_alive := true |}.

(* hash_fnv(): FNV-1a over the bytes, 32-bit arithmetic, then (h >> order) ^ h; the final
   "& ((1 << order) - 1)" is the [mod nb] of [bucket_ix] *)
Definition FNV_OFFSET : N := 2166136261.   (* 0x811c9dc5 *)
Definition fnv_fold (prime : N) (k : key) : N :=
  fold_left (fun h b => (N.lxor h b * prime) mod 4294967296)%N k FNV_OFFSET.
Definition hash_fnv_raw (prime : N) (order : nat) (k : key) : N :=
  let h := fnv_fold prime k in N.lxor (N.shiftr h (N.of_nat order)) h.

Section Hash.
Variable v : variant.
Variable hf : key -> N.

Definition nb (s : hstate) : nat := length (h_buckets s).
Definition bucket_ix (s : hstate) (k : key) : nat := N.to_nat (hf k mod N.of_nat (nb s)).
Definition bucket (s : hstate) (b : nat) : list nat := nth b (h_buckets s) [].

(* the test that makes a linked node eligible for lookup / put / rm: strcmp(...) == 0, and with the
   repair also !removed *)
Definition node_matches (n : hnode) (k : key) : bool :=
  (if fx_removed v then negb (hn_removed n) else true) && key_eqb (hn_key n) k.

(* the list walk of hashtable_lookup / hashtable_put / hashtable_rm_with_hash: first matching node *)
Fixpoint find_node (h : heap) (l : list nat) (k : key) : res (option nat) :=
  match l with
  | [] => Ok None
  | id :: t => do n <- deref h id; if node_matches n k then Ok (Some id) else find_node h t k
  end.

(* hashtable_notify: node callbacks, then global callbacks (with the FREE call after DELETED / REPLACED) *)
Definition call (s : nsub) (ev : N) (k : key) (old new : val) : notif :=
  {| n_fn := ns_fn s; n_ud := ns_ud s; n_event := ev; n_key := k; n_old := old; n_new := new |}.
Definition notify_node (subs : list nsub) (ev : N) (k : key) (old new : val) : list notif :=
  flat_map (fun s => if has_bit (ns_events s) ev then [call s ev k old new] else []) subs.
Definition notify_global (subs : list nsub) (ev : N) (k : key) (old new : val) : list notif :=
  flat_map (fun s => (if has_bit (ns_events s) ev then [call s ev k old new] else []) ++
                     (if (N.eqb ev EV_DELETED || N.eqb ev EV_REPLACED) && has_bit (ns_events s) EV_FREE
                      then [call s EV_FREE k old new] else [])) subs.
Definition h_notify (s : hstate) (n : hnode) (ev : N) (k : key) (old new : val) : list notif :=
  notify_node (hn_subs n) ev k old new ++ notify_global (h_subs s) ev k old new.

Definition set_heap (s : hstate) (h : heap) : hstate :=
  {| h_heap := h; h_buckets := h_buckets s; h_count := h_count s; h_subs := h_subs s;
     h_iters := h_iters s; h_used := h_used s; h_alive := h_alive s |}.
Definition set_buckets (s : hstate) (b : list (list nat)) : hstate :=
  {| h_heap := h_heap s; h_buckets := b; h_count := h_count s; h_subs := h_subs s;
     h_iters := h_iters s; h_used := h_used s; h_alive := h_alive s |}.
Definition set_count (s : hstate) (c : Z) : hstate :=
  {| h_heap := h_heap s; h_buckets := h_buckets s; h_count := c; h_subs := h_subs s;
     h_iters := h_iters s; h_used := h_used s; h_alive := h_alive s |}.
Definition set_subs (s : hstate) (x : list nsub) : hstate :=
  {| h_heap := h_heap s; h_buckets := h_buckets s; h_count := h_count s; h_subs := x;
     h_iters := h_iters s; h_used := h_used s; h_alive := h_alive s |}.
Definition set_iters (s : hstate) (x : list (nat * hiter)) : hstate :=
  {| h_heap := h_heap s; h_buckets := h_buckets s; h_count := h_count s; h_subs := h_subs s;
     h_iters := x; h_used := h_used s; h_alive := h_alive s |}.

Definition remove_id (id : nat) (l : list nat) : list nat := filter (fun x => negb (Nat.eqb x id)) l.

(* hashtable_node_destroy: DELETED notification, free the node's notifiers, qb_list_del, free *)
Definition node_destroy (s : hstate) (id : nat) (n : hnode) : hstate * list notif :=
  let ns := h_notify s n EV_DELETED (hn_key n) (hn_val n) 0%N in
  (set_heap (set_buckets s (map (remove_id id) (h_buckets s))) (free_cell (h_heap s) id), ns).

(* hashtable_node_deref *)
Definition node_deref (s : hstate) (id : nat) : res (hstate * list notif) :=
  do n <- deref (h_heap s) id;
  match hn_ref n with
  | O => Err (RefUnderflow id)
  | S r =>
    let n' := {| hn_key := hn_key n; hn_val := hn_val n; hn_ref := r; hn_removed := hn_removed n; hn_subs := hn_subs n |} in
    match r with
    | S _ => Ok (set_heap s (store (h_heap s) id n'), [])
    | O => Ok (node_destroy (set_heap s (store (h_heap s) id n')) id n')
    end
  end.

(* hashtable_get *)
Definition h_get (s : hstate) (k : key) : res val :=
  do r <- find_node (h_heap s) (bucket s (bucket_ix s k)) k;
  match r with
  | Some id => do n <- deref (h_heap s) id; Ok (hn_val n)
  | None => Ok 0%N
  end.

(* hashtable_rm -> hashtable_rm_with_hash *)
Definition h_rm (s : hstate) (k : key) : res (hstate * bool * list notif) :=
  do r <- find_node (h_heap s) (bucket s (bucket_ix s k)) k;
  match r with
  | Some id =>
    do n <- deref (h_heap s) id;
    let s1 := if fx_removed v
              then set_heap s (store (h_heap s) id {| hn_key := hn_key n; hn_val := hn_val n; hn_ref := hn_ref n;
                                                      hn_removed := true; hn_subs := hn_subs n |})
              else s in
    do '(s2, ns) <- node_deref s1 id;
    Ok (set_count s2 (wrap64 (h_count s2 - 1)), true, ns)
  | None => Ok (s, false, [])
  end.

(* hashtable_put *)
Definition h_put (s : hstate) (k : key) (x : val) : res (hstate * list notif) :=
  let b := bucket_ix s k in
  do r <- find_node (h_heap s) (bucket s b) k;
  match r with
  | None =>
    let n := {| hn_key := k; hn_val := x; hn_ref := 1; hn_removed := false; hn_subs := [] |} in
    let '(h', id) := alloc (h_heap s) n in
    let s1 := set_count (set_heap s h') (wrap64 (h_count s + 1)) in
    let s2 := set_buckets s1 (upd (h_buckets s1) b (bucket s1 b ++ [id])) in
    Ok (s2, h_notify s2 n EV_INSERTED k 0%N x)
  | Some id =>
    do n <- deref (h_heap s) id;
    let n' := {| hn_key := k; hn_val := x; hn_ref := hn_ref n; hn_removed := hn_removed n; hn_subs := hn_subs n |} in
    let s1 := set_heap s (store (h_heap s) id n') in
    Ok (s1, h_notify s1 n' EV_REPLACED (hn_key n) (hn_val n) x)
  end.

(* hashtable_notify_add behind qb_map_notify_add.  Return codes are passed in (regenerated constants). *)
Definition nsub_conflict (subs : list nsub) (fn ev ud : N) : bool :=
  existsb (fun f => (has_bit ev EV_FREE && N.eqb (ns_events f) ev) ||
                    (N.eqb (ns_events f) ev && N.eqb (ns_ud f) ud && N.eqb (ns_fn f) fn)) subs.
Definition nsub_insert (subs : list nsub) (f : nsub) : list nsub :=
  if has_bit (ns_events f) EV_FREE then subs ++ [f] else f :: subs.

Definition h_notify_add (rc_einval rc_enoent rc_eexist : Z) (s : hstate) (k : option key) (fn ev ud : N)
  : res (hstate * Z) :=
  let f := {| ns_fn := fn; ns_events := ev; ns_ud := ud |} in
  match k with
  | Some kk =>
    if has_bit ev EV_FREE then Ok (s, rc_einval) else     (* qb_map_notify_add *)
    do r <- find_node (h_heap s) (bucket s (bucket_ix s kk)) kk;
    match r with
    | None => Ok (s, rc_enoent)
    | Some id =>
      do n <- deref (h_heap s) id;
      if nsub_conflict (hn_subs n) fn ev ud then Ok (s, rc_eexist)
      else Ok (set_heap s (store (h_heap s) id {| hn_key := hn_key n; hn_val := hn_val n; hn_ref := hn_ref n;
                                                  hn_removed := hn_removed n; hn_subs := nsub_insert (hn_subs n) f |}), 0%Z)
    end
  | None =>
    if nsub_conflict (h_subs s) fn ev ud then Ok (s, rc_eexist)
    else Ok (set_subs s (nsub_insert (h_subs s) f), 0%Z)
  end.

(* hashtable_notify_del (cmp_userdata = Some ud for qb_map_notify_del_2) *)
Definition nsub_match (fn ev : N) (ud : option N) (f : nsub) : bool :=
  N.eqb (ns_events f) ev && N.eqb (ns_fn f) fn && match ud with None => true | Some u => N.eqb (ns_ud f) u end.

Definition h_notify_del (rc_enoent : Z) (s : hstate) (k : option key) (fn ev : N) (ud : option N)
  : res (hstate * Z) :=
  match k with
  | Some kk =>
    do r <- find_node (h_heap s) (bucket s (bucket_ix s kk)) kk;
    match r with
    | None => Ok (s, rc_enoent)
    | Some id =>
      do n <- deref (h_heap s) id;
      if existsb (nsub_match fn ev ud) (hn_subs n)
      then Ok (set_heap s (store (h_heap s) id {| hn_key := hn_key n; hn_val := hn_val n; hn_ref := hn_ref n;
                                                  hn_removed := hn_removed n;
                                                  hn_subs := filter (fun f => negb (nsub_match fn ev ud f)) (hn_subs n) |}), 0%Z)
      else Ok (s, rc_enoent)
    end
  | None =>
    if existsb (nsub_match fn ev ud) (h_subs s)
    then Ok (set_subs s (filter (fun f => negb (nsub_match fn ev ud f)) (h_subs s)), 0%Z)
    else Ok (s, rc_enoent)
  end.

(* ---- iterators ---- *)
(* the tail of a bucket list after node [id] (hi->node->list.next onwards) *)
Fixpoint after_id (id : nat) (l : list nat) : list nat :=
  match l with
  | [] => []
  | x :: t => if Nat.eqb x id then t else after_id id t
  end.

(* the inner qb_list_for_each_entry_from: first eligible node of a candidate list *)
Definition eligible (n : hnode) : bool :=
  if fx_removed v then negb (hn_removed n) else negb (Nat.eqb (hn_ref n) 0).
Fixpoint scan (h : heap) (l : list nat) : res (option nat) :=
  match l with
  | [] => Ok None
  | id :: t => do n <- deref h id; if eligible n then Ok (Some id) else scan h t
  end.

(* the outer for loop over buckets b .. nb-1; [cands] = candidate list of the first bucket;
   [rest] = the following buckets *)
Fixpoint scan_buckets (h : heap) (b : nat) (cands : list nat) (rest : list (list nat)) : res (option (nat * nat)) :=
  do r <- scan h cands;
  match r with
  | Some id => Ok (Some (id, b))
  | None => match rest with
            | [] => Ok None
            | l :: rest' => scan_buckets h (S b) l rest'
            end
  end.

(* hashtable_iter_next on iterator record [hi]; returns new state, new iterator record, result *)
Definition h_iter_next (s : hstate) (hi : hiter) : res (hstate * hiter * option (key * val) * list notif) :=
  let b0 := hi_bucket hi in
  do first <- match hi_node hi with
              | Some cur => do _ <- deref (h_heap s) cur; Ok (after_id cur (bucket s b0))   (* ln = &hi->node->list *)
              | None => Ok (bucket s b0)
              end;
  do found <- (if Nat.ltb b0 (nb s) then scan_buckets (h_heap s) b0 first (skipn (S b0) (h_buckets s)) else Ok None);
  (* found: refcount++, *value = hash_node->value *)
  do '(s1, fv) <- match found with
                  | Some (id, b) =>
                    do n <- deref (h_heap s) id;
                    Ok (set_heap s (store (h_heap s) id {| hn_key := hn_key n; hn_val := hn_val n; hn_ref := S (hn_ref n);
                                                          hn_removed := hn_removed n; hn_subs := hn_subs n |}), hn_val n)
                  | None => Ok (s, 0%N)
                  end;
  (* if (hi->node) hashtable_node_deref(hi->node) *)
  do '(s2, ns) <- match hi_node hi with
                  | Some cur => node_deref s1 cur
                  | None => Ok (s1, [])
                  end;
  match found with
  | None =>
    let hi' := if fx_iter_free v then {| hi_node := None; hi_bucket := nb s |} else hi in
    Ok (s2, hi', None, ns)
  | Some (id, b) =>
    do n <- deref (h_heap s2) id;                       (* return hash_node->key *)
    Ok (s2, {| hi_node := Some id; hi_bucket := b |}, Some (hn_key n, fv), ns)
  end.

(* hashtable_iter_free *)
Definition h_iter_free (s : hstate) (hi : hiter) : res (hstate * list notif) :=
  if fx_iter_free v then
    match hi_node hi with
    | Some cur => node_deref s cur
    | None => Ok (s, [])
    end
  else Ok (s, []).

Definition h_iter_create : hiter := {| hi_node := None; hi_bucket := 0 |}.

(* qb_map_foreach (map.c): create, next until NULL or the callback says stop, free *)
Fixpoint foreach_loop (fuel : nat) (s : hstate) (hi : hiter) (stop calls : nat) (acc : list (key * val)) (nacc : list notif)
  : res (hstate * hiter * list (key * val) * list notif) :=
  match fuel with
  | O => Err OutOfFuel
  | S fuel' =>
    do '(s1, hi1, r, ns) <- h_iter_next s hi;
    match r with
    | None => Ok (s1, hi1, rev acc, nacc ++ ns)
    | Some e =>
      let calls' := S calls in
      if negb (Nat.eqb stop 0) && Nat.leb stop calls' then Ok (s1, hi1, rev (e :: acc), nacc ++ ns)
      else foreach_loop fuel' s1 hi1 stop calls' (e :: acc) (nacc ++ ns)
    end
  end.

Definition h_foreach (s : hstate) (stop : nat) : res (hstate * list (key * val) * list notif) :=
  do '(s1, hi1, l, ns) <- foreach_loop (S (S (length (h_heap s)))) s h_iter_create stop 0 [] [];
  do '(s2, ns2) <- h_iter_free s1 hi1;
  Ok (s2, l, ns ++ ns2).

(* hashtable_destroy: every bucket, every node: deref, count-- ; then the global notifiers and the table *)
Fixpoint destroy_nodes (s : hstate) (l : list nat) : res (hstate * list notif) :=
  match l with
  | [] => Ok (s, [])
  | id :: t =>
    do '(s1, ns) <- node_deref s id;
    do '(s2, ns2) <- destroy_nodes (set_count s1 (wrap64 (h_count s1 - 1))) t;
    Ok (s2, ns ++ ns2)
  end.
Definition h_destroy (s : hstate) : res (hstate * list notif) :=
  do '(s1, ns) <- destroy_nodes s (concat (h_buckets s));
  Ok ({| h_heap := h_heap s1; h_buckets := h_buckets s1; h_count := h_count s1; h_subs := [];
         h_iters := []; h_used := h_used s1; h_alive := false |}, ns).

Fixpoint iter_lookup (l : list (nat * hiter)) (it : nat) : option hiter :=
  match l with
  | [] => None
  | (i, hi) :: t => if Nat.eqb i it then Some hi else iter_lookup t it
  end.
Definition iter_remove (l : list (nat * hiter)) (it : nat) : list (nat * hiter) :=
  filter (fun p => negb (Nat.eqb (fst p) it)) l.
Definition iter_set (l : list (nat * hiter)) (it : nat) (hi : hiter) : list (nat * hiter) :=
  map (fun p => if Nat.eqb (fst p) it then (it, hi) else p) l.

(* one API call.  rc = (EINVAL, ENOENT, EEXIST) as negative return codes *)
Definition h_step (rc : Z * Z * Z) (s : hstate) (o : op) : res (hstate * out * list notif) :=
  let '(rc_einval, rc_enoent, rc_eexist) := rc in
  if negb (h_alive s) then Ok (s, OIgnored, []) else
  match o with
  | Put k x => do '(s', ns) <- h_put s k x; Ok (s', ONone, ns)
  | Get k => do x <- h_get s k; Ok (s, OVal x, [])
  | Rm k => do '(s', b, ns) <- h_rm s k; Ok (s', OBool b, ns)
  | Count => Ok (s, OCount (Z.to_N (h_count s)), [])
  | Foreach stop => do '(s', l, ns) <- h_foreach s stop; Ok (s', OEntries l, ns)
  | NotifyAdd k fn ev ud => do '(s', r) <- h_notify_add rc_einval rc_enoent rc_eexist s k fn ev ud; Ok (s', ORc r, [])
  | NotifyDel k fn ev ud => do '(s', r) <- h_notify_del rc_enoent s k fn ev ud; Ok (s', ORc r, [])
  | Destroy => do '(s', ns) <- h_destroy s; Ok (s', ONone, ns)
  | IterCreate it _ =>
    if existsb (Nat.eqb it) (h_used s) then Ok (s, OIgnored, [])
    else Ok ({| h_heap := h_heap s; h_buckets := h_buckets s; h_count := h_count s; h_subs := h_subs s;
                h_iters := (it, h_iter_create) :: h_iters s; h_used := it :: h_used s; h_alive := true |}, ONone, [])
  | IterNext it =>
    match iter_lookup (h_iters s) it with
    | None => Ok (s, OIgnored, [])
    | Some hi =>
      do '(s1, hi1, r, ns) <- h_iter_next s hi;
      Ok (set_iters s1 (iter_set (h_iters s1) it hi1), ONext r, ns)
    end
  | IterFree it =>
    match iter_lookup (h_iters s) it with
    | None => Ok (s, OIgnored, [])
    | Some hi =>
      do '(s1, ns) <- h_iter_free s hi;
      Ok (set_iters s1 (iter_remove (h_iters s1) it), ONone, ns)
    end
  end.

(* a whole history: outputs and notifier calls per operation; stops at the first error *)
Fixpoint h_run (rc : Z * Z * Z) (s : hstate) (ops : list op) : list (out * list notif) * option error :=
  match ops with
  | [] => ([], None)
  | o :: t =>
    match h_step rc s o with
    | Err e => ([], Some e)
    | Ok (s', r, ns) => let '(l, e) := h_run rc s' t in ((r, ns) :: l, e)
    end
  end.

Fixpoint h_state_after (rc : Z * Z * Z) (s : hstate) (ops : list op) : res hstate :=
  match ops with
  | [] => Ok s
  | o :: t => do '(s', _, _) <- h_step rc s o; h_state_after rc s' t
  end.

End Hash.

(* ---- executable instance used by the correspondence check ---- *)
Require Import Verif.gen.Consts_map.
Definition rc_consts : Z * Z * Z := (- MAP_EINVAL, - MAP_ENOENT, - MAP_EEXIST)%Z.
Definition hash_exec_step (fixed : bool) (max_size : N) : hstate -> op -> res (hstate * out * list notif) :=
  h_step (if fixed then v_fixed else v_orig) (hash_fnv_raw (Z.to_N MAP_FNV_32_PRIME) (order_of max_size)) rc_consts.
