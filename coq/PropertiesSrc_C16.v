(* C16 - source-tie obligations.  gen/Src_logthr.v is regenerated from lib/log_thread.c by tools/c2coq.py on every run;
   these theorems state that the decision cores of the C16 models (LogThrModel.v) compute what the translated C
   functions compute.  Statements only, each closed by `exact'.
   Translated: qb_log_thread_log_post, qb_log_thread_pause, qb_log_thread_resume, qb_log_thread_start.
   Calls to qb_thread_lock / qb_thread_unlock / sem_post / qb_list_add_tail / qb_log_thread_log_write / malloc / strlen
   are oracle calls of the translation: the NUMBER of calls on each path is an output, their order is not expressed
   (the order is what the schedule-controlled correspondence run checks).
   OUTSIDE the translator's subset (reported in the evidence, covered by the correspondence runs only):
   qb_logt_worker_thread (backward `goto retry_sem_wait' inside the for(;;) loop; pthread_exit in the middle of the
   loop), qb_log_thread_stop (qb_list_first_entry expands to a GNU statement expression with typeof). *)
From Coq Require Import ZArith List Bool.
Import ListNotations.
Require Import Verif.gen.Consts_logthr Verif.gen.Src_logthr Verif.C2CoqPrelude Verif.LogThrModel Verif.LogThrSrcEq.
Local Open Scope Z_scope.

(* qb_log_thread_log_post with a logging thread and successful allocations: the new logt_memory_used and
   logt_dropped_messages are post_decide's (with the regenerated sizeof and the MEASURED limit: the proof only goes
   through when the literals of the C text equal them); the record is appended and the semaphore posted exactly when it is
   accepted; one lock and one unlock on every path; the caller writes nothing itself *)
Theorem C16_src_post : forall cs ts buffer km ka kw kl ku kp ks dropped used lockp om oa ow ol ou op os rb rc,
  lockp <> 0 -> 0 <= lockp ->
  0 < om km < 2 ^ 64 -> 0 < om (km + 1) < 2 ^ 64 ->
  0 <= os ks < 2 ^ 20 ->
  0 <= used <= LOGT_LIMIT -> 0 <= dropped < 2 ^ 31 - 1 ->
  match qb_log_thread_log_post cs ts buffer km ka kw kl ku kp ks dropped used lockp om oa ow ol ou op os rb rc with
  | (km', ka', kw', kl', ku', kp', ks', dropped', used', rb', rc') =>
      let '(m1, d1, acc) := post_decide used dropped (os ks) in
      used' = m1 /\ dropped' = d1 /\ ka' = ka + b2z acc /\ kp' = kp + b2z acc /\
      kl' = kl + 1 /\ ku' = ku + 1 /\ kw' = kw
  end.
Proof. exact src_post. Qed.
Print Assumptions C16_src_post.

(* ... and that is what the PLock step of the interleaving model computes *)
Theorem C16_model_plock_post_decide : forall b i sh gh p m sh' gh' p' l,
  p_pc p = PLock m -> prod_step b i sh gh p = Some (sh', gh', p', l) ->
  let '(m1, d1, acc) := post_decide (mem sh) (drop sh) (m_len m) in
  mem sh' = m1 /\ drop sh' = d1 /\ p_pc p' = PUnlock m acc /\
  q sh' = (if acc then q sh ++ [m] else q sh) /\ plog gh' = plog gh ++ [(m, acc, backlog (q sh))].
Proof. exact model_plock_post_decide. Qed.
Print Assumptions C16_model_plock_post_decide.

(* no logging thread (fixes/C16-1): the caller writes the message itself; no lock, no queue, no accounting *)
Theorem C16_src_post_no_thread : forall cs ts buffer km ka kw kl ku kp ks dropped used om oa ow ol ou op os rb rc,
  qb_log_thread_log_post cs ts buffer km ka kw kl ku kp ks dropped used 0 om oa ow ol ou op os rb rc =
  (km, ka, kw + 1, kl, ku, kp, ks, dropped, used, rb, rc).
Proof. exact src_post_no_thread. Qed.
Print Assumptions C16_src_post_no_thread.

(* qb_log_thread_pause / _resume lock / unlock exactly when the target is threaded and the lock exists, which is when
   the control-history model's pause_err consults the lock *)
Theorem C16_src_pause : forall t k lockp ol thr tg l,
  lock_ptr_of l lockp -> (thr <> 0 <-> t_thr tg = true) ->
  qb_log_thread_pause t k lockp ol thr = k + b2z (pause_takes_lock tg l).
Proof. exact src_pause. Qed.
Print Assumptions C16_src_pause.

Theorem C16_src_resume : forall t k lockp ou thr tg l,
  lock_ptr_of l lockp -> (thr <> 0 <-> t_thr tg = true) ->
  qb_log_thread_resume t k lockp ou thr = k + b2z (pause_takes_lock tg l).
Proof. exact src_resume. Qed.
Print Assumptions C16_src_resume.

Theorem C16_model_pause_err : forall s t,
  pause_err true s t = if pause_takes_lock t (k_lock s) then use_lock (k_lock s) else None.
Proof. exact model_pause_err. Qed.
Print Assumptions C16_model_pause_err.

(* qb_log_thread_start (lock creation and pthread_create succeed, no queued scheduling parameters) is the KStart step:
   same return code, same wthread_active / logt_wthread_lock (NULL or not), wthread_should_exit untouched, and a
   thread is created exactly when none was active *)
Theorem C16_src_start : forall s kc kq kl kp kw errno fn spq spp pol tidp lockp act sx oc oq ol op ow,
  k_err s = None -> active_of s act -> lock_ptr_of (k_lock s) lockp ->
  0 < ol kl < 2 ^ 64 -> oc kc = 0 -> spq = 0 ->
  match qb_log_thread_start kc kq kl kp kw errno fn spq spp pol tidp lockp act sx oc oq ol op ow,
        kstep true s KStart with
  | (rc, kc', kq', kl', kp', kw', errno', spq', lockp', act', sx'), (s', evs) =>
      evs = [EvRc rc] /\ active_of s' act' /\ lock_ptr_of (k_lock s') lockp' /\ sx' = sx /\
      kc' = kc + b2z (negb (k_active s))
  end.
Proof. exact src_start. Qed.
Print Assumptions C16_src_start.

(* non-vacuity: the translated code evaluated at the limit: 511951 bytes queued, a 0-byte message (49 bytes) is
   accepted, a 1-byte message is dropped *)
Example C16_src_example :
  let f len := qb_log_thread_log_post 1 2 3 0 0 0 0 0 0 0 0 (LOGT_LIMIT - LOGT_REC_SIZE - 1) 7 (fun _ => 8) (fun _ => 0)
                 (fun _ => 0) (fun _ => 0) (fun _ => 0) (fun _ => 0) (fun _ => len) 0 0 in
  f 0 = (2, 1, 0, 1, 1, 1, 1, 0, LOGT_LIMIT, 8, 1) /\ f 1 = (2, 0, 0, 1, 1, 0, 1, 1, LOGT_LIMIT - LOGT_REC_SIZE - 1, 8, 1).
Proof. vm_compute. split; reflexivity. Qed.
