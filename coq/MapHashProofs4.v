(* MapHashProofs4 - C18, last clause, for the pointer-level hashtable model (repaired variant):
   "once the iterators are gone the map again behaves exactly like a dictionary holding the surviving entries".
   Through ARBITRARY histories (iterators included) the table keeps, next to the memory invariant GoodP of
   MapHashProofs3, the dictionary side [GoodQ]: bucket placement, distinct keys among the entries that are not
   removed, count = number of such entries.  When no iterator is open, GoodP + GoodQ is the representation invariant
   [Good] of MapHashProofs2, from which C17's lock-step theorem with the dictionary specification starts. *)
From Coq Require Import List NArith ZArith Bool Arith Lia Permutation.
Require Import Verif.MapSpec Verif.MapHashModel Verif.MapRefModel Verif.MapRefProofs Verif.MapHashProofs2 Verif.MapHashProofs3.
Import ListNotations.

Section Q.
Variable hf : key -> N.

Definition is_live_id (h : heap) (id : nat) : bool := negb (re_removed (ent h id)).
Definition live_ids (s : hstate) : list nat := filter (is_live_id (h_heap s)) (linked s).
Definition key_of (h : heap) (id : nat) : key := re_key (ent h id).

Record GoodQ (s : hstate) : Prop := {
  q_nb : 0 < nb s;
  q_place : forall b id, In id (bucket s b) -> bix hf (nb s) (key_of (h_heap s) id) = b;
  q_keys : NoDup (map (key_of (h_heap s)) (live_ids s));
  q_count : h_count s = wrap64 (Z.of_nat (length (live_ids s)));
  q_alive : h_alive s = true
}.

(* with no iterator left, the two invariants are the representation invariant of the dictionary refinement *)
Lemma good_of_pq : forall s, h_iters s = [] -> GoodP s [] -> GoodQ s -> Good hf s.
Proof.
  intros s HI P Q.
  assert (ALL : forall id, In id (linked s) -> exists n, deref (h_heap s) id = Ok n /\ hn_ref n = 1 /\ hn_removed n = false).
  { intros id Hid. destruct (p_node _ _ P id Hid) as [n [N1 [N2 N3]]]. exists n. split; auto.
    unfold pcount in N2. simpl in N2. unfold base in N2. destruct (hn_removed n); [lia|]. split; [lia|auto]. }
  assert (LV : live_ids s = linked s).
  { unfold live_ids. apply filter_all_true. apply forallb_forall. intros id Hid. destruct (ALL id Hid) as [n [N1 [_ N3]]].
    unfold is_live_id. rewrite (deref_ent _ _ _ N1). simpl. rewrite N3. auto. }
  constructor.
  - apply (q_nb _ Q).
  - apply (p_nodup _ _ P).
  - intros b id Hid. destruct (ALL id (in_bucket_linked _ _ _ Hid)) as [n [N1 [N2 N3]]]. exists n. repeat split; auto.
    generalize (q_place _ Q b id Hid). unfold key_of. rewrite (deref_ent _ _ _ N1). auto.
  - generalize (q_keys _ Q). rewrite LV. auto.
  - rewrite (q_count _ Q), LV. auto.
  - exact HI.
  - apply (q_alive _ Q).
Qed.

(* ---------- how the primitive state changes act on GoodQ ---------- *)
(* a heap that differs from h only in fields that GoodQ does not look at, on the linked nodes *)
Definition same_view (s : hstate) (h' : heap) : Prop :=
  forall id, In id (linked s) -> key_of h' id = key_of (h_heap s) id /\ is_live_id h' id = is_live_id (h_heap s) id.

Lemma live_ids_same_view : forall s h', same_view s h' -> filter (is_live_id h') (linked s) = live_ids s.
Proof. intros. unfold live_ids. apply filter_ext_in'. intros. apply H; auto. Qed.

Lemma goodq_heap : forall s h', GoodQ s -> same_view s h' -> GoodQ (set_heap s h').
Proof.
  intros s h' Q V. constructor; simpl; try apply Q.
  - intros b id Hid. change (bucket (set_heap s h') b) with (bucket s b) in Hid. change (nb (set_heap s h')) with (nb s).
    destruct (V id (in_bucket_linked _ _ _ Hid)) as [V1 _]. rewrite V1. apply (q_place _ Q); auto.
  - unfold live_ids. simpl. change (linked (set_heap s h')) with (linked s). rewrite (live_ids_same_view s h' V).
    erewrite map_ext_in. apply (q_keys _ Q). intros id Hid. unfold live_ids in Hid. apply filter_In in Hid. destruct Hid. apply V; auto.
  - unfold live_ids. simpl. change (linked (set_heap s h')) with (linked s). rewrite (live_ids_same_view s h' V). apply (q_count _ Q).
Qed.

Lemma same_view_store : forall s id n n', deref (h_heap s) id = Ok n -> hn_key n' = hn_key n -> hn_removed n' = hn_removed n ->
  same_view s (store (h_heap s) id n').
Proof.
  intros s id n n' Hd Hk Hr x Hx. assert (Hlt : id < length (h_heap s)) by (eapply deref_lt; eauto).
  unfold key_of, is_live_id. rewrite ent_store by auto. destruct (Nat.eqb id x) eqn:E; auto.
  apply Nat.eqb_eq in E. subst x. rewrite (deref_ent _ _ _ Hd). simpl. rewrite Hk, Hr. auto.
Qed.

(* unlinking a removed node *)
Lemma goodq_unlink : forall s cur h', GoodQ s -> In cur (linked s) -> is_live_id (h_heap s) cur = false ->
  (forall x, x <> cur -> nth_error h' x = nth_error (h_heap s) x) ->
  GoodQ (set_heap (set_buckets s (map (remove_id cur) (h_buckets s))) h').
Proof.
  intros s cur h' Q Hin Hrm AG.
  assert (EN : forall x, x <> cur -> ent h' x = ent (h_heap s) x). { intros. unfold ent. rewrite AG; auto. }
  assert (LK : forall x, In x (concat (map (remove_id cur) (h_buckets s))) <-> In x (linked s) /\ x <> cur).
  { intros. unfold remove_id. rewrite concat_filter. rewrite filter_In. unfold linked. rewrite negb_true_iff, Nat.eqb_neq. tauto. }
  assert (LV : filter (is_live_id h') (concat (map (remove_id cur) (h_buckets s))) = live_ids s).
  { unfold remove_id. rewrite concat_filter. unfold live_ids, linked.
    rewrite (filter_ext_in' (is_live_id h') (is_live_id (h_heap s))).
    2:{ intros x Hx. apply filter_In in Hx. destruct Hx as [_ Hx]. apply negb_true_iff in Hx. apply Nat.eqb_neq in Hx.
        unfold is_live_id. rewrite EN; auto. }
    rewrite filter_filter_comm. apply filter_all_true. apply forallb_forall. intros x Hx. apply filter_In in Hx. destruct Hx as [_ Hx].
    apply negb_true_iff. apply Nat.eqb_neq. intro; subst. congruence. }
  constructor; simpl.
  - unfold nb. simpl. rewrite map_length. apply (q_nb _ Q).
  - intros b id Hid. unfold bucket in Hid. simpl in Hid. rewrite nth_map_remove in Hid. unfold remove_id in Hid. apply filter_In in Hid.
    destruct Hid as [H1 H2]. apply negb_true_iff in H2. apply Nat.eqb_neq in H2. unfold nb. simpl. rewrite map_length.
    unfold key_of. rewrite EN by auto. apply (q_place _ Q); auto.
  - unfold live_ids, linked. simpl. rewrite LV. erewrite map_ext_in. apply (q_keys _ Q).
    intros x Hx. unfold key_of. rewrite EN; auto. intro; subst. unfold live_ids in Hx. apply filter_In in Hx. destruct Hx. congruence.
  - unfold live_ids, linked. simpl. rewrite LV. apply (q_count _ Q).
  - apply (q_alive _ Q).
Qed.

(* hashtable_node_deref keeps GoodQ: either a store that changes only the count of references, or the unlinking
   of a node that is already marked removed *)
Lemma node_deref_q : forall s P hi cur s' ns, GoodP s (hi :: P) -> hi_node hi = Some cur -> GoodQ s ->
  node_deref s cur = Ok (s', ns) -> GoodQ s'.
Proof.
  intros s P hi cur s' ns G Hc Q.
  assert (Hb : In cur (bucket s (hi_bucket hi))) by (apply (p_iter _ _ G hi cur); auto; left; auto).
  assert (Hl : In cur (linked s)) by (eapply in_bucket_linked; eauto).
  destruct (p_node _ _ G cur Hl) as [n [N1 [N2 N3]]].
  rewrite pcount_cons in N2. unfold parked_on in N2. rewrite Hc, Nat.eqb_refl in N2.
  unfold node_deref. rewrite N1. simpl. destruct (hn_ref n) as [|r] eqn:R. lia. destruct r.
  - intro E. inversion E; subst. clear E.
    assert (B0 : hn_removed n = true). { unfold base in N2. destruct (hn_removed n); auto. lia. }
    apply (goodq_unlink s cur); auto.
    + unfold is_live_id. rewrite (deref_ent _ _ _ N1). simpl. rewrite B0. auto.
    + intros. rewrite nth_error_free_cell by auto. rewrite nth_error_store_other by auto. auto.
  - intro E. inversion E; subst. clear E. apply goodq_heap; auto. eapply same_view_store; eauto.
Qed.

Lemma goodq_ctl : forall s s', h_heap s' = h_heap s -> h_buckets s' = h_buckets s -> h_count s' = h_count s ->
  h_alive s' = h_alive s -> GoodQ s -> GoodQ s'.
Proof.
  intros s s' H1 H2 H3 H4 Q. destruct Q as [A B C D E]. unfold live_ids, linked, nb, bucket in *. constructor; unfold live_ids, linked, nb, bucket; rewrite ?H1, ?H2, ?H3, ?H4; auto.
Qed.

Lemma node_deref_count : forall s id s' ns, node_deref s id = Ok (s', ns) -> h_count s' = h_count s.
Proof.
  unfold node_deref. intros. destruct (deref (h_heap s) id); simpl in H; try discriminate.
  destruct (hn_ref a); try discriminate. destruct n; inversion H; reflexivity.
Qed.

Lemma node_deref_set_count : forall s c id,
  node_deref (set_count s c) id = match node_deref s id with Ok (s', ns) => Ok (set_count s' c, ns) | Err e => Err e end.
Proof.
  unfold node_deref. intros. simpl. destruct (deref (h_heap s) id); simpl; auto.
  destruct (hn_ref a); auto. destruct n; reflexivity.
Qed.

(* ---- iterator operations ---- *)
Lemma iter_next_q : forall s P hi s' hi' r ns, GoodP s (hi :: P) -> GoodQ s ->
  h_iter_next v_fixed s hi = Ok (s', hi', r, ns) -> GoodQ s'.
Proof.
  intros s P hi s' hi' r ns G Q E.
  destruct (iter_next_safe s P hi G) as [s0 [hi0 [r0 [ns0 [E0 [_ [_ [s1 [Pmid [S1 [G1 S2]]]]]]]]]]].
  rewrite E in E0. inversion E0; subst. clear E0.
  assert (Q1 : GoodQ s1).
  { destruct S1 as [S1|[id [n [I1 [I2 S1]]]]]; subst; auto. apply goodq_heap; auto. eapply same_view_store; eauto. }
  destruct (hi_node hi) as [cur|] eqn:Hc.
  - destruct S2 as [ns1 S2]. apply (node_deref_q s1 Pmid hi cur _ ns1 G1 Hc Q1 S2).
  - rewrite S2. exact Q1.
Qed.

Lemma iter_free_q : forall s P hi s' ns, GoodP s (hi :: P) -> GoodQ s -> h_iter_free v_fixed s hi = Ok (s', ns) -> GoodQ s'.
Proof.
  unfold h_iter_free. simpl. intros. destruct (hi_node hi) as [cur|] eqn:Hc.
  - eapply node_deref_q; eauto.
  - inversion H1; subst; auto.
Qed.

Lemma foreach_loop_q : forall fuel s P hi stop calls acc nacc s' hi' l ns, GoodP s (hi :: P) -> GoodQ s ->
  foreach_loop v_fixed fuel s hi stop calls acc nacc = Ok (s', hi', l, ns) -> GoodQ s' /\ GoodP s' (hi' :: P).
Proof.
  induction fuel; simpl; intros. discriminate.
  destruct (iter_next_safe s P hi H) as [s1 [hi1 [r [ns1 [E [G1 _]]]]]]. rewrite E in H1. simpl in H1.
  assert (Q1 : GoodQ s1) by (apply (iter_next_q s P hi s1 hi1 r ns1 H H0 E)).
  destruct r as [e|].
  - destruct (negb (Nat.eqb stop 0) && Nat.leb stop (S calls)).
    + inversion H1; subst. auto.
    + eapply IHfuel; eauto.
  - inversion H1; subst. auto.
Qed.

Lemma foreach_q : forall s P stop s' l ns, GoodP s P -> GoodQ s -> h_foreach v_fixed s stop = Ok (s', l, ns) -> GoodQ s'.
Proof.
  unfold h_foreach. intros.
  destruct (foreach_loop v_fixed (S (S (length (h_heap s)))) s h_iter_create stop 0 [] []) as [[[[s1 hi1] l1] ns1]|] eqn:E; simpl in H1; try discriminate.
  destruct (foreach_loop_q _ _ P _ _ _ _ _ _ _ _ _ (goodp_none_add s P 0 H) H0 E) as [Q1 G1].
  destruct (h_iter_free v_fixed s1 hi1) as [[s2 ns2]|] eqn:F; simpl in H1; try discriminate. inversion H1; subst.
  eapply iter_free_q; eauto.
Qed.

(* ---- put / rm / notify ---- *)
Lemma find_node_spec : forall h l k r, all_live h l -> find_node v_fixed h l k = Ok r ->
  match r with
  | Some id => In id l /\ exists n, deref h id = Ok n /\ hn_removed n = false /\ hn_key n = k
  | None => forall id, In id l -> exists n, deref h id = Ok n /\ (hn_removed n = true \/ hn_key n <> k)
  end.
Proof.
  induction l; simpl; intros k r AL E.
  - inversion E; subst. intros id [].
  - destruct (AL a) as [n N]. left; auto. rewrite N in E. simpl in E.
    destruct (node_matches v_fixed n k) eqn:M.
    + inversion E; subst. split; auto. exists n. unfold node_matches in M. simpl in M. apply andb_true_iff in M. destruct M as [M1 M2].
      apply negb_true_iff in M1. apply key_eqb_eq in M2. auto.
    + assert (AL' : all_live h l) by (intros id Hid; apply AL; right; auto).
      specialize (IHl k r AL' E). destruct r as [id|].
      * destruct IHl as [I1 I2]. split; auto.
      * intros id [Hid|Hid]; auto. subst. exists n. split; auto. unfold node_matches in M. simpl in M.
        apply andb_false_iff in M. destruct M as [M|M]. left. apply negb_false_iff in M. auto. right. apply key_eqb_neq. auto.
Qed.

Lemma bucket_all_live : forall s P b, GoodP s P -> all_live (h_heap s) (bucket s b).
Proof. intros s P b G id Hid. apply (goodp_all_live _ _ G). eapply in_bucket_linked; eauto. Qed.

Lemma is_live_deref : forall h id n, deref h id = Ok n -> is_live_id h id = negb (hn_removed n).
Proof. intros. unfold is_live_id. rewrite (deref_ent _ _ _ H). reflexivity. Qed.
Lemma key_of_deref : forall h id n, deref h id = Ok n -> key_of h id = hn_key n.
Proof. intros. unfold key_of. rewrite (deref_ent _ _ _ H). reflexivity. Qed.

Lemma put_q : forall s P k x s' ns, GoodP s P -> GoodQ s -> h_put v_fixed hf s k x = Ok (s', ns) -> GoodQ s'.
Proof.
  intros s P k x s' ns G Q. unfold h_put.
  destruct (find_node v_fixed (h_heap s) (bucket s (bucket_ix hf s k)) k) as [r|] eqn:F; simpl; [|intro; discriminate].
  generalize (find_node_spec _ _ _ _ (bucket_all_live s P _ G) F). destruct r as [id|].
  - intros [Hin [n [N1 [N2 N3]]]]. rewrite N1. simpl. intro E. inversion E; subst. clear E.
    apply goodq_heap; auto. eapply same_view_store; eauto.
  - intros NONE E. inversion E; subst. clear E.
    set (b := bucket_ix hf s k). assert (Hb : b < nb s) by (apply bix_lt; apply (q_nb _ Q)).
    set (id := length (h_heap s)).
    set (n := {| hn_key := k; hn_val := x; hn_ref := 1; hn_removed := false; hn_subs := [] |}).
    set (h' := h_heap s ++ [{| c_live := true; c_node := n |}]).
    assert (FR : forall y, In y (linked s) -> y < id).
    { intros y Hy. destruct (p_node _ _ G y Hy) as [m [M1 _]]. eapply deref_lt; eauto. }
    assert (EN : forall y, In y (linked s) -> ent h' y = ent (h_heap s) y) by (intros; apply ent_app; apply FR; auto).
    assert (EI : ent h' id = mk_ent id n) by apply ent_app_new.
    assert (LKD : concat (upd (h_buckets s) b (nth b (h_buckets s) [] ++ [id])) =
                  (concat (firstn b (h_buckets s)) ++ nth b (h_buckets s) []) ++ id :: concat (skipn (S b) (h_buckets s)))
      by (apply linked_put_new; auto).
    assert (LS : linked s = (concat (firstn b (h_buckets s)) ++ nth b (h_buckets s) []) ++ concat (skipn (S b) (h_buckets s))).
    { unfold linked. rewrite (concat_split (h_buckets s) b) at 1 by exact Hb. rewrite app_assoc. auto. }
    set (la := concat (firstn b (h_buckets s)) ++ nth b (h_buckets s) []) in *.
    set (lz := concat (skipn (S b) (h_buckets s))) in *.
    assert (LV : filter (is_live_id h') (la ++ id :: lz) = filter (is_live_id (h_heap s)) la ++ id :: filter (is_live_id (h_heap s)) lz).
    { rewrite filter_app. simpl. unfold is_live_id at 2. rewrite EI. simpl. f_equal.
      - apply filter_ext_in'. intros y Hy. unfold is_live_id. rewrite EN; auto. rewrite LS. apply in_or_app; auto.
      - f_equal. apply filter_ext_in'. intros y Hy. unfold is_live_id. rewrite EN; auto. rewrite LS. apply in_or_app; auto. }
    assert (LV0 : live_ids s = filter (is_live_id (h_heap s)) la ++ filter (is_live_id (h_heap s)) lz).
    { unfold live_ids. rewrite LS. apply filter_app. }
    (* no live entry has the key k *)
    assert (NK : forall y, In y (live_ids s) -> key_of (h_heap s) y <> k).
    { intros y Hy Ky. unfold live_ids in Hy. apply filter_In in Hy. destruct Hy as [Hy1 Hy2].
      apply linked_bucket in Hy1. destruct Hy1 as [b1 Hy1]. generalize (q_place _ Q b1 y Hy1). rewrite Ky. intro Bq.
      assert (b1 = b) by (unfold b, bucket_ix, bix in *; lia). subst b1.
      destruct (NONE y Hy1) as [m [M1 [M2|M2]]].
      - rewrite (is_live_deref _ _ _ M1), M2 in Hy2. discriminate.
      - rewrite (key_of_deref _ _ _ M1) in Ky. contradiction. }
    constructor; simpl.
    + unfold nb. simpl. rewrite upd_length. apply (q_nb _ Q).
    + intros b1 y Hy. unfold bucket in Hy. simpl in Hy. fold b in Hy. fold id in Hy. unfold nb. simpl. rewrite upd_length. fold (nb s).
      rewrite nth_upd in Hy. unfold bucket in Hy. simpl in Hy.
      destruct (Nat.eqb b b1 && Nat.ltb b (length (h_buckets s))) eqn:E1.
      * apply andb_true_iff in E1. destruct E1 as [E1 _]. apply Nat.eqb_eq in E1. subst b1. apply in_app_or in Hy. destruct Hy as [Hy|[Hy|[]]].
        { unfold key_of. fold h'. rewrite EN. apply (q_place _ Q); auto. eapply in_bucket_linked; eauto. }
        { subst y. unfold key_of. fold h'. fold id. rewrite EI. simpl. reflexivity. }
      * unfold key_of. fold h'. rewrite EN. apply (q_place _ Q); auto. eapply in_bucket_linked; eauto.
    + unfold live_ids, linked, bucket. simpl. fold b. fold id. fold h'. rewrite LKD, LV.
      rewrite map_app. simpl. apply (Permutation_NoDup (l := key_of h' id :: map (key_of h') (filter (is_live_id (h_heap s)) la) ++ map (key_of h') (filter (is_live_id (h_heap s)) lz))).
      apply Permutation_middle.
      constructor.
      * unfold key_of at 1. rewrite EI. simpl. rewrite <- map_app, <- LV0. intro Q1. apply in_map_iff in Q1. destruct Q1 as [y [Y1 Y2]].
        apply (NK y Y2). rewrite <- Y1. unfold key_of. rewrite EN; auto. unfold live_ids in Y2. apply filter_In in Y2. apply Y2.
      * rewrite <- map_app, <- LV0. erewrite map_ext_in. apply (q_keys _ Q). intros y Hy. unfold key_of. rewrite EN; auto.
        unfold live_ids in Hy. apply filter_In in Hy. apply Hy.
    + rewrite (q_count _ Q), wrap64_succ, LV0. f_equal. unfold live_ids, linked, bucket. simpl. fold b. fold id. fold h'. rewrite LKD, LV.
      rewrite !app_length. simpl. lia.
    + apply (q_alive _ Q).
Qed.

Lemma filter_remove_len : forall (l : list nat) id, NoDup l -> In id l -> S (length (filter (fun x => negb (Nat.eqb x id)) l)) = length l.
Proof. intros. apply (remove_id_length l id); auto. Qed.

Lemma rm_q : forall s P k s' b ns, GoodP s P -> GoodQ s -> h_rm v_fixed hf s k = Ok (s', b, ns) -> GoodQ s'.
Proof.
  intros s P k s' bb ns G Q. unfold h_rm. set (b := bucket_ix hf s k).
  destruct (find_node v_fixed (h_heap s) (bucket s b) k) as [r|] eqn:F; simpl; [|intro; discriminate].
  generalize (find_node_spec _ _ _ _ (bucket_all_live s P _ G) F). destruct r as [id|].
  2:{ intros _ E. inversion E; subst. auto. }
  intros [Hin [n [N1 [N2 N3]]]]. rewrite N1. simpl.
  assert (Hl : In id (linked s)) by (eapply in_bucket_linked; eauto).
  assert (Hlt : id < length (h_heap s)) by (eapply deref_lt; eauto).
  set (n1 := {| hn_key := hn_key n; hn_val := hn_val n; hn_ref := hn_ref n; hn_removed := true; hn_subs := hn_subs n |}).
  set (s1 := set_heap s (store (h_heap s) id n1)).
  destruct (node_deref s1 id) as [[s2 ns2]|] eqn:ND; simpl; [|intro; discriminate].
  intro E. inversion E; subst. clear E.
  set (c := wrap64 (h_count s - 1)).
  assert (HC : h_count s2 = h_count s) by (rewrite (node_deref_count _ _ _ _ ND); reflexivity).
  rewrite HC. fold c.
  (* the marked state with the decremented count satisfies GoodQ; the presence reference acts as one more iterator *)
  assert (EN : forall y, y <> id -> ent (store (h_heap s) id n1) y = ent (h_heap s) y).
  { intros. rewrite ent_store by auto. replace (Nat.eqb id y) with false; auto. symmetry. apply Nat.eqb_neq. auto. }
  assert (EI : ent (store (h_heap s) id n1) id = mk_ent id n1). { rewrite ent_store by auto. rewrite Nat.eqb_refl. auto. }
  assert (LV : live_ids s1 = filter (fun x => negb (Nat.eqb x id)) (live_ids s)).
  { unfold live_ids. change (linked s1) with (linked s). rewrite filter_filter_comm.
    rewrite <- (filter_filter_and (fun x => negb (Nat.eqb x id)) (is_live_id (h_heap s)) (is_live_id (h_heap s1))).
    - rewrite filter_filter_comm. reflexivity.
    - intros y. unfold is_live_id, s1. cbn [h_heap set_heap]. destruct (Nat.eqb y id) eqn:E1.
      + apply Nat.eqb_eq in E1. subst y. rewrite EI. simpl. rewrite andb_false_r. reflexivity.
      + apply Nat.eqb_neq in E1. rewrite EN by auto. simpl. rewrite andb_true_r. reflexivity. }
  assert (LI : In id (live_ids s)).
  { unfold live_ids. apply filter_In. split; auto. rewrite (is_live_deref _ _ _ N1), N2. auto. }
  assert (Q1 : GoodQ (set_count s1 c)).
  { constructor; simpl.
    - apply (q_nb _ Q).
    - intros b1 y Hy. change (bucket (set_count s1 c) b1) with (bucket s b1) in Hy. change (nb (set_count s1 c)) with (nb s).
      unfold key_of. destruct (Nat.eq_dec y id).
      + subst y. rewrite EI. simpl. generalize (q_place _ Q b1 id Hy). rewrite (key_of_deref _ _ _ N1). auto.
      + rewrite EN by auto. apply (q_place _ Q); auto.
    - change (live_ids (set_count s1 c)) with (live_ids s1). rewrite LV.
      erewrite map_ext_in. apply (nodup_map_filter (key_of (h_heap s))). apply (q_keys _ Q).
      intros y Hy. apply filter_In in Hy. destruct Hy as [_ Hy]. apply negb_true_iff in Hy. apply Nat.eqb_neq in Hy.
      unfold key_of. rewrite EN; auto.
    - change (live_ids (set_count s1 c)) with (live_ids s1). rewrite LV. unfold c. rewrite (q_count _ Q), wrap64_pred. f_equal.
      assert (ND1 : NoDup (live_ids s)) by (unfold live_ids; apply NoDup_filter; apply (p_nodup _ _ G)).
      generalize (filter_remove_len (live_ids s) id ND1 LI). lia.
    - apply (q_alive _ Q). }
  assert (G1 : GoodP (set_count s1 c) ({| hi_node := Some id; hi_bucket := b |} :: P)).
  { apply (goodp_ctl s1); auto. constructor; simpl.
    - apply (p_nodup _ _ G).
    - intros y Hy. change (In y (linked s)) in Hy. unfold s1. simpl. rewrite deref_store by auto. rewrite pcount_cons. unfold parked_on. simpl.
      destruct (p_node _ _ G y Hy) as [m [M1 [M2 M3]]]. destruct (Nat.eqb id y) eqn:E1.
      + apply Nat.eqb_eq in E1. subst y. rewrite N1 in M1. inversion M1; subst m. exists n1. split; auto.
        unfold base in *. simpl. rewrite N2 in M2. split; auto; try lia.
      + exists m. auto.
    - intros hi y [Hhi|Hhi] Hn. subst hi. simpl in *. inversion Hn; subst. exact Hin. apply (p_iter _ _ G hi y Hhi Hn). }
  assert (ND2 : node_deref (set_count s1 c) id = Ok (set_count s2 c, ns)).
  { rewrite node_deref_set_count, ND. reflexivity. }
  apply (node_deref_q (set_count s1 c) P _ id _ ns G1 eq_refl Q1 ND2).
Qed.

Lemma notify_add_q : forall e1 e2 e3 s P k fn ev ud s' z, GoodP s P -> GoodQ s ->
  h_notify_add v_fixed hf e1 e2 e3 s k fn ev ud = Ok (s', z) -> GoodQ s'.
Proof.
  intros e1 e2 e3 s P k fn ev ud s' z G Q. unfold h_notify_add. destruct k as [kk|].
  - destruct (has_bit ev EV_FREE). { intro E; inversion E; subst; auto. }
    destruct (find_node v_fixed (h_heap s) (bucket s (bucket_ix hf s kk)) kk) as [r|] eqn:F; simpl; [|intro; discriminate].
    generalize (find_node_spec _ _ _ _ (bucket_all_live s P _ G) F). destruct r as [id|].
    2:{ intros _ E; inversion E; subst; auto. }
    intros [Hin [n [N1 [N2 N3]]]]. rewrite N1. simpl.
    destruct (nsub_conflict (hn_subs n) fn ev ud); intro E; inversion E; subst; auto.
    apply goodq_heap; auto. eapply same_view_store; eauto.
  - destruct (nsub_conflict (h_subs s) fn ev ud); intro E; inversion E; subst; auto.
    apply (goodq_ctl s); try reflexivity; auto.
Qed.

Lemma notify_del_q : forall e2 s P k fn ev ud s' z, GoodP s P -> GoodQ s ->
  h_notify_del v_fixed hf e2 s k fn ev ud = Ok (s', z) -> GoodQ s'.
Proof.
  intros e2 s P k fn ev ud s' z G Q. unfold h_notify_del. destruct k as [kk|].
  - destruct (find_node v_fixed (h_heap s) (bucket s (bucket_ix hf s kk)) kk) as [r|] eqn:F; simpl; [|intro; discriminate].
    generalize (find_node_spec _ _ _ _ (bucket_all_live s P _ G) F). destruct r as [id|].
    2:{ intros _ E; inversion E; subst; auto. }
    intros [Hin [n [N1 [N2 N3]]]]. rewrite N1. simpl.
    destruct (existsb (nsub_match fn ev ud) (hn_subs n)); intro E; inversion E; subst; auto.
    apply goodq_heap; auto. eapply same_view_store; eauto.
  - destruct (existsb (nsub_match fn ev ud) (h_subs s)); intro E; inversion E; subst; auto.
    apply (goodq_ctl s); try reflexivity; auto.
Qed.

(* ---- one API call, any operation ---- *)
Lemma top_split : forall s it hi, Top s -> iter_lookup (h_iters s) it = Some hi ->
  exists Prest, GoodP s (hi :: Prest).
Proof.
  intros s it hi T L. destruct (iter_split _ _ _ L) as [l1 [l2 [Q1 Q2]]].
  exists (map snd l1 ++ map snd l2). eapply goodp_perm. 2: apply (t_good _ T).
  unfold its. rewrite Q1, map_app. simpl. apply Permutation_sym. apply Permutation_middle.
Qed.

Lemma step_q_core : forall rc s o s' x ns, Top s -> GoodQ s ->
  h_step v_fixed hf rc s o = Ok (s', x, ns) -> h_alive s' = true -> GoodQ s'.
Proof.
  intros rc s o s' x ns T Q. destruct rc as [[e1 e2] e3]. unfold h_step. rewrite (q_alive _ Q). simpl.
  destruct o.
  - destruct (h_put v_fixed hf s k v) as [[s1 ns1]|] eqn:E; simpl; intros H A; inversion H; subst. eapply (put_q s (its s)); [apply (t_good _ T)|exact Q|exact E].
  - destruct (h_get v_fixed hf s k); simpl; intros H A; inversion H; subst; auto.
  - destruct (h_rm v_fixed hf s k) as [[[s1 b1] ns1]|] eqn:E; simpl; intros H A; inversion H; subst. eapply (rm_q s (its s)); [apply (t_good _ T)|exact Q|exact E].
  - intros H A; inversion H; subst; auto.
  - destruct (h_foreach v_fixed s stop) as [[[s1 l1] ns1]|] eqn:E; simpl; intros H A; inversion H; subst. eapply (foreach_q s (its s)); [apply (t_good _ T)|exact Q|exact E].
  - destruct (h_notify_add v_fixed hf e1 e2 e3 s k fn ev ud) as [[s1 z]|] eqn:E; simpl; intros H A; inversion H; subst.
    eapply (notify_add_q e1 e2 e3 s (its s)); [apply (t_good _ T)|exact Q|exact E].
  - destruct (h_notify_del v_fixed hf e2 s k fn ev ud) as [[s1 z]|] eqn:E; simpl; intros H A; inversion H; subst.
    eapply (notify_del_q e2 s (its s)); [apply (t_good _ T)|exact Q|exact E].
  - unfold h_destroy. destruct (destroy_nodes s (concat (h_buckets s))) as [[s1 ns1]|]; simpl; intros H A; inversion H; subst. simpl in A. discriminate.
  - destruct (existsb (Nat.eqb it) (h_used s)); intros H A; inversion H; subst; auto.
    apply (goodq_ctl s); try reflexivity; auto. simpl. symmetry. apply (q_alive _ Q).
  - destruct (iter_lookup (h_iters s) it) as [hi|] eqn:L. 2:{ intros H A; inversion H; subst; auto. }
    destruct (top_split s it hi T L) as [Prest G].
    destruct (h_iter_next v_fixed s hi) as [[[[s1 hi1] r] ns1]|] eqn:E; simpl; intros H A; inversion H; subst.
    apply (goodq_ctl s1); try reflexivity. apply (iter_next_q s Prest hi s1 hi1 r ns G Q E).
  - destruct (iter_lookup (h_iters s) it) as [hi|] eqn:L. 2:{ intros H A; inversion H; subst; auto. }
    destruct (top_split s it hi T L) as [Prest G].
    destruct (h_iter_free v_fixed s hi) as [[s1 ns1]|] eqn:E; simpl; intros H A; inversion H; subst.
    apply (goodq_ctl s1); try reflexivity. apply (iter_free_q s Prest hi s1 ns G Q E).
Qed.

Definition TopQ (s : hstate) : Prop := h_alive s = false \/ (Top s /\ GoodQ s).

Theorem hash_step_q : forall rc s o s' x ns, TopQ s -> h_step v_fixed hf rc s o = Ok (s', x, ns) -> TopQ s'.
Proof.
  intros rc s o s' x ns [D|[T Q]] H.
  - unfold h_step in H. destruct rc as [[e1 e2] e3]. rewrite D in H. simpl in H. inversion H; subst. left; auto.
  - destruct (hash_step_total hf rc s o (or_intror T)) as [s0 [x0 [ns0 [E TI]]]]. rewrite H in E. inversion E; subst.
    destruct (h_alive s0) eqn:A. 2:{ left; auto. }
    right. destruct TI as [TI|TI]. congruence. split; auto. eapply step_q_core; [exact T|exact Q|exact H|exact A].
Qed.

Lemma topq_create : forall m, TopQ (h_create m).
Proof.
  intros. right. split.
  - destruct (top_create m) as [D|T]; auto. discriminate.
  - destruct (good_create hf m) as [G _]. assert (L : linked (h_create m) = []) by (unfold linked, h_create; simpl; apply concat_repeat_nil).
    constructor; simpl.
    + apply (g_nb _ _ G).
    + intros b id Hid. exfalso. assert (In id (linked (h_create m))) by (eapply in_bucket_linked; eauto). rewrite L in H. contradiction.
    + unfold live_ids. rewrite L. constructor.
    + unfold live_ids. rewrite L. reflexivity.
    + reflexivity.
Qed.

Theorem hash_topq_after : forall rc ops s s', TopQ s -> h_state_after v_fixed hf rc s ops = Ok s' -> TopQ s'.
Proof.
  induction ops; simpl; intros. inversion H0; subst; auto.
  destruct (h_step v_fixed hf rc s a) as [[[s1 x] ns]|] eqn:E; simpl in H0; try discriminate.
  eapply IHops. 2: exact H0. eapply hash_step_q; eauto.
Qed.

(* C18, last clause: after ANY history, once no iterator is open (all freed), the table satisfies the representation
   invariant from which the dictionary lock-step theorem (C17) starts: it is a dictionary of the surviving entries *)
Theorem hash_survivors_good : forall rc m ops s,
  h_state_after v_fixed hf rc (h_create m) ops = Ok s -> h_iters s = [] -> h_alive s = true -> Good hf s.
Proof.
  intros. destruct (hash_topq_after rc ops (h_create m) s (topq_create m) H) as [D|[T Q]]. congruence.
  apply good_of_pq; auto. generalize (t_good _ T). unfold its. rewrite H0. auto.
Qed.
End Q.

(* ---------- a specification state for a well-formed table: the dictionary of its entries ---------- *)
Definition spec_of (r : rstate) : sstate :=
  {| s_dict := map kv (r_ents r);
     s_subs := flat_map (fun e => map (tag (Some (re_key e))) (re_subs e)) (r_ents r) ++ map (tag None) (r_subs r);
     s_alive := r_alive r |}.

Lemma d_get_map_kv : forall ents k, forallb is_live ents = true ->
  d_get (map kv ents) k = option_map re_val (find_live ents k).
Proof.
  unfold find_live. induction ents; simpl; intros; auto. apply andb_true_iff in H. destruct H as [H1 H2].
  rewrite H1. simpl. destruct (key_eqb (re_key a) k); auto.
Qed.

Lemma filter_none_tagged : forall (p : sub -> bool) k l, (forall f, p (tag k f) = false) -> filter p (map (tag k) l) = [].
Proof. induction l; simpl; intros; auto. rewrite H. auto. Qed.
Lemma filter_all_tagged : forall (p : sub -> bool) k l, (forall f, p (tag k f) = true) -> filter p (map (tag k) l) = map (tag k) l.
Proof. induction l; simpl; intros; auto. rewrite H. rewrite IHl; auto. Qed.

Lemma filter_flat_tagged_none : forall (p : sub -> bool) ents,
  (forall e f, In e ents -> p (tag (Some (re_key e)) f) = false) ->
  filter p (flat_map (fun e => map (tag (Some (re_key e))) (re_subs e)) ents) = [].
Proof.
  induction ents; simpl; intros; auto. rewrite filter_app. rewrite filter_none_tagged by (intros; apply H; auto).
  simpl. apply IHents. intros. apply H; auto.
Qed.

Lemma ksubs_spec_of : forall ents e, NoDup (map re_key ents) -> In e ents ->
  filter (targets (re_key e)) (flat_map (fun e0 => map (tag (Some (re_key e0))) (re_subs e0)) ents) = map (tag (Some (re_key e))) (re_subs e).
Proof.
  induction ents; simpl; intros. contradiction. inversion H; subst. rewrite filter_app. destruct H0.
  - subst a. rewrite filter_all_tagged by (intros; unfold targets, tag; simpl; apply key_eqb_refl).
    rewrite filter_flat_tagged_none. apply app_nil_r.
    intros e0 f He0. unfold targets, tag. simpl. apply key_eqb_neq. intro Q. apply H3. rewrite <- Q. apply in_map; auto.
  - rewrite filter_none_tagged. simpl. apply IHents; auto.
    intros f. unfold targets, tag. simpl. apply key_eqb_neq. intro Q. apply H3. rewrite Q. apply in_map; auto.
Qed.

Lemma inv17_spec_of : forall r,
  r_iters r = [] -> forallb is_live (r_ents r) = true -> (forall e, In e (r_ents r) -> re_id e < r_next r) ->
  NoDup (map re_id (r_ents r)) -> NoDup (map re_key (r_ents r)) -> Inv17 r (spec_of r).
Proof.
  intros r HI HL HID ND NK. constructor; simpl; auto.
  - intros. apply d_get_map_kv; auto.
  - rewrite map_map. simpl. exact NK.
  - apply map_length.
  - rewrite filter_app. rewrite filter_flat_tagged_none by (intros; reflexivity). simpl.
    apply filter_all_tagged. intros; reflexivity.
  - intros e He. rewrite filter_app. rewrite ksubs_spec_of by auto.
    rewrite filter_none_tagged by (intros; reflexivity). apply app_nil_r.
  - intros s k Hs Hk. apply in_app_or in Hs. destruct Hs as [Hs|Hs].
    + apply in_flat_map in Hs. destruct Hs as [e [He Hs]]. apply in_map_iff in Hs. destruct Hs as [f [Hf _]]. subst s. simpl in Hk.
      inversion Hk; subst. unfold d_mem. rewrite d_get_map_kv by auto.
      destruct (find_live (r_ents r) (re_key e)) eqn:F; auto. exfalso. eapply find_live_none; eauto. eapply forallb_forall in HL; eauto.
    + apply in_map_iff in Hs. destruct Hs as [f [Hf _]]. subst s. discriminate.
Qed.

Section Survivors.
Variable hf : key -> N.

Lemma inv17_abs : forall s, Good hf s -> Inv17 (abs s) (spec_of (abs s)).
Proof.
  intros. apply inv17_spec_of; simpl; auto.
  - apply all_live_abs with (hf := hf); auto.
  - intros e He. apply in_map_iff in He. destruct He as [id [E1 E2]]. subst e. rewrite ent_id. eapply linked_lt; eauto.
  - rewrite map_map. erewrite map_ext. 2:{ intros. apply ent_id. } rewrite map_id. apply (g_nodup _ _ H).
  - rewrite map_map. apply (g_keys _ _ H).
Qed.

(* C18, last clause, pointer-level hashtable model: after ANY history (iterators created, stepped, abandoned, entries
   removed and added under them), once all iterators have been freed the table is again a dictionary of the surviving
   entries: from the specification state whose dictionary is exactly the table's live entries (key, value) and whose
   subscriptions are the table's, every further iterator-free history runs in lock step with the specification *)
Theorem hash_c18_survivors : forall rc m ops1 s,
  h_state_after v_fixed hf rc (h_create m) ops1 = Ok s -> h_iters s = [] -> h_alive s = true ->
  s_dict (spec_of (abs s)) = live_kv (abs s) /\
  forall ops2, no_iter_ops ops2 = true -> b_lockstep hf rc s (spec_of (abs s)) ops2.
Proof.
  intros. assert (G : Good hf s) by (eapply hash_survivors_good; eauto). split.
  - unfold live_kv. rewrite (live_abs hf) by auto. reflexivity.
  - intros. apply hash_c17_from; auto. apply inv17_abs; auto.
Qed.
End Survivors.
