(* C16, interleaving model: proofs for every schedule.  Part 2: FIFO / exactly once, accounting of the backlog
   limit and of the "messages lost" reports, per-producer order.  These invariants hold for the code as found
   as well (any value of `fixed'). *)
From Coq Require Import ZArith List Bool Lia Sorted.
Import ListNotations.
Require Import Verif.gen.Consts_logthr Verif.LogThrModel Verif.LogThrProofs2.
Local Open Scope Z_scope.

Fixpoint zsum (l : list Z) : Z := match l with [] => 0 | x :: r => x + zsum r end.
Lemma zsum_app : forall a b, zsum (a ++ b) = zsum a + zsum b.
Proof. induction a; intros; cbn; [reflexivity|]. rewrite IHa. lia. Qed.
Lemma backlog_app : forall a b, backlog (a ++ b) = backlog a + backlog b.
Proof. induction a; intros; cbn; [reflexivity|]. rewrite IHa. lia. Qed.

Definition decision_ok (x : msg * bool * Z) : Prop :=
  snd (fst x) = negb (LOGT_LIMIT <? snd x + msg_total (fst (fst x))).

Record Inv2 (sh : shared) (gh : ghost) (w : wpc) : Prop := {
  f_fifo : accepted gh = popped gh ++ inflight w ++ q sh;
  f_mem : mem sh = backlog (q sh);
  f_drop : zsum (reported gh) + drop sh = Z.of_nat (length (dropped gh));
  f_dec : Forall decision_ok (plog gh)
}.

Lemma accepted_add : forall g m a b, accepted (add_plog g (m, a, b)) = if a then accepted g ++ [m] else accepted g.
Proof. intros. unfold accepted, add_plog. cbn [plog]. rewrite filter_app, map_app. cbn. destruct a; cbn; [reflexivity|apply app_nil_r]. Qed.
Lemma dropped_add : forall g m a b, dropped (add_plog g (m, a, b)) = if a then dropped g else dropped g ++ [m].
Proof. intros. unfold dropped, add_plog. cbn [plog]. rewrite filter_app, map_app. cbn. destruct a; cbn; [apply app_nil_r|reflexivity]. Qed.

Lemma inv2_frame : forall sh gh w sh' gh' w',
  Inv2 sh gh w -> q sh' = q sh -> mem sh' = mem sh -> drop sh' = drop sh ->
  plog gh' = plog gh -> out gh' = out gh -> reported gh' = reported gh -> inflight w' = inflight w -> Inv2 sh' gh' w'.
Proof.
  intros sh gh w sh' gh' w' [A B C D] Q M Dr P O R W.
  constructor; unfold accepted, popped, dropped in *; rewrite ?Q, ?M, ?Dr, ?P, ?O, ?R, ?W; assumption.
Qed.

Lemma prod_inv2 : forall b i sh gh p w sh' gh' p' l, Inv2 sh gh w ->
  prod_step b i sh gh p = Some (sh', gh', p', l) -> Inv2 sh' gh' w.
Proof.
  intros b i sh gh p w sh' gh' p' l I H. unfold prod_step in H. destruct (p_pc p).
  - destruct (p_prog p); [discriminate|].
    destruct (negb b && inlog sh); [|destruct (en sh)]; injection H as <- <- <- <-; eapply inv2_frame; try exact I; reflexivity.
  - destruct (lock_free sh); [|discriminate]. destruct I as [A B C D].
    destruct (LOGT_LIMIT <? mem sh + msg_total m) eqn:LT; injection H as <- <- <- <-.
    + constructor; cbn [q mem drop set_lk set_drop].
      * rewrite accepted_add. exact A.
      * exact B.
      * rewrite dropped_add, app_length. cbn [length reported add_plog]. lia.
      * cbn [plog add_plog]. apply Forall_app. split; [exact D|]. constructor; [|constructor].
        unfold decision_ok. cbn [fst snd]. rewrite <- B, LT. reflexivity.
    + constructor; cbn [q mem drop set_lk set_q set_mem].
      * rewrite accepted_add, A. unfold popped. cbn [out add_plog]. rewrite <- !app_assoc. reflexivity.
      * rewrite backlog_app. cbn [backlog]. lia.
      * rewrite dropped_add. cbn [reported add_plog]. exact C.
      * cbn [plog add_plog]. apply Forall_app. split; [exact D|]. constructor; [|constructor].
        unfold decision_ok. cbn [fst snd]. rewrite <- B, LT. reflexivity.
  - destruct acc; injection H as <- <- <- <-; eapply inv2_frame; try exact I; reflexivity.
  - injection H as <- <- <- <-; eapply inv2_frame; try exact I; reflexivity.
Qed.

Lemma pop_inv2 : forall sh gh w sh' gh' w', Inv2 sh gh w -> inflight w = [] ->
  pop_section sh gh = (sh', gh', w') -> Inv2 sh' gh' w'.
Proof.
  intros sh gh w sh' gh' w' [A B C D] W H. unfold pop_section in H. rewrite W in A. cbn [app] in A.
  destruct (q sh) as [|m r] eqn:Q.
  - injection H as <- <- <-. constructor; unfold accepted, popped, dropped in *; cbn [plog out reported set_err inflight app];
      rewrite ?Q; assumption.
  - assert (X : forall g, plog g = plog gh -> out g = out gh -> accepted g = popped g ++ [m] ++ r).
    { intros g P O. unfold accepted, popped in *. rewrite P, O. exact A. }
    assert (Y : forall g, plog g = plog gh -> out g = out gh ++ [(m, false)] -> accepted g = popped g ++ [] ++ r).
    { intros g P O. unfold accepted, popped in *. rewrite P, O, map_app, <- app_assoc. exact A. }
    cbn [backlog] in B.
    destruct (drop sh =? 0) eqn:DZ; destruct (en sh); injection H as <- <- <-;
      (constructor; cbn [inflight q mem drop set_q set_mem set_drop];
       [ first [apply X; reflexivity | apply Y; reflexivity]
       | lia
       | unfold dropped in *; cbn [plog reported add_out add_reported]; rewrite ?zsum_app; cbn [zsum];
         try (apply Z.eqb_eq in DZ); lia
       | exact D ]).
Qed.

Lemma worker_inv2 : forall b sh gh w sh' gh' w' l, Inv2 sh gh w ->
  worker_step b sh gh w = Some (sh', gh', w', l) -> Inv2 sh' gh' w'.
Proof.
  intros b sh gh w sh' gh' w' l I H. unfold worker_step in H. destruct w.
  - destruct (0 <? sem sh); [|discriminate]. injection H as <- <- <- <-. eapply inv2_frame; try exact I; reflexivity.
  - destruct (lock_free sh); [|discriminate].
    assert (I1 : Inv2 (set_lk sh (Some HWorker)) gh WLock) by (eapply inv2_frame; try exact I; reflexivity).
    destruct b.
    + destruct (flag sh && is_nil (q sh)).
      * injection H as <- <- <- <-. eapply inv2_frame; try exact I; reflexivity.
      * destruct (pop_section (set_lk sh (Some HWorker)) gh) as [[sh2 gh2] c] eqn:E. injection H as <- <- <- <-.
        eapply pop_inv2; [exact I1|reflexivity|exact E].
    + destruct (flag sh).
      * injection H as <- <- <- <-. eapply inv2_frame; try exact I; reflexivity.
      * destruct (pop_section (set_lk sh (Some HWorker)) gh) as [[sh2 gh2] c] eqn:E. injection H as <- <- <- <-.
        eapply pop_inv2; [exact I1|reflexivity|exact E].
  - destruct (sem sh =? 0).
    + injection H as <- <- <- <-. eapply inv2_frame; try exact I; reflexivity.
    + destruct (pop_section sh gh) as [[sh2 gh2] c] eqn:E. injection H as <- <- <- <-.
      eapply pop_inv2; [exact I|reflexivity|exact E].
  - injection H as <- <- <- <-. destruct I as [A B C D].
    constructor; unfold accepted, popped, dropped in *; cbn [plog out reported add_out inflight app]; try assumption.
    rewrite map_app, <- app_assoc. exact A.
  - injection H as <- <- <- <-. eapply inv2_frame; try exact I; reflexivity.
  - injection H as <- <- <- <-. eapply inv2_frame; try exact I; reflexivity.
  - injection H as <- <- <- <-. eapply inv2_frame; try exact I; reflexivity.
  - discriminate.
Qed.

Lemma close_cb_frame : forall sh gh w sh2 gh2, close_cb sh gh w = (sh2, gh2) ->
  q sh2 = q sh /\ mem sh2 = mem sh /\ drop sh2 = drop sh /\ plog gh2 = plog gh /\ out gh2 = out gh /\ reported gh2 = reported gh.
Proof. intros sh gh w sh2 gh2 H. unfold close_cb in H. destruct (in_write w); injection H as <- <-; repeat split. Qed.

Lemma main_inv2 : forall b s s' l, Inv2 (c_sh s) (c_gh s) (c_w s) -> main_step b s = Some (s', l) ->
  Inv2 (c_sh s') (c_gh s') (c_w s').
Proof.
  intros b s s' l I H. unfold main_step in H.
  destruct (c_m s).
  - destruct (c_mprog s) as [|[bb| |] rest]; [discriminate| | |].
    + destruct (closed (c_sh s)); injection H as <- <-; exact I.
    + destruct (closed (c_sh s)); [injection H as <- <-; exact I|].
      destruct b; [injection H as <- <-; exact I|].
      destruct (close_cb (c_sh s) (c_gh s) (c_w s)) as [sh1 gh1] eqn:E. injection H as <- <-.
      destruct (close_cb_frame _ _ _ _ _ E) as (A1 & A2 & A3 & A4 & A5 & A6).
      eapply inv2_frame; try exact I; cbn; auto.
    + destruct (c_prods s); injection H as <- <-; exact I.
  - destruct (lock_free (c_sh s)); [|discriminate]. destruct b0.
    + injection H as <- <-. eapply inv2_frame; try exact I; reflexivity.
    + destruct (en (c_sh s)).
      * destruct (close_cb _ (c_gh s) (c_w s)) as [sh1 gh1] eqn:E. injection H as <- <-.
        destruct (close_cb_frame _ _ _ _ _ E) as (A1 & A2 & A3 & A4 & A5 & A6).
        eapply inv2_frame; try exact I; cbn; auto.
      * injection H as <- <-. eapply inv2_frame; try exact I; reflexivity.
  - destruct (lock_free (c_sh s)); [|discriminate].
    destruct (close_cb _ (c_gh s) (c_w s)) as [sh1 gh1] eqn:E. injection H as <- <-.
    destruct (close_cb_frame _ _ _ _ _ E) as (A1 & A2 & A3 & A4 & A5 & A6).
    eapply inv2_frame; try exact I; cbn; auto.
  - injection H as <- <-. eapply inv2_frame; try exact I; reflexivity.
  - destruct (nth_done (c_prods s) k); [|discriminate]. injection H as <- <-. exact I.
  - destruct (lock_free (c_sh s)); [|discriminate]. injection H as <- <-. eapply inv2_frame; try exact I; reflexivity.
  - injection H as <- <-. eapply inv2_frame; try exact I; reflexivity.
  - injection H as <- <-. eapply inv2_frame; try exact I; reflexivity.
  - destruct (c_w s) eqn:W; try discriminate. destruct (en (c_sh s)).
    + destruct (close_cb _ (c_gh s) WDone) as [sh1 gh1] eqn:E. injection H as <- <-.
      destruct (close_cb_frame _ _ _ _ _ E) as (A1 & A2 & A3 & A4 & A5 & A6).
      cbn [c_sh c_gh c_w]. eapply inv2_frame; try exact I; cbn; auto.
    + injection H as <- <-. cbn [c_sh c_gh c_w]. eapply inv2_frame; try exact I; cbn; auto.
Qed.

Lemma inv2_step : forall b s tid, Inv2 (c_sh s) (c_gh s) (c_w s) ->
  let s' := cstep' b s tid in Inv2 (c_sh s') (c_gh s') (c_w s').
Proof.
  intros b s tid I. unfold cstep', cstep. destruct tid as [|[|i]].
  - destruct (main_step b s) as [[s' l]|] eqn:E; [|exact I]. eapply main_inv2; eassumption.
  - destruct (worker_step b (c_sh s) (c_gh s) (c_w s)) as [[[[sh gh] w] l]|] eqn:E; [|exact I].
    cbn. eapply worker_inv2; eassumption.
  - destruct (nth_error (c_prods s) i) as [p|] eqn:Hn; [|exact I].
    destruct (prod_step b i (c_sh s) (c_gh s) p) as [[[[sh gh] p'] l]|] eqn:E; [|exact I].
    cbn. eapply prod_inv2; eassumption.
Qed.

Lemma inv2_exec : forall b sched s, Inv2 (c_sh s) (c_gh s) (c_w s) ->
  let s' := exec b sched s in Inv2 (c_sh s') (c_gh s') (c_w s').
Proof. induction sched as [|t r IH]; intros s I; [exact I|]. cbn. apply IH. apply inv2_step. exact I. Qed.

Lemma inv2_reach : forall b mprog progs sched, let s := exec b sched (cinit mprog progs) in Inv2 (c_sh s) (c_gh s) (c_w s).
Proof. intros. apply inv2_exec. constructor; cbn; auto. Qed.

(* ------------------------------------------------------------------------------------------
   Per-producer order: the records of producer i enter the queue in the order of its log calls, each at most once *)
Definition tid_seqs (i : nat) (g : ghost) : list nat :=
  map m_seq (filter (fun m => Nat.eqb (m_tid m) i) (map (fun x => fst (fst x)) (plog g))).

Definition pbound (p : prod) : nat := match p_pc p with PLock m => m_seq m | _ => p_seq p end.

Definition prod_ok (i : nat) (g : ghost) (p : prod) : Prop :=
  match p_pc p with PLock m => m_tid m = i /\ S (m_seq m) = p_seq p | _ => True end /\
  (forall x, In x (tid_seqs i g) -> (x < pbound p)%nat) /\
  StronglySorted lt (tid_seqs i g).

Definition Inv3 (prods : list prod) (g : ghost) : Prop := forall i p, nth_error prods i = Some p -> prod_ok i g p.

Lemma tid_seqs_add : forall i g m a b,
  tid_seqs i (add_plog g (m, a, b)) = if Nat.eqb (m_tid m) i then tid_seqs i g ++ [m_seq m] else tid_seqs i g.
Proof.
  intros. unfold tid_seqs, add_plog. cbn [plog]. rewrite map_app, filter_app, map_app. cbn.
  destruct (Nat.eqb (m_tid m) i); cbn; [reflexivity|apply app_nil_r].
Qed.

Lemma sorted_snoc : forall l a, StronglySorted lt l -> (forall x, In x l -> (x < a)%nat) -> StronglySorted lt (l ++ [a]).
Proof.
  induction l as [|h r IH]; intros a S H; cbn.
  - constructor; constructor.
  - inversion S as [|? ? S1 F1]; subst. constructor.
    + apply IH; [exact S1|]. intros x Hx. apply H. right. exact Hx.
    + apply Forall_app. split; [exact F1|]. constructor; [|constructor]. apply H. left. reflexivity.
Qed.

Lemma prod_ok_plog : forall i g g' p, plog g' = plog g -> prod_ok i g p -> prod_ok i g' p.
Proof. intros i g g' p E H. unfold prod_ok, tid_seqs in *. rewrite E. exact H. Qed.

Lemma prod_inv3 : forall b prods i sh gh p sh' gh' p' l, Inv3 prods gh -> nth_error prods i = Some p ->
  prod_step b i sh gh p = Some (sh', gh', p', l) -> Inv3 (upd_prod prods i p') gh'.
Proof.
  intros b prods i sh gh p sh' gh' p' l I Hn H.
  pose proof (I i p Hn) as (O1 & O2 & O3).
  assert (OTH : forall g2, (forall j, j <> i -> tid_seqs j g2 = tid_seqs j gh) -> prod_ok i g2 p' ->
                Inv3 (upd_prod prods i p') g2).
  { intros g2 E P j pj Hj. destruct (Nat.eq_dec i j) as [<-|Ne].
    - rewrite (nth_upd_same _ _ _ _ Hn) in Hj. injection Hj as <-. exact P.
    - rewrite nth_upd_other in Hj by exact Ne. pose proof (I j pj Hj) as Q. unfold prod_ok in *.
      rewrite (E j) by congruence. exact Q. }
  unfold prod_step in H. destruct (p_pc p) eqn:PC.
  - destruct (p_prog p) as [|len rest]; [discriminate|]. unfold pbound in O2. rewrite PC in O2.
    destruct (negb b && inlog sh); [|destruct (en sh)]; injection H as <- <- <- <-; apply OTH; try (intros; reflexivity);
      unfold prod_ok, pbound; cbn [p_pc p_seq m_tid m_seq]; (split; [auto|split; [|exact O3]]);
      intros x Hx; specialize (O2 x Hx); lia.
  - destruct (lock_free sh); [|discriminate]. destruct O1 as [T1 T2]. unfold pbound in O2. rewrite PC in O2.
    destruct (LOGT_LIMIT <? mem sh + msg_total m); injection H as <- <- <- <-; apply OTH.
    + intros j Hj. rewrite tid_seqs_add, T1. destruct (Nat.eqb i j) eqn:E; [apply Nat.eqb_eq in E; congruence|reflexivity].
    + unfold prod_ok, pbound, at_ppc. cbn [p_pc p_seq]. rewrite tid_seqs_add, T1, Nat.eqb_refl. split; [exact Logic.I|].
      split; [|apply sorted_snoc; assumption].
      intros x Hx. apply in_app_or in Hx. destruct Hx as [Hx|[<-|[]]]; [specialize (O2 x Hx)|]; lia.
    + intros j Hj. rewrite tid_seqs_add, T1. destruct (Nat.eqb i j) eqn:E; [apply Nat.eqb_eq in E; congruence|reflexivity].
    + unfold prod_ok, pbound, at_ppc. cbn [p_pc p_seq]. rewrite tid_seqs_add, T1, Nat.eqb_refl. split; [exact Logic.I|].
      split; [|apply sorted_snoc; assumption].
      intros x Hx. apply in_app_or in Hx. destruct Hx as [Hx|[<-|[]]]; [specialize (O2 x Hx)|]; lia.
  - unfold pbound in O2. rewrite PC in O2.
    destruct acc; injection H as <- <- <- <-; apply OTH; try (intros; reflexivity);
      unfold prod_ok, pbound, at_ppc; cbn [p_pc p_seq]; (split; [exact Logic.I|split; [exact O2|exact O3]]).
  - unfold pbound in O2. rewrite PC in O2.
    injection H as <- <- <- <-; apply OTH; try (intros; reflexivity);
      unfold prod_ok, pbound, at_ppc; cbn [p_pc p_seq]; (split; [exact Logic.I|split; [exact O2|exact O3]]).
Qed.

Lemma worker_plog : forall b sh gh w sh' gh' w' l, worker_step b sh gh w = Some (sh', gh', w', l) -> plog gh' = plog gh.
Proof.
  intros b sh gh w sh' gh' w' l H.
  assert (P : forall s g s2 g2 c, pop_section s g = (s2, g2, c) -> plog g2 = plog g).
  { intros s g s2 g2 c E. unfold pop_section in E. destruct (q s); [injection E as <- <- <-; reflexivity|].
    destruct (drop s =? 0); destruct (en s); injection E as <- <- <-; reflexivity. }
  unfold worker_step in H. destruct w; try discriminate.
  - destruct (0 <? sem sh); [|discriminate]. injection H as <- <- <- <-. reflexivity.
  - destruct (lock_free sh); [|discriminate]. destruct b.
    + destruct (flag sh && is_nil (q sh)); [injection H as <- <- <- <-; reflexivity|].
      destruct (pop_section _ gh) as [[s2 g2] c] eqn:E. injection H as <- <- <- <-. eapply P; eassumption.
    + destruct (flag sh); [injection H as <- <- <- <-; reflexivity|].
      destruct (pop_section _ gh) as [[s2 g2] c] eqn:E. injection H as <- <- <- <-. eapply P; eassumption.
  - destruct (sem sh =? 0); [injection H as <- <- <- <-; reflexivity|].
    destruct (pop_section _ gh) as [[s2 g2] c] eqn:E. injection H as <- <- <- <-. eapply P; eassumption.
  - injection H as <- <- <- <-. reflexivity.
  - injection H as <- <- <- <-. reflexivity.
  - injection H as <- <- <- <-. reflexivity.
  - injection H as <- <- <- <-. reflexivity.
Qed.

Lemma main_plog : forall b s s' l, main_step b s = Some (s', l) -> plog (c_gh s') = plog (c_gh s) /\ c_prods s' = c_prods s.
Proof.
  intros b s s' l H. unfold main_step in H.
  assert (C : forall sh gh w sh2 gh2, close_cb sh gh w = (sh2, gh2) -> plog gh2 = plog gh).
  { intros sh gh w sh2 gh2 E. unfold close_cb in E. destruct (in_write w); injection E as <- <-; reflexivity. }
  destruct (c_m s).
  - destruct (c_mprog s) as [|[bb| |] rest]; [discriminate| | |].
    + destruct (closed (c_sh s)); injection H as <- <-; auto.
    + destruct (closed (c_sh s)); [injection H as <- <-; auto|]. destruct b; [injection H as <- <-; auto|].
      destruct (close_cb (c_sh s) (c_gh s) (c_w s)) as [sh1 gh1] eqn:E. injection H as <- <-. cbn. split; [eapply C; eassumption|reflexivity].
    + destruct (c_prods s); injection H as <- <-; auto.
  - destruct (lock_free (c_sh s)); [|discriminate]. destruct b0; [injection H as <- <-; auto|].
    destruct (en (c_sh s)); [|injection H as <- <-; auto].
    destruct (close_cb _ (c_gh s) (c_w s)) as [sh1 gh1] eqn:E. injection H as <- <-. cbn. split; [eapply C; eassumption|reflexivity].
  - destruct (lock_free (c_sh s)); [|discriminate].
    destruct (close_cb _ (c_gh s) (c_w s)) as [sh1 gh1] eqn:E. injection H as <- <-. cbn. split; [eapply C; eassumption|reflexivity].
  - injection H as <- <-; auto.
  - destruct (nth_done (c_prods s) k); [|discriminate]. injection H as <- <-; auto.
  - destruct (lock_free (c_sh s)); [|discriminate]. injection H as <- <-; auto.
  - injection H as <- <-; auto.
  - injection H as <- <-; auto.
  - destruct (c_w s); try discriminate. destruct (en (c_sh s)).
    + destruct (close_cb _ (c_gh s) WDone) as [sh1 gh1] eqn:E. injection H as <- <-. cbn. split; [eapply C; eassumption|reflexivity].
    + injection H as <- <-; auto.
Qed.

Lemma inv3_step : forall b s tid, Inv3 (c_prods s) (c_gh s) -> let s' := cstep' b s tid in Inv3 (c_prods s') (c_gh s').
Proof.
  intros b s tid I. unfold cstep', cstep. destruct tid as [|[|i]].
  - destruct (main_step b s) as [[s' l]|] eqn:E; [|exact I]. destruct (main_plog _ _ _ _ E) as [P Q]. cbv zeta.
    rewrite Q. intros i p Hn. eapply prod_ok_plog; [exact P|]. exact (I i p Hn).
  - destruct (worker_step b (c_sh s) (c_gh s) (c_w s)) as [[[[sh gh] w] l]|] eqn:E; [|exact I].
    cbn. intros i p Hn. eapply prod_ok_plog; [exact (worker_plog _ _ _ _ _ _ _ _ E)|]. exact (I i p Hn).
  - destruct (nth_error (c_prods s) i) as [p|] eqn:Hn; [|exact I].
    destruct (prod_step b i (c_sh s) (c_gh s) p) as [[[[sh gh] p'] l]|] eqn:E; [|exact I].
    cbn. eapply prod_inv3; eassumption.
Qed.

Lemma inv3_exec : forall b sched s, Inv3 (c_prods s) (c_gh s) -> let s' := exec b sched s in Inv3 (c_prods s') (c_gh s').
Proof. induction sched as [|t r IH]; intros s I; [exact I|]. cbn. apply IH. apply inv3_step. exact I. Qed.

Lemma inv3_init : forall mprog progs, Inv3 (c_prods (cinit mprog progs)) (c_gh (cinit mprog progs)).
Proof.
  intros mprog progs i p Hn. cbn in Hn. apply nth_error_In in Hn. apply in_map_iff in Hn. destruct Hn as (x & <- & _).
  unfold prod_ok, tid_seqs. cbn. repeat split; [intros x0 []|constructor].
Qed.

(* ------------------------------------------------------------------------------------------ the statements *)

(* C16_order_once, for ALL control programs, producer programs and schedules (repaired code) *)
Lemma conc_order_once : forall mprog progs sched, let s := exec true sched (cinit mprog progs) in
  c_error s = false /\
  accepted (c_gh s) = popped (c_gh s) ++ inflight (c_w s) ++ q (c_sh s) /\
  (forall i p, nth_error (c_prods s) i = Some p -> StronglySorted lt (tid_seqs i (c_gh s))) /\
  zsum (reported (c_gh s)) + drop (c_sh s) = Z.of_nat (length (dropped (c_gh s))) /\
  Forall decision_ok (plog (c_gh s)) /\ mem (c_sh s) = backlog (q (c_sh s)).
Proof.
  intros mprog progs sched s. pose proof (inv2_reach true mprog progs sched) as [A B C D]. fold s in A, B, C, D.
  split; [apply conc_no_error|]. split; [exact A|]. split.
  - intros i p Hn. pose proof (inv3_exec true sched (cinit mprog progs) (inv3_init mprog progs)) as I3.
    exact (proj2 (proj2 (I3 i p Hn))).
  - auto.
Qed.

(* C16_fini_complete: when qb_log_fini has returned, everything accepted has been taken off the queue by the worker,
   nothing is queued or in flight, and everything dropped has been reported or is in the counter *)
Lemma conc_fini_complete : forall mprog progs sched, let s := exec true sched (cinit mprog progs) in
  stopped (c_gh s) = true ->
  popped (c_gh s) = accepted (c_gh s) /\ q (c_sh s) = [] /\ c_w s = WDone /\ mem (c_sh s) = 0.
Proof.
  intros mprog progs sched s H. destruct (conc_stop_drained mprog progs sched H) as (W & Q & _). fold s in W, Q.
  pose proof (inv2_reach true mprog progs sched) as [A B _ _]. fold s in A, B.
  rewrite W, Q in A. cbn in A. rewrite app_nil_r in A. rewrite Q in B. auto.
Qed.

(* the code as found satisfies the FIFO / accounting part too (the defect is in shutdown and in close) *)
Lemma conc_fifo_any_code : forall b mprog progs sched, let s := exec b sched (cinit mprog progs) in
  accepted (c_gh s) = popped (c_gh s) ++ inflight (c_w s) ++ q (c_sh s).
Proof. intros. apply (f_fifo _ _ _ (inv2_reach b mprog progs sched)). Qed.

Lemma written_sub_popped : forall g, written g = map fst (filter snd (out g)).
Proof. reflexivity. Qed.

(* fini_complete refuted for the code as found *)
Lemma conc_fini_complete_refuted : exists mprog progs sched, let s := exec false sched (cinit mprog progs) in
  stopped (c_gh s) = true /\ c_error s = false /\ popped (c_gh s) <> accepted (c_gh s) /\ q (c_sh s) <> [].
Proof. exists lost_mprog, lost_progs, lost_sched. vm_compute. repeat split; discriminate. Qed.

Lemma conc_close_safe_refuted : exists mprog progs sched, c_error (exec false sched (cinit mprog progs)) = true.
Proof. exists cdw_mprog, cdw_progs, cdw_sched. vm_compute. reflexivity. Qed.

(* the process-wide in_logger guard of the code as found: with two producers a log call can vanish without being
   counted anywhere *)
Definition guard_progs : list (list Z) := [[20]; [30]].
Definition guard_sched : list nat := [2; 3; 2; 2; 2; 1; 1; 1; 1; 0; 0; 0; 0; 0; 0; 1; 1; 1; 1; 1; 0]%nat.
Lemma conc_guard_loss : let s := exec false guard_sched (cinit [MStop] guard_progs) in
  stopped (c_gh s) = true /\ c_error s = false /\ length (guarded (c_gh s)) = 1%nat /\
  length (plog (c_gh s)) = 1%nat /\ length (written (c_gh s)) = 1%nat /\ reported (c_gh s) = [] /\ drop (c_sh s) = 0.
Proof. vm_compute. repeat split. Qed.
