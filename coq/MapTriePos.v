(* C18 trie part, positions: path order and key order agree; what lies after a position. *)
From Coq Require Import List ZArith Bool Arith Lia.
Import ListNotations.
Require Import Verif.gen.Consts_trie Verif.MapTrieModel Verif.MapTrieProofs Verif.MapTrieProofs2 Verif.MapTrieIter
               Verif.MapTrieIter2 Verif.MapTrieIter5 Verif.MapTrieOrder Verif.MapTrieKeys Verif.MapTrieDestroy1.

(* strings grow along the traversal order *)
Lemma before_klt : forall p q n tp tq, get_at n p = Some tp -> get_at n q = Some tq -> before p q ->
  klt (qstr n p) (qstr n q).
Proof.
  induction p; intros q n tp tq Gp Gq B; destruct q as [|jq q']; simpl in B; try contradiction.
  - simpl. apply klt_prefix.
  - simpl in Gp, Gq. simpl qstr. apply klt_pre.
    destruct B as [B|[E B]].
    + simpl. left. rewrite !c2i_i2c. exact B.
    + subst jq. simpl. right. split; auto.
      destruct (fget (t_ch n) a) as [c|]; [|discriminate]. eapply IHp; eauto.
Qed.

Lemma before_total : forall p q, p = q \/ before p q \/ before q p.
Proof.
  induction p; destruct q as [|jq q']; simpl; auto.
  destruct (Nat.lt_trichotomy a jq) as [H|[H|H]].
  - right. right. left. exact H.
  - subst jq. destruct (IHp q') as [E|[E|E]].
    + left. congruence.
    + right. left. right. auto.
    + right. right. right. auto.
  - right. left. left. exact H.
Qed.

(* and conversely *)
Lemma klt_before : forall p q n tp tq, get_at n p = Some tp -> get_at n q = Some tq ->
  klt (qstr n p) (qstr n q) -> before p q.
Proof.
  intros p q n tp tq Gp Gq K. destruct (before_total p q) as [E|[E|E]]; auto.
  - subst q. exfalso. apply (klt_irrefl _ K).
  - exfalso. apply (klt_asym _ _ K). eapply before_klt; eauto.
Qed.

(* a present node after the position is in the after-list *)
Lemma in_after : (forall t rel q tq, get_at t q = Some tq -> alive tq = true -> before rel q -> In (t_info tq) (after_t t rel)) /\
                 (forall f j rel jq q' c tq, fget f jq = Some c -> get_at c q' = Some tq -> alive tq = true ->
                    jq < j \/ (j = jq /\ before rel q') -> In (t_info tq) (after_f f j rel)).
Proof.
  apply tnode_forest_ind.
  - intros i s f IH rel q tq G A B. destruct rel as [|j rel']; destruct q as [|jq q']; simpl in B; try contradiction.
    + cbn [after_t]. change (al_f f) with (al_t (TN i s f)). apply in_al with (p := jq :: q'); auto. discriminate.
    + cbn [after_t]. simpl in G. destruct (fget f jq) as [c|] eqn:F; [|discriminate].
      eapply IH; eauto.
  - intros. discriminate.
  - intros f IH j rel jq q' c tq F G A B. destruct jq as [|jq']; simpl in F; [discriminate|].
    destruct j as [|j']; [destruct B as [B|[B _]]; lia|]. cbn [after_f]. rewrite app_nil_r.
    eapply IH; eauto. destruct B as [B|[E B]]; [left; lia|right; split; auto; lia].
  - intros t f IHt IHf j rel jq q' c tq F G A B. destruct j as [|j']; cbn [after_f].
    + destruct B as [B|[E B]]; [lia|]. subst jq. simpl in F. inversion F; subst c. eapply IHt; eauto.
    + apply in_or_app. destruct jq as [|jq']; simpl in F.
      * inversion F; subst c. right. destruct q' as [|j2 q2].
        -- simpl in G. inversion G; subst tq. rewrite A. simpl. auto.
        -- apply in_or_app. right. apply in_al with (p := j2 :: q2); auto. discriminate.
      * left. eapply IHf; eauto. destruct B as [B|[E B]]; [left; lia|right; split; auto; lia].
Qed.

(* everything in the after-list is a present node after the position *)
Lemma after_in : (forall t rel i, In i (after_t t rel) -> exists q tq, get_at t q = Some tq /\ t_info tq = i /\ alive tq = true /\ before rel q) /\
                 (forall f j rel i, In i (after_f f j rel) -> exists jq q' c tq, fget f jq = Some c /\ get_at c q' = Some tq /\
                      t_info tq = i /\ alive tq = true /\ (jq < j \/ (j = jq /\ before rel q'))).
Proof.
  apply tnode_forest_ind.
  - intros i s f IH rel x H. destruct rel as [|j rel']; cbn [after_t] in H.
    + change (al_f f) with (al_t (TN i s f)) in H. destruct (proj1 al_in _ _ H) as [p [tn [Hp [G [E A]]]]].
      exists p, tn. repeat split; auto. destruct p; [congruence|exact I].
    + destruct (IH j rel' x H) as [jq [q' [c [tq [F [G [E [A B]]]]]]]].
      exists (jq :: q'), tq. simpl. rewrite F. repeat split; auto.
  - intros j rel i H. destruct H.
  - intros f IH j rel i H. destruct j as [|j']; cbn [after_f] in H; [destruct H|]. rewrite app_nil_r in H.
    destruct (IH j' rel i H) as [jq [q' [c [tq [F [G [E [A B]]]]]]]].
    exists (S jq), q', c, tq. simpl. repeat split; auto. destruct B as [B|[E2 B]]; [left; lia|right; split; auto; lia].
  - intros t f IHt IHf j rel i H. destruct j as [|j']; cbn [after_f] in H.
    + destruct (IHt rel i H) as [q [tq [G [E [A B]]]]]. exists 0, q, t, tq. simpl. repeat split; auto.
    + apply in_app_or in H. destruct H as [H|H].
      * destruct (IHf j' rel i H) as [jq [q' [c [tq [F [G [E [A B]]]]]]]].
        exists (S jq), q', c, tq. simpl. repeat split; auto. destruct B as [B|[E2 B]]; [left; lia|right; split; auto; lia].
      * apply in_app_or in H. destruct H as [H|H].
        -- destruct (alive t) eqn:A; [|destruct H]. destruct H as [H|[]]. subst i.
           exists 0, [], t, t. simpl. repeat split; auto. left. lia.
        -- destruct (proj1 al_in _ _ H) as [p [tn [Hp [G [E A]]]]].
           exists 0, p, t, tn. simpl. repeat split; auto. left. lia.
Qed.
