(* C19: lemmas about the sequential model of lib/array.c (ArrayModel.v). *)
From Coq Require Import ZArith List Bool NArith Lia.
Import ListNotations.
Require Import Verif.gen.Consts_array Verif.ArrayModel.
Local Open Scope Z_scope.

(* ---- facts about the regenerated constants (re-checked whenever array.c / qbarray.h change) ---- *)
Lemma epb_pow2 : ARRAY_ELEMS_PER_BIN = 2 ^ ARRAY_INDEX_BITS_PER_BIN.
Proof. reflexivity. Qed.
Lemma bits_nonneg : 0 <= ARRAY_INDEX_BITS_PER_BIN.
Proof. unfold ARRAY_INDEX_BITS_PER_BIN; lia. Qed.
Lemma epb_pos : 0 < ARRAY_ELEMS_PER_BIN.
Proof. reflexivity. Qed.
Lemma max_elements_split : ARRAY_MAX_ELEMENTS = ARRAY_MAX_BINS * ARRAY_ELEMS_PER_BIN.
Proof. reflexivity. Qed.
Lemma max_bins_pos : 0 < ARRAY_MAX_BINS.
Proof. reflexivity. Qed.
Lemma probes_agree :
  bin_of 65535 = ARRAY_PROBE_BIN_OF_65535 /\ elem_of 65535 = ARRAY_PROBE_ELEM_OF_65535 /\
  bin_of 4660 = ARRAY_PROBE_BIN_OF_4660 /\ elem_of 4660 = ARRAY_PROBE_ELEM_OF_4660.
Proof. repeat split; reflexivity. Qed.

(* ---- bit slicing: for EVERY non-negative index (not only those below 65536) ---- *)
Lemma bin_of_div : forall idx, bin_of idx = idx / ARRAY_ELEMS_PER_BIN.
Proof.
  intros idx. unfold bin_of. rewrite Z.shiftr_div_pow2 by apply bits_nonneg.
  rewrite epb_pow2. reflexivity.
Qed.

Lemma elem_of_mod : forall idx, elem_of idx = idx mod ARRAY_ELEMS_PER_BIN.
Proof.
  intros idx. unfold elem_of.
  replace (ARRAY_ELEMS_PER_BIN - 1) with (Z.ones ARRAY_INDEX_BITS_PER_BIN) by reflexivity.
  rewrite Z.land_ones by apply bits_nonneg. rewrite epb_pow2. reflexivity.
Qed.

Lemma bin_slot : forall idx,
  idx = ARRAY_ELEMS_PER_BIN * bin_of idx + elem_of idx /\ 0 <= elem_of idx < ARRAY_ELEMS_PER_BIN.
Proof.
  intros idx. rewrite bin_of_div, elem_of_mod. pose proof epb_pos as Hp. split.
  - apply Z.div_mod. lia.
  - apply Z.mod_pos_bound. exact Hp.
Qed.
