(* C19: lemmas about the sequential model of lib/array.c (ArrayModel.v). *)
From Coq Require Import ZArith List Bool NArith Lia.
Import ListNotations.
Require Import Verif.gen.Consts_array Verif.ArrayModel.
Local Open Scope Z_scope.

Ltac splits := repeat match goal with |- _ /\ _ => split end.

(* ---- facts about the regenerated constants (re-checked whenever array.c / qbarray.h change) ---- *)
Lemma epb_pow2 : ARRAY_ELEMS_PER_BIN = 2 ^ ARRAY_INDEX_BITS_PER_BIN.
Proof. reflexivity. Qed.
Lemma bits_nonneg : 0 <= ARRAY_INDEX_BITS_PER_BIN.
Proof. unfold ARRAY_INDEX_BITS_PER_BIN; lia. Qed.
Lemma epb_pos : 0 < ARRAY_ELEMS_PER_BIN.
Proof. reflexivity. Qed.
Lemma max_elements_split : ARRAY_MAX_ELEMENTS = ARRAY_MAX_BINS * ARRAY_ELEMS_PER_BIN.
Proof. reflexivity. Qed.
Lemma max_bins_pos : 0 < ARRAY_MAX_BINS.
Proof. reflexivity. Qed.
Lemma probes_agree :
  bin_of 65535 = ARRAY_PROBE_BIN_OF_65535 /\ elem_of 65535 = ARRAY_PROBE_ELEM_OF_65535 /\
  bin_of 4660 = ARRAY_PROBE_BIN_OF_4660 /\ elem_of 4660 = ARRAY_PROBE_ELEM_OF_4660.
Proof. repeat split; reflexivity. Qed.

(* ---- bit slicing: for EVERY non-negative index (not only those below 65536) ---- *)
Lemma bin_of_div : forall idx, bin_of idx = idx / ARRAY_ELEMS_PER_BIN.
Proof.
  intros idx. unfold bin_of. rewrite Z.shiftr_div_pow2 by apply bits_nonneg.
  rewrite epb_pow2. reflexivity.
Qed.

Lemma elem_of_mod : forall idx, elem_of idx = idx mod ARRAY_ELEMS_PER_BIN.
Proof.
  intros idx. unfold elem_of.
  replace (ARRAY_ELEMS_PER_BIN - 1) with (Z.ones ARRAY_INDEX_BITS_PER_BIN) by reflexivity.
  rewrite Z.land_ones by apply bits_nonneg. rewrite epb_pow2. reflexivity.
Qed.

Lemma bin_slot : forall idx,
  idx = ARRAY_ELEMS_PER_BIN * bin_of idx + elem_of idx /\ 0 <= elem_of idx < ARRAY_ELEMS_PER_BIN.
Proof.
  intros idx. rewrite bin_of_div, elem_of_mod. pose proof epb_pos as Hp. split.
  - apply Z.div_mod. lia.
  - apply Z.mod_pos_bound. exact Hp.
Qed.

(* ======================================================================================== *)
(* list helpers *)

Definition slot (l : list (option Z)) (n : nat) : option Z :=
  match nth_error l n with Some x => x | None => None end.

Lemma bin_get_slot : forall w b, bin_get w b = slot (bins w) (Z.to_nat b).
Proof. reflexivity. Qed.

Lemma slot_app_none : forall l k n, slot (l ++ repeat None k) n = slot l n.
Proof.
  intros l k n. unfold slot. destruct (Nat.lt_ge_cases n (length l)) as [H|H].
  - rewrite nth_error_app1 by exact H. reflexivity.
  - rewrite nth_error_app2 by exact H.
    replace (nth_error l n) with (@None (option Z)) by (symmetry; apply nth_error_None; exact H).
    destruct (nth_error (repeat None k) (n - length l)) as [x|] eqn:E; [|reflexivity].
    apply nth_error_In in E. apply repeat_spec in E. exact E.
Qed.

Lemma slot_repeat_none : forall k n, slot (repeat None k) n = None.
Proof. intros k n. change (repeat None k) with ([] ++ repeat (@None Z) k). rewrite slot_app_none. destruct n; reflexivity. Qed.

Lemma length_upd : forall A (l : list A) n x, length (upd l n x) = length l.
Proof. induction l as [|a l IH]; intros [|n] x; simpl; auto. Qed.

Lemma nth_error_upd_same : forall A (l : list A) n x, (n < length l)%nat -> nth_error (upd l n x) n = Some x.
Proof. induction l as [|a l IH]; intros [|n] x H; simpl in *; try lia; auto. apply IH. lia. Qed.

Lemma nth_error_upd_other : forall A (l : list A) n m x, n <> m -> nth_error (upd l n x) m = nth_error l m.
Proof. induction l as [|a l IH]; intros [|n] [|m] x H; simpl in *; auto; try congruence. Qed.

Lemma slot_upd_same : forall l n x, (n < length l)%nat -> slot (upd l n x) n = x.
Proof. intros. unfold slot. rewrite nth_error_upd_same by assumption. reflexivity. Qed.

Lemma slot_upd_other : forall l n m x, n <> m -> slot (upd l n x) m = slot l m.
Proof. intros. unfold slot. rewrite nth_error_upd_other by assumption. reflexivity. Qed.

Lemma slot_some_lt : forall l n id, slot l n = Some id -> (n < length l)%nat.
Proof.
  intros l n id H. unfold slot in H. destruct (nth_error l n) eqn:E; [|discriminate].
  apply nth_error_Some. congruence.
Qed.

Lemma firstn_all_ge : forall A (l : list A) n, (length l <= n)%nat -> firstn n l = l.
Proof. intros. apply firstn_all2. assumption. Qed.

(* ======================================================================================== *)
(* effect of the building blocks on the table *)

Lemma grow_bin_array_bins : forall w n, num_bins w <= n ->
  bins (grow_bin_array w n) = bins w ++ repeat None (Z.to_nat (n - num_bins w)).
Proof.
  intros w n H. unfold grow_bin_array, set_bins; cbn [bins]. rewrite firstn_all_ge; [reflexivity|].
  unfold num_bins in H. lia.
Qed.

Lemma grow_bin_array_slot : forall w n k, num_bins w <= n -> slot (bins (grow_bin_array w n)) k = slot (bins w) k.
Proof. intros. rewrite grow_bin_array_bins by assumption. apply slot_app_none. Qed.

Lemma grow_bin_array_num : forall w n, num_bins w <= n -> num_bins (grow_bin_array w n) = n.
Proof.
  intros w n H. unfold num_bins at 1. rewrite grow_bin_array_bins by assumption.
  rewrite app_length, repeat_length. unfold num_bins in *. lia.
Qed.

(* everything except the table is untouched *)
Definition same_rest (w w' : world) : Prop :=
  maxel w' = maxel w /\ esize w' = esize w /\ autog w' = autog w /\ cbset w' = cbset w /\
  heap w' = heap w /\ cache w' = cache w.

Lemma grow_bin_array_rest : forall w n, same_rest w (grow_bin_array w n).
Proof. intros. unfold same_rest, grow_bin_array, set_bins; cbn. tauto. Qed.

(* ======================================================================================== *)
(* where an index lives *)

Definition addr_of (w : world) (i : Z) : option (Z * Z) :=
  match bin_get w (bin_of i) with
  | Some blk => Some (blk, esize w * elem_of i)
  | None => None
  end.

Record Inv (w : world) : Prop := {
  inv_max : 0 <= maxel w <= ARRAY_MAX_ELEMENTS;
  inv_es : 1 <= esize w;
  inv_nb : bins_for (maxel w) <= num_bins w;
  inv_blk : forall n id, slot (bins w) n = Some id ->
            0 <= id /\ exists bl, nth_error (heap w) (Z.to_nat id) = Some bl /\
                                  b_size bl = ARRAY_ELEMS_PER_BIN * esize w;
  inv_inj : forall n n' id, slot (bins w) n = Some id -> slot (bins w) n' = Some id -> n = n';
  inv_cache : forall i a, cache_get (cache w) i = Some a -> 0 <= i /\ addr_of w i = Some a
}.

(* the table only ever gains entries *)
Definition ext (w w' : world) : Prop :=
  esize w' = esize w /\ forall k id, slot (bins w) k = Some id -> slot (bins w') k = Some id.

Lemma ext_refl : forall w, ext w w.
Proof. intros; split; auto. Qed.

Lemma ext_trans : forall a b c, ext a b -> ext b c -> ext a c.
Proof. intros a b c [E1 H1] [E2 H2]. split; [congruence|]. intros; auto. Qed.

Lemma ext_addr_of : forall w w' i a, ext w w' -> addr_of w i = Some a -> addr_of w' i = Some a.
Proof.
  intros w w' i a [He Hs] H. unfold addr_of in *. rewrite bin_get_slot in *.
  destruct (slot (bins w) (Z.to_nat (bin_of i))) as [blk|] eqn:E; [|discriminate].
  rewrite (Hs _ _ E). rewrite He. exact H.
Qed.

Lemma Inv_transfer : forall w w', Inv w ->
  (forall k, slot (bins w') k = slot (bins w) k) -> esize w' = esize w -> heap w' = heap w ->
  cache w' = cache w -> 0 <= maxel w' <= ARRAY_MAX_ELEMENTS -> bins_for (maxel w') <= num_bins w' -> Inv w'.
Proof.
  intros w w' I Hs He Hh Hc Hm Hn. destruct I as [I1 I2 I3 I4 I5 I6]. constructor.
  - exact Hm.
  - rewrite He; exact I2.
  - exact Hn.
  - intros n id H. rewrite Hs in H. rewrite Hh, He. apply I4 with n. exact H.
  - intros n n' id H H'. rewrite Hs in *. eapply I5; eassumption.
  - intros i a H. rewrite Hc in H. destruct (I6 _ _ H) as [P Q]. split; [exact P|].
    unfold addr_of in *. rewrite bin_get_slot in *. rewrite Hs, He. exact Q.
Qed.

(* ---- qb_array_grow ---- *)
Lemma bins_for_bound : forall m, bins_for m <= ARRAY_MAX_BINS.
Proof. intros. unfold bins_for. lia. Qed.

Lemma do_grow_spec : forall w n w' rc, Inv w -> do_grow w n = (w', rc) ->
  (forall k, slot (bins w') k = slot (bins w) k) /\ esize w' = esize w /\ autog w' = autog w /\
  cbset w' = cbset w /\ heap w' = heap w /\ cache w' = cache w /\ num_bins w <= num_bins w' /\
  ((ARRAY_MAX_ELEMENTS < n /\ rc = - ARRAY_EINVAL /\ w' = w) \/
   (n <= ARRAY_MAX_ELEMENTS /\ rc = 0 /\ maxel w' = Z.max (maxel w) n /\ bins_for (maxel w') <= num_bins w')).
Proof.
  intros w n w' rc I H. unfold do_grow in H.
  destruct (ARRAY_MAX_ELEMENTS <? n) eqn:E1.
  { inversion H; subst. repeat split; auto; try lia. left. repeat split. lia. }
  destruct (n <=? maxel w) eqn:E2.
  { inversion H; subst. repeat split; auto; try lia. right. repeat split; try lia. apply (inv_nb _ I). }
  assert (Hnb : num_bins (set_maxel w n) = num_bins w) by reflexivity.
  destruct (num_bins (set_maxel w n) <? bins_for n) eqn:E3.
  - inversion H; subst. rewrite Hnb in E3.
    assert (Hle : num_bins (set_maxel w n) <= bins_for n + 1) by (rewrite Hnb; lia).
    repeat split; auto.
    + intros k. rewrite grow_bin_array_slot by exact Hle. reflexivity.
    + rewrite grow_bin_array_num by exact Hle. lia.
    + right. repeat split; try lia.
      * unfold grow_bin_array, set_bins, set_maxel; cbn [maxel]. lia.
      * rewrite grow_bin_array_num by exact Hle.
        unfold grow_bin_array, set_bins, set_maxel; cbn [maxel]. lia.
  - inversion H; subst. repeat split; auto; try lia. right. repeat split; try lia.
    + cbn [set_maxel maxel]. lia.
    + cbn [set_maxel maxel]. rewrite Hnb in *. lia.
Qed.

Lemma do_grow_inv : forall w n w' rc, Inv w -> do_grow w n = (w', rc) -> Inv w'.
Proof.
  intros w n w' rc I H. destruct (do_grow_spec _ _ _ _ I H) as (Hs & He & _ & _ & Hh & Hc & _ & D).
  destruct D as [(_ & _ & ->) | (Hn & _ & Hm & Hb)]; [exact I|].
  apply Inv_transfer with w; auto. pose proof (inv_max _ I). lia.
Qed.

Lemma do_grow_ext : forall w n w' rc, Inv w -> do_grow w n = (w', rc) -> ext w w'.
Proof.
  intros w n w' rc I H. destruct (do_grow_spec _ _ _ _ I H) as (Hs & He & _). split; [exact He|].
  intros k id Hk. rewrite Hs. exact Hk.
Qed.

(* ---- calloc of a bin ---- *)
Lemma alloc_bin_spec : forall w b, Inv w -> 0 <= b -> b < num_bins w -> bin_get w b = None ->
  Inv (alloc_bin w b) /\ ext w (alloc_bin w b) /\
  bin_get (alloc_bin w b) b = Some (Z.of_nat (length (heap w))) /\
  (forall k, k <> Z.to_nat b -> slot (bins (alloc_bin w b)) k = slot (bins w) k) /\
  heap (alloc_bin w b) = heap w ++ [zero_block (ARRAY_ELEMS_PER_BIN * esize w)] /\
  maxel (alloc_bin w b) = maxel w /\ esize (alloc_bin w b) = esize w /\ autog (alloc_bin w b) = autog w /\
  cbset (alloc_bin w b) = cbset w /\ cache (alloc_bin w b) = cache w /\ num_bins (alloc_bin w b) = num_bins w.
Proof.
  intros w b I Hb0 Hb Hnone.
  assert (Hlt : (Z.to_nat b < length (bins w))%nat) by (unfold num_bins in Hb; lia).
  assert (Hsame : bin_get (alloc_bin w b) b = Some (Z.of_nat (length (heap w)))).
  { rewrite bin_get_slot. unfold alloc_bin, set_bins; cbn [bins]. apply slot_upd_same. exact Hlt. }
  assert (Hoth : forall k, k <> Z.to_nat b -> slot (bins (alloc_bin w b)) k = slot (bins w) k).
  { intros k Hk. unfold alloc_bin, set_bins; cbn [bins]. apply slot_upd_other. congruence. }
  assert (Hext : ext w (alloc_bin w b)).
  { split; [reflexivity|]. intros k id Hk. destruct (Nat.eq_dec k (Z.to_nat b)) as [->|Hne].
    - rewrite bin_get_slot in Hnone. congruence.
    - rewrite Hoth by exact Hne. exact Hk. }
  assert (Hnum : num_bins (alloc_bin w b) = num_bins w).
  { unfold num_bins, alloc_bin, set_bins; cbn [bins]. rewrite length_upd. reflexivity. }
  split; [|repeat split; auto; apply Hext].
  destruct I as [I1 I2 I3 I4 I5 I6]. constructor.
  - exact I1.
  - exact I2.
  - rewrite Hnum. exact I3.
  - intros n id H. destruct (Nat.eq_dec n (Z.to_nat b)) as [->|Hne].
    + rewrite <- bin_get_slot, Hsame in H. inversion H; subst id. split; [lia|].
      exists (zero_block (ARRAY_ELEMS_PER_BIN * esize w)). split; [|reflexivity].
      unfold alloc_bin, set_bins, set_heap; cbn [heap]. rewrite Nat2Z.id.
      rewrite nth_error_app2 by lia. rewrite Nat.sub_diag. reflexivity.
    + rewrite Hoth in H by exact Hne. destruct (I4 _ _ H) as [P (bl & Q & R)]. split; [exact P|].
      exists bl. split; [|exact R]. unfold alloc_bin, set_bins, set_heap; cbn [heap].
      rewrite nth_error_app1; [exact Q|]. apply nth_error_Some. congruence.
  - intros n n' id H H'.
    assert (Hfresh : forall m, m <> Z.to_nat b -> slot (bins w) m <> Some (Z.of_nat (length (heap w)))).
    { intros m _ Hm. destruct (I4 _ _ Hm) as [_ (bl & Q & _)].
      assert ((Z.to_nat (Z.of_nat (length (heap w))) < length (heap w))%nat) by (apply nth_error_Some; congruence).
      lia. }
    destruct (Nat.eq_dec n (Z.to_nat b)) as [En|En]; destruct (Nat.eq_dec n' (Z.to_nat b)) as [En'|En'].
    + congruence.
    + subst n. rewrite <- bin_get_slot, Hsame in H. inversion H; subst id.
      rewrite Hoth in H' by exact En'. exfalso. eapply Hfresh; eassumption.
    + subst n'. rewrite <- bin_get_slot, Hsame in H'. inversion H'; subst id.
      rewrite Hoth in H by exact En. exfalso. eapply Hfresh; eassumption.
    + rewrite Hoth in H, H' by assumption. eapply I5; eassumption.
  - intros i a H. change (cache (alloc_bin w b)) with (cache w) in H. destruct (I6 _ _ H) as [P Q].
    split; [exact P|]. eapply ext_addr_of; eassumption.
Qed.

(* ---- the bin part of qb_array_index ---- *)
Lemma bin_of_nonneg : forall idx, 0 <= idx -> 0 <= bin_of idx.
Proof. intros. rewrite bin_of_div. apply Z.div_pos; [assumption|apply epb_pos]. Qed.

Lemma body_bin_spec : forall w idx w2 al, Inv w -> 0 <= idx -> body_bin w idx = (w2, al) ->
  Inv w2 /\ ext w w2 /\ maxel w2 = maxel w /\ esize w2 = esize w /\ autog w2 = autog w /\
  cbset w2 = cbset w /\ cache w2 = cache w /\
  exists blk, bin_get w2 (bin_of idx) = Some blk /\
   ((al = false /\ heap w2 = heap w /\ bin_get w (bin_of idx) = Some blk /\
     (forall k, slot (bins w2) k = slot (bins w) k)) \/
    (al = true /\ bin_get w (bin_of idx) = None /\ blk = Z.of_nat (length (heap w)) /\
     heap w2 = heap w ++ [zero_block (ARRAY_ELEMS_PER_BIN * esize w)] /\
     (forall k, k <> Z.to_nat (bin_of idx) -> slot (bins w2) k = slot (bins w) k))).
Proof.
  intros w idx w2 al I Hidx H. unfold body_bin in H.
  pose proof (bin_of_nonneg _ Hidx) as Hb0. set (b := bin_of idx) in *.
  destruct ((num_bins w <=? b) || is_none (bin_get w b)) eqn:E.
  2:{ inversion H; subst. apply orb_false_iff in E. destruct E as [E1 E2].
      destruct (bin_get w2 b) as [blk|] eqn:Eb; [|discriminate].
      splits; auto; try apply ext_refl. exists blk. split; [reflexivity|]. left. auto. }
  set (w1 := if num_bins w <=? b then grow_bin_array w (b + 1) else w) in *.
  assert (Hs1 : forall k, slot (bins w1) k = slot (bins w) k).
  { intros k. unfold w1. destruct (num_bins w <=? b) eqn:E1; [|reflexivity].
    apply grow_bin_array_slot. lia. }
  assert (Hr1 : same_rest w w1).
  { unfold w1. destruct (num_bins w <=? b); [apply grow_bin_array_rest|]. unfold same_rest; tauto. }
  destruct Hr1 as (Rm & Re & Ra & Rc & Rh & Rk).
  assert (Hn1 : b < num_bins w1 /\ num_bins w <= num_bins w1).
  { unfold w1. destruct (num_bins w <=? b) eqn:E1; [|lia]. rewrite grow_bin_array_num by lia. lia. }
  assert (I1 : Inv w1).
  { apply Inv_transfer with w; auto.
    - rewrite Rm. apply (inv_max _ I).
    - rewrite Rm. pose proof (inv_nb _ I). lia. }
  assert (Hext1 : ext w w1).
  { split; [exact Re|]. intros k id Hk. rewrite Hs1. exact Hk. }
  assert (Hg : bin_get w1 b = bin_get w b) by (rewrite !bin_get_slot; apply Hs1).
  destruct (bin_get w1 b) as [blk|] eqn:Eb.
  - inversion H; subst. splits; auto. exists blk. split; [exact Eb|]. left. splits; auto.
  - inversion H; subst.
    destruct (alloc_bin_spec w1 b I1 Hb0 (proj1 Hn1) Eb) as (J1 & J2 & J3 & J4 & J5 & J6 & J7 & J8 & J9 & J10 & J11).
    splits; try congruence.
    + eapply ext_trans; eassumption.
    + exists (Z.of_nat (length (heap w))). split; [rewrite J3; congruence|]. right.
      splits; try congruence.
      intros k Hk. rewrite J4 by exact Hk. apply Hs1.
Qed.

(* ---- qb_array_index as a whole ---- *)
Definition heap_step (w w' : world) (idx blk : Z) : Prop :=
  (heap w' = heap w /\ bin_get w (bin_of idx) = Some blk /\ (forall k, slot (bins w') k = slot (bins w) k)) \/
  (heap w' = heap w ++ [zero_block (ARRAY_ELEMS_PER_BIN * esize w)] /\ bin_get w (bin_of idx) = None /\
   blk = Z.of_nat (length (heap w)) /\
   (forall k, k <> Z.to_nat (bin_of idx) -> slot (bins w') k = slot (bins w) k)).

Definition index_fails (w : world) (idx rc : Z) : Prop :=
  (idx < 0 /\ rc = - ARRAY_ERANGE) \/
  (0 <= idx /\ maxel w <= idx /\ autog w = 0 /\ rc = - ARRAY_ERANGE) \/
  (0 <= idx /\ maxel w <= idx /\ autog w <> 0 /\ ARRAY_MAX_ELEMENTS < idx + 1 /\ rc = - ARRAY_EINVAL).

Definition index_succeeds (w : world) (idx : Z) : Prop :=
  0 <= idx /\ (idx < maxel w \/ (autog w <> 0 /\ idx + 1 <= ARRAY_MAX_ELEMENTS)).

Lemma index_pre_spec : forall w idx, Inv w -> 0 <= idx ->
  (exists rc, index_pre w idx = inl rc /\ index_fails w idx rc) \/
  (exists w1, index_pre w idx = inr w1 /\ index_succeeds w idx /\ Inv w1 /\
     (forall k, slot (bins w1) k = slot (bins w) k) /\ esize w1 = esize w /\ autog w1 = autog w /\
     cbset w1 = cbset w /\ heap w1 = heap w /\ cache w1 = cache w /\ maxel w1 = Z.max (maxel w) (idx + 1)).
Proof.
  intros w idx I Hidx. unfold index_pre, index_check. destruct (maxel w <=? idx) eqn:E1.
  - destruct (autog w =? 0) eqn:E2.
    + left. eexists. split; [reflexivity|]. right. left. splits; lia.
    + destruct (do_grow w (idx + 1)) as [w1 rc] eqn:Eg.
      destruct (do_grow_spec _ _ _ _ I Eg) as (Hs & He & Ha & Hc & Hh & Hk & _ & D).
      destruct D as [(Hn & -> & ->) | (Hn & -> & Hm & Hb)].
      * left. exists (- ARRAY_EINVAL). split; [reflexivity|]. right. right. splits; try lia.
      * right. exists w1. cbn. splits; auto.
        -- split; [lia|]. right. split; lia.
        -- eapply do_grow_inv; eassumption.
  - right. exists w. splits; auto.
    + split; [lia|]. left. lia.
    + lia.
Qed.

Lemma do_index_spec : forall w idx w' x, Inv w -> do_index w idx = (w', x) ->
  (exists rc, x = OIndex rc None [] /\ w' = w /\ index_fails w idx rc) \/
  (exists blk cbs, x = OIndex 0 (Some (blk, esize w * elem_of idx)) cbs /\ index_succeeds w idx /\
     Inv w' /\ ext w w' /\ esize w' = esize w /\ autog w' = autog w /\ cbset w' = cbset w /\
     maxel w' = Z.max (maxel w) (idx + 1) /\
     bin_get w' (bin_of idx) = Some blk /\ heap_step w w' idx blk /\
     cache w' = match cache_get (cache w) idx with
                | Some _ => cache w
                | None => (idx, (blk, esize w * elem_of idx)) :: cache w
                end).
Proof.
  intros w idx w' x I H. unfold do_index in H.
  destruct (idx <? 0) eqn:E0.
  { inversion H; subst. left. eexists. splits; try reflexivity. left. split; [lia|reflexivity]. }
  assert (Hidx : 0 <= idx) by lia.
  destruct (index_pre_spec w idx I Hidx) as
    [(rc & Ep & Hf) | (w1 & Ep & Hsuc & I1 & Hs1 & He1 & Ha1 & Hc1 & Hh1 & Hk1 & Hm1)]; rewrite Ep in H.
  { inversion H; subst. left. exists rc. splits; auto. }
  destruct (body_bin w1 idx) as [w2 al] eqn:Eb.
  destruct (body_bin_spec _ _ _ _ I1 Hidx Eb) as (I2 & X2 & Hm2 & He2 & Ha2 & Hc2 & Hk2 & blk & Hg2 & D).
  rewrite Hg2 in H. right. exists blk.
  assert (Hstep : heap_step w w2 idx blk).
  { destruct D as [(_ & Hh2 & Hb1 & Hs2) | (_ & Hb1 & Hblk & Hh2 & Hs2)].
    - left. splits.
      + congruence.
      + rewrite bin_get_slot in *. rewrite <- Hs1. exact Hb1.
      + intros k. rewrite Hs2. apply Hs1.
    - right. splits.
      + rewrite Hh2, Hh1, He1. reflexivity.
      + rewrite bin_get_slot in *. rewrite <- Hs1. exact Hb1.
      + rewrite Hblk, Hh1. reflexivity.
      + intros k Hk. rewrite Hs2 by exact Hk. apply Hs1. }
  assert (Hext : ext w w2).
  { eapply ext_trans; [|exact X2]. split; [exact He1|]. intros k id Hk. rewrite Hs1. exact Hk. }
  rewrite He2, He1 in H. rewrite Hk2, Hk1 in H.
  destruct (cache_get (cache w) idx) as [a0|] eqn:Ec.
  - inversion H; subst. eexists. splits; try reflexivity; try congruence; auto.
  - inversion H; subst. eexists. splits; try reflexivity; auto; cbn; try congruence.
    (* Inv with the extended cache *)
    destruct I2 as [J1 J2 J3 J4 J5 J6]. constructor; auto.
    intros i a Hi. cbn [cache set_cache cache_get] in Hi. destruct (idx =? i) eqn:Ei.
    + assert (i = idx) by lia. subst i. inversion Hi; subst a. split; [exact Hidx|].
      unfold addr_of. change (bin_get (set_cache w2 _) (bin_of idx)) with (bin_get w2 (bin_of idx)).
      rewrite Hg2. cbn [esize set_cache]. congruence.
    + rewrite <- Hk1, <- Hk2 in Hi. destruct (J6 _ _ Hi) as [P Q]. split; [exact P|]. exact Q.
Qed.

(* ======================================================================================== *)
(* caller-side memory *)

Lemma heap_store_spec : forall h blk off v h', heap_store h blk off v = Some h' ->
  length h' = length h /\
  (forall id bl, nth_error h id = Some bl -> exists bl', nth_error h' id = Some bl' /\ b_size bl' = b_size bl) /\
  (forall blk' off', heap_load h' blk' off' =
                     if (blk' =? blk) && (off' =? off) then Some v else heap_load h blk' off').
Proof.
  intros h blk off v h' H. unfold heap_store in H.
  destruct (nth_error h (Z.to_nat blk)) as [bl|] eqn:E; [|discriminate].
  destruct ((0 <=? blk) && (0 <=? off) && (off <? b_size bl)) eqn:G; [|discriminate].
  inversion H; subst h'; clear H.
  assert (Hlt : (Z.to_nat blk < length h)%nat) by (apply nth_error_Some; congruence).
  splits.
  - apply length_upd.
  - intros id bl0 H0. destruct (Nat.eq_dec (Z.to_nat blk) id) as [<-|Hne].
    + rewrite nth_error_upd_same by exact Hlt. eexists. split; [reflexivity|]. cbn. congruence.
    + rewrite nth_error_upd_other by exact Hne. eauto.
  - intros blk' off'. unfold heap_load.
    destruct (Nat.eq_dec (Z.to_nat blk) (Z.to_nat blk')) as [He|Hne].
    + rewrite <- He. rewrite nth_error_upd_same by exact Hlt. rewrite E. cbn [b_size b_data].
      destruct (0 <=? blk') eqn:G1.
      * assert (blk' = blk) by lia. subst blk'. rewrite Z.eqb_refl. cbn [andb].
        destruct (off' =? off) eqn:Eo.
        -- assert (off' = off) by lia. subst off'.
           assert ((0 <=? off) && (off <? b_size bl) = true) as -> by lia. reflexivity.
        -- reflexivity.
      * cbn [andb]. assert ((blk' =? blk) = false) by lia. rewrite H. reflexivity.
    + rewrite nth_error_upd_other by exact Hne.
      assert ((blk' =? blk) = false) as -> by lia. reflexivity.
Qed.

Lemma slot_offset_bound : forall es e k, 1 <= es -> 0 <= e < ARRAY_ELEMS_PER_BIN -> 0 <= k < es ->
  0 <= es * e + k < ARRAY_ELEMS_PER_BIN * es.
Proof. intros es e k H1 H2 H3. unfold ARRAY_ELEMS_PER_BIN in *. nia. Qed.

Lemma slot_offset_disjoint : forall es e e' k k', 1 <= es -> 0 <= k < es -> 0 <= k' < es -> e <> e' ->
  es * e + k <> es * e' + k'.
Proof. intros. nia. Qed.

Lemma store_in_bounds : forall w idx blk off k, Inv w -> cache_get (cache w) idx = Some (blk, off) ->
  0 <= k < esize w ->
  0 <= idx /\ bin_get w (bin_of idx) = Some blk /\ off = esize w * elem_of idx /\
  exists bl, nth_error (heap w) (Z.to_nat blk) = Some bl /\ 0 <= blk /\ 0 <= off + k < b_size bl.
Proof.
  intros w idx blk off k I Hc Hk. destruct (inv_cache _ I _ _ Hc) as [Hi Ha].
  unfold addr_of in Ha. destruct (bin_get w (bin_of idx)) as [blk0|] eqn:Eb; [|discriminate].
  inversion Ha; subst blk0 off. splits; auto.
  rewrite bin_get_slot in Eb. destruct (inv_blk _ I _ _ Eb) as [P (bl & Q & R)].
  exists bl. split; [exact Q|]. split; [exact P|]. rewrite R.
  apply slot_offset_bound; auto. apply (inv_es _ I). apply bin_slot.
Qed.

(* ======================================================================================== *)
(* every step keeps the invariant and only extends the table *)

Lemma step_inv_ext : forall w o, Inv w -> Inv (fst (step w o)) /\ ext w (fst (step w o)).
Proof.
  intros w o I. destruct o as [idx|n| |idx k v|idx k]; cbn [step].
  - destruct (do_index w idx) as [w' x] eqn:E. cbn [fst].
    destruct (do_index_spec _ _ _ _ I E) as [(rc & _ & -> & _) | (blk & cbs & _ & _ & I' & X & _)].
    + split; [exact I|apply ext_refl].
    + split; assumption.
  - destruct (do_grow w n) as [w' rc] eqn:E. cbn [fst]. split.
    + eapply do_grow_inv; eassumption.
    + eapply do_grow_ext; eassumption.
  - cbn. split; [exact I|apply ext_refl].
  - destruct (cache_get (cache w) idx) as [[blk off]|] eqn:Ec; [|cbn; split; [exact I|apply ext_refl]].
    destruct ((0 <=? k) && (k <? esize w)) eqn:Ek; [|cbn; split; [exact I|apply ext_refl]].
    destruct (heap_store (heap w) blk (off + k) v) as [h|] eqn:Es; [|cbn; split; [exact I|apply ext_refl]].
    cbn [fst]. destruct (heap_store_spec _ _ _ _ _ Es) as (Hl & Hb & _).
    split; [|split; [reflexivity|auto]].
    destruct I as [I1 I2 I3 I4 I5 I6]. constructor; auto.
    intros n id H. change (bins (set_heap w h)) with (bins w) in H.
    destruct (I4 _ _ H) as [P (bl & Q & R)]. split; [exact P|].
    destruct (Hb _ _ Q) as (bl' & Q' & R'). exists bl'. split; [exact Q'|]. cbn [esize set_heap]. congruence.
  - destruct (cache_get (cache w) idx) as [[blk off]|]; [|cbn; split; [exact I|apply ext_refl]].
    destruct ((0 <=? k) && (k <? esize w)); cbn; (split; [exact I|apply ext_refl]).
Qed.

Lemma run_inv_ext : forall ops w, Inv w -> Inv (fst (run w ops)) /\ ext w (fst (run w ops)).
Proof.
  induction ops as [|o ops IH]; intros w I; cbn [run].
  - split; [exact I|apply ext_refl].
  - destruct (step w o) as [w1 x] eqn:E. destruct (step_inv_ext w o I) as [I1 X1]. rewrite E in I1, X1. cbn [fst] in *.
    destruct (run w1 ops) as [w2 xs] eqn:E2. specialize (IH w1 I1). rewrite E2 in IH. cbn [fst] in *.
    destruct IH as [I2 X2]. split; [exact I2|]. eapply ext_trans; eassumption.
Qed.

Lemma run_app : forall l1 l2 w, run w (l1 ++ l2) =
  let '(w1, o1) := run w l1 in let '(w2, o2) := run w1 l2 in (w2, o1 ++ o2).
Proof.
  induction l1 as [|o l1 IH]; intros l2 w; cbn [run app].
  - destruct (run w l2); reflexivity.
  - destruct (step w o) as [w1 x]. rewrite IH. destruct (run w1 l1) as [w2 o1].
    destruct (run w2 l2) as [w3 o2]. reflexivity.
Qed.

(* ---- creation ---- *)
Lemma create_inv : forall max es auto cb w, 0 <= max -> create max es auto cb = Some w ->
  Inv w /\ maxel w = max /\ esize w = es /\ autog w = auto /\ cbset w = cb /\ heap w = [] /\ cache w = [] /\
  max <= ARRAY_MAX_ELEMENTS /\ 1 <= es /\ auto <= ARRAY_ELEMS_PER_BIN.
Proof.
  intros max es auto cb w Hm H. unfold create in H.
  destruct ((ARRAY_MAX_ELEMENTS <? max) || (es <? 1) || (ARRAY_ELEMS_PER_BIN <? auto)) eqn:E; [discriminate|].
  apply orb_false_iff in E. destruct E as [E E3]. apply orb_false_iff in E. destruct E as [E1 E2].
  inversion H; subst w; clear H. cbn. splits; auto; try lia.
  constructor; cbn; try lia.
  - unfold num_bins; cbn [bins]. rewrite repeat_length.
    assert (0 <= bins_for max).
    { unfold bins_for. pose proof max_bins_pos. pose proof epb_pos.
      assert (0 <= max / ARRAY_ELEMS_PER_BIN) by (apply Z.div_pos; lia). lia. }
    lia.
  - intros n id H. rewrite slot_repeat_none in H. discriminate.
  - intros n n' id H. rewrite slot_repeat_none in H. discriminate.
  - intros i a H. discriminate.
Qed.

(* ======================================================================================== *)
(* addresses: stable, disjoint, inside their block *)

Definition disjoint_ranges (es : Z) (a b : Z * Z) : Prop :=
  fst a <> fst b \/ snd a + es <= snd b \/ snd b + es <= snd a.

Lemma index_addr : forall w i w' rc a cbs, Inv w -> step w (Index i) = (w', OIndex rc (Some a) cbs) ->
  rc = 0 /\ 0 <= i < ARRAY_MAX_ELEMENTS /\ Inv w' /\ ext w w' /\ addr_of w' i = Some a /\
  (forall a0, addr_of w i = Some a0 -> a0 = a).
Proof.
  intros w i w' rc a cbs I H. cbn [step] in H.
  destruct (do_index_spec _ _ _ _ I H) as [(rc' & Hx & _) | (blk & cbs' & Hx & Hsuc & I' & X & He & _ & _ & _ & Hg & Hst & _)].
  { discriminate. }
  inversion Hx; subst rc a cbs. splits; auto.
  - apply Hsuc.
  - destruct Hsuc as [P [Q|[_ Q]]]; [pose proof (inv_max _ I)|]; lia.
  - unfold addr_of. rewrite Hg, He. reflexivity.
  - intros a0 Ha0. unfold addr_of in Ha0.
    destruct Hst as [(_ & Hb & _) | (_ & Hb & _)]; rewrite Hb in Ha0; [|discriminate].
    congruence.
Qed.

Lemma addr_disjoint_state : forall w i j a b, Inv w -> 0 <= i -> 0 <= j -> i <> j ->
  addr_of w i = Some a -> addr_of w j = Some b -> disjoint_ranges (esize w) a b.
Proof.
  intros w i j a b I Hi Hj Hne Ha Hb. unfold addr_of in *. rewrite !bin_get_slot in *.
  destruct (slot (bins w) (Z.to_nat (bin_of i))) as [bi|] eqn:Ei; [|discriminate].
  destruct (slot (bins w) (Z.to_nat (bin_of j))) as [bj|] eqn:Ej; [|discriminate].
  inversion Ha; inversion Hb; subst a b; clear Ha Hb. unfold disjoint_ranges; cbn [fst snd].
  destruct (Z.eq_dec bi bj) as [<-|Hd]; [|left; exact Hd]. right.
  assert (Hbin : bin_of i = bin_of j).
  { pose proof (inv_inj _ I _ _ _ Ei Ej). pose proof (bin_of_nonneg _ Hi). pose proof (bin_of_nonneg _ Hj). lia. }
  destruct (bin_slot i) as [Si Ri]. destruct (bin_slot j) as [Sj Rj].
  assert (elem_of i <> elem_of j) by (intro Heq; apply Hne; rewrite Si, Sj, Hbin, Heq; reflexivity).
  pose proof (inv_es _ I). nia.
Qed.

Lemma addr_in_block : forall w i blk off, Inv w -> 0 <= i -> addr_of w i = Some (blk, off) ->
  exists bl, nth_error (heap w) (Z.to_nat blk) = Some bl /\ 0 <= blk /\ 0 <= off /\ off + esize w <= b_size bl.
Proof.
  intros w i blk off I Hi Ha. unfold addr_of in Ha. rewrite bin_get_slot in Ha.
  destruct (slot (bins w) (Z.to_nat (bin_of i))) as [b0|] eqn:E; [|discriminate].
  inversion Ha; subst b0 off. destruct (inv_blk _ I _ _ E) as [P (bl & Q & R)].
  exists bl. splits; auto.
  - pose proof (inv_es _ I). destruct (bin_slot i) as [_ Rg]. nia.
  - rewrite R. pose proof (inv_es _ I). destruct (bin_slot i) as [_ Rg]. nia.
Qed.

Theorem addr_stable_trace : forall max es auto cb w0 ops1 ops2 i w1 o1 w2 rc1 a1 cbs1 w3 o3 w4 rc2 a2 cbs2,
  0 <= max -> create max es auto cb = Some w0 ->
  run w0 ops1 = (w1, o1) -> step w1 (Index i) = (w2, OIndex rc1 (Some a1) cbs1) ->
  run w2 ops2 = (w3, o3) -> step w3 (Index i) = (w4, OIndex rc2 (Some a2) cbs2) ->
  a1 = a2.
Proof.
  intros max es auto cb w0 ops1 ops2 i w1 o1 w2 rc1 a1 cbs1 w3 o3 w4 rc2 a2 cbs2 Hm Hc R1 S1 R2 S2.
  destruct (create_inv _ _ _ _ _ Hm Hc) as [I0 _].
  pose proof (run_inv_ext ops1 w0 I0) as [I1 _]. rewrite R1 in I1. cbn [fst] in I1.
  destruct (index_addr _ _ _ _ _ _ I1 S1) as (_ & _ & I2 & _ & A2 & _).
  pose proof (run_inv_ext ops2 w2 I2) as [I3 X3]. rewrite R2 in I3, X3. cbn [fst] in I3, X3.
  destruct (index_addr _ _ _ _ _ _ I3 S2) as (_ & _ & _ & _ & _ & U).
  apply U. eapply ext_addr_of; eassumption.
Qed.

Theorem addr_disjoint_trace : forall max es auto cb w0 ops1 ops2 i j w1 o1 w2 rc1 a cbs1 w3 o3 w4 rc2 b cbs2,
  0 <= max -> create max es auto cb = Some w0 ->
  run w0 ops1 = (w1, o1) -> step w1 (Index i) = (w2, OIndex rc1 (Some a) cbs1) ->
  run w2 ops2 = (w3, o3) -> step w3 (Index j) = (w4, OIndex rc2 (Some b) cbs2) ->
  i <> j ->
  disjoint_ranges es a b /\
  (exists bl, nth_error (heap w4) (Z.to_nat (fst a)) = Some bl /\ 0 <= snd a /\ snd a + es <= b_size bl) /\
  (exists bl, nth_error (heap w4) (Z.to_nat (fst b)) = Some bl /\ 0 <= snd b /\ snd b + es <= b_size bl).
Proof.
  intros max es auto cb w0 ops1 ops2 i j w1 o1 w2 rc1 a cbs1 w3 o3 w4 rc2 b cbs2 Hm Hc R1 S1 R2 S2 Hne.
  destruct (create_inv _ _ _ _ _ Hm Hc) as (I0 & _ & E0 & _).
  pose proof (run_inv_ext ops1 w0 I0) as [I1 X1]. rewrite R1 in I1, X1. cbn [fst] in I1, X1.
  destruct (index_addr _ _ _ _ _ _ I1 S1) as (_ & Ri & I2 & X2 & A2 & _).
  pose proof (run_inv_ext ops2 w2 I2) as [I3 X3]. rewrite R2 in I3, X3. cbn [fst] in I3, X3.
  destruct (index_addr _ _ _ _ _ _ I3 S2) as (_ & Rj & I4 & X4 & A4 & _).
  assert (A4i : addr_of w4 i = Some a) by (eapply ext_addr_of; [exact X4|]; eapply ext_addr_of; eassumption).
  assert (E4 : esize w4 = es).
  { destruct X1 as [e1 _], X2 as [e2 _], X3 as [e3 _], X4 as [e4 _]. congruence. }
  splits.
  - rewrite <- E4. apply (addr_disjoint_state w4 i j a b I4); [lia|lia|exact Hne|exact A4i|exact A4].
  - destruct a as [ba oa]. destruct (addr_in_block _ _ _ _ I4 (proj1 Ri) A4i) as (bl & P & _ & Q & R).
    exists bl. cbn [fst snd]. rewrite <- E4. auto.
  - destruct b as [bb ob]. destruct (addr_in_block _ _ _ _ I4 (proj1 Rj) A4) as (bl & P & _ & Q & R).
    exists bl. cbn [fst snd]. rewrite <- E4. auto.
Qed.
