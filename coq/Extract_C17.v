(* Extraction of the C17 / C18 map models (hashtable, skiplist).  ExtrOcamlBasic only; numbers stay inductive. *)
From Coq Require Import ExtrOcamlBasic.
Require Import Verif.MapSpec Verif.MapHashModel Verif.MapSkipModel Verif.MapRefModel.
Extraction "model_C17.ml" h_create hash_exec_step k_create skip_exec_step r_init ref_hash_step ref_skip_step.
